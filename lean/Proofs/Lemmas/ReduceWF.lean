import Proofs.Lemmas.ReduceEval
/-!
# Well-formedness of the reduced stack, congruence of `reduce_stack`, constant renumbering
-/
namespace Bingo
namespace ReduceLemmas
open Reduce Eval RuleDeps

/-! ## the reduced stack is well formed -/

theorem rowOK_newCmd {D : Nat} {L : Option Nat} {ops : Option (List Int)} {u : List Bool}
    {i : Nat} {cmd : Cmd} (hok : WF.rowOK D L ops i cmd = true)
    (hcl : Ops.isTerminal cmd.node = some false → u[cmd.p1.toNat]? = some true ∧
      (Ops.isArity2 cmd.node = some true → u[cmd.p2.toNat]? = some true)) :
    WF.rowOK D L ops (pos u i) (newCmd u cmd) = true := by
  cases rowOK_kind hok with
  | term ht h2 =>
    have : newCmd u cmd = cmd := by simp [newCmd, ht]
    rw [this]
    unfold WF.rowOK at hok ⊢
    simp only [ht, h2] at hok ⊢
    exact hok
  | op b ht h2 h10 h1i h20 h2i =>
    have hcl' := hcl ht
    have hlt1 : pos u cmd.p1.toNat < pos u i := pos_lt hcl'.1 (by omega)
    unfold WF.rowOK at hok ⊢
    cases b with
    | false =>
      have hn : newCmd u cmd = ⟨cmd.node, Int.ofNat (pos u cmd.p1.toNat),
          Int.ofNat (pos u cmd.p1.toNat)⟩ := by simp [newCmd, ht, h2]
      rw [hn]
      simp only [ht, h2, Bool.and_eq_true, decide_eq_true_eq] at hok ⊢
      refine ⟨⟨⟨⟨?_, ?_⟩, ?_⟩, ?_⟩, hok.2⟩ <;> simp <;> omega
    | true =>
      have hlt2 : pos u cmd.p2.toNat < pos u i := pos_lt (hcl'.2 h2) (by omega)
      have hn : newCmd u cmd = ⟨cmd.node, Int.ofNat (pos u cmd.p1.toNat),
          Int.ofNat (pos u cmd.p2.toNat)⟩ := by simp [newCmd, ht, h2]
      rw [hn]
      simp only [ht, h2, Bool.and_eq_true, decide_eq_true_eq] at hok ⊢
      refine ⟨⟨⟨⟨?_, ?_⟩, ?_⟩, ?_⟩, hok.2⟩ <;> simp <;> omega

theorem reduce_wf_of {D : Nat} {L : Option Nat} {ops : Option (List Int)} {u : List Bool}
    {s r : Stack} (hwf : WF.wf D L ops s = true) (hred : IsReduction u s r) :
    WF.wf D L ops r = true := by
  simp only [WF.wf, Bool.and_eq_true, Bool.not_eq_true', List.isEmpty_eq_false_iff]
  refine ⟨hred.ne, rowsOK_of_get r 0 ?_⟩
  intro j cmd hj
  have hjlt : j < pos u s.length := by
    rw [← hred.rlen]; exact (List.getElem?_eq_some_iff.mp hj).1
  obtain ⟨i, hi, hu, hp⟩ := pos_surj s.length j hjlt
  obtain ⟨c0, hc0⟩ : ∃ c0, s[i]? = some c0 := ⟨s[i], by simp⟩
  have := hred.rrow i c0 hc0 hu
  rw [hp, hj] at this
  cases this
  rw [Nat.zero_add, ← hp]
  exact rowOK_newCmd (wf_rowOK hwf hc0) (hred.closed i c0 hc0 hu)

/-! ## every row of the reduced stack is utilized -/

theorem reach_reduce {u : List Bool} {s r : Stack} (hred : IsReduction u s r)
    (hinv : UInv s 0 u) : ∀ i, Reach s i → Reach r (pos u i) := by
  intro i hr
  induction hr with
  | last _ =>
    rw [(pos_last hred).1]; exact Reach.last hred.ne
  | @p1 i a cmd hri hc ht hp ih =>
    have hui := hinv.complete hred.rows i hri
    cases hred.rows.kind i cmd hc with
    | term ht' _ => rw [ht] at ht'; cases ht'
    | op b _ h2 h10 h1i _ _ =>
      have hi := (List.getElem?_eq_some_iff.mp hc).1
      rw [pyIdx_nonneg h10 h1i (by omega)] at hp
      cases hp
      have hcl := hred.closed i cmd hc hui ht
      refine Reach.p1 ih (hred.rrow i cmd hc hui) (by simp [newCmd, ht]) ?_
      have : (newCmd u cmd).p1 = Int.ofNat (pos u cmd.p1.toNat) := by simp [newCmd, ht]
      rw [this]
      apply pyIdx_ofNat
      rw [hred.rlen]; exact pos_lt hcl.1 (by omega)
  | @p2 i b cmd hri hc ht h2 hp ih =>
    have hui := hinv.complete hred.rows i hri
    cases hred.rows.kind i cmd hc with
    | term ht' _ => rw [ht] at ht'; cases ht'
    | op b _ _ _ _ h20 h2i =>
      have hi := (List.getElem?_eq_some_iff.mp hc).1
      rw [pyIdx_nonneg h20 h2i (by omega)] at hp
      cases hp
      have hcl := hred.closed i cmd hc hui ht
      refine Reach.p2 ih (hred.rrow i cmd hc hui) (by simp [newCmd, ht])
        (by simpa [newCmd, ht] using h2) ?_
      have : (newCmd u cmd).p2 = Int.ofNat (pos u cmd.p2.toNat) := by simp [newCmd, ht, h2]
      rw [this]
      apply pyIdx_ofNat
      rw [hred.rlen]; exact pos_lt (hcl.2 h2) (by omega)

theorem reduce_all_used_of {u : List Bool} {s r : Stack} (hred : IsReduction u s r)
    (hinv : UInv s 0 u) (hrows' : Rows r) :
    utilized r = some (List.replicate r.length true) := by
  obtain ⟨u', hu', hinv'⟩ := utilized_inv hrows'
  rw [hu']
  congr 1
  apply List.ext_getElem?
  intro j
  by_cases hj : j < r.length
  · have hjlt : j < pos u s.length := by rw [← hred.rlen]; exact hj
    obtain ⟨i, hi, hu, hp⟩ := pos_surj s.length j hjlt
    have := hinv'.complete hrows' _ (reach_reduce hred hinv i (hinv.sound i hu))
    rw [hp] at this
    rw [this]; simp [hj]
  · rw [List.getElem?_eq_none (by rw [hinv'.len]; omega), List.getElem?_eq_none (by simp; omega)]

/-! ## `reduce_stack` only looks at utilized rows -/

/-- one iteration of `reduce_stack`'s loop with the rest of the loop as a continuation -/
def stepFn (used : List Bool) (cmd : Cmd) (i : Nat) (m : List (Int × Nat)) (out : List Cmd)
    (f : List (Int × Nat) → List Cmd → Option (List Cmd)) : Option (List Cmd) :=
  match used[i]? with
  | some true =>
    match Ops.isTerminal cmd.node with
    | none => none
    | some true => f ((Int.ofNat i, out.length) :: m) (out ++ [cmd])
    | some false =>
      match mapLookup m cmd.p1 with
      | none => none
      | some a =>
        match Ops.isArity2 cmd.node with
        | none => none
        | some true =>
          match mapLookup m cmd.p2 with
          | none => none
          | some b => f ((Int.ofNat i, out.length) :: m)
                        (out ++ [⟨cmd.node, Int.ofNat a, Int.ofNat b⟩])
        | some false => f ((Int.ofNat i, out.length) :: m)
                        (out ++ [⟨cmd.node, Int.ofNat a, Int.ofNat a⟩])
  | _ => f m out

theorem reduceLoop_cons (used : List Bool) (cmd : Cmd) (rest : List Cmd) (i : Nat)
    (m : List (Int × Nat)) (out : List Cmd) :
    reduceLoop used (cmd :: rest) i m out = stepFn used cmd i m out (reduceLoop used rest (i+1)) := by
  rfl

theorem stepFn_unused {used : List Bool} {i : Nat} (h : used[i]? ≠ some true) (cmd : Cmd)
    (m : List (Int × Nat)) (out : List Cmd) (f : List (Int × Nat) → List Cmd → Option (List Cmd)) :
    stepFn used cmd i m out f = f m out := by
  unfold stepFn
  split
  · rename_i h'; exact absurd h' h
  · rfl

theorem reduceLoop_congr (u : List Bool) :
    ∀ (rest rest' : List Cmd) (i : Nat) (m : List (Int × Nat)) (out : List Cmd),
      rest.length = rest'.length → (∀ k, u[i + k]? = some true → rest[k]? = rest'[k]?) →
      reduceLoop u rest i m out = reduceLoop u rest' i m out := by
  intro rest
  induction rest with
  | nil =>
    intro rest' i m out hl _
    cases rest' with
    | nil => rfl
    | cons _ _ => simp at hl
  | cons cmd rest ih =>
    intro rest' i m out hl hag
    cases rest' with
    | nil => simp at hl
    | cons cmd' rest' =>
      have hl' : rest.length = rest'.length := by simpa using hl
      have hag' : ∀ k, u[i + 1 + k]? = some true → rest[k]? = rest'[k]? := by
        intro k hk
        have := hag (k+1) (by rw [show i + (k+1) = i + 1 + k by omega]; exact hk)
        simpa using this
      have hf : reduceLoop u rest (i+1) = reduceLoop u rest' (i+1) := by
        funext m' out'; exact ih rest' (i+1) m' out' hl' hag'
      rw [reduceLoop_cons, reduceLoop_cons, hf]
      by_cases hu : u[i]? = some true
      · have := hag 0 (by simpa using hu)
        simp at this; subst this; rfl
      · rw [stepFn_unused hu, stepFn_unused hu]

theorem reduce_congr {s s' : Stack} {u : List Bool} (hu : utilized s = some u)
    (hu' : utilized s' = some u) (hl : s.length = s'.length)
    (hag : ∀ i : Nat, u[i]? = some true → s[i]? = s'[i]?) : reduce s = reduce s' := by
  simp only [reduce, hu, hu']
  exact reduceLoop_congr u s s' 0 [] [] hl (fun k hk => hag k (by simpa using hk))

/-- agreeing on the utilized rows of `s` is enough for `s'` to have the same mask -/
theorem reach_of_agree {s s' : Stack} {u : List Bool} (hrows : Rows s) (hinv : UInv s 0 u)
    (hne' : s' ≠ []) (hl : s.length = s'.length)
    (hag : ∀ i : Nat, u[i]? = some true → s[i]? = s'[i]?) (i : Nat) : Reach s i ↔ Reach s' i := by
  constructor
  · intro hr
    induction hr with
    | last _ => rw [hl]; exact Reach.last hne'
    | @p1 i a cmd hri hc ht hp ih =>
      have hui := hinv.complete hrows i hri
      exact Reach.p1 ih (by rw [← hag i hui]; exact hc) ht (by rw [← hl]; exact hp)
    | @p2 i b cmd hri hc ht h2 hp ih =>
      have hui := hinv.complete hrows i hri
      exact Reach.p2 ih (by rw [← hag i hui]; exact hc) ht h2 (by rw [← hl]; exact hp)
  · intro hr
    induction hr with
    | last _ => rw [← hl]; exact Reach.last hrows.ne
    | @p1 i a cmd _ hc ht hp ih =>
      have hui := hinv.complete hrows i ih
      exact Reach.p1 ih (by rw [hag i hui]; exact hc) ht (by rw [hl]; exact hp)
    | @p2 i b cmd _ hc ht h2 hp ih =>
      have hui := hinv.complete hrows i ih
      exact Reach.p2 ih (by rw [hag i hui]; exact hc) ht h2 (by rw [hl]; exact hp)

theorem utilized_eq_of_agree {s s' : Stack} {u : List Bool} (hrows : Rows s) (hrows' : Rows s')
    (hu : utilized s = some u) (hl : s.length = s'.length)
    (hag : ∀ i : Nat, u[i]? = some true → s[i]? = s'[i]?) : utilized s' = some u := by
  obtain ⟨u0, hu0, hinv⟩ := utilized_inv hrows
  rw [hu] at hu0; cases hu0
  obtain ⟨u', hu', hinv'⟩ := utilized_inv hrows'
  rw [hu']
  congr 1
  apply List.ext_getElem?
  intro i
  have hiff : u'[i]? = some true ↔ u[i]? = some true := by
    constructor
    · intro h
      exact hinv.complete hrows i ((reach_of_agree hrows hinv hrows'.ne hl hag i).mpr (hinv'.sound i h))
    · intro h
      exact hinv'.complete hrows' i ((reach_of_agree hrows hinv hrows'.ne hl hag i).mp (hinv.sound i h))
  by_cases hi : i < s.length
  · have h1 : i < u.length := by rw [hinv.len]; exact hi
    have h2 : i < u'.length := by rw [hinv'.len, ← hl]; exact hi
    rw [List.getElem?_eq_getElem h1, List.getElem?_eq_getElem h2] at hiff ⊢
    simp only [Option.some.injEq] at hiff ⊢
    cases hb : u[i] <;> cases hb' : u'[i] <;> simp [hb, hb'] at hiff ⊢
  · rw [List.getElem?_eq_none (by rw [hinv'.len, ← hl]; omega),
      List.getElem?_eq_none (by rw [hinv.len]; omega)]

/-! ## `WFEval` stacks evaluate when the data have the advertised shape -/

theorem rowOK_term_cases {D L i : Nat} {ops : Option (List Int)} {cmd : Cmd}
    (h : WF.rowOK D (some L) ops i cmd = true) (ht : Ops.isTerminal cmd.node = some true) :
    (cmd.node = Gen.OpDefs.VARIABLE ∧ 0 ≤ cmd.p1 ∧ cmd.p1 < D) ∨
    (cmd.node = Gen.OpDefs.CONSTANT ∧ 0 ≤ cmd.p1 ∧ cmd.p1 < L) ∨
    cmd.node = Gen.OpDefs.INTEGER := by
  cases rowOK_kind h with
  | op b ht' _ _ _ _ _ => rw [ht] at ht'; cases ht'
  | term _ h2 =>
    unfold WF.rowOK at h
    simp only [ht, h2] at h
    by_cases hv : cmd.node = Gen.OpDefs.VARIABLE
    · rw [if_pos hv] at h
      simp only [Bool.and_eq_true, decide_eq_true_eq] at h
      exact Or.inl ⟨hv, h⟩
    · rw [if_neg hv] at h
      by_cases hc : cmd.node = Gen.OpDefs.CONSTANT
      · rw [if_pos hc] at h
        simp only [Bool.and_eq_true, decide_eq_true_eq] at h
        exact Or.inr (Or.inl ⟨hc, h⟩)
      · rw [if_neg hc] at h
        exact Or.inr (Or.inr (by simpa using h))

theorem wfeval_loads {α : Type} [Scalar α] {D L : Nat} {s : Stack} (hwf : WF.WFEval D L s)
    {x c : List α} (hx : x.length = D) (hc : c.length = L) :
    ∀ (i : Nat) (cmd : Cmd), s[i]? = some cmd → Ops.isTerminal cmd.node = some true →
      (fwdRow s.length x c [] cmd).isSome = true := by
  intro i cmd hi ht
  have hok := wf_rowOK hwf hi
  have htab := leafTable_holds
  simp only [Bool.and_eq_true] at htab
  rcases rowOK_term_cases hok ht with ⟨hv, h0, h1⟩ | ⟨hv, h0, h1⟩ | hv
  · have hdef : Defined varPerm (fwdCtx s.length x c [] cmd) := by
      refine ⟨?_, ?_, ?_, ?_, ?_, ?_⟩ <;> intro h <;> try (simp [varPerm] at h; done)
      simp only [fwdCtx]
      rw [pyIdx_of_lt h0 (by omega)]
      simp; omega
    obtain ⟨e, he, hsome⟩ := leafOK_interp htab.1.1 hdef
    unfold fwdRow; rw [hv, he]; exact hsome
  · have hdef : Defined constPerm (fwdCtx s.length x c [] cmd) := by
      refine ⟨?_, ?_, ?_, ?_, ?_, ?_⟩ <;> intro h <;> try (simp [constPerm] at h; done)
      simp only [fwdCtx]
      rw [pyIdx_of_lt h0 (by omega)]
      simp; omega
    obtain ⟨e, he, hsome⟩ := leafOK_interp htab.1.2 hdef
    unfold fwdRow; rw [hv, he]; exact hsome
  · have hdef : Defined intPerm (fwdCtx s.length x c [] cmd) := by
      refine ⟨?_, ?_, ?_, ?_, ?_, ?_⟩ <;> intro h <;> simp [intPerm] at h
    obtain ⟨e, he, hsome⟩ := leafOK_interp htab.2 hdef
    unfold fwdRow; rw [hv, he]; exact hsome

theorem evalLast_isSome_of_loads {α : Type} [Scalar α] {s : Stack} (hrows : Rows s) {x c : List α}
    (hload : ∀ (i : Nat) (cmd : Cmd), s[i]? = some cmd → Ops.isTerminal cmd.node = some true →
      (fwdRow s.length x c [] cmd).isSome = true) :
    ∃ v, evalLast s x c = some v := by
  obtain ⟨acc, hacc⟩ := F_isSome_of_loads hrows x c hload s.length (Nat.le_refl _)
  have hl := F_length hacc (Nat.le_refl _)
  have hpos := List.length_pos_iff.mpr hrows.ne
  rw [evalLast_of_F hrows.ne hacc]
  exact ⟨acc[s.length - 1]'(by omega), by simp⟩

/-! ## constant renumbering -/

open Renumber Gen.OpDefs

theorem numConsts_cons_const {cmd : Cmd} (rest : List Cmd) (h : cmd.node = CONSTANT) :
    numConsts (cmd :: rest) = numConsts rest + 1 := by
  simp [numConsts, h]

theorem numConsts_cons_other {cmd : Cmd} (rest : List Cmd) (h : cmd.node ≠ CONSTANT) :
    numConsts (cmd :: rest) = numConsts rest := by
  simp [numConsts, h]

theorem go_length : ∀ (l : List Cmd) (k : Nat), (go l k).length = l.length := by
  intro l
  induction l with
  | nil => intro k; rfl
  | cons cmd rest ih =>
    intro k
    simp only [go]
    split <;> simp [ih]

theorem go_get_other : ∀ (l : List Cmd) (k i : Nat) (cmd : Cmd), l[i]? = some cmd →
    cmd.node ≠ CONSTANT → (go l k)[i]? = some cmd := by
  intro l
  induction l with
  | nil => intro k i cmd h; simp at h
  | cons hd rest ih =>
    intro k i cmd h hne
    simp only [go]
    cases i with
    | zero =>
      simp at h; subst h
      simp [hne]
    | succ i =>
      simp at h
      split
      · simpa using ih (k+1) i cmd h hne
      · simpa using ih k i cmd h hne

theorem go_get_const : ∀ (l : List Cmd) (k i : Nat) (cmd : Cmd), l[i]? = some cmd →
    cmd.node = CONSTANT →
    (go l k)[i]? = some ⟨CONSTANT, Int.ofNat (k + numConsts (l.take i)),
      Int.ofNat (k + numConsts (l.take i))⟩ := by
  intro l
  induction l with
  | nil => intro k i cmd h; simp at h
  | cons hd rest ih =>
    intro k i cmd h he
    simp only [go]
    cases i with
    | zero =>
      simp at h; subst h
      simp [he, numConsts]
    | succ i =>
      simp at h
      split
      · rename_i hc
        have := ih (k+1) i cmd h he
        rw [List.take_succ_cons, numConsts_cons_const _ hc]
        rw [show k + (numConsts (List.take i rest) + 1) = k + 1 + numConsts (List.take i rest) by omega]
        simpa using this
      · rename_i hc
        have := ih k i cmd h he
        rw [List.take_succ_cons, numConsts_cons_other _ hc]
        simpa using this

/-- the table facts renumbering relies on: `CONSTANT` is a terminal, and is not `VARIABLE` -/
theorem const_facts : Ops.isTerminal CONSTANT = some true ∧ Ops.isArity2 CONSTANT = some false ∧
    CONSTANT ≠ VARIABLE := by decide

theorem rowOK_const {D L i k : Nat} (h : k < L) :
    WF.rowOK D (some L) none i ⟨CONSTANT, Int.ofNat k, Int.ofNat k⟩ = true := by
  unfold WF.rowOK
  simp only [const_facts.1, const_facts.2.1, if_neg const_facts.2.2]
  simp; omega

theorem rowOK_other {D L i : Nat} {ops : Option (List Int)} {cmd : Cmd}
    (h : WF.rowOK D none ops i cmd = true) (hne : cmd.node ≠ CONSTANT) :
    WF.rowOK D (some L) none i cmd = true := by
  cases rowOK_kind h with
  | term ht h2 =>
    unfold WF.rowOK at h ⊢
    simp only [ht, h2, if_neg hne] at h ⊢
    exact h
  | op b ht h2 _ _ _ _ =>
    unfold WF.rowOK at h ⊢
    simp only [ht, h2, Bool.and_eq_true] at h ⊢
    exact ⟨h.1, trivial⟩

theorem go_rowsOK {D : Nat} {ops : Option (List Int)} :
    ∀ (l : List Cmd) (k i : Nat), WF.rowsOK D none ops i l = true →
      WF.rowsOK D (some (k + numConsts l)) none i (go l k) = true := by
  intro l
  induction l with
  | nil => intro k i _; rfl
  | cons cmd rest ih =>
    intro k i h
    simp only [WF.rowsOK, Bool.and_eq_true] at h
    simp only [go]
    split
    · rename_i hc
      simp only [WF.rowsOK, Bool.and_eq_true]
      rw [numConsts_cons_const _ hc]
      refine ⟨?_, ?_⟩
      · rw [hc]; exact rowOK_const (by omega)
      · have := ih (k+1) (i+1) h.2
        rw [show k + (numConsts rest + 1) = k + 1 + numConsts rest by omega]
        exact this
    · rename_i hc
      simp only [WF.rowsOK, Bool.and_eq_true]
      rw [numConsts_cons_other _ hc]
      exact ⟨rowOK_other h.1 hc, ih k (i+1) h.2⟩

theorem renumber_wfeval_of {D : Nat} {ops : Option (List Int)} {r : Stack}
    (h : WF.wf D none ops r = true) : WF.WFEval D (numConsts r) (renumber r) := by
  unfold WF.WFEval
  simp only [WF.wf, Bool.and_eq_true, Bool.not_eq_true', List.isEmpty_eq_false_iff] at h ⊢
  refine ⟨?_, ?_⟩
  · intro e
    have := go_length r 0
    unfold renumber at e
    rw [e] at this
    exact h.1 (List.length_eq_zero_iff.mp this.symm)
  · have := go_rowsOK (D := D) (ops := ops) r 0 0 h.2
    simpa [renumber] using this

/-! ## a decidable scalar type for concrete counterexamples -/

/-- `Int` with truncating division and all transcendental functions replaced by the identity:
only used to *run* `Eval.evalLast` by `decide` in examples -/
@[reducible] def intScalar : Scalar Int where
  ofInt := id
  add := (· + ·)
  sub := (· - ·)
  mul := (· * ·)
  div := (· / ·)
  pow := fun a _ => a
  sin := id
  cos := id
  sinh := id
  cosh := id
  exp := id
  log := id
  abs := id
  sqrt := id
  sign := id

end ReduceLemmas
end Bingo
