import Proofs.Lemmas.CasTermFoldF
/-!
# The hypotheses are necessary: where the model (and the Python code) does not terminate

None of these inputs can come out of a command stack.
-/
namespace Bingo
namespace Cas
namespace Term
open Gen.OpDefs Expr Auto

/-- `_simplify_product_rec([])` recurses forever (`operands[1:]` of `[]` is `[]`) -/
theorem simplifyProductRec_nil (st : Bool) : ∀ f, simplifyProductRec st f [] = .error "fuel"
  | 0 => by rw [simplifyProductRec.eq_1]; rfl
  | f+1 => by rw [simplifyProductRec.eq_2]; rfl

/-- hence a product without operands is never simplified -/
theorem simplifyProduct_nil (st : Bool) : ∀ f, simplifyProduct st f [] = .error "fuel"
  | 0 => by rw [simplifyProduct.eq_1]; rfl
  | f+1 => by
    rw [simplifyProduct.eq_3 _ _ _ (by intro a h; cases h)]
    simp only [List.any_nil, Bool.false_eq_true, if_false]
    rw [simplifyProductRec_nil]
    rfl

/-- and a constant power of a product without operands diverges: `NE` excludes such nodes -/
theorem simplifyConstantPower_emptyProduct (st : Bool) : ∀ f,
    simplifyConstantPower st f (node MULTIPLICATION []) (term CONSTANT 0 true) = .error "fuel"
  | 0 => by rw [simplifyConstantPower.eq_1]; rfl
  | f+1 => by
    rw [simplifyConstantPower.eq_2]
    simp only [isOne, isZero, intVal?, op, args]
    have h1 : (CONSTANT == INTEGER) = false := by decide
    have h2 : (MULTIPLICATION == POWER) = false := by decide
    have h3 : (MULTIPLICATION == MULTIPLICATION) = true := by decide
    simp only [h1, h2, h3, Bool.false_and, Bool.false_eq_true, if_false, if_true, List.mapM_nil]
    show (pure [] >>= fun parts => simplifyProduct st f parts) = _
    exact simplifyProduct_nil st f

/-- `_add_associative_operators_to_stack` on an empty list of locations recurses forever: the stack
builder needs nodes with at least one operand (`NEmp`) -/
theorem addAssociative_nil (op : Int) (d : StackDict) : ∀ f, addAssociative op f [] d = .error "fuel"
  | 0 => by rw [addAssociative]; rfl
  | f+1 => by
    rw [addAssociative]
    · simp only [List.length_nil, Nat.zero_div, List.take_nil]
      rw [addAssociative_nil op d f]
      rfl
    · intro l h; cases h

end Term
end Cas
end Bingo
