import Proofs.Lemmas.CasInterpC
import Proofs.Lemmas.CasInterpP
/-!
# Constant renumbering of a well-formed stack preserves its meaning

`Renumber.renumber r` gives the k-th `CONSTANT` row (in row order) the parameter `k`.  Evaluated with
the constant vector `constVals r c` (the values the `CONSTANT` rows of `r` load from `c`, in row order)
the renumbered stack means exactly what `r` means with `c`.
-/
namespace Bingo
namespace CasInterp
open Gen.OpDefs Cas Cas.Expr ETree Renumber ReduceLemmas

/-- the value a `CONSTANT` row loads from `c` (`0` if the load fails) -/
noncomputable def loadVal (c : List ℝ) (cmd : Cmd) : ℝ :=
  ((pyIdx c.length cmd.p1).bind (c[·]?)).getD 0

/-- the values loaded by the `CONSTANT` rows of `r`, in row order -/
noncomputable def constVals (r : Stack) (c : List ℝ) : List ℝ :=
  (r.filter (·.node = CONSTANT)).map (fun cmd => ((pyIdx c.length cmd.p1).bind (c[·]?)).getD 0)

theorem constVals_length (r : Stack) (c : List ℝ) :
    (constVals r c).length = Renumber.numConsts r := by
  simp [constVals, numConsts]

theorem constVals_cons_const {cmd : Cmd} (r : Stack) (c : List ℝ) (h : cmd.node = CONSTANT) :
    constVals (cmd :: r) c = loadVal c cmd :: constVals r c := by
  simp [constVals, loadVal, h]

theorem constVals_cons_other {cmd : Cmd} (r : Stack) (c : List ℝ) (h : cmd.node ≠ CONSTANT) :
    constVals (cmd :: r) c = constVals r c := by
  simp [constVals, h]

/-- the `CONSTANT` row at position `j` is the `numConsts (take j)`-th one -/
theorem constVals_get (c : List ℝ) : ∀ (r : Stack) (j : Nat) (cmd : Cmd), r[j]? = some cmd →
    cmd.node = CONSTANT → (constVals r c)[numConsts (r.take j)]? = some (loadVal c cmd) := by
  intro r
  induction r with
  | nil => intro j cmd h; simp at h
  | cons hd rest ih =>
    intro j cmd h hc
    cases j with
    | zero =>
      simp at h; subst h
      simp [constVals_cons_const _ _ hc, numConsts]
    | succ j =>
      simp at h
      rw [List.take_succ_cons]
      by_cases hh : hd.node = CONSTANT
      · rw [numConsts_cons_const _ hh, constVals_cons_const _ _ hh]
        simpa using ih j cmd h hc
      · rw [numConsts_cons_other _ hh, constVals_cons_other _ _ hh]
        exact ih j cmd h hc

/-- row by row: the tree of row `i` of `r` with constants `c` means what the tree of row `i` of the
renumbered stack means with constants `constVals r c` -/
theorem renumber_den_row {D L : Nat} {r : Stack} {c : List ℝ} (hwf : WF.WFEval D L r)
    (hc : c.length = L) (x : List ℝ) :
    ∀ (i : Nat), i < r.length →
      MathSem.den x c (treeAt r i) =
        MathSem.den x (constVals r c) (treeAt (Renumber.renumber r) i) := by
  intro i
  induction i using Nat.strong_induction_on with
  | _ i ih =>
    intro hi
    have hget : r[i]? = some r[i] := List.getElem?_eq_getElem hi
    generalize r[i] = cmd at hget
    have hrow := wf_rowOK hwf hget
    unfold WF.rowOK at hrow
    split at hrow
    · -- a terminal row
      rename_i ht ha
      rw [treeAt_leaf hget ht ha]
      by_cases hcn : cmd.node = CONSTANT
      · rw [if_neg (by rw [hcn]; decide), if_pos hcn] at hrow
        simp only [Bool.and_eq_true, decide_eq_true_eq] at hrow
        have hrow' : (Renumber.renumber r)[i]? = some ⟨CONSTANT,
            Int.ofNat (numConsts (r.take i)), Int.ofNat (numConsts (r.take i))⟩ := by
          have := go_get_const r 0 i cmd hget hcn
          rw [Nat.zero_add] at this; exact this
        rw [treeAt_leaf hrow' (by decide : Ops.isTerminal CONSTANT = some true)
          (by decide : Ops.isArity2 CONSTANT = some false)]
        have hk := constVals_get c r i cmd hget hcn
        have hklt := getElem?_lt' hk
        have hlt : cmd.p1.toNat < c.length := by omega
        have hload : (pyIdx c.length cmd.p1).bind (c[·]?) = some c[cmd.p1.toNat] := by
          rw [pyIdx_of_lt hrow.1 hlt]; simp [hlt]
        show MathSem.leaf x c cmd.node cmd.p1 =
          MathSem.leaf x (constVals r c) CONSTANT (Int.ofNat (numConsts (r.take i)))
        rw [hcn]
        unfold MathSem.leaf
        rw [if_neg (by decide), if_neg (by decide), if_pos rfl, if_neg (by decide),
          if_neg (by decide), if_pos rfl, pyIdx_ofNat hklt, hload]
        simp [hk, loadVal, hload]
      · have hrow' : (Renumber.renumber r)[i]? = some cmd := go_get_other r 0 i cmd hget hcn
        rw [treeAt_leaf hrow' ht ha]
        show MathSem.leaf x c cmd.node cmd.p1 = MathSem.leaf x (constVals r c) cmd.node cmd.p1
        unfold MathSem.leaf
        rw [if_neg hcn, if_neg hcn]
    · -- an operator row
      rename_i b ht ha
      simp only [Bool.and_eq_true, decide_eq_true_eq, Bool.and_true] at hrow
      obtain ⟨⟨⟨h10, h1i⟩, h20⟩, h2i⟩ := hrow
      have hcn : cmd.node ≠ CONSTANT := by
        intro h; rw [h] at ht; exact absurd ht (by decide)
      have hrow' : (Renumber.renumber r)[i]? = some cmd := go_get_other r 0 i cmd hget hcn
      have iha := ih cmd.p1.toNat (by omega) (by omega)
      have ihb := ih cmd.p2.toNat (by omega) (by omega)
      cases b with
      | true =>
        rw [treeAt_bin hget ht ha h10 (by omega) h20 (by omega),
          treeAt_bin hrow' ht ha h10 (by omega) h20 (by omega)]
        simp only [MathSem.den, iha, ihb]
      | false =>
        rw [treeAt_un hget ht ha h10 (by omega), treeAt_un hrow' ht ha h10 (by omega)]
        simp only [MathSem.den, iha]
    · cases hrow

/-- renumbering the constants of a well-formed stack, and permuting the constant vector accordingly,
does not change the meaning (equality of partial values) -/
theorem renumber_den {D L : Nat} {r : Stack} {c : List ℝ} (hwf : WF.WFEval D L r)
    (hc : c.length = L) (x : List ℝ) :
    MathSem.den x c (ETree.ofStack r) =
      MathSem.den x (constVals r c) (ETree.ofStack (Renumber.renumber r)) := by
  have hpos := wf_length_pos hwf
  rw [ofStack_eq, ofStack_eq, renumber_length']
  exact renumber_den_row hwf hc x (r.length - 1) (by omega)

theorem go_noconst : ∀ (r : List Cmd) (k : Nat), (∀ cmd ∈ r, cmd.node ≠ CONSTANT) →
    Renumber.go r k = r := by
  intro r
  induction r with
  | nil => intro k _; rfl
  | cons cmd rest ih =>
    intro k h
    simp only [Renumber.go]
    rw [if_neg (h cmd (by simp)), ih k (fun c' hc' => h c' (by simp [hc']))]

/-- a stack without `CONSTANT` rows is not changed by the renumbering -/
theorem renumber_noconst {r : Stack} (h : ∀ cmd ∈ r, cmd.node ≠ CONSTANT) :
    Renumber.renumber r = r := go_noconst r 0 h

theorem constVals_noconst {r : Stack} (c : List ℝ) (h : ∀ cmd ∈ r, cmd.node ≠ CONSTANT) :
    constVals r c = [] := by
  unfold constVals
  rw [List.map_eq_nil_iff, List.filter_eq_nil_iff]
  intro cmd hc
  simpa using h cmd hc

theorem numConsts_noconst {r : Stack} (h : ∀ cmd ∈ r, cmd.node ≠ CONSTANT) :
    Renumber.numConsts r = 0 := by
  rw [← constVals_length r [], constVals_noconst [] h]; rfl

/-! ## non-vacuity -/

example : Renumber.renumber [⟨1, 1, 1⟩, ⟨0, 0, 0⟩, ⟨1, 0, 0⟩, ⟨4, 0, 2⟩] =
    [⟨1, 0, 0⟩, ⟨0, 0, 0⟩, ⟨1, 1, 1⟩, ⟨4, 0, 2⟩] := by decide

example : WF.WFEval 1 2 [⟨1, 1, 1⟩, ⟨0, 0, 0⟩, ⟨1, 0, 0⟩, ⟨4, 0, 2⟩] := by decide

/-- the constant vector is permuted: row 0 loads `c[1]`, row 2 loads `c[0]` -/
example : constVals [⟨1, 1, 1⟩, ⟨0, 0, 0⟩, ⟨1, 0, 0⟩, ⟨4, 0, 2⟩] [10, 20] = [20, 10] := by
  simp [constVals, CONSTANT, pyIdx]

end CasInterp
end Bingo
