import Model.Tree
/-!
# Arity-respecting trees (core only, no Mathlib)

`ETree` lets any node number sit in any position.  The generated rules and the hand-written
specification only have to agree on trees that respect the arity tables at operator positions;
`trees` never produces anything else.
-/
namespace Bingo
namespace ETree

/-- no terminal node in a unary-operator position, no terminal / arity-1 node in a
binary-operator position (unknown node numbers are allowed everywhere) -/
def arityOK : ETree → Bool
  | bad => true
  | leaf _ _ => true
  | un n a => (Ops.isTerminal n != some true) && a.arityOK
  | bin n a b => (Ops.isArity2 n != some false) && a.arityOK && b.arityOK

theorem getT_arityOK (N : Nat) (acc : List ETree) (p : Int) (h : ∀ t ∈ acc, t.arityOK = true) :
    (getT N acc p).arityOK = true := by
  unfold getT
  cases pyIdx N p with
  | none => rfl
  | some j =>
    simp only [Option.bind_some]
    cases hj : acc[j]? with
    | none => rfl
    | some t => exact h t (List.mem_of_getElem? hj)

theorem rowTree_arityOK (N : Nat) (acc : List ETree) (cmd : Cmd)
    (h : ∀ t ∈ acc, t.arityOK = true) : (rowTree N acc cmd).arityOK = true := by
  unfold rowTree
  split
  · rfl
  · next ht _ => simp [arityOK, ht, getT_arityOK N acc _ h]
  · next _ ha => simp [arityOK, ha, getT_arityOK N acc _ h]
  · rfl

theorem treesAux_arityOK (N : Nat) (rest : List Cmd) (acc : List ETree)
    (h : ∀ t ∈ acc, t.arityOK = true) : ∀ t ∈ treesAux N rest acc, t.arityOK = true := by
  induction rest generalizing acc with
  | nil => simpa [treesAux] using h
  | cons cmd rest ih =>
    simp only [treesAux]
    apply ih
    intro t ht
    rcases List.mem_append.mp ht with ht | ht
    · exact h t ht
    · rw [List.mem_singleton.mp ht]; exact rowTree_arityOK N acc cmd h

/-- every tree the unfolding of a stack produces respects the arity tables -/
theorem trees_arityOK (s : Stack) : ∀ t ∈ trees s, t.arityOK = true :=
  treesAux_arityOK s.length s [] (by simp)

theorem ofStack_arityOK (s : Stack) : (ofStack s).arityOK = true := by
  unfold ofStack
  cases h : (trees s).getLast? with
  | none => rfl
  | some t => exact trees_arityOK s t (List.mem_of_getLast? h)

end ETree
end Bingo
