import Proofs.Lemmas.CasInterpBase
import Mathlib.Data.List.Forall2
/-!
# Target side of the simplifier: `build_agraph_stack` (CAS expression → command array)

`buildStackRec e d` appends the rows of `e` to the dictionary `d`, sharing equal rows.  From a
dictionary whose operator rows reference strictly earlier rows (`RowsOK`), and an expression of the
fragment `Ok true T`:

* the result extends `d`, is again `RowsOK`, the returned location is in range, and it is the LAST
  row whenever anything was appended (`Step`); from the empty dictionary the root is the last row
  (`buildStackRec_root_last`), which is the row the `AGraph` evaluates;
* wherever `e` has a meaning, the returned row denotes the same number (`RowDen`).
-/
namespace Bingo
namespace CasInterp
open Gen.OpDefs Cas Cas.Expr ETree

/-! ## rows -/

/-- row `c` may sit at position `i`: a terminal (`INTEGER` or allowed by `T`), or an operator whose
two parameters are earlier positions -/
def RowOKT (T : Int → Int → Bool) (i : Nat) (c : Cmd) : Prop :=
  (Ops.isTerminal c.node = some true ∧ (c.node = INTEGER ∨ T c.node c.p1 = true)) ∨
  (Ops.isTerminal c.node = some false ∧ 0 ≤ c.p1 ∧ c.p1 < i ∧ 0 ≤ c.p2 ∧ c.p2 < i)

/-- every row of the dictionary is `RowOKT` at its position -/
def RowsOK (T : Int → Int → Bool) (d : StackDict) : Prop :=
  ∀ (i : Nat) (c : Cmd), d[i]? = some c → RowOKT T i c

theorem RowsOK_nil (T : Int → Int → Bool) : RowsOK T [] := by
  intro i c h; simp at h

theorem RowOKT.mono_pos {T : Int → Int → Bool} {i j : Nat} {c : Cmd} (h : RowOKT T i c)
    (hij : i ≤ j) : RowOKT T j c := by
  rcases h with h | ⟨h1, h2, h3, h4, h5⟩
  · exact .inl h
  · exact .inr ⟨h1, h2, by omega, h4, by omega⟩

theorem RowsOK.snoc {T : Int → Int → Bool} {d : StackDict} {c : Cmd} (h : RowsOK T d)
    (hc : RowOKT T d.length c) : RowsOK T (d ++ [c]) := by
  intro i c' hi
  by_cases hlt : i < d.length
  · rw [List.getElem?_append_left hlt] at hi
    exact h i c' hi
  · have hi' := hi
    rw [List.getElem?_append_right (by omega)] at hi
    have : i - d.length = 0 := by
      by_contra hne
      rw [List.getElem?_eq_none (by simp; omega)] at hi; cases hi
    rw [this] at hi
    simp at hi; subst hi
    have : i = d.length := by omega
    rw [this]; exact hc

theorem getElem?_lt' {α : Type} {l : List α} {j : Nat} {c : α} (h : l[j]? = some c) :
    j < l.length := by
  by_contra hn
  rw [List.getElem?_eq_none (by omega)] at h; cases h

/-! ## `_add_command_to_stack_dict` -/

theorem cmd_beq {a b : Cmd} : (a == b) = true ↔ a = b := by
  cases a; cases b
  simp [BEq.beq, instBEqCmd.beq]

/-- either the command is already a row (the first such row is returned), or it is appended -/
theorem addCommand_cases (d : StackDict) (c : Cmd) :
    (∃ i : Nat, d[i]? = some c ∧ addCommand d c = (d, (i : Int))) ∨
    (addCommand d c = (d ++ [c], (d.length : Int))) := by
  unfold addCommand
  cases h : d.findIdx? (· == c) with
  | none => right; rfl
  | some i =>
    left
    obtain ⟨hi, hp, _⟩ := List.findIdx?_eq_some_iff_getElem.mp h
    refine ⟨i, ?_, rfl⟩
    rw [List.getElem?_eq_getElem hi, cmd_beq.mp hp]

/-- the invariant of one call: `d'` extends `d`, rows stay well-formed, the location is in range and
is the last row unless nothing was appended -/
structure Step (T : Int → Int → Bool) (d d' : StackDict) (loc : Int) : Prop where
  ext : ∃ ext, d' = d ++ ext
  rows : RowsOK T d'
  nonneg : 0 ≤ loc
  lt : loc.toNat < d'.length
  last : d' = d ∨ loc = (d'.length : Int) - 1

theorem RowDen.mono' {lf : Int → Int → Option ℝ} {d d' : List Cmd} {j : Nat} {v : ℝ}
    (h : RowDen lf d j v) (hext : ∃ ext, d' = d ++ ext) : RowDen lf d' j v := by
  obtain ⟨ext, rfl⟩ := hext
  exact h.mono ext

/-- adding an operator row whose parameters are valid locations -/
theorem addCommand_op {T : Int → Int → Bool} {d0 d d' : StackDict} {op a b loc : Int}
    (hrows : RowsOK T d) (hext : ∃ e, d = d0 ++ e) (hop : Ops.isTerminal op = some false)
    (ha : 0 ≤ a ∧ a.toNat < d.length) (hb : 0 ≤ b ∧ b.toNat < d.length)
    (hlast : d = d0 ∨ a = (d.length : Int) - 1 ∨ b = (d.length : Int) - 1)
    (h : addCommand d ⟨op, a, b⟩ = (d', loc)) :
    Step T d0 d' loc ∧ d'[loc.toNat]? = some ⟨op, a, b⟩ ∧ (∃ e, d' = d ++ e) ∧
      (a.toNat < loc.toNat ∧ b.toNat < loc.toNat) ∧
      ((a = (d.length : Int) - 1 ∨ b = (d.length : Int) - 1) → loc = (d'.length : Int) - 1) := by
  obtain ⟨e0, he0⟩ := hext
  rcases addCommand_cases d ⟨op, a, b⟩ with ⟨i, hi, heq⟩ | heq
  · rw [heq] at h
    obtain ⟨rfl, rfl⟩ := Prod.mk.inj h
    have hil := getElem?_lt' hi
    have hrow := hrows i _ hi
    have hbnd : a < i ∧ b < i := by
      rcases hrow with ⟨h1, _⟩ | ⟨_, _, h3, _, h5⟩
      · simp only at h1; rw [hop] at h1; cases h1
      · exact ⟨(h3 : a < i), (h5 : b < i)⟩
    have hnl : ¬ (a = (d.length : Int) - 1 ∨ b = (d.length : Int) - 1) := by omega
    refine ⟨⟨⟨e0, he0⟩, hrows, by omega, by simpa using hil, ?_⟩, by simpa using hi, ⟨[], by simp⟩,
      by simp only [Int.toNat_natCast]; omega, fun hl => absurd hl hnl⟩
    rcases hlast with hl | hl
    · exact .inl hl
    · exact absurd hl hnl
  · rw [heq] at h
    obtain ⟨rfl, rfl⟩ := Prod.mk.inj h
    have hnew : RowOKT T d.length ⟨op, a, b⟩ := by
      refine .inr ⟨hop, ha.1, ?_, hb.1, ?_⟩ <;> simp only <;> omega
    refine ⟨⟨⟨e0 ++ [⟨op, a, b⟩], by rw [he0]; simp⟩, hrows.snoc hnew, by omega, by simp,
      .inr (by simp)⟩, by simp, ⟨_, rfl⟩, by simp only [Int.toNat_natCast]; omega,
      fun _ => by simp⟩

/-- adding a terminal row -/
theorem addCommand_term {T : Int → Int → Bool} {d d' : StackDict} {o v loc : Int}
    (hrows : RowsOK T d) (ht : Ops.isTerminal o = some true) (hv : o = INTEGER ∨ T o v = true)
    (h : addCommand d ⟨o, v, v⟩ = (d', loc)) :
    Step T d d' loc ∧ d'[loc.toNat]? = some ⟨o, v, v⟩ := by
  rcases addCommand_cases d ⟨o, v, v⟩ with ⟨i, hi, heq⟩ | heq
  · rw [heq] at h
    obtain ⟨rfl, rfl⟩ := Prod.mk.inj h
    have hil := getElem?_lt' hi
    exact ⟨⟨⟨[], by simp⟩, hrows, by omega, by simpa using hil, .inl rfl⟩, by simpa using hi⟩
  · rw [heq] at h
    obtain ⟨rfl, rfl⟩ := Prod.mk.inj h
    have hnew : RowOKT T d.length ⟨o, v, v⟩ := .inl ⟨ht, hv⟩
    exact ⟨⟨⟨_, rfl⟩, hrows.snoc hnew, by omega, by simp, .inr (by simp)⟩, by simp⟩

/-! ## building `RowDen` facts for a row just added -/

theorem RowDen.ofBin {lf : Int → Int → Option ℝ} {d : List Cmd} {j : Nat} {op a b : Int}
    {va vb v : ℝ} (hrow : d[j]? = some ⟨op, a, b⟩) (ha0 : 0 ≤ a) (hb0 : 0 ≤ b)
    (hlt : a.toNat < j ∧ b.toNat < j) (hda : RowDen lf d a.toNat va) (hdb : RowDen lf d b.toNat vb)
    (hbin : MathSem.bin op va vb = some v) : RowDen lf d j v :=
  .bin hrow (bin_some_tables hbin).1 (bin_some_tables hbin).2 ha0 hlt.1 hb0 hlt.2 hda hdb hbin

theorem RowDen.ofUn {lf : Int → Int → Option ℝ} {d : List Cmd} {j : Nat} {op a b : Int}
    {va v : ℝ} (hrow : d[j]? = some ⟨op, a, b⟩) (ha0 : 0 ≤ a)
    (hlt : a.toNat < j) (hda : RowDen lf d a.toNat va)
    (hun : MathSem.un op va = some v) : RowDen lf d j v :=
  .un hrow (un_some_tables hun).1 (un_some_tables hun).2 ha0 hlt hda hun

/-! ## `_add_associative_operators_to_stack` -/

theorem addAssoc_unfold (op : Int) (fuel : Nat) (locs : List Int) (d : StackDict)
    (h : ∀ l, locs ≠ [l]) :
    addAssociative op (fuel + 1) locs d = (do
      let half := locs.length / 2
      let (d, loc1) ← addAssociative op fuel (locs.take half) d
      let (d, loc2) ← addAssociative op fuel (locs.drop half) d
      pure (addCommand d ⟨op, loc1, loc2⟩)) := by
  rw [addAssociative]
  intro l hl; exact h l hl

section assoc
variable {T : Int → Int → Bool} (lf : Int → Int → Option ℝ)

/-- the balanced binary tree over valid locations: the `Step` invariant; if the last row of the
incoming dictionary is among the locations the result is the last row; and for `ADDITION` /
`MULTIPLICATION` the result denotes the sum / product of what the locations denote -/
theorem addAssoc_spec {op : Int} (hop : Ops.isTerminal op = some false) :
    ∀ (fuel : Nat) (locs : List Int) (d d' : StackDict) (loc : Int), RowsOK T d →
      (∀ l ∈ locs, 0 ≤ l ∧ l.toNat < d.length) →
      addAssociative op fuel locs d = .ok (d', loc) →
      Step T d d' loc ∧ (((d.length : Int) - 1) ∈ locs → loc = (d'.length : Int) - 1) ∧
      (∀ vals : List ℝ, List.Forall₂ (fun l v => RowDen lf d l.toNat v) locs vals →
        (op = ADDITION → RowDen lf d' loc.toNat vals.sum) ∧
        (op = MULTIPLICATION → RowDen lf d' loc.toNat vals.prod)) := by
  intro fuel
  induction fuel with
  | zero => intro locs d d' loc _ _ h; simp [addAssociative] at h
  | succ fuel ih =>
    intro locs d d' loc hrows hvalid h
    by_cases hsing : ∃ l, locs = [l]
    · obtain ⟨l, rfl⟩ := hsing
      simp only [addAssociative] at h
      obtain ⟨rfl, rfl⟩ := Prod.mk.inj (Except.ok.inj h)
      have hl := hvalid l (by simp)
      refine ⟨⟨⟨[], by simp⟩, hrows, hl.1, hl.2, .inl rfl⟩, ?_, ?_⟩
      · intro hm; simp at hm; omega
      · intro vals hv
        cases hv with
        | cons h1 h2 =>
          cases h2
          simp only [List.sum_cons, List.sum_nil, add_zero, List.prod_cons, List.prod_nil, mul_one]
          exact ⟨fun _ => h1, fun _ => h1⟩
    · have hns : ∀ l, locs ≠ [l] := fun l hl => hsing ⟨l, hl⟩
      rw [addAssoc_unfold op fuel locs d hns] at h
      obtain ⟨⟨d1, loc1⟩, h1, h⟩ := bind_ok h
      obtain ⟨⟨d2, loc2⟩, h2, h⟩ := bind_ok h
      have h3 : addCommand d2 ⟨op, loc1, loc2⟩ = (d', loc) := Except.ok.inj h
      clear h
      -- first half
      have hv1 : ∀ l ∈ locs.take (locs.length / 2), 0 ≤ l ∧ l.toNat < d.length :=
        fun l hl => hvalid l (List.mem_of_mem_take hl)
      obtain ⟨S1, L1, Sem1⟩ := ih _ d d1 loc1 hrows hv1 h1
      obtain ⟨e1, he1⟩ := S1.ext
      have hlen1 : d.length ≤ d1.length := by rw [he1]; simp
      -- second half
      have hv2 : ∀ l ∈ locs.drop (locs.length / 2), 0 ≤ l ∧ l.toNat < d1.length := by
        intro l hl
        have := hvalid l (List.mem_of_mem_drop hl)
        exact ⟨this.1, by omega⟩
      obtain ⟨S2, L2, Sem2⟩ := ih _ d1 d2 loc2 S1.rows hv2 h2
      obtain ⟨e2, he2⟩ := S2.ext
      have hlen2 : d1.length ≤ d2.length := by rw [he2]; simp
      -- the new row
      have hd2 : ∃ e, d2 = d ++ e := ⟨e1 ++ e2, by rw [he2, he1]; simp⟩
      have hlastref : d2 = d ∨ loc1 = (d2.length : Int) - 1 ∨ loc2 = (d2.length : Int) - 1 := by
        rcases S2.last with hl2 | hl2
        · rcases S1.last with hl1 | hl1
          · exact .inl (by rw [hl2, hl1])
          · exact .inr (.inl (by rw [hl2]; exact hl1))
        · exact .inr (.inr hl2)
      obtain ⟨S3, hrow, hext3, hbnd, hl3⟩ := addCommand_op S2.rows hd2 hop
        ⟨S1.nonneg, by have := S1.lt; omega⟩ ⟨S2.nonneg, S2.lt⟩ hlastref h3
      refine ⟨S3, ?_, ?_⟩
      · intro hm
        apply hl3
        rw [← List.take_append_drop (locs.length / 2) locs, List.mem_append] at hm
        rcases hm with hm | hm
        · have hl1 := L1 hm
          rcases S2.last with hl2 | hl2
          · exact .inl (by rw [hl2]; exact hl1)
          · exact .inr hl2
        · rcases S1.last with hl1 | hl1
          · rw [← hl1] at hm
            exact .inr (L2 hm)
          · rcases S2.last with hl2 | hl2
            · exact .inl (by rw [hl2]; exact hl1)
            · exact .inr hl2
      · intro vals hv
        have hvt := List.forall₂_take (locs.length / 2) hv
        have hvd := List.forall₂_drop (locs.length / 2) hv
        have hvd' : List.Forall₂ (fun l v => RowDen lf d1 l.toNat v)
            (locs.drop (locs.length / 2)) (vals.drop (locs.length / 2)) :=
          hvd.imp (fun _ _ hr => hr.mono' S1.ext)
        obtain ⟨A1, M1⟩ := Sem1 _ hvt
        obtain ⟨A2, M2⟩ := Sem2 _ hvd'
        have hd1' : ∃ e, d' = d1 ++ e := by
          obtain ⟨e3, he3⟩ := hext3
          exact ⟨e2 ++ e3, by rw [he3, he2]; simp⟩
        constructor
        · intro hA
          have r1 := (A1 hA).mono' hd1'
          have r2 := (A2 hA).mono' hext3
          refine RowDen.ofBin hrow S1.nonneg S2.nonneg hbnd r1 r2 ?_
          rw [hA, ← List.sum_take_add_sum_drop vals (locs.length / 2)]
          simp [MathSem.bin]
        · intro hM
          have r1 := (M1 hM).mono' hd1'
          have r2 := (M2 hM).mono' hext3
          refine RowDen.ofBin hrow S1.nonneg S2.nonneg hbnd r1 r2 ?_
          rw [hM, ← List.prod_take_mul_prod_drop vals (locs.length / 2)]
          simp [MathSem.bin, MULTIPLICATION, ADDITION, SUBTRACTION]

end assoc

/-! ## `_build_stack_recursive` -/

/-- the invariant of the operand loop: as `Step`, with "some returned location is the last row unless
nothing was appended" -/
structure StepL (T : Int → Int → Bool) (d d' : StackDict) (locs : List Int) : Prop where
  ext : ∃ ext, d' = d ++ ext
  rows : RowsOK T d'
  valid : ∀ l ∈ locs, 0 ≤ l ∧ l.toNat < d'.length
  last : d' = d ∨ ((d'.length : Int) - 1) ∈ locs

theorem shapeOK_true {o : Int} {as : List Expr} (h : shapeOK true o as = true) :
    Ops.isTerminal o = some false ∧ ((o = ADDITION ∨ o = MULTIPLICATION) → 2 ≤ as.length) := by
  simp only [shapeOK, Bool.and_eq_true, Bool.not_true, Bool.false_or, beq_iff_eq] at h
  refine ⟨h.2.1, fun ho => ?_⟩
  have := h.2.2
  rw [if_pos ho] at this
  simpa using this

section main
variable {T : Int → Int → Bool} (lf : Int → Int → Option ℝ) (x : List ℝ) (cv : Int → ℝ)

/-- an n-ary node (n ≠ 1, 2) with a meaning is a sum or a product of defined operands -/
theorem node_den_assoc {op : Int} {args : List Expr} {v : ℝ}
    (hlen : args.length ≠ 1 ∧ args.length ≠ 2) (h : den x cv (node op args) = some v) :
    ∃ vals : List ℝ, args.map (den x cv) = vals.map some ∧
      ((op = ADDITION ∧ v = vals.sum) ∨ (op = MULTIPLICATION ∧ v = vals.prod)) := by
  by_cases hA : op = ADDITION
  · subst hA
    rw [den_add] at h
    obtain ⟨vals, h1, h2⟩ := osum_eq_some h
    exact ⟨vals, h1, .inl ⟨rfl, h2⟩⟩
  by_cases hM : op = MULTIPLICATION
  · subst hM
    rw [den_mul] at h
    obtain ⟨vals, h1, h2⟩ := oprod_eq_some h
    exact ⟨vals, h1, .inr ⟨rfl, h2⟩⟩
  · rcases den_node_length x cv hA hM h with h1 | h1
    · exact absurd h1 hlen.1
    · exact absurd h1 hlen.2

/-- the branch `_add_associative_operators_to_stack(op, locs)` after the operand loop -/
theorem assoc_else {op : Int} (hop : Ops.isTerminal op = some false) {d d1 d' : StackDict}
    {locs : List Int} {loc : Int} {n : Nat} (SL : StepL T d d1 locs)
    (h : addAssociative op n locs d1 = .ok (d', loc)) :
    Step T d d' loc ∧
      (∀ vals : List ℝ, List.Forall₂ (fun l v => RowDen lf d1 l.toNat v) locs vals →
        (op = ADDITION → RowDen lf d' loc.toNat vals.sum) ∧
        (op = MULTIPLICATION → RowDen lf d' loc.toNat vals.prod)) := by
  obtain ⟨S, L, Sem⟩ := addAssoc_spec (T := T) lf hop n locs d1 d' loc SL.rows SL.valid h
  obtain ⟨e1, he1⟩ := SL.ext
  obtain ⟨e2, he2⟩ := S.ext
  refine ⟨⟨⟨e1 ++ e2, by rw [he2, he1]; simp⟩, S.rows, S.nonneg, S.lt, ?_⟩, Sem⟩
  rcases SL.last with hl | hl
  · rcases S.last with hs | hs
    · exact .inl (by rw [hs, hl])
    · exact .inr hs
  · exact .inr (L hl)

/-- the branch that keeps the constant-valued first operand apart -/
theorem assoc_if {op : Int} (hop : Ops.isTerminal op = some false) {d d1 d2 d' : StackDict}
    {l0 loc2 loc : Int} {rest : List Int} {n : Nat} (SL : StepL T d d1 (l0 :: rest))
    (h2 : addAssociative op n rest d1 = .ok (d2, loc2))
    (h3 : addCommand d2 ⟨op, l0, loc2⟩ = (d', loc)) :
    Step T d d' loc ∧
      (∀ vals : List ℝ, List.Forall₂ (fun l v => RowDen lf d1 l.toNat v) (l0 :: rest) vals →
        (op = ADDITION → RowDen lf d' loc.toNat vals.sum) ∧
        (op = MULTIPLICATION → RowDen lf d' loc.toNat vals.prod)) := by
  have hvr : ∀ l ∈ rest, 0 ≤ l ∧ l.toNat < d1.length := fun l hl => SL.valid l (by simp [hl])
  obtain ⟨S2, L2, Sem2⟩ := addAssoc_spec (T := T) lf hop n rest d1 d2 loc2 SL.rows hvr h2
  obtain ⟨e1, he1⟩ := SL.ext
  obtain ⟨e2, he2⟩ := S2.ext
  have hlen2 : d1.length ≤ d2.length := by rw [he2]; simp
  have hl0 := SL.valid l0 (by simp)
  have hd2 : ∃ e, d2 = d ++ e := ⟨e1 ++ e2, by rw [he2, he1]; simp⟩
  have hlastref : d2 = d ∨ l0 = (d2.length : Int) - 1 ∨ loc2 = (d2.length : Int) - 1 := by
    rcases S2.last with hs | hs
    · rcases SL.last with hl | hl
      · exact .inl (by rw [hs, hl])
      · rw [List.mem_cons] at hl
        rcases hl with hl | hl
        · exact .inr (.inl (by rw [hs]; exact hl.symm))
        · exact .inr (.inr (by rw [hs]; rw [hs] at L2; exact L2 hl))
    · exact .inr (.inr hs)
  obtain ⟨S3, hrow, hext3, hbnd, _⟩ := addCommand_op S2.rows hd2 hop
    ⟨hl0.1, by omega⟩ ⟨S2.nonneg, S2.lt⟩ hlastref h3
  refine ⟨S3, ?_⟩
  intro vals hv
  cases hv with
  | @cons _ v0 _ vrest hv0 hvr' =>
    obtain ⟨A2, M2⟩ := Sem2 _ hvr'
    have hd1' : ∃ e, d' = d1 ++ e := by
      obtain ⟨e3, he3⟩ := hext3
      exact ⟨e2 ++ e3, by rw [he3, he2]; simp⟩
    have r0 := hv0.mono' hd1'
    constructor
    · intro hA
      refine RowDen.ofBin hrow hl0.1 S2.nonneg hbnd r0 ((A2 hA).mono' hext3) ?_
      rw [hA]; simp [MathSem.bin]
    · intro hM
      refine RowDen.ofBin hrow hl0.1 S2.nonneg hbnd r0 ((M2 hM).mono' hext3) ?_
      rw [hM]; simp [MathSem.bin, MULTIPLICATION, ADDITION, SUBTRACTION]

variable (hT : ∀ o v, T o v = true → Ops.isTerminal o = some true)
  (hlf : ∀ o v, (o = INTEGER ∨ T o v = true) → termDen x cv o v ⊑ lf o v)

include hT hlf in
/-- the mutual induction over the expression: `Step` invariant and preservation of meaning -/
theorem buildStackRec_spec (e : Expr) :
    Ok true T e = true → ∀ (d d' : StackDict) (loc : Int), RowsOK T d →
      buildStackRec e d = .ok (d', loc) →
      Step T d d' loc ∧ (∀ v, den x cv e = some v → RowDen lf d' loc.toNat v) := by
  induction e using Expr.rec (motive_2 := fun as => OkList true T as = true →
      ∀ (d d' : StackDict) (locs : List Int), RowsOK T d →
        buildStackRecList as d = .ok (d', locs) →
        StepL T d d' locs ∧ locs.length = as.length ∧
          (∀ vals : List ℝ, as.map (den x cv) = vals.map some →
            List.Forall₂ (fun l v => RowDen lf d' l.toNat v) locs vals)) with
  | term o v np =>
    intro hok d d' loc hrows h
    rw [Ok_term] at hok
    simp only [buildStackRec] at h
    have h' : addCommand d ⟨o, v, v⟩ = (d', loc) := Except.ok.inj h
    have ht : Ops.isTerminal o = some true := by
      rcases hok with rfl | hok
      · decide
      · exact hT o v hok
    obtain ⟨S, hrow⟩ := addCommand_term hrows ht hok h'
    refine ⟨S, fun w hw => ?_⟩
    rw [den_term] at hw
    have ha : Ops.isArity2 o = some false := by
      rcases isTerminal_cases ht with ⟨_, _, h2⟩ | ⟨h1, _⟩
      · exact h2
      · cases h1
    exact .leaf hrow ht ha (hlf o v hok w hw)
  | node op args ih =>
    intro hok d d' loc hrows h
    simp only [Ok, Bool.and_eq_true] at hok
    obtain ⟨hop, h2len⟩ := shapeOK_true hok.1
    simp only [buildStackRec] at h
    obtain ⟨⟨d1, locs⟩, hl, h⟩ := bind_ok h
    obtain ⟨SL, hlen, semL⟩ := ih hok.2 d d1 locs hrows hl
    obtain ⟨e1, he1⟩ := SL.ext
    match locs, args, hlen, SL, semL, h with
    | [l], [a], _, SL, semL, h =>
      have h' : addCommand d1 ⟨op, l, l⟩ = (d', loc) := Except.ok.inj h
      have hlv := SL.valid l (by simp)
      have hlastref : d1 = d ∨ l = (d1.length : Int) - 1 ∨ l = (d1.length : Int) - 1 := by
        rcases SL.last with hs | hs
        · exact .inl hs
        · simp only [List.mem_cons, List.not_mem_nil, or_false] at hs
          exact .inr (.inl hs.symm)
      obtain ⟨S3, hrow, hext3, hbnd, _⟩ := addCommand_op SL.rows SL.ext hop hlv hlv hlastref h'
      refine ⟨S3, fun w hw => ?_⟩
      have hA : op ≠ ADDITION := fun hA => by have := h2len (.inl hA); simp at this
      have hM : op ≠ MULTIPLICATION := fun hM => by have := h2len (.inr hM); simp at this
      obtain ⟨va, hva, hun⟩ := den_node1_sound x cv hA hM hw
      have hf := semL [va] (by simp [hva])
      cases hf with
      | cons h1 _ => exact RowDen.ofUn hrow hlv.1 hbnd.1 (h1.mono' hext3) hun
    | [l1, l2], [a, b], _, SL, semL, h =>
      have h' : addCommand d1 ⟨op, l1, l2⟩ = (d', loc) := Except.ok.inj h
      have hl1 := SL.valid l1 (by simp)
      have hl2 := SL.valid l2 (by simp)
      have hlastref : d1 = d ∨ l1 = (d1.length : Int) - 1 ∨ l2 = (d1.length : Int) - 1 := by
        rcases SL.last with hs | hs
        · exact .inl hs
        · simp only [List.mem_cons, List.not_mem_nil, or_false] at hs
          rcases hs with hs | hs
          · exact .inr (.inl hs.symm)
          · exact .inr (.inr hs.symm)
      obtain ⟨S3, hrow, hext3, hbnd, _⟩ := addCommand_op SL.rows SL.ext hop hl1 hl2 hlastref h'
      refine ⟨S3, fun w hw => ?_⟩
      obtain ⟨va, vb, hva, hvb, hbin⟩ := den_node2_sound x cv hw
      have hf := semL [va, vb] (by simp [hva, hvb])
      cases hf with
      | cons h1 hf2 =>
        cases hf2 with
        | cons h2 _ =>
          exact RowDen.ofBin hrow hl1.1 hl2.1 hbnd (h1.mono' hext3) (h2.mono' hext3) hbin
    | [], [], _, SL, semL, h =>
      simp only [Bool.and_false, Bool.false_eq_true, if_false] at h
      obtain ⟨S, Sem⟩ := assoc_else lf hop SL h
      refine ⟨S, fun w hw => ?_⟩
      obtain ⟨vals, hv, hcase⟩ := node_den_assoc x cv (by simp) hw
      obtain ⟨A, M⟩ := Sem vals (semL vals hv)
      rcases hcase with ⟨ho, rfl⟩ | ⟨ho, rfl⟩
      · exact A ho
      · exact M ho
    | l1 :: l2 :: l3 :: rest, a :: args', hlen', SL, semL, h =>
      have hlen2 : (a :: args').length ≠ 1 ∧ (a :: args').length ≠ 2 := by
        rw [← hlen']; simp
      simp only at h
      split at h
      · obtain ⟨⟨d2, loc2⟩, h2, h⟩ := bind_ok h
        have h3 : addCommand d2 ⟨op, l1, loc2⟩ = (d', loc) := Except.ok.inj h
        obtain ⟨S, Sem⟩ := assoc_if lf hop SL h2 h3
        refine ⟨S, fun w hw => ?_⟩
        obtain ⟨vals, hv, hcase⟩ := node_den_assoc x cv hlen2 hw
        obtain ⟨A, M⟩ := Sem vals (semL vals hv)
        rcases hcase with ⟨ho, rfl⟩ | ⟨ho, rfl⟩
        · exact A ho
        · exact M ho
      · obtain ⟨S, Sem⟩ := assoc_else lf hop SL h
        refine ⟨S, fun w hw => ?_⟩
        obtain ⟨vals, hv, hcase⟩ := node_den_assoc x cv hlen2 hw
        obtain ⟨A, M⟩ := Sem vals (semL vals hv)
        rcases hcase with ⟨ho, rfl⟩ | ⟨ho, rfl⟩
        · exact A ho
        · exact M ho
  | nil =>
    rename_i _ d d' locs hrows h
    simp only [buildStackRecList] at h
    obtain ⟨rfl, rfl⟩ := Prod.mk.inj (Except.ok.inj h)
    refine ⟨⟨⟨[], by simp⟩, hrows, by simp, .inl rfl⟩, rfl, ?_⟩
    intro vals hv
    cases vals with
    | nil => exact .nil
    | cons _ _ => simp at hv
  | cons a as iha ihas =>
    rename_i hok d d' locs hrows h
    simp only [OkList, Bool.and_eq_true] at hok
    simp only [buildStackRecList] at h
    obtain ⟨⟨d1, l⟩, h1, h⟩ := bind_ok h
    dsimp only at h
    obtain ⟨⟨d2, ls⟩, h2, h⟩ := bind_ok h
    dsimp only at h
    obtain ⟨rfl, rfl⟩ := Prod.mk.inj (Except.ok.inj h)
    obtain ⟨S1, Sem1⟩ := iha hok.1 d d1 l hrows h1
    obtain ⟨SL2, hlen2, Sem2⟩ := ihas hok.2 d1 d2 ls S1.rows h2
    obtain ⟨e1, he1⟩ := S1.ext
    obtain ⟨e2, he2⟩ := SL2.ext
    have hlen12 : d1.length ≤ d2.length := by rw [he2]; simp
    refine ⟨⟨⟨e1 ++ e2, by rw [he2, he1]; simp⟩, SL2.rows, ?_, ?_⟩, by simp [hlen2], ?_⟩
    · intro l' hl'
      rw [List.mem_cons] at hl'
      rcases hl' with rfl | hl'
      · exact ⟨S1.nonneg, by have := S1.lt; omega⟩
      · exact SL2.valid l' hl'
    · rcases SL2.last with hs | hs
      · rcases S1.last with hs1 | hs1
        · exact .inl (by rw [hs, hs1])
        · exact .inr (by rw [hs]; simp [hs1])
      · exact .inr (by simp [hs])
    · intro vals hv
      cases vals with
      | nil => simp at hv
      | cons v0 vrest =>
        simp only [List.map_cons, List.cons.injEq] at hv
        exact .cons ((Sem1 v0 hv.1).mono' SL2.ext) (Sem2 vrest hv.2)

end main

/-! ## consequences for `_build_stack_recursive` -/

section results
variable {T : Int → Int → Bool}

/-- B1: the structural invariant of `_build_stack_recursive` on the fragment -/
theorem buildStackRec_step (hT : ∀ o v, T o v = true → Ops.isTerminal o = some true)
    {e : Expr} {d d' : StackDict} {loc : Int} (hok : Ok true T e = true) (hrows : RowsOK T d)
    (h : buildStackRec e d = .ok (d', loc)) : Step T d d' loc :=
  (buildStackRec_spec (termDen [] fun _ => 0) [] (fun _ => 0) hT (fun _ _ _ => Refines.rfl')
    e hok d d' loc hrows h).1

/-- B1, root is last: from the empty dictionary the returned location is the LAST row (the row the
`AGraph` evaluates), and the rows are well-formed -/
theorem buildStackRec_root_last (hT : ∀ o v, T o v = true → Ops.isTerminal o = some true)
    {e : Expr} {d : StackDict} {loc : Int} (hok : Ok true T e = true)
    (h : buildStackRec e [] = .ok (d, loc)) :
    d ≠ [] ∧ loc = (d.length : Int) - 1 ∧ RowsOK T d := by
  have S := buildStackRec_step hT hok (RowsOK_nil T) h
  have hne : d ≠ [] := by
    intro hd; have := S.lt; rw [hd] at this; simp at this
  refine ⟨hne, ?_, S.rows⟩
  rcases S.last with hl | hl
  · exact absurd hl hne
  · exact hl

/-- B2: wherever `e` has a meaning, the row returned for it denotes the same number; the rows are read
as trees with `CONSTANT` leaves looked up by id (`termDen x cv` is the meaning of a leaf) -/
theorem buildStackRec_den (hT : ∀ o v, T o v = true → Ops.isTerminal o = some true)
    {e : Expr} {d d' : StackDict} {loc : Int} {x : List ℝ} {cv : Int → ℝ} {v : ℝ}
    (hok : Ok true T e = true) (hrows : RowsOK T d) (h : buildStackRec e d = .ok (d', loc))
    (hd : e.den x cv = some v) : RowDen (termDen x cv) d' loc.toNat v :=
  (buildStackRec_spec (termDen x cv) x cv hT (fun _ _ _ => Refines.rfl') e hok d d' loc hrows h).2
    v hd

/-- B2 on trees, from the empty dictionary (pre-emit dictionary `d`, constants by id) -/
theorem buildStackRec_den_tree (hT : ∀ o v, T o v = true → Ops.isTerminal o = some true)
    {e : Expr} {d : StackDict} {loc : Int} {x : List ℝ} {cv : Int → ℝ} {v : ℝ}
    (hok : Ok true T e = true) (h : buildStackRec e [] = .ok (d, loc))
    (hd : e.den x cv = some v) : gden (termDen x cv) (ofStack d) = some v := by
  have hr := buildStackRec_den hT hok (RowsOK_nil T) h hd
  obtain ⟨_, hl, _⟩ := buildStackRec_root_last hT hok h
  have : loc.toNat = d.length - 1 := by omega
  rw [this] at hr
  rw [ofStack_eq]; exact hr.trees

end results

/-! ## `build_agraph_stack`: the `int64` store -/

theorem emitCommand_cases {c c' : Cmd} (h : emitCommand c = .ok c') :
    (c.node = CONSTANT ∧ c' = ⟨CONSTANT, -1, -1⟩) ∨ (c.node ≠ CONSTANT ∧ c' = c) := by
  unfold emitCommand at h
  split at h
  · rename_i hc; exact .inl ⟨hc, (Except.ok.inj h).symm⟩
  · rename_i hc
    split at h
    · exact .inr ⟨hc, (Except.ok.inj h).symm⟩
    · cases h

theorem mapM_emit_get : ∀ (d s' : List Cmd), d.mapM emitCommand = .ok s' →
    s'.length = d.length ∧ ∀ (i : Nat) (c : Cmd), d[i]? = some c →
      ∃ c', s'[i]? = some c' ∧ emitCommand c = .ok c' := by
  intro d
  induction d with
  | nil =>
    intro s' h
    rw [List.mapM_nil] at h
    cases Except.ok.inj h
    exact ⟨rfl, fun i c hi => by simp at hi⟩
  | cons a d ih =>
    intro s' h
    rw [List.mapM_cons] at h
    obtain ⟨a', ha, h⟩ := bind_ok h
    obtain ⟨t, ht, h⟩ := bind_ok h
    cases Except.ok.inj h
    obtain ⟨hlen, hget⟩ := ih t ht
    refine ⟨by simp [hlen], ?_⟩
    intro i c hi
    cases i with
    | zero => simp at hi; subst hi; exact ⟨a', by simp, ha⟩
    | succ i => simp at hi; simpa using hget i c hi

theorem mapM_emit_id : ∀ (d s' : List Cmd), (∀ c ∈ d, c.node ≠ CONSTANT) →
    d.mapM emitCommand = .ok s' → s' = d := by
  intro d s' hnc h
  obtain ⟨hlen, hget⟩ := mapM_emit_get d s' h
  apply List.ext_getElem? 
  intro i
  cases hi : d[i]? with
  | none =>
    rw [List.getElem?_eq_none_iff] at hi ⊢; omega
  | some c =>
    obtain ⟨c', hc', he⟩ := hget i c hi
    rcases emitCommand_cases he with ⟨hc, _⟩ | ⟨_, rfl⟩
    · exact absurd hc (hnc c (List.mem_of_getElem? hi))
    · exact hc'

/-- a `RowOKT` row whose `T`-terminals are variables below `D` or constants passes `WF.rowOK` after
the `int64` store -/
theorem rowOK_emit {T : Int → Int → Bool} {D i : Nat} {c c' : Cmd}
    (hTD : ∀ o v, T o v = true → varsBelow D o v = true ∨ o = CONSTANT)
    (h : RowOKT T i c) (he : emitCommand c = .ok c') : WF.rowOK D none none i c' = true := by
  rcases emitCommand_cases he with ⟨_, rfl⟩ | ⟨hnc, hcc⟩
  · simp [WF.rowOK, CONSTANT, VARIABLE, Ops.isTerminal, Ops.isArity2, isTerminalTbl, isArity2Tbl,
      List.lookup]
  · rw [hcc]
    rcases h with ⟨ht, hv⟩ | ⟨ht, h1, h2, h3, h4⟩
    · have ha : Ops.isArity2 c.node = some false := by
        rcases isTerminal_cases ht with ⟨_, _, h2⟩ | ⟨h1, _⟩
        · exact h2
        · cases h1
      unfold WF.rowOK
      simp only [ht, ha]
      rcases hv with hI | hv
      · rw [if_neg (by rw [hI]; decide), if_neg hnc]; simpa using hI
      · rcases hTD _ _ hv with hv | hv
        · simp only [varsBelow, Bool.and_eq_true, beq_iff_eq, decide_eq_true_eq] at hv
          rw [if_pos hv.1.1]; simp [hv.1.2, hv.2]
        · exact absurd hv hnc
    · rcases isTerminal_cases ht with ⟨h1, _⟩ | ⟨_, a, ha⟩
      · cases h1
      · unfold WF.rowOK
        simp only [ht, ha]
        simp [h1, h2, h3, h4]

/-- B3 (general): the emitted command array is well-formed when the terminals of `e` are variables
below `D` or constants -/
theorem buildAgraphStack_wf_gen {T : Int → Int → Bool} {D : Nat} {e : Expr} {s' : Stack}
    (hTD : ∀ o v, T o v = true → varsBelow D o v = true ∨ o = CONSTANT)
    (hok : Ok true T e = true) (h : buildAgraphStack e = .ok s') : WF.wf D none none s' = true := by
  have hT : ∀ o v, T o v = true → Ops.isTerminal o = some true := by
    intro o v ho
    rcases hTD o v ho with hv | rfl
    · simp only [varsBelow, Bool.and_eq_true, beq_iff_eq] at hv
      rw [hv.1.1]; decide
    · decide
  unfold buildAgraphStack at h
  obtain ⟨⟨d, loc⟩, h1, h2⟩ := bind_ok h
  dsimp only at h2
  obtain ⟨hne, _, hrows⟩ := buildStackRec_root_last hT hok h1
  obtain ⟨hlen, hget⟩ := mapM_emit_get d s' h2
  unfold WF.wf
  rw [Bool.and_eq_true]
  constructor
  · cases s' with
    | nil =>
      have := List.length_pos_iff.mpr hne
      simp at hlen; omega
    | cons _ _ => rfl
  · apply ReduceLemmas.rowsOK_of_get
    intro i c' hi
    have hil : i < d.length := by rw [← hlen]; exact getElem?_lt' hi
    obtain ⟨c'', hc'', he⟩ := hget i d[i] (List.getElem?_eq_getElem hil)
    rw [hi] at hc''; cases hc''
    rw [Nat.zero_add]
    exact rowOK_emit hTD (hrows i _ (List.getElem?_eq_getElem hil)) he

/-- a dictionary built from a constant-free expression has no `CONSTANT` row -/
theorem RowOKT_not_const {D i : Nat} {c : Cmd} (h : RowOKT (varsBelow D) i c) :
    c.node ≠ CONSTANT := by
  intro hc
  rcases h with ⟨_, hv⟩ | ⟨ht, _⟩
  · rcases hv with hI | hv
    · rw [hc] at hI; exact absurd hI (by decide)
    · simp only [varsBelow, Bool.and_eq_true, beq_iff_eq] at hv
      rw [hc] at hv; exact absurd hv.1.1 (by decide)
  · rw [hc] at ht; exact absurd ht (by decide)

theorem varsBelow_terminal (D : Nat) :
    ∀ o v, varsBelow D o v = true → Ops.isTerminal o = some true := by
  intro o v hv
  simp only [varsBelow, Bool.and_eq_true, beq_iff_eq] at hv
  rw [hv.1.1]; decide

/-- without constants the `int64` store is the identity on a successful run: the emitted array is the
dictionary, and its last row is the root -/
theorem buildAgraphStack_noconst {D : Nat} {e : Expr} {s' : Stack}
    (hok : Ok true (varsBelow D) e = true) (h : buildAgraphStack e = .ok s') :
    ∃ loc, buildStackRec e [] = .ok (s', loc) ∧ s' ≠ [] ∧ loc = (s'.length : Int) - 1 := by
  unfold buildAgraphStack at h
  obtain ⟨⟨d, loc⟩, h1, h2⟩ := bind_ok h
  dsimp only at h2
  obtain ⟨hne, hl, hrows⟩ := buildStackRec_root_last (varsBelow_terminal D) hok h1
  have : s' = d := mapM_emit_id d s'
    (fun c hc => by
      obtain ⟨i, hi⟩ := List.getElem?_of_mem hc
      exact RowOKT_not_const (hrows i c hi)) h2
  subst this
  exact ⟨loc, h1, hne, hl⟩

/-- B3: the command array built from a constant-free expression of the fragment is well-formed -/
theorem buildAgraphStack_wf {D : Nat} {e : Expr} {s' : Stack}
    (hok : Ok true (varsBelow D) e = true) (h : buildAgraphStack e = .ok s') :
    WF.wf D none none s' = true :=
  buildAgraphStack_wf_gen (fun _ _ hv => .inl hv) hok h

/-- B3: wherever the constant-free expression has a meaning, the command array built from it
evaluates (last row, as a tree, no constants) to the same number -/
theorem buildAgraphStack_den_noconst {D : Nat} {e : Expr} {s' : Stack} {x : List ℝ}
    {cv : Int → ℝ} {v : ℝ} (hok : Ok true (varsBelow D) e = true)
    (h : buildAgraphStack e = .ok s') (_hx : x.length = D) (hd : e.den x cv = some v) :
    MathSem.den x [] (ofStack s') = some v := by
  obtain ⟨loc, h1, _, hl⟩ := buildAgraphStack_noconst hok h
  have hlf : ∀ o v, (o = INTEGER ∨ varsBelow D o v = true) →
      termDen x cv o v ⊑ MathSem.leaf x [] o v := by
    intro o v ho
    rcases ho with rfl | ho
    · exact Refines.of_eq (by simp [termDen, MathSem.leaf])
    · simp only [varsBelow, Bool.and_eq_true, beq_iff_eq] at ho
      rw [ho.1.1]
      apply Refines.of_eq
      unfold termDen MathSem.leaf
      rw [if_neg (by decide), if_pos rfl, if_neg (by decide), if_pos rfl]
  have hr := (buildStackRec_spec (MathSem.leaf x []) x cv (varsBelow_terminal D) hlf e hok [] s'
    loc (RowsOK_nil _) h1).2 v hd
  have : loc.toNat = s'.length - 1 := by omega
  rw [this] at hr
  rw [ofStack_eq, ← gden_math]; exact hr.trees

end CasInterp
end Bingo
