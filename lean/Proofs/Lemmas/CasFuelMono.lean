import Proofs.Lemmas.CasAutoBase
/-!
# More fuel never changes a result

`F st f args = .ok r → F st (f+1) args = .ok r` for the eight simplification functions and the four
ordering functions, hence for `automaticSimplify`: the fuel only bounds the recursion depth, so the
result of a successful run does not depend on how much fuel it was given.
-/
namespace Bingo
namespace Cas
namespace FuelMono
open Gen.OpDefs Expr Auto

/-- `b` succeeds with the same result whenever `a` succeeds -/
def Le {α : Type} (a b : R α) : Prop := ∀ r, a = .ok r → b = .ok r

theorem Le.rfl {α : Type} {a : R α} : Le a a := fun _ h => h
theorem Le.throw {α : Type} {s : String} {b : R α} : Le (throw s) b := fun _ h => (throw_ok h).elim
theorem Le.bind {α β : Type} {a a' : R α} {k k' : α → R β} (h1 : Le a a')
    (h2 : ∀ x, Le (k x) (k' x)) : Le (a >>= k) (a' >>= k') := by
  intro r h
  obtain ⟨x, hx, h⟩ := bind_ok h
  rw [h1 x hx]
  exact h2 x r h
theorem Le.mapM {α β : Type} {g g' : α → R β} (h : ∀ x, Le (g x) (g' x)) :
    ∀ (l : List α), Le (l.mapM g) (l.mapM g')
  | [] => by rw [List.mapM_nil, List.mapM_nil]; exact Le.rfl
  | a :: l => by
    rw [List.mapM_cons, List.mapM_cons]
    exact Le.bind (h a) (fun x => Le.bind (Le.mapM h l) (fun _ => Le.rfl))

theorem Le.apply {α : Type} {a b : R α} {r : α} (h : Le a b) (ha : a = .ok r) : b = .ok r := h r ha

attribute [irreducible] Le

structure MonoAt (st : Bool) (f : Nat) : Prop where
  lt : ∀ a b, Le (ltF f a b) (ltF (f+1) a b)
  glt : ∀ a b, Le (generalLtF f a b) (generalLtF (f+1) a b)
  alt : ∀ o a b, Le (assocLtF f o a b) (assocLtF (f+1) o a b)
  olt : ∀ l₁ l₂, Le (operandsLtF f l₁ l₂) (operandsLtF (f+1) l₁ l₂)
  pow : ∀ b e, Le (simplifyPower st f b e) (simplifyPower st (f+1) b e)
  cpow : ∀ b e, Le (simplifyConstantPower st f b e) (simplifyConstantPower st (f+1) b e)
  prod : ∀ l, Le (simplifyProduct st f l) (simplifyProduct st (f+1) l)
  prodRec : ∀ l, Le (simplifyProductRec st f l) (simplifyProductRec st (f+1) l)
  mergeP : ∀ l₁ l₂, Le (mergeProducts st f l₁ l₂) (mergeProducts st (f+1) l₁ l₂)
  sum : ∀ l, Le (simplifySum st f l) (simplifySum st (f+1) l)
  sumRec : ∀ l, Le (simplifySumRec st f l) (simplifySumRec st (f+1) l)
  mergeS : ∀ l₁ l₂, Le (mergeSums st f l₁ l₂) (mergeSums st (f+1) l₁ l₂)

/-- decompose a goal `Le body body'` whose two sides differ only in the fuel of the recursive calls -/
macro "mono_tac " ih:ident : tactic => `(tactic|
  repeat' (first
    | exact Le.rfl
    | exact Le.throw
    | exact ($ih).lt _ _
    | exact ($ih).glt _ _
    | exact ($ih).alt _ _ _
    | exact ($ih).olt _ _
    | exact ($ih).pow _ _
    | exact ($ih).cpow _ _
    | exact ($ih).prod _
    | exact ($ih).prodRec _
    | exact ($ih).mergeP _ _
    | exact ($ih).sum _
    | exact ($ih).sumRec _
    | exact ($ih).mergeS _ _
    | apply Le.bind
    | apply Le.mapM
    | split
    | intro _))

theorem monoAt_zero (st : Bool) : MonoAt st 0 where
  lt := by intro a b; rw [ltF.eq_1]; exact Le.throw
  glt := by intro a b; rw [generalLtF.eq_1]; exact Le.throw
  alt := by intro o a b; rw [assocLtF.eq_1]; exact Le.throw
  olt := by intro a b; rw [operandsLtF.eq_1]; exact Le.throw
  pow := by intro a b; rw [simplifyPower.eq_1]; exact Le.throw
  cpow := by intro a b; rw [simplifyConstantPower.eq_1]; exact Le.throw
  prod := by intro l; rw [simplifyProduct.eq_1]; exact Le.throw
  prodRec := by intro l; rw [simplifyProductRec.eq_1]; exact Le.throw
  mergeP := by intro a b; rw [mergeProducts.eq_1]; exact Le.throw
  sum := by intro l; rw [simplifySum.eq_1]; exact Le.throw
  sumRec := by intro l; rw [simplifySumRec.eq_1]; exact Le.throw
  mergeS := by intro a b; rw [mergeSums.eq_1]; exact Le.throw

section step
variable {st : Bool} {f : Nat}

theorem lt_step (ih : MonoAt st f) (a b : Expr) : Le (ltF (f+1) a b) (ltF (f+2) a b) := by
  rw [ltF.eq_2, ltF.eq_2]
  dsimp only
  mono_tac ih

theorem glt_step (ih : MonoAt st f) (a b : Expr) :
    Le (generalLtF (f+1) a b) (generalLtF (f+2) a b) := by
  cases a <;> cases b <;> simp only [generalLtF] <;> mono_tac ih

theorem alt_step (ih : MonoAt st f) (o : Int) (a b : Expr) :
    Le (assocLtF (f+1) o a b) (assocLtF (f+2) o a b) := by
  rw [assocLtF.eq_2, assocLtF.eq_2]
  mono_tac ih

theorem olt_step (ih : MonoAt st f) (l₁ l₂ : List Expr) :
    Le (operandsLtF (f+1) l₁ l₂) (operandsLtF (f+2) l₁ l₂) := by
  cases l₂ with
  | nil => rw [operandsLtF.eq_4, operandsLtF.eq_4]; exact Le.rfl
  | cons b bs =>
    cases l₁ with
    | nil => rw [operandsLtF.eq_3, operandsLtF.eq_3]; exact Le.rfl
    | cons a as => rw [operandsLtF.eq_2, operandsLtF.eq_2]; mono_tac ih

theorem pow_step (ih : MonoAt st f) (b e : Expr) :
    Le (simplifyPower st (f+1) b e) (simplifyPower st (f+2) b e) := by
  rw [simplifyPower.eq_2, simplifyPower.eq_2]
  mono_tac ih

theorem cpow_step (ih : MonoAt st f) (b e : Expr) :
    Le (simplifyConstantPower st (f+1) b e) (simplifyConstantPower st (f+2) b e) := by
  rw [simplifyConstantPower.eq_2, simplifyConstantPower.eq_2]
  mono_tac ih

theorem prod_step (ih : MonoAt st f) (l : List Expr) :
    Le (simplifyProduct st (f+1) l) (simplifyProduct st (f+2) l) := by
  by_cases hs : ∃ a, l = [a]
  · obtain ⟨a, rfl⟩ := hs
    rw [simplifyProduct.eq_2, simplifyProduct.eq_2]; exact Le.rfl
  · rw [simplifyProduct.eq_3 _ _ _ (fun a ha => hs ⟨a, ha⟩),
      simplifyProduct.eq_3 _ _ _ (fun a ha => hs ⟨a, ha⟩)]
    mono_tac ih

theorem sum_step (ih : MonoAt st f) (l : List Expr) :
    Le (simplifySum st (f+1) l) (simplifySum st (f+2) l) := by
  by_cases hs : ∃ a, l = [a]
  · obtain ⟨a, rfl⟩ := hs
    rw [simplifySum.eq_2, simplifySum.eq_2]; exact Le.rfl
  · rw [simplifySum.eq_3 _ _ _ (fun a ha => hs ⟨a, ha⟩),
      simplifySum.eq_3 _ _ _ (fun a ha => hs ⟨a, ha⟩)]
    mono_tac ih

theorem prodRec_step (ih : MonoAt st f) (l : List Expr) :
    Le (simplifyProductRec st (f+1) l) (simplifyProductRec st (f+2) l) := by
  by_cases hp : ∃ a b, l = [a, b]
  · obtain ⟨a, b, rfl⟩ := hp
    rw [simplifyProductRec.eq_3, simplifyProductRec.eq_3]
    mono_tac ih
  · cases l with
    | nil => rw [simplifyProductRec.eq_2]; exact Le.throw
    | cons op rest =>
      have hne : ∀ op2, rest = [op2] → False := fun op2 h => hp ⟨op, op2, by rw [h]⟩
      rw [simplifyProductRec.eq_4 _ _ _ _ hne, simplifyProductRec.eq_4 _ _ _ _ hne]
      mono_tac ih

theorem sumRec_step (ih : MonoAt st f) (l : List Expr) :
    Le (simplifySumRec st (f+1) l) (simplifySumRec st (f+2) l) := by
  by_cases hp : ∃ a b, l = [a, b]
  · obtain ⟨a, b, rfl⟩ := hp
    rw [simplifySumRec.eq_3, simplifySumRec.eq_3]
    mono_tac ih
  · cases l with
    | nil => rw [simplifySumRec.eq_2]; exact Le.throw
    | cons op rest =>
      have hne : ∀ op2, rest = [op2] → False := fun op2 h => hp ⟨op, op2, by rw [h]⟩
      rw [simplifySumRec.eq_4 _ _ _ _ hne, simplifySumRec.eq_4 _ _ _ _ hne]
      mono_tac ih

theorem mergeP_step (ih : MonoAt st f) (l₁ l₂ : List Expr) :
    Le (mergeProducts st (f+1) l₁ l₂) (mergeProducts st (f+2) l₁ l₂) := by
  cases l₁ with
  | nil => rw [mergeProducts.eq_2, mergeProducts.eq_2]; exact Le.rfl
  | cons a as =>
    cases l₂ with
    | nil =>
      rw [mergeProducts.eq_3 _ _ _ (by intro h; cases h),
        mergeProducts.eq_3 _ _ _ (by intro h; cases h)]
      exact Le.rfl
    | cons b bs =>
      rw [mergeProducts.eq_4, mergeProducts.eq_4]
      mono_tac ih

theorem mergeS_step (ih : MonoAt st f) (l₁ l₂ : List Expr) :
    Le (mergeSums st (f+1) l₁ l₂) (mergeSums st (f+2) l₁ l₂) := by
  cases l₁ with
  | nil => rw [mergeSums.eq_2, mergeSums.eq_2]; exact Le.rfl
  | cons a as =>
    cases l₂ with
    | nil =>
      rw [mergeSums.eq_3 _ _ _ (by intro h; cases h),
        mergeSums.eq_3 _ _ _ (by intro h; cases h)]
      exact Le.rfl
    | cons b bs =>
      rw [mergeSums.eq_4, mergeSums.eq_4]
      mono_tac ih

end step

theorem monoAt (st : Bool) : ∀ f, MonoAt st f
  | 0 => monoAt_zero st
  | f+1 =>
    have ih := monoAt st f
    { lt := lt_step ih, glt := glt_step ih, alt := alt_step ih, olt := olt_step ih
      pow := pow_step ih, cpow := cpow_step ih, prod := prod_step ih, prodRec := prodRec_step ih
      mergeP := mergeP_step ih, sum := sum_step ih, sumRec := sumRec_step ih
      mergeS := mergeS_step ih }

/-! ## the non-recursive wrappers and `automaticSimplify` -/

theorem dispatch_mono (st : Bool) (f : Nat) (o : Int) (args : List Expr) :
    Le (dispatch st f o args) (dispatch st (f+1) o args) := by
  have ih := monoAt st f
  unfold dispatch simplifyQuotient simplifyDifference simplifySafePower
  dsimp only
  mono_tac ih

theorem automaticSimplify_mono_aux (st : Bool) (f : Nat) (e : Expr) :
    Le (automaticSimplify st f e) (automaticSimplify st (f+1) e) := by
  induction e using Expr.rec (motive_2 := fun l =>
      Le (automaticSimplifyList st f l) (automaticSimplifyList st (f+1) l)) with
  | term o v np => rw [automaticSimplify.eq_1, automaticSimplify.eq_1]; exact Le.rfl
  | node o args ih =>
    rw [automaticSimplify.eq_2, automaticSimplify.eq_2]
    exact Le.bind ih (fun _ => dispatch_mono st f o _)
  | nil => exact Le.rfl
  | cons a as iha ihas =>
    rw [automaticSimplifyList.eq_2, automaticSimplifyList.eq_2]
    exact Le.bind iha (fun _ => Le.bind ihas (fun _ => Le.rfl))

/-- `fuel_mono`: one more unit of fuel does not change a successful result -/
theorem automaticSimplify_fuel_succ {st : Bool} {f : Nat} {e r : Expr}
    (h : automaticSimplify st f e = .ok r) : automaticSimplify st (f+1) e = .ok r :=
  (automaticSimplify_mono_aux st f e).apply h

theorem automaticSimplify_fuel_mono {st : Bool} {f f' : Nat} {e r : Expr} (hle : f ≤ f')
    (h : automaticSimplify st f e = .ok r) : automaticSimplify st f' e = .ok r := by
  induction hle with
  | refl => exact h
  | step _ ih => exact automaticSimplify_fuel_succ ih

end FuelMono
end Cas
end Bingo
