import Mathlib.Algebra.BigOperators.Group.Finset.Basic
import Mathlib.Algebra.BigOperators.Intervals
import Mathlib.Tactic.Ring
import Mathlib.Algebra.BigOperators.Ring.Finset

/-! abstract linear DAG: reverse accumulation = forward tangent -/
namespace Bingo.ReverseMode
open Finset

variable {R : Type} [CommRing R]

/-- row: either leaf with seed, or op with operands p q and local partials a b -/
inductive Row (R : Type)
  | leaf (s : R)
  | op (p q : Nat) (a b : R)

def WF (rows : List (Row R)) : Prop :=
  ∀ i (h : i < rows.length), match rows[i] with
    | .leaf _ => True
    | .op p q _ _ => p < i ∧ q < i

/-- forward tangents, as a list built left to right -/
def tangents (rows : List (Row R)) : List R :=
  rows.foldl (fun acc r => acc ++ [match r with
    | .leaf s => s
    | .op p q a b => a * acc.getD p 0 + b * acc.getD q 0]) []

/-- one reverse step at row i -/
def revStep (rows : List (Row R)) (adj : Nat → R) (i : Nat) : Nat → R :=
  match rows[i]? with
  | some (.op p q a b) =>
      let adj1 := Function.update adj p (adj p + adj i * a)
      Function.update adj1 q (adj1 q + adj i * b)
  | _ => adj

/-- process rows k-1, k-2, ..., 0 -/
def revSweep (rows : List (Row R)) : Nat → (Nat → R) → (Nat → R)
  | 0, adj => adj
  | k+1, adj => revSweep rows k (revStep rows adj k)

end Bingo.ReverseMode

namespace Bingo.ReverseMode
open Finset
variable {R : Type} [CommRing R]

lemma sum_update_mul (N : Nat) (adj g : Nat → R) (p : Nat) (hp : p < N) (v : R) :
    ∑ i ∈ range N, (Function.update adj p v) i * g i
      = ∑ i ∈ range N, adj i * g i + (v - adj p) * g p := by
  have hmem : p ∈ range N := mem_range.mpr hp
  rw [← Finset.add_sum_erase _ _ hmem, ← Finset.add_sum_erase (range N) (fun i => adj i * g i) hmem]
  have : ∑ x ∈ (range N).erase p, Function.update adj p v x * g x
       = ∑ x ∈ (range N).erase p, adj x * g x := by
    apply Finset.sum_congr rfl
    intro x hx
    have : x ≠ p := (Finset.mem_erase.mp hx).1
    simp [Function.update_of_ne this]
  rw [this]
  simp
  ring

end Bingo.ReverseMode

namespace Bingo.ReverseMode
open Finset
variable {R : Type} [CommRing R]

def rowTangent (t : Nat → R) : Row R → R
  | .leaf s => s
  | .op p q a b => a * t p + b * t q

def TangentSpec (rows : List (Row R)) (t : Nat → R) : Prop :=
  ∀ i (h : i < rows.length), t i = rowTangent t rows[i]

def isLeaf : Row R → Bool
  | .leaf _ => true
  | _ => false

/-- potential: active rows are those below k, or leaves -/
def pot (rows : List (Row R)) (t : Nat → R) (k : Nat) (adj : Nat → R) : R :=
  ∑ i ∈ range rows.length,
    if i < k ∨ (rows[i]?.map isLeaf = some true) then adj i * t i else 0

lemma pot_step (rows : List (Row R)) (t : Nat → R) (hwf : WF rows) (ht : TangentSpec rows t)
    (k : Nat) (hk : k < rows.length) (adj : Nat → R) :
    pot rows t k (revStep rows adj k) = pot rows t (k+1) adj := by
  unfold pot revStep
  have hrow : rows[k]? = some rows[k] := List.getElem?_eq_getElem hk
  rw [hrow]
  have hw := hwf k hk
  have htk := ht k hk
  cases hr : rows[k] with
  | leaf s =>
    simp only
    apply Finset.sum_congr rfl
    intro i hi
    by_cases hik : i = k
    · subst hik; simp [hrow, hr, isLeaf]
    · have : (i < k ∨ rows[i]?.map isLeaf = some true) ↔ (i < k+1 ∨ rows[i]?.map isLeaf = some true) := by
        constructor
        · rintro (h|h); exact Or.inl (by omega); exact Or.inr h
        · rintro (h|h); exact Or.inl (by omega); exact Or.inr h
      simp only [this]
  | op p q a b =>
    rw [hr] at hw htk
    simp only at hw
    obtain ⟨hp, hq⟩ := hw
    simp only [rowTangent] at htk
    set N := rows.length
    let g : Nat → R := fun i => if i < k ∨ (rows[i]?.map isLeaf = some true) then t i else 0
    have hL : ∀ adj' : Nat → R, (∑ i ∈ range N,
        if i < k ∨ (rows[i]?.map isLeaf = some true) then adj' i * t i else 0)
        = ∑ i ∈ range N, adj' i * g i := by
      intro adj'
      apply Finset.sum_congr rfl
      intro i _
      simp only [g, mul_ite, mul_zero]
    have hR : (∑ i ∈ range N,
        if i < k + 1 ∨ (rows[i]?.map isLeaf = some true) then adj i * t i else 0)
        = ∑ i ∈ range N, adj i * g i + adj k * t k := by
      have hmem : k ∈ range N := mem_range.mpr hk
      rw [← Finset.add_sum_erase _ _ hmem, ← Finset.add_sum_erase (range N) (fun i => adj i * g i) hmem]
      have hkk : g k = 0 := by simp [g, hrow, hr, isLeaf]
      have : ∑ x ∈ (range N).erase k,
          (if x < k + 1 ∨ (rows[x]?.map isLeaf = some true) then adj x * t x else 0)
          = ∑ x ∈ (range N).erase k, adj x * g x := by
        apply Finset.sum_congr rfl
        intro x hx
        have hxk : x ≠ k := (Finset.mem_erase.mp hx).1
        have : (x < k + 1 ∨ rows[x]?.map isLeaf = some true) ↔ (x < k ∨ rows[x]?.map isLeaf = some true) := by
          constructor
          · rintro (h|h); exact Or.inl (by omega); exact Or.inr h
          · rintro (h|h); exact Or.inl (by omega); exact Or.inr h
        simp only [this, g, mul_ite, mul_zero]
      rw [this, hkk]
      simp
      ring
    rw [hL, hR]
    have hpN : p < N := by omega
    have hqN : q < N := by omega
    rw [sum_update_mul N _ g q hqN, sum_update_mul N adj g p hpN]
    have gp : g p = t p := by simp [g, hp]
    have gq : g q = t q := by simp [g, hq]
    rw [gp, gq, htk]
    ring

end Bingo.ReverseMode

namespace Bingo.ReverseMode
open Finset
variable {R : Type} [CommRing R]

theorem sweep_pot (rows : List (Row R)) (t : Nat → R) (hwf : WF rows) (ht : TangentSpec rows t) :
    ∀ (k : Nat), k ≤ rows.length → ∀ adj : Nat → R,
      pot rows t 0 (revSweep rows k adj) = pot rows t k adj := by
  intro k
  induction k with
  | zero => intro _ adj; rfl
  | succ k ih =>
    intro hk adj
    have hk' : k < rows.length := by omega
    simp only [revSweep]
    rw [ih (by omega) (revStep rows adj k), pot_step rows t hwf ht k hk' adj]

/-- the seed: adjoint 1 at the last row -/
def seed (N : Nat) : Nat → R := fun i => if i + 1 = N then 1 else 0

theorem pot_top (rows : List (Row R)) (t : Nat → R) (hN : 0 < rows.length) :
    pot rows t rows.length (seed rows.length) = t (rows.length - 1) := by
  unfold pot seed
  have hmem : rows.length - 1 ∈ range rows.length := mem_range.mpr (by omega)
  rw [← Finset.add_sum_erase _ _ hmem]
  have h0 : ∑ x ∈ (range rows.length).erase (rows.length - 1),
      (if x < rows.length ∨ (rows[x]?.map isLeaf = some true)
        then (if x + 1 = rows.length then (1:R) else 0) * t x else 0) = 0 := by
    apply Finset.sum_eq_zero
    intro x hx
    have hne : x ≠ rows.length - 1 := (Finset.mem_erase.mp hx).1
    have : ¬ (x + 1 = rows.length) := by omega
    simp [this]
  rw [h0]
  have h1 : rows.length - 1 + 1 = rows.length := by omega
  have h2 : rows.length - 1 < rows.length := by omega
  simp [h1, h2]

/-- Reverse accumulation equals the forward tangent of the last row:
    the sum over leaf rows of (final adjoint × seed) is `t (N-1)`. -/
theorem reverse_is_tangent (rows : List (Row R)) (t : Nat → R) (hwf : WF rows)
    (ht : TangentSpec rows t) (hN : 0 < rows.length) :
    pot rows t 0 (revSweep rows rows.length (seed rows.length)) = t (rows.length - 1) := by
  rw [sweep_pot rows t hwf ht rows.length (le_refl _) _, pot_top rows t hN]

/-- and `pot … 0` only looks at leaf rows, where `t i` is the leaf's own seed -/
theorem pot_zero_leaves (rows : List (Row R)) (t : Nat → R) (ht : TangentSpec rows t) (adj : Nat → R) :
    pot rows t 0 adj = ∑ i ∈ range rows.length,
      match rows[i]? with
      | some (.leaf s) => adj i * s
      | _ => 0 := by
  unfold pot
  apply Finset.sum_congr rfl
  intro i hi
  have hi' : i < rows.length := mem_range.mp hi
  have hrow : rows[i]? = some rows[i] := List.getElem?_eq_getElem hi'
  have hti := ht i hi'
  rw [hrow]
  cases hr : rows[i] with
  | leaf s => rw [hr] at hti; simp [isLeaf, hti, rowTangent]
  | op p q a b => simp [isLeaf]

-- non-vacuity: x, x*x with both operands the same row (fan-out 2): d/dx = 2x at x = 3
example : reverse_is_tangent (R := ℤ) [Row.leaf 1, Row.op 0 0 3 3] (fun i => if i = 0 then 1 else 6)
    (by intro i h; match i, h with | 0, _ => trivial | 1, _ => exact ⟨by decide, by decide⟩)
    (by intro i h; match i, h with | 0, _ => rfl | 1, _ => rfl) (by decide) = rfl := rfl

end Bingo.ReverseMode

/-! ## additions for the bridge to `Bingo.Eval` -/
namespace Bingo.ReverseMode
open Finset
variable {R : Type} [CommRing R]

/-- a reverse step at row `k` only touches adjoints of rows below `k` -/
lemma revStep_of_ge (rows : List (Row R)) (hwf : WF rows) (adj : Nat → R) (k i : Nat)
    (hki : k ≤ i) : revStep rows adj k i = adj i := by
  unfold revStep
  by_cases hk : k < rows.length
  · have hrow : rows[k]? = some rows[k] := List.getElem?_eq_getElem hk
    have hw := hwf k hk
    rw [hrow]
    cases hr : rows[k] with
    | leaf s => rfl
    | op p q a b =>
      rw [hr] at hw
      simp only at hw
      obtain ⟨hp, hq⟩ := hw
      simp only
      rw [Function.update_of_ne (by omega), Function.update_of_ne (by omega)]
  · have : rows[k]? = none := List.getElem?_eq_none (by omega)
    rw [this]

/-- once the sweep is below row `i`, the adjoint of row `i` is final -/
lemma revSweep_of_ge (rows : List (Row R)) (hwf : WF rows) :
    ∀ (k : Nat) (adj : Nat → R) (i : Nat), k ≤ i → revSweep rows k adj i = adj i
  | 0, _, _, _ => rfl
  | k+1, adj, i, h => by
    simp only [revSweep]
    rw [revSweep_of_ge rows hwf k _ i (by omega), revStep_of_ge rows hwf adj k i (by omega)]

lemma tangents_snoc (l : List (Row R)) (r : Row R) :
    tangents (l ++ [r]) = tangents l ++ [rowTangent (fun i => (tangents l).getD i 0) r] := by
  unfold tangents
  rw [List.foldl_append]
  cases r <;> rfl

lemma length_tangents (l : List (Row R)) : (tangents l).length = l.length := by
  induction l using List.reverseRecOn with
  | nil => rfl
  | append_singleton l r ih => rw [tangents_snoc]; simp [ih]

/-- the list `tangents rows` (forward-mode sweep) satisfies the tangent recurrences -/
theorem tangentSpec_tangents (rows : List (Row R)) (hwf : WF rows) :
    TangentSpec rows (fun i => (tangents rows).getD i 0) := by
  induction rows using List.reverseRecOn with
  | nil => intro i h; simp at h
  | append_singleton l r ih =>
    have hwfl : WF l := by
      intro i h
      have := hwf i (by simp; omega)
      rwa [List.getElem_append_left h] at this
    have ih := ih hwfl
    have hlen := length_tangents l
    intro i h
    rw [tangents_snoc]
    have key : ∀ (v : R) (p : Nat), p < l.length →
        (tangents l ++ [v]).getD p 0 = (tangents l).getD p 0 := by
      intro v p hp
      simp [List.getD_eq_getElem?_getD, List.getElem?_append_left (hlen ▸ hp)]
    by_cases hi : i < l.length
    · rw [List.getElem_append_left hi]
      have h1 := ih i hi
      simp only at h1
      simp only
      rw [key _ i hi, h1]
      have hw := hwfl i hi
      cases hr : l[i] with
      | leaf s => rfl
      | op p q a b =>
        rw [hr] at hw
        simp only at hw
        simp only [rowTangent]
        rw [key _ p (by omega), key _ q (by omega)]
    · have hil : i = l.length := by simp at h; omega
      subst hil
      have hw := hwf l.length h
      simp only [List.getElem_append_right (le_refl _), Nat.sub_self, List.getElem_cons_zero] at hw ⊢
      have hv : ∀ v : R, (tangents l ++ [v]).getD l.length 0 = v := by
        intro v
        simp [List.getD_eq_getElem?_getD, ← hlen]
      rw [hv]
      cases r with
      | leaf s => rfl
      | op p q a b =>
        simp only at hw
        simp only [rowTangent]
        rw [key _ p hw.1, key _ q hw.2]

end Bingo.ReverseMode
