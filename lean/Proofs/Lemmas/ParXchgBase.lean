import Model.ParArch
/-!
# C11 (parallel clause) -- list helpers and the specification of `xtake`

Core Lean only.  `xtake src dst l` removes the first message from `src` to `dst`; the rest is `l` minus
exactly that message (`xtake_perm`), and it fails only when no such message is in flight
(`xtake_none_iff`).
-/
namespace Bingo
namespace ParXchg
open ParArch

theorem getD_set_self {α : Type} (l : List α) (r : Nat) (x d : α) (h : r < l.length) :
    (l.set r x).getD r d = x := by
  simp [List.getD, h]

theorem getD_set_ne {α : Type} (l : List α) (r a : Nat) (x d : α) (h : a ≠ r) :
    (l.set r x).getD a d = l.getD a d := by
  simp [List.getD, Ne.symm h]

theorem getD_set {α : Type} (l : List α) (r a : Nat) (x d : α) (h : r < l.length) :
    (l.set r x).getD a d = if a = r then x else l.getD a d := by
  split
  · subst_vars; exact getD_set_self l _ x d h
  · exact getD_set_ne l r a x d ‹_›

/-- the taken message is in flight and the rest is everything else -/
theorem xtake_perm {a b : Nat} {l : List (Nat × Nat × List Nat)} {m : List Nat}
    {rest : List (Nat × Nat × List Nat)} (h : xtake a b l = some (m, rest)) :
    l.Perm ((a, b, m) :: rest) := by
  induction l generalizing m rest with
  | nil => simp [xtake] at h
  | cons x xs ih =>
    obtain ⟨a', b', m'⟩ := x
    unfold xtake at h
    split at h
    · rename_i hc
      simp only [Bool.and_eq_true, decide_eq_true_eq] at hc
      obtain ⟨rfl, rfl⟩ := hc
      cases h; exact List.Perm.refl _
    · cases ht : xtake a b xs with
      | none => simp [ht] at h
      | some pr =>
        obtain ⟨m2, rest2⟩ := pr
        simp only [ht, Option.some.injEq, Prod.mk.injEq] at h
        obtain ⟨rfl, rfl⟩ := h
        exact ((ih ht).cons _).trans (List.Perm.swap _ _ _)

theorem xtake_none_iff {a b : Nat} {l : List (Nat × Nat × List Nat)} :
    xtake a b l = none ↔ ∀ m, (a, b, m) ∉ l := by
  induction l with
  | nil => simp [xtake]
  | cons x xs ih =>
    obtain ⟨a', b', m'⟩ := x
    unfold xtake
    split
    · rename_i hc
      simp only [Bool.and_eq_true, decide_eq_true_eq] at hc
      obtain ⟨rfl, rfl⟩ := hc
      simp only [reduceCtorEq, false_iff]
      intro hh; exact hh m' (List.mem_cons_self ..)
    · rename_i hc
      simp only [Bool.and_eq_true, decide_eq_true_eq] at hc
      cases ht : xtake a b xs with
      | none =>
        simp only [true_iff]
        intro m hm
        rcases List.mem_cons.mp hm with h | h
        · simp only [Prod.mk.injEq] at h; exact hc ⟨h.1.symm, h.2.1.symm⟩
        · exact (ih.mp ht) m h
      | some pr =>
        simp only [reduceCtorEq, false_iff]
        intro hh
        have : xtake a b xs = none := ih.mpr (fun m hm => hh m (List.mem_cons_of_mem _ hm))
        simp [ht] at this

end ParXchg
end Bingo
