import Model.Ops
import Model.Eval
import Proofs.Lemmas.Deps
import Proofs.Lemmas.ListAux
/-!
# Decidable side-conditions on the generated tables (core only, no Mathlib)

Everything here is checked by `decide` against whatever the translator emitted.
-/
namespace Bingo

namespace Dep
/-- every slot -/
def all : List Dep := [.intParam, .loadX, .loadC, .fwd .p1, .fwd .p2, .fwd .self, .rev]

theorem mem_all (d : Dep) : d ∈ all := by
  cases d with
  | fwd r => cases r <;> simp [all]
  | _ => simp [all]

/-- slots a terminal rule may read: no `fwd _`, no `rev` -/
def term : Dep → Bool
  | .intParam | .loadX | .loadC => true
  | _ => false
/-- slots an arity-1 rule may read: only `fwd .p1` -/
def ar1 : Dep → Bool
  | .fwd .p1 => true
  | _ => false
/-- slots an arity-2 rule may read: only `fwd .p1` / `fwd .p2` -/
def ar2 : Dep → Bool
  | .fwd .p1 | .fwd .p2 => true
  | _ => false
end Dep

namespace RExpr
/-- the expression reads only slots satisfying `ok` -/
def readsOnly (ok : Dep → Bool) (e : RExpr) : Bool := Dep.all.all fun d => !e.reads d || ok d

theorem readsOnly_spec {ok : Dep → Bool} {e : RExpr} (h : e.readsOnly ok = true) :
    ∀ d, e.reads d = true → ok d = true := by
  intro d hd
  have := List.all_eq_true.mp h d (Dep.mem_all d)
  simpa [hd] using this
end RExpr

namespace Tables
open Gen.OpDefs

/-- the side-condition for one `(node, forward rule)` entry -/
def entryOK (n : Int) (rule : RExpr) : Bool :=
  rule.supported &&
  match Ops.isTerminal n, Ops.isArity2 n with
  | some true, some false => rule.readsOnly Dep.term
  | some false, some false => rule.readsOnly Dep.ar1
  | some false, some true => rule.readsOnly Dep.ar2
  | _, _ => false

/-- every forward rule is supported, belongs to a node whose arity-table entries are one of the
three legal pairs, and reads only what a node of that arity may read -/
def rulesConsistent : Bool := Gen.OpRules.fwdRules.all fun p => entryOK p.1 p.2

/-- every node of the arity tables has a forward rule -/
def rulesTotal : Bool := Gen.OpDefs.isTerminalTbl.all fun p => (Eval.fwdRule p.1).isSome

/-- the VARIABLE rule reads no constant, the CONSTANT rule no data column, the INTEGER rule neither -/
def terminalsConsistent : Bool := Gen.OpRules.fwdRules.all fun p =>
  (p.1 != VARIABLE || !p.2.reads .loadC) &&
  (p.1 != CONSTANT || !p.2.reads .loadX) &&
  (p.1 != INTEGER || (!p.2.reads .loadX && !p.2.reads .loadC))

theorem rulesConsistent_true : rulesConsistent = true := by decide
theorem rulesTotal_true : rulesTotal = true := by decide
theorem terminalsConsistent_true : terminalsConsistent = true := by decide

theorem entryOK_of_fwdRule {n : Int} {rule : RExpr} (h : Eval.fwdRule n = some rule) :
    entryOK n rule = true :=
  List.all_eq_true.mp rulesConsistent_true (n, rule) (ListAux.lookup_some_mem h)

/-- the shape of a table entry, as a case split -/
inductive Shape (n : Int) (rule : RExpr) : Prop where
  | term (ht : Ops.isTerminal n = some true) (ha : Ops.isArity2 n = some false)
      (hr : ∀ d, rule.reads d = true → Dep.term d = true)
  | ar1 (ht : Ops.isTerminal n = some false) (ha : Ops.isArity2 n = some false)
      (hr : ∀ d, rule.reads d = true → Dep.ar1 d = true)
  | ar2 (ht : Ops.isTerminal n = some false) (ha : Ops.isArity2 n = some true)
      (hr : ∀ d, rule.reads d = true → Dep.ar2 d = true)

theorem shape_of_fwdRule {n : Int} {rule : RExpr} (h : Eval.fwdRule n = some rule) :
    rule.supported = true ∧ Shape n rule := by
  have h1 := entryOK_of_fwdRule h
  unfold entryOK at h1
  rw [Bool.and_eq_true] at h1
  refine ⟨h1.1, ?_⟩
  have h2 := h1.2
  split at h2
  · next ht ha => exact .term ht ha (RExpr.readsOnly_spec h2)
  · next ht ha => exact .ar1 ht ha (RExpr.readsOnly_spec h2)
  · next ht ha => exact .ar2 ht ha (RExpr.readsOnly_spec h2)
  · cases h2

theorem fwdRule_isSome_of_isTerminal {n : Int} {b : Bool} (h : Ops.isTerminal n = some b) :
    (Eval.fwdRule n).isSome = true :=
  List.all_eq_true.mp rulesTotal_true (n, b) (ListAux.lookup_some_mem h)

theorem terminal_reads {n : Int} {rule : RExpr} (h : Eval.fwdRule n = some rule) :
    (n = VARIABLE → rule.reads .loadC = false) ∧
    (n = CONSTANT → rule.reads .loadX = false) ∧
    (n = INTEGER → rule.reads .loadX = false ∧ rule.reads .loadC = false) := by
  have := List.all_eq_true.mp terminalsConsistent_true (n, rule) (ListAux.lookup_some_mem h)
  simp only [Bool.and_eq_true, Bool.or_eq_true, bne_iff_ne, ne_eq, Bool.not_eq_true'] at this
  obtain ⟨⟨h1, h2⟩, h3⟩ := this
  refine ⟨fun hn => ?_, fun hn => ?_, fun hn => ?_⟩
  · exact h1.resolve_left (fun h => h hn)
  · exact h2.resolve_left (fun h => h hn)
  · exact h3.resolve_left (fun h => h hn)

end Tables
end Bingo
