import Proofs.Lemmas.CasTermFoldE
/-!
# The folding loop terminates

Every pass that is carried out makes the expression smaller (`fold_progress`); hence
`foldLoop (size e + 1) e` does not run out of fuel.
-/
namespace Bingo
namespace Cas
namespace Term
open Gen.OpDefs Expr Auto

variable {T : Int → Bool}

/-! ## the subsets tried consist of distinct ids of the expression -/

theorem firstFoldOfSize_some'' {e : Expr} {constants : List (Int × Expr)} :
    ∀ (pool : List Int) (k : Nat) (acc : List Int) (r : Replacements),
    (acc.reverse ++ pool).Nodup →
    firstFoldOfSize e constants k pool acc = .ok (some r) →
    ∃ S, S.Nodup ∧ (∀ j ∈ S, j ∈ acc.reverse ++ pool) ∧ r.isEmpty = false ∧
      generateReplacements S constants (findInsertionPoints e S) = .ok r := by
  intro pool
  induction pool with
  | nil =>
    intro k acc r hnd h
    cases k with
    | zero =>
      obtain ⟨h1, h2⟩ := firstFoldOfSize_zero' h
      exact ⟨_, by simpa using hnd, fun j hj => by simpa using hj, h1, h2⟩
    | succ k => rw [firstFoldOfSize] at h; cases h
  | cons c cs ih =>
    intro k acc r hnd h
    cases k with
    | zero =>
      obtain ⟨h1, h2⟩ := firstFoldOfSize_zero' h
      exact ⟨_, (List.nodup_append.1 hnd).1, fun j hj => List.mem_append_left _ hj, h1, h2⟩
    | succ k =>
      rw [firstFoldOfSize] at h
      split at h
      · cases h
      · have hnd1 : ((c :: acc).reverse ++ cs).Nodup := by
          simpa [List.reverse_cons, List.append_assoc] using hnd
        have hnd2 : (acc.reverse ++ cs).Nodup := by
          refine List.Nodup.sublist ?_ hnd
          exact List.Sublist.append_left (List.sublist_cons_self c cs) _
        cases h1 : firstFoldOfSize e constants k cs (c :: acc) with
        | error s => simp only [h1] at h; cases h
        | ok o =>
          simp only [h1] at h
          cases o with
          | some r' =>
            change Except.ok (some r') = Except.ok (some r) at h
            cases h
            obtain ⟨S, a1, a2, a3, a4⟩ := ih k _ r hnd1 h1
            refine ⟨S, a1, fun j hj => ?_, a3, a4⟩
            have := a2 j hj
            simpa [List.reverse_cons, List.append_assoc] using this
          | none =>
            obtain ⟨S, a1, a2, a3, a4⟩ := ih (k+1) acc r hnd2 h
            refine ⟨S, a1, fun j hj => ?_, a3, a4⟩
            rcases List.mem_append.1 (a2 j hj) with h' | h'
            · exact List.mem_append_left _ h'
            · exact List.mem_append_right _ (List.mem_cons_of_mem _ h')

theorem firstFold_some'' {e : Expr} {constants : List (Int × Expr)} {ids : List Int}
    (hnd : ids.Nodup) :
    ∀ (n size : Nat) (r : Replacements), firstFold e constants ids n size = .ok (some r) →
    ∃ S, S.Nodup ∧ (∀ j ∈ S, j ∈ ids) ∧ r.isEmpty = false ∧
      generateReplacements S constants (findInsertionPoints e S) = .ok r := by
  intro n
  induction n with
  | zero => intro size r h; rw [firstFold] at h; cases h
  | succ n ih =>
    intro size r h
    rw [firstFold] at h
    cases h1 : firstFoldOfSize e constants size ids [] with
    | error s => simp only [h1] at h; cases h
    | ok o =>
      simp only [h1] at h
      cases o with
      | some r' =>
        change Except.ok (some r') = Except.ok (some r) at h
        cases h
        obtain ⟨S, a1, a2, a3, a4⟩ := firstFoldOfSize_some'' ids size [] r (by simpa using hnd) h1
        exact ⟨S, a1, fun j hj => by simpa using a2 j hj, a3, a4⟩
      | none => exact ih (size+1) r h

/-! ## the ids of `_get_constants` occur in the expression -/

theorem getConstantsAcc_occurs : ∀ (e : Expr) (acc : List (Int × Expr)) (p : Int × Expr),
    p ∈ getConstantsAcc e acc → p ∈ acc ∨ hasConsts [p.1] e = true := by
  intro e
  induction e using Expr.ind' with
  | ht o v n =>
    intro acc p hp
    rw [getConstantsAcc] at hp
    split at hp
    · rename_i ho
      subst ho
      rcases dictSet_mem hp with hp | rfl
      · exact Or.inl hp
      · right; simp [hasConsts]
    · exact Or.inl hp
  | hn o as ih =>
    intro acc p hp
    rw [getConstantsAcc] at hp
    simp only [hasConsts]
    have hl : ∀ (l : List Expr), (∀ a ∈ l, a ∈ as) → ∀ acc, p ∈ getConstantsList l acc →
        p ∈ acc ∨ hasConstsList [p.1] l = true := by
      intro l
      induction l with
      | nil => intro _ acc h; rw [getConstantsList] at h; exact Or.inl h
      | cons a l ihl =>
        intro hm acc h
        rw [getConstantsList] at h
        simp only [hasConstsList, Bool.or_eq_true]
        rcases ihl (fun b hb => hm b (List.mem_cons_of_mem _ hb)) _ h with h' | h'
        · rcases ih a (hm a List.mem_cons_self) acc p h' with h'' | h''
          · exact Or.inl h''
          · exact Or.inr (Or.inl h'')
        · exact Or.inr (Or.inr h')
    exact hl as (fun a ha => ha) acc hp

theorem getConstants_occurs {e : Expr} {j : Int} (h : j ∈ (getConstants e).map (·.1)) :
    hasConsts [j] e = true := by
  obtain ⟨p, hp, rfl⟩ := List.mem_map.1 h
  rcases getConstantsAcc_occurs e [] p hp with h' | h'
  · cases h'
  · exact h'

/-! ## every pass that is carried out makes the expression smaller -/

theorem fold_progress {e : Expr} (hne : NE T e = true) (hg : Grp e = true) {S : List Int}
    (hnd : S.Nodup) (hsub : ∀ j ∈ S, j ∈ (getConstants e).map (·.1)) {repl : Replacements}
    (hgen : generateReplacements S (getConstants e) (findInsertionPoints e S) = .ok repl)
    (hnonempty : repl.isEmpty = false) {e' : Expr}
    (hp : performConstantFolding repl e = .ok e') : size e' < size e := by
  have hr := repl_both hg hgen
  obtain ⟨hlen, insL, repsL, hz, hss⟩ := generateReplacements_nonempty' hgen hnonempty
  have hGG := findInsertionPoints_GG (T := T) S hne hg
  have whole : ¬ NoNoneKey repl → 2 ≤ size e → size e' < size e := by
    intro hn h2
    obtain ⟨pd, hpd, kv, hkv, hv⟩ := pCF_whole hn hp
    rw [size_goodConst ((hr pd hpd kv hkv).1.1 e' hv)]
    omega
  by_cases hbig : ∃ ks ∈ findInsertionPoints e S, ∃ ins ∈ ks.2, ∃ ch ∈ ins.2, 2 ≤ size ch
  · obtain ⟨ks, hks, ins, hins, ch, hch, h2⟩ := hbig
    have hkey : HasKey repl ins.1 ch :=
      (genZip_complete S _ _ _ hlen hz).2 ks hks ins hins ch hch
    obtain ⟨ch0, hch0, _, _, hpl, _⟩ := hGG ks hks ins hins
    rw [hch0] at hch
    simp only [List.mem_singleton] at hch
    subst hch
    rcases hpl with ⟨hnone, hroot⟩ | ⟨P, hsome, hmem, hsubP⟩
    · rw [hnone] at hkey
      subst hroot
      exact whole (not_noNoneKey_of_hasKey hkey) h2
    · rw [hsome] at hkey
      obtain ⟨kv, hkv, hb⟩ := hkey
      have hm : Marked repl P := ⟨ch, hmem, h2, kv, by rw [replacementsFor_eq]; exact hkv, hb⟩
      have hreach := reach_of_sub hsubP hm
      by_cases hn : NoNoneKey repl
      · exact pCF_size_lt hn hr hreach e' hp
      · exact whole hn (size_of_reach hreach)
  · exfalso
    have hsmall : ∀ ks ∈ findInsertionPoints e S, ∀ ins ∈ ks.2, ∀ ch ∈ ins.2, size ch ≤ 1 := by
      intro ks hks ins hins ch hch
      by_contra hc
      exact hbig ⟨ks, hks, ins, hins, ch, hch, by omega⟩
    have := sameSets_of_small hGG hnd (fun j hj => getConstants_occurs (hsub j hj)) hlen hz hsmall
    rw [this] at hss
    cases hss

/-! ## the passes without fuel never answer `"fuel"` -/

theorem genZip_nfu (constants : List (Int × Expr)) : ∀ (cs : List Int) (ips : InsertionPoints)
    (s : GenState), NFu (genZip constants cs ips s) := by
  intro cs
  induction cs with
  | nil => intro ips s; rw [genZip]; exact pure_ne; intro _ _ _ _ _ h; cases h
  | cons j cs ih =>
    intro ips s
    cases ips with
    | nil => rw [genZip]; exact pure_ne; intro _ _ _ _ _ _ h; cases h
    | cons ks ips =>
      obtain ⟨key, insertions⟩ := ks
      rw [genZip]
      split
      · exact ih _ _
      · exact throw_ne (by decide)

theorem generateReplacements_nfu (S : List Int) (constants : List (Int × Expr))
    (ips : InsertionPoints) : NFu (generateReplacements S constants ips) := by
  unfold generateReplacements
  split
  · exact pure_ne
  · refine nfu_bind (genZip_nfu _ _ _ _) (fun x _ => ?_)
    obtain ⟨repl, ins, reps⟩ := x
    dsimp only
    split <;> exact pure_ne

theorem firstFoldOfSize_nfu (e : Expr) (constants : List (Int × Expr)) : ∀ (pool : List Int)
    (k : Nat) (acc : List Int), NFu (firstFoldOfSize e constants k pool acc) := by
  intro pool
  induction pool with
  | nil =>
    intro k acc
    cases k with
    | zero =>
      rw [firstFoldOfSize]
      exact nfu_bind (generateReplacements_nfu _ _ _) (fun _ _ => pure_ne)
    | succ k => rw [firstFoldOfSize]; exact pure_ne
  | cons c cs ih =>
    intro k acc
    cases k with
    | zero =>
      rw [firstFoldOfSize]
      exact nfu_bind (generateReplacements_nfu _ _ _) (fun _ _ => pure_ne)
    | succ k =>
      rw [firstFoldOfSize]
      split
      · exact pure_ne
      · refine nfu_bind (ih _ _) (fun o _ => ?_)
        split
        · exact pure_ne
        · exact ih _ _

theorem firstFold_nfu (e : Expr) (constants : List (Int × Expr)) (ids : List Int) :
    ∀ (n size : Nat), NFu (firstFold e constants ids n size) := by
  intro n
  induction n with
  | zero => intro size; rw [firstFold]; exact pure_ne
  | succ n ih =>
    intro size
    rw [firstFold]
    refine nfu_bind (firstFoldOfSize_nfu _ _ _ _ _) (fun o _ => ?_)
    split
    · exact pure_ne
    · exact ih _

theorem wholeReplacement_nfu (repl : Replacements) (e : Expr) :
    ∀ r, wholeReplacement? repl e = some r → NFu r := by
  intro r h
  unfold wholeReplacement? at h
  split at h
  · split at h
    · cases h; exact pure_ne
    · cases h; exact throw_ne (by decide)
    · cases h; exact throw_ne (by decide)
  · cases h

theorem pCF_nfu (repl : Replacements) : ∀ (e : Expr), NFu (performConstantFolding repl e) := by
  intro e
  induction e using Expr.rec (motive_2 := fun l => ∀ d, NFu (foldOperands repl d l)) with
  | term o v np =>
    rw [performConstantFolding]
    split
    · rename_i r h; exact wholeReplacement_nfu repl _ r h
    · exact pure_ne
  | node o as ih =>
    rw [performConstantFolding]
    split
    · rename_i r h; exact wholeReplacement_nfu repl _ r h
    · exact nfu_bind (ih _) (fun _ _ => pure_ne)
  | nil => rw [foldOperands]; exact pure_ne
  | cons a as iha ihas =>
    rename_i d
    rw [foldOperands]
    split
    · exact nfu_bind (ihas d) (fun _ _ => pure_ne)
    · exact ihas d
    · exact nfu_bind iha (fun _ _ => nfu_bind (ihas d) (fun _ _ => pure_ne))

/-- **the `while check_for_folding` loop terminates**: fuel `size e + 1` suffices -/
theorem foldLoop_nfu (hT : T CONSTANT = true) : ∀ (n : Nat) (e : Expr), NE T e = true →
    Grp e = true → size e < n → NFu (foldLoop n e) := by
  intro n
  induction n with
  | zero => intro e _ _ h; omega
  | succ n ih =>
    intro e hne hg hn
    rw [foldLoop]
    refine nfu_bind (firstFold_nfu _ _ _ _ _) (fun o hff => ?_)
    cases o with
    | none => exact pure_ne
    | some repl =>
      obtain ⟨S, hnd, hsub, hnonempty, hgen⟩ :=
        firstFold_some'' (getConstants_ok e).1 _ _ _ hff
      have hr := repl_both hg hgen
      refine nfu_bind (pCF_nfu repl e) (fun e1 hp => ?_)
      have hlt := fold_progress hne hg hnd hsub hgen hnonempty hp
      exact ih e1 (pCF_top_NE hT hr hne hp)
        (pCF_top_grp (fun pd hpd kv hkv => (hr pd hpd kv hkv).1) hg hp) (by omega)

/-- **`fold_constants` terminates**: fuel `size (groupConstants e) + 1` suffices -/
theorem foldConstants_nfu (hT : ∀ o, T o = true → o = VARIABLE ∨ o = CONSTANT)
    (hC : T CONSTANT = true) {e : Expr} (h : NE T e = true) {f : Nat}
    (hf : size (groupConstants e) < f) : NFu (foldConstants f e) := by
  unfold foldConstants
  exact foldLoop_nfu hC f _ (groupConstants_NE e h) (groupConstants_grp_NE hT e h).1 hf

theorem varOrConst_cases : ∀ o, varOrConst o = true → o = VARIABLE ∨ o = CONSTANT := by
  intro o h
  simpa [varOrConst] using h

theorem foldOK_varOrConst : FoldOK varOrConst := by
  intro e1 h1
  exact ⟨⟨size (groupConstants e1) + 1, fun f hf =>
      foldConstants_nfu varOrConst_cases (by decide) h1 (by omega)⟩,
    fun f e2 he2 => foldConstants_NE varOrConst_cases (by decide) h1 he2⟩

/-- end to end, every well-formed stack -/
theorem simplifyWithFuel_halts {D L : Nat} {s : Stack} (hwf : WF.WFEval D L s) (st : Bool) :
    ∃ N, ∀ f, N ≤ f → NFu (simplifyWithFuel st f s) :=
  simplifyWithFuel_halts_gen foldOK_varOrConst hwf st

end Term
end Cas
end Bingo
