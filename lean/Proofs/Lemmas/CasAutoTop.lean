import Proofs.Lemmas.CasAuto
/-!
# Soundness of the non-recursive simplifiers, of the dispatch and of `automaticSimplify`
-/
namespace Bingo
namespace Cas
namespace Auto
open Gen.OpDefs Expr

/-! ## node meanings -/

theorem binDen_div (a b : ℝ) : binDen DIVISION a b = if b = 0 then none else some (a / b) := by
  unfold binDen
  have h1 : MathSem.bin DIVISION a b = some (a / b) := by
    simp [MathSem.bin, DIVISION, ADDITION, SUBTRACTION, MULTIPLICATION]
  have h2 : MathSem.binDefined DIVISION a b ↔ b ≠ 0 := by
    simp [MathSem.binDefined, DIVISION, POWER, SAFE_POWER]
  rw [h1]
  by_cases hb : b = 0
  · rw [if_neg (by rw [h2]; exact fun h => h hb), if_pos hb]
  · rw [if_pos (h2.mpr hb), if_neg hb]

theorem binDen_sub (a b : ℝ) : binDen SUBTRACTION a b = some (a - b) := by
  unfold binDen
  have h1 : MathSem.bin SUBTRACTION a b = some (a - b) := by
    simp [MathSem.bin, SUBTRACTION, ADDITION]
  have h2 : MathSem.binDefined SUBTRACTION a b := by
    simp [MathSem.binDefined, SUBTRACTION, DIVISION, POWER, SAFE_POWER]
  rw [if_pos h2, h1]

theorem unDen_of_ne_log {o : Int} (h : o ≠ LOGARITHM) (a : ℝ) : unDen o a = MathSem.un o a := by
  unfold unDen
  rw [if_pos]
  intro h'; exact (h h').elim

theorem unDen_log (a : ℝ) : unDen LOGARITHM a = if a = 0 then none else some (Real.log |a|) := by
  unfold unDen
  have h1 : MathSem.un LOGARITHM a = some (Real.log |a|) := by
    simp [MathSem.un, LOGARITHM, SIN, COS, EXPONENTIAL]
  have h2 : MathSem.unDefined LOGARITHM a ↔ a ≠ 0 := by simp [MathSem.unDefined]
  rw [h1]
  by_cases ha : a = 0
  · rw [if_neg (by rw [h2]; exact fun h => h ha), if_pos ha]
  · rw [if_pos (h2.mpr ha), if_neg ha]

theorem unDen_sin (a : ℝ) : unDen SIN a = some (Real.sin a) := by
  rw [unDen_of_ne_log (by decide)]; simp [MathSem.un]
theorem unDen_cos (a : ℝ) : unDen COS a = some (Real.cos a) := by
  rw [unDen_of_ne_log (by decide)]; simp [MathSem.un, COS, SIN]
theorem unDen_exp (a : ℝ) : unDen EXPONENTIAL a = some (Real.exp a) := by
  rw [unDen_of_ne_log (by decide)]; simp [MathSem.un, COS, SIN, EXPONENTIAL]
theorem unDen_sinh (a : ℝ) : unDen SINH a = some (Real.sinh a) := by
  rw [unDen_of_ne_log (by decide)]
  simp [MathSem.un, COS, SIN, EXPONENTIAL, LOGARITHM, ABS, SQRT, SINH]
theorem unDen_cosh (a : ℝ) : unDen COSH a = some (Real.cosh a) := by
  rw [unDen_of_ne_log (by decide)]
  simp [MathSem.un, COS, SIN, EXPONENTIAL, LOGARITHM, ABS, SQRT, SINH, COSH]

/-! ## monotonicity of the node meaning in the operand meanings -/

theorem osum_mono : ∀ {vs vs' : List (Option ℝ)}, List.Forall₂ Refines vs vs' → osum vs ⊑ osum vs'
  | _, _, .nil => Refines.rfl'
  | _, _, .cons h t => oadd_mono h (osum_mono t)

theorem oprod_mono : ∀ {vs vs' : List (Option ℝ)}, List.Forall₂ Refines vs vs' →
    oprod vs ⊑ oprod vs'
  | _, _, .nil => Refines.rfl'
  | _, _, .cons h t => omul_mono h (oprod_mono t)

theorem nodeDen_mono {o : Int} {lit : Option Int} {vs vs' : List (Option ℝ)}
    (h : List.Forall₂ Refines vs vs') : nodeDen o lit vs ⊑ nodeDen o lit vs' := by
  unfold nodeDen
  split
  · exact osum_mono h
  · split
    · exact oprod_mono h
    · cases h with
      | nil => exact Refines.rfl'
      | cons h1 t =>
        cases t with
        | nil => exact bind_mono h1 (fun _ => Refines.rfl')
        | cons h2 t =>
          cases t with
          | nil =>
            dsimp only
            split
            · split
              · exact bind_mono h1 (fun _ => Refines.rfl')
              · exact bind_mono h1 (fun _ => bind_mono h2 (fun _ => Refines.rfl'))
            · exact bind_mono h1 (fun _ => bind_mono h2 (fun _ => Refines.rfl'))
          | cons h3 t => exact Refines.rfl'

theorem nodeDen_lit_irrel {o : Int} (h : o ≠ POWER) (lit lit' : Option Int)
    (vs : List (Option ℝ)) : nodeDen o lit vs = nodeDen o lit' vs := by
  unfold nodeDen
  simp only [h, if_false]

section top
variable {k : Bool} {T : Int → Int → Bool}

/-! ## quotient, difference -/

theorem simplifyQuotient_sound {f : Nat} {a b r : Expr} (ha : Ok k T a = true)
    (hb : Ok k T b = true) (h : simplifyQuotient true f a b = .ok r) :
    Ok k T r = true ∧ ∀ x cv, den x cv (node DIVISION [a, b]) ⊑ den x cv r := by
  unfold simplifyQuotient at h
  obtain ⟨dInv, hInv, h⟩ := bind_ok h
  obtain ⟨hokI, hdI⟩ := (soundAt k T f).pow b NEGATIVE_ONE (-1) false dInv rfl hb hInv
  obtain ⟨hok, hd⟩ := (soundAt k T f).prod [a, dInv] r
    (by
      intro e he
      simp only [List.mem_cons, List.not_mem_nil, or_false] at he
      rcases he with rfl | rfl
      · exact OkM_of_Ok ha
      · exact OkM_of_Ok hokI) (fun a ha => by cases ha) h
  refine ⟨hok, fun x cv => ?_⟩
  refine Refines.trans ?_ (hd x cv)
  rw [P_cons, P_singleton, den_bin x cv DIVISION a b (by decide) (by decide) (by decide)]
  refine Refines.trans ?_ (omul_mono Refines.rfl' (hdI x cv))
  cases den x cv a with
  | none => exact Refines.none_left _
  | some va =>
    cases den x cv b with
    | none => exact Refines.none_left _
    | some vb =>
      simp only [Option.bind_some, binDen_div]
      by_cases hvb : vb = 0
      · rw [if_pos hvb]; exact Refines.none_left _
      · rw [if_neg hvb]
        unfold zpowDen
        rw [if_neg (by simp [hvb]), omul_some]
        exact Refines.of_eq (by rw [zpow_neg_one, div_eq_mul_inv])

theorem neg_S (x : List ℝ) (cv : Int → ℝ) : ∀ {l negs : List Expr},
    List.Forall₂ (fun o n => omul (some (-1)) (den x cv o) ⊑ den x cv n) l negs →
    omul (some (-1)) (S x cv l) ⊑ S x cv negs
  | _, _, .nil => by simp [Refines]
  | _, _, .cons h t => by
    rw [S_cons, S_cons, omul_oadd]
    exact oadd_mono h (neg_S x cv t)

theorem simplifyDifference_sound {f : Nat} {a b r : Expr} (ha : Ok k T a = true)
    (hb : Ok k T b = true) (h : simplifyDifference true f a b = .ok r) :
    Ok k T r = true ∧ ∀ x cv, den x cv (node SUBTRACTION [a, b]) ⊑ den x cv r := by
  -- every negated operand is `Ok` and refines `-1 * operand`
  have one : ∀ o n, Ok k T o = true → simplifyProduct true f [NEGATIVE_ONE, o] = .ok n →
      Ok k T n = true ∧ ∀ x cv, omul (some (-1)) (den x cv o) ⊑ den x cv n := by
    intro o n ho hn
    obtain ⟨hok, hd⟩ := (soundAt k T f).prod [NEGATIVE_ONE, o] n
      (by
        intro e he
        simp only [List.mem_cons, List.not_mem_nil, or_false] at he
        rcases he with rfl | rfl
        · exact OkM_of_Ok Ok_NEGATIVE_ONE
        · exact OkM_of_Ok ho) (fun a ha => by cases ha) hn
    refine ⟨hok, fun x cv => ?_⟩
    have := hd x cv
    rwa [P_cons, P_singleton, den_NEGATIVE_ONE] at this
  -- the final sum
  have finish : ∀ negated, (∀ n ∈ negated, Ok k T n = true) →
      (∀ x cv, omul (some (-1)) (den x cv b) ⊑ S x cv negated) →
      simplifySum true f (a :: negated) = .ok r →
      Ok k T r = true ∧ ∀ x cv, den x cv (node SUBTRACTION [a, b]) ⊑ den x cv r := by
    intro negated hn1 hn2 h
    have hall : ∀ e ∈ a :: negated, Ok k T e = true := by
      intro e he
      rcases List.mem_cons.mp he with rfl | he
      · exact ha
      · exact hn1 e he
    obtain ⟨hok, hd⟩ := (soundAt k T f).sum (a :: negated) r (fun e he => OkM_of_Ok (hall e he))
      (fun a' ha' => hall a' (by rw [ha']; exact List.mem_singleton_self a')) h
    refine ⟨hok, fun x cv => ?_⟩
    refine Refines.trans ?_ (hd x cv)
    rw [S_cons, den_bin x cv SUBTRACTION a b (by decide) (by decide) (by decide)]
    refine Refines.trans ?_ (oadd_mono Refines.rfl' (hn2 x cv))
    cases den x cv a with
    | none => exact Refines.none_left _
    | some va =>
      cases den x cv b with
      | none => exact Refines.none_left _
      | some vb =>
        simp only [Option.bind_some, binDen_sub, omul_some, oadd_some]
        exact Refines.of_eq (by congr 1; ring)
  unfold simplifyDifference at h
  dsimp only at h
  split at h
  · rename_i hop
    obtain ⟨negated, hneg, h⟩ := bind_ok h
    have hf := mapM_ok hneg
    refine finish negated (fun n hn => ?_) (fun x cv => ?_) h
    · obtain ⟨o, ho, hon⟩ := forall₂_mem_right hf n hn
      exact (one o n (Ok_args hb o ho) hon).1
    · refine Refines.trans (omul_mono Refines.rfl' (den_args_add x cv hop)) ?_
      exact neg_S x cv (forall₂_imp_mem hf (fun o n ho hon => (one o n (Ok_args hb o ho) hon).2 x cv))
  · obtain ⟨n, hn, h⟩ := bind_ok h
    obtain ⟨negated, hneg, h⟩ := bind_ok h
    have hneg := pure_ok hneg
    subst hneg
    obtain ⟨hokn, hdn⟩ := one b n hb hn
    refine finish [n] (fun n' hn' => by rw [List.mem_singleton.mp hn']; exact hokn)
      (fun x cv => ?_) h
    rw [S_singleton]; exact hdn x cv

/-! ## unary operators -/

theorem Ok_un_node {o : Int} {a a₀ : Expr} (hs : shapeOK k o [a₀] = true) (h1 : o ≠ POWER)
    (h2 : o ≠ ADDITION) (h3 : o ≠ MULTIPLICATION) (ha : Ok k T a = true) :
    Ok k T (node o [a]) = true :=
  Ok_node.mpr ⟨shapeOK_congr h1 h2 h3 hs, fun e he => by rw [List.mem_singleton.mp he]; exact ha⟩

theorem atZero_sound {o : Int} {zeroTo a a₀ : Expr} (hs : shapeOK k o [a₀] = true) (h1 : o ≠ POWER)
    (h2 : o ≠ ADDITION) (h3 : o ≠ MULTIPLICATION) (ha : Ok k T a = true)
    (hz : Ok k T zeroTo = true) (hv : ∀ x cv, unDen o 0 = den x cv zeroTo) :
    Ok k T (simplifyAtZero zeroTo o a) = true ∧
      ∀ x cv, den x cv (node o [a]) ⊑ den x cv (simplifyAtZero zeroTo o a) := by
  unfold simplifyAtZero
  split
  · rename_i hzero
    refine ⟨hz, fun x cv => ?_⟩
    rw [den_un x cv o a h2 h3, isZero_den x cv hzero, Option.bind_some, hv x cv]
    exact Refines.rfl'
  · exact ⟨Ok_un_node hs h1 h2 h3 ha, fun x cv => Refines.rfl'⟩

theorem simplifyLogarithm_sound {a a₀ r : Expr} (hs : shapeOK k LOGARITHM [a₀] = true)
    (ha : Ok k T a = true) (h : simplifyLogarithm a = .ok r) :
    Ok k T r = true ∧ ∀ x cv, den x cv (node LOGARITHM [a]) ⊑ den x cv r := by
  unfold simplifyLogarithm at h
  split at h
  · rename_i hone
    cases pure_ok h
    refine ⟨Ok_ZERO, fun x cv => ?_⟩
    rw [den_un x cv _ a (by decide) (by decide), isOne_den x cv hone, Option.bind_some, unDen_log,
      if_neg one_ne_zero, den_ZERO]
    exact Refines.of_eq (by simp)
  · split at h
    · rename_i hop
      rw [beq_iff_eq] at hop
      cases a with
      | term o v np => simp only [args] at h; exact (throw_ok h).elim
      | node o as =>
        simp only [op] at hop; subst hop
        simp only [args] at h
        cases as with
        | nil => exact (throw_ok h).elim
        | cons u rest =>
          have hr := pure_ok h
          subst hr
          refine ⟨(Ok_node.mp ha).2 _ List.mem_cons_self, fun x cv => ?_⟩
          rw [den_un x cv _ _ (by decide) (by decide)]
          cases rest with
          | nil =>
            rw [den_un x cv _ u (by decide) (by decide)]
            cases den x cv u with
            | none => exact Refines.none_left _
            | some vu =>
              simp only [Option.bind_some, unDen_exp, unDen_log]
              rw [if_neg (Real.exp_ne_zero vu), abs_of_pos (Real.exp_pos vu), Real.log_exp]
              exact Refines.rfl'
          | cons w rest' =>
            -- `EXPONENTIAL` with more than one operand means nothing
            have : den x cv (node EXPONENTIAL (u :: w :: rest')) = none := by
              rw [den_node]; unfold nodeDen
              rw [if_neg (by decide), if_neg (by decide)]
              cases rest' with
              | nil =>
                simp only [List.map_cons, List.map_nil]
                rw [if_neg (by decide)]
                cases den x cv u with
                | none => rfl
                | some vu =>
                  cases den x cv w with
                  | none => rfl
                  | some vw =>
                    simp only [Option.bind_some]
                    unfold binDen
                    have : MathSem.bin EXPONENTIAL vu vw = none := by
                      simp [MathSem.bin, EXPONENTIAL, ADDITION, SUBTRACTION, MULTIPLICATION, DIVISION,
                        POWER, SAFE_POWER]
                    rw [this]; simp
              | cons _ _ => rfl
            rw [this]; exact Refines.none_left _
    · cases pure_ok h
      exact ⟨Ok_un_node hs (by decide) (by decide) (by decide) ha, fun x cv => Refines.rfl'⟩

/-! ## dispatch -/

theorem dispatch2_sound {f : Nat} {o : Int} {a b r : Expr}
    (hs : shapeOK k o [a, b] = true) (hoa : Ok k T a = true) (hob : Ok k T b = true)
    (h : dispatch true f o [a, b] = .ok r) :
    Ok k T r = true ∧ ∀ x cv, den x cv (node o [a, b]) ⊑ den x cv r := by
  have hM : ∀ aop, ∀ e ∈ [a, b], OkM k T aop e := by
    intro aop e he
    simp only [List.mem_cons, List.not_mem_nil, or_false] at he
    rcases he with rfl | rfl
    · exact OkM_of_Ok hoa
    · exact OkM_of_Ok hob
  rw [dispatch.eq_1] at h
  split at h
  · rename_i hop; subst hop
    obtain ⟨b0, n, np, hargs⟩ := shapeOK_pow_inv hs
    cases hargs
    obtain ⟨hok, hd⟩ := (soundAt k T f).pow a _ n np r rfl hoa h
    exact ⟨hok, fun x cv => by rw [den_pow_lit]; exact hd x cv⟩
  · split at h
    · rename_i hop; subst hop
      obtain ⟨hok, hd⟩ := (soundAt k T f).prod [a, b] r (hM _) (fun a ha => by cases ha) h
      exact ⟨hok, fun x cv => by rw [den_mul]; exact hd x cv⟩
    · split at h
      · rename_i hop; subst hop
        obtain ⟨hok, hd⟩ := (soundAt k T f).sum [a, b] r (hM _) (fun a ha => by cases ha) h
        exact ⟨hok, fun x cv => by rw [den_add]; exact hd x cv⟩
      · split at h
        · rename_i hop; subst hop
          exact simplifyQuotient_sound hoa hob h
        · split at h
          · rename_i hop; subst hop
            exact simplifyDifference_sound hoa hob h
          · split at h
            · rename_i hop
              exact (shapeOK_not_safe hs hop).elim
            · exact (throw_ok h).elim

theorem dispatch1_sound {f : Nat} {o : Int} {a r : Expr}
    (hs : shapeOK k o [a] = true) (hoa : Ok k T a = true)
    (h : dispatch true f o [a] = .ok r) :
    Ok k T r = true ∧ ∀ x cv, den x cv (node o [a]) ⊑ den x cv r := by
  rw [dispatch.eq_2] at h
  split at h
  · rename_i hop; subst hop
    cases pure_ok h
    exact atZero_sound hs (by decide) (by decide) (by decide) hoa Ok_ZERO
      (fun x cv => by rw [unDen_sin, den_ZERO, Real.sin_zero])
  · split at h
    · rename_i hop; subst hop
      cases pure_ok h
      exact atZero_sound hs (by decide) (by decide) (by decide) hoa Ok_ONE
        (fun x cv => by rw [unDen_cos, den_ONE, Real.cos_zero])
    · split at h
      · rename_i hop; subst hop
        exact simplifyLogarithm_sound hs hoa h
      · split at h
        · rename_i hop; subst hop
          cases pure_ok h
          exact atZero_sound hs (by decide) (by decide) (by decide) hoa Ok_ONE
            (fun x cv => by rw [unDen_exp, den_ONE, Real.exp_zero])
        · split at h
          · rename_i hop; subst hop
            cases pure_ok h
            exact ⟨Ok_un_node hs (by decide) (by decide) (by decide) hoa,
              fun x cv => Refines.rfl'⟩
          · split at h
            · rename_i hop; subst hop
              cases pure_ok h
              exact ⟨Ok_un_node hs (by decide) (by decide) (by decide) hoa,
                fun x cv => Refines.rfl'⟩
            · split at h
              · rename_i hop; subst hop
                cases pure_ok h
                exact atZero_sound hs (by decide) (by decide) (by decide) hoa Ok_ZERO
                  (fun x cv => by rw [unDen_sinh, den_ZERO, Real.sinh_zero])
              · split at h
                · rename_i hop; subst hop
                  cases pure_ok h
                  exact atZero_sound hs (by decide) (by decide) (by decide) hoa Ok_ONE
                    (fun x cv => by rw [unDen_cosh, den_ONE, Real.cosh_zero])
                · exact (throw_ok h).elim

theorem dispatch_sound {f : Nat} {o : Int} {args : List Expr} {r : Expr}
    (hs : shapeOK k o args = true) (ha : ∀ a ∈ args, Ok k T a = true)
    (h : dispatch true f o args = .ok r) :
    Ok k T r = true ∧ ∀ x cv, den x cv (node o args) ⊑ den x cv r := by
  match args, hs, ha, h with
  | [a, b], hs, ha, h => exact dispatch2_sound hs (ha a (by simp)) (ha b (by simp)) h
  | [a], hs, ha, h => exact dispatch1_sound hs (ha a (by simp)) h
  | [], _, _, h =>
    rw [dispatch.eq_3 _ _ _ _ (by intro a b h; cases h) (by intro a h; cases h)] at h
    exact (throw_ok h).elim
  | _ :: _ :: _ :: _, _, _, h =>
    rw [dispatch.eq_3 _ _ _ _ (by intro a b h; cases h) (by intro a h; cases h)] at h
    exact (throw_ok h).elim

/-! ## `automatic_simplify` -/

/-- what one operand and its simplified version have in common -/
def ArgRel (k : Bool) (T : Int → Int → Bool) (a a' : Expr) : Prop :=
  Ok k T a' = true ∧ (∀ x cv, den x cv a ⊑ den x cv a') ∧
    (∀ o v np, a = term o v np → a' = term o v np)

theorem shapeOK_of_argRel {o : Int} : ∀ {args args' : List Expr},
    List.Forall₂ (ArgRel k T) args args' → shapeOK k o args = true → shapeOK k o args' = true := by
  intro args args' hf hs
  have hlen : args.length = args'.length := hf.length_eq
  unfold shapeOK at hs ⊢
  rw [← hlen]
  simp only [Bool.and_eq_true] at hs ⊢
  refine ⟨⟨hs.1.1, ?_⟩, hs.2⟩
  have h2 := hs.1.2
  split at h2
  · rename_i hop
    rw [if_pos hop]
    split at h2
    · rename_i b o' v np
      cases hf with
      | cons hb t =>
        cases t with
        | cons he t =>
          cases t
          rw [he.2.2 o' v np rfl]
          exact h2
    · cases h2
  · rename_i hop; rw [if_neg hop]

theorem expLit_of_argRel {b b' : Expr} {n : Int} {np : Bool} :
    expLit [b, term INTEGER n np] = expLit [b', term INTEGER n np] := rfl

theorem automaticSimplify_sound_aux (f : Nat) (e : Expr) :
    ∀ e', Ok k T e = true → automaticSimplify true f e = .ok e' → ArgRel k T e e' := by
  induction e using Expr.rec (motive_2 := fun l => ∀ l', (∀ a ∈ l, Ok k T a = true) →
      automaticSimplifyList true f l = .ok l' → List.Forall₂ (ArgRel k T) l l') with
  | term o v np =>
    intro e' hok h
    rw [automaticSimplify.eq_1] at h
    cases pure_ok h
    exact ⟨hok, fun x cv => Refines.rfl', fun _ _ _ h => h⟩
  | node o args ih =>
    intro e' hok h
    rw [automaticSimplify.eq_2] at h
    obtain ⟨args', hargs, h⟩ := bind_ok h
    rw [Ok_node] at hok
    have hf := ih args' hok.2 hargs
    have hs' := shapeOK_of_argRel hf hok.1
    have hall : ∀ a ∈ args', Ok k T a = true := by
      intro a' ha'
      obtain ⟨a, _, har⟩ := forall₂_mem_right hf a' ha'
      exact har.1
    obtain ⟨hokr, hd⟩ := dispatch_sound hs' hall h
    refine ⟨hokr, fun x cv => ?_, fun _ _ _ h => by cases h⟩
    refine Refines.trans ?_ (hd x cv)
    rw [den_node, den_node]
    have hvs : List.Forall₂ Refines (args.map (den x cv)) (args'.map (den x cv)) := by
      rw [List.forall₂_map_left_iff, List.forall₂_map_right_iff]
      exact hf.imp (fun _ _ h => h.2.1 x cv)
    have hlit : nodeDen o (expLit args) (args'.map (den x cv)) =
        nodeDen o (expLit args') (args'.map (den x cv)) := by
      by_cases hop : o = POWER
      · subst hop
        obtain ⟨b, n, np, rfl⟩ := shapeOK_pow_inv hok.1
        cases hf with
        | cons hb t =>
          cases t with
          | cons he t =>
            cases t
            rw [he.2.2 _ _ _ rfl]
            rfl
      · exact nodeDen_lit_irrel hop _ _ _
    rw [← hlit]
    exact nodeDen_mono hvs
  | nil =>
    rename_i l' _ h
    rw [automaticSimplifyList.eq_1] at h
    cases pure_ok h
    exact List.Forall₂.nil
  | cons a as iha ihas =>
    rename_i l' hok h
    rw [automaticSimplifyList.eq_2] at h
    obtain ⟨a', ha', h⟩ := bind_ok h
    obtain ⟨as', has', h⟩ := bind_ok h
    cases pure_ok h
    exact List.Forall₂.cons (iha a' (hok a List.mem_cons_self) ha')
      (ihas as' (fun e he => hok e (List.mem_cons_of_mem _ he)) has')

/-- **Soundness of `automatic_simplify`** (strict integer arithmetic) on the integer-power fragment:
the result stays in the fragment (same shape flag, same admissible terminals) and refines the input. -/
theorem automaticSimplify_sound {f : Nat} {e e' : Expr} (hok : Ok k T e = true)
    (h : automaticSimplify true f e = .ok e') :
    Ok k T e' = true ∧ ∀ x cv, den x cv e ⊑ den x cv e' :=
  let r := automaticSimplify_sound_aux f e e' hok h
  ⟨r.1, r.2.1⟩

end top

end Auto
end Cas
end Bingo
