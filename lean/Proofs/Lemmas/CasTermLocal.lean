import Proofs.Lemmas.CasTermClosure
/-!
# Stage 2a: local progress

A call with fuel `f+1` does not run out of fuel provided the calls it makes (with fuel `f`, on the actual
arguments, which may be results of earlier calls) do not.
-/
namespace Bingo
namespace Cas
namespace Term
open Gen.OpDefs Expr Auto

variable {T : Int → Bool}

/-- not the fuel error -/
abbrev NFu {α : Type} (x : R α) : Prop := x ≠ .error "fuel"

theorem nfu_bind {α β : Type} {a : R α} {k : α → R β} (ha : NFu a) (hk : ∀ x, a = .ok x → NFu (k x)) :
    NFu (a >>= k) := by
  cases a with
  | error s =>
    intro h
    have h' : (Except.error s : R β) = .error "fuel" := h
    cases h'
    exact ha rfl
  | ok x => exact hk x rfl

theorem nfu_mapM {α β : Type} {g : α → R β} : ∀ {l : List α}, (∀ p ∈ l, NFu (g p)) → NFu (l.mapM g)
  | [], _ => by rw [List.mapM_nil]; exact pure_ne
  | a :: l, h => by
    rw [List.mapM_cons]
    refine nfu_bind (h a List.mem_cons_self) (fun x _ => ?_)
    refine nfu_bind (nfu_mapM (fun p hp => h p (List.mem_cons_of_mem _ hp))) (fun xs _ => pure_ne)

section loc
variable {st : Bool} {f : Nat}

theorem loc_pow {b e : Expr} (h : e.isIntOrConst = true → NFu (simplifyConstantPower st f b e)) :
    NFu (simplifyPower st (f+1) b e) := by
  rw [simplifyPower.eq_2]
  split
  · exact pure_ne
  · split
    · exact pure_ne
    · split
      · rename_i hc; exact h hc
      · exact pure_ne

theorem nfu_arith {st : Bool} {g : Int → Int → Int} {a b : PInt} : NFu (arith st g a b) := by
  unfold arith
  repeat' (first | exact pure_ne | exact throw_ne (by decide) | split | dsimp only)

theorem nfu_intPow {st : Bool} {a b : PInt} : NFu (intPow st a b) := by
  unfold intPow
  repeat' (first | exact pure_ne | exact throw_ne (by decide) | split | dsimp only)

theorem loc_cpow {b e : Expr}
    (hB1 : ∀ bb be, b.args = [bb, be] → (b.op == POWER && e.op == INTEGER) = true →
      NFu (simplifyProduct st f [be, e]) ∧
      ∀ ne, simplifyProduct st f [be, e] = .ok ne → be.isIntOrConst = true →
        NFu (simplifyConstantPower st f bb ne))
    (hB2 : (b.op == MULTIPLICATION) = true →
      (∀ p ∈ b.args, NFu (simplifyConstantPower st f p e)) ∧
      ∀ parts, b.args.mapM (fun bas => simplifyConstantPower st f bas e) = .ok parts →
        NFu (simplifyProduct st f parts)) :
    NFu (simplifyConstantPower st (f+1) b e) := by
  rw [simplifyConstantPower.eq_2]
  split
  · exact pure_ne
  · split
    · exact pure_ne
    · split
      · split
        · exact nfu_bind nfu_intPow (fun _ _ => pure_ne)
        · exact pure_ne
      · split
        · rename_i hop
          split
          · rename_i bb be hargs
            obtain ⟨h1, h2⟩ := hB1 bb be hargs hop
            refine nfu_bind h1 (fun ne hne => ?_)
            split
            · rename_i hbe; exact h2 ne hne hbe
            · exact pure_ne
          · exact throw_ne (by decide)
        · split
          · rename_i hop
            obtain ⟨h1, h2⟩ := hB2 hop
            exact nfu_bind (nfu_mapM h1) (fun parts hp => h2 parts hp)
          · exact pure_ne

theorem loc_prod {l : List Expr} (h : (∀ a, l ≠ [a]) → NFu (simplifyProductRec st f l)) :
    NFu (simplifyProduct st (f+1) l) := by
  by_cases hsingle : ∃ a, l = [a]
  · obtain ⟨a, rfl⟩ := hsingle
    rw [simplifyProduct.eq_2]
    split <;> exact pure_ne
  · rw [simplifyProduct.eq_3 _ _ _ (fun a ha => hsingle ⟨a, ha⟩)]
    split
    · exact pure_ne
    · refine nfu_bind (h (fun a ha => hsingle ⟨a, ha⟩)) (fun rs _ => ?_)
      split <;> exact pure_ne

theorem loc_sum {l : List Expr} (h : (∀ a, l ≠ [a]) → NFu (simplifySumRec st f l)) :
    NFu (simplifySum st (f+1) l) := by
  by_cases hsingle : ∃ a, l = [a]
  · obtain ⟨a, rfl⟩ := hsingle
    rw [simplifySum.eq_2]
    exact pure_ne
  · rw [simplifySum.eq_3 _ _ _ (fun a ha => hsingle ⟨a, ha⟩)]
    refine nfu_bind (h (fun a ha => hsingle ⟨a, ha⟩)) (fun rs _ => ?_)
    split <;> exact pure_ne

theorem loc_prodRec_pair {a b : Expr}
    (hbase : (a.op != MULTIPLICATION && b.op != MULTIPLICATION) = true →
      ∀ β e1 e2, a.base = some β → a.exponent = some e1 → b.exponent = some e2 →
        optBeq a.base b.base = true →
        NFu (simplifySum st f [e1, e2]) ∧
        ∀ ne, simplifySum st f [e1, e2] = .ok ne → NFu (simplifyPower st f β ne))
    (hlt : NFu (ltF f b a))
    (hmerge : ¬ (a.op != MULTIPLICATION && b.op != MULTIPLICATION) = true →
      NFu (mergeProducts st f (mergeOperands MULTIPLICATION a) (mergeOperands MULTIPLICATION b))) :
    NFu (simplifyProductRec st (f+1) [a, b]) := by
  rw [simplifyProductRec.eq_3]
  split
  · exact nfu_bind nfu_arith (fun _ _ => pure_ne)
  · split
    · rename_i hnm
      split
      · exact pure_ne
      · split
        · exact pure_ne
        · split
          · rename_i hb
            split
            · rename_i β e1 e2 hβ he1 he2
              obtain ⟨h1, h2⟩ := hbase hnm β e1 e2 hβ he1 he2 hb
              refine nfu_bind h1 (fun ne hne => ?_)
              exact nfu_bind (h2 ne hne) (fun _ _ => pure_ne)
            · exact throw_ne (by decide)
          · refine nfu_bind hlt (fun _ _ => ?_)
            split <;> exact pure_ne
    · rename_i hnm
      exact hmerge hnm

theorem loc_prodRec_cons {op : Expr} {rest : List Expr} (hne : ∀ op2, rest ≠ [op2])
    (h1 : NFu (simplifyProductRec st f rest))
    (h2 : ∀ rs, simplifyProductRec st f rest = .ok rs →
      NFu (mergeProducts st f (mergeOperands MULTIPLICATION op) rs)) :
    NFu (simplifyProductRec st (f+1) (op :: rest)) := by
  rw [simplifyProductRec.eq_4 _ _ _ _ (fun op2 h => hne op2 h)]
  exact nfu_bind h1 h2

theorem loc_mergeP_nil_left {l₂ : List Expr} : NFu (mergeProducts st (f+1) [] l₂) := by
  rw [mergeProducts.eq_2]; exact pure_ne

theorem loc_mergeP_nil_right {l₁ : List Expr} : NFu (mergeProducts st (f+1) l₁ []) := by
  cases l₁ with
  | nil => exact loc_mergeP_nil_left
  | cons a as => rw [mergeProducts.eq_3 _ _ _ (by intro h; cases h)]; exact pure_ne

theorem loc_mergeP {a b : Expr} {as bs : List Expr}
    (hA : (a.op == MULTIPLICATION) = true → NFu (mergeProducts st f (a.args ++ as) (b :: bs)))
    (hB : ¬ (a.op == MULTIPLICATION) = true → (b.op == MULTIPLICATION) = true →
      NFu (mergeProducts st f (a :: as) (b.args ++ bs)))
    (hC : ¬ (a.op == MULTIPLICATION) = true → ¬ (b.op == MULTIPLICATION) = true →
      NFu (simplifyProductRec st f [a, b]) ∧
      (∀ firsts, simplifyProductRec st f [a, b] = .ok firsts →
        NFu (mergeProducts st f as bs) ∧ NFu (mergeProducts st f as (b :: bs)) ∧
        NFu (mergeProducts st f (a :: as) bs))) :
    NFu (mergeProducts st (f+1) (a :: as) (b :: bs)) := by
  rw [mergeProducts.eq_4]
  split
  · rename_i h; exact hA h
  · rename_i ha
    split
    · rename_i h; exact hB ha h
    · rename_i hb
      obtain ⟨h1, h2⟩ := hC ha hb
      refine nfu_bind h1 (fun firsts hf => ?_)
      obtain ⟨m1, m2, m3⟩ := h2 firsts hf
      split
      · exact m1
      · exact nfu_bind m1 (fun _ _ => pure_ne)
      · split
        · exact nfu_bind m2 (fun _ _ => pure_ne)
        · exact nfu_bind m3 (fun _ _ => pure_ne)

theorem loc_sumRec_pair {a b : Expr}
    (hterm : (a.op != ADDITION && b.op != ADDITION) = true →
      ∀ t c1 c2, a.termOf = some t → a.coefficient = some c1 → b.coefficient = some c2 →
        optBeq a.termOf b.termOf = true →
        NFu (simplifySum st f [c1, c2]) ∧
        ∀ nc, simplifySum st f [c1, c2] = .ok nc → NFu (simplifyProduct st f [nc, t]))
    (hlt : NFu (ltF f b a))
    (hmerge : ¬ (a.op != ADDITION && b.op != ADDITION) = true →
      NFu (mergeSums st f (mergeOperands ADDITION a) (mergeOperands ADDITION b))) :
    NFu (simplifySumRec st (f+1) [a, b]) := by
  rw [simplifySumRec.eq_3]
  split
  · exact nfu_bind nfu_arith (fun _ _ => pure_ne)
  · split
    · rename_i hnm
      split
      · exact pure_ne
      · split
        · exact pure_ne
        · split
          · rename_i hb
            split
            · rename_i t c1 c2 ht hc1 hc2
              obtain ⟨h1, h2⟩ := hterm hnm t c1 c2 ht hc1 hc2 hb
              refine nfu_bind h1 (fun nc hnc => ?_)
              exact nfu_bind (h2 nc hnc) (fun _ _ => pure_ne)
            · exact throw_ne (by decide)
          · refine nfu_bind hlt (fun _ _ => ?_)
            split <;> exact pure_ne
    · rename_i hnm
      exact hmerge hnm

theorem loc_sumRec_cons {op : Expr} {rest : List Expr} (hne : ∀ op2, rest ≠ [op2])
    (h1 : NFu (simplifySumRec st f rest))
    (h2 : ∀ rs, simplifySumRec st f rest = .ok rs →
      NFu (mergeSums st f (mergeOperands ADDITION op) rs)) :
    NFu (simplifySumRec st (f+1) (op :: rest)) := by
  rw [simplifySumRec.eq_4 _ _ _ _ (fun op2 h => hne op2 h)]
  exact nfu_bind h1 h2

theorem loc_mergeS_nil_left {l₂ : List Expr} : NFu (mergeSums st (f+1) [] l₂) := by
  rw [mergeSums.eq_2]; exact pure_ne

theorem loc_mergeS_nil_right {l₁ : List Expr} : NFu (mergeSums st (f+1) l₁ []) := by
  cases l₁ with
  | nil => exact loc_mergeS_nil_left
  | cons a as => rw [mergeSums.eq_3 _ _ _ (by intro h; cases h)]; exact pure_ne

theorem loc_mergeS {a b : Expr} {as bs : List Expr}
    (hA : (a.op == ADDITION) = true → NFu (mergeSums st f (a.args ++ as) (b :: bs)))
    (hB : ¬ (a.op == ADDITION) = true → (b.op == ADDITION) = true →
      NFu (mergeSums st f (a :: as) (b.args ++ bs)))
    (hC : ¬ (a.op == ADDITION) = true → ¬ (b.op == ADDITION) = true →
      NFu (simplifySumRec st f [a, b]) ∧
      (∀ firsts, simplifySumRec st f [a, b] = .ok firsts →
        NFu (mergeSums st f as bs) ∧ NFu (mergeSums st f as (b :: bs)) ∧
        NFu (mergeSums st f (a :: as) bs))) :
    NFu (mergeSums st (f+1) (a :: as) (b :: bs)) := by
  rw [mergeSums.eq_4]
  split
  · rename_i h; exact hA h
  · rename_i ha
    split
    · rename_i h; exact hB ha h
    · rename_i hb
      obtain ⟨h1, h2⟩ := hC ha hb
      refine nfu_bind h1 (fun firsts hf => ?_)
      obtain ⟨m1, m2, m3⟩ := h2 firsts hf
      split
      · exact m1
      · exact nfu_bind m1 (fun _ _ => pure_ne)
      · split
        · exact nfu_bind m2 (fun _ _ => pure_ne)
        · exact nfu_bind m3 (fun _ _ => pure_ne)

end loc

end Term
end Cas
end Bingo
