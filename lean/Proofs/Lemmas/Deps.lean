import Model.RExpr
import Model.EvalPy
/-!
# What a rule reads from its context (core only, no Mathlib)

`RExpr.reads d e` says `e` mentions the context slot `d`.  `interp_congr`: contexts that agree on
every slot an expression reads give the same `interp`.
-/
namespace Bingo

/-- the slots of a `RuleCtx` -/
inductive Dep where
  | intParam | loadX | loadC
  | fwd (r : Ref)
  | rev
  deriving Repr, DecidableEq, Inhabited

namespace RExpr

/-- does the expression read slot `d`? -/
def reads (d : Dep) : RExpr → Bool
  | intParam => d = .intParam
  | loadX => d = .loadX
  | loadC => d = .loadC
  | fwd r => d = .fwd r
  | rev => d = .rev
  | lit _ _ => false
  | add a b | sub a b | mul a b | div a b | pow a b => a.reads d || b.reads d
  | un _ a => a.reads d
  | unsupported _ => false

end RExpr

namespace RuleCtx
variable {α : Type}
/-- value of a slot -/
def get (cx : RuleCtx α) : Dep → Option α
  | .intParam => some cx.intParam
  | .loadX => cx.loadX
  | .loadC => cx.loadC
  | .fwd r => cx.fwd r
  | .rev => cx.rev
end RuleCtx

namespace RuleCtxK
variable {α : Type}
def get (cx : RuleCtxK α) : Dep → Except PyErr (KVal α)
  | .intParam => .ok (.py, cx.intParam)
  | .loadX => cx.loadX
  | .loadC => cx.loadC
  | .fwd r => cx.fwd r
  | .rev => cx.rev
end RuleCtxK

namespace RExpr
variable {α : Type} [Scalar α]

/-- two contexts that agree on everything the expression reads give the same value -/
theorem interp_congr (e : RExpr) (cx cx' : RuleCtx α)
    (h : ∀ d, e.reads d = true → cx.get d = cx'.get d) : e.interp cx = e.interp cx' := by
  induction e with
  | intParam => have := h .intParam (by simp [reads]); simp only [RuleCtx.get] at this; simp [interp, Option.some.inj this]
  | loadX => exact h .loadX (by simp [reads])
  | loadC => exact h .loadC (by simp [reads])
  | fwd r => exact h (.fwd r) (by simp [reads])
  | rev => exact h .rev (by simp [reads])
  | lit n d => rfl
  | add a b iha ihb | sub a b iha ihb | mul a b iha ihb | div a b iha ihb | pow a b iha ihb =>
    simp only [interp]
    rw [iha (fun d hd => h d (by simp [reads, hd])), ihb (fun d hd => h d (by simp [reads, hd]))]
  | un f a iha =>
    simp only [interp]
    rw [iha (fun d hd => h d (by simpa [reads] using hd))]
  | unsupported w => rfl

/-- a supported expression whose every read slot is available evaluates -/
theorem interp_isSome (e : RExpr) (cx : RuleCtx α) (hs : e.supported = true)
    (h : ∀ d, e.reads d = true → (cx.get d).isSome = true) : (e.interp cx).isSome = true := by
  induction e with
  | intParam => simp [interp]
  | loadX => exact h .loadX (by simp [reads])
  | loadC => exact h .loadC (by simp [reads])
  | fwd r => exact h (.fwd r) (by simp [reads])
  | rev => exact h .rev (by simp [reads])
  | lit n d => simp [interp]
  | add a b iha ihb | sub a b iha ihb | mul a b iha ihb | div a b iha ihb | pow a b iha ihb =>
    simp only [supported, Bool.and_eq_true] at hs
    have ha := iha hs.1 (fun d hd => h d (by simp [reads, hd]))
    have hb := ihb hs.2 (fun d hd => h d (by simp [reads, hd]))
    obtain ⟨va, hva⟩ := Option.isSome_iff_exists.mp ha
    obtain ⟨vb, hvb⟩ := Option.isSome_iff_exists.mp hb
    simp [interp, hva, hvb]
  | un f a iha =>
    simp only [supported] at hs
    have ha := iha hs (fun d hd => h d (by simpa [reads] using hd))
    obtain ⟨va, hva⟩ := Option.isSome_iff_exists.mp ha
    simp [interp, hva]
  | unsupported w => simp [supported] at hs

/-- object level: a supported expression whose every read slot does not raise `other`
does not raise `other` (it may raise `zerodiv`) -/
theorem interpK_ne_other (isZero : α → Bool) (e : RExpr) (cx : RuleCtxK α) (hs : e.supported = true)
    (h : ∀ d, e.reads d = true → cx.get d ≠ .error .other) :
    e.interpK isZero cx ≠ .error .other := by
  induction e with
  | intParam => simp [interpK, pure, Except.pure]
  | loadX => exact h .loadX (by simp [reads])
  | loadC => exact h .loadC (by simp [reads])
  | fwd r => exact h (.fwd r) (by simp [reads])
  | rev => exact h .rev (by simp [reads])
  | lit n d => simp [interpK, pure, Except.pure]
  | add a b iha ihb | sub a b iha ihb | mul a b iha ihb | div a b iha ihb | pow a b iha ihb =>
    simp only [supported, Bool.and_eq_true] at hs
    have ha := iha hs.1 (fun d hd => h d (by simp [reads, hd]))
    have hb := ihb hs.2 (fun d hd => h d (by simp [reads, hd]))
    simp only [interpK, bind, Except.bind, pure, Except.pure]
    cases hva : a.interpK isZero cx with
    | error e => cases e <;> simp_all
    | ok va =>
      cases hvb : b.interpK isZero cx with
      | error e => cases e <;> simp_all
      | ok vb =>
        first
          | (simp; done)
          | (simp only []; split <;> simp [throw, throwThe, MonadExceptOf.throw])
  | un f a iha =>
    simp only [supported] at hs
    have ha := iha hs (fun d hd => h d (by simpa [reads] using hd))
    simp only [interpK, bind, Except.bind, pure, Except.pure]
    cases hva : a.interpK isZero cx with
    | error e => cases e <;> simp_all
    | ok va => simp
  | unsupported w => simp [supported] at hs

/-- erasure: if the object-level interpretation succeeds then the value-level interpretation in
any context that erases the object-level one succeeds with the erased value -/
theorem interpK_ok_erase (isZero : α → Bool) (e : RExpr) (cxK : RuleCtxK α) (cx : RuleCtx α)
    (h : ∀ d v, cxK.get d = .ok v → cx.get d = some v.2) :
    ∀ v, e.interpK isZero cxK = .ok v → e.interp cx = some v.2 := by
  induction e with
  | intParam =>
    intro v hv
    have := h .intParam (.py, cxK.intParam) rfl
    simp only [RuleCtx.get] at this
    simp only [interpK, pure, Except.pure, Except.ok.injEq] at hv
    subst hv; simpa [interp] using this
  | loadX => intro v hv; exact h .loadX v hv
  | loadC => intro v hv; exact h .loadC v hv
  | fwd r => intro v hv; exact h (.fwd r) v hv
  | rev => intro v hv; exact h .rev v hv
  | lit n d =>
    intro v hv
    simp only [interpK, pure, Except.pure, Except.ok.injEq] at hv
    subst hv; rfl
  | add a b iha ihb | sub a b iha ihb | mul a b iha ihb | div a b iha ihb | pow a b iha ihb =>
    intro v hv
    simp only [interpK, bind, Except.bind, pure, Except.pure] at hv
    cases hva : a.interpK isZero cxK with
    | error e => simp [hva] at hv
    | ok va =>
      cases hvb : b.interpK isZero cxK with
      | error e => simp [hva, hvb] at hv
      | ok vb =>
        simp only [hva, hvb] at hv
        have ha := iha va hva
        have hb := ihb vb hvb
        first
          | (simp only [Except.ok.injEq] at hv; subst hv; simp [interp, ha, hb])
          | (split at hv
             · simp [throw, throwThe, MonadExceptOf.throw] at hv
             · simp only [Except.ok.injEq] at hv; subst hv; simp [interp, ha, hb])
  | un f a iha =>
    intro v hv
    simp only [interpK, bind, Except.bind, pure, Except.pure] at hv
    cases hva : a.interpK isZero cxK with
    | error e => simp [hva] at hv
    | ok va =>
      simp only [hva, Except.ok.injEq] at hv
      subst hv
      simp [interp, iha va hva]
  | unsupported w =>
    intro v hv
    simp [interpK, throw, throwThe, MonadExceptOf.throw] at hv

end RExpr
end Bingo
