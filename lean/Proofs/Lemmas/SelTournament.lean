import Model.Selection
import Proofs.Lemmas.ListAux
/-!
# Lemmas about `Sel.tournamentWinner` / `Sel.tournament` (core Lean only)

`pyMinBy` keeps the first element unless a later one compares strictly smaller.  With NaN keys
(`none`) every comparison is false, so:
* a NaN in first position is never displaced (the winner is that NaN individual);
* a NaN in a later position never displaces anything.
-/
namespace Bingo
namespace Sel
open BestScan

variable {ι : Type}

/-- the step function of `pyMinBy` -/
abbrev minStep (best indv : Key × ι) : Key × ι := if Key.lt indv.1 best.1 then indv else best

theorem foldl_minStep_mem (l : List (Key × ι)) (b : Key × ι) :
    l.foldl minStep b ∈ b :: l := by
  induction l generalizing b with
  | nil => simp
  | cons x l ih =>
    simp only [List.foldl_cons]
    have := ih (minStep b x)
    rcases List.mem_cons.1 this with h | h
    · rw [h]; unfold minStep; split <;> simp
    · simp [h]

/-- a NaN seed is never displaced -/
theorem foldl_minStep_nan (l : List (Key × ι)) (b : Key × ι) (hb : b.1 = none) :
    l.foldl minStep b = b := by
  induction l with
  | nil => rfl
  | cons x l ih =>
    simp only [List.foldl_cons]
    have : minStep b x = b := by
      unfold minStep; rw [hb]; cases x.1 <;> simp [Key.lt]
    rw [this, ih]

/-- a non-NaN seed: the result is non-NaN, `≤` the seed and `≤` every non-NaN entry -/
theorem foldl_minStep_some (l : List (Key × ι)) (b : Key × ι) (v : Int) (hb : b.1 = some v) :
    ∃ w, (l.foldl minStep b).1 = some w ∧ w ≤ v ∧ ∀ p ∈ l, ∀ u, p.1 = some u → w ≤ u := by
  induction l generalizing b v with
  | nil => exact ⟨v, hb, Int.le_refl _, by simp⟩
  | cons x l ih =>
    simp only [List.foldl_cons]
    cases hx : x.1 with
    | none =>
      have hs : minStep b x = b := by unfold minStep; rw [hx]; simp [Key.lt]
      rw [hs]
      obtain ⟨w, hw, hle, hall⟩ := ih b v hb
      refine ⟨w, hw, hle, ?_⟩
      intro p hp u hu
      rcases List.mem_cons.1 hp with h | h
      · subst h; rw [hx] at hu; cases hu
      · exact hall p h u hu
    | some u =>
      by_cases huv : u < v
      · have hs : minStep b x = x := by unfold minStep; rw [hx, hb]; simp [Key.lt, huv]
        rw [hs]
        obtain ⟨w, hw, hle, hall⟩ := ih x u hx
        refine ⟨w, hw, by omega, ?_⟩
        intro p hp u' hu'
        rcases List.mem_cons.1 hp with h | h
        · subst h; rw [hx] at hu'; cases hu'; exact hle
        · exact hall p h u' hu'
      · have hs : minStep b x = b := by unfold minStep; rw [hx, hb]; simp [Key.lt, huv]
        rw [hs]
        obtain ⟨w, hw, hle, hall⟩ := ih b v hb
        refine ⟨w, hw, hle, ?_⟩
        intro p hp u' hu'
        rcases List.mem_cons.1 hp with h | h
        · subst h; rw [hx] at hu'; cases hu'; omega
        · exact hall p h u' hu'

/-- specification of Python's `min(key=)` with NaN keys -/
structure PyMinSpec (r : Key × ι) (l : List (Key × ι)) : Prop where
  mem : r ∈ l
  /-- nobody is strictly smaller than the winner -/
  not_lt : ∀ p ∈ l, Key.lt p.1 r.1 = false
  /-- a NaN first entry wins -/
  nan_head : ∀ b, l.head? = some b → b.1 = none → r = b
  /-- a non-NaN first entry: the winner is non-NaN and `≤` every non-NaN entry -/
  le_of_head : ∀ b, l.head? = some b → b.1.isNan = false →
    r.1.isNan = false ∧ ∀ p ∈ l, p.1.isNan = false → Key.le r.1 p.1 = true

theorem pyMinBy_spec {l : List (Key × ι)} {r : Key × ι} (h : pyMinBy l = some r) :
    PyMinSpec r l := by
  cases l with
  | nil => simp [pyMinBy] at h
  | cons b rest =>
    simp only [pyMinBy, Option.some.injEq] at h
    have hmem : r ∈ b :: rest := h ▸ foldl_minStep_mem rest b
    cases hb : b.1 with
    | none =>
      have hr : r = b := by rw [← h]; exact foldl_minStep_nan rest b hb
      refine ⟨hmem, ?_, ?_, ?_⟩
      · intro p _; rw [hr, hb]; cases p.1 <;> rfl
      · intro b' hb' _; simp at hb'; rw [hr, hb']
      · intro b' hb' hn; simp at hb'; subst hb'; simp [Key.isNan, hb] at hn
    | some v =>
      obtain ⟨w, hw, hle, hall⟩ := foldl_minStep_some rest b v hb
      change (List.foldl (fun best indv => if Key.lt indv.1 best.1 then indv else best) b rest).1
        = some w at hw
      rw [h] at hw
      have hall' : ∀ p ∈ b :: rest, ∀ u, p.1 = some u → w ≤ u := by
        intro p hp u hu
        rcases List.mem_cons.1 hp with h' | h'
        · subst h'; rw [hb] at hu; cases hu; exact hle
        · exact hall p h' u hu
      refine ⟨hmem, ?_, ?_, ?_⟩
      · intro p hp
        cases hp1 : p.1 with
        | none => rfl
        | some u =>
          have := hall' p hp u hp1
          simp only [hw, Key.lt, decide_eq_false_iff_not]; omega
      · intro b' hb' hn; simp at hb'; subst hb'; rw [hb] at hn; cases hn
      · intro _ _ _
        refine ⟨by simp [Key.isNan, hw], ?_⟩
        intro p hp hn
        cases hp1 : p.1 with
        | none => simp [Key.isNan, hp1] at hn
        | some u =>
          have := hall' p hp u hp1
          simp only [hw, Key.le, decide_eq_true_eq]; exact this

/-! ## `tournamentWinner` -/

/-- what one tournament returns -/
theorem tournamentWinner_spec {pop : List Indv} {sample : List Nat} {w : Indv}
    (h : tournamentWinner pop sample = some w) :
    (∃ i ∈ sample, pop[i]? = some w) ∧
    (∀ i ∈ sample, ∀ m, pop[i]? = some m → Key.lt m.key w.key = false) ∧
    ((∀ i ∈ sample, ∀ m, pop[i]? = some m → m.key.isNan = false) →
      w.key.isNan = false ∧ ∀ i ∈ sample, ∀ m, pop[i]? = some m → Key.le w.key m.key = true) ∧
    (∀ i₀ m₀, sample.head? = some i₀ → pop[i₀]? = some m₀ → m₀.key.isNan = true → w = m₀) := by
  unfold tournamentWinner at h
  cases hm : sample.mapM (pop[·]?) with
  | none => simp [hm] at h
  | some members =>
    simp only [hm, Option.map_eq_some_iff] at h
    obtain ⟨r, hr, hrw⟩ := h
    have hmap : sample.map (pop[·]?) = members.map some := ListAux.mapM_eq_some_iff.mp hm
    have spec := pyMinBy_spec hr
    -- membership transfer
    have mem_of : ∀ i ∈ sample, ∀ m, pop[i]? = some m → m ∈ members := by
      intro i hi m hpm
      have : some m ∈ sample.map (pop[·]?) := List.mem_map.2 ⟨i, hi, hpm⟩
      rw [hmap] at this
      obtain ⟨m', hm', he⟩ := List.mem_map.1 this
      cases he; exact hm'
    have of_mem : ∀ m ∈ members, ∃ i ∈ sample, pop[i]? = some m := by
      intro m hm'
      have : some m ∈ members.map some := List.mem_map.2 ⟨m, hm', rfl⟩
      rw [← hmap] at this
      obtain ⟨i, hi, he⟩ := List.mem_map.1 this
      exact ⟨i, hi, he⟩
    have hrmem : r.2 ∈ members ∧ r.1 = r.2.key := by
      obtain ⟨m, hm', he⟩ := List.mem_map.1 spec.mem
      subst he; exact ⟨hm', rfl⟩
    subst hrw
    refine ⟨of_mem _ hrmem.1, ?_, ?_, ?_⟩
    · intro i hi m hpm
      have := spec.not_lt (m.key, m) (List.mem_map.2 ⟨m, mem_of i hi m hpm, rfl⟩)
      rw [← hrmem.2]; exact this
    · intro hall
      cases members with
      | nil => simp at hrmem
      | cons m₀ ms =>
        have hm₀ : m₀.key.isNan = false := by
          obtain ⟨i, hi, hp⟩ := of_mem m₀ (by simp)
          exact hall i hi m₀ hp
        obtain ⟨h1, h2⟩ := spec.le_of_head (m₀.key, m₀) (by simp) hm₀
        rw [hrmem.2] at h1 h2
        refine ⟨h1, ?_⟩
        intro i hi m hpm
        exact h2 (m.key, m) (List.mem_map.2 ⟨m, mem_of i hi m hpm, rfl⟩) (hall i hi m hpm)
    · intro i₀ m₀ hh hp hn
      cases sample with
      | nil => simp at hh
      | cons s ss =>
        simp at hh; subst hh
        cases members with
        | nil => simp at hmap
        | cons m ms =>
          simp only [List.map_cons, List.cons.injEq] at hmap
          rw [hp] at hmap
          have : m₀ = m := Option.some.inj hmap.1
          subst this
          have := spec.nan_head (m₀.key, m₀) (by simp) (by simpa [Key.isNan] using hn)
          rw [this]

theorem tournament_length {pop : List Indv} {samples : List (List Nat)} {w : List Indv}
    (h : tournament pop samples = some w) : w.length = samples.length := by
  have := ListAux.mapM_eq_some_iff.mp h
  have h2 := congrArg List.length this
  simpa using h2.symm

theorem tournament_get {pop : List Indv} {samples : List (List Nat)} {w : List Indv}
    (h : tournament pop samples = some w) (k : Nat) (h1 : k < w.length) (h2 : k < samples.length) :
    tournamentWinner pop samples[k] = some w[k] := by
  have := ListAux.mapM_eq_some_iff.mp h
  have h3 := congrArg (·[k]?) this
  simpa [List.getElem?_map, List.getElem?_eq_getElem h1, List.getElem?_eq_getElem h2] using h3

/-- a tournament fails only on an empty sample or an out-of-range index -/
theorem tournamentWinner_isSome {pop : List Indv} {sample : List Nat}
    (hne : sample ≠ []) (hr : ∀ i ∈ sample, i < pop.length) :
    (tournamentWinner pop sample).isSome := by
  unfold tournamentWinner
  have : sample.mapM (pop[·]?) = some (sample.pmap (fun i (h : i < pop.length) => pop[i]) hr) := by
    rw [ListAux.mapM_eq_some_iff]
    apply List.ext_getElem <;> simp
  rw [this]
  cases sample with
  | nil => exact absurd rfl hne
  | cons s ss => simp [pyMinBy]

theorem tournament_isSome {pop : List Indv} {samples : List (List Nat)}
    (h : ∀ s ∈ samples, s ≠ [] ∧ ∀ i ∈ s, i < pop.length) :
    (tournament pop samples).isSome := by
  unfold tournament
  induction samples with
  | nil => simp
  | cons s ss ih =>
    rw [List.mapM_cons]
    have h1 := tournamentWinner_isSome (h s (by simp)).1 (h s (by simp)).2
    have h2 := ih (fun s' hs' => h s' (List.mem_cons_of_mem _ hs'))
    obtain ⟨w, hw⟩ := Option.isSome_iff_exists.1 h1
    obtain ⟨ws, hws⟩ := Option.isSome_iff_exists.1 h2
    simp [hw, hws]

end Sel
end Bingo
