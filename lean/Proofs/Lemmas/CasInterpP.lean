import Proofs.Lemmas.CasInterpA
/-!
# An intrinsic partial semantics of the source stack, and `build_cas_expression` is EXACT for it

`pden x c t`: the conventional (partial) meaning of a tree: like `MathSem.den`, but every operator only
on its conventional domain (`unDen`, `binDen`).  `buildCas_den_eq`: on a well-formed stack the meaning
of the CAS expression built from it is exactly `pden` of the stack (constant id `loc` read as the
constant the `CONSTANT` row `loc` loads).  `buildCas_ok_pow`: `buildCas_ok` for stacks whose `POWER`
rows have an `INTEGER` row `≠ 1` as exponent row.
-/
namespace Bingo
namespace CasInterp
open Gen.OpDefs Cas Cas.Expr ETree

/-- the real power with an integer-valued exponent is the integer power, on the same domain -/
theorem binDen_pow_int (a : ℝ) (z : ℤ) : binDen POWER a (z : ℝ) = zpowDen z a := by
  unfold binDen zpowDen
  have hbin : MathSem.bin POWER a (z : ℝ) = some (a ^ z) := by
    simp [MathSem.bin, POWER, ADDITION, SUBTRACTION, MULTIPLICATION, DIVISION, Real.rpow_intCast]
  have hdef : MathSem.binDefined POWER a (z : ℝ) ↔ ¬ (z < 0 ∧ a = 0) := by
    simp only [MathSem.binDefined]
    have h1 : ¬ (POWER = DIVISION) := by decide
    have h2 : ¬ (POWER = SAFE_POWER) := by decide
    simp only [h1, h2, false_imp_iff, true_and, and_true, true_imp_iff]
    constructor
    · rintro (h | ⟨h, h'⟩ | ⟨h, _⟩)
      · rintro ⟨_, h0⟩; rw [h0] at h; exact lt_irrefl _ h
      · rintro ⟨hz, _⟩
        have : (0 : ℝ) ≤ (z : ℝ) := h'
        have : 0 ≤ z := by exact_mod_cast this
        omega
      · rintro ⟨_, h0⟩; rw [h0] at h; exact lt_irrefl _ h
    · intro h
      rcases lt_trichotomy a 0 with ha | ha | ha
      · exact Or.inr (Or.inr ⟨ha, z, rfl⟩)
      · refine Or.inr (Or.inl ⟨ha, ?_⟩)
        have : ¬ z < 0 := fun hz => h ⟨hz, ha⟩
        have : 0 ≤ z := by omega
        exact_mod_cast this
      · exact Or.inl ha
  rw [hbin]
  by_cases h : z < 0 ∧ a = 0
  · rw [if_neg (by rw [hdef]; exact fun h' => h' h), if_pos h]
  · rw [if_pos (hdef.mpr h), if_neg h]

/-! ## an intrinsic partial semantics of the source stack -/

/-- the conventional (partial) meaning of a tree: like `MathSem.den`, but every operator only on its
conventional domain (`unDen`, `binDen`): division by zero, `log 0`, `0 ^ negative`, ... are undefined -/
noncomputable def pden (x c : List ℝ) : ETree → Option ℝ
  | .bad => none
  | .leaf n p => MathSem.leaf x c n p
  | .un n a => (pden x c a).bind (unDen n)
  | .bin n a b => (pden x c a).bind fun va => (pden x c b).bind fun vb => binDen n va vb

/-- where the partial meaning is defined, Mathlib's total functions agree with it -/
theorem pden_sound (x c : List ℝ) : ∀ (t : ETree) (v : ℝ), pden x c t = some v →
    MathSem.den x c t = some v := by
  intro t
  induction t with
  | bad => intro v h; cases h
  | leaf n p => intro v h; exact h
  | un n a ih =>
    intro v h
    obtain ⟨va, ha, hv⟩ := bind_eq_some' h
    simp only [MathSem.den, ih va ha, Option.bind_some]
    exact unDen_sound hv
  | bin n a b iha ihb =>
    intro v h
    obtain ⟨va, ha, h⟩ := bind_eq_some' h
    obtain ⟨vb, hb, hv⟩ := bind_eq_some' h
    simp only [MathSem.den, iha va ha, ihb vb hb, Option.bind_some]
    exact binDen_sound hv

theorem treeAt_leaf {s : Stack} {i : Nat} {cmd : Cmd} (h : s[i]? = some cmd)
    (ht : Ops.isTerminal cmd.node = some true) (ha : Ops.isArity2 cmd.node = some false) :
    treeAt s i = .leaf cmd.node cmd.p1 := by
  unfold treeAt
  rw [trees_get h]
  simp [rowTree, ht, ha]

theorem treeAt_un {s : Stack} {i : Nat} {cmd : Cmd} (h : s[i]? = some cmd)
    (ht : Ops.isTerminal cmd.node = some false) (ha : Ops.isArity2 cmd.node = some false)
    (h0 : 0 ≤ cmd.p1) (h1 : cmd.p1.toNat < i) :
    treeAt s i = .un cmd.node (treeAt s cmd.p1.toNat) := by
  have hi := getElem?_lt h
  unfold treeAt
  rw [trees_get h]
  simp only [rowTree, ht, ha, Option.getD_some]
  rw [getT_take h0 h1 (by omega)]

theorem treeAt_bin {s : Stack} {i : Nat} {cmd : Cmd} (h : s[i]? = some cmd)
    (ht : Ops.isTerminal cmd.node = some false) (ha : Ops.isArity2 cmd.node = some true)
    (h0 : 0 ≤ cmd.p1) (h1 : cmd.p1.toNat < i) (h0' : 0 ≤ cmd.p2) (h1' : cmd.p2.toNat < i) :
    treeAt s i = .bin cmd.node (treeAt s cmd.p1.toNat) (treeAt s cmd.p2.toNat) := by
  have hi := getElem?_lt h
  unfold treeAt
  rw [trees_get h]
  simp only [rowTree, ht, ha, Option.getD_some]
  rw [getT_take h0 h1 (by omega), getT_take h0' h1' (by omega)]

theorem binDen_add (a b : ℝ) : binDen ADDITION a b = some (a + b) := by
  unfold binDen
  rw [if_pos (by simp [MathSem.binDefined, ADDITION, DIVISION, POWER, SAFE_POWER])]
  simp [MathSem.bin]

theorem binDen_mul (a b : ℝ) : binDen MULTIPLICATION a b = some (a * b) := by
  unfold binDen
  rw [if_pos (by simp [MathSem.binDefined, MULTIPLICATION, DIVISION, POWER, SAFE_POWER])]
  simp [MathSem.bin, MULTIPLICATION, ADDITION, SUBTRACTION]

/-- the meaning of ANY two-operand node is `binDen` of the meanings of its operands -/
theorem den_node2_eq (x : List ℝ) (cv : Int → ℝ) (o : Int) (a b : Expr) :
    den x cv (node o [a, b]) =
      (den x cv a).bind fun va => (den x cv b).bind fun vb => binDen o va vb := by
  by_cases hA : o = ADDITION
  · subst hA
    rw [den_add]
    simp only [S_cons, S_nil, oadd_zero]
    cases den x cv a <;> cases den x cv b <;> simp [binDen_add]
  by_cases hM : o = MULTIPLICATION
  · subst hM
    rw [den_mul]
    simp only [P_cons, P_nil, omul_one]
    cases den x cv a <;> cases den x cv b <;> simp [binDen_mul]
  by_cases hP : o = POWER
  · subst hP
    cases hl : b.intVal? with
    | none => exact den_pow_gen x cv a b hl
    | some p =>
      obtain ⟨np, rfl⟩ := intVal?_some hl
      rw [den_pow_lit, den_int]
      cases den x cv a with
      | none => rfl
      | some va => simp only [Option.bind_some]; exact (binDen_pow_int va p.val).symm
  · exact den_bin x cv o a b hA hM hP

/-! ## one unfolding of `_build_expresion_recursive` -/

/-- every `POWER` row has an `INTEGER` row (value `≠ 1`) as its second parameter; no `SAFE_POWER` row -/
def PowLitRows (s : Stack) : Prop :=
  ∀ cmd ∈ s, cmd.node ≠ SAFE_POWER ∧
    (cmd.node = POWER → ∃ c, s[cmd.p2.toNat]? = some c ∧ c.node = INTEGER ∧ c.p1 ≠ 1)

theorem NoPowRows.powLit {s : Stack} (h : NoPowRows s) : PowLitRows s :=
  fun cmd hc => ⟨(h cmd hc).2, fun hp => absurd hp (h cmd hc).1⟩

theorem pyIdx_bind_get {s : Stack} {i : Nat} {cmd : Cmd} (h : s[i]? = some cmd) :
    (pyIdx s.length (i : Int)).bind (s[·]?) = some cmd := by
  have hi := getElem?_lt h
  have := ReduceLemmas.pyIdx_ofNat hi
  rw [show (Int.ofNat i) = (i : Int) from rfl] at this
  rw [this]; exact h

/-- a terminal row: a `CONSTANT` row becomes the terminal whose id is the row location, any other
terminal row `term node p1 _` (whatever the integer kind flag of the model is) -/
theorem buildRec_term {s : Stack} {i : Nat} {cmd : Cmd} (h : s[i]? = some cmd)
    (ht : Ops.isTerminal cmd.node = some true) {b : Bool} (ha : Ops.isArity2 cmd.node = some b)
    (fuel : Nat) (np : Bool) :
    ∃ np', buildExpressionRec s (fuel + 1) (i : Int) np =
      .ok (if cmd.node = CONSTANT then term cmd.node (i : Int) np else term cmd.node cmd.p1 np') := by
  rw [buildExpressionRec]
  simp only [pyIdx_bind_get h, ht, ha]
  by_cases hc : cmd.node = CONSTANT
  · simp only [if_pos hc]; exact ⟨true, rfl⟩
  · simp only [if_neg hc]
    split_ifs <;> exact ⟨_, rfl⟩

/-- an operator row -/
theorem buildRec_op {s : Stack} {i : Nat} {cmd : Cmd} (h : s[i]? = some cmd)
    (ht : Ops.isTerminal cmd.node = some false) {b : Bool} (ha : Ops.isArity2 cmd.node = some b)
    (fuel : Nat) (np : Bool) :
    buildExpressionRec s (fuel + 1) (i : Int) np = (do
      let ea ← buildExpressionRec s fuel cmd.p1 true
      if b then do
        let eb ← buildExpressionRec s fuel cmd.p2 true
        pure (node cmd.node [ea, eb])
      else pure (node cmd.node [ea])) := by
  rw [buildExpressionRec]
  simp only [pyIdx_bind_get h, ht, ha]

/-- the induction: row `i` of a well-formed stack is translated (with enough fuel) into an
expression `e` such that: `e` is in the fragment (if `POWER` rows have literal exponents `≠ 1` and
there is no `SAFE_POWER` row); the meaning of `e` IS the
partial meaning of the row's tree; an `INTEGER` row becomes an `INTEGER` literal -/
theorem buildRec_pden {D L : Nat} {s : Stack} (hwf : WF.WFEval D L s) :
    ∀ (i : Nat), i < s.length → ∀ (fuel : Nat), i + 1 ≤ fuel → ∀ (np : Bool),
      ∃ e, buildExpressionRec s fuel (i : Int) np = .ok e ∧
        (PowLitRows s → Ok true (termsOf D s) e = true) ∧
        (∀ (x c : List ℝ) (cv : Int → ℝ), CvOK s c cv → e.den x cv = pden x c (treeAt s i)) ∧
        (∀ c0, s[i]? = some c0 → c0.node = INTEGER → ∃ np', e = term INTEGER c0.p1 np') := by
  intro i
  induction i using Nat.strong_induction_on with
  | _ i ih =>
    intro hi fuel hf np
    obtain ⟨fuel, rfl⟩ : ∃ f, fuel = f + 1 := ⟨fuel - 1, by omega⟩
    have hget : s[i]? = some s[i] := List.getElem?_eq_getElem hi
    generalize s[i] = cmd at hget
    have hrow := ReduceLemmas.wf_rowOK hwf hget
    have hmem : cmd ∈ s := List.mem_of_getElem? hget
    unfold WF.rowOK at hrow
    split at hrow
    · -- a terminal row
      rename_i ht ha
      obtain ⟨np', hstep⟩ := buildRec_term hget ht ha fuel np
      rw [hstep]
      have htree := treeAt_leaf hget ht ha
      by_cases hv : cmd.node = VARIABLE
      · rw [if_pos hv] at hrow
        simp only [Bool.and_eq_true, decide_eq_true_eq] at hrow
        rw [if_neg (by rw [hv]; decide)]
        have hleaf : ∀ (x c : List ℝ) (cv : Int → ℝ),
            den x cv (term cmd.node cmd.p1 np') = MathSem.leaf x c cmd.node cmd.p1 := by
          intro x c cv
          rw [hv, den_var]; unfold MathSem.leaf
          rw [if_neg (by decide), if_pos rfl]
        refine ⟨_, rfl, fun _ => ?_, ?_, ?_⟩
        · rw [Ok_term]; right
          simp [termsOf, varsBelow, hv, hrow.1, hrow.2]
        · intro x c cv _
          rw [htree]; exact hleaf x c cv
        · intro c0 h0 hI
          rw [hget] at h0; cases h0
          rw [hv] at hI; exact absurd hI (by decide)
      · rw [if_neg hv] at hrow
        by_cases hc : cmd.node = CONSTANT
        · rw [if_pos hc]
          have hleaf : ∀ (x c : List ℝ) (cv : Int → ℝ), CvOK s c cv →
              den x cv (term cmd.node (i : Int) np) = MathSem.leaf x c cmd.node cmd.p1 := by
            intro x c cv hcv
            have := hcv i cmd hget hc
            rw [hc, den_const]; unfold MathSem.leaf
            rw [if_neg (by decide), if_neg (by decide), if_pos rfl, this]
          refine ⟨_, rfl, fun _ => ?_, ?_, ?_⟩
          · rw [Ok_term]; right
            simp [termsOf, constRow, hc, hget]
          · intro x c cv hcv
            rw [htree]; exact hleaf x c cv hcv
          · intro c0 h0 hI
            rw [hget] at h0; cases h0
            rw [hc] at hI; exact absurd hI (by decide)
        · rw [if_neg hc] at hrow ⊢
          have hI : cmd.node = INTEGER := by simpa using hrow
          have hleaf : ∀ (x c : List ℝ) (cv : Int → ℝ),
              den x cv (term cmd.node cmd.p1 np') = MathSem.leaf x c cmd.node cmd.p1 := by
            intro x c cv
            rw [hI, den_int]; unfold MathSem.leaf
            rw [if_pos rfl]
          refine ⟨_, rfl, fun _ => ?_, ?_, ?_⟩
          · rw [Ok_term]; exact .inl hI
          · intro x c cv _
            rw [htree]; exact hleaf x c cv
          · intro c0 h0 _
            rw [hget] at h0; cases h0
            exact ⟨np', by rw [hI]⟩
    · -- an operator row
      rename_i b ht ha
      simp only [Bool.and_eq_true, decide_eq_true_eq, Bool.and_true] at hrow
      obtain ⟨⟨⟨h10, h1i⟩, h20⟩, h2i⟩ := hrow
      have e1 : ((cmd.p1.toNat : Nat) : Int) = cmd.p1 := Int.toNat_of_nonneg h10
      have e2 : ((cmd.p2.toNat : Nat) : Int) = cmd.p2 := Int.toNat_of_nonneg h20
      obtain ⟨ea, hea, hoka, heqa, _⟩ :=
        ih cmd.p1.toNat (by omega) (by omega) fuel (by omega) true
      obtain ⟨eb, heb, hokb, heqb, hlitb⟩ :=
        ih cmd.p2.toNat (by omega) (by omega) fuel (by omega) true
      rw [e1] at hea
      rw [e2] at heb
      have hnotI : ∀ (e : Expr) c0, s[i]? = some c0 → c0.node = INTEGER →
          ∃ np', e = term INTEGER c0.p1 np' := by
        intro e c0 h0 hI
        rw [hget] at h0; cases h0
        rw [hI] at ht; exact absurd ht (by decide)
      rw [buildRec_op hget ht ha, hea]
      cases b with
      | true =>
        refine ⟨node cmd.node [ea, eb], by simp [heb, bind, Except.bind, pure_eq_ok],
          fun hpl => ?_, ?_, hnotI _⟩
        · rw [Ok_node]
          refine ⟨?_, ?_⟩
          · obtain ⟨hns, hpow⟩ := hpl cmd hmem
            by_cases hp : cmd.node = POWER
            · obtain ⟨c, hc, hcI, hc1⟩ := hpow hp
              obtain ⟨np', rfl⟩ := hlitb c hc hcI
              rw [hp]
              simp [shapeOK, hc1, POWER, SAFE_POWER, INTEGER, Ops.isTerminal, isTerminalTbl,
                List.lookup, ADDITION, MULTIPLICATION]
            · simp [shapeOK, hns, hp, ht]
          · intro e he
            simp only [List.mem_cons, List.not_mem_nil, or_false] at he
            rcases he with rfl | rfl
            · exact hoka hpl
            · exact hokb hpl
        · intro x c cv hcv
          rw [treeAt_bin hget ht ha h10 (by omega) h20 (by omega), den_node2_eq,
            heqa x c cv hcv, heqb x c cv hcv]
          rfl
      | false =>
        have hA : cmd.node ≠ ADDITION := by
          intro h; rw [h] at ha; exact absurd ha (by decide)
        have hM : cmd.node ≠ MULTIPLICATION := by
          intro h; rw [h] at ha; exact absurd ha (by decide)
        have hP : cmd.node ≠ POWER := by
          intro h; rw [h] at ha; exact absurd ha (by decide)
        refine ⟨node cmd.node [ea], by simp [bind, Except.bind, pure_eq_ok], fun hpl => ?_, ?_,
          hnotI _⟩
        · rw [Ok_node]
          refine ⟨?_, ?_⟩
          · simp [shapeOK, (hpl cmd hmem).1, hP, ht, hA, hM]
          · intro e he
            simp only [List.mem_cons, List.not_mem_nil, or_false] at he
            subst he
            exact hoka hpl
        · intro x c cv hcv
          rw [treeAt_un hget ht ha h10 (by omega), den_un x cv _ _ hA hM, heqa x c cv hcv]
          rfl
    · cases hrow

/-- the whole pass, from the last row -/
theorem buildCas_pden {D L : Nat} {s : Stack} (hwf : WF.WFEval D L s) :
    ∃ e, buildCasExpression s = .ok e ∧
      (PowLitRows s → Ok true (termsOf D s) e = true) ∧
      (∀ (x c : List ℝ) (cv : Int → ℝ), CvOK s c cv → e.den x cv = pden x c (ofStack s)) := by
  have hpos := wf_length_pos hwf
  obtain ⟨e, he, hok, heq, _⟩ := buildRec_pden hwf (s.length - 1) (by omega) (s.length + 1)
    (by omega) false
  have e1 : ((s.length - 1 : Nat) : Int) = Int.ofNat s.length - 1 := by
    simp only [Int.ofNat_eq_natCast]; omega
  refine ⟨e, ?_, hok, ?_⟩
  · unfold buildCasExpression; rw [← e1]; exact he
  · intro x c cv hcv
    rw [ofStack_eq]; exact heq x c cv hcv

/-- the terminals of a stack without constants are variables -/
theorem termsOf_noconst {D : Nat} {s : Stack} (hwf : WF.WFEval D 0 s) :
    ∀ o v, termsOf D s o v = true → varsBelow D o v = true := by
  intro o v h
  simp only [termsOf, Bool.or_eq_true, Bool.and_eq_true, beq_iff_eq] at h
  rcases h with h | ⟨_, h⟩
  · exact h
  · exfalso
    simp only [constRow, Bool.and_eq_true, decide_eq_true_eq] at h
    cases hg : s[v.toNat]? with
    | none => simp [hg] at h
    | some c =>
      simp only [hg, beq_iff_eq] at h
      exact no_const_row hwf hg h.2

/-- A5, with constants: `POWER` rows are allowed when their exponent row is an `INTEGER` row `≠ 1` -/
theorem buildCas_ok_pow_gen {D L : Nat} {s : Stack} {e : Expr} (hwf : WF.WFEval D L s)
    (hpl : PowLitRows s) (he : buildCasExpression s = .ok e) :
    Ok true (termsOf D s) e = true := by
  obtain ⟨e', he', hok, _⟩ := buildCas_pden hwf
  rw [he] at he'; cases he'
  exact hok hpl

/-- A5: `buildCas_ok` with `POWER` rows whose exponent row is an `INTEGER` row `≠ 1` -/
theorem buildCas_ok_pow {D : Nat} {s : Stack} {e : Expr} (hwf : WF.WFEval D 0 s)
    (hpl : PowLitRows s) (he : buildCasExpression s = .ok e) :
    Ok true (varsBelow D) e = true :=
  Ok_mono (termsOf_noconst hwf) (buildCas_ok_pow_gen hwf hpl he)

/-- A4: the meaning of the CAS expression IS the conventional partial meaning of the stack -/
theorem buildCas_den_eq {D L : Nat} {s : Stack} {e : Expr} {x c : List ℝ}
    (hwf : WF.WFEval D L s) (he : buildCasExpression s = .ok e) (_hx : x.length = D)
    (hc : c.length = L) : e.den x (cvOf s c) = pden x c (ofStack s) := by
  obtain ⟨e', he', _, heq⟩ := buildCas_pden hwf
  rw [he] at he'; cases he'
  exact heq x c (cvOf s c) (cvOf_ok hwf hc)

/-- A4 without constants, for any valuation of constant ids -/
theorem buildCas_den_eq_noconst {D : Nat} {s : Stack} {e : Expr} {x : List ℝ} {cv : Int → ℝ}
    (hwf : WF.WFEval D 0 s) (he : buildCasExpression s = .ok e) :
    e.den x cv = pden x [] (ofStack s) := by
  obtain ⟨e', he', _, heq⟩ := buildCas_pden hwf
  rw [he] at he'; cases he'
  refine heq x [] cv ?_
  intro i cmd hget hnode
  exact absurd hnode (no_const_row hwf hget)

/-! ## non-vacuity -/

/-- `x0 ^ 2` as a stack: the exponent row is an `INTEGER` row -/
example : buildCasExpression [⟨0, 0, 0⟩, ⟨-1, 2, 2⟩, ⟨10, 0, 1⟩] =
    .ok (node POWER [term VARIABLE 0 true, term INTEGER 2 false]) := by rfl

example : WF.WFEval 1 0 [⟨0, 0, 0⟩, ⟨-1, 2, 2⟩, ⟨10, 0, 1⟩] := by decide

example : PowLitRows [⟨0, 0, 0⟩, ⟨-1, 2, 2⟩, ⟨10, 0, 1⟩] := by
  intro cmd hc
  simp only [List.mem_cons, List.not_mem_nil, or_false] at hc
  rcases hc with rfl | rfl | rfl
  · exact ⟨by decide, fun h => absurd h (by decide)⟩
  · exact ⟨by decide, fun h => absurd h (by decide)⟩
  · exact ⟨by decide, fun _ => ⟨⟨-1, 2, 2⟩, rfl, rfl, by decide⟩⟩

example : Ok true (varsBelow 1) (node POWER [term VARIABLE 0 true, term INTEGER 2 false]) = true := by
  decide

/-- `pden` is undefined where the conventional meaning is: `1 / 0` -/
example : pden [] [] (.bin DIVISION (.leaf INTEGER 1) (.leaf INTEGER 0)) = none := by
  simp [pden, MathSem.leaf, binDen, MathSem.binDefined]

end CasInterp
end Bingo
