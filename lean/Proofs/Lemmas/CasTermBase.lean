import Proofs.Lemmas.CasTermLt
/-!
# Basic facts about the level functions `sl`, `pl`, `cl` and the predicate `NE`
-/
namespace Bingo
namespace Cas
namespace Term
open Gen.OpDefs Expr

variable {T : Int → Bool}

/-! ## lists -/

theorem slL_le {l : List Expr} {n : Nat} : slL l ≤ n ↔ ∀ a ∈ l, sl a ≤ n := by
  induction l with
  | nil => simp [slL]
  | cons a l ih => simp [slL, ih]
theorem plL_le {l : List Expr} {n : Nat} : plL l ≤ n ↔ ∀ a ∈ l, pl a ≤ n := by
  induction l with
  | nil => simp [plL]
  | cons a l ih => simp [plL, ih]
theorem clL_le {l : List Expr} {n : Nat} : clL l ≤ n ↔ ∀ a ∈ l, cl a ≤ n := by
  induction l with
  | nil => simp [clL]
  | cons a l ih => simp [clL, ih]

theorem sl_le_slL {l : List Expr} {a : Expr} (h : a ∈ l) : sl a ≤ slL l := slL_le.1 (Nat.le_refl _) a h
theorem pl_le_plL {l : List Expr} {a : Expr} (h : a ∈ l) : pl a ≤ plL l := plL_le.1 (Nat.le_refl _) a h
theorem cl_le_clL {l : List Expr} {a : Expr} (h : a ∈ l) : cl a ≤ clL l := clL_le.1 (Nat.le_refl _) a h

theorem slL_append (l₁ l₂ : List Expr) : slL (l₁ ++ l₂) = max (slL l₁) (slL l₂) := by
  induction l₁ with
  | nil => simp [slL]
  | cons a l ih => simp [slL, ih, Nat.max_assoc]
theorem plL_append (l₁ l₂ : List Expr) : plL (l₁ ++ l₂) = max (plL l₁) (plL l₂) := by
  induction l₁ with
  | nil => simp [plL]
  | cons a l ih => simp [plL, ih, Nat.max_assoc]

@[simp] theorem slL_nil : slL [] = 0 := rfl
@[simp] theorem plL_nil : plL [] = 0 := rfl
@[simp] theorem slL_cons (a : Expr) (l : List Expr) : slL (a :: l) = max (sl a) (slL l) := rfl
@[simp] theorem plL_cons (a : Expr) (l : List Expr) : plL (a :: l) = max (pl a) (plL l) := rfl

theorem NEL_iff {l : List Expr} : NEL T l = true ↔ ∀ a ∈ l, NE T a = true := by
  induction l with
  | nil => simp [NEL]
  | cons a l ih => simp [NEL, ih]

theorem NEL_append {l₁ l₂ : List Expr} (h1 : NEL T l₁ = true) (h2 : NEL T l₂ = true) :
    NEL T (l₁ ++ l₂) = true := by
  rw [NEL_iff] at *
  intro a ha
  rcases List.mem_append.1 ha with h | h
  · exact h1 a h
  · exact h2 a h

theorem NE_args {e : Expr} (h : NE T e = true) : NEL T e.args = true := by
  cases e with
  | term o v n => rfl
  | node o as => simp only [NE, Bool.and_eq_true] at h; exact h.2

/-! ## unfolding -/

theorem sl_node (o : Int) (as : List Expr) : sl (node o as) =
    if o = ADDITION then slL as
    else if o = MULTIPLICATION then 1 + max 1 (plL as)
    else if o = POWER then
      match as with
      | b :: x :: _ => 2 + sl x + cl b
      | _ => 2
    else 2 := by
  match as with
  | [] => simp only [sl]
  | [_] => simp only [sl]
  | _ :: _ :: _ => simp only [sl]

theorem pl_node (o : Int) (as : List Expr) : pl (node o as) =
    if o = MULTIPLICATION then plL as
    else if o = POWER then
      match as with
      | b :: x :: _ => 1 + sl x + cl b
      | _ => 1
    else if o = ADDITION then 1 + (slL as - 2)
    else 1 := by
  match as with
  | [] => simp only [pl]
  | [_] => simp only [pl]
  | _ :: _ :: _ => simp only [pl]

theorem cl_node (o : Int) (as : List Expr) : cl (node o as) =
    if o = MULTIPLICATION then 1 + clL as
    else if o = POWER then
      match as with
      | b :: x :: _ => cl b + pl x + sl x + 4
      | _ => 0
    else if o = ADDITION then slL as - 2
    else 0 := by
  match as with
  | [] => simp only [cl]
  | [_] => simp only [cl]
  | _ :: _ :: _ => simp only [cl]

theorem sl_term (o v : Int) (n : Bool) : sl (term o v n) = if o = INTEGER then 0 else 2 := by
  simp only [sl]
theorem pl_term (o v : Int) (n : Bool) : pl (term o v n) = if o = INTEGER then 0 else 1 := by
  simp only [pl]
theorem cl_term (o v : Int) (n : Bool) : cl (term o v n) = 0 := by simp only [cl]

theorem sl_int (v : Int) (n : Bool) : sl (term INTEGER v n) = 0 := by simp [sl_term]
theorem pl_int (v : Int) (n : Bool) : pl (term INTEGER v n) = 0 := by simp [pl_term]
theorem sl_add (as : List Expr) : sl (node ADDITION as) = slL as := by rw [sl_node, if_pos rfl]
theorem sl_mul (as : List Expr) : sl (node MULTIPLICATION as) = 1 + max 1 (plL as) := by
  rw [sl_node, if_neg (by decide), if_pos rfl]
theorem pl_mul (as : List Expr) : pl (node MULTIPLICATION as) = plL as := by rw [pl_node, if_pos rfl]
theorem pl_pow (b x : Expr) : pl (node POWER [b, x]) = 1 + sl x + cl b := by
  rw [pl_node, if_neg (by decide), if_pos rfl]
theorem cl_mul (as : List Expr) : cl (node MULTIPLICATION as) = 1 + clL as := by
  rw [cl_node, if_pos rfl]
theorem cl_pow (b x : Expr) : cl (node POWER [b, x]) = cl b + pl x + sl x + 4 := by
  rw [cl_node, if_neg (by decide), if_pos rfl]

theorem sl_ZERO : sl ZERO = 0 := sl_int _ _
theorem sl_ONE : sl ONE = 0 := sl_int _ _
theorem pl_ZERO : pl ZERO = 0 := pl_int _ _
theorem pl_ONE : pl ONE = 0 := pl_int _ _
theorem sl_ofPInt (p : PInt) : sl (ofPInt p) = 0 := sl_int _ _
theorem pl_ofPInt (p : PInt) : pl (ofPInt p) = 0 := pl_int _ _
theorem NE_ofPInt (p : PInt) : NE T (ofPInt p) = true := rfl
theorem NE_ONE : NE T ONE = true := rfl
theorem NE_ZERO : NE T ZERO = true := rfl

theorem sl_pow2 (b x : Expr) (tl : List Expr) : sl (node POWER (b :: x :: tl)) = 2 + sl x + cl b := by
  rw [sl_node, if_neg (by decide), if_neg (by decide), if_pos rfl]
theorem pl_pow2 (b x : Expr) (tl : List Expr) : pl (node POWER (b :: x :: tl)) = 1 + sl x + cl b := by
  rw [pl_node, if_neg (by decide), if_pos rfl]
theorem cl_pow2 (b x : Expr) (tl : List Expr) :
    cl (node POWER (b :: x :: tl)) = cl b + pl x + sl x + 4 := by
  rw [cl_node, if_neg (by decide), if_pos rfl]
theorem sl_pow_short {as : List Expr} (h : as.length < 2) : sl (node POWER as) = 2 := by
  rw [sl_node, if_neg (by decide), if_neg (by decide), if_pos rfl]
  match as, h with
  | [], _ => rfl
  | [_], _ => rfl
theorem pl_pow_short {as : List Expr} (h : as.length < 2) : pl (node POWER as) = 1 := by
  rw [pl_node, if_neg (by decide), if_pos rfl]
  match as, h with
  | [], _ => rfl
  | [_], _ => rfl
theorem cl_pow_short {as : List Expr} (h : as.length < 2) : cl (node POWER as) = 0 := by
  rw [cl_node, if_neg (by decide), if_pos rfl]
  match as, h with
  | [], _ => rfl
  | [_], _ => rfl
theorem pl_add (as : List Expr) : pl (node ADDITION as) = 1 + (slL as - 2) := by
  rw [pl_node, if_neg (by decide), if_neg (by decide), if_pos rfl]
theorem cl_add (as : List Expr) : cl (node ADDITION as) = slL as - 2 := by
  rw [cl_node, if_neg (by decide), if_neg (by decide), if_pos rfl]
theorem sl_other {o : Int} (as : List Expr) (h1 : o ≠ ADDITION) (h2 : o ≠ MULTIPLICATION)
    (h3 : o ≠ POWER) : sl (node o as) = 2 := by
  rw [sl_node, if_neg h1, if_neg h2, if_neg h3]
theorem pl_other {o : Int} (as : List Expr) (h1 : o ≠ ADDITION) (h2 : o ≠ MULTIPLICATION)
    (h3 : o ≠ POWER) : pl (node o as) = 1 := by
  rw [pl_node, if_neg h2, if_neg h3, if_neg h1]
theorem cl_other {o : Int} (as : List Expr) (h1 : o ≠ ADDITION) (h2 : o ≠ MULTIPLICATION)
    (h3 : o ≠ POWER) : cl (node o as) = 0 := by
  rw [cl_node, if_neg h2, if_neg h3, if_neg h1]

/-- the shapes of a node that matter for the levels -/
theorem node_cases (o : Int) (as : List Expr) :
    o = ADDITION ∨ o = MULTIPLICATION ∨ (o = POWER ∧ ∃ b x tl, as = b :: x :: tl) ∨
    (o = POWER ∧ as.length < 2) ∨ (o ≠ ADDITION ∧ o ≠ MULTIPLICATION ∧ o ≠ POWER) := by
  by_cases h1 : o = ADDITION
  · exact Or.inl h1
  by_cases h2 : o = MULTIPLICATION
  · exact Or.inr (Or.inl h2)
  by_cases h3 : o = POWER
  · match as with
    | [] => exact Or.inr (Or.inr (Or.inr (Or.inl ⟨h3, by simp⟩)))
    | [_] => exact Or.inr (Or.inr (Or.inr (Or.inl ⟨h3, by simp⟩)))
    | b :: x :: tl => exact Or.inr (Or.inr (Or.inl ⟨h3, b, x, tl, rfl⟩))
  · exact Or.inr (Or.inr (Or.inr (Or.inr ⟨h1, h2, h3⟩)))

/-! ## relations between the three levels -/

/-- G1 -/
theorem sl_le_pl (r : Expr) : sl r ≤ 1 + max 1 (pl r) := by
  cases r with
  | term o v n => rw [sl_term, pl_term]; split <;> omega
  | node o as =>
    rcases node_cases o as with rfl | rfl | ⟨rfl, b, x, tl, rfl⟩ | ⟨rfl, h⟩ | ⟨h1, h2, h3⟩
    · rw [sl_add, pl_add]; omega
    · rw [sl_mul, pl_mul]
    · rw [sl_pow2, pl_pow2]; omega
    · rw [sl_pow_short h, pl_pow_short h]; omega
    · rw [sl_other as h1 h2 h3, pl_other as h1 h2 h3]; omega

/-- G3 -/
theorem pl_le_one_of_sl {r : Expr} (h : sl r ≤ 2) : pl r ≤ 1 := by
  cases r with
  | term o v n => rw [pl_term]; split <;> omega
  | node o as =>
    rcases node_cases o as with rfl | rfl | ⟨rfl, b, x, tl, rfl⟩ | ⟨rfl, h'⟩ | ⟨h1, h2, h3⟩
    · rw [sl_add] at h; rw [pl_add]; omega
    · rw [sl_mul] at h; rw [pl_mul]; omega
    · rw [sl_pow2] at h; rw [pl_pow2]; omega
    · rw [pl_pow_short h']
    · rw [pl_other as h1 h2 h3]

/-- G2 -/
theorem pl_le_cl (p : Expr) : pl p ≤ 1 + cl p := by
  induction p using Expr.rec (motive_2 := fun l => ∀ a ∈ l, pl a ≤ 1 + cl a) with
  | term o v n => rw [pl_term, cl_term]; split <;> omega
  | node o as ih =>
    rcases node_cases o as with rfl | rfl | ⟨rfl, b, x, tl, rfl⟩ | ⟨rfl, h'⟩ | ⟨h1, h2, h3⟩
    · rw [pl_add, cl_add]
    · rw [pl_mul, cl_mul, plL_le]
      intro a ha
      have := ih a ha
      have := cl_le_clL ha
      omega
    · rw [pl_pow2, cl_pow2]; omega
    · rw [pl_pow_short h', cl_pow_short h']
    · rw [pl_other as h1 h2 h3, cl_other as h1 h2 h3]
  | nil => rename_i ha; cases ha
  | cons a as iha ihas =>
    rename_i c hc
    rcases List.mem_cons.1 hc with rfl | hc
    · exact iha
    · exact ihas c hc

/-! ## `Expression.__eq__` respects the levels -/

/-- the three levels agree -/
def SameLv (a b : Expr) : Prop := sl a = sl b ∧ pl a = pl b ∧ cl a = cl b

theorem forall₂_slL {as bs : List Expr} (h : List.Forall₂ SameLv as bs) :
    slL as = slL bs ∧ plL as = plL bs ∧ clL as = clL bs := by
  induction h with
  | nil => exact ⟨rfl, rfl, rfl⟩
  | cons hab _ ih =>
    simp only [slL, plL, clL]
    rw [hab.1, hab.2.1, hab.2.2, ih.1, ih.2.1, ih.2.2]
    exact ⟨rfl, rfl, rfl⟩

theorem sameLv_node {o : Int} {as bs : List Expr} (h : List.Forall₂ SameLv as bs) :
    SameLv (node o as) (node o bs) := by
  have hl := forall₂_slL h
  have hlen := h.length_eq
  unfold SameLv
  rcases node_cases o as with rfl | rfl | ⟨rfl, b, x, tl, rfl⟩ | ⟨rfl, h'⟩ | ⟨h1, h2, h3⟩
  · rw [sl_add, sl_add, pl_add, pl_add, cl_add, cl_add, hl.1]; exact ⟨rfl, rfl, rfl⟩
  · rw [sl_mul, sl_mul, pl_mul, pl_mul, cl_mul, cl_mul, hl.2.1, hl.2.2]; exact ⟨rfl, rfl, rfl⟩
  · cases h with
    | cons hb h =>
      cases h with
      | cons hx h =>
        rw [sl_pow2, sl_pow2, pl_pow2, pl_pow2, cl_pow2, cl_pow2, hb.2.2, hx.1, hx.2.1]
        exact ⟨rfl, rfl, rfl⟩
  · have h'' : bs.length < 2 := by omega
    rw [sl_pow_short h', sl_pow_short h'', pl_pow_short h', pl_pow_short h'', cl_pow_short h',
      cl_pow_short h'']
    exact ⟨rfl, rfl, rfl⟩
  · rw [sl_other as h1 h2 h3, sl_other bs h1 h2 h3, pl_other as h1 h2 h3, pl_other bs h1 h2 h3,
      cl_other as h1 h2 h3, cl_other bs h1 h2 h3]
    exact ⟨rfl, rfl, rfl⟩

mutual
theorem beq_sameLv : ∀ (a b : Expr), a.beq b = true → SameLv a b
  | term o v n, term o' v' n', h => by
    simp only [beq, Bool.and_eq_true, beq_iff_eq] at h
    obtain ⟨rfl, rfl⟩ := h
    unfold SameLv
    rw [sl_term, sl_term, pl_term, pl_term, cl_term, cl_term]
    exact ⟨rfl, rfl, rfl⟩
  | term _ _ _, node _ _, h => by simp [beq] at h
  | node _ _, term _ _ _, h => by simp [beq] at h
  | node o as, node o' bs, h => by
    simp only [beq, Bool.and_eq_true, beq_iff_eq] at h
    obtain ⟨rfl, h2⟩ := h
    exact sameLv_node (beqList_sameLv as bs h2)
theorem beqList_sameLv : ∀ (as bs : List Expr), beqList as bs = true → List.Forall₂ SameLv as bs
  | [], [], _ => List.Forall₂.nil
  | [], _ :: _, h => by simp [beqList] at h
  | _ :: _, [], h => by simp [beqList] at h
  | a :: as, b :: bs, h => by
    simp only [beqList, Bool.and_eq_true] at h
    exact List.Forall₂.cons (beq_sameLv a b h.1) (beqList_sameLv as bs h.2)
end

end Term
end Cas
end Bingo
