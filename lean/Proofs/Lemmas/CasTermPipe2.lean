import Proofs.Lemmas.CasTermPipe
import Proofs.Lemmas.CasFold
import Proofs.Lemmas.CasInterpA
/-!
# Stage 5: the whole pipeline with the fuel as a parameter

`simplifyWithFuel strict fuel stack` is `simplifyWith strict stack` with `fuel` in place of
`fuelFor stack.length`.
-/
namespace Bingo
namespace Cas
namespace Term
open Gen.OpDefs Expr Auto

variable {T : Int → Bool}

/-- `simplifyWith` with the fuel handed to `automaticSimplify` and `foldConstants` as a parameter -/
def simplifyWithFuel (strict : Bool) (fuel : Nat) (stack : Stack) : R Stack := do
  let e ← buildCasExpression stack
  let e ← automaticSimplify strict fuel e
  let e ← foldConstants fuel e
  let e ← optionalModifications e
  buildAgraphStack e

theorem simplifyWith_eq (st : Bool) (s : Stack) :
    simplifyWith st s = simplifyWithFuel st (fuelFor s.length) s := rfl

/-! ## from `NE` to `TOK` -/

theorem TOK_of_NE (e : Expr) : NE T e = true → TOK T e = true := by
  induction e using Expr.rec (motive_2 := fun l => NEL T l = true → TOKL T l = true) with
  | term o v np => intro h; exact h
  | node o as ih =>
    intro h
    rw [TOK]
    exact ih (NE_node_inv h).2.2.2
  | nil => rfl
  | cons a as iha ihas =>
    rename_i h
    simp only [NEL, Bool.and_eq_true] at h
    simp only [TOKL, Bool.and_eq_true]
    exact ⟨iha h.1, ihas h.2⟩

/-! ## constant-free expressions -/

/-- admissible terminals of a constant-free expression -/
def onlyVar : Int → Bool := fun o => o == VARIABLE

theorem getConstantsAcc_onlyVar (e : Expr) : NE onlyVar e = true → ∀ acc, getConstantsAcc e acc = acc := by
  induction e using Expr.rec (motive_2 := fun l => NEL onlyVar l = true →
      ∀ acc, getConstantsList l acc = acc) with
  | term o v np =>
    intro h acc
    rw [getConstantsAcc]
    split
    · rename_i ho
      subst ho
      simp [NE, onlyVar] at h
      rcases h with h | h <;> exact absurd h (by decide)
    · rfl
  | node o as ih =>
    intro h acc
    rw [getConstantsAcc]
    exact ih (NE_node_inv h).2.2.2 acc
  | nil => rw [getConstantsList]
  | cons a as iha ihas =>
    rename_i h acc
    simp only [NEL, Bool.and_eq_true] at h
    rw [getConstantsList, iha h.1, ihas h.2]

theorem foldConstants_onlyVar {e : Expr} (h : NE onlyVar e = true) (fuel : Nat) :
    foldConstants (fuel+1) e = .ok (groupConstants e) :=
  foldLoop_noconst fuel (getConstantsAcc_onlyVar _ (groupConstants_NE e h) [])

theorem optionalModifications_nfu (e : Expr) : NFu (optionalModifications e) :=
  replaceIntegerPowers_nfu _

theorem optionalModifications_NEmp {e e' : Expr} (h : NE T e = true)
    (he : optionalModifications e = .ok e') : NEmp e' = true :=
  replaceIntegerPowers_NEmp _ (NEmp_of_NE _ (insertSubtraction_NE e h)) e' he

/-! ## composition -/

/-- what the pipeline needs to know about `foldConstants` on the class `NE T` -/
def FoldOK (T : Int → Bool) : Prop :=
  ∀ e1, NE T e1 = true →
    (∃ N, ∀ f, N ≤ f → NFu (foldConstants f e1)) ∧
    ∀ f e2, foldConstants f e1 = .ok e2 → NE T e2 = true

theorem simplifyWithFuel_halts_of (hfold : FoldOK T) (st : Bool) {s : Stack} {e0 : Expr}
    (hb : buildCasExpression s = .ok e0) (hne : NE T e0 = true) :
    ∃ N, ∀ f, N ≤ f → NFu (simplifyWithFuel st f s) := by
  have tail : ∀ f e1, NE T e1 = true → NFu (foldConstants f e1) →
      NFu (foldConstants f e1 >>= fun e => optionalModifications e >>= fun e => buildAgraphStack e) := by
    intro f e1 h1 hf
    refine nfu_bind hf (fun e2 he2 => ?_)
    have h2 := (hfold e1 h1).2 f e2 he2
    exact nfu_bind (optionalModifications_nfu e2)
      (fun e3 he3 => buildAgraphStack_nfu (optionalModifications_NEmp h2 he3))
  have hunf : ∀ f, simplifyWithFuel st f s =
      (automaticSimplify st f e0 >>= fun e => foldConstants f e >>= fun e =>
        optionalModifications e >>= fun e => buildAgraphStack e) := by
    intro f; unfold simplifyWithFuel; rw [hb]; rfl
  obtain ⟨N1, h1⟩ := automaticSimplify_halts st e0 (TOK_of_NE e0 hne)
  cases hv : automaticSimplify st N1 e0 with
  | error s' =>
    refine ⟨N1, fun f hf => ?_⟩
    rw [hunf f, automaticSimplify_le hf h1, hv]
    intro hc
    have hc' : (Except.error s' : R Stack) = .error "fuel" := hc
    cases hc'
    exact h1 hv
  | ok e1 =>
    have hne1 := automaticSimplify_NE st N1 e0 (TOK_of_NE e0 hne) e1 hv
    obtain ⟨N2, h2⟩ := (hfold e1 hne1).1
    refine ⟨max N1 N2, fun f hf => ?_⟩
    rw [hunf f, automaticSimplify_le (Nat.le_trans (Nat.le_max_left _ _) hf) h1, hv]
    exact tail f e1 hne1 (h2 f (Nat.le_trans (Nat.le_max_right _ _) hf))

/-- `foldConstants` on constant-free expressions -/
theorem foldOK_onlyVar : FoldOK onlyVar := by
  intro e1 h1
  refine ⟨⟨1, fun f hf => ?_⟩, fun f e2 he2 => ?_⟩
  · obtain ⟨k, rfl⟩ : ∃ k, f = k + 1 := ⟨f - 1, by omega⟩
    rw [foldConstants_onlyVar h1]; exact pure_ne
  · cases f with
    | zero => unfold foldConstants at he2; rw [foldLoop] at he2; cases he2
    | succ k =>
      rw [foldConstants_onlyVar h1] at he2
      cases he2
      exact groupConstants_NE e1 h1

/-! ## stacks -/

/-- admissible terminals of an arbitrary stack -/
def varOrConst : Int → Bool := fun o => o == VARIABLE || o == CONSTANT

theorem isTerminal_true {o : Int} (h : Ops.isTerminal o = some true) :
    o = INTEGER ∨ o = VARIABLE ∨ o = CONSTANT := by
  unfold Ops.isTerminal Gen.OpDefs.isTerminalTbl at h
  simp only [List.lookup] at h
  repeat' (split at h)
  all_goals first
    | (rename_i hx; simp only [beq_iff_eq] at hx; subst hx; decide)
    | cases h

/-- every stack: the terminals read off are integers, variables and constants -/
theorem rowsT_any (s : Stack) : RowsT varOrConst s := by
  intro cmd _ h
  rcases isTerminal_true h with h | h | h
  · exact Or.inl h
  · right; rw [h]; rfl
  · right; rw [h]; rfl

/-- a stack for `L = 0` constants has no `CONSTANT` row -/
theorem rowsT_noconst {D : Nat} {s : Stack} (hwf : WF.WFEval D 0 s) : RowsT onlyVar s := by
  intro cmd hmem h
  obtain ⟨i, hi, hget⟩ := List.getElem_of_mem hmem
  have hget' : s[i]? = some cmd := by rw [List.getElem?_eq_getElem hi, hget]
  have hrow := ReduceLemmas.wf_rowOK hwf hget'
  unfold WF.rowOK at hrow
  rw [h] at hrow
  rcases isTerminal_true h with h' | h' | h'
  · exact Or.inl h'
  · right; rw [h']; rfl
  · exfalso
    have ha : Ops.isArity2 cmd.node = some false := by rw [h']; decide
    simp only [ha] at hrow
    rw [if_neg (by rw [h']; decide), if_pos h'] at hrow
    simp only [Bool.and_eq_true, decide_eq_true_eq] at hrow
    omega

theorem buildCas_NE {s : Stack} {e0 : Expr} (hT : RowsT T s) (he : buildCasExpression s = .ok e0) :
    NE T e0 = true := by
  unfold buildCasExpression at he
  exact buildExpressionRec_NE hT _ _ _ e0 he

/-- end to end, constant-free stacks -/
theorem simplifyWithFuel_halts_noconst {D : Nat} {s : Stack} (hwf : WF.WFEval D 0 s) (st : Bool) :
    ∃ N, ∀ f, N ≤ f → NFu (simplifyWithFuel st f s) := by
  obtain ⟨e0, he⟩ := CasInterp.buildCas_some hwf
  exact simplifyWithFuel_halts_of foldOK_onlyVar st he (buildCas_NE (rowsT_noconst hwf) he)

/-- end to end, any well-formed stack, given the two facts about `foldConstants` -/
theorem simplifyWithFuel_halts_gen (hfold : FoldOK varOrConst) {D L : Nat} {s : Stack}
    (hwf : WF.WFEval D L s) (st : Bool) : ∃ N, ∀ f, N ≤ f → NFu (simplifyWithFuel st f s) := by
  obtain ⟨e0, he⟩ := CasInterp.buildCas_some hwf
  exact simplifyWithFuel_halts_of hfold st he (buildCas_NE (rowsT_any s) he)

end Term
end Cas
end Bingo
