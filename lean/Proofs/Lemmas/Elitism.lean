import Model.Key
/-!
# `NoWorse`: "the best non-NaN key did not get worse" (core Lean only)

`NoWorse ks' ks`: every non-NaN key of the old list `ks` is matched by a non-NaN key of the new
list `ks'` that is at least as good.  With `best` = minimum over the non-NaN keys this is
`best ks' ≤ best ks` (`noWorse_iff_best`), where "no non-NaN key at all" is the top element.
-/
namespace Bingo

namespace Key

theorem isNan_false_iff' {k : Key} : k.isNan = false ↔ ∃ x, k = some x := by
  cases k <;> simp [Key.isNan]

theorem le_refl_of_not_nan {k : Key} (h : k.isNan = false) : Key.le k k = true := by
  cases k with
  | none => simp [Key.isNan] at h
  | some x => simp [Key.le]

theorem le_trans' {a b c : Key} (h1 : Key.le a b = true) (h2 : Key.le b c = true) :
    Key.le a c = true := by
  cases a <;> cases b <;> cases c <;> simp [Key.le] at h1 h2 ⊢
  omega

theorem le_some_some {x y : Int} : Key.le (some x) (some y) = true ↔ x ≤ y := by
  simp [Key.le]

theorem not_nan_of_le_left {a b : Key} (h : Key.le a b = true) : a.isNan = false := by
  cases a <;> cases b <;> simp [Key.le, Key.isNan] at h ⊢

theorem not_nan_of_le_right {a b : Key} (h : Key.le a b = true) : b.isNan = false := by
  cases a <;> cases b <;> simp [Key.le, Key.isNan] at h ⊢

end Key

/-- every non-NaN key of `ks` (old) is matched by a non-NaN key of `ks'` (new) that is `≤` it -/
def NoWorse (ks' ks : List Key) : Prop :=
  ∀ k ∈ ks, k.isNan = false → ∃ k' ∈ ks', k'.isNan = false ∧ Key.le k' k = true

instance (ks' ks : List Key) : Decidable (NoWorse ks' ks) := by
  unfold NoWorse; infer_instance

namespace NoWorse

theorem refl (ks : List Key) : NoWorse ks ks :=
  fun k hk hn => ⟨k, hk, hn, Key.le_refl_of_not_nan hn⟩

theorem trans {a b c : List Key} (h1 : NoWorse a b) (h2 : NoWorse b c) : NoWorse a c := by
  intro k hk hn
  obtain ⟨k1, hk1, hn1, hle1⟩ := h2 k hk hn
  obtain ⟨k2, hk2, hn2, hle2⟩ := h1 k1 hk1 hn1
  exact ⟨k2, hk2, hn2, Key.le_trans' hle2 hle1⟩

/-- a superset is no worse -/
theorem of_subset {ks' ks : List Key} (h : ∀ k ∈ ks, k ∈ ks') : NoWorse ks' ks :=
  fun k hk hn => ⟨k, h k hk, hn, Key.le_refl_of_not_nan hn⟩

/-- only the non-NaN keys matter -/
theorem of_subset_not_nan {ks' ks : List Key} (h : ∀ k ∈ ks, k.isNan = false → k ∈ ks') :
    NoWorse ks' ks :=
  fun k hk hn => ⟨k, h k hk hn, hn, Key.le_refl_of_not_nan hn⟩

/-- monotone: the new list may grow, the old list may shrink -/
theorem mono {a a' b b' : List Key} (h : NoWorse a b) (ha : ∀ k ∈ a, k ∈ a')
    (hb : ∀ k ∈ b', k ∈ b) : NoWorse a' b' := by
  intro k hk hn
  obtain ⟨k1, hk1, hn1, hle⟩ := h k (hb k hk) hn
  exact ⟨k1, ha k1 hk1, hn1, hle⟩

theorem of_perm {ks' ks : List Key} (h : ks'.Perm ks) : NoWorse ks' ks :=
  of_subset fun _ hk => h.mem_iff.2 hk

theorem perm_left {a a' b : List Key} (h : NoWorse a b) (hp : a'.Perm a) : NoWorse a' b :=
  h.mono (fun _ hk => hp.mem_iff.2 hk) (fun _ hk => hk)

theorem perm_right {a b b' : List Key} (h : NoWorse a b) (hp : b'.Perm b) : NoWorse a b' :=
  h.mono (fun _ hk => hk) (fun _ hk => hp.mem_iff.1 hk)

theorem nil_right (ks : List Key) : NoWorse ks [] := fun _ hk => by simp at hk

theorem append {a a' b b' : List Key} (h1 : NoWorse a' a) (h2 : NoWorse b' b) :
    NoWorse (a' ++ b') (a ++ b) := by
  intro k hk hn
  rcases List.mem_append.1 hk with hk | hk
  · obtain ⟨k1, hk1, r⟩ := h1 k hk hn
    exact ⟨k1, List.mem_append_left _ hk1, r⟩
  · obtain ⟨k1, hk1, r⟩ := h2 k hk hn
    exact ⟨k1, List.mem_append_right _ hk1, r⟩

/-- the old list is covered piecewise -/
theorem append_right {a b c : List Key} (h1 : NoWorse a b) (h2 : NoWorse a c) :
    NoWorse a (b ++ c) := by
  intro k hk hn
  rcases List.mem_append.1 hk with hk | hk
  · exact h1 k hk hn
  · exact h2 k hk hn

/-- pointwise: every old key is NaN or has a matching new key -/
theorem of_forall {ks' ks : List Key}
    (h : ∀ k ∈ ks, k.isNan = true ∨ ∃ k' ∈ ks', Key.le k' k = true) : NoWorse ks' ks := by
  intro k hk hn
  rcases h k hk with h1 | ⟨k', hk', hle⟩
  · rw [hn] at h1; cases h1
  · exact ⟨k', hk', Key.not_nan_of_le_left hle, hle⟩

end NoWorse

/-! ## the best key -/

/-- minimum of the non-NaN keys, `none` if there is none -/
def best : List Key → Option Int
  | [] => none
  | none :: ks => best ks
  | some x :: ks =>
    match best ks with
    | none => some x
    | some b => some (min x b)

theorem best_eq_none_iff {ks : List Key} : best ks = none ↔ ∀ k ∈ ks, k.isNan = true := by
  induction ks with
  | nil => simp [best]
  | cons k ks ih =>
    cases k with
    | none => simp [best, ih, Key.isNan]
    | some x =>
      simp only [best]
      cases best ks <;> simp [Key.isNan]

/-- `best ks = some b` iff `b` is a key of `ks` and a lower bound of the non-NaN keys -/
theorem best_eq_some_iff {ks : List Key} {b : Int} :
    best ks = some b ↔ some b ∈ ks ∧ ∀ x, some x ∈ ks → b ≤ x := by
  induction ks generalizing b with
  | nil => simp [best]
  | cons k ks ih =>
    cases k with
    | none => simp [best, ih]
    | some y =>
      simp only [best]
      cases hb : best ks with
      | none =>
        have hnone := best_eq_none_iff.1 hb
        have hno : ∀ x, some x ∉ ks := fun x hx => by
          have := hnone _ hx; simp [Key.isNan] at this
        simp only [Option.some.injEq, List.mem_cons]
        constructor
        · rintro rfl
          exact ⟨Or.inl rfl, fun x hx => by
            rcases hx with hx | hx
            · cases hx; exact Int.le_refl _
            · exact (hno x hx).elim⟩
        · rintro ⟨h1 | h1, _⟩
          · cases h1; rfl
          · exact (hno b h1).elim
      | some c =>
        obtain ⟨hc1, hc2⟩ := ih.1 hb
        simp only [Option.some.injEq, List.mem_cons]
        constructor
        · rintro rfl
          refine ⟨?_, fun x hx => ?_⟩
          · by_cases hyc : y ≤ c
            · left; rw [Int.min_eq_left hyc]
            · right; rw [Int.min_eq_right (by omega)]; exact hc1
          · rcases hx with hx | hx
            · cases hx; exact Int.min_le_left _ _
            · exact Int.le_trans (Int.min_le_right _ _) (hc2 x hx)
        · rintro ⟨h1, h2⟩
          have hby : b ≤ y := h2 y (Or.inl rfl)
          have hbc : b ≤ c := h2 c (Or.inr hc1)
          rcases h1 with h1 | h1
          · cases h1; omega
          · have := hc2 b h1; omega

/-- `NoWorse` is `best new ≤ best old` in the order where "no non-NaN key" is the top element -/
theorem noWorse_iff_best {ks' ks : List Key} :
    NoWorse ks' ks ↔
      (best ks = none ∨ ∃ b' b, best ks' = some b' ∧ best ks = some b ∧ b' ≤ b) := by
  constructor
  · intro h
    cases hb : best ks with
    | none => exact Or.inl rfl
    | some b =>
      right
      obtain ⟨hb1, hb2⟩ := best_eq_some_iff.1 hb
      obtain ⟨k', hk', hn', hle⟩ := h (some b) hb1 rfl
      obtain ⟨x, rfl⟩ := Key.isNan_false_iff'.1 hn'
      cases hb' : best ks' with
      | none =>
        have := best_eq_none_iff.1 hb' _ hk'
        simp [Key.isNan] at this
      | some b' =>
        obtain ⟨_, hb2'⟩ := best_eq_some_iff.1 hb'
        have h1 := hb2' x hk'
        have h2 := Key.le_some_some.1 hle
        exact ⟨b', b, rfl, rfl, by omega⟩
  · rintro (h | ⟨b', b, hb', hb, hle⟩)
    · intro k hk hn
      rw [best_eq_none_iff.1 h k hk] at hn; cases hn
    · intro k hk hn
      obtain ⟨x, rfl⟩ := Key.isNan_false_iff'.1 hn
      obtain ⟨hb1', _⟩ := best_eq_some_iff.1 hb'
      obtain ⟨_, hb2⟩ := best_eq_some_iff.1 hb
      have := hb2 x hk
      exact ⟨some b', hb1', rfl, Key.le_some_some.2 (by omega)⟩

/-- `best` is the `min?` of the non-NaN keys -/
theorem best_cons_some (x : Int) (ks : List Key) :
    best (some x :: ks) = some (match best ks with | none => x | some b => min x b) := by
  simp only [best]; cases best ks <;> rfl

/-- a non-NaN key present forces `best` to exist and be `≤` it -/
theorem best_le_of_mem {ks : List Key} {x : Int} (h : some x ∈ ks) :
    ∃ b, best ks = some b ∧ b ≤ x := by
  cases hb : best ks with
  | none => have := best_eq_none_iff.1 hb _ h; simp [Key.isNan] at this
  | some b => exact ⟨b, rfl, (best_eq_some_iff.1 hb).2 x h⟩

end Bingo
