import Proofs.Lemmas.MetricsEval
import Mathlib.Analysis.SpecialFunctions.Log.Deriv
import Mathlib.Analysis.SpecialFunctions.Sqrt
import Mathlib.Analysis.Calculus.Deriv.Abs
/-!
# C07, analytic side: the derivative of each metric along a differentiable family of residuals

The residual vector is given by index, `r θ = l.map (fun i => ρ i θ)`, with
`HasDerivAt (ρ i) (J i) θ₀`.  Each `hasDerivAt_*` lemma states the derivative of the closed form
in exactly the shape the corresponding generated derivative function evaluates to
(`MetricsEval.eval_d*_map`).
-/
namespace Bingo
namespace Metrics

variable {ι : Type}

lemma hasDerivAt_list_sum (l : List ι) (f : ι → ℝ → ℝ) (f' : ι → ℝ) (x : ℝ)
    (h : ∀ i ∈ l, HasDerivAt (f i) (f' i) x) :
    HasDerivAt (fun θ => (l.map (fun i => f i θ)).sum) (l.map f').sum x := by
  induction l with
  | nil => simpa using hasDerivAt_const x (0 : ℝ)
  | cons a l ih =>
    simp only [List.map_cons, List.sum_cons]
    exact (h a (by simp)).add (ih (fun i hi => h i (List.mem_cons_of_mem _ hi)))

/-- `|·|` has derivative `Real.sign x` (numpy's `np.sign`) away from `0` -/
lemma hasDerivAt_abs_sign {x : ℝ} (hx : x ≠ 0) : HasDerivAt (|·|) (Real.sign x) x := by
  rcases hx.lt_or_gt with h | h
  · rw [Real.sign_of_neg h]; exact hasDerivAt_abs_neg h
  · rw [Real.sign_of_pos h]; exact hasDerivAt_abs_pos h

lemma maeV_map (l : List ι) (a : ι → ℝ) :
    maeV (l.map a) = (l.map (fun i => |a i|)).sum / (l.length : ℝ) := by
  simp [maeV, List.map_map, Function.comp_def]

lemma mseV_map (l : List ι) (a : ι → ℝ) :
    mseV (l.map a) = (l.map (fun i => a i ^ 2)).sum / (l.length : ℝ) := by
  simp [mseV, List.map_map, Function.comp_def]

section
variable (l : List ι) (ρ : ι → ℝ → ℝ) (J : ι → ℝ) (θ₀ : ℝ)

theorem hasDerivAt_mae (h : ∀ i ∈ l, HasDerivAt (ρ i) (J i) θ₀) (h0 : ∀ i ∈ l, ρ i θ₀ ≠ 0) :
    HasDerivAt (fun θ => maeV (l.map (fun i => ρ i θ)))
      ((l.map (fun i => Real.sign (ρ i θ₀) * J i)).sum / (l.length : ℝ)) θ₀ := by
  have hs := (hasDerivAt_list_sum l (fun i θ => |ρ i θ|) (fun i => Real.sign (ρ i θ₀) * J i) θ₀
    (fun i hi => (hasDerivAt_abs_sign (h0 i hi)).comp θ₀ (h i hi))).div_const (l.length : ℝ)
  refine hs.congr_of_eventuallyEq (Filter.Eventually.of_forall fun θ => ?_)
  exact maeV_map l (fun i => ρ i θ)

theorem hasDerivAt_mse (h : ∀ i ∈ l, HasDerivAt (ρ i) (J i) θ₀) :
    HasDerivAt (fun θ => mseV (l.map (fun i => ρ i θ)))
      (2 * ((l.map (fun i => ρ i θ₀ * J i)).sum / (l.length : ℝ))) θ₀ := by
  have hs := (hasDerivAt_list_sum l (fun i θ => ρ i θ ^ 2) (fun i => 2 * (ρ i θ₀ * J i)) θ₀
    (fun i hi => by
      have := ((h i hi).mul (h i hi)).congr_deriv
        (show J i * ρ i θ₀ + ρ i θ₀ * J i = 2 * (ρ i θ₀ * J i) by ring)
      simp only [sq]
      exact this)).div_const (l.length : ℝ)
  have hd : (l.map (fun i => 2 * (ρ i θ₀ * J i))).sum / (l.length : ℝ)
      = 2 * ((l.map (fun i => ρ i θ₀ * J i)).sum / (l.length : ℝ)) := by
    rw [List.sum_map_mul_left, mul_div_assoc]
  rw [hd] at hs
  refine hs.congr_of_eventuallyEq (Filter.Eventually.of_forall fun θ => ?_)
  exact mseV_map l (fun i => ρ i θ)

theorem hasDerivAt_rmse (h : ∀ i ∈ l, HasDerivAt (ρ i) (J i) θ₀)
    (hpos : 0 < mseV (l.map (fun i => ρ i θ₀))) :
    HasDerivAt (fun θ => rmseV (l.map (fun i => ρ i θ)))
      (1 / Real.sqrt (mseV (l.map (fun i => ρ i θ₀))) *
        ((l.map (fun i => ρ i θ₀ * J i)).sum / (l.length : ℝ))) θ₀ := by
  have hs := (hasDerivAt_mse l ρ J θ₀ h).sqrt hpos.ne'
  unfold rmseV
  convert hs using 1
  have : Real.sqrt (mseV (l.map (fun i => ρ i θ₀))) ≠ 0 := (Real.sqrt_pos.2 hpos).ne'
  field_simp

theorem hasDerivAt_nmll (L : ℕ) (h : ∀ i ∈ l, HasDerivAt (ρ i) (J i) θ₀)
    (hpos : 0 < mseV (l.map (fun i => ρ i θ₀))) :
    HasDerivAt (fun θ => nmllOf l.length L (mseV (l.map (fun i => ρ i θ))))
      (-((1 - 1 / Real.sqrt (l.length : ℝ)) *
        (-1 / 2 * (l.length : ℝ) *
          (2 * ((l.map (fun i => ρ i θ₀ * J i)).sum / (l.length : ℝ))) /
            mseV (l.map (fun i => ρ i θ₀))))) θ₀ := by
  have hlog := (hasDerivAt_mse l ρ J θ₀ h).log hpos.ne'
  have h1 := ((((hlog.const_mul (-((l.length : ℝ) / 2))).sub_const ((l.length : ℝ) / 2)).sub_const
    (((l.length : ℝ) / 2) * Real.log (2 * Real.pi))).const_mul
      (1 - 1 / Real.sqrt (l.length : ℝ))).add_const
        (Real.log (1 / Real.sqrt (l.length : ℝ)) / 2 * ((L : ℝ) + 1))
  have h2 := h1.neg
  unfold nmllOf
  exact h2.congr_deriv (by ring)

end

end Metrics
end Bingo
