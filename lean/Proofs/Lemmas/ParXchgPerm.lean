import Proofs.Lemmas.ParXchgSafe
import Mathlib.Data.List.Perm.Subperm
import Mathlib.Data.List.Nodup
/-!
# C11 (parallel clause) -- the exchange only permutes the individuals

`(List.range R).map (result P pops0)` (what the islands hold after the exchange) flattened is a
permutation of `pops0.flatten`: every rank keeps one part and receives the part its partner dumped, and
the partner relation is an involution on the ranks.
-/
namespace Bingo
namespace ParXchg
open ParArch

variable {P : Nat → Option Nat} {pops0 : List (List Nat)} {R : Nat}

theorem halfRound_le (n : Nat) : halfRound n ≤ n := by
  unfold halfRound
  simp only
  split
  · omega
  · split <;> omega

/-- a map that is an involution on the ranks `< R` permutes them -/
theorem range_map_involution (f : Nat → Nat) (R : Nat) (hlt : ∀ r, r < R → f r < R)
    (hinv : ∀ r, r < R → f (f r) = r) : ((List.range R).map f).Perm (List.range R) := by
  apply List.Subperm.perm_of_length_le
  · apply List.subperm_of_subset
    · apply List.Nodup.map_on _ List.nodup_range
      intro x hx y hy hxy
      rw [← hinv x (List.mem_range.mp hx), ← hinv y (List.mem_range.mp hy), hxy]
    · intro y hy
      obtain ⟨x, hx, rfl⟩ := List.mem_map.mp hy
      exact List.mem_range.mpr (hlt x (List.mem_range.mp hx))
  · simp

theorem flatten_map_append {α β : Type} (l : List α) (f g : α → List β) :
    (l.map fun r => f r ++ g r).flatten.Perm ((l.map f).flatten ++ (l.map g).flatten) := by
  induction l with
  | nil => simp
  | cons x xs ih =>
    simp only [List.map_cons, List.flatten_cons, List.append_assoc]
    refine List.Perm.append_left _ ?_
    refine (List.Perm.append_left _ ih).trans ?_
    rw [← List.append_assoc, ← List.append_assoc]
    exact List.Perm.append_right _ List.perm_append_comm

/-- the partner as a total map: ranks without partner are fixed -/
def sigma (P : Nat → Option Nat) (r : Nat) : Nat := (P r).getD r

theorem result_eq (r : Nat) : result P pops0 r = keep P pops0 r ++ dump P pops0 (sigma P r) := by
  unfold result sigma
  cases h : P r with
  | some p => rfl
  | none => simp [dump, h]

theorem keep_dump_perm (r : Nat) : (keep P pops0 r ++ dump P pops0 r).Perm (pops0.getD r []) := by
  unfold keep dump
  simp only
  split
  · exact List.perm_append_comm.trans (by rw [List.take_append_drop])
  · simp

theorem flatten_getD (l : List (List Nat)) : ((List.range l.length).map fun r => l.getD r []).flatten = l.flatten := by
  congr 1
  apply List.ext_getElem
  · simp
  · intro i h1 h2
    simp [List.getD, h2]

/-- C11 (parallel clause): the individuals after the exchange are those before it -/
theorem result_perm (hm : Matching P R) (hlen : pops0.length = R) :
    ((List.range R).map (result P pops0)).flatten.Perm pops0.flatten := by
  have hs : ((List.range R).map (sigma P)).Perm (List.range R) := by
    apply range_map_involution
    · intro r hr
      unfold sigma
      cases h : P r with
      | none => exact hr
      | some p => exact hm.lt p r (hm.sym r p h)
    · intro r hr
      unfold sigma
      cases h : P r with
      | none => simp [h]
      | some p => simp [hm.sym r p h]
  have h1 : ((List.range R).map (result P pops0)).flatten.Perm
      (((List.range R).map (keep P pops0)).flatten ++
        ((List.range R).map fun r => dump P pops0 (sigma P r)).flatten) := by
    have : result P pops0 = fun r => keep P pops0 r ++ dump P pops0 (sigma P r) := funext result_eq
    rw [this]; exact flatten_map_append _ _ _
  have h2 : ((List.range R).map fun r => dump P pops0 (sigma P r)).flatten.Perm
      ((List.range R).map (dump P pops0)).flatten := by
    have : ((List.range R).map fun r => dump P pops0 (sigma P r)) =
        ((List.range R).map (sigma P)).map (dump P pops0) := by simp
    rw [this]; exact (hs.map _).flatten
  have h3 := (flatten_map_append (List.range R) (keep P pops0) (dump P pops0)).symm
  have h4 : ((List.range R).map fun r => keep P pops0 r ++ dump P pops0 r).flatten.Perm
      ((List.range R).map fun r => pops0.getD r []).flatten := by
    generalize List.range R = l
    induction l with
    | nil => simp
    | cons x xs ih =>
      simp only [List.map_cons, List.flatten_cons]
      exact (keep_dump_perm x).append ih
  have h5 := flatten_getD pops0
  rw [hlen] at h5
  rw [← h5]
  exact h1.trans ((List.Perm.append_left _ h2).trans (h3.trans h4))

/-! ## the executable multiset comparison `sortNats` -/

theorem ins_comm (x y : Nat) (l : List Nat) :
    sortNats.ins x (sortNats.ins y l) = sortNats.ins y (sortNats.ins x l) := by
  induction l with
  | nil =>
    simp only [sortNats.ins]
    by_cases h1 : x ≤ y <;> by_cases h2 : y ≤ x <;> simp [h1, h2] <;> omega
  | cons z zs ih =>
    simp only [sortNats.ins]
    by_cases h1 : x ≤ y <;> by_cases h2 : y ≤ x <;> by_cases h3 : x ≤ z <;> by_cases h4 : y ≤ z <;>
      simp [sortNats.ins, h1, h2, h3, h4, ih] <;> omega

theorem sortNats_perm {l1 l2 : List Nat} (h : l1.Perm l2) : sortNats l1 = sortNats l2 := by
  induction h with
  | nil => rfl
  | cons x _ ih => simp only [sortNats, ih]
  | swap x y l => simp only [sortNats]; exact ins_comm y x _
  | trans _ _ ih1 ih2 => exact ih1.trans ih2

end ParXchg
end Bingo
