import Proofs.Lemmas.CasInterpBase
/-!
# Source side of the simplifier: `build_cas_expression` (command array → CAS expression)

On a well-formed stack (`WF.WFEval D L s`) the pass terminates (`buildCas_some`), produces an
expression of the fragment `Ok true _` when there is no `POWER`/`SAFE_POWER` row (`buildCas_ok`), and
wherever that expression has a (conventional, partial) meaning the stack evaluates to the same
number (`buildCas_den`, `buildCas_den_noconst`).
-/
namespace Bingo
namespace CasInterp
open Gen.OpDefs Cas Cas.Expr ETree

/-- no row is a `POWER` / `SAFE_POWER` row -/
def NoPowRows (s : Stack) : Prop := ∀ cmd ∈ s, cmd.node ≠ POWER ∧ cmd.node ≠ SAFE_POWER

/-- `v` is the location of a `CONSTANT` row of `s` -/
def constRow (s : Stack) (v : Int) : Bool :=
  decide (0 ≤ v) && (match s[v.toNat]? with
    | some c => c.node == CONSTANT
    | none => false)

/-- the terminals `build_cas_expression s` can produce: variables below `D`, and `CONSTANT` terminals
whose id is the location of a `CONSTANT` row of `s` -/
def termsOf (D : Nat) (s : Stack) (o v : Int) : Bool :=
  varsBelow D o v || (o == CONSTANT && constRow s v)

/-- value of the CAS constant with id `loc` (= the location of a `CONSTANT` row of `s`): the constant
`c[p1]` that row loads; `0` if `loc` is not such a row -/
noncomputable def cvOf (s : Stack) (c : List ℝ) (loc : Int) : ℝ :=
  match s[loc.toNat]? with
  | some cmd => ((pyIdx c.length cmd.p1).bind (c[·]?)).getD 0
  | none => 0

/-- `cv` gives every `CONSTANT` row location the value that row loads from `c` -/
def CvOK (s : Stack) (c : List ℝ) (cv : Int → ℝ) : Prop :=
  ∀ (i : Nat) (cmd : Cmd), s[i]? = some cmd → cmd.node = CONSTANT →
    (pyIdx c.length cmd.p1).bind (c[·]?) = some (cv (i : Int))

theorem getElem?_lt {α : Type} {l : List α} {j : Nat} {c : α} (h : l[j]? = some c) :
    j < l.length := by
  by_contra hn
  rw [List.getElem?_eq_none (by omega)] at h; cases h

theorem cvOf_ok {D L : Nat} {s : Stack} (hwf : WF.WFEval D L s) {c : List ℝ} (hc : c.length = L) :
    CvOK s c (cvOf s c) := by
  intro i cmd hget hnode
  have hrow := ReduceLemmas.wf_rowOK hwf hget
  unfold WF.rowOK at hrow
  have ht : Ops.isTerminal cmd.node = some true := by rw [hnode]; decide
  have ha : Ops.isArity2 cmd.node = some false := by rw [hnode]; decide
  simp only [ht, ha] at hrow
  rw [if_neg (by rw [hnode]; decide), if_pos hnode] at hrow
  simp only [Bool.and_eq_true, decide_eq_true_eq] at hrow
  have hlt : cmd.p1.toNat < c.length := by omega
  have h1 : (pyIdx c.length cmd.p1).bind (c[·]?) = some c[cmd.p1.toNat] := by
    rw [pyIdx_of_lt hrow.1 hlt]; simp [hlt]
  rw [h1]
  simp [cvOf, hget, h1]

theorem pure_eq_ok {α : Type} (a : α) : (pure a : R α) = .ok a := rfl

/-- one unfolding of `_build_expresion_recursive` at an in-range location -/
theorem buildRec_step {s : Stack} {i : Nat} {cmd : Cmd} (h : s[i]? = some cmd) (fuel : Nat)
    (np : Bool) :
    buildExpressionRec s (fuel + 1) (i : Int) np =
      (match Ops.isTerminal cmd.node, Ops.isArity2 cmd.node with
      | some true, some _ =>
        if cmd.node = CONSTANT then pure (term cmd.node (i : Int) np)
        else if cmd.node = INTEGER then pure (term cmd.node cmd.p1 false)
        else pure (term cmd.node cmd.p1 true)
      | some false, some arity2 => do
        let a ← buildExpressionRec s fuel cmd.p1 true
        if arity2 then do
          let b ← buildExpressionRec s fuel cmd.p2 true
          pure (node cmd.node [a, b])
        else pure (node cmd.node [a])
      | _, _ => throw "KeyError") := by
  have hi := getElem?_lt h
  have h1 : (pyIdx s.length (i : Int)).bind (s[·]?) = some cmd := by
    have := ReduceLemmas.pyIdx_ofNat hi
    rw [show (Int.ofNat i) = (i : Int) from rfl] at this
    rw [this]; exact h
  rw [buildExpressionRec]
  simp only [h1]
  cases Ops.isTerminal cmd.node with
  | none => rfl
  | some t => cases t <;> cases Ops.isArity2 cmd.node <;> rfl

/-- the induction: row `i` of a well-formed stack is translated (with enough fuel) into an
expression of the fragment whose meaning is the meaning of the row -/
theorem buildRec_spec {D L : Nat} {s : Stack} (hwf : WF.WFEval D L s) :
    ∀ (i : Nat), i < s.length → ∀ (fuel : Nat), i + 1 ≤ fuel → ∀ (np : Bool),
      ∃ e, buildExpressionRec s fuel (i : Int) np = .ok e ∧
        (NoPowRows s → Ok true (termsOf D s) e = true) ∧
        (∀ (x c : List ℝ) (cv : Int → ℝ) (v : ℝ), x.length = D → CvOK s c cv →
          e.den x cv = some v → RowDen (MathSem.leaf x c) s i v) := by
  intro i
  induction i using Nat.strong_induction_on with
  | _ i ih =>
    intro hi fuel hf np
    obtain ⟨fuel, rfl⟩ : ∃ f, fuel = f + 1 := ⟨fuel - 1, by omega⟩
    have hget : s[i]? = some s[i] := List.getElem?_eq_getElem hi
    generalize s[i] = cmd at hget
    have hrow := ReduceLemmas.wf_rowOK hwf hget
    have hmem : cmd ∈ s := List.mem_of_getElem? hget
    rw [buildRec_step hget]
    unfold WF.rowOK at hrow
    split at hrow
    · -- a terminal row
      rename_i ht ha
      simp only [ht, ha]
      by_cases hv : cmd.node = VARIABLE
      · rw [if_pos hv] at hrow
        simp only [Bool.and_eq_true, decide_eq_true_eq] at hrow
        rw [if_neg (by rw [hv]; decide), if_neg (by rw [hv]; decide)]
        refine ⟨_, rfl, fun _ => ?_, ?_⟩
        · rw [Ok_term]; right
          simp [termsOf, varsBelow, hv, hrow.1, hrow.2]
        · intro x c cv v hx hcv hden
          rw [hv, den_var] at hden
          refine .leaf hget ht ha ?_
          rw [hv]; unfold MathSem.leaf
          rw [if_neg (by decide), if_pos rfl]; exact hden
      · rw [if_neg hv] at hrow
        by_cases hc : cmd.node = CONSTANT
        · rw [if_pos hc]
          refine ⟨_, rfl, fun _ => ?_, ?_⟩
          · rw [Ok_term]; right
            simp [termsOf, constRow, hc, hget]
          · intro x c cv v hx hcv hden
            rw [hc, den_const] at hden
            refine .leaf hget ht ha ?_
            have := hcv i cmd hget hc
            rw [hc]; unfold MathSem.leaf
            rw [if_neg (by decide), if_neg (by decide), if_pos rfl, this]; exact hden
        · rw [if_neg hc] at hrow ⊢
          have hI : cmd.node = INTEGER := by simpa using hrow
          rw [if_pos hI]
          refine ⟨_, rfl, fun _ => ?_, ?_⟩
          · rw [Ok_term]; exact .inl hI
          · intro x c cv v hx hcv hden
            rw [hI, den_int] at hden
            refine .leaf hget ht ha ?_
            rw [hI]; unfold MathSem.leaf
            rw [if_pos rfl]; exact hden
    · -- an operator row
      rename_i b ht ha
      simp only [Bool.and_eq_true, decide_eq_true_eq, Bool.and_true] at hrow
      obtain ⟨⟨⟨h10, h1i⟩, h20⟩, h2i⟩ := hrow
      have e1 : ((cmd.p1.toNat : Nat) : Int) = cmd.p1 := Int.toNat_of_nonneg h10
      have e2 : ((cmd.p2.toNat : Nat) : Int) = cmd.p2 := Int.toNat_of_nonneg h20
      obtain ⟨ea, hea, hoka, hdena⟩ := ih cmd.p1.toNat (by omega) (by omega) fuel (by omega) true
      obtain ⟨eb, heb, hokb, hdenb⟩ := ih cmd.p2.toNat (by omega) (by omega) fuel (by omega) true
      rw [e1] at hea
      rw [e2] at heb
      simp only [ht, ha, hea]
      cases b with
      | true =>
        refine ⟨node cmd.node [ea, eb], by simp [heb, bind, Except.bind, pure_eq_ok],
          fun hnp => ?_, ?_⟩
        · rw [Ok_node]
          refine ⟨?_, ?_⟩
          · simp [shapeOK, (hnp cmd hmem).1, (hnp cmd hmem).2, ht]
          · intro e he
            simp only [List.mem_cons, List.not_mem_nil, or_false] at he
            rcases he with rfl | rfl
            · exact hoka hnp
            · exact hokb hnp
        · intro x c cv v hx hcv hden
          obtain ⟨va, vb, hva, hvb, hbin⟩ := den_node2_sound x cv hden
          exact .bin hget ht ha h10 (by omega) h20 (by omega) (hdena x c cv va hx hcv hva)
            (hdenb x c cv vb hx hcv hvb) hbin
      | false =>
        have hA : cmd.node ≠ ADDITION := by
          intro h; rw [h] at ha; exact absurd ha (by decide)
        have hM : cmd.node ≠ MULTIPLICATION := by
          intro h; rw [h] at ha; exact absurd ha (by decide)
        refine ⟨node cmd.node [ea], by simp [bind, Except.bind, pure_eq_ok], fun hnp => ?_, ?_⟩
        · rw [Ok_node]
          refine ⟨?_, ?_⟩
          · simp [shapeOK, (hnp cmd hmem).1, (hnp cmd hmem).2, ht, hA, hM]
          · intro e he
            simp only [List.mem_cons, List.not_mem_nil, or_false] at he
            subst he
            exact hoka hnp
        · intro x c cv v hx hcv hden
          obtain ⟨va, hva, hun⟩ := den_node1_sound x cv hA hM hden
          exact .un hget ht ha h10 (by omega) (hdena x c cv va hx hcv hva) hun
    · cases hrow

theorem wf_length_pos {D : Nat} {L : Option Nat} {ops : Option (List Int)} {s : Stack}
    (h : WF.wf D L ops s = true) : 0 < s.length :=
  List.length_pos_iff.mpr (ReduceLemmas.wf_ne h)

/-- the whole pass, from the last row -/
theorem buildCas_spec {D L : Nat} {s : Stack} (hwf : WF.WFEval D L s) :
    ∃ e, buildCasExpression s = .ok e ∧
      (NoPowRows s → Ok true (termsOf D s) e = true) ∧
      (∀ (x c : List ℝ) (cv : Int → ℝ) (v : ℝ), x.length = D → CvOK s c cv →
        e.den x cv = some v → MathSem.den x c (ofStack s) = some v) := by
  have hpos := wf_length_pos hwf
  obtain ⟨e, he, hok, hden⟩ := buildRec_spec hwf (s.length - 1) (by omega) (s.length + 1)
    (by omega) false
  have e1 : ((s.length - 1 : Nat) : Int) = Int.ofNat s.length - 1 := by
    simp only [Int.ofNat_eq_natCast]; omega
  refine ⟨e, ?_, hok, ?_⟩
  · unfold buildCasExpression; rw [← e1]; exact he
  · intro x c cv v hx hcv hd
    rw [ofStack_eq, ← gden_math]
    exact (hden x c cv v hx hcv hd).trees

/-! ## the theorems -/

/-- A3: on a well-formed stack `build_cas_expression` terminates without raising -/
theorem buildCas_some {D L : Nat} {s : Stack} (hwf : WF.WFEval D L s) :
    ∃ e, buildCasExpression s = .ok e :=
  let ⟨e, he, _⟩ := buildCas_spec hwf
  ⟨e, he⟩

/-- A1, with constants: the result is in the fragment; its terminals are variables below `D` and
`CONSTANT` terminals whose id is the location of a `CONSTANT` row -/
theorem buildCas_ok_gen {D L : Nat} {s : Stack} {e : Expr} (hwf : WF.WFEval D L s)
    (hnp : NoPowRows s) (he : buildCasExpression s = .ok e) :
    Ok true (termsOf D s) e = true := by
  obtain ⟨e', he', hok, _⟩ := buildCas_spec hwf
  rw [he] at he'; cases he'
  exact hok hnp

/-- a stack that is well-formed for `L = 0` constants has no `CONSTANT` row -/
theorem no_const_row {D : Nat} {s : Stack} (hwf : WF.WFEval D 0 s) {i : Nat} {cmd : Cmd}
    (hget : s[i]? = some cmd) : cmd.node ≠ CONSTANT := by
  intro hnode
  have hrow := ReduceLemmas.wf_rowOK hwf hget
  unfold WF.rowOK at hrow
  have ht : Ops.isTerminal cmd.node = some true := by rw [hnode]; decide
  have ha : Ops.isArity2 cmd.node = some false := by rw [hnode]; decide
  simp only [ht, ha] at hrow
  rw [if_neg (by rw [hnode]; decide), if_pos hnode] at hrow
  simp only [Bool.and_eq_true, decide_eq_true_eq] at hrow
  omega

/-- A1: without constants (`L = 0`) the result is a constant-free expression of the fragment -/
theorem buildCas_ok {D : Nat} {s : Stack} {e : Expr} (hwf : WF.WFEval D 0 s) (hnp : NoPowRows s)
    (he : buildCasExpression s = .ok e) : Ok true (varsBelow D) e = true := by
  refine Ok_mono ?_ (buildCas_ok_gen hwf hnp he)
  intro o v h
  simp only [termsOf, Bool.or_eq_true, Bool.and_eq_true, beq_iff_eq] at h
  rcases h with h | ⟨_, h⟩
  · exact h
  · exfalso
    simp only [constRow, Bool.and_eq_true, decide_eq_true_eq] at h
    cases hg : s[v.toNat]? with
    | none => simp [hg] at h
    | some c =>
      simp only [hg, beq_iff_eq] at h
      exact no_const_row hwf hg h.2

/-- A2 (L1a): wherever the CAS expression has a meaning (constant id `loc` read as the constant the
`CONSTANT` row `loc` loads), the stack evaluates to that number.  No hypothesis on `POWER` rows. -/
theorem buildCas_den {D L : Nat} {s : Stack} {e : Expr} {x c : List ℝ} {v : ℝ}
    (hwf : WF.WFEval D L s) (he : buildCasExpression s = .ok e) (hx : x.length = D)
    (hc : c.length = L) (hd : e.den x (cvOf s c) = some v) :
    MathSem.den x c (ofStack s) = some v := by
  obtain ⟨e', he', _, hden⟩ := buildCas_spec hwf
  rw [he] at he'; cases he'
  exact hden x c (cvOf s c) v hx (cvOf_ok hwf hc) hd

/-- A2 without constants: any valuation `cv` of constant ids will do, none occurs -/
theorem buildCas_den_noconst {D : Nat} {s : Stack} {e : Expr} {x : List ℝ} {cv : Int → ℝ} {v : ℝ}
    (hwf : WF.WFEval D 0 s) (he : buildCasExpression s = .ok e) (hx : x.length = D)
    (hd : e.den x cv = some v) : MathSem.den x [] (ofStack s) = some v := by
  obtain ⟨e', he', _, hden⟩ := buildCas_spec hwf
  rw [he] at he'; cases he'
  refine hden x [] cv v hx ?_ hd
  intro i cmd hget hnode
  exact absurd hnode (no_const_row hwf hget)

end CasInterp
end Bingo
