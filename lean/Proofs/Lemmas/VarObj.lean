import Model.Generated.VariationGen
import Model.Variation
/-!
# Object-level facts of crossover and mutation (ages, evaluated flag), for the regenerated bodies
-/
namespace Bingo
namespace VarObjLemmas
open VarObj AG

variable {V : Type}

/-- the regenerated crossover body, run on parents of equal length with a draw in the RNG's range -/
theorem crossoverObj_gen (p1 p2 : St V) (cut : Nat) (hlen : p1.cmd.length = p2.cmd.length)
    (h1 : 1 ≤ cut) (h2 : cut < p1.cmd.length - 1) :
    crossoverObj Gen.Variation.crossoverOps p1 p2 cut =
      some ({ notify p1 with cmd := p1.cmd.take cut ++ p2.cmd.drop cut, age := max p1.age p2.age },
            { notify p2 with cmd := p2.cmd.take cut ++ p1.cmd.drop cut, age := max p1.age p2.age }) := by
  have h2' : cut < p2.cmd.length - 1 := hlen ▸ h2
  simp [crossoverObj, Gen.Variation.crossoverOps, xrun, xstep, pick, XSt.setChild, XSt.child, tailStore,
    AG.copy, hlen, h1, h2', notify]

/-- unequal lengths: the second slice assignment (or the first) raises; no children are returned -/
theorem crossoverObj_gen_unequal (p1 p2 : St V) (cut : Nat) (hlen : p1.cmd.length ≠ p2.cmd.length) :
    crossoverObj Gen.Variation.crossoverOps p1 p2 cut = none := by
  simp only [crossoverObj, Gen.Variation.crossoverOps, xrun, xstep, pick, XSt.setChild, XSt.child, tailStore,
    AG.copy, Option.bind_eq_bind, Option.pure_def, Option.bind_some, Option.isSome_none, Bool.false_eq_true,
    if_false]
  by_cases hc : 1 ≤ cut ∧ cut < p1.cmd.length - 1
  · simp [hc, hlen]
  · simp [hc]

/-- a draw outside `[1, size-1)` never comes out of `np.random.randint(1, size-1)`; the model has no result -/
theorem crossoverObj_gen_bad_draw (p1 p2 : St V) (cut : Nat) (h : ¬ (1 ≤ cut ∧ cut < p1.cmd.length - 1)) :
    crossoverObj Gen.Variation.crossoverOps p1 p2 cut = none := by
  simp [crossoverObj, Gen.Variation.crossoverOps, xrun, xstep, pick, XSt.setChild, AG.copy, h]

/-- writes through the mutable view: the age never changes -/
theorem applyWrites_age (c : St V) (w : Writes) : (applyWrites c w).age = c.age := by
  induction w generalizing c with
  | nil => rfl
  | cons p rest ih => simp only [applyWrites, List.foldl_cons] at ih ⊢; rw [ih]; rfl

/-- at least one write through the mutable view clears the evaluated flag and the stored fitness -/
theorem applyWrites_flag (c : St V) (w : Writes) (h : w ≠ []) :
    (applyWrites c w).fitSet = false ∧ (applyWrites c w).fit = none := by
  induction w generalizing c with
  | nil => exact absurd rfl h
  | cons p rest ih =>
    simp only [applyWrites, List.foldl_cons] at ih ⊢
    cases rest with
    | nil => simp [editRow, notify]
    | cons q rest' => exact ih _ (by simp)

theorem mutationObj_gen (parent : St V) (w : Writes) :
    mutationObj Gen.Variation.mutationOps parent w = some (applyWrites (AG.copy parent) w) := by
  simp [mutationObj, mutationObj.go, Gen.Variation.mutationOps]

end VarObjLemmas
end Bingo
