import Model.Generated.Metrics
import Proofs.Lemmas.RealScalar
/-!
# C07, evaluation side: what the generated metric / derivative functions compute over `ℝ`

Closed forms of `VFun.eval` on the eight generated `VFun`s.  The interpreter sums with
`foldl` from `0`; `sumList_real` relates that to `List.sum`.
-/
namespace Bingo
namespace Metrics

section ScalarReal
@[simp] lemma ofInt_real (n : Int) : (Scalar.ofInt n : ℝ) = (n : ℝ) := rfl
@[simp] lemma add_real (a b : ℝ) : Scalar.add a b = a + b := rfl
@[simp] lemma sub_real (a b : ℝ) : Scalar.sub a b = a - b := rfl
@[simp] lemma mul_real (a b : ℝ) : Scalar.mul a b = a * b := rfl
@[simp] lemma div_real (a b : ℝ) : Scalar.div a b = a / b := rfl
@[simp] lemma log_real (a : ℝ) : Scalar.log a = Real.log a := rfl
@[simp] lemma abs_real (a : ℝ) : Scalar.abs a = |a| := rfl
@[simp] lemma sqrt_real (a : ℝ) : Scalar.sqrt a = Real.sqrt a := rfl
@[simp] lemma sign_real (a : ℝ) : Scalar.sign a = Real.sign a := rfl
@[simp] lemma add_real' : (Scalar.add : ℝ → ℝ → ℝ) = fun a b => a + b := rfl
@[simp] lemma sub_real' : (Scalar.sub : ℝ → ℝ → ℝ) = fun a b => a - b := rfl
@[simp] lemma mul_real' : (Scalar.mul : ℝ → ℝ → ℝ) = fun a b => a * b := rfl
@[simp] lemma div_real' : (Scalar.div : ℝ → ℝ → ℝ) = fun a b => a / b := rfl
@[simp] lemma applyFn_abs : (VExpr.applyFn .abs : ℝ → ℝ) = fun x => |x| := rfl
@[simp] lemma applyFn_sqrt : (VExpr.applyFn .sqrt : ℝ → ℝ) = Real.sqrt := rfl
@[simp] lemma applyFn_log : (VExpr.applyFn .log : ℝ → ℝ) = Real.log := rfl
@[simp] lemma applyFn_sign : (VExpr.applyFn .sign : ℝ → ℝ) = Real.sign := rfl
@[simp] lemma applyFn_square : (VExpr.applyFn .square : ℝ → ℝ) = fun x => x ^ 2 := by
  funext x; simp [VExpr.applyFn, sq]
end ScalarReal

lemma foldl_add_real (xs : List ℝ) (a : ℝ) : xs.foldl Scalar.add a = a + xs.sum := by
  induction xs generalizing a with
  | nil => simp
  | cons x xs ih => rw [List.foldl_cons, ih, add_real, List.sum_cons, add_assoc]

/-- the interpreter's left fold from `0` is the sum of the list -/
@[simp] lemma sumList_real (xs : List ℝ) : VExpr.sumList xs = xs.sum := by
  rw [VExpr.sumList, foldl_add_real, ofInt_real, Int.cast_zero, zero_add]

/-! ### closed forms used in the statements -/

/-- mean of `|rᵢ|` -/
noncomputable def maeV (r : List ℝ) : ℝ := (r.map (|·|)).sum / (r.length : ℝ)
/-- mean of `rᵢ²` -/
noncomputable def mseV (r : List ℝ) : ℝ := (r.map (· ^ 2)).sum / (r.length : ℝ)
/-- root of the mean of `rᵢ²` -/
noncomputable def rmseV (r : List ℝ) : ℝ := Real.sqrt (mseV r)
/-- the NMLL fitness as a function of the sample size `M`, the number of constants `L` and the
mean squared error `m` -/
noncomputable def nmllOf (M L : ℕ) (m : ℝ) : ℝ :=
  -((1 - 1 / Real.sqrt M) *
        (-((M : ℝ) / 2) * Real.log m - (M : ℝ) / 2 - ((M : ℝ) / 2) * Real.log (2 * Real.pi))
      + Real.log (1 / Real.sqrt M) / 2 * ((L : ℝ) + 1))

/-- unfold the interpreter on a concrete `VFun` over `ℝ` without touching the arithmetic -/
local macro "veval" : tactic => `(tactic|
  simp only [VFun.eval, VFun.evalLets, Gen.Metrics.mae, Gen.Metrics.mse, Gen.Metrics.rmse,
    Gen.Metrics.nmll, Gen.Metrics.dmae, Gen.Metrics.dmse, Gen.Metrics.drmse, Gen.Metrics.dnmll,
    VExpr.interp, VExpr.lift1, VExpr.lift2, VExpr.meanVal, List.lookup, bind, pure,
    Option.bind_some, applyFn_abs, applyFn_sqrt, applyFn_log, applyFn_square, applyFn_sign,
    add_real', sub_real', mul_real', div_real', ofInt_real, sumList_real, List.length_map,
    List.length_zipWith, String.reduceBEq, Int.cast_natCast, Int.cast_ofNat, Int.cast_one,
    Int.cast_zero, Int.cast_neg, Int.ofNat_eq_natCast, Nat.cast_one, div_one, zero_sub])

/-! ### the four metrics -/

theorem eval_mae (r P : List ℝ) (L : ℕ) (p : ℝ) :
    VFun.eval Gen.Metrics.mae r P L p = some ((r.map (|·|)).sum / (r.length : ℝ)) := by
  veval

theorem eval_mse (r P : List ℝ) (L : ℕ) (p : ℝ) :
    VFun.eval Gen.Metrics.mse r P L p = some ((r.map (· ^ 2)).sum / (r.length : ℝ)) := by
  veval

theorem eval_rmse (r P : List ℝ) (L : ℕ) (p : ℝ) :
    VFun.eval Gen.Metrics.rmse r P L p =
      some (Real.sqrt ((r.map (· ^ 2)).sum / (r.length : ℝ))) := by
  veval

theorem eval_nmll (r P : List ℝ) (L : ℕ) :
    VFun.eval Gen.Metrics.nmll r P L Real.pi = some (nmllOf r.length L (mseV r)) := by
  veval
  unfold nmllOf mseV
  congr 1
  ring

/-! ### the four derivative functions (for one constant; `P` is its row of partials) -/

theorem eval_dmae (r P : List ℝ) (L : ℕ) (p : ℝ) (hP : P.length = r.length) :
    VFun.eval Gen.Metrics.dmae r P L p =
      some ((List.zipWith (fun a b => a * b) (r.map Real.sign) P).sum / (r.length : ℝ)) := by
  veval
  simp [hP]

theorem eval_dmse (r P : List ℝ) (L : ℕ) (p : ℝ) (hP : P.length = r.length) :
    VFun.eval Gen.Metrics.dmse r P L p =
      some (2 * ((List.zipWith (fun a b => a * b) r P).sum / (r.length : ℝ))) := by
  veval
  simp [hP]

theorem eval_drmse (r P : List ℝ) (L : ℕ) (p : ℝ) (hP : P.length = r.length) :
    VFun.eval Gen.Metrics.drmse r P L p =
      some (1 / Real.sqrt (mseV r) *
        ((List.zipWith (fun a b => a * b) r P).sum / (r.length : ℝ))) := by
  veval
  simp [hP, mseV]

theorem eval_dnmll (r P : List ℝ) (L : ℕ) (p : ℝ) (hP : P.length = r.length) :
    VFun.eval Gen.Metrics.dnmll r P L p =
      some (-((1 - 1 / Real.sqrt (r.length : ℝ)) *
        (-1 / 2 * (r.length : ℝ) *
          (2 * ((List.zipWith (fun a b => a * b) r P).sum / (r.length : ℝ))) / mseV r))) := by
  veval
  simp [hP, mseV]

/-! ### residuals and partials given by index: `r = l.map a`, `P = l.map J` -/

lemma zipWith_map_map {ι : Type} (f : ℝ → ℝ → ℝ) (a b : ι → ℝ) (l : List ι) :
    List.zipWith f (l.map a) (l.map b) = l.map (fun i => f (a i) (b i)) := by
  induction l with
  | nil => rfl
  | cons x xs ih => simp [ih]

variable {ι : Type}

theorem eval_dmae_map (l : List ι) (a J : ι → ℝ) (L : ℕ) (p : ℝ) :
    VFun.eval Gen.Metrics.dmae (l.map a) (l.map J) L p =
      some ((l.map (fun i => Real.sign (a i) * J i)).sum / (l.length : ℝ)) := by
  rw [eval_dmae _ _ _ _ (by simp), List.map_map, zipWith_map_map]
  simp

theorem eval_dmse_map (l : List ι) (a J : ι → ℝ) (L : ℕ) (p : ℝ) :
    VFun.eval Gen.Metrics.dmse (l.map a) (l.map J) L p =
      some (2 * ((l.map (fun i => a i * J i)).sum / (l.length : ℝ))) := by
  rw [eval_dmse _ _ _ _ (by simp), zipWith_map_map]
  simp

theorem eval_drmse_map (l : List ι) (a J : ι → ℝ) (L : ℕ) (p : ℝ) :
    VFun.eval Gen.Metrics.drmse (l.map a) (l.map J) L p =
      some (1 / Real.sqrt (mseV (l.map a)) *
        ((l.map (fun i => a i * J i)).sum / (l.length : ℝ))) := by
  rw [eval_drmse _ _ _ _ (by simp), zipWith_map_map]
  simp

theorem eval_dnmll_map (l : List ι) (a J : ι → ℝ) (L : ℕ) (p : ℝ) :
    VFun.eval Gen.Metrics.dnmll (l.map a) (l.map J) L p =
      some (-((1 - 1 / Real.sqrt (l.length : ℝ)) *
        (-1 / 2 * (l.length : ℝ) *
          (2 * ((l.map (fun i => a i * J i)).sum / (l.length : ℝ))) / mseV (l.map a)))) := by
  rw [eval_dnmll _ _ _ _ (by simp), zipWith_map_map]
  simp

end Metrics
end Bingo
