import Proofs.Lemmas.StrRef
import Proofs.Lemmas.StrShunt
import Proofs.Lemmas.StrTokens
/-!
# The sympy round trip at token level (C16 C, D, E)

* `sympyToks consts t = (parseTree consts t).toks` and `parseTree consts t` is in the grammar, hence the
  shunting-yard output is `(parseTree consts t).post`.
* `denG`: the value of a grammar tree (token semantics), computed by the reference machine on `post`.
* `denG (parseTree consts t) = MathSem.den x (consts.map val) t`: re-association and `abs(a)^b` are
  semantically neutral.
-/
namespace Bingo
namespace Str
namespace Round
open Bingo.Str.Tables Gen.OpDefs Bingo.Str.Post Bingo.Str.Ref

/-! ## hand tables versus generated tables -/

theorem unName_spec {n : Int} {f : String} (h : unName n = some f) :
    functions.contains f = true ∧ operators.contains f = false ∧ operator_map.lookup f = some n ∧
      tokFit f = true ∧ f.toList.all (fun c => decide (c.toNat < 128)) = true := by
  unfold unName at h
  split at h
  · next e => cases h; subst e; decide
  split at h
  · next e => cases h; subst e; decide
  split at h
  · next e => cases h; subst e; decide
  split at h
  · next e => cases h; subst e; decide
  split at h
  · next e => cases h; subst e; decide
  split at h
  · next e => cases h; subst e; decide
  split at h
  · next e => cases h; subst e; decide
  split at h
  · next e => cases h; subst e; decide
  cases h

/-- the binary nodes other than SAFE_POWER: token and node agree with `operator_map` -/
theorem binName_spec {n : Int} {o : String} (h : binName n = some o) :
    operators.contains o = true ∧ tokFit o = true ∧
      o.toList.all (fun c => decide (c.toNat < 128)) = true ∧
      (n = SAFE_POWER ∨ operator_map.lookup o = some n) := by
  unfold binName at h
  split at h
  · next e => cases h; subst e; decide
  split at h
  · next e => cases h; subst e; decide
  split at h
  · next e => cases h; subst e; decide
  split at h
  · next e => cases h; subst e; decide
  split at h
  · next e => cases h; subst e; decide
  split at h
  · next e => cases h; subst e; decide
  cases h

/-! ## tokens of a printed tree are the infix tokens of `parseTree` -/

theorem sympyToks_eq (consts : List String) (t : ETree) :
    sympyToks consts t = (parseTree consts t).toks := by
  induction t with
  | bad => rfl
  | leaf n p => rfl
  | un n a ih =>
    simp only [sympyToks, parseTree]
    cases unName n with
    | none => rfl
    | some f => simp [GE.toks, ih, LPAREN, RPAREN]
  | bin n a b iha ihb =>
    simp only [sympyToks, parseTree]
    split
    · simp [GE.graft_toks, iha, ihb]
    · split
      · simp [GE.toks, iha, ihb, LPAREN, RPAREN]
      · split
        · simp [GE.toks, iha, ihb, LPAREN, RPAREN]
        · cases binName n with
          | none => rfl
          | some o => simp [GE.toks, iha, ihb, LPAREN, RPAREN]

/-! ## the terminals -/

/-- ASCII and C `long` side conditions of a token -/
def tokGood (tok : String) : Bool :=
  tok.toList.all (fun c => decide (c.toNat < 128)) && tokFit tok

theorem pyInt_ok {ds : List Char} {p : Int} (h : pyInt ds = .ok p) :
    ds.length ≤ intMaxStrDigits ∧ ((digitsToNat ds : Nat) : Int) = p := by
  rw [pyInt_eq] at h
  split at h
  · next hl => exact ⟨hl, by cases h; rfl⟩
  · cases h

theorem leafTok_const {consts : List String} {p : Int} {c : String} (h0 : 0 ≤ p)
    (hc : consts[p.toNat]? = some c) : leafTok consts CONSTANT p = c := by
  have hlt : p.toNat < consts.length := by
    rcases Nat.lt_or_ge p.toNat consts.length with h | h
    · exact h
    · rw [List.getElem?_eq_none h] at hc; cases hc
  have h1 : constHasNoValue consts p = false := by
    simp only [constHasNoValue, Bool.or_eq_false_iff, beq_eq_false_iff_ne, ne_eq,
      decide_eq_false_iff_not]
    omega
  simp only [leafTok, show ¬ CONSTANT = VARIABLE from by decide, ↓reduceIte, h1, pyGet,
    pyIdx_of_lt h0 hlt, hc, Bool.false_eq_true]
  rfl

/-- everything the proofs need to know about the token of a printable terminal -/
theorem leaf_spec (val : String → ℝ)
    (consts : List String) (n p : Int) (h : printOK consts (.leaf n p) = true) (x cs : List ℝ) :
    GE.isAtomTok (leafTok consts n p) = true ∧ tokGood (leafTok consts n p) = true ∧
      ((∀ n : Int, n < 0 → val (toString n) = (n : ℝ)) →
        atomVal x cs val (leafTok consts n p) = some (MathSem.leaf x (consts.map val) n p)) := by
  simp only [printOK] at h
  split at h
  · next hn =>
    subst hn
    simp only [Bool.and_eq_true, decide_eq_true_eq] at h
    obtain ⟨ds, hm, hi, hat, hasc⟩ := varTok_spec p h.1 h.2
    obtain ⟨hlen, hval⟩ := pyInt_ok hi
    have htok : leafTok consts VARIABLE p = "x_" ++ toString p := by simp [leafTok]
    rw [htok]
    refine ⟨hat, ?_, ?_⟩
    · simp only [tokGood, tokFit, hm, Bool.and_eq_true, List.all_eq_true, decide_eq_true_eq]
      exact ⟨hasc, by rw [hval]; exact h.2⟩
    · intro _
      simp only [atomVal, hm, show operator_map.lookup (String.ofList ['x']) = some VARIABLE from by decide,
        Option.bind_some, if_pos hlen, hval]
      simp [MathSem.leaf, show ¬ VARIABLE = INTEGER from by decide]
  · split at h
    · next hn' hn =>
      subst hn
      simp only [Bool.and_eq_true, decide_eq_true_eq] at h
      obtain ⟨h0, hc⟩ := h
      cases hget : consts[p.toNat]? with
      | none => simp [hget] at hc
      | some c =>
        simp only [hget] at hc
        rw [leafTok_const h0 hget]
        simp only [constTokOK, Bool.and_eq_true, Bool.not_eq_true', Option.isNone_iff_eq_none,
          List.all_eq_true, decide_eq_true_eq] at hc
        obtain ⟨⟨⟨⟨⟨hfl, hint⟩, hmv⟩, hat⟩, hasc⟩, _⟩ := hc
        refine ⟨hat, ?_, ?_⟩
        · simp only [tokGood, tokFit, hmv, hint, Bool.and_eq_true, List.all_eq_true,
            decide_eq_true_eq, Bool.false_eq_true, ↓reduceIte, and_true]
          exact hasc
        · intro _
          have hlt : p.toNat < consts.length := by
            rcases Nat.lt_or_ge p.toNat consts.length with h | h
            · exact h
            · rw [List.getElem?_eq_none h] at hget; cases hget
          simp only [atomVal, hmv, hint, hfl, Bool.false_eq_true, ↓reduceIte, MathSem.leaf,
            show ¬ CONSTANT = INTEGER from by decide, show ¬ CONSTANT = VARIABLE from by decide,
            List.length_map, pyIdx_of_lt h0 hlt, Option.bind_some, List.getElem?_map, hget,
            Option.map_some]
    · split at h
      · next hn'' hn' hn =>
        subst hn
        have htok : leafTok consts INTEGER p = toString p := by
          simp [leafTok, show ¬ INTEGER = VARIABLE from by decide,
            show ¬ INTEGER = CONSTANT from by decide]
        rw [htok]
        by_cases h0 : 0 ≤ p
        · obtain ⟨hmv, hint, hi, hat, hasc⟩ := intTok_spec p h0 h
          obtain ⟨hlen, hval⟩ := pyInt_ok hi
          refine ⟨hat, ?_, ?_⟩
          · simp only [tokGood, tokFit, hmv, hint, Bool.and_eq_true, List.all_eq_true,
              decide_eq_true_eq, ↓reduceIte]
            exact ⟨hasc, by rw [hval]; exact h⟩
          · intro _
            simp only [atomVal, hmv, hint, ↓reduceIte, if_pos hlen, hval, MathSem.leaf]
        · obtain ⟨hmv, hint, hfl, hat, hasc⟩ := negIntTok_spec p (by omega)
          refine ⟨hat, ?_, ?_⟩
          · simp only [tokGood, tokFit, hmv, hint, Bool.and_eq_true, List.all_eq_true,
              decide_eq_true_eq, Bool.false_eq_true, ↓reduceIte, and_true]
            exact hasc
          · intro hneg
            simp only [atomVal, hmv, hint, hfl, Bool.false_eq_true, ↓reduceIte, MathSem.leaf,
              hneg p (by omega)]
      · cases h

/-! ## `parseTree` is in the grammar -/

theorem parseTree_ok (consts : List String) (t : ETree) (h : printOK consts t = true) :
    (parseTree consts t).ok 0 = true := by
  induction t with
  | bad => cases h
  | leaf n p =>
    exact (leaf_spec (fun _ => 0) consts n p h [] []).1
  | un n a ih =>
    simp only [printOK, Bool.and_eq_true] at h
    simp only [parseTree]
    cases hn : unName n with
    | none => simp [hn] at h
    | some f => simp only [GE.ok, (unName_spec hn).1, ih h.2, Bool.and_self]
  | bin n a b iha ihb =>
    simp only [printOK, Bool.and_eq_true] at h
    have ha := iha h.1.2
    have hb := ihb h.2
    simp only [parseTree]
    split
    · exact GE.graft_ok "+" _ _ (by decide) (by decide) ha hb
    · split
      · simp only [GE.ok, ha, hb, show operators.contains "-" = true from by decide,
          show prec "-" = 0 from by decide, show ¬ "-" = RIGHT_ASSOC from by decide,
          Bool.and_true, ↓reduceIte, Nat.le_refl, decide_true]
      · split
        · simp only [GE.ok, ha, hb, show operators.contains "^" = true from by decide,
            show prec "^" = 2 from by decide, if_pos (show "^" = RIGHT_ASSOC from by decide),
            show functions.contains "abs" = true from by decide,
            Bool.and_true, Nat.zero_le, decide_true]
        · cases hn : binName n with
          | none => simp [hn] at h
          | some o =>
            have ho := (binName_spec hn).1
            simp only [GE.ok, ha, hb, ho, Bool.and_true, ite_self, Nat.zero_le, decide_true]

/-- C: the shunting-yard output on a printed tree -/
theorem shunting_yard_sympy (consts : List String) (t : ETree) (h : printOK consts t = true) :
    infixToPostfix (sympyToks consts t) = .ok (parseTree consts t).post := by
  rw [sympyToks_eq]
  exact shunt_grammar _ (parseTree_ok consts t h)

/-! ## side conditions of the printed tokens -/

theorem sympyToks_good (consts : List String) (t : ETree) (h : printOK consts t = true) :
    ∀ tok ∈ sympyToks consts t, tokGood tok = true := by
  induction t with
  | bad => cases h
  | leaf n p =>
    intro tok htok
    simp only [sympyToks, List.mem_singleton] at htok
    subst htok
    exact (leaf_spec (fun _ => 0) consts n p h [] []).2.1
  | un n a ih =>
    simp only [printOK, Bool.and_eq_true] at h
    simp only [sympyToks]
    cases hn : unName n with
    | none => simp [hn] at h
    | some f =>
      have hf := unName_spec hn
      intro tok htok
      simp only [List.cons_append, List.nil_append, List.mem_cons, List.mem_append,
        List.not_mem_nil, or_false] at htok
      rcases htok with rfl | rfl | htok | rfl
      · simp only [tokGood, hf.2.2.2.1, hf.2.2.2.2, Bool.and_self]
      · decide
      · exact ih h.2 tok htok
      · decide
  | bin n a b iha ihb =>
    simp only [printOK, Bool.and_eq_true] at h
    have ha := iha h.1.2
    have hb := ihb h.2
    simp only [sympyToks]
    intro tok htok
    split at htok
    · simp only [List.mem_cons, List.mem_append, List.not_mem_nil, or_false] at htok
      rcases htok with (htok | rfl) | htok
      · exact ha tok htok
      · decide
      · exact hb tok htok
    · split at htok
      · simp only [List.mem_cons, List.mem_append, List.not_mem_nil, or_false] at htok
        rcases htok with ((htok | rfl | rfl) | htok) | rfl
        · exact ha tok htok
        · decide
        · decide
        · exact hb tok htok
        · decide
      · split at htok
        · simp only [List.cons_append, List.nil_append, List.mem_cons, List.mem_append,
            List.not_mem_nil, or_false] at htok
          rcases htok with rfl | rfl | ((htok | rfl | rfl | rfl) | htok) | rfl
          · decide
          · decide
          · exact ha tok htok
          · decide
          · decide
          · decide
          · exact hb tok htok
          · decide
        · cases hn : binName n with
          | none => simp [hn] at h
          | some o =>
            have ho := binName_spec hn
            simp only [hn, List.cons_append, List.nil_append, List.mem_cons, List.mem_append,
              List.not_mem_nil, or_false] at htok
            rcases htok with rfl | ((htok | rfl | rfl | rfl) | htok) | rfl
            · decide
            · exact ha tok htok
            · decide
            · simp only [tokGood, ho.2.1, ho.2.2.1, Bool.and_self]
            · decide
            · exact hb tok htok
            · decide

theorem mem_post {g : GE} {tok : String} (h : tok ∈ g.post) : tok ∈ g.toks := by
  induction g with
  | atom a => exact h
  | paren e ih =>
    simp only [GE.toks, List.mem_cons, List.mem_append]
    exact Or.inr (Or.inl (ih h))
  | fn f e ih =>
    simp only [GE.post, List.mem_append, List.mem_singleton] at h
    simp only [GE.toks, List.mem_cons, List.mem_append]
    rcases h with h | h
    · exact Or.inr (Or.inr (Or.inl (ih h)))
    · exact Or.inl h
  | op o l r ihl ihr =>
    simp only [GE.post, List.mem_append, List.mem_singleton] at h
    simp only [GE.toks, List.mem_cons, List.mem_append]
    rcases h with (h | h) | h
    · exact Or.inl (ihl h)
    · exact Or.inr (Or.inr (ihr h))
    · exact Or.inr (Or.inl h)

theorem post_length_le (g : GE) : g.post.length ≤ g.toks.length := by
  induction g with
  | atom a => exact Nat.le_refl _
  | paren e ih => simp only [GE.post, GE.toks, List.length_cons, List.length_append]; omega
  | fn f e ih =>
    simp only [GE.post, GE.toks, List.length_cons, List.length_append, List.length_nil]; omega
  | op o l r ihl ihr =>
    simp only [GE.post, GE.toks, List.length_cons, List.length_append, List.length_nil]; omega

theorem post_ne_nil (g : GE) : g.post ≠ [] := by
  induction g with
  | atom a => simp [GE.post]
  | paren e ih => exact ih
  | fn f e ih => simp [GE.post]
  | op o l r ihl ihr => simp [GE.post]

/-! ## the value of a grammar tree -/

/-- a binary node on possibly undefined operands -/
noncomputable def binV (n : Int) (a b : Option ℝ) : Option ℝ :=
  a.bind fun va => b.bind fun vb => MathSem.bin n va vb

/-- token semantics of a grammar tree (outer `none`: some token is rejected) -/
noncomputable def denG (x cs : List ℝ) (val : String → ℝ) : GE → Option (Option ℝ)
  | .atom a => atomVal x cs val a
  | .paren e => denG x cs val e
  | .fn f e =>
    (denG x cs val e).bind fun v => (operator_map.lookup f).map fun n => v.bind (MathSem.un n)
  | .op o l r =>
    (denG x cs val l).bind fun a => (denG x cs val r).bind fun b =>
      (operator_map.lookup o).map fun n => binV n a b

/-- the reference machine on the postfix form computes `denG` -/
theorem refRun_post (x cs : List ℝ) (val : String → ℝ) (g : GE) :
    ∀ (k : Nat) (rest : List String) (R : List (Option ℝ)), g.ok k = true →
      refRun x cs val (g.post ++ rest) R =
        (denG x cs val g).bind fun v => refRun x cs val rest (v :: R) := by
  induction g with
  | atom a =>
    intro k rest R hk
    simp only [GE.ok, GE.isAtomTok, Bool.and_eq_true, Bool.not_eq_true'] at hk
    simp only [GE.post, List.cons_append, List.nil_append, refRun, refStep, hk.1.1.1, hk.1.1.2,
      Bool.false_eq_true, ↓reduceIte, denG]
    cases atomVal x cs val a <;> rfl
  | paren e ih =>
    intro k rest R hk
    exact ih 0 rest R hk
  | fn f e ih =>
    intro k rest R hk
    simp only [GE.ok, Bool.and_eq_true] at hk
    simp only [GE.post, List.append_assoc, List.cons_append, List.nil_append, denG]
    rw [ih 0 _ R hk.2]
    cases denG x cs val e with
    | none => rfl
    | some v =>
      simp only [Option.bind_some, refRun, refStep, Shunt.fn_not_op hk.1, hk.1,
        Bool.false_eq_true, ↓reduceIte]
      cases operator_map.lookup f <;> rfl
  | op o l r ihl ihr =>
    intro k rest R hk
    simp only [GE.ok, Bool.and_eq_true] at hk
    obtain ⟨⟨ho, _⟩, hlr⟩ := hk
    have hl : ∃ kl, l.ok kl = true := by
      split at hlr
      · exact ⟨_, (Bool.and_eq_true _ _ ▸ hlr).1⟩
      · exact ⟨_, (Bool.and_eq_true _ _ ▸ hlr).1⟩
    have hr : ∃ kr, r.ok kr = true := by
      split at hlr
      · exact ⟨_, (Bool.and_eq_true _ _ ▸ hlr).2⟩
      · exact ⟨_, (Bool.and_eq_true _ _ ▸ hlr).2⟩
    obtain ⟨kl, hl⟩ := hl
    obtain ⟨kr, hr⟩ := hr
    simp only [GE.post, List.append_assoc, List.cons_append, List.nil_append, denG]
    rw [ihl kl _ R hl]
    cases denG x cs val l with
    | none => rfl
    | some a =>
      simp only [Option.bind_some]
      rw [ihr kr _ _ hr]
      cases denG x cs val r with
      | none => rfl
      | some b =>
        simp only [Option.bind_some, refRun, refStep, ho, ↓reduceIte]
        cases operator_map.lookup o <;> rfl

theorem binV_add_assoc (A B1 B2 : Option ℝ) :
    binV ADDITION (binV ADDITION A B1) B2 = binV ADDITION A (binV ADDITION B1 B2) := by
  cases A <;> cases B1 <;> cases B2 <;> simp [binV, MathSem.bin, add_assoc]

theorem binV_add_sub_assoc (A B1 B2 : Option ℝ) :
    binV SUBTRACTION (binV ADDITION A B1) B2 = binV ADDITION A (binV SUBTRACTION B1 B2) := by
  cases A <;> cases B1 <;> cases B2 <;>
    simp [binV, MathSem.bin, add_sub_assoc, show ¬ SUBTRACTION = ADDITION from by decide]

/-- re-association is semantically neutral -/
theorem denG_graft (x cs : List ℝ) (val : String → ℝ) (l : GE) (A : Option ℝ)
    (hl : denG x cs val l = some A) (r : GE) :
    ∀ (k : Nat) (B : Option ℝ), r.ok k = true → denG x cs val r = some B →
      denG x cs val (GE.graft "+" l r) = some (binV ADDITION A B) := by
  have hplus : operator_map.lookup "+" = some ADDITION := by decide
  have base : ∀ r' B, denG x cs val r' = some B →
      denG x cs val (.op "+" l r') = some (binV ADDITION A B) := by
    intro r' B hr'
    simp only [denG, hl, hr', Option.bind_some, hplus, Option.map_some]
  induction r with
  | atom a => intro k B _ hB; exact base _ B hB
  | paren e _ => intro k B _ hB; exact base _ B hB
  | fn f e _ => intro k B _ hB; exact base _ B hB
  | op o rl rr ihl _ =>
    intro k B hk hB
    simp only [GE.graft]
    split
    · next hp =>
      simp only [GE.ok, Bool.and_eq_true] at hk
      obtain ⟨⟨ho, _⟩, hlr⟩ := hk
      have hp0 : prec o = 0 := by rw [hp]; decide
      have ho' : o = "+" ∨ o = "-" := by
        rcases Shunt.op_cases ho with rfl | rfl | rfl | rfl | rfl
        · exact Or.inl rfl
        · exact Or.inr rfl
        · exact absurd hp0 (by decide)
        · exact absurd hp0 (by decide)
        · exact absurd hp0 (by decide)
      have hnra : ¬ o = RIGHT_ASSOC := by
        rcases ho' with rfl | rfl <;> decide
      rw [if_neg hnra, Bool.and_eq_true] at hlr
      simp only [denG] at hB
      cases hrl : denG x cs val rl with
      | none => simp [hrl] at hB
      | some B1 =>
        cases hrr : denG x cs val rr with
        | none => simp [hrl, hrr] at hB
        | some B2 =>
          simp only [hrl, hrr, Option.bind_some] at hB
          have h1 := ihl _ B1 hlr.1 hrl
          simp only [denG, h1, hrr, Option.bind_some]
          rcases ho' with rfl | rfl
          · simp only [hplus, Option.map_some, Option.some.injEq] at hB ⊢
            rw [← hB, binV_add_assoc]
          · have hminus : operator_map.lookup "-" = some SUBTRACTION := by decide
            simp only [hminus, Option.map_some, Option.some.injEq] at hB ⊢
            rw [← hB, binV_add_sub_assoc]
    · exact base _ B hB

theorem binV_safe_power (A B : Option ℝ) :
    binV POWER (A.bind (MathSem.un ABS)) B = binV SAFE_POWER A B := by
  cases A <;> cases B <;> simp [binV, MathSem.bin, MathSem.un,
    show ¬ POWER = ADDITION from by decide, show ¬ POWER = SUBTRACTION from by decide,
    show ¬ POWER = MULTIPLICATION from by decide, show ¬ POWER = DIVISION from by decide,
    show ¬ SAFE_POWER = ADDITION from by decide, show ¬ SAFE_POWER = SUBTRACTION from by decide,
    show ¬ SAFE_POWER = MULTIPLICATION from by decide, show ¬ SAFE_POWER = DIVISION from by decide,
    show ¬ SAFE_POWER = POWER from by decide,
    show ¬ ABS = SIN from by decide, show ¬ ABS = COS from by decide,
    show ¬ ABS = EXPONENTIAL from by decide, show ¬ ABS = LOGARITHM from by decide]

/-- the token semantics of the parsed tree is the semantics of the printed tree -/
theorem denG_parseTree (val : String → ℝ) (hneg : ∀ n : Int, n < 0 → val (toString n) = (n : ℝ))
    (consts : List String) (x cs : List ℝ) (t : ETree) (h : printOK consts t = true) :
    denG x cs val (parseTree consts t) = some (MathSem.den x (consts.map val) t) := by
  induction t with
  | bad => cases h
  | leaf n p => exact (leaf_spec val consts n p h x cs).2.2 hneg
  | un n a ih =>
    simp only [printOK, Bool.and_eq_true] at h
    simp only [parseTree]
    cases hn : unName n with
    | none => simp [hn] at h
    | some f =>
      simp only [denG, ih h.2, Option.bind_some, (unName_spec hn).2.2.1, Option.map_some,
        MathSem.den]
  | bin n a b iha ihb =>
    simp only [printOK, Bool.and_eq_true] at h
    have ha := iha h.1.2
    have hb := ihb h.2
    have hden : MathSem.den x (consts.map val) (.bin n a b) =
        binV n (MathSem.den x (consts.map val) a) (MathSem.den x (consts.map val) b) := rfl
    rw [hden]
    simp only [parseTree]
    split
    · next hn =>
      rw [hn]
      exact denG_graft x cs val _ _ ha _ 0 _ (parseTree_ok consts b h.2) hb
    · split
      · next hn =>
        rw [hn]
        simp only [denG, ha, hb, Option.bind_some,
          show operator_map.lookup "-" = some SUBTRACTION from by decide, Option.map_some]
      · split
        · next hn =>
          rw [hn]
          simp only [denG, ha, hb, Option.bind_some,
            show operator_map.lookup "^" = some POWER from by decide,
            show operator_map.lookup "abs" = some ABS from by decide, Option.map_some,
            binV_safe_power]
        · next hsp =>
          cases hn : binName n with
          | none => simp [hn] at h
          | some o =>
            rcases (binName_spec hn).2.2.2 with e | e
            · exact absurd e hsp
            · simp only [denG, ha, hb, Option.bind_some, e, Option.map_some]

/-! ## D: printing a tree and parsing the tokens back -/

theorem asciiToks_of_good {P : List String} (h : ∀ tok ∈ P, tokGood tok = true) :
    asciiToks P = true := by
  simp only [asciiToks, Bool.not_eq_true', List.any_eq_false, List.any_eq_true, not_exists, not_and,
    decide_eq_true_eq]
  intro tok htok c hc
  have := h tok htok
  simp only [tokGood, Bool.and_eq_true, List.all_eq_true, decide_eq_true_eq] at this
  have := this.1 c hc
  omega

theorem roundtrip_tree (val : String → ℝ) (consts : List String) (t : ETree)
    (h : printOK consts t = true) (hneg : ∀ n : Int, n < 0 → val (toString n) = (n : ℝ))
    (hsize : (sympyToks consts t).length < 2 ^ 63) :
    ∃ s' c', parseToks (sympyToks consts t) = .ok (s', c') ∧
      ∀ x : List ℝ, MathSem.den x (c'.map val) (ETree.ofStack s') =
        MathSem.den x (consts.map val) t := by
  have hC := shunting_yard_sympy consts t h
  have hgood : ∀ tok ∈ (parseTree consts t).post, tokGood tok = true := fun tok htok =>
    sympyToks_good consts t h tok (by rw [sympyToks_eq]; exact mem_post htok)
  have hrun : ∀ x cs : List ℝ, refRun x cs val (parseTree consts t).post [] =
      some [MathSem.den x (consts.map val) t] := by
    intro x cs
    have := refRun_post x cs val (parseTree consts t) 0 [] [] (parseTree_ok consts t h)
    rw [List.append_nil, denG_parseTree val hneg consts x cs t h] at this
    exact this
  obtain ⟨st', hl, hlen⟩ := loop_complete [] [] val (st := {}) (R := []) rfl (hrun [] [])
  have hinv := postfixLoop_inv PInv.init hl
  have hPlen : (parseTree consts t).post.length ≤ (sympyToks consts t).length := by
    rw [sympyToks_eq]; exact post_length_le _
  have hfit := postfixLoop_fit (sympyToks consts t).length hsize PInv.init
    (fun tok htok => by
      have := hgood tok htok
      simp only [tokGood, Bool.and_eq_true] at this
      exact this.2)
    (by simpa using hPlen) (by simpa using hPlen) (by intro c hc; simp at hc) hl
  have hpc : postfixToCommands (parseTree consts t).post = .ok (st'.cmds, st'.consts) :=
    postfixToCommands_ok_iff.mpr ⟨asciiToks_of_good hgood, st', hl,
      by simp only [List.length_cons, List.length_nil] at hlen; omega,
      allFit_of hinv hfit, rfl, rfl⟩
  refine ⟨st'.cmds, st'.consts, ?_, ?_⟩
  · simp only [parseToks, hC]
    exact hpc
  · intro x
    have h1 := postfix_sound val x _ _ _ (post_ne_nil _) hpc
    rw [hrun x] at h1
    simp only [Option.some.injEq, List.cons.injEq, and_true] at h1
    exact h1.symm

/-! ## E: the same for well-formed command arrays -/

theorem opnode_names {n : Int} (ht : Ops.isTerminal n = some false) :
    (Ops.isArity2 n = some false → (unName n).isSome = true) ∧
      (Ops.isArity2 n = some true → (binName n).isSome = true) := by
  have hr := isTerminal_range ht
  have : n = -1 ∨ n = 0 ∨ n = 1 ∨ n = 2 ∨ n = 3 ∨ n = 4 ∨ n = 5 ∨ n = 6 ∨ n = 7 ∨ n = 8 ∨ n = 9 ∨
      n = 10 ∨ n = 11 ∨ n = 12 ∨ n = 13 ∨ n = 14 ∨ n = 15 := by omega
  rcases this with rfl | rfl | rfl | rfl | rfl | rfl | rfl | rfl | rfl | rfl | rfl | rfl | rfl |
    rfl | rfl | rfl | rfl <;> revert ht <;> decide

theorem trees_printOK (D L : Nat) (s : Stack) (consts : List String) (hwf : WF.WFEval D L s)
    (hL : consts.length = L) (hconsts : ∀ c ∈ consts, constTokOK c = true)
    (hint : ∀ c ∈ s, (c.node = INTEGER ∨ c.node = VARIABLE) → fitsInt64 c.p1 = true) :
    ∀ i, i < s.length → printOK consts ((ETree.trees s)[i]?.getD .bad) = true := by
  have hrefs := StrTrees.refsOK_of_wf hwf
  have hrows : ∀ k (hk : k < s.length), WF.rowOK D (some L) none k s[k] = true := by
    have := hwf
    simp only [WF.WFEval, WF.wf, Bool.and_eq_true] at this
    intro k hk
    simpa using StrTrees.refsOK_of_rowsOK s 0 this.2 k hk
  have hlen := StrTrees.trees_length s
  intro i
  induction i using Nat.strongRecOn with
  | ind i ih =>
    intro hi
    rw [StrTrees.trees_getElem_full s hrefs i hi, Option.getD_some]
    have hrow := hrows i hi
    have hmem : s[i] ∈ s := List.getElem_mem hi
    unfold WF.rowOK at hrow
    unfold ETree.rowTree
    split at hrow
    · next ht ha =>
      simp only [ht, ha, printOK]
      split at hrow
      · next hv =>
        simp only [Bool.and_eq_true, decide_eq_true_eq] at hrow
        simp only [hv, ↓reduceIte, Bool.and_eq_true, decide_eq_true_eq]
        exact ⟨hrow.1, hint _ hmem (Or.inr hv)⟩
      · next hv =>
        split at hrow
        · next hc =>
          simp only [Bool.and_eq_true, decide_eq_true_eq] at hrow
          have hlt : s[i].p1.toNat < consts.length := by omega
          simp only [hc, ↓reduceIte, show ¬ CONSTANT = VARIABLE from by decide,
            Bool.and_eq_true, decide_eq_true_eq, List.getElem?_eq_getElem hlt]
          exact ⟨hrow.1, hconsts _ (List.getElem_mem hlt)⟩
        · next hc =>
          have hi' : s[i].node = INTEGER := by simpa using hrow
          simp only [hi', show ¬ INTEGER = VARIABLE from by decide,
            show ¬ INTEGER = CONSTANT from by decide, ↓reduceIte]
          exact hint _ hmem (Or.inl hi')
    · next b ht ha =>
      simp only [Bool.and_eq_true, decide_eq_true_eq, Bool.and_true] at hrow
      obtain ⟨⟨⟨h1, h2⟩, h3⟩, h4⟩ := hrow
      have hnames := opnode_names ht
      have g1 : ETree.getT s.length (ETree.trees s) s[i].p1 =
          (ETree.trees s)[s[i].p1.toNat]?.getD .bad :=
        StrTrees.getT_eq h1 (by omega) (by omega)
      have g2 : ETree.getT s.length (ETree.trees s) s[i].p2 =
          (ETree.trees s)[s[i].p2.toNat]?.getD .bad :=
        StrTrees.getT_eq h3 (by omega) (by omega)
      have p1 := ih s[i].p1.toNat (by omega) (by omega)
      have p2 := ih s[i].p2.toNat (by omega) (by omega)
      cases b with
      | false => simp only [ht, ha, printOK, hnames.1 ha, g1, p1, Bool.and_self]
      | true => simp only [ht, ha, printOK, hnames.2 ha, g1, g2, p1, p2, Bool.and_self]
    · cases hrow

theorem ofStack_printOK (D L : Nat) (s : Stack) (consts : List String) (hwf : WF.WFEval D L s)
    (hL : consts.length = L) (hconsts : ∀ c ∈ consts, constTokOK c = true)
    (hint : ∀ c ∈ s, (c.node = INTEGER ∨ c.node = VARIABLE) → fitsInt64 c.p1 = true) :
    printOK consts (ETree.ofStack s) = true := by
  have hne : s ≠ [] := by
    have := hwf
    simp only [WF.WFEval, WF.wf, Bool.and_eq_true, Bool.not_eq_true', List.isEmpty_eq_false_iff] at this
    exact this.1
  rw [StrTrees.ofStack_eq_last]
  exact trees_printOK D L s consts hwf hL hconsts hint _
    (by have := List.length_pos_iff.mpr hne; omega)

theorem roundtrip_stack (val : String → ℝ) (D L : Nat) (s : Stack) (consts : List String)
    (hwf : WF.WFEval D L s) (hL : consts.length = L)
    (hconsts : ∀ c ∈ consts, constTokOK c = true)
    (hint : ∀ c ∈ s, (c.node = INTEGER ∨ c.node = VARIABLE) → fitsInt64 c.p1 = true)
    (hneg : ∀ n : Int, n < 0 → val (toString n) = (n : ℝ))
    (hsize : (sympyToks consts (ETree.ofStack s)).length < 2 ^ 63) :
    ∃ s' c', parseToks (sympyToks consts (ETree.ofStack s)) = .ok (s', c') ∧
      ∀ x : List ℝ, MathSem.den x (c'.map val) (ETree.ofStack s') =
        MathSem.den x (consts.map val) (ETree.ofStack s) :=
  roundtrip_tree val consts _ (ofStack_printOK D L s consts hwf hL hconsts hint) hneg hsize

end Round
end Str
end Bingo
