import Proofs.Lemmas.EvalCount
/-!
# Data for the non-vacuity examples of C19
-/
namespace Bingo
namespace EvalPhase
namespace Ex
open Pipeline

def f : Nat → Key := fun g => some (Int.ofNat (g * g))
/-- a fitness function with local optimization: between 1 and 3 base invocations per call -/
def cost : Nat → Nat := fun g => g % 3 + 1
/-- slot 0 unflagged with a stale value, slot 1 flagged and correct, slots 2 and 3 never evaluated -/
def pop : List Indiv :=
  [⟨3, some (some 99), false, 4⟩, ⟨5, some (some 25), true, 2⟩, ⟨7, none, false, 0⟩, ⟨4, none, false, 1⟩]

end Ex
end EvalPhase
end Bingo
