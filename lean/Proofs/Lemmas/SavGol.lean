import Proofs.Lemmas.SavGolWeights
import Proofs.Lemmas.ListAux
import Mathlib.Algebra.Order.Field.Rat
import Mathlib.Tactic.Ring
import Mathlib.Tactic.Linarith
/-!
# Savitzky–Golay filter: exactness on cubics and closed form of `savgol`
-/
namespace Bingo
namespace SavGol

/-- the centred 7-point filter differentiates every cubic exactly, at every (rational) centre -/
theorem cubic_exact_rat (c0 c1 c2 c3 i : Rat) :
    ((List.range 7).map fun a =>
        weight 3 3 1 a 3 *
          (c0 + c1 * (i + (a : Rat) - 3) + c2 * (i + (a : Rat) - 3) ^ 2
            + c3 * (i + (a : Rat) - 3) ^ 3)).sum
      = c1 + 2 * c2 * i + 3 * c3 * i ^ 2 := by
  simp only [range7, List.map_cons, List.map_nil, List.sum_cons, List.sum_nil,
    weight_0_3, weight_1_3, weight_2_3, weight_3_3, weight_4_3, weight_5_3, weight_6_3]
  push_cast
  ring

/-- `Σ_{a=0}^{2m} y[c + a - m] * weights[a][b]`: one output sample of the filter -/
def conv (m n : Nat) (s : Int) (y : List Rat) (c b : Nat) : Rat :=
  ((List.range (2 * m + 1)).map fun a => y.getD (c + a - m) 0 * weight m n s a b).sum

/-- the window centre used for output index `i` -/
def centre (m len i : Nat) : Nat :=
  if i < m then m else if len - i ≤ m then len - m - 1 else i

/-- the weight column used for output index `i` -/
def wIdx (m len i : Nat) : Nat :=
  if i < m then i else if len - i ≤ m then 2 * m + 1 - (len - i) else m

theorem foldl_add_eq_sum (f : Nat → Rat) (l : List Nat) (init : Rat) :
    l.foldl (fun acc a => acc + f a) init = init + (l.map f).sum := by
  induction l generalizing init with
  | nil => simp
  | cons a l ih => simp [ih, add_assoc]

theorem foldl_add_eq_sum' (l : List Rat) (init : Rat) :
    l.foldl (· + ·) init = init + l.sum := by
  induction l generalizing init with
  | nil => simp
  | cons a l ih => simp [ih, add_assoc]

theorem foldlM_window (y : List Rat) (w : Nat → Rat) (g : Nat → Nat) (l : List Nat) (init : Rat)
    (h : ∀ a ∈ l, g a < y.length) :
    l.foldlM (fun acc a =>
        match y[g a]? with
        | none => none
        | some v => some (acc + v * w a)) init
      = some (init + (l.map fun a => y.getD (g a) 0 * w a).sum) := by
  induction l generalizing init with
  | nil => simp
  | cons a l ih =>
    have ha : g a < y.length := h a (by simp)
    simp only [List.foldlM_cons, List.getElem?_eq_getElem ha, Option.bind_eq_bind,
      Option.bind_some]
    rw [ih _ (fun b hb => h b (by simp [hb]))]
    simp [List.getD_eq_getElem?_getD, List.getElem?_eq_getElem ha, add_assoc]

/-- closed form of `_savitzky_golay_gram` on a series at least as long as the window -/
theorem savgol_eq_some (m n : Nat) (s : Int) (y : List Rat) (h : 2 * m + 1 ≤ y.length) :
    savgol m n s y
      = some ((List.range y.length).map fun i =>
          conv m n s y (centre m y.length i) (wIdx m y.length i)) := by
  unfold savgol
  rw [ListAux.mapM_eq_some_iff]
  simp only [List.map_map]
  apply List.map_congr_left
  intro i hi
  have hi : i < y.length := List.mem_range.mp hi
  simp only [Function.comp, not_lt.mpr h, if_false]
  have key : ∀ c b, c + m < y.length → m ≤ c →
      (List.range (2 * m + 1)).foldlM (fun acc a =>
        match y[c + a - m]? with
        | none => none
        | some v => some (acc + v * weight m n s a b)) (0 : Rat) = some (conv m n s y c b) := by
    intro c b hc hm
    rw [foldlM_window y (fun a => weight m n s a b) (fun a => c + a - m)]
    · simp [conv]
    · intro a ha
      have := List.mem_range.mp ha
      omega
  by_cases h1 : i < m
  · simp only [h1, if_true, centre, wIdx]
    exact key _ _ (by omega) (by omega)
  · by_cases h2 : y.length - i ≤ m
    · simp only [h1, h2, if_true, if_false, centre, wIdx]
      exact key _ _ (by omega) (by omega)
    · simp only [h1, h2, if_false, centre, wIdx]
      exact key _ _ (by omega) (by omega)

theorem mapM_range_succ_none {β : Type} (f : Nat → Option β) (k : Nat) (h : f 0 = none) :
    (List.range (k + 1)).mapM f = none := by
  rw [List.range_succ_eq_map, List.mapM_cons, h]
  rfl

/-- a non-empty series shorter than the window raises (`IndexError`) -/
theorem savgol_eq_none (m n : Nat) (s : Int) (y : List Rat) (h0 : 0 < y.length)
    (h : y.length < 2 * m + 1) : savgol m n s y = none := by
  unfold savgol
  obtain ⟨k, hk⟩ : ∃ k, y.length = k + 1 := ⟨y.length - 1, by omega⟩
  simp only [hk]
  apply mapM_range_succ_none
  simp only [hk] at h
  simp [h]

theorem savgol_nil (m n : Nat) (s : Int) : savgol m n s [] = some [] := by
  simp [savgol]

theorem savgol_length {m n : Nat} {s : Int} {y out : List Rat} (h : savgol m n s y = some out) :
    out.length = y.length := by
  unfold savgol at h
  rw [ListAux.mapM_eq_some_iff] at h
  have := congrArg List.length h
  simpa using this.symm

theorem centre_interior {m len i : Nat} (h1 : m ≤ i) (h2 : i + m < len) : centre m len i = i := by
  unfold centre
  rw [if_neg (by omega), if_neg (by omega)]

theorem wIdx_interior {m len i : Nat} (h1 : m ≤ i) (h2 : i + m < len) : wIdx m len i = m := by
  unfold wIdx
  rw [if_neg (by omega), if_neg (by omega)]

/-- interior outputs use the centred column -/
theorem savgol_getElem?_interior (m n : Nat) (s : Int) (y : List Rat)
    (i : Nat) (h1 : m ≤ i) (h2 : i + m < y.length) :
    ((List.range y.length).map fun i =>
        conv m n s y (centre m y.length i) (wIdx m y.length i))[i]? = some (conv m n s y i m) := by
  rw [List.getElem?_map, List.getElem?_range (by omega)]
  simp [centre_interior h1 h2, wIdx_interior h1 h2]

/-- the centred filter applied to samples `f t = p(t0 + t)` of a cubic returns `p'(t0 + i)` -/
theorem window_cubic (f : Nat → Rat) (c0 c1 c2 c3 t0 : Rat) (i : Nat) (h1 : 3 ≤ i)
    (hy : ∀ t, i - 3 ≤ t → t ≤ i + 3 →
      f t = c0 + c1 * (t0 + t) + c2 * (t0 + t) ^ 2 + c3 * (t0 + t) ^ 3) :
    ((List.range 7).map fun a => f (i + a - 3) * weight 3 3 1 a 3).sum
      = c1 + 2 * c2 * (t0 + i) + 3 * c3 * (t0 + i) ^ 2 := by
  rw [← cubic_exact_rat c0 c1 c2 c3 (t0 + i)]
  congr 1
  apply List.map_congr_left
  intro a ha
  have ha : a < 7 := List.mem_range.mp ha
  rw [hy (i + a - 3) (by omega) (by omega)]
  have : ((i + a - 3 : Nat) : Rat) = (i : Rat) + a - 3 := by
    rw [Nat.cast_sub (by omega)]; push_cast; ring
  rw [this]
  ring

theorem conv_cubic (y : List Rat) (c0 c1 c2 c3 t0 : Rat) (i : Nat) (h1 : 3 ≤ i)
    (hy : ∀ t, i - 3 ≤ t → t ≤ i + 3 →
      y.getD t 0 = c0 + c1 * (t0 + t) + c2 * (t0 + t) ^ 2 + c3 * (t0 + t) ^ 3) :
    conv 3 3 1 y i 3 = c1 + 2 * c2 * (t0 + i) + 3 * c3 * (t0 + i) ^ 2 :=
  window_cubic (fun t => y.getD t 0) c0 c1 c2 c3 t0 i h1 hy

end SavGol
end Bingo
