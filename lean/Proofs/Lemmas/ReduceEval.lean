import Proofs.Lemmas.ReduceLemmas
/-!
# Evaluation of a reduced stack

The invariant: after the forward sweep has filled old rows `0 .. k-1` of `s` and new rows
`0 .. pos u k - 1` of `r`, the value at new row `pos u i` is the value at old utilized row `i`.
-/
namespace Bingo
namespace ReduceLemmas
open Reduce Eval RuleDeps

variable {α : Type} [Scalar α]

/-! ## the forward sweep, one row at a time -/

theorem fwdAux_append (N : Nat) (x c : List α) :
    ∀ (l1 l2 : List Cmd) (acc : List α),
      fwdAux N x c (l1 ++ l2) acc = (fwdAux N x c l1 acc).bind (fwdAux N x c l2) := by
  intro l1
  induction l1 with
  | nil => intro l2 acc; simp [fwdAux]
  | cons cmd l1 ih =>
    intro l2 acc
    simp only [List.cons_append, fwdAux]
    cases fwdRow N x c acc cmd with
    | none => rfl
    | some v => exact ih l2 _

theorem fwdAux_length (N : Nat) (x c : List α) :
    ∀ (l : List Cmd) (acc res : List α), fwdAux N x c l acc = some res →
      res.length = acc.length + l.length := by
  intro l
  induction l with
  | nil => intro acc res h; simp [fwdAux] at h; subst h; simp
  | cons cmd l ih =>
    intro acc res h
    simp only [fwdAux] at h
    cases hv : fwdRow N x c acc cmd with
    | none => rw [hv] at h; cases h
    | some v =>
      rw [hv] at h
      have := ih _ _ h
      simp at this ⊢; omega

/-- the state of the sweep (with `forward_eval` of length `N`) after the first `k` rows of `s` -/
def F (N : Nat) (x c : List α) (s : Stack) (k : Nat) : Option (List α) :=
  fwdAux N x c (s.take k) []

theorem F_zero (N : Nat) (x c : List α) (s : Stack) : F N x c s 0 = some [] := by
  simp [F, fwdAux]

theorem F_succ {N : Nat} {x c : List α} {s : Stack} {k : Nat} {cmd : Cmd} (h : s[k]? = some cmd) :
    F N x c s (k+1) =
      (F N x c s k).bind (fun acc => (fwdRow N x c acc cmd).bind (fun v => some (acc ++ [v]))) := by
  unfold F
  rw [List.take_add_one, h, fwdAux_append]
  congr 1
  funext acc
  simp only [Option.toList, fwdAux]
  cases fwdRow N x c acc cmd <;> rfl

theorem F_length {N : Nat} {x c : List α} {s : Stack} {k : Nat} {acc : List α}
    (h : F N x c s k = some acc) (hk : k ≤ s.length) : acc.length = k := by
  have := fwdAux_length N x c _ _ _ h
  simp at this; omega

theorem F_all (x c : List α) (s : Stack) : F s.length x c s s.length = fwd s x c := by
  simp [F, fwd]

/-- the sweep reached row `k+1` only if it reached row `k` and row `k` evaluated -/
theorem F_succ_some {N : Nat} {x c : List α} {s : Stack} {k : Nat} {cmd : Cmd} {acc1 : List α}
    (hc : s[k]? = some cmd) (h : F N x c s (k+1) = some acc1) :
    ∃ acc v, F N x c s k = some acc ∧ fwdRow N x c acc cmd = some v ∧ acc1 = acc ++ [v] := by
  rw [F_succ hc] at h
  cases ha : F N x c s k with
  | none => rw [ha] at h; cases h
  | some acc =>
    rw [ha] at h
    simp only [Option.bind] at h
    cases hv : fwdRow N x c acc cmd with
    | none => rw [hv] at h; cases h
    | some v => rw [hv] at h; cases h; exact ⟨acc, v, rfl, hv, rfl⟩

theorem evalLast_of_F {x c : List α} {s : Stack} (_hne : s ≠ []) {acc : List α}
    (h : F s.length x c s s.length = some acc) : evalLast s x c = acc[s.length - 1]? := by
  have hl := F_length h (Nat.le_refl _)
  rw [F_all] at h
  simp only [evalLast, h, Option.bind]
  rw [List.getLast?_eq_getElem?, hl]

/-! ## one row: what `fwdRow` depends on -/

omit [Scalar α] in
theorem lookupFwd_nonneg {N k : Nat} {p : Int} (acc : List α) (h0 : 0 ≤ p) (hk : p < k) (hkN : k ≤ N) :
    lookupFwd N acc p = acc[p.toNat]? := by
  simp [lookupFwd, pyIdx_nonneg h0 hk hkN]

omit [Scalar α] in
theorem lookupFwd_ofNat {N a : Nat} (acc : List α) (h : a < N) :
    lookupFwd N acc (Int.ofNat a) = acc[a]? := by
  simp only [lookupFwd, pyIdx_ofNat h, Option.bind]

/-- a terminal row's value depends on neither `forward_eval` nor its length -/
theorem fwdRow_congr_term {N N' : Nat} {x c acc acc' : List α} {cmd : Cmd}
    (ht : Ops.isTerminal cmd.node = some true) :
    fwdRow N x c acc cmd = fwdRow N' x c acc' cmd := by
  unfold fwdRow
  cases hr : fwdRule cmd.node with
  | none => rfl
  | some rule =>
    show rule.interp (fwdCtx N x c acc cmd) = rule.interp (fwdCtx N' x c acc' cmd)
    refine interp_congr (α := α) (pm := termPerm)
      (cx := fwdCtx N x c acc cmd) (cx' := fwdCtx N' x c acc' cmd) ⟨fun _ => rfl, fun _ => rfl, fun _ => rfl, ?_, ?_, ?_, ?_⟩
      rule (fwdRule_terminal hr ht) <;> (intro h; simp [termPerm] at h)

/-- an operator row's value depends only on the values its parameters point to -/
theorem fwdRow_congr_op {N N' : Nat} {x c acc acc' : List α} {cmd cmd' : Cmd} {b : Bool}
    (ht : Ops.isTerminal cmd.node = some false) (h2 : Ops.isArity2 cmd.node = some b)
    (hn : cmd'.node = cmd.node)
    (h1 : lookupFwd N acc cmd.p1 = lookupFwd N' acc' cmd'.p1)
    (hp2 : b = true → lookupFwd N acc cmd.p2 = lookupFwd N' acc' cmd'.p2) :
    fwdRow N x c acc cmd = fwdRow N' x c acc' cmd' := by
  unfold fwdRow
  rw [hn]
  cases hr : fwdRule cmd.node with
  | none => rfl
  | some rule =>
    show rule.interp (fwdCtx N x c acc cmd) = rule.interp (fwdCtx N' x c acc' cmd')
    cases b with
    | false =>
      refine interp_congr (α := α) (pm := unPerm)
        (cx := fwdCtx N x c acc cmd) (cx' := fwdCtx N' x c acc' cmd') ⟨?_, ?_, ?_, fun _ => h1, ?_, ?_, ?_⟩
        rule (fwdRule_unary hr ht h2).1 <;> (intro h; simp [unPerm] at h)
    | true =>
      refine interp_congr (α := α) (pm := binPerm)
        (cx := fwdCtx N x c acc cmd) (cx' := fwdCtx N' x c acc' cmd') ⟨?_, ?_, ?_, fun _ => h1, fun _ => hp2 rfl, ?_, ?_⟩
        rule (fwdRule_binary hr ht h2).1 <;> (intro h; simp [binPerm] at h)

/-- an operator row evaluates as soon as the rows its parameters point to hold values -/
theorem fwdRow_isSome_op {N : Nat} {x c acc : List α} {cmd : Cmd} {b : Bool}
    (ht : Ops.isTerminal cmd.node = some false) (h2 : Ops.isArity2 cmd.node = some b)
    (h1 : (lookupFwd N acc cmd.p1).isSome = true)
    (hp2 : (lookupFwd N acc cmd.p2).isSome = true) :
    (fwdRow N x c acc cmd).isSome = true := by
  unfold fwdRow
  obtain ⟨rule, hr⟩ := Option.isSome_iff_exists.mp (fwdRule_isSome ht)
  rw [hr]
  show (rule.interp (fwdCtx N x c acc cmd)).isSome = true
  cases b with
  | false =>
    have := fwdRule_unary hr ht h2
    refine interp_isSome (α := α) (pm := unPerm) ⟨?_, ?_, fun _ => h1, ?_, ?_, ?_⟩ rule this.1 this.2
      <;> (intro h; simp [unPerm] at h)
  | true =>
    have := fwdRule_binary hr ht h2
    refine interp_isSome (α := α) (pm := binPerm) ⟨?_, ?_, fun _ => h1, fun _ => hp2, ?_, ?_⟩ rule this.1 this.2
      <;> (intro h; simp [binPerm] at h)

/-- row `k` evaluates once rows `0 .. k-1` are filled, provided (if it is a terminal) its load
succeeds -/
theorem fwdRow_isSome {s : Stack} (hrows : Rows s) {x c acc : List α} {k : Nat} {cmd : Cmd}
    (hc : s[k]? = some cmd) (hacc : acc.length = k)
    (hload : Ops.isTerminal cmd.node = some true → (fwdRow s.length x c [] cmd).isSome = true) :
    (fwdRow s.length x c acc cmd).isSome = true := by
  have hk := (List.getElem?_eq_some_iff.mp hc).1
  cases hrows.kind k cmd hc with
  | term ht _ => rw [fwdRow_congr_term (acc' := []) (N' := s.length) ht]; exact hload ht
  | op b ht h2 h10 h1k h20 h2k =>
    refine fwdRow_isSome_op ht h2 ?_ ?_
    · rw [lookupFwd_nonneg acc h10 h1k (by omega)]
      simp; omega
    · rw [lookupFwd_nonneg acc h20 h2k (by omega)]
      simp; omega

/-! ## the simulation -/

/-- old state `acc` (rows `< k` of `s`) and new state `acc'` (rows `< pos u k` of `r`) agree -/
structure Rel (u : List Bool) (k : Nat) (acc acc' : List α) : Prop where
  len : acc.length = k
  len' : acc'.length = pos u k
  val : ∀ j, j < k → u[j]? = some true → acc'[pos u j]? = acc[j]?

omit [Scalar α] in
theorem lookup_rel {u : List Bool} {s r : Stack} (hred : IsReduction u s r) {k : Nat}
    {acc acc' : List α} (hrel : Rel u k acc acc') (hk : k ≤ s.length) {p : Int}
    (h0 : 0 ≤ p) (hpk : p < k) (hu : u[p.toNat]? = some true) :
    lookupFwd s.length acc p = lookupFwd r.length acc' (Int.ofNat (pos u p.toNat)) := by
  have hlt : p.toNat < k := by omega
  rw [lookupFwd_nonneg acc h0 hpk hk, lookupFwd_ofNat]
  · exact (hrel.val _ hlt hu).symm
  · rw [hred.rlen]
    exact pos_lt hu (by omega)

/-- the reduced row computes the same value as the utilized row it was copied from -/
theorem fwdRow_congr {u : List Bool} {s r : Stack} (hred : IsReduction u s r) {k : Nat}
    {x c acc acc' : List α} (hrel : Rel u k acc acc') {cmd : Cmd}
    (hc : s[k]? = some cmd) (hu : u[k]? = some true) :
    fwdRow s.length x c acc cmd = fwdRow r.length x c acc' (newCmd u cmd) := by
  have hk := (List.getElem?_eq_some_iff.mp hc).1
  cases hred.rows.kind k cmd hc with
  | term ht _ =>
    have : newCmd u cmd = cmd := by simp [newCmd, ht]
    rw [this]; exact fwdRow_congr_term ht
  | op b ht h2 h10 h1k h20 h2k =>
    have hcl := hred.closed k cmd hc hu ht
    refine fwdRow_congr_op ht h2 (by simp [newCmd, ht]) ?_ ?_
    · have : (newCmd u cmd).p1 = Int.ofNat (pos u cmd.p1.toNat) := by simp [newCmd, ht]
      rw [this]
      exact lookup_rel hred hrel (by omega) h10 h1k hcl.1
    · intro hb
      subst hb
      have : (newCmd u cmd).p2 = Int.ofNat (pos u cmd.p2.toNat) := by simp [newCmd, ht, h2]
      rw [this]
      exact lookup_rel hred hrel (by omega) h20 h2k (hcl.2 h2)

/-- forward simulation: whenever the old sweep reaches row `k`, the new one reaches row `pos u k`
with related state -/
theorem sim_fwd {u : List Bool} {s r : Stack} (hred : IsReduction u s r) (x c : List α) :
    ∀ (k : Nat), k ≤ s.length → ∀ acc, F s.length x c s k = some acc →
      ∃ acc', F r.length x c r (pos u k) = some acc' ∧ Rel u k acc acc' := by
  intro k
  induction k with
  | zero =>
    intro _ acc h
    rw [F_zero] at h; cases h
    exact ⟨[], F_zero _ _ _ _, rfl, rfl, fun j hj => by omega⟩
  | succ k ih =>
    intro hk acc1 h
    obtain ⟨cmd, hc⟩ : ∃ cmd, s[k]? = some cmd := ⟨s[k], by simp⟩
    obtain ⟨acc, v, hacc, hv, rfl⟩ := F_succ_some hc h
    obtain ⟨acc', hacc', hrel⟩ := ih (by omega) acc hacc
    by_cases hu : u[k]? = some true
    · refine ⟨acc' ++ [v], ?_, ?_, ?_, ?_⟩
      · rw [pos_succ_true hu, F_succ (hred.rrow k cmd hc hu), hacc']
        simp only [Option.bind]
        rw [← fwdRow_congr hred hrel hc hu, hv]
      · simp [hrel.len]
      · simp [hrel.len', pos_succ_true hu]
      · intro j hj huj
        by_cases e : j = k
        · subst e
          rw [← hrel.len', ← hrel.len]; simp
        · have hjk : j < k := by omega
          have := pos_lt (k := k) huj hjk
          rw [List.getElem?_append_left (by rw [hrel.len']; exact this),
            List.getElem?_append_left (by rw [hrel.len]; exact hjk)]
          exact hrel.val j hjk huj
    · refine ⟨acc', by rw [pos_succ_not hu]; exact hacc', by simp [hrel.len], ?_, ?_⟩
      · rw [pos_succ_not hu]; exact hrel.len'
      · intro j hj huj
        have hjk : j < k := by
          by_cases e : j = k
          · subst e; exact absurd huj hu
          · omega
        rw [List.getElem?_append_left (by rw [hrel.len]; exact hjk)]
        exact hrel.val j hjk huj

/-- the loads of the rows that `reduce_stack` drops succeed at `x c` -/
def UnusedLoad (u : List Bool) (s : Stack) (x c : List α) : Prop :=
  ∀ (i : Nat) (cmd : Cmd), s[i]? = some cmd → u[i]? = some false →
    Ops.isTerminal cmd.node = some true → (fwdRow s.length x c [] cmd).isSome = true

/-- backward simulation: if moreover the dropped rows' loads succeed, the old sweep reaches row
`k` whenever the new one reaches row `pos u k` -/
theorem sim_bwd {u : List Bool} {s r : Stack} (hred : IsReduction u s r) (x c : List α)
    (hload : UnusedLoad u s x c) :
    ∀ (k : Nat), k ≤ s.length → ∀ acc', F r.length x c r (pos u k) = some acc' →
      ∃ acc, F s.length x c s k = some acc := by
  intro k
  induction k with
  | zero => intro _ _ _; exact ⟨[], F_zero _ _ _ _⟩
  | succ k ih =>
    intro hk acc1' h
    obtain ⟨cmd, hc⟩ : ∃ cmd, s[k]? = some cmd := ⟨s[k], by simp⟩
    have hub : ∃ b, u[k]? = some b := ⟨u[k]'(by rw [hred.ulen]; omega), by simp⟩
    obtain ⟨b, hub⟩ := hub
    cases b with
    | true =>
      rw [pos_succ_true hub] at h
      obtain ⟨acc'', v, hacc'', hv, _⟩ := F_succ_some (hred.rrow k cmd hc hub) h
      obtain ⟨acc, hacc⟩ := ih (by omega) acc'' hacc''
      obtain ⟨acc', hacc', hrel⟩ := sim_fwd hred x c k (by omega) acc hacc
      rw [hacc''] at hacc'; cases hacc'
      refine ⟨acc ++ [v], ?_⟩
      rw [F_succ hc, hacc]
      simp only [Option.bind]
      rw [fwdRow_congr hred hrel hc hub, hv]
    | false =>
      have hne : u[k]? ≠ some true := by rw [hub]; simp
      rw [pos_succ_not hne] at h
      obtain ⟨acc, hacc⟩ := ih (by omega) acc1' h
      have hl := F_length hacc (by omega)
      obtain ⟨v, hv⟩ := Option.isSome_iff_exists.mp
        (fwdRow_isSome hred.rows (x := x) (c := c) hc hl (hload k cmd hc hub))
      refine ⟨acc ++ [v], ?_⟩
      rw [F_succ hc, hacc]
      simp only [Option.bind]
      rw [hv]

/-- if every terminal row's load succeeds, the whole sweep succeeds -/
theorem F_isSome_of_loads {s : Stack} (hrows : Rows s) (x c : List α)
    (hload : ∀ (i : Nat) (cmd : Cmd), s[i]? = some cmd → Ops.isTerminal cmd.node = some true →
      (fwdRow s.length x c [] cmd).isSome = true) :
    ∀ (k : Nat), k ≤ s.length → ∃ acc, F s.length x c s k = some acc := by
  intro k
  induction k with
  | zero => intro _; exact ⟨[], F_zero _ _ _ _⟩
  | succ k ih =>
    intro hk
    obtain ⟨cmd, hc⟩ : ∃ cmd, s[k]? = some cmd := ⟨s[k], by simp⟩
    obtain ⟨acc, hacc⟩ := ih (by omega)
    have hl := F_length hacc (by omega)
    obtain ⟨v, hv⟩ := Option.isSome_iff_exists.mp
      (fwdRow_isSome hrows (x := x) (c := c) hc hl (hload k cmd hc))
    refine ⟨acc ++ [v], ?_⟩
    rw [F_succ hc, hacc]
    simp only [Option.bind]
    rw [hv]

/-! ## `evalLast` -/

theorem pos_last {u : List Bool} {s r : Stack} (hred : IsReduction u s r) :
    pos u (s.length - 1) = r.length - 1 ∧ 0 < r.length ∧ 0 < s.length := by
  have hpos := List.length_pos_iff.mpr hred.rows.ne
  have := pos_succ_true hred.ulast
  rw [show s.length - 1 + 1 = s.length by omega] at this
  rw [hred.rlen]; omega

theorem IsReduction.ne {u : List Bool} {s r : Stack} (hred : IsReduction u s r) : r ≠ [] :=
  List.length_pos_iff.mp (pos_last hred).2.1

/-- whatever the original stack evaluates to, the reduced stack evaluates to the same -/
theorem evalLast_reduce_of_some {u : List Bool} {s r : Stack} (hred : IsReduction u s r)
    {x c : List α} {v : α} (h : evalLast s x c = some v) : evalLast r x c = some v := by
  cases hf : F s.length x c s s.length with
  | none => rw [F_all] at hf; simp [evalLast, hf] at h
  | some acc =>
    obtain ⟨acc', hacc', hrel⟩ := sim_fwd hred x c s.length (Nat.le_refl _) acc hf
    rw [← hred.rlen] at hacc'
    rw [evalLast_of_F hred.rows.ne hf] at h
    rw [evalLast_of_F hred.ne hacc', ← (pos_last hred).1]
    rw [hrel.val (s.length - 1) (by have := (pos_last hred).2.2; omega) hred.ulast]
    exact h

/-- with the dropped rows' loads succeeding, the two evaluations coincide (both may be `none`) -/
theorem evalLast_reduce {u : List Bool} {s r : Stack} (hred : IsReduction u s r)
    {x c : List α} (hload : UnusedLoad u s x c) : evalLast r x c = evalLast s x c := by
  cases hs : evalLast s x c with
  | some v => exact evalLast_reduce_of_some hred hs
  | none =>
    cases hr : evalLast r x c with
    | none => rfl
    | some v =>
      exfalso
      cases hf : F r.length x c r r.length with
      | none => rw [F_all] at hf; simp [evalLast, hf] at hr
      | some acc' =>
        have hf' : F r.length x c r (pos u s.length) = some acc' := by
          rw [← hred.rlen]; exact hf
        obtain ⟨acc, hacc⟩ := sim_bwd hred x c hload s.length (Nat.le_refl _) acc' hf'
        have hl := F_length hacc (Nat.le_refl _)
        rw [evalLast_of_F hred.rows.ne hacc] at hs
        have := (pos_last hred).2.2
        simp at hs; omega

end ReduceLemmas
end Bingo
