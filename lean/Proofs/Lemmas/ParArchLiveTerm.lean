import Model.ParArch
import Proofs.Lemmas.ParArch
import Proofs.Lemmas.ParArchLive
import Proofs.Lemmas.ParArchLiveMono
import Proofs.Lemmas.ParArchLivePot
import Proofs.Lemmas.ParArchLiveFair
import Proofs.Props.C12
/-!
# C12 -- liveness, part 5: termination of a fair execution under the speed assumption

1. `drain_phase_ends`: inside one drain phase `rank0_steps_bounded` and `SpeedBound p q D`, `2 q < p`,
   bound the protocol operations of rank 0 by `p * Φ + 2 * D`; fairness makes them unbounded if the
   phase never ends.
2. `collecting_ends`: every blocking receive of the collecting loop is served (fairness only);
   `loop_ends`: the measure `Mu = 2 * Psi + [draining] + (collecting receives to come)` never grows and
   drops whenever rank 0 changes between "collecting from k", "evolving", "draining" and "past the loop";
   all kinds of phases end, so rank 0 leaves its loop.
3. `reaches_barrier`: past the loop rank 0 sends the exit notifications and enters the barrier (variant
   `ordPc`, helpful rank 0).
4. `reaches_final`: once rank 0 is in the barrier every notification is out and `Vfin = Φ + 3 * Σ hPot`
   drops with every protocol operation of every rank (variant rule with all ranks helpful, `no_deadlock`).
-/
set_option linter.unusedSimpArgs false
set_option linter.unusedVariables false
namespace Bingo
namespace C12
open ParArch

section
variable {st : Nat → State} {act : Nat → Option Action}

/-! ## 1. drain phases -/

theorem enabled0_of_draining {s : State} (inv : Inv s) (h : isDraining s.pc0 = true) : enabled s 0 = true := by
  apply enabled0_nc inv
  · intro e; rw [e] at h; cases h
  · intro e; rw [e] at h; cases h
  · cases hp : s.pc0 <;> rw [hp] at h <;> first | rfl | cases h

theorem FairExec.seg_steps_bounded (E : FairExec st act) (n len : Nat) :
    (seg act n len).countP r0Proto + Phi (st (n + len)) ≤ Phi (st n) + 2 * (seg act n len).countP helperSend := by
  have := run_count_bound (fun s => Inv s ∧ Mono s) slicePos Phi r0Proto helperSend 2
    (fun hs hst => ⟨inv_step hs.1 hst, mono_step hs.1 hs.2 hst⟩)
    (fun hs hg hst => phi_step hs.1 hs.2 hg hst) (seg act n len) (st n) (st (n + len)) (E.invmono n)
    (E.seg_slices n len) (run_seg E.exec n len)
  omega

theorem seg_count_mono (act : Nat → Option Action) (f : Action → Bool) (n l1 l2 : Nat) (h : l1 ≤ l2) :
    (seg act n l1).countP f ≤ (seg act n l2).countP f := by
  have : l2 = l1 + (l2 - l1) := by omega
  rw [this, seg_add, List.countP_append]
  omega

/-- as long as rank 0 can move, fairness makes it perform more and more protocol operations -/
theorem FairExec.r0_unbounded (E : FairExec st act) (n : Nat) (hall : ∀ m, n ≤ m → enabled (st m) 0 = true) :
    ∀ j, ∃ len, j ≤ (seg act n len).countP r0Proto
  | 0 => ⟨0, Nat.zero_le _⟩
  | j + 1 => by
    obtain ⟨len, hlen⟩ := E.r0_unbounded n hall j
    obtain ⟨m, hm, a, ha, har, hat⟩ := E.fair 0 (n + len) (hall _ (by omega))
    refine ⟨(m - n) + 1, ?_⟩
    have h1 := seg_count_mono act r0Proto n len (m - n) (by omega)
    show j + 1 ≤ (seg act n (m - n) ++ (act (n + (m - n))).toList).countP r0Proto
    have e : n + (m - n) = m := by omega
    rw [e, ha, List.countP_append]
    have : r0Proto a = true := by simp [r0Proto, har, hat]
    simp [Option.toList, this]
    omega

/-- **every drain phase ends** under the speed assumption with `2 * q < p` -/
theorem FairExec.drain_phase_ends (E : FairExec st act) {p q D : Nat} (hsp : SpeedBound st act p q D)
    (hpq : 2 * q < p) (n : Nat) (hd : isDraining (st n).pc0 = true) :
    ∃ m, n ≤ m ∧ isDraining (st m).pc0 = false := by
  apply Classical.byContradiction
  intro hne
  have hall : ∀ m, n ≤ m → isDraining (st m).pc0 = true := by
    intro m hm
    cases h : isDraining (st m).pc0 with
    | true => rfl
    | false => exact absurd ⟨m, hm, h⟩ hne
  -- the bound
  have hbound : ∀ len, (seg act n len).countP r0Proto ≤ p * Phi (st n) + 2 * D := by
    intro len
    have h1 := E.seg_steps_bounded n len
    have h2 := hsp n len (fun i _ => hall (n + i) (by omega))
    generalize (seg act n len).countP r0Proto = c at *
    generalize (seg act n len).countP helperSend = s at *
    generalize Phi (st n) = F at *
    have h1' : c ≤ F + 2 * s := by omega
    have e1 : p * c ≤ p * (F + 2 * s) := Nat.mul_le_mul_left p h1'
    have e2 : p * (F + 2 * s) = p * F + 2 * (p * s) := by rw [Nat.mul_add, Nat.mul_left_comm]
    have e3 : (2 * q + 1) * c ≤ p * c := Nat.mul_le_mul_right c (by omega)
    have e4 : (2 * q + 1) * c = 2 * (q * c) + c := by rw [Nat.add_mul, Nat.mul_assoc, Nat.one_mul]
    omega
  obtain ⟨len, hlen⟩ := E.r0_unbounded n (fun m hm => enabled0_of_draining (E.inv m) (hall m hm))
    (p * Phi (st n) + 2 * D + 1)
  have := hbound len
  omega

/-! ## 2. the loop of rank 0 -/

/-- rank 0 is evolving (0), draining (1), past its loop (2), or before the collecting receive from
`k` (3 + k) -/
def loopClass : Pc0 → Nat
  | .evolving => 0
  | .draining _ => 1
  | .collecting k => 3 + k
  | _ => 2

/-- collecting receives still to come, plus one -/
def collOrd (R : Nat) : Pc0 → Nat
  | .collecting k => 1 + (R - k)
  | _ => 0

/-- never grows; drops whenever `loopClass` changes -/
def Mu (s : State) : Nat := 2 * Psi s + (if isDraining s.pc0 then 1 else 0) + collOrd s.R s.pc0

theorem afterExit_class (R k : Nat) : loopClass (afterExit R k) = 2 ∧ isDraining (afterExit R k) = false := by
  rcases afterExit_cases R k with ⟨_, e⟩ | ⟨_, e⟩ <;> rw [e] <;> exact ⟨rfl, rfl⟩

theorem afterExit_collOrd (R R' k : Nat) : collOrd R' (afterExit R k) = 0 := by
  rcases afterExit_cases R k with ⟨_, e⟩ | ⟨_, e⟩ <;> rw [e] <;> rfl

/-- the end of the collecting loop leads to "evolving" or "past the loop" -/
theorem finishCollect_class (s : State) :
    isDraining (finishCollect s).pc0 = false ∧ collOrd s.R (finishCollect s).pc0 = 0 ∧
    (loopClass (finishCollect s).pc0 = 0 ∨ loopClass (finishCollect s).pc0 = 2) := by
  show isDraining (if _ then Pc0.evolving else afterExit s.R 1) = false ∧
    collOrd s.R (if _ then Pc0.evolving else afterExit s.R 1) = 0 ∧
    (loopClass (if _ then Pc0.evolving else afterExit s.R 1) = 0 ∨ loopClass (if _ then Pc0.evolving else afterExit s.R 1) = 2)
  split
  · exact ⟨rfl, rfl, Or.inl rfl⟩
  · exact ⟨(afterExit_class _ _).2, afterExit_collOrd _ _ _, Or.inr (afterExit_class _ _).1⟩

theorem pastLoop_iff (s : State) : pastLoop s = true ↔ loopClass s.pc0 = 2 := by
  unfold pastLoop
  cases s.pc0 <;> simp [loopClass] <;> omega

theorem mu_step {s s' : State} {a : Action} (inv : Inv s) (mono : Mono s) (hk : slicePos a = true)
    (h : step s a = some s') : Mu s' ≤ Mu s ∧ (loopClass s'.pc0 ≠ loopClass s.pc0 → Mu s' < Mu s) := by
  have hpsi := psi_step inv mono hk h
  rcases step_cases h with ⟨hr, h0⟩ | ⟨h0, hR, hH⟩
  · cases h0 with
    | tick r hp => exact ⟨Nat.le_refl _, fun hne => absurd rfl hne⟩
    | evolve r k hp =>
      have hr : r = 0 := hr
      subst hr
      simp only [isEvolve0, beq_self_eq_true, if_true] at hpsi
      simp only [Mu, hp, isDraining, loopClass, collOrd, if_true, Bool.false_eq_true, if_false]
      exact ⟨by omega, fun _ => by omega⟩
    | probeSome r q hp hq =>
      simp only [isEvolve0, Bool.false_eq_true, if_false] at hpsi
      simp only [Mu, hp, isDraining, loopClass, collOrd, if_true]
      exact ⟨by omega, fun hne => absurd rfl hne⟩
    | probeLoop r hp hq hb =>
      simp only [isEvolve0, Bool.false_eq_true, if_false] at hpsi
      simp only [Mu, hp, isDraining, loopClass, collOrd, if_true, Bool.false_eq_true, if_false]
      exact ⟨by omega, fun _ => by omega⟩
    | probeExit r hp hq hb =>
      simp only [isEvolve0, Bool.false_eq_true, if_false] at hpsi
      have e1 : isDraining (Pc0.draining none) = true := rfl
      have e3 : collOrd s.R (Pc0.draining none) = 0 := rfl
      simp only [Mu, hp, (afterExit_class s.R 1).2, e1, e3, afterExit_collOrd, if_true, Bool.false_eq_true, if_false]
      exact ⟨by omega, fun _ => by omega⟩
    | probeSomeF r q hp hq =>
      simp only [isEvolve0, Bool.false_eq_true, if_false] at hpsi
      simp only [Mu, hp, isDraining, loopClass, collOrd, Bool.false_eq_true, if_false]
      exact ⟨by omega, fun hne => absurd rfl hne⟩
    | probeDone r hp hq =>
      simp only [isEvolve0, Bool.false_eq_true, if_false] at hpsi
      simp only [Mu, hp, isDraining, loopClass, collOrd, Bool.false_eq_true, if_false]
      exact ⟨by omega, fun hne => absurd rfl hne⟩
    | collectNext r k a rest hp ht hk' =>
      simp only [isEvolve0, Bool.false_eq_true, if_false] at hpsi
      simp only [Mu, hp, isDraining, loopClass, collOrd, Bool.false_eq_true, if_false]
      exact ⟨by omega, fun _ => by omega⟩
    | collectLast r k a rest hp ht hk' =>
      simp only [isEvolve0, Bool.false_eq_true, if_false] at hpsi
      obtain ⟨c1, c2, c3⟩ := finishCollect_class { s with mbox := rest, table := s.table.set k (some a) }
      have c2' : collOrd s.R (finishCollect { s with mbox := rest, table := s.table.set k (some a) }).pc0 = 0 := c2
      have hR' : (finishCollect { s with mbox := rest, table := s.table.set k (some a) }).R = s.R := rfl
      have hO : collOrd s.R s.pc0 = 1 + (s.R - k) := by rw [hp]; rfl
      have hD : isDraining s.pc0 = false := by rw [hp]; rfl
      simp only [Mu, hR', c1, c2', hO, hD, Bool.false_eq_true, if_false]
      exact ⟨by omega, fun _ => by omega⟩
    | recv r src a rest hp ht =>
      simp only [isEvolve0, Bool.false_eq_true, if_false] at hpsi
      simp only [Mu, hp, isDraining, loopClass, collOrd, if_true]
      exact ⟨by omega, fun hne => absurd rfl hne⟩
    | recvF r src a rest hp ht =>
      simp only [isEvolve0, Bool.false_eq_true, if_false] at hpsi
      simp only [Mu, hp, isDraining, loopClass, collOrd, Bool.false_eq_true, if_false]
      exact ⟨by omega, fun hne => absurd rfl hne⟩
    | sendExit r k hp hk' =>
      simp only [isEvolve0, Bool.false_eq_true, if_false] at hpsi
      have e1 : isDraining (Pc0.sendingExit k) = false := rfl
      have e2 : loopClass (Pc0.sendingExit k) = 2 := rfl
      have e3 : collOrd s.R (Pc0.sendingExit k) = 0 := rfl
      simp only [Mu, hp, (afterExit_class s.R (k + 1)).2, (afterExit_class s.R (k + 1)).1, e1, e2, e3,
        afterExit_collOrd, Bool.false_eq_true, if_false]
      exact ⟨by omega, fun hne => absurd rfl hne⟩
    | enter r hp =>
      simp only [isEvolve0, Bool.false_eq_true, if_false] at hpsi
      simp only [Mu, hp, isDraining, loopClass, collOrd, Bool.false_eq_true, if_false]
      exact ⟨by omega, fun hne => absurd rfl hne⟩
    | leave r hp ha =>
      simp only [isEvolve0, Bool.false_eq_true, if_false] at hpsi
      simp only [Mu, hp, isDraining, loopClass, collOrd, Bool.false_eq_true, if_false]
      exact ⟨by omega, fun hne => absurd rfl hne⟩
  · have e := (stepH_frame0 hH).2.1
    have eR := (stepH_frame0 hH).2.2.1
    rw [(helper_flags h0).2] at hpsi
    simp only [Mu, e, eR, Bool.false_eq_true, if_false] at hpsi ⊢
    exact ⟨by omega, fun hne => absurd rfl hne⟩

/-- `Mu` along an execution: never grows … -/
theorem FairExec.mu_mono (E : FairExec st act) (n m : Nat) (hnm : n ≤ m) : Mu (st m) ≤ Mu (st n) :=
  E.mono_along Mu n m (fun j a _ _ ha => (mu_step (E.inv j) (E.mono j) (E.slices j a ha) (E.exec.of_some ha)).1) hnm

/-- … and is strictly smaller once rank 0 has changed between evolving / draining / past the loop -/
theorem FairExec.mu_drop (E : FairExec st act) (n : Nat) : ∀ d, loopClass (st (n + d)).pc0 ≠ loopClass (st n).pc0 →
    Mu (st (n + d)) < Mu (st n)
  | 0 => fun h => absurd rfl h
  | d + 1 => by
    intro h
    by_cases hc : loopClass (st (n + d)).pc0 = loopClass (st n).pc0
    · -- the change happens at the last step
      cases ha : act (n + d) with
      | none =>
        have := (E.exec.of_none ha).2
        rw [show n + (d + 1) = n + d + 1 from rfl, this] at h
        exact absurd hc h
      | some a =>
        have := (mu_step (E.inv (n + d)) (E.mono (n + d)) (E.slices _ a ha) (E.exec.of_some ha)).2
          (by rw [hc]; exact h)
        have h2 := E.mu_mono n (n + d) (by omega)
        exact Nat.lt_of_lt_of_le this h2
    · have h1 := E.mu_drop n d hc
      have h2 := E.mu_mono (n + d) (n + (d + 1)) (by omega)
      omega

/-- a slice of rank 0 ends (fairness) -/
theorem FairExec.evolving_ends (E : FairExec st act) (n : Nat) (hd : (st n).pc0 = .evolving) :
    ∃ m, n ≤ m ∧ (st m).pc0 ≠ .evolving := by
  apply Classical.byContradiction
  intro hne
  have hall : ∀ m, n ≤ m → (st m).pc0 = .evolving := by
    intro m hm
    apply Classical.byContradiction
    intro h
    exact hne ⟨m, hm, h⟩
  have hen : enabled (st n) 0 = true := by
    apply enabled0_nc (E.inv n)
    · rw [hd]; intro e; cases e
    · rw [hd]; intro e; cases e
    · rw [hd]; rfl
  obtain ⟨m, hm, a, ha, har, hat⟩ := E.fair 0 n hen
  have hs := E.exec.of_some ha
  have hpc := hall m hm
  have hpc' := hall (m + 1) (by omega)
  rcases step_cases hs with ⟨_, h0⟩ | ⟨h0, _, _⟩
  · generalize st (m + 1) = s' at *
    cases h0 <;> first
      | (simp [isTick] at hat; done)
      | (rw [hpc] at *; simp_all; done)
      | (simp at hpc'; done)
  · omega

/-- after a protocol operation of helper `r` it is no longer before its first `_send_updated_age()` -/
theorem stepH_not_sendFirst {s s' : State} {a : Action} {r : Nat} (hlen : r < s.pcH.length) (h : StepHC s r a s')
    (ht : isTick a = false) : pcOf s' r ≠ .sendFirst := by
  have hset : ∀ p, (s.pcH.set r p).getD r .done = p := by
    intro p; rw [pcOf_set s r r p hlen]; simp
  cases h with
  | tick r' hp => simp [isTick] at ht
  | evolve r' k hp => show (s.pcH.set r _).getD r .done ≠ _; rw [hset]; intro e; cases e
  | send r' hp => show (s.pcH.set r _).getD r .done ≠ _; rw [hset]; intro e; cases e
  | probeYes r' hp hq => show (s.pcH.set r _).getD r .done ≠ _; rw [hset]; intro e; cases e
  | probeNo r' hp hq => show (s.pcH.set r _).getD r .done ≠ _; rw [hset]; intro e; cases e
  | recv r' hp hq => show (s.pcH.set r _).getD r .done ≠ _; rw [hset]; intro e; cases e
  | enter r' hp => show (s.pcH.set r _).getD r .done ≠ _; rw [hset]; intro e; cases e
  | leave r' hp ha => show (s.pcH.set r _).getD r .done ≠ _; rw [hset]; intro e; cases e

/-- **every collecting receive of rank 0 is served** (fairness): helper `k` is at `sendFirst`, where it
can always move, or one of its messages already waits; once a message of `k` waits rank 0 can move, and
its next protocol operation is the receive -/
theorem FairExec.collecting_ends (E : FairExec st act) (n k : Nat) (hd : (st n).pc0 = .collecting k) :
    ∃ m, n ≤ m ∧ (st m).pc0 ≠ .collecting k := by
  apply Classical.byContradiction
  intro hne
  have hall : ∀ m, n ≤ m → (st m).pc0 = .collecting k := by
    intro m hm
    apply Classical.byContradiction
    intro h
    exact hne ⟨m, hm, h⟩
  -- a message of `k` waits from some point on
  have h1 : ∃ n1, n ≤ n1 ∧ (takeFrom k (st n1).mbox).isSome = true := by
    obtain ⟨hk0, hkR⟩ := (E.inv n).collK k hd
    rcases (E.inv n).collWait k hd k (Nat.le_refl _) hkR with hs | hs
    · have hen : enabled (st n) k = true :=
        enabledH (E.inv n) hk0 hkR (by rw [hs]; intro e; cases e) (by rw [hs]; intro e; cases e)
      obtain ⟨m, hm, a, ha, har, hat⟩ := E.fair k n hen
      have hstep := E.exec.of_some ha
      refine ⟨m + 1, by omega, ?_⟩
      have hpc' := hall (m + 1) (by omega)
      obtain ⟨_, hkR'⟩ := (E.inv (m + 1)).collK k hpc'
      rcases (E.inv (m + 1)).collWait k hpc' k (Nat.le_refl _) hkR' with h2 | h2
      · exfalso
        rcases step_cases hstep with ⟨hr0, _⟩ | ⟨_, hR, hH⟩
        · omega
        · rw [har] at hH hR
          exact stepH_not_sendFirst (by rw [(E.inv m).lenPc]; exact hR) hH hat h2
      · exact h2
    · exact ⟨n, Nat.le_refl _, hs⟩
  obtain ⟨n1, hn1, htk⟩ := h1
  have hen : enabled (st n1) 0 = true := by
    apply enabled0 (E.inv n1)
    · rw [hall n1 hn1]; intro e; cases e
    · rw [hall n1 hn1]; intro e; cases e
    · intro k' e
      rw [hall n1 hn1] at e
      injection e with e; subst e; exact htk
  obtain ⟨m, hm, a, ha, har, hat⟩ := E.fair 0 n1 hen
  have hs := E.exec.of_some ha
  have hpc := hall m (by omega)
  have hpc' := hall (m + 1) (by omega)
  have hRpos := (E.inv m).Rpos
  rcases step_cases hs with ⟨_, h0⟩ | ⟨h0, _, _⟩
  · generalize st (m + 1) = s' at *
    cases h0 with
    | tick r hq => simp [isTick] at hat
    | collectNext r k' a' rest hq ht hk' =>
      rw [hpc] at hq; injection hq with hq; subst hq
      have : Pc0.collecting (k + 1) = Pc0.collecting k := hpc'
      injection this with this; omega
    | collectLast r k' a' rest hq ht hk' =>
      have := (finishCollect_facts { st m with mbox := rest, table := (st m).table.set k' (some a') } hRpos).2.2.1
      rw [hpc'] at this; cases this
    | evolve r k' hq => rw [hpc] at hq; cases hq
    | probeSome r q hq _ => rw [hpc] at hq; cases hq
    | probeLoop r hq _ _ => rw [hpc] at hq; cases hq
    | probeExit r hq _ _ => rw [hpc] at hq; cases hq
    | probeSomeF r q hq _ => rw [hpc] at hq; cases hq
    | probeDone r hq _ => rw [hpc] at hq; cases hq
    | recv r src a' rest hq _ => rw [hpc] at hq; cases hq
    | recvF r src a' rest hq _ => rw [hpc] at hq; cases hq
    | sendExit r k' hq _ => rw [hpc] at hq; cases hq
    | enter r hq => rw [hpc] at hq; cases hq
    | leave r hq _ => rw [hpc] at hq; cases hq
  · omega

/-- **rank 0 leaves its loop** -/
theorem FairExec.loop_ends (E : FairExec st act) {p q D : Nat} (hsp : SpeedBound st act p q D) (hpq : 2 * q < p) :
    ∀ n, ∃ m, n ≤ m ∧ pastLoop (st m) = true := by
  suffices H : ∀ k n, Mu (st n) ≤ k → ∃ m, n ≤ m ∧ pastLoop (st m) = true from fun n => H _ n (Nat.le_refl _)
  intro k
  induction k with
  | zero =>
    intro n hk
    -- `Mu = 0` cannot drop: rank 0 is past the loop already
    cases hp : (st n).pc0 with
    | evolving =>
      obtain ⟨m, hm, hne⟩ := E.evolving_ends n hp
      have : loopClass (st (n + (m - n))).pc0 ≠ loopClass (st n).pc0 := by
        rw [show n + (m - n) = m by omega, hp]
        intro e; apply hne
        cases hq : (st m).pc0 <;> rw [hq] at e <;> simp [loopClass] at e ⊢
      have := E.mu_drop n (m - n) this
      omega
    | draining o =>
      obtain ⟨m, hm, hne⟩ := E.drain_phase_ends hsp hpq n (by rw [hp]; rfl)
      have : loopClass (st (n + (m - n))).pc0 ≠ loopClass (st n).pc0 := by
        rw [show n + (m - n) = m by omega, hp]
        intro e
        cases hq : (st m).pc0 <;> rw [hq] at e hne <;> simp [loopClass, isDraining] at e hne <;> omega
      have := E.mu_drop n (m - n) this
      omega
    | collecting k0 =>
      obtain ⟨m, hm, hne⟩ := E.collecting_ends n k0 hp
      have : loopClass (st (n + (m - n))).pc0 ≠ loopClass (st n).pc0 := by
        rw [show n + (m - n) = m by omega, hp]
        intro e; apply hne
        cases hq : (st m).pc0 <;> rw [hq] at e <;> simp [loopClass] at e ⊢ <;> omega
      have := E.mu_drop n (m - n) this
      omega
    | _ => exact ⟨n, Nat.le_refl _, by simp [pastLoop, hp]⟩
  | succ k ih =>
    intro n hk
    cases hp : (st n).pc0 with
    | evolving =>
      obtain ⟨m, hm, hne⟩ := E.evolving_ends n hp
      have : loopClass (st (n + (m - n))).pc0 ≠ loopClass (st n).pc0 := by
        rw [show n + (m - n) = m by omega, hp]
        intro e; apply hne
        cases hq : (st m).pc0 <;> rw [hq] at e <;> simp [loopClass] at e ⊢
      have := E.mu_drop n (m - n) this
      rw [show n + (m - n) = m by omega] at this
      obtain ⟨m', hm', hg⟩ := ih m (by omega)
      exact ⟨m', by omega, hg⟩
    | draining o =>
      obtain ⟨m, hm, hne⟩ := E.drain_phase_ends hsp hpq n (by rw [hp]; rfl)
      have : loopClass (st (n + (m - n))).pc0 ≠ loopClass (st n).pc0 := by
        rw [show n + (m - n) = m by omega, hp]
        intro e
        cases hq : (st m).pc0 <;> rw [hq] at e hne <;> simp [loopClass, isDraining] at e hne <;> omega
      have := E.mu_drop n (m - n) this
      rw [show n + (m - n) = m by omega] at this
      obtain ⟨m', hm', hg⟩ := ih m (by omega)
      exact ⟨m', by omega, hg⟩
    | collecting k0 =>
      obtain ⟨m, hm, hne⟩ := E.collecting_ends n k0 hp
      have : loopClass (st (n + (m - n))).pc0 ≠ loopClass (st n).pc0 := by
        rw [show n + (m - n) = m by omega, hp]
        intro e; apply hne
        cases hq : (st m).pc0 <;> rw [hq] at e <;> simp [loopClass] at e ⊢ <;> omega
      have := E.mu_drop n (m - n) this
      rw [show n + (m - n) = m by omega] at this
      obtain ⟨m', hm', hg⟩ := ih m (by omega)
      exact ⟨m', by omega, hg⟩
    | _ => exact ⟨n, Nat.le_refl _, by simp [pastLoop, hp]⟩

/-! ## 3. from the loop to the barrier -/

theorem pastLoop_step {s s' : State} {a : Action} (h : step s a = some s') (hp : pastLoop s = true) :
    pastLoop s' = true := by
  rw [pastLoop_iff] at hp ⊢
  rcases step_cases h with ⟨_, h0⟩ | ⟨_, _, hH⟩
  · cases h0 with
    | tick r hq => exact hp
    | evolve r k hq => rw [hq] at hp; cases hp
    | probeSome r q hq _ => rw [hq] at hp; cases hp
    | probeLoop r hq _ _ => rw [hq] at hp; cases hp
    | probeExit r hq _ _ => rw [hq] at hp; cases hp
    | probeSomeF r q hq _ => rfl
    | probeDone r hq _ => rfl
    | collectNext r k a rest hq _ _ => rw [hq] at hp; simp only [loopClass] at hp; omega
    | collectLast r k a rest hq _ _ => rw [hq] at hp; simp only [loopClass] at hp; omega
    | recv r src a rest hq _ => rw [hq] at hp; cases hp
    | recvF r src a rest hq _ => rfl
    | sendExit r k hq _ => exact (afterExit_class _ _).1
    | enter r hq => rfl
    | leave r hq _ => rfl
  · rw [(stepH_frame0 hH).2.1]; exact hp

/-- between the loop and the barrier every protocol operation of rank 0 shortens its way -/
theorem barrier_step {s s' : State} {a : Action} (hp : pastLoop s = true) (hna : arrived0 s.pc0 = false)
    (h : step s a = some s') :
    ordPc s'.R 0 s'.pc0 ≤ ordPc s.R 0 s.pc0 ∧
    (a.rank = 0 → isTick a = false → ordPc s'.R 0 s'.pc0 < ordPc s.R 0 s.pc0) := by
  rcases step_cases h with ⟨_, h0⟩ | ⟨hr, _, hH⟩
  · cases h0 with
    | tick r hq => exact ⟨Nat.le_refl _, fun _ ht => by simp [isTick] at ht⟩
    | evolve r k hq => rw [pastLoop, hq] at hp; cases hp
    | probeSome r q hq _ => rw [pastLoop, hq] at hp; cases hp
    | probeLoop r hq _ _ => rw [pastLoop, hq] at hp; cases hp
    | probeExit r hq _ _ => rw [pastLoop, hq] at hp; cases hp
    | probeSomeF r q hq _ => rw [hq] at hna; cases hna
    | probeDone r hq _ => rw [hq] at hna; cases hna
    | collectNext r k a rest hq _ _ => rw [pastLoop, hq] at hp; cases hp
    | collectLast r k a rest hq _ _ => rw [pastLoop, hq] at hp; cases hp
    | recv r src a rest hq _ => rw [pastLoop, hq] at hp; cases hp
    | recvF r src a rest hq _ => rw [hq] at hna; cases hna
    | sendExit r k hq hk =>
      have := ordPc_afterExit_succ s.R 0 k hk
      have e : ordPc s.R 0 (Pc0.sendingExit k) = 4 + (s.R - k) := rfl
      simp only [hq, e]
      exact ⟨by omega, fun _ _ => by omega⟩
    | enter r hq =>
      simp only [hq, ordPc]
      exact ⟨by omega, fun _ _ => by omega⟩
    | leave r hq _ => rw [hq] at hna; cases hna
  · obtain ⟨_, e2, e3, _⟩ := stepH_frame0 hH
    rw [e2, e3]
    exact ⟨Nat.le_refl _, fun h0 _ => by omega⟩

/-- **rank 0 reaches the barrier** once it is past its loop -/
theorem FairExec.reaches_barrier (E : FairExec st act) (n1 : Nat) (hp : pastLoop (st n1) = true) :
    ∃ m, n1 ≤ m ∧ arrived0 (st m).pc0 = true := by
  have hpast : ∀ m, n1 ≤ m → pastLoop (st m) = true :=
    E.stable (fun s => pastLoop s = true) (fun _ hP hs => pastLoop_step hs hP) hp
  have hfalse : ∀ {n}, ¬ arrived0 (st n).pc0 = true → arrived0 (st n).pc0 = false := by
    intro n h; simpa using h
  refine E.eventually_dec (fun s => arrived0 s.pc0 = true) (fun s => ordPc s.R 0 s.pc0) (fun r => r = 0) n1
    ?_ ?_ ?_ n1 (Nat.le_refl _)
  · intro n hn hG
    refine ⟨0, rfl, enabled0 (E.inv n) ?_ ?_ ?_⟩
    · intro e; rw [e] at hG; exact hG rfl
    · intro e; rw [e] at hG; exact absurd rfl hG
    · intro k e; have := hpast n hn; rw [pastLoop, e] at this; cases this
  · intro n a hn hG ha
    exact (barrier_step (hpast n hn) (hfalse hG) (E.exec.of_some ha)).1
  · intro n a hn hG ha hr ht
    exact Or.inl ((barrier_step (hpast n hn) (hfalse hG) (E.exec.of_some ha)).2 hr ht)

/-! ## 4. from the barrier to the return of every rank -/

theorem arrived0_step {s s' : State} {a : Action} (h : step s a = some s') (hp : arrived0 s.pc0 = true) :
    arrived0 s'.pc0 = true := by
  rcases step_cases h with ⟨_, h0⟩ | ⟨_, _, hH⟩
  · cases h0 with
    | tick r hq => exact hp
    | evolve r k hq => rw [hq] at hp; cases hp
    | probeSome r q hq _ => rw [hq] at hp; cases hp
    | probeLoop r hq _ _ => rw [hq] at hp; cases hp
    | probeExit r hq _ _ => rw [hq] at hp; cases hp
    | probeSomeF r q hq _ => rfl
    | probeDone r hq _ => rfl
    | collectNext r k a rest hq _ _ => rw [hq] at hp; cases hp
    | collectLast r k a rest hq _ _ => rw [hq] at hp; cases hp
    | recv r src a rest hq _ => rw [hq] at hp; cases hp
    | recvF r src a rest hq _ => rfl
    | sendExit r k hq _ => rw [hq] at hp; cases hp
    | enter r hq => rfl
    | leave r hq _ => rfl
  · rw [(stepH_frame0 hH).2.1]; exact hp

theorem exitSent_of_arrived0 {p : Pc0} (h : arrived0 p = true) (r : Nat) : exitSent p r = true := by
  cases p <;> simp [arrived0, exitSent] at h ⊢

theorem list_set_getD_self {α} (d : α) : ∀ (l : List α) (i : Nat), l.set i (l.getD i d) = l
  | [], _ => rfl
  | x :: t, 0 => rfl
  | x :: t, i + 1 => by
    have := list_set_getD_self d t i
    simp at this ⊢
    exact this

/-- a transition of helper `r` changes at most entry `r` of the helper pcs -/
theorem stepH_pcH {s s' : State} {a : Action} {r : Nat} (hlen : r < s.pcH.length) (h : StepHC s r a s') :
    s'.pcH = s.pcH.set r (pcOf s' r) := by
  have hset : ∀ p, s.pcH.set r p = s.pcH.set r ((s.pcH.set r p).getD r .done) := by
    intro p; rw [pcOf_set s r r p hlen]; simp
  cases h with
  | tick r' hp => exact (list_set_getD_self .done s.pcH r).symm
  | evolve r' k hp => exact hset _
  | send r' hp => exact hset _
  | probeYes r' hp hq => exact hset _
  | probeNo r' hp hq => exact hset _
  | recv r' hp hq => exact hset _
  | enter r' hp => exact hset _
  | leave r' hp ha => exact hset _

/-- protocol operations the helpers still owe once every exit notification is out -/
def hPotSum (s : State) : Nat := (s.pcH.map hPot).sum

/-- variant of the last phase -/
def Vfin (s : State) : Nat := Phi s + 3 * hPotSum s

/-- once rank 0 is in the barrier, every protocol operation of every rank lowers `Vfin` -/
theorem vfin_step {s s' : State} {a : Action} (inv : Inv s) (mono : Mono s) (hk : slicePos a = true)
    (harr : arrived0 s.pc0 = true) (h : step s a = some s') :
    Vfin s' + (if nonTick a then 1 else 0) ≤ Vfin s := by
  rcases step_cases h with ⟨hr, h0⟩ | ⟨h0, hR, hH⟩
  · have h1 := phi_step0 inv mono hk hr h0
    have e : hPotSum s' = hPotSum s := by unfold hPotSum; rw [(step0_frame0 h0).1]
    simp only [Vfin, e, nonTick]
    by_cases ht : isTick a = true
    · simp only [ht, if_true, Bool.not_true, Bool.false_eq_true, if_false] at h1 ⊢; omega
    · have ht' : isTick a = false := by simpa using ht
      simp only [ht', Bool.false_eq_true, if_false, Bool.not_false, if_true] at h1 ⊢; omega
  · have hlen : a.rank < s.pcH.length := by rw [inv.lenPc]; exact hR
    have h1 := phi_stepH h0 rfl hH
    have h2 := hpot_step inv h0 hR (exitSent_of_arrived0 harr _) h
    have h3 := sum_map_set hPot .done s.pcH a.rank (pcOf s' a.rank) hlen
    rw [← stepH_pcH hlen hH] at h3
    have h4 : rProto a.rank a = nonTick a := by simp [rProto, nonTick]
    rw [h4] at h2
    have h5 : (s.pcH.getD a.rank .done) = pcOf s a.rank := rfl
    rw [h5] at h3
    simp only [Vfin, hPotSum, h1]
    by_cases hs : helperSend a = true
    · have hnt : nonTick a = true := by
        cases a <;> simp [helperSend, nonTick, isTick] at hs ⊢
      simp only [hs, hnt, if_true] at h2 ⊢
      omega
    · have hs' : helperSend a = false := by simpa using hs
      simp only [hs', Bool.false_eq_true, if_false] at h2 ⊢
      omega

/-- **every rank returns** once rank 0 is in the barrier -/
theorem FairExec.reaches_final (E : FairExec st act) (n2 : Nat) (hp : arrived0 (st n2).pc0 = true) :
    ∃ m, n2 ≤ m ∧ isFinal (st m) = true := by
  have harr : ∀ m, n2 ≤ m → arrived0 (st m).pc0 = true :=
    E.stable (fun s => arrived0 s.pc0 = true) (fun _ hP hs => arrived0_step hs hP) hp
  have hstep : ∀ n a, n2 ≤ n → act n = some a → Vfin (st (n + 1)) + (if nonTick a then 1 else 0) ≤ Vfin (st n) :=
    fun n a hn ha => vfin_step (E.inv n) (E.mono n) (E.slices n a ha) (harr n hn) (E.exec.of_some ha)
  refine E.eventually_dec (fun s => isFinal s = true) Vfin (fun _ => True) n2 ?_ ?_ ?_ n2 (Nat.le_refl _)
  · intro n hn hG
    have hnd := noDeadlock_of_inv (E.inv n)
    have hG' : isFinal (st n) = false := by simpa using hG
    simp only [noDeadlock, hG', Bool.false_or, List.any_eq_true, List.mem_range] at hnd
    obtain ⟨r, _, hen⟩ := hnd
    exact ⟨r, trivial, hen⟩
  · intro n a hn hG ha
    have := hstep n a hn ha
    omega
  · intro n a hn hG ha _ ht
    have := hstep n a hn ha
    simp only [nonTick, ht, Bool.not_false, if_true] at this
    exact Or.inl (by omega)

/-- **termination**: a fair execution whose drain phases obey the speed assumption returns on every rank -/
theorem FairExec.terminates (E : FairExec st act) {p q D : Nat} (hsp : SpeedBound st act p q D) (hpq : 2 * q < p) :
    ∃ n, isFinal (st n) = true := by
  obtain ⟨n1, _, h1⟩ := E.loop_ends hsp hpq 0
  obtain ⟨n2, _, h2⟩ := E.reaches_barrier n1 h1
  obtain ⟨n3, _, h3⟩ := E.reaches_final n2 h2
  exact ⟨n3, h3⟩

end

end C12
end Bingo
