import Model.ParArch
import Proofs.Lemmas.ParArchSteps
import Proofs.Lemmas.ParArchCore
/-!
# C12 -- inductive invariant of the ParallelArchipelago message protocol, the collecting loop

`CInv s`: what is true in every reachable state of one `_non_blocking_execution` call about the loop
`for source in range(1, comm_size): total_age.update(comm.recv(source=source, tag=AGE_UPDATE))` at the
start of `_non_blocking_execution_main` and about the island ages at the start of the call (`ages0`):

* every island age, every age in flight and every entry of `total_age` is at least the age of that
  island at the start of the call;
* while rank 0 stands before `recv(source=k)`: `0 < k < R`, `total_age` has exactly the keys `< k`,
  `target_total_age` is not yet assigned, and every helper `j ≥ k` either has not yet executed its first
  `_send_updated_age()` or a message of `j` waits in rank 0's mailbox (so the blocking receive is served);
* after the loop: `Σ ages0 + R * numSteps ≤ target_total_age`.
-/
set_option linter.unusedSimpArgs false
set_option linter.unusedVariables false
namespace Bingo
namespace C12
open ParArch

/-- rank 0 is in the collecting loop -/
def isCollecting : Pc0 → Bool
  | .collecting _ => true
  | _ => false

/-- age of island `r` at the start of the call -/
def age0 (s : State) (r : Nat) : Nat := s.ages0.getD r 0

structure CInv (s : State) : Prop where
  lenAges0 : s.ages0.length = s.R
  ageLo : ∀ r, age0 s r ≤ age s r
  boxLo : ∀ m, m ∈ s.mbox → age0 s m.1 ≤ m.2
  tabLo : ∀ r a, s.table.getD r none = some a → age0 s r ≤ a
  collK : ∀ k, s.pc0 = .collecting k → 0 < k ∧ k < s.R
  collSome : ∀ k, s.pc0 = .collecting k → ∀ j, j < k → (s.table.getD j none).isSome = true
  collNone : ∀ k, s.pc0 = .collecting k → ∀ j, k ≤ j → s.table.getD j none = none
  collGoal : ∀ k, s.pc0 = .collecting k → s.goal = 0
  collWait : ∀ k, s.pc0 = .collecting k → ∀ j, k ≤ j → j < s.R →
    pcOf s j = .sendFirst ∨ (takeFrom j s.mbox).isSome = true
  goalLo : isCollecting s.pc0 = false → s.ages0.sum + s.R * s.numSteps ≤ s.goal

theorem not_collecting {p : Pc0} (h : isCollecting p = false) (k : Nat) : p ≠ .collecting k := by
  intro e; rw [e] at h; cases h

theorem afterExit_not_collecting (R k : Nat) : isCollecting (afterExit R k) = false := by
  rcases afterExit_cases R k with ⟨_, e⟩ | ⟨_, e⟩ <;> rw [e] <;> rfl

/-! ## `takeFrom` -/

theorem takeFrom_isSome_iff {q : Nat} {l : List (Nat × Nat)} :
    (takeFrom q l).isSome = true ↔ ∃ m, m ∈ l ∧ m.1 = q := by
  induction l with
  | nil => simp [takeFrom]
  | cons x t ih =>
    obtain ⟨a, b⟩ := x
    simp only [takeFrom]
    by_cases hq : a = q
    · simp [hq]
    · simp only [hq, if_false]
      cases ht : takeFrom q t with
      | none =>
        rw [ht] at ih
        simp only [Option.isSome_none, Bool.false_eq_true, false_iff] at ih ⊢
        rintro ⟨m, hm, e⟩
        simp only [List.mem_cons] at hm
        rcases hm with hm | hm
        · subst hm; exact hq e
        · exact ih ⟨m, hm, e⟩
      | some p =>
        rw [ht] at ih
        simp only [Option.isSome_some, true_iff] at ih ⊢
        obtain ⟨m, hm, e⟩ := ih
        exact ⟨m, by simp [hm], e⟩

/-- `recv(source=src)` leaves the messages of the other sources in the mailbox -/
theorem takeFrom_rest_mem {src a : Nat} {l rest : List (Nat × Nat)} (h : takeFrom src l = some (a, rest))
    {m : Nat × Nat} (hm : m ∈ l) (hne : m.1 ≠ src) : m ∈ rest := by
  induction l generalizing a rest with
  | nil => simp at hm
  | cons x t ih =>
    obtain ⟨q, b⟩ := x
    simp only [takeFrom] at h
    by_cases hq : q = src
    · simp [hq] at h
      obtain ⟨h1, h2⟩ := h
      subst h2
      simp only [List.mem_cons] at hm
      rcases hm with hm | hm
      · subst hm; exact absurd hq hne
      · exact hm
    · simp only [hq, if_false] at h
      cases hr : takeFrom src t with
      | none => simp [hr] at h
      | some p =>
        obtain ⟨a', rest'⟩ := p
        simp [hr] at h
        obtain ⟨h1, h2⟩ := h
        subst h1 h2
        simp only [List.mem_cons] at hm ⊢
        rcases hm with hm | hm
        · exact Or.inl hm
        · exact Or.inr (ih hr hm)

/-! ## the start of a call -/

theorem cinv_collectStart (R sync n : Nat) (ages : List Nat) (hR : 1 < R) :
    CInv (collectStart R sync n ages) := by
  have hpc0 : (collectStart R sync n ages).pc0 = .collecting 1 := rfl
  have htab : ∀ j, (collectStart R sync n ages).table.getD j none = if j = 0 then some (ages.getD 0 0) else none := by
    intro j
    show ((List.replicate R none).set 0 (some (ages.getD 0 0))).getD j none = _
    rw [getD_set, getD_replicate]
    by_cases h0 : 0 = j
    · subst h0; simp; omega
    · have : ¬ j = 0 := fun e => h0 e.symm
      simp [h0, this]
  exact {
    lenAges0 := by simp [collectStart]
    ageLo := fun r => Nat.le_refl _
    boxLo := by intro m hm; simp [collectStart] at hm
    tabLo := by
      intro r a h
      rw [htab] at h
      split at h
      · rename_i e; subst e
        injection h with h; subst h
        show ((List.range R).map fun r => ages.getD r 0).getD 0 0 ≤ _
        rw [getD_map_range]; split <;> omega
      · cases h
    collK := by intro k h; rw [hpc0] at h; injection h with h; subst h; exact ⟨by omega, hR⟩
    collSome := by
      intro k h j hj
      rw [hpc0] at h; injection h with h; subst h
      have : j = 0 := by omega
      rw [htab]; simp [this]
    collNone := by
      intro k h j hj
      rw [hpc0] at h; injection h with h; subst h
      have : ¬ j = 0 := by omega
      rw [htab]; simp [this]
    collGoal := fun _ _ => rfl
    collWait := by
      intro k h j hj hjR
      rw [hpc0] at h; injection h with h; subst h
      left
      have hjR : j < R := hjR
      have : j ≠ 0 := by omega
      simp [collectStart, pcOf, getD_map_range, hjR, this]
    goalLo := by intro h; rw [hpc0] at h; cases h }

/-! ## preservation -/

/-- `CInv` of a state in which rank 0 is not collecting -/
theorem cinv_mk_nc {s : State} (hnc : isCollecting s.pc0 = false) (hlen : s.ages0.length = s.R)
    (hage : ∀ r, age0 s r ≤ age s r) (hbox : ∀ m, m ∈ s.mbox → age0 s m.1 ≤ m.2)
    (htab : ∀ r a, s.table.getD r none = some a → age0 s r ≤ a)
    (hgoal : s.ages0.sum + s.R * s.numSteps ≤ s.goal) : CInv s :=
  { lenAges0 := hlen, ageLo := hage, boxLo := hbox, tabLo := htab
    collK := fun k h => absurd h (not_collecting hnc k)
    collSome := fun k h => absurd h (not_collecting hnc k)
    collNone := fun k h => absurd h (not_collecting hnc k)
    collGoal := fun k h => absurd h (not_collecting hnc k)
    collWait := fun k h => absurd h (not_collecting hnc k)
    goalLo := fun _ => hgoal }

/-- a transition of rank 0 after the collecting loop: ages grow, the mailbox shrinks, new `total_age`
entries are at least the start ages -/
theorem cinv_nc {s s' : State} (h : CInv s) (hnc : isCollecting s.pc0 = false) (hnc' : isCollecting s'.pc0 = false)
    (eR : s'.R = s.R) (eN : s'.numSteps = s.numSteps) (eG : s'.goal = s.goal) (e0 : s'.ages0 = s.ages0)
    (hage : ∀ r, age s r ≤ age s' r) (hbox : ∀ m, m ∈ s'.mbox → m ∈ s.mbox)
    (htab : ∀ r a, s'.table.getD r none = some a → s.table.getD r none = some a ∨ age0 s r ≤ a) : CInv s' := by
  have ea : ∀ r, age0 s' r = age0 s r := by intro r; unfold age0; rw [e0]
  refine cinv_mk_nc hnc' (by rw [e0, eR]; exact h.lenAges0) ?_ ?_ ?_ ?_
  · intro r; rw [ea]; exact Nat.le_trans (h.ageLo r) (hage r)
  · intro m hm; rw [ea]; exact h.boxLo m (hbox m hm)
  · intro r a hr
    rw [ea]
    rcases htab r a hr with h1 | h1
    · exact h.tabLo r a h1
    · exact h1
  · rw [e0, eR, eN, eG]; exact h.goalLo hnc

theorem age_set_ge (s : State) (r v : Nat) (hv : age s r ≤ v) (r' : Nat) :
    age s r' ≤ (s.ages.set r v).getD r' 0 := by
  rw [getD_set]
  split
  · rename_i e; rw [← e.1]; exact hv
  · exact Nat.le_refl _

theorem table_set_cases (s : State) (i v r a : Nat) (h : (s.table.set i (some v)).getD r none = some a) :
    s.table.getD r none = some a ∨ (i = r ∧ a = v) := by
  rw [getD_set] at h
  split at h
  · rename_i e; injection h with h; exact Or.inr ⟨e.1, h.symm⟩
  · exact Or.inl h

theorem cinv_step0_nc {s s' : State} {a : Action} (h : CInv s) (hnc : isCollecting s.pc0 = false)
    (hs : Step0 s a s') : CInv s' := by
  cases hs with
  | tick r hpc => exact h
  | evolve r k hpc =>
    refine cinv_nc h hnc rfl rfl rfl rfl rfl (age_set_ge s 0 _ (Nat.le_add_right _ _)) (fun m hm => hm) ?_
    intro r' a' hr
    rcases table_set_cases s 0 _ r' a' hr with h1 | ⟨e, h1⟩
    · exact Or.inl h1
    · right; subst e; rw [h1]; exact Nat.le_trans (h.ageLo 0) (Nat.le_add_right _ _)
  | probeSome r q hpc hq => exact cinv_nc h hnc rfl rfl rfl rfl rfl (fun _ => Nat.le_refl _) (fun m hm => hm) (fun _ _ hr => Or.inl hr)
  | probeLoop r hpc hq hb => exact cinv_nc h hnc rfl rfl rfl rfl rfl (fun _ => Nat.le_refl _) (fun m hm => hm) (fun _ _ hr => Or.inl hr)
  | probeExit r hpc hq hb =>
    exact cinv_nc h hnc (afterExit_not_collecting _ _) rfl rfl rfl rfl (fun _ => Nat.le_refl _) (fun m hm => hm)
      (fun _ _ hr => Or.inl hr)
  | probeSomeF r q hpc hq => exact cinv_nc h hnc rfl rfl rfl rfl rfl (fun _ => Nat.le_refl _) (fun m hm => hm) (fun _ _ hr => Or.inl hr)
  | probeDone r hpc hq => exact cinv_nc h hnc rfl rfl rfl rfl rfl (fun _ => Nat.le_refl _) (fun m hm => hm) (fun _ _ hr => Or.inl hr)
  | collectNext r k a rest hpc ht hk => rw [hpc] at hnc; cases hnc
  | collectLast r k a rest hpc ht hk => rw [hpc] at hnc; cases hnc
  | recv r src a rest hpc ht =>
    obtain ⟨hmem, hsub⟩ := takeFrom_spec ht
    refine cinv_nc h hnc rfl rfl rfl rfl rfl (fun _ => Nat.le_refl _) hsub ?_
    intro r' a' hr
    rcases table_set_cases s src _ r' a' hr with h1 | ⟨e, h1⟩
    · exact Or.inl h1
    · right; subst e; rw [h1]; exact h.boxLo _ hmem
  | recvF r src a rest hpc ht =>
    obtain ⟨hmem, hsub⟩ := takeFrom_spec ht
    refine cinv_nc h hnc rfl rfl rfl rfl rfl (fun _ => Nat.le_refl _) hsub ?_
    intro r' a' hr
    rcases table_set_cases s src _ r' a' hr with h1 | ⟨e, h1⟩
    · exact Or.inl h1
    · right; subst e; rw [h1]; exact h.boxLo _ hmem
  | sendExit r k hpc hk =>
    exact cinv_nc h hnc (afterExit_not_collecting _ _) rfl rfl rfl rfl (fun _ => Nat.le_refl _) (fun m hm => hm)
      (fun _ _ hr => Or.inl hr)
  | enter r hpc => exact cinv_nc h hnc rfl rfl rfl rfl rfl (fun _ => Nat.le_refl _) (fun m hm => hm) (fun _ _ hr => Or.inl hr)
  | leave r hpc ha =>
    refine cinv_nc h hnc rfl rfl rfl rfl rfl (fun _ => Nat.le_refl _) (fun m hm => hm) ?_
    intro r' a' hr
    rcases table_set_cases s 0 _ r' a' hr with h1 | ⟨e, h1⟩
    · exact Or.inl h1
    · right; subst e; rw [h1]; exact h.ageLo 0

/-- if every key is present with a value at least the start age, `Σ ages0 ≤ sum(total_age.values())` -/
theorem sum_le_tableSum : ∀ (t : List (Option Nat)) (a0 : List Nat), t.length = a0.length →
    (∀ r, r < a0.length → a0.getD r 0 ≤ (t.getD r none).getD 0) → a0.sum ≤ tableSum t
  | [], [], _, _ => by simp [tableSum]
  | [], _ :: _, h, _ => by simp at h
  | _ :: _, [], h, _ => by simp at h
  | x :: t, y :: a, h, hp => by
    have ih := sum_le_tableSum t a (by simpa using h) (fun r hr => by simpa using hp (r + 1) (by simp; omega))
    have h0 := hp 0 (by simp)
    simp [tableSum] at ih h0 ⊢
    omega

/-- the data part of a collecting receive: `total_age.update(comm.recv(source=k, tag=AGE_UPDATE))` -/
theorem cinv_collectNext {s : State} (core : InvCore s) (h : CInv s) {k a : Nat} {rest : List (Nat × Nat)}
    (hpc : s.pc0 = .collecting k) (ht : takeFrom k s.mbox = some (a, rest)) (hk : k + 1 < s.R) :
    CInv { s with mbox := rest, table := s.table.set k (some a), pc0 := .collecting (k + 1) } := by
  obtain ⟨hmem, hsub⟩ := takeFrom_spec ht
  obtain ⟨hk0, hkR⟩ := h.collK k hpc
  exact {
    lenAges0 := h.lenAges0
    ageLo := h.ageLo
    boxLo := fun m hm => h.boxLo m (hsub m hm)
    tabLo := by
      intro r' a' hr
      rcases table_set_cases s k _ r' a' hr with h1 | ⟨e, h1⟩
      · exact h.tabLo r' a' h1
      · subst e; rw [h1]; exact h.boxLo _ hmem
    collK := by intro k' e; injection e with e; subst e; exact ⟨by omega, hk⟩
    collSome := by
      intro k' e j hj
      injection e with e; subst e
      show ((s.table.set k (some a)).getD j none).isSome = true
      rw [getD_set, core.lenTable]
      by_cases hjk : k = j
      · subst hjk; simp only [hkR, and_self, if_true]; rfl
      · simp only [hjk, false_and, if_false]; exact h.collSome k hpc j (by omega)
    collNone := by
      intro k' e j hj
      injection e with e; subst e
      show (s.table.set k (some a)).getD j none = none
      rw [getD_set]
      have : ¬ (k = j ∧ k < s.table.length) := by omega
      simp only [this, if_false]; exact h.collNone k hpc j (by omega)
    collGoal := fun _ _ => h.collGoal k hpc
    collWait := by
      intro k' e j hj hjR
      injection e with e; subst e
      rcases h.collWait k hpc j (by omega) hjR with h1 | h1
      · exact Or.inl h1
      · right
        rw [takeFrom_isSome_iff] at h1 ⊢
        obtain ⟨m, hm, e⟩ := h1
        exact ⟨m, takeFrom_rest_mem ht hm (by omega), e⟩
    goalLo := by intro hc; cases hc }

/-- the last collecting receive and `target_total_age = sum(total_age.values()) + num_steps * comm_size` -/
theorem cinv_collectLast {s : State} (core : InvCore s) (h : CInv s) {k a : Nat} {rest : List (Nat × Nat)}
    (hpc : s.pc0 = .collecting k) (ht : takeFrom k s.mbox = some (a, rest)) (hk : ¬ k + 1 < s.R) :
    CInv (finishCollect { s with mbox := rest, table := s.table.set k (some a) }) := by
  obtain ⟨hmem, hsub⟩ := takeFrom_spec ht
  obtain ⟨hk0, hkR⟩ := h.collK k hpc
  have htl : ∀ r' a', (s.table.set k (some a)).getD r' none = some a' → age0 s r' ≤ a' := by
    intro r' a' hr
    rcases table_set_cases s k _ r' a' hr with h1 | ⟨e, h1⟩
    · exact h.tabLo r' a' h1
    · subst e; rw [h1]; exact h.boxLo _ hmem
  refine cinv_mk_nc ?_ h.lenAges0 h.ageLo (fun m hm => h.boxLo m (hsub m hm)) htl ?_
  · show isCollecting (if _ then Pc0.evolving else afterExit s.R 1) = false
    split
    · rfl
    · exact afterExit_not_collecting _ _
  · show s.ages0.sum + s.R * s.numSteps ≤ tableSum (s.table.set k (some a)) + s.numSteps * s.R
    have hsum : s.ages0.sum ≤ tableSum (s.table.set k (some a)) := by
      apply sum_le_tableSum
      · simp [core.lenTable, h.lenAges0]
      · intro r' hr'
        rw [h.lenAges0] at hr'
        by_cases hrk : r' < k
        · have hsome := h.collSome k hpc r' hrk
          have hne : ¬ (k = r' ∧ k < s.table.length) := by omega
          rw [getD_set]
          simp only [hne, if_false]
          cases hv : s.table.getD r' none with
          | none => rw [hv] at hsome; cases hsome
          | some v => exact h.tabLo r' v hv
        · have : r' = k := by omega
          subst this
          rw [getD_set, core.lenTable]
          simp only [hkR, and_self, if_true]
          exact h.boxLo _ hmem
    rw [Nat.mul_comm s.numSteps s.R]
    omega

/-- every transition of rank 0 preserves `CInv` -/
theorem cinv_step0 {s s' : State} {a : Action} (core : InvCore s) (h : CInv s) (hs : Step0 s a s') : CInv s' := by
  cases hnc : isCollecting s.pc0 with
  | false => exact cinv_step0_nc h hnc hs
  | true =>
    cases hs with
    | collectNext r k a rest hpc ht hk => exact cinv_collectNext core h hpc ht hk
    | collectLast r k a rest hpc ht hk => exact cinv_collectLast core h hpc ht hk
    | tick r hpc => exact h
    | evolve r k hpc => rw [hpc] at hnc; cases hnc
    | probeSome r q hpc hq => rw [hpc] at hnc; cases hnc
    | probeLoop r hpc hq hb => rw [hpc] at hnc; cases hnc
    | probeExit r hpc hq hb => rw [hpc] at hnc; cases hnc
    | probeSomeF r q hpc hq => rw [hpc] at hnc; cases hnc
    | probeDone r hpc hq => rw [hpc] at hnc; cases hnc
    | recv r src a rest hpc ht => rw [hpc] at hnc; cases hnc
    | recvF r src a rest hpc ht => rw [hpc] at hnc; cases hnc
    | sendExit r k hpc hk => rw [hpc] at hnc; cases hnc
    | enter r hpc => rw [hpc] at hnc; cases hnc
    | leave r hpc ha => rw [hpc] at hnc; cases hnc

/-! ### helpers -/

/-- a transition of a helper: rank 0's pc and `total_age` stay, ages grow, new messages carry current
ages, and a helper leaves `sendFirst` only by sending -/
theorem cinv_helper {s s' : State} (h : CInv s) (epc : s'.pc0 = s.pc0) (eR : s'.R = s.R)
    (eN : s'.numSteps = s.numSteps) (eG : s'.goal = s.goal) (e0 : s'.ages0 = s.ages0) (eT : s'.table = s.table)
    (hage : ∀ r, age s r ≤ age s' r)
    (hbox : ∀ m, m ∈ s'.mbox → m ∈ s.mbox ∨ age0 s m.1 ≤ m.2)
    (hwait : ∀ j, (pcOf s j = .sendFirst ∨ (takeFrom j s.mbox).isSome = true) →
      (pcOf s' j = .sendFirst ∨ (takeFrom j s'.mbox).isSome = true)) : CInv s' := by
  have ea : ∀ r, age0 s' r = age0 s r := by intro r; unfold age0; rw [e0]
  exact {
    lenAges0 := by rw [e0, eR]; exact h.lenAges0
    ageLo := by intro r; rw [ea]; exact Nat.le_trans (h.ageLo r) (hage r)
    boxLo := by
      intro m hm; rw [ea]
      rcases hbox m hm with h1 | h1
      · exact h.boxLo m h1
      · exact h1
    tabLo := by intro r a hr; rw [ea]; rw [eT] at hr; exact h.tabLo r a hr
    collK := by intro k hk; rw [epc] at hk; rw [eR]; exact h.collK k hk
    collSome := by intro k hk; rw [epc] at hk; rw [eT]; exact h.collSome k hk
    collNone := by intro k hk; rw [epc] at hk; rw [eT]; exact h.collNone k hk
    collGoal := by intro k hk; rw [epc] at hk; rw [eG]; exact h.collGoal k hk
    collWait := by
      intro k hk j hj hjR
      rw [epc] at hk; rw [eR] at hjR
      exact hwait j (h.collWait k hk j hj hjR)
    goalLo := by intro hc; rw [epc] at hc; rw [e0, eR, eN, eG]; exact h.goalLo hc }

/-- a pc change of helper `r` that does not start at `sendFirst` keeps "at `sendFirst` or a message waits" -/
theorem wait_setPc {s : State} {r : Nat} (p : PcH) (hne : pcOf s r ≠ .sendFirst) (j : Nat)
    (hw : pcOf s j = .sendFirst ∨ (takeFrom j s.mbox).isSome = true) :
    (s.pcH.set r p).getD j .done = .sendFirst ∨ (takeFrom j s.mbox).isSome = true := by
  rcases hw with h1 | h1
  · left
    have : r ≠ j := by intro e; subst e; exact hne h1
    rw [getD_set]; simp only [this, false_and, if_false]; exact h1
  · exact Or.inr h1

theorem cinv_stepH {s s' : State} {a : Action} {r : Nat} (h : CInv s) (hs : StepHC s r a s') : CInv s' := by
  cases hs with
  | tick r' hpc => exact h
  | evolve r' k hpc =>
    exact cinv_helper h rfl rfl rfl rfl rfl rfl (age_set_ge s r _ (Nat.le_add_right _ _)) (fun m hm => Or.inl hm)
      (wait_setPc _ (by rw [hpc]; intro e; cases e))
  | send r' hpc =>
    refine cinv_helper h rfl rfl rfl rfl rfl rfl (fun _ => Nat.le_refl _) ?_ ?_
    · intro m hm
      have hm' : m ∈ s.mbox ++ [(r, age s r)] := hm
      rw [List.mem_append] at hm'
      rcases hm' with hm' | hm'
      · exact Or.inl hm'
      · simp at hm'; subst hm'; exact Or.inr (h.ageLo r)
    · intro j hw
      show (s.pcH.set r .checking).getD j .done = .sendFirst ∨ (takeFrom j (s.mbox ++ [(r, age s r)])).isSome = true
      by_cases hjr : r = j
      · right; rw [takeFrom_isSome_iff]; exact ⟨(r, age s r), by simp, hjr⟩
      · rcases hw with h1 | h1
        · left; rw [getD_set]; simp only [hjr, false_and, if_false]; exact h1
        · right; exact takeFrom_append _ h1
  | probeYes r' hpc hq =>
    exact cinv_helper h rfl rfl rfl rfl rfl rfl (fun _ => Nat.le_refl _) (fun m hm => Or.inl hm)
      (wait_setPc _ (by rw [hpc]; intro e; cases e))
  | probeNo r' hpc hq =>
    exact cinv_helper h rfl rfl rfl rfl rfl rfl (fun _ => Nat.le_refl _) (fun m hm => Or.inl hm)
      (wait_setPc _ (by rw [hpc]; intro e; cases e))
  | recv r' hpc hq =>
    exact cinv_helper h rfl rfl rfl rfl rfl rfl (fun _ => Nat.le_refl _) (fun m hm => Or.inl hm)
      (wait_setPc _ (by rw [hpc]; intro e; cases e))
  | enter r' hpc =>
    exact cinv_helper h rfl rfl rfl rfl rfl rfl (fun _ => Nat.le_refl _) (fun m hm => Or.inl hm)
      (wait_setPc _ (by rw [hpc]; intro e; cases e))
  | leave r' hpc ha =>
    exact cinv_helper h rfl rfl rfl rfl rfl rfl (fun _ => Nat.le_refl _) (fun m hm => Or.inl hm)
      (wait_setPc _ (by rw [hpc]; intro e; cases e))

/-- `CInv` is preserved by every transition of the model -/
theorem cinv_step {s s' : State} {a : Action} (core : InvCore s) (h : CInv s) (hs : step s a = some s') : CInv s' := by
  rcases step_cases hs with ⟨_, h0⟩ | ⟨_, _, hH⟩
  · exact cinv_step0 core h h0
  · exact cinv_stepH h hH

end C12
end Bingo
