import Model.StringsTok
import Proofs.Lemmas.StrTrees
import Proofs.Lemmas.ListAux
/-!
# The postfix evaluator `postfixToCommands`: structural invariants (core only, no Mathlib)

* `stepArgs` : one loop iteration, reduced to "which command is pushed on which remaining stack".
* `PInv`     : loop invariant: stack entries are row indices; operator rows reference earlier rows; rows are
  pairwise distinct; every row is on the stack or referenced by a later operator row (so the last row is the
  root whenever the final stack has one entry, in spite of sharing).
* `push_trees`: the tree of the pushed row, whether it was shared (`findIdx?` hit) or appended.
-/
namespace Bingo
namespace Str
namespace Post
open Bingo.Str.Tables Gen.OpDefs

/-! ## derived `BEq` on `Cmd` -/

theorem cmd_beq_iff (a b : Cmd) : (a == b) = true ↔ a = b := by
  cases a; cases b
  simp [BEq.beq, instBEqCmd.beq]

/-! ## one iteration -/

/-- the arguments `(remaining stack, constants, command)` of `pushCommand` in one iteration of the loop;
`none` = the iteration raises -/
def stepArgs (st : PState) (tok : String) : Option (List Nat × List String × Cmd) :=
  if operators.contains tok then
    match st.stack with
    | b :: a :: rest => (operator_map.lookup tok).map fun node => (rest, st.consts, ⟨node, a, b⟩)
    | _ => none
  else if functions.contains tok then
    match st.stack with
    | a :: rest => (operator_map.lookup tok).map fun node => (rest, st.consts, ⟨node, a, a⟩)
    | [] => none
  else
    match matchVarOrConst tok.toList with
    | some (g0, g1) =>
      (operator_map.lookup (String.ofList [g0])).bind fun node =>
        if g1.length ≤ intMaxStrDigits then
          some (st.stack, st.consts, ⟨node, (digitsToNat g1 : Nat), (digitsToNat g1 : Nat)⟩)
        else none
    | none =>
      if matchInt tok.toList then
        if tok.toList.length ≤ intMaxStrDigits then
          some (st.stack, st.consts,
            ⟨NODE_INTEGER, (digitsToNat tok.toList : Nat), (digitsToNat tok.toList : Nat)⟩)
        else none
      else if pyFloatOk tok.toList then
        some (st.stack, st.consts ++ [tok],
          ⟨NODE_CONSTANT, (st.consts.length : Nat), (st.consts.length : Nat)⟩)
      else none

/-! ## table facts -/

theorem ops_table : operators.all (fun t => match operator_map.lookup t with
    | some n => Ops.isTerminal n == some false && Ops.isArity2 n == some true
    | none => false) = true := by decide

theorem fns_table : functions.all (fun t => !operators.contains t && match operator_map.lookup t with
    | some n => Ops.isTerminal n == some false && Ops.isArity2 n == some false
    | none => false) = true := by decide

theorem op_node {tok : String} {node : Int} (ho : operators.contains tok = true)
    (hl : operator_map.lookup tok = some node) :
    Ops.isTerminal node = some false ∧ Ops.isArity2 node = some true := by
  have := List.all_eq_true.mp ops_table tok (List.contains_iff_mem.mp ho)
  simp only [hl, Bool.and_eq_true, beq_iff_eq] at this
  exact this

theorem fn_node {tok : String} {node : Int} (hf : functions.contains tok = true)
    (hl : operator_map.lookup tok = some node) :
    Ops.isTerminal node = some false ∧ Ops.isArity2 node = some false := by
  have := List.all_eq_true.mp fns_table tok (List.contains_iff_mem.mp hf)
  simp only [hl, Bool.and_eq_true, beq_iff_eq] at this
  exact this.2

theorem op_lookup_isSome {tok : String} (ho : operators.contains tok = true) :
    ∃ node, operator_map.lookup tok = some node := by
  have := List.all_eq_true.mp ops_table tok (List.contains_iff_mem.mp ho)
  cases hl : operator_map.lookup tok with
  | none => simp [hl] at this
  | some n => exact ⟨n, rfl⟩

theorem fn_lookup_isSome {tok : String} (hf : functions.contains tok = true) :
    ∃ node, operator_map.lookup tok = some node := by
  have := List.all_eq_true.mp fns_table tok (List.contains_iff_mem.mp hf)
  cases hl : operator_map.lookup tok with
  | none => simp [hl] at this
  | some n => exact ⟨n, rfl⟩

theorem matchVarOrConst_some {t : List Char} {g0 : Char} {g1 : List Char}
    (h : matchVarOrConst t = some (g0, g1)) :
    (g0 = 'X' ∨ g0 = 'x' ∨ g0 = 'C' ∨ g0 = 'c') ∧ matchInt g1 = true ∧ t = g0 :: '_' :: g1 := by
  unfold matchVarOrConst at h
  split at h
  · next c ds =>
    split at h
    · next hc =>
      simp only [Option.some.injEq, Prod.mk.injEq] at h
      obtain ⟨rfl, rfl⟩ := h
      simp only [Bool.and_eq_true, Bool.or_eq_true, beq_iff_eq] at hc
      refine ⟨?_, hc.2, rfl⟩
      rcases hc.1 with ((h | h) | h) | h <;> simp [h]
    · cases h
  · cases h

theorem name_lookup {g0 : Char} (h : g0 = 'X' ∨ g0 = 'x' ∨ g0 = 'C' ∨ g0 = 'c') :
    operator_map.lookup (String.ofList [g0]) =
      some (if g0 = 'X' ∨ g0 = 'x' then VARIABLE else CONSTANT) := by
  rcases h with rfl | rfl | rfl | rfl <;> decide

theorem pyInt_eq (ds : List Char) :
    pyInt ds = if ds.length ≤ intMaxStrDigits then .ok ((digitsToNat ds : Nat) : Int)
      else .error "ValueError: Exceeds the limit (4300 digits) for integer string conversion" := by
  unfold pyInt
  by_cases h : ds.length > intMaxStrDigits
  · rw [if_pos h, if_neg (by omega)]; rfl
  · rw [if_neg h, if_pos (by omega)]; rfl

theorem postfixStep_some {st : PState} {tok : String} {stk : List Nat} {cs : List String} {c : Cmd}
    (h : stepArgs st tok = some (stk, cs, c)) : postfixStep st tok = .ok (pushCommand st stk cs c) := by
  unfold stepArgs at h
  unfold postfixStep
  split at h
  · next ho =>
    rw [if_pos ho]
    split at h
    · next heq =>
      simp only [heq, opMap]
      cases hl : operator_map.lookup tok with
      | none => simp [hl] at h
      | some node =>
        simp only [hl, Option.map_some, Option.some.injEq, Prod.mk.injEq] at h
        obtain ⟨rfl, rfl, rfl⟩ := h
        rfl
    · cases h
  · next ho =>
    rw [if_neg ho]
    split at h
    · next hf =>
      rw [if_pos hf]
      split at h
      · next heq =>
        simp only [heq, opMap]
        cases hl : operator_map.lookup tok with
        | none => simp [hl] at h
        | some node =>
          simp only [hl, Option.map_some, Option.some.injEq, Prod.mk.injEq] at h
          obtain ⟨rfl, rfl, rfl⟩ := h
          rfl
      · cases h
    · next hf =>
      rw [if_neg hf]
      simp only
      split at h
      · next g0 g1 heq =>
        have hl := name_lookup (matchVarOrConst_some heq).1
        simp only [heq, opMap, pyInt_eq, hl]
        rw [hl] at h
        simp only [Option.bind_some] at h
        split at h
        · next hlen =>
          simp only [Option.some.injEq, Prod.mk.injEq] at h
          obtain ⟨rfl, rfl, rfl⟩ := h
          rw [if_pos hlen]
          rfl
        · cases h
      · next heq =>
        simp only [heq]
        split at h
        · next hi =>
          rw [if_pos hi, pyInt_eq]
          split at h
          · next hlen =>
            simp only [Option.some.injEq, Prod.mk.injEq] at h
            obtain ⟨rfl, rfl, rfl⟩ := h
            rw [if_pos hlen]
            rfl
          · cases h
        · next hi =>
          rw [if_neg hi]
          split at h
          · next hf =>
            simp only [Option.some.injEq, Prod.mk.injEq] at h
            obtain ⟨rfl, rfl, rfl⟩ := h
            rw [if_pos hf]
            rfl
          · cases h

theorem postfixStep_none {st : PState} {tok : String} (h : stepArgs st tok = none) :
    ∃ e, postfixStep st tok = .error e := by
  unfold stepArgs at h
  unfold postfixStep
  split at h
  · next ho =>
    rw [if_pos ho]
    split at h
    · next heq =>
      simp only [heq, opMap]
      cases hl : operator_map.lookup tok with
      | none => exact ⟨_, rfl⟩
      | some node => simp [hl] at h
    · next hne =>
      split
      · next heq => exact absurd heq (hne _ _ _)
      · exact ⟨_, rfl⟩
  · next ho =>
    rw [if_neg ho]
    split at h
    · next hf =>
      rw [if_pos hf]
      split at h
      · next heq =>
        simp only [heq, opMap]
        cases hl : operator_map.lookup tok with
        | none => exact ⟨_, rfl⟩
        | some node => simp [hl] at h
      · next heq => simp only [heq]; exact ⟨_, rfl⟩
    · next hf =>
      rw [if_neg hf]
      simp only
      split at h
      · next g0 g1 heq =>
        have hl := name_lookup (matchVarOrConst_some heq).1
        simp only [heq, opMap, pyInt_eq, hl]
        rw [hl] at h
        simp only [Option.bind_some] at h
        split at h
        · cases h
        · next hlen => rw [if_neg hlen]; exact ⟨_, rfl⟩
      · next heq =>
        simp only [heq]
        split at h
        · next hi =>
          rw [if_pos hi, pyInt_eq]
          split at h
          · cases h
          · next hlen => rw [if_neg hlen]; exact ⟨_, rfl⟩
        · next hi =>
          rw [if_neg hi]
          split at h
          · cases h
          · next hf =>
            rw [if_neg hf]
            cases pyFormat MSG_UNKNOWN_TOKEN [tok] with
            | error e => exact ⟨_, rfl⟩
            | ok m => exact ⟨_, rfl⟩

theorem postfixStep_ok_iff {st st1 : PState} {tok : String} :
    postfixStep st tok = .ok st1 ↔
      ∃ stk cs c, stepArgs st tok = some (stk, cs, c) ∧ st1 = pushCommand st stk cs c := by
  constructor
  · intro h
    cases ha : stepArgs st tok with
    | none =>
      obtain ⟨e, he⟩ := postfixStep_none ha
      rw [he] at h; cases h
    | some r =>
      obtain ⟨stk, cs, c⟩ := r
      rw [postfixStep_some ha] at h
      cases h
      exact ⟨stk, cs, c, rfl, rfl⟩
  · rintro ⟨stk, cs, c, ha, rfl⟩
    exact postfixStep_some ha

/-! ## shape of the rows -/

/-- an operator row referencing earlier rows, or a terminal row with a non-negative parameter -/
def RowShape (i : Nat) (c : Cmd) : Prop :=
  (Ops.isTerminal c.node = some false ∧
      (Ops.isArity2 c.node = some true ∨ Ops.isArity2 c.node = some false) ∧
      0 ≤ c.p1 ∧ c.p1 < i ∧ 0 ≤ c.p2 ∧ c.p2 < i) ∨
    ((c.node = VARIABLE ∨ c.node = CONSTANT ∨ c.node = INTEGER) ∧ 0 ≤ c.p1)

theorem leaf_isTerminal {n : Int} (h : n = VARIABLE ∨ n = CONSTANT ∨ n = INTEGER) :
    Ops.isTerminal n = some true ∧ Ops.isArity2 n = some false := by
  rcases h with rfl | rfl | rfl <;> decide

theorem RowShape.rowRef {i : Nat} {c : Cmd} (h : RowShape i c) : StrTrees.RowRef i c := by
  rcases h with ⟨_, _, h1, h2, h3, h4⟩ | ⟨h, _⟩
  · exact Or.inr ⟨h1, h2, h3, h4⟩
  · exact Or.inl (leaf_isTerminal h).1

theorem RowShape.mono {i j : Nat} {c : Cmd} (h : RowShape i c) (hij : i ≤ j) : RowShape j c := by
  rcases h with ⟨a, b, h1, h2, h3, h4⟩ | h
  · exact Or.inl ⟨a, b, h1, by omega, h3, by omega⟩
  · exact Or.inr h

/-- `c` is an operator row with `i` among its parameters -/
def Refs (c : Cmd) (i : Nat) : Prop :=
  Ops.isTerminal c.node = some false ∧ (c.p1 = (i : Int) ∨ c.p2 = (i : Int))

theorem RowShape.refs_lt {k i : Nat} {c : Cmd} (h : RowShape k c) (hr : Refs c i) : i < k := by
  rcases h with ⟨_, _, h1, h2, h3, h4⟩ | ⟨h, _⟩
  · rcases hr.2 with e | e <;> omega
  · have := (leaf_isTerminal h).1
    rw [hr.1] at this; cases this

/-- what `stepArgs` hands to `pushCommand` -/
structure ArgsOK (st : PState) (stk : List Nat) (c : Cmd) : Prop where
  sub : ∀ j ∈ stk, j ∈ st.stack
  shape : RowShape st.cmds.length c
  pop : ∀ j ∈ st.stack, j ∈ stk ∨ Refs c j

theorem stepArgs_ok {st : PState} {tok : String} {stk : List Nat} {cs : List String} {c : Cmd}
    (hstk : ∀ j ∈ st.stack, j < st.cmds.length) (h : stepArgs st tok = some (stk, cs, c)) :
    ArgsOK st stk c := by
  unfold stepArgs at h
  split at h
  · next ho =>
    split at h
    · next b a rest heq =>
      cases hl : operator_map.lookup tok with
      | none => simp [hl] at h
      | some node =>
        simp only [hl, Option.map_some, Option.some.injEq, Prod.mk.injEq] at h
        obtain ⟨rfl, rfl, rfl⟩ := h
        have hn := op_node ho hl
        have ha := hstk a (by simp [heq])
        have hb := hstk b (by simp [heq])
        refine ⟨?_, Or.inl ⟨hn.1, Or.inl hn.2, ?_, ?_, ?_, ?_⟩, ?_⟩
        · intro j hj; simp [heq, hj]
        all_goals try (simp only; omega)
        · intro j hj
          simp only [heq, List.mem_cons] at hj
          rcases hj with rfl | rfl | hj
          · exact Or.inr ⟨hn.1, Or.inr rfl⟩
          · exact Or.inr ⟨hn.1, Or.inl rfl⟩
          · exact Or.inl hj
    · cases h
  · split at h
    · next hf =>
      split at h
      · next a rest heq =>
        cases hl : operator_map.lookup tok with
        | none => simp [hl] at h
        | some node =>
          simp only [hl, Option.map_some, Option.some.injEq, Prod.mk.injEq] at h
          obtain ⟨rfl, rfl, rfl⟩ := h
          have hn := fn_node hf hl
          have ha := hstk a (by simp [heq])
          refine ⟨?_, Or.inl ⟨hn.1, Or.inr hn.2, ?_, ?_, ?_, ?_⟩, ?_⟩
          · intro j hj; simp [heq, hj]
          all_goals try (simp only; omega)
          · intro j hj
            simp only [heq, List.mem_cons] at hj
            rcases hj with rfl | hj
            · exact Or.inr ⟨hn.1, Or.inl rfl⟩
            · exact Or.inl hj
      · cases h
    · split at h
      · next g0 g1 heq =>
        have hm := matchVarOrConst_some heq
        rw [name_lookup hm.1] at h
        simp only [Option.bind_some] at h
        split at h
        · simp only [Option.some.injEq, Prod.mk.injEq] at h
          obtain ⟨rfl, rfl, rfl⟩ := h
          refine ⟨fun j hj => hj, Or.inr ⟨?_, by simp⟩, fun j hj => Or.inl hj⟩
          simp only
          split
          · exact Or.inl rfl
          · exact Or.inr (Or.inl rfl)
        · cases h
      · split at h
        · split at h
          · simp only [Option.some.injEq, Prod.mk.injEq] at h
            obtain ⟨rfl, rfl, rfl⟩ := h
            exact ⟨fun j hj => hj, Or.inr ⟨Or.inr (Or.inr rfl), by simp⟩, fun j hj => Or.inl hj⟩
          · cases h
        · split at h
          · simp only [Option.some.injEq, Prod.mk.injEq] at h
            obtain ⟨rfl, rfl, rfl⟩ := h
            exact ⟨fun j hj => hj, Or.inr ⟨Or.inr (Or.inl rfl), by simp⟩, fun j hj => Or.inl hj⟩
          · cases h

/-! ## the loop invariant -/

structure PInv (st : PState) : Prop where
  stk : ∀ j ∈ st.stack, j < st.cmds.length
  shape : ∀ i (h : i < st.cmds.length), RowShape i st.cmds[i]
  nodup : st.cmds.Nodup
  cover : ∀ i, i < st.cmds.length →
    i ∈ st.stack ∨ ∃ k, ∃ h : k < st.cmds.length, i < k ∧ Refs st.cmds[k] i

theorem PInv.init : PInv {} := by
  refine ⟨?_, ?_, ?_, ?_⟩ <;> simp

theorem PInv.refsOK {st : PState} (h : PInv st) : StrTrees.RefsOK st.cmds :=
  fun i hi => (h.shape i hi).rowRef

/-- the two outcomes of `pushCommand` -/
theorem pushCommand_cases (st : PState) (stk : List Nat) (cs : List String) (c : Cmd) :
    (∃ j, ∃ h : j < st.cmds.length, st.cmds[j] = c ∧
        pushCommand st stk cs c = { stack := j :: stk, cmds := st.cmds, consts := cs }) ∨
    (c ∉ st.cmds ∧ pushCommand st stk cs c =
        { stack := st.cmds.length :: stk, cmds := st.cmds ++ [c], consts := cs }) := by
  unfold pushCommand
  cases hf : st.cmds.findIdx? (· == c) with
  | some j =>
    left
    rw [List.findIdx?_eq_some_iff_getElem] at hf
    obtain ⟨hj, he, _⟩ := hf
    exact ⟨j, hj, (cmd_beq_iff _ _).mp he, rfl⟩
  | none =>
    right
    rw [List.findIdx?_eq_none_iff] at hf
    refine ⟨fun hm => ?_, rfl⟩
    have h1 := hf c hm
    rw [(cmd_beq_iff c c).mpr rfl] at h1
    cases h1

theorem pushCommand_inv {st : PState} (hinv : PInv st) {stk : List Nat} {cs : List String} {c : Cmd}
    (ha : ArgsOK st stk c) : PInv (pushCommand st stk cs c) := by
  rcases pushCommand_cases st stk cs c with ⟨j, hj, hc, he⟩ | ⟨hc, he⟩
  · rw [he]
    refine ⟨?_, hinv.shape, hinv.nodup, ?_⟩
    · intro i hi
      simp only [List.mem_cons] at hi
      rcases hi with rfl | hi
      · exact hj
      · exact hinv.stk i (ha.sub i hi)
    · intro i hi
      rcases hinv.cover i hi with hs | hk
      · rcases ha.pop i hs with h | h
        · exact Or.inl (List.mem_cons_of_mem _ h)
        · refine Or.inr ⟨j, hj, ?_, by rw [hc]; exact h⟩
          exact (hinv.shape j hj).refs_lt (by rw [hc]; exact h)
      · exact Or.inr hk
  · rw [he]
    refine ⟨?_, ?_, ?_, ?_⟩
    · intro i hi
      simp only [List.mem_cons] at hi
      simp only [List.length_append, List.length_singleton]
      rcases hi with rfl | hi
      · omega
      · have := hinv.stk i (ha.sub i hi); omega
    · intro i hi
      simp only [List.length_append, List.length_singleton] at hi
      by_cases hlt : i < st.cmds.length
      · simpa [List.getElem_append_left hlt] using hinv.shape i hlt
      · have e : i = st.cmds.length := by omega
        subst e
        simpa using ha.shape
    · refine List.nodup_append.mpr ⟨hinv.nodup, by simp, ?_⟩
      intro a ha' b hb e
      simp only [List.mem_singleton] at hb
      subst hb; subst e
      exact hc ha'
    · intro i hi
      simp only [List.length_append, List.length_singleton] at hi
      by_cases hlt : i < st.cmds.length
      · rcases hinv.cover i hlt with hs | ⟨k, hk, hik, hr⟩
        · rcases ha.pop i hs with h | h
          · exact Or.inl (List.mem_cons_of_mem _ h)
          · exact Or.inr ⟨st.cmds.length, by simp, hlt, by simpa using h⟩
        · exact Or.inr ⟨k, by simp; omega, hik, by simpa [List.getElem_append_left hk] using hr⟩
      · have e : i = st.cmds.length := by omega
        exact Or.inl (by simp [e])

theorem postfixStep_inv {st st1 : PState} {tok : String} (hinv : PInv st)
    (h : postfixStep st tok = .ok st1) : PInv st1 := by
  obtain ⟨stk, cs, c, ha, rfl⟩ := postfixStep_ok_iff.mp h
  exact pushCommand_inv hinv (stepArgs_ok hinv.stk ha)

theorem postfixLoop_cons {t : String} {rest : List String} {st st' : PState} :
    postfixLoop (t :: rest) st = .ok st' ↔
      ∃ st1, postfixStep st t = .ok st1 ∧ postfixLoop rest st1 = .ok st' := by
  simp only [postfixLoop]
  cases postfixStep st t with
  | error e => constructor <;> intro h <;> simp_all [bind, Except.bind]
  | ok s => constructor <;> intro h <;> simp_all [bind, Except.bind]

theorem postfixLoop_inv {toks : List String} {st st' : PState} (hinv : PInv st)
    (h : postfixLoop toks st = .ok st') : PInv st' := by
  induction toks generalizing st with
  | nil => simp only [postfixLoop] at h; cases h; exact hinv
  | cons t rest ih =>
    obtain ⟨st1, h1, h2⟩ := postfixLoop_cons.mp h
    exact ih (postfixStep_inv hinv h1) h2

/-! ## stack and constants bookkeeping -/

theorem pushCommand_stack (st : PState) (stk : List Nat) (cs : List String) (c : Cmd) :
    ∃ j, (pushCommand st stk cs c).stack = j :: stk ∧ (pushCommand st stk cs c).consts = cs := by
  rcases pushCommand_cases st stk cs c with ⟨j, _, _, he⟩ | ⟨_, he⟩ <;> rw [he] <;> exact ⟨_, rfl, rfl⟩

theorem postfixStep_stack_ne {st st1 : PState} {tok : String} (h : postfixStep st tok = .ok st1) :
    st1.stack ≠ [] := by
  obtain ⟨stk, cs, c, _, rfl⟩ := postfixStep_ok_iff.mp h
  obtain ⟨j, hj, _⟩ := pushCommand_stack st stk cs c
  simp [hj]

theorem stepArgs_consts {st : PState} {tok : String} {stk : List Nat} {cs : List String} {c : Cmd}
    (h : stepArgs st tok = some (stk, cs, c)) : cs = st.consts ∨ cs = st.consts ++ [tok] := by
  unfold stepArgs at h
  split at h
  · split at h
    · cases hl : operator_map.lookup tok with
      | none => simp [hl] at h
      | some node => simp only [hl, Option.map_some, Option.some.injEq, Prod.mk.injEq] at h; exact Or.inl h.2.1.symm
    · cases h
  · split at h
    · split at h
      · cases hl : operator_map.lookup tok with
        | none => simp [hl] at h
        | some node => simp only [hl, Option.map_some, Option.some.injEq, Prod.mk.injEq] at h; exact Or.inl h.2.1.symm
      · cases h
    · split at h
      · next g0 g1 heq =>
        rw [name_lookup (matchVarOrConst_some heq).1] at h
        simp only [Option.bind_some] at h
        split at h
        · simp only [Option.some.injEq, Prod.mk.injEq] at h; exact Or.inl h.2.1.symm
        · cases h
      · split at h
        · split at h
          · simp only [Option.some.injEq, Prod.mk.injEq] at h; exact Or.inl h.2.1.symm
          · cases h
        · split at h
          · simp only [Option.some.injEq, Prod.mk.injEq] at h; exact Or.inr h.2.1.symm
          · cases h

theorem postfixStep_consts {st st1 : PState} {tok : String} (h : postfixStep st tok = .ok st1) :
    st.consts <+: st1.consts := by
  obtain ⟨stk, cs, c, ha, rfl⟩ := postfixStep_ok_iff.mp h
  obtain ⟨j, _, hc⟩ := pushCommand_stack st stk cs c
  rw [hc]
  rcases stepArgs_consts ha with rfl | rfl
  · exact List.prefix_refl _
  · exact List.prefix_append _ _

theorem postfixLoop_consts {toks : List String} {st st' : PState}
    (h : postfixLoop toks st = .ok st') : st.consts <+: st'.consts := by
  induction toks generalizing st with
  | nil => simp only [postfixLoop] at h; cases h; exact List.prefix_refl _
  | cons t rest ih =>
    obtain ⟨st1, h1, h2⟩ := postfixLoop_cons.mp h
    exact (postfixStep_consts h1).trans (ih h2)

theorem postfixLoop_stack_ne {toks : List String} {st st' : PState} (hne : toks ≠ [])
    (h : postfixLoop toks st = .ok st') : st'.stack ≠ [] := by
  induction toks generalizing st with
  | nil => exact absurd rfl hne
  | cons t rest ih =>
    obtain ⟨st1, h1, h2⟩ := postfixLoop_cons.mp h
    cases rest with
    | nil => simp only [postfixLoop] at h2; cases h2; exact postfixStep_stack_ne h1
    | cons t' rest' => exact ih (by simp) h2

/-- the root is the last row -/
theorem PInv.root_last {st : PState} (h : PInv st) {j : Nat} (hs : st.stack = [j]) :
    j + 1 = st.cmds.length := by
  have hj := h.stk j (by simp [hs])
  rcases h.cover (st.cmds.length - 1) (by omega) with hm | ⟨k, hk, hik, _⟩
  · simp only [hs, List.mem_singleton] at hm; omega
  · omega

/-! ## `postfixToCommands` unfolded -/

def allFit (cmds : List Cmd) : Bool :=
  cmds.all (fun c => fitsInt64 c.node && fitsInt64 c.p1 && fitsInt64 c.p2)

def asciiToks (toks : List String) : Bool :=
  !toks.any (fun t => t.toList.any (fun c => c.toNat ≥ 128))

theorem postfixToCommands_ok_iff {toks : List String} {s' : Stack} {c' : List String} :
    postfixToCommands toks = .ok (s', c') ↔
      asciiToks toks = true ∧ ∃ st', postfixLoop toks {} = .ok st' ∧ st'.stack.length ≤ 1 ∧
        allFit st'.cmds = true ∧ s' = st'.cmds ∧ c' = st'.consts := by
  unfold postfixToCommands asciiToks allFit
  by_cases ha : (toks.any fun t => t.toList.any fun c => c.toNat ≥ 128) = true
  · simp [ha, bind, Except.bind, throw, throwThe, MonadExceptOf.throw]
  · simp only [ha, Bool.false_eq_true, ↓reduceIte] at ha ⊢
    cases hl : postfixLoop toks {} with
    | error e => simp [bind, Except.bind]
    | ok st' =>
      by_cases hlen : st'.stack.length > 1
      · simp [bind, Except.bind, hlen, throw, throwThe, MonadExceptOf.throw]
        intro _ _; omega
      · by_cases hfit : (st'.cmds.all fun c => fitsInt64 c.node && fitsInt64 c.p1 && fitsInt64 c.p2) = true
        · simp only [bind, Except.bind, pure, Except.pure, hlen, hfit, ↓reduceIte, Except.ok.injEq,
            Prod.mk.injEq, Bool.not_false, true_and, exists_eq_left']
          constructor
          · rintro ⟨rfl, rfl⟩; exact ⟨by omega, rfl, rfl⟩
          · rintro ⟨_, rfl, rfl⟩; exact ⟨rfl, rfl⟩
        · simp only [bind, Except.bind, pure, Except.pure, hlen, hfit, ↓reduceIte,
            Bool.not_false, true_and, throw, throwThe, MonadExceptOf.throw]
          constructor
          · intro h; cases h
          · rintro ⟨st2, h2, _, h, _⟩
            cases h2
            exact absurd h hfit

/-! ## A: the output is a well-formed stack -/

/-- the token is an explicit constant name `c_k` / `C_k` -/
def isConstName (tok : String) : Bool :=
  match matchVarOrConst tok.toList with
  | some (g, _) => g == 'c' || g == 'C'
  | none => false

theorem rowOK_of_shape {D L i : Nat} {c : Cmd} (h : RowShape i c)
    (hD : c.node = VARIABLE → c.p1 < D) (hL : c.node = CONSTANT → c.p1 < L) :
    WF.rowOK D (some L) none i c = true := by
  unfold WF.rowOK
  rcases h with ⟨ht, ha, h1, h2, h3, h4⟩ | ⟨hn, h0⟩
  · rcases ha with ha | ha <;> simp [ht, ha, h1, h2, h3, h4]
  · rcases hn with hn | hn | hn
    · simp [hn, h0, hD hn, show Ops.isTerminal VARIABLE = some true from by decide,
        show Ops.isArity2 VARIABLE = some false from by decide]
    · have := hL hn
      simp [hn, h0, show Ops.isTerminal CONSTANT = some true from by decide,
        show Ops.isArity2 CONSTANT = some false from by decide,
        show ¬ CONSTANT = VARIABLE from by decide]
      simpa [hn] using this
    · simp [hn, show Ops.isTerminal INTEGER = some true from by decide,
        show Ops.isArity2 INTEGER = some false from by decide,
        show ¬ INTEGER = VARIABLE from by decide, show ¬ INTEGER = CONSTANT from by decide]

theorem rowsOK_of_forall {D : Nat} {L : Option Nat} {ops : Option (List Int)} (s : List Cmd) (i0 : Nat)
    (h : ∀ k (hk : k < s.length), WF.rowOK D L ops (i0 + k) s[k] = true) :
    WF.rowsOK D L ops i0 s = true := by
  induction s generalizing i0 with
  | nil => rfl
  | cons c s ih =>
    simp only [WF.rowsOK, Bool.and_eq_true]
    refine ⟨h 0 (by simp), ih (i0 + 1) ?_⟩
    intro k hk
    have := h (k + 1) (by simp; omega)
    simpa [Nat.add_assoc, Nat.add_comm 1 k] using this

theorem wf_of_inv {st : PState} (h : PInv st) (hne : st.cmds ≠ []) {D L : Nat}
    (hD : ∀ c ∈ st.cmds, c.node = VARIABLE → c.p1 < D)
    (hL : ∀ c ∈ st.cmds, c.node = CONSTANT → c.p1 < L) : WF.WFEval D L st.cmds := by
  unfold WF.WFEval WF.wf
  simp only [Bool.and_eq_true, Bool.not_eq_true', List.isEmpty_eq_false_iff]
  refine ⟨hne, rowsOK_of_forall _ 0 ?_⟩
  intro k hk
  simp only [Nat.zero_add]
  exact rowOK_of_shape (h.shape k hk) (hD _ (List.getElem_mem hk)) (hL _ (List.getElem_mem hk))

/-- without explicit `c_k` tokens every CONSTANT row indexes a collected constant -/
def ConstsOK (st : PState) : Prop := ∀ c ∈ st.cmds, c.node = CONSTANT → c.p1 < st.consts.length

theorem pushCommand_cmds_mem {st : PState} {stk : List Nat} {cs : List String} {c c0 : Cmd}
    (h : c0 ∈ (pushCommand st stk cs c).cmds) : c0 ∈ st.cmds ∨ c0 = c := by
  rcases pushCommand_cases st stk cs c with ⟨j, _, _, he⟩ | ⟨_, he⟩
  · rw [he] at h; exact Or.inl h
  · rw [he] at h; simpa using h

theorem stepArgs_constsOK {st : PState} {tok : String} {stk : List Nat} {cs : List String} {c : Cmd}
    (hn : isConstName tok = false) (h : stepArgs st tok = some (stk, cs, c)) :
    st.consts.length ≤ cs.length ∧ (c.node = CONSTANT → c.p1 < cs.length) := by
  unfold stepArgs at h
  split at h
  · next ho =>
    split at h
    · cases hl : operator_map.lookup tok with
      | none => simp [hl] at h
      | some node =>
        simp only [hl, Option.map_some, Option.some.injEq, Prod.mk.injEq] at h
        obtain ⟨rfl, rfl, rfl⟩ := h
        refine ⟨Nat.le_refl _, fun e => ?_⟩
        have := (op_node ho hl).1
        rw [show node = CONSTANT from e] at this
        exact absurd this (by decide)
    · cases h
  · split at h
    · next hf =>
      split at h
      · cases hl : operator_map.lookup tok with
        | none => simp [hl] at h
        | some node =>
          simp only [hl, Option.map_some, Option.some.injEq, Prod.mk.injEq] at h
          obtain ⟨rfl, rfl, rfl⟩ := h
          refine ⟨Nat.le_refl _, fun e => ?_⟩
          have := (fn_node hf hl).1
          rw [show node = CONSTANT from e] at this
          exact absurd this (by decide)
      · cases h
    · split at h
      · next g0 g1 heq =>
        have hm := matchVarOrConst_some heq
        simp only [isConstName, heq, Bool.or_eq_false_iff, beq_eq_false_iff_ne, ne_eq] at hn
        rw [name_lookup hm.1] at h
        simp only [Option.bind_some] at h
        split at h
        · simp only [Option.some.injEq, Prod.mk.injEq] at h
          obtain ⟨rfl, rfl, rfl⟩ := h
          refine ⟨Nat.le_refl _, fun e => ?_⟩
          simp only at e
          split at e
          · exact absurd e (by decide)
          · next hx =>
            rcases hm.1 with h | h | h | h
            · exact absurd (Or.inl h) hx
            · exact absurd (Or.inr h) hx
            · exact absurd h hn.2
            · exact absurd h hn.1
        · cases h
      · split at h
        · split at h
          · simp only [Option.some.injEq, Prod.mk.injEq] at h
            obtain ⟨rfl, rfl, rfl⟩ := h
            exact ⟨Nat.le_refl _, fun e => absurd (show INTEGER = CONSTANT from e) (by decide)⟩
          · cases h
        · split at h
          · simp only [Option.some.injEq, Prod.mk.injEq] at h
            obtain ⟨rfl, rfl, rfl⟩ := h
            refine ⟨by simp, fun _ => ?_⟩
            simp only [List.length_append, List.length_singleton]
            omega
          · cases h

theorem postfixStep_constsOK {st st1 : PState} {tok : String} (hn : isConstName tok = false)
    (hc : ConstsOK st) (h : postfixStep st tok = .ok st1) : ConstsOK st1 := by
  obtain ⟨stk, cs, c, ha, rfl⟩ := postfixStep_ok_iff.mp h
  obtain ⟨hlen, hcc⟩ := stepArgs_constsOK hn ha
  obtain ⟨j, _, hcs⟩ := pushCommand_stack st stk cs c
  intro c0 hc0 hnode
  rw [hcs]
  rcases pushCommand_cmds_mem hc0 with hm | rfl
  · have := hc c0 hm hnode; omega
  · exact hcc hnode

theorem postfixLoop_constsOK {toks : List String} {st st' : PState}
    (hn : ∀ t ∈ toks, isConstName t = false) (hc : ConstsOK st)
    (h : postfixLoop toks st = .ok st') : ConstsOK st' := by
  induction toks generalizing st with
  | nil => simp only [postfixLoop] at h; cases h; exact hc
  | cons t rest ih =>
    obtain ⟨st1, h1, h2⟩ := postfixLoop_cons.mp h
    exact ih (fun t' ht' => hn t' (List.mem_cons_of_mem _ ht'))
      (postfixStep_constsOK (hn t (List.mem_cons_self ..)) hc h1) h2


/-! ## the C `long` check -/

/-- the numeric parameter a name / integer token carries fits a C `long` -/
def tokFit (tok : String) : Bool :=
  match matchVarOrConst tok.toList with
  | some (_, g1) => fitsInt64 ((digitsToNat g1 : Nat) : Int)
  | none => if matchInt tok.toList then fitsInt64 ((digitsToNat tok.toList : Nat) : Int) else true

theorem ops_tokFit : operators.all tokFit = true := by decide
theorem fns_tokFit : functions.all tokFit = true := by decide

theorem fits_nat {a : Nat} (h : a < 2 ^ 63) : fitsInt64 (a : Int) = true := by
  simp only [fitsInt64, Bool.and_eq_true, decide_eq_true_eq]
  omega

theorem isTerminal_range {n : Int} {b : Bool} (h : Ops.isTerminal n = some b) : -1 ≤ n ∧ n ≤ 15 := by
  have hm := ListAux.lookup_some_mem h
  simp only [Gen.OpDefs.isTerminalTbl, List.mem_cons, Prod.mk.injEq, List.not_mem_nil, or_false] at hm
  omega

theorem RowShape.node_fit {i : Nat} {c : Cmd} (h : RowShape i c) : fitsInt64 c.node = true := by
  have hr : -1 ≤ c.node ∧ c.node ≤ 15 := by
    rcases h with ⟨ht, _⟩ | ⟨hn, _⟩
    · exact isTerminal_range ht
    · exact isTerminal_range (leaf_isTerminal hn).1
  simp only [fitsInt64, Bool.and_eq_true, decide_eq_true_eq]
  omega

theorem stepArgs_fit {st : PState} {tok : String} {stk : List Nat} {cs : List String} {c : Cmd}
    (hstk : ∀ j ∈ st.stack, j < st.cmds.length) (hf : tokFit tok = true)
    (hc : st.cmds.length < 2 ^ 63) (hk : st.consts.length < 2 ^ 63)
    (h : stepArgs st tok = some (stk, cs, c)) : fitsInt64 c.p1 = true ∧ fitsInt64 c.p2 = true := by
  unfold stepArgs at h
  split at h
  · split at h
    · next b a rest heq =>
      cases hl : operator_map.lookup tok with
      | none => simp [hl] at h
      | some node =>
        simp only [hl, Option.map_some, Option.some.injEq, Prod.mk.injEq] at h
        obtain ⟨rfl, rfl, rfl⟩ := h
        have ha := hstk a (by simp [heq])
        have hb := hstk b (by simp [heq])
        exact ⟨fits_nat (by omega), fits_nat (by omega)⟩
    · cases h
  · split at h
    · split at h
      · next a rest heq =>
        cases hl : operator_map.lookup tok with
        | none => simp [hl] at h
        | some node =>
          simp only [hl, Option.map_some, Option.some.injEq, Prod.mk.injEq] at h
          obtain ⟨rfl, rfl, rfl⟩ := h
          have ha := hstk a (by simp [heq])
          exact ⟨fits_nat (by omega), fits_nat (by omega)⟩
      · cases h
    · split at h
      · next g0 g1 heq =>
        rw [name_lookup (matchVarOrConst_some heq).1] at h
        simp only [Option.bind_some] at h
        simp only [tokFit, heq] at hf
        split at h
        · simp only [Option.some.injEq, Prod.mk.injEq] at h
          obtain ⟨rfl, rfl, rfl⟩ := h
          exact ⟨hf, hf⟩
        · cases h
      · next heq =>
        simp only [tokFit, heq] at hf
        split at h
        · next hi =>
          rw [if_pos hi] at hf
          split at h
          · simp only [Option.some.injEq, Prod.mk.injEq] at h
            obtain ⟨rfl, rfl, rfl⟩ := h
            exact ⟨hf, hf⟩
          · cases h
        · split at h
          · simp only [Option.some.injEq, Prod.mk.injEq] at h
            obtain ⟨rfl, rfl, rfl⟩ := h
            exact ⟨fits_nat hk, fits_nat hk⟩
          · cases h

/-- every row's parameters fit a C `long` -/
def ParamFit (st : PState) : Prop := ∀ c ∈ st.cmds, fitsInt64 c.p1 = true ∧ fitsInt64 c.p2 = true

theorem pushCommand_lengths (st : PState) (stk : List Nat) (cs : List String) (c : Cmd) :
    (pushCommand st stk cs c).cmds.length ≤ st.cmds.length + 1 := by
  rcases pushCommand_cases st stk cs c with ⟨j, _, _, he⟩ | ⟨_, he⟩ <;> rw [he] <;> simp

theorem postfixLoop_fit {toks : List String} {st st' : PState} (B : Nat) (hB : B < 2 ^ 63)
    (hinv : PInv st) (hf : ∀ t ∈ toks, tokFit t = true)
    (hc : st.cmds.length + toks.length ≤ B) (hk : st.consts.length + toks.length ≤ B)
    (hp : ParamFit st) (h : postfixLoop toks st = .ok st') : ParamFit st' := by
  induction toks generalizing st with
  | nil => simp only [postfixLoop] at h; cases h; exact hp
  | cons t rest ih =>
    obtain ⟨st1, h1, h2⟩ := postfixLoop_cons.mp h
    obtain ⟨stk, cs, c, ha, rfl⟩ := postfixStep_ok_iff.mp h1
    simp only [List.length_cons] at hc hk
    have hfit := stepArgs_fit hinv.stk (hf t (List.mem_cons_self ..)) (by omega) (by omega) ha
    obtain ⟨j, _, hcs⟩ := pushCommand_stack st stk cs c
    have hcl := pushCommand_lengths st stk cs c
    have hkl : cs.length ≤ st.consts.length + 1 := by
      rcases stepArgs_consts ha with rfl | rfl <;> simp
    apply ih (pushCommand_inv hinv (stepArgs_ok hinv.stk ha))
      (fun t' ht' => hf t' (List.mem_cons_of_mem _ ht')) (by omega) (by rw [hcs]; omega) _ h2
    intro c0 hc0
    rcases pushCommand_cmds_mem hc0 with hm | rfl
    · exact hp c0 hm
    · exact hfit

theorem allFit_of {st : PState} (hinv : PInv st) (hp : ParamFit st) : allFit st.cmds = true := by
  simp only [allFit, List.all_eq_true, Bool.and_eq_true]
  intro c hc
  obtain ⟨i, hi, rfl⟩ := List.getElem_of_mem hc
  exact ⟨⟨(hinv.shape i hi).node_fit, (hp _ hc).1⟩, (hp _ hc).2⟩


/-! ## A, assembled -/

/-- one more than the largest VARIABLE index of a stack -/
def maxVar (s : Stack) : Nat :=
  s.foldr (fun c m => if c.node = VARIABLE then max (c.p1.toNat + 1) m else m) 0

theorem lt_maxVar (s : Stack) : ∀ c ∈ s, c.node = VARIABLE → c.p1 < maxVar s := by
  induction s with
  | nil => intro c hc; cases hc
  | cons c0 s ih =>
    intro c hc hv
    simp only [maxVar, List.foldr_cons]
    rcases List.mem_cons.mp hc with rfl | hc
    · rw [if_pos hv]; omega
    · have := ih c hc hv
      unfold maxVar at this
      split <;> omega

theorem postfix_state {toks : List String} {s' : Stack} {c' : List String}
    (h : postfixToCommands toks = .ok (s', c')) (hne : toks ≠ []) :
    ∃ st', postfixLoop toks {} = .ok st' ∧ PInv st' ∧ s' = st'.cmds ∧ c' = st'.consts ∧
      st'.cmds ≠ [] := by
  obtain ⟨_, st', hl, _, _, rfl, rfl⟩ := postfixToCommands_ok_iff.mp h
  have hinv := postfixLoop_inv PInv.init hl
  refine ⟨st', hl, hinv, rfl, rfl, ?_⟩
  have hs := postfixLoop_stack_ne hne hl
  intro he
  cases hst : st'.stack with
  | nil => exact hs hst
  | cons j r =>
    have := hinv.stk j (by simp [hst])
    simp [he] at this

/-- the parser's output is a well-formed stack for every `D` above its variable indices and every `L` above
its constant indices; rows are pairwise distinct -/
theorem postfix_wf_general {toks : List String} {s' : Stack} {c' : List String}
    (h : postfixToCommands toks = .ok (s', c')) (hne : toks ≠ []) (D L : Nat)
    (hD : ∀ c ∈ s', c.node = VARIABLE → c.p1 < D) (hL : ∀ c ∈ s', c.node = CONSTANT → c.p1 < L) :
    WF.WFEval D L s' ∧ s'.Nodup := by
  obtain ⟨st', _, hinv, rfl, rfl, hcne⟩ := postfix_state h hne
  exact ⟨wf_of_inv hinv hcne hD hL, hinv.nodup⟩

/-- without explicit `c_k` tokens the constants returned are exactly the ones the stack indexes -/
theorem postfix_wf {toks : List String} {s' : Stack} {c' : List String}
    (h : postfixToCommands toks = .ok (s', c')) (hne : toks ≠ [])
    (hnc : ∀ t ∈ toks, isConstName t = false) (D : Nat)
    (hD : ∀ c ∈ s', c.node = VARIABLE → c.p1 < D) :
    WF.WFEval D c'.length s' ∧ s'.Nodup := by
  obtain ⟨st', hl, hinv, rfl, rfl, hcne⟩ := postfix_state h hne
  have hco : ConstsOK st' := postfixLoop_constsOK hnc (by intro c hc; simp at hc) hl
  exact ⟨wf_of_inv hinv hcne hD hco, hinv.nodup⟩

/-! ## the tree of the pushed row -/

theorem push_trees {st : PState} (hinv : PInv st) {stk : List Nat} {cs : List String} {c : Cmd}
    (ha : ArgsOK st stk c) :
    ∃ j, (pushCommand st stk cs c).stack = j :: stk ∧
      (ETree.trees (pushCommand st stk cs c).cmds)[j]? =
        some (ETree.rowTree (st.cmds.length + 1) (ETree.trees st.cmds) c) ∧
      ∀ i, i < st.cmds.length →
        (ETree.trees (pushCommand st stk cs c).cmds)[i]? = (ETree.trees st.cmds)[i]? := by
  have hl := StrTrees.trees_length st.cmds
  rcases pushCommand_cases st stk cs c with ⟨j, hj, hc, he⟩ | ⟨hc, he⟩
  · rw [he]
    refine ⟨j, rfl, ?_, fun _ _ => rfl⟩
    simp only
    rw [StrTrees.trees_getElem_full _ hinv.refsOK j hj, hc]
    congr 1
    exact StrTrees.rowTree_congr (i := st.cmds.length) ha.shape.rowRef (by omega) (by omega)
      (by omega) (by omega) (fun _ _ => rfl)
  · rw [he]
    refine ⟨st.cmds.length, rfl, ?_, ?_⟩
    · simp only
      rw [StrTrees.trees_snoc _ _ hinv.refsOK]
      simp [← hl]
    · intro i hi
      simp only
      rw [StrTrees.trees_snoc _ _ hinv.refsOK]
      rw [List.getElem?_append_left (by omega)]

end Post
end Str
end Bingo
