import Model.StringsTok
/-!
# Correctness of the shunting-yard model on the precedence grammar (C16)

`shunt_grammar`: for every tree `e` of the grammar `GE` (level 0, no unary minus),
`infixToPostfix e.toks = .ok e.post`.  The invariant (`Shunt.shunt_main`) says that processing the tokens of a
sub-expression of level `k` on a stack `S` that is `Stable k` leaves `pend ++ S`, where `pend` holds only
operators of precedence `≥ k`, and that flushing `pend` yields the postfix form of the sub-expression.
Also: `GE.graft_toks`, `GE.graft_ok` (grafting with an additive operator stays inside the grammar).
-/
namespace Bingo.Str
open Tables
namespace Shunt

theorem op_cases {o : String} (h : operators.contains o = true) :
    o = "+" ∨ o = "-" ∨ o = "*" ∨ o = "/" ∨ o = "^" := by
  simpa [operators, Gen.StringTables.operators] using h

theorem op_prec_le {o : String} (h : operators.contains o = true) : prec o ≤ 2 := by
  rcases op_cases h with rfl | rfl | rfl | rfl | rfl <;> decide

theorem op_not_fn {o : String} (h : operators.contains o = true) : functions.contains o = false := by
  rcases op_cases h with rfl | rfl | rfl | rfl | rfl <;> decide

theorem op_ne_lparen {o : String} (h : operators.contains o = true) : (o != LPAREN) = true := by
  rcases op_cases h with rfl | rfl | rfl | rfl | rfl <;> decide

theorem op_prec2 {o : String} (h : operators.contains o = true) (h2 : 2 ≤ prec o) : o = RIGHT_ASSOC := by
  rcases op_cases h with rfl | rfl | rfl | rfl | rfl <;> revert h2 <;> decide

theorem prec_ra : prec RIGHT_ASSOC = 2 := by decide
theorem lparen_not_op : operators.contains LPAREN = false := by decide
theorem lparen_not_fn : functions.contains LPAREN = false := by decide
theorem rparen_not_op : operators.contains RPAREN = false := by decide
theorem rparen_not_fn : functions.contains RPAREN = false := by decide
theorem rparen_ne_lparen : (RPAREN == LPAREN) = false := by decide

theorem fn_cases {f : String} (h : functions.contains f = true) :
    f = "sin" ∨ f = "cos" ∨ f = "sinh" ∨ f = "cosh" ∨ f = "exp" ∨ f = "log" ∨ f = "abs" ∨ f = "sqrt" := by
  simpa [functions, Gen.StringTables.functions] using h
theorem fn_not_op {f : String} (h : functions.contains f = true) : operators.contains f = false := by
  rcases fn_cases h with rfl | rfl | rfl | rfl | rfl | rfl | rfl | rfl <;> decide

/-- the pop condition of the operator loop -/
def popCond (tok top : String) : Bool :=
  operators.contains top && (prec top > prec tok || (prec top == prec tok && tok != RIGHT_ASSOC))

theorem popOps_cons (tok top : String) (st out : List String) :
    popOps tok (top :: st) out =
      if popCond tok top then popOps tok st (top :: out) else (top :: st, out) := by
  rw [popOps]; rfl

theorem popOps_append (tok : String) (pend S O : List String)
    (h : ∀ x ∈ pend, popCond tok x = true) :
    popOps tok (pend ++ S) O = popOps tok S (pend.reverse ++ O) := by
  induction pend generalizing O with
  | nil => rfl
  | cons x xs ih =>
    have hx := h x (List.mem_cons_self ..)
    rw [List.cons_append, popOps_cons, hx, if_pos rfl, ih _ (fun y hy => h y (List.mem_cons_of_mem _ hy))]
    simp

theorem popOps_stop (tok : String) (S O : List String)
    (h : ∀ x, S.head? = some x → popCond tok x = false) : popOps tok S O = (S, O) := by
  cases S with
  | nil => rfl
  | cons x xs => rw [popOps_cons, h x rfl]; rfl

theorem popToParen_append (pend S O : List String)
    (h : ∀ x ∈ pend, (x != LPAREN) = true) :
    popToParen (pend ++ LPAREN :: S) O = (LPAREN :: S, pend.reverse ++ O) := by
  induction pend generalizing O with
  | nil => simp [popToParen]
  | cons x xs ih =>
    have hx := h x (List.mem_cons_self ..)
    rw [List.cons_append, popToParen, hx, if_pos rfl, ih _ (fun y hy => h y (List.mem_cons_of_mem _ hy))]
    simp

theorem drainStack_ok (pend O : List String) (h : ∀ x ∈ pend, (x != LPAREN) = true) :
    drainStack pend O = .ok (pend.reverse ++ O) := by
  induction pend generalizing O with
  | nil => rfl
  | cons x xs ih =>
    have hx := h x (List.mem_cons_self ..)
    have hx' : (x == LPAREN) = false := by simpa using hx
    rw [drainStack, hx', ih _ (fun y hy => h y (List.mem_cons_of_mem _ hy))]
    simp

theorem shunt_op (tok : String) (rest S O : List String) (h : operators.contains tok = true) :
    shunt (tok :: rest) S O = shunt rest (tok :: (popOps tok S O).1) (popOps tok S O).2 := by
  rw [shunt, if_pos h]

theorem shunt_push (tok : String) (rest S O : List String) (h : operators.contains tok = false)
    (h2 : (tok == LPAREN || functions.contains tok) = true) :
    shunt (tok :: rest) S O = shunt rest (tok :: S) O := by
  rw [shunt, h, if_neg (by simp), if_pos h2]

theorem shunt_atom (tok : String) (rest S O : List String) (h : GE.isAtomTok tok = true) :
    shunt (tok :: rest) S O = shunt rest S (tok :: O) := by
  simp only [GE.isAtomTok, Bool.and_eq_true, Bool.not_eq_true'] at h
  obtain ⟨⟨⟨h1, h2⟩, h3⟩, h4⟩ := h
  have h3' : (tok == LPAREN) = false := by simpa using h3
  have h4' : (tok == RPAREN) = false := by simpa using h4
  rw [shunt, h1, h2, h3', h4']
  rfl


theorem shunt_rparen_aux (rest pend S O : List String) (hp : ∀ x ∈ pend, (x != LPAREN) = true) :
    shunt (RPAREN :: rest) (pend ++ LPAREN :: S) O =
      (match S with
        | f :: st' => if functions.contains f then shunt rest st' (f :: (pend.reverse ++ O))
                      else shunt rest S (pend.reverse ++ O)
        | [] => shunt rest S (pend.reverse ++ O)) := by
  have h1 : (RPAREN == LPAREN) = false := by decide
  have h2 : (RPAREN == RPAREN) = true := by decide
  have h3 : (LPAREN != LPAREN) = false := by decide
  rw [shunt, rparen_not_op, rparen_not_fn, h1, h2, popToParen_append _ _ _ hp]
  simp only [h3]
  cases S <;> simp

theorem shunt_rparen_plain (rest pend S O : List String) (hp : ∀ x ∈ pend, (x != LPAREN) = true)
    (hS : ∀ x, S.head? = some x → functions.contains x = false) :
    shunt (RPAREN :: rest) (pend ++ LPAREN :: S) O = shunt rest S (pend.reverse ++ O) := by
  rw [shunt_rparen_aux _ _ _ _ hp]
  cases S with
  | nil => rfl
  | cons x xs => simp only [hS x rfl]; rfl

theorem shunt_rparen_fn (f : String) (rest pend S O : List String)
    (hp : ∀ x ∈ pend, (x != LPAREN) = true) (hf : functions.contains f = true) :
    shunt (RPAREN :: rest) (pend ++ LPAREN :: f :: S) O = shunt rest S (f :: (pend.reverse ++ O)) := by
  rw [shunt_rparen_aux _ _ _ _ hp]
  simp only [hf, if_true]

/-- the stack below the current sub-expression cannot interfere at level `k` -/
def Stable (k : Nat) (S : List String) : Prop :=
  ∀ x, S.head? = some x →
    functions.contains x = false ∧ (2 ≤ k ∨ operators.contains x = false ∨ prec x < k)

/-- operators left pending on the stack by a sub-expression of level `k` -/
def Pend (k : Nat) (pend : List String) : Prop :=
  ∀ x ∈ pend, operators.contains x = true ∧ k ≤ prec x

theorem Pend.ne_lparen {k : Nat} {pend : List String} (h : Pend k pend) :
    ∀ x ∈ pend, (x != LPAREN) = true := fun x hx => op_ne_lparen (h x hx).1

theorem shunt_main (e : GE) : ∀ (k : Nat) (S O : List String), e.ok k = true → Stable k S →
    ∃ pend O', Pend k pend ∧ (∀ rest, shunt (e.toks ++ rest) S O = shunt rest (pend ++ S) O') ∧
      pend.reverse ++ O' = e.post.reverse ++ O := by
  induction e with
  | atom a =>
    intro k S O hok hS
    refine ⟨[], a :: O, ?_, ?_, ?_⟩
    · intro x hx; cases hx
    · intro rest
      rw [GE.ok] at hok
      exact shunt_atom a rest S O hok
    · simp [GE.post]
  | paren e ih =>
    intro k S O hok hS
    rw [GE.ok] at hok
    have hS' : Stable 0 (LPAREN :: S) := by
      intro x hx
      cases hx
      exact ⟨lparen_not_fn, Or.inr (Or.inl lparen_not_op)⟩
    obtain ⟨pend, O', hp, hsh, hout⟩ := ih 0 (LPAREN :: S) O hok hS'
    refine ⟨[], pend.reverse ++ O', ?_, ?_, ?_⟩
    · intro x hx; cases hx
    · intro rest
      simp only [GE.toks, List.cons_append, List.append_assoc, List.nil_append]
      rw [shunt_push LPAREN _ S O lparen_not_op (by decide), hsh,
        shunt_rparen_plain _ _ _ _ hp.ne_lparen (fun x hx => (hS x hx).1)]
    · simpa [GE.post] using hout
  | fn f e ih =>
    intro k S O hok hS
    simp only [GE.ok, Bool.and_eq_true] at hok
    obtain ⟨hf, hok'⟩ := hok
    have hS' : Stable 0 (LPAREN :: f :: S) := by
      intro x hx
      cases hx
      exact ⟨lparen_not_fn, Or.inr (Or.inl lparen_not_op)⟩
    obtain ⟨pend, O', hp, hsh, hout⟩ := ih 0 (LPAREN :: f :: S) O hok' hS'
    refine ⟨[], f :: (pend.reverse ++ O'), ?_, ?_, ?_⟩
    · intro x hx; cases hx
    · intro rest
      simp only [GE.toks, List.cons_append, List.append_assoc, List.nil_append]
      rw [shunt_push f _ S O (fn_not_op hf) (by rw [hf, Bool.or_true]),
        shunt_push LPAREN _ _ O lparen_not_op (by decide), hsh,
        shunt_rparen_fn f _ _ _ _ hp.ne_lparen hf]
    · simp [GE.post, hout]
  | op o l r ihl ihr =>
    intro k S O hok hS
    simp only [GE.ok, Bool.and_eq_true, decide_eq_true_eq] at hok
    obtain ⟨⟨hop, hk⟩, hsub⟩ := hok
    by_cases hra : o = RIGHT_ASSOC
    · rw [if_pos hra] at hsub
      simp only [Bool.and_eq_true] at hsub
      obtain ⟨hl, hr⟩ := hsub
      have hp2 : prec o = 2 := hra ▸ prec_ra
      rw [hp2] at hl hr
      have hS3 : Stable 3 S := fun x hx => ⟨(hS x hx).1, Or.inl (by omega)⟩
      obtain ⟨pl, Ol, hpl, hshl, houtl⟩ := ihl 3 S O hl hS3
      have hpl_nil : pl = [] := by
        cases pl with
        | nil => rfl
        | cons x xs =>
          have h1 := hpl x (List.mem_cons_self ..)
          have h2 := op_prec_le h1.1
          omega
      subst hpl_nil
      have hstop : popOps o S Ol = (S, Ol) := by
        apply popOps_stop
        intro x hx
        unfold popCond
        cases hx' : operators.contains x with
        | false => rfl
        | true =>
          have h2 := op_prec_le hx'
          have h3 : (o != RIGHT_ASSOC) = false := by simp [hra]
          have h4 : decide (prec x > prec o) = false := by simp; omega
          rw [h3, h4]; simp
      have hS2 : Stable 2 (o :: S) := by
        intro x hx
        cases hx
        exact ⟨op_not_fn hop, Or.inl (Nat.le_refl _)⟩
      obtain ⟨pr, Or', hpr, hshr, houtr⟩ := ihr 2 (o :: S) Ol hr hS2
      refine ⟨pr ++ [o], Or', ?_, ?_, ?_⟩
      · intro x hx
        rcases List.mem_append.1 hx with hx | hx
        · exact ⟨(hpr x hx).1, by have := (hpr x hx).2; omega⟩
        · simp only [List.mem_singleton] at hx
          subst hx
          exact ⟨hop, hk⟩
      · intro rest
        simp only [GE.toks, List.append_assoc, List.cons_append]
        rw [hshl, List.nil_append, shunt_op _ _ _ _ hop, hstop, hshr]
      · simp only [List.nil_append, List.reverse_nil] at houtl
        subst houtl
        simp [GE.post, houtr]
    · rw [if_neg hra] at hsub
      simp only [Bool.and_eq_true] at hsub
      obtain ⟨hl, hr⟩ := hsub
      have hp1 : prec o ≤ 1 := by
        have h2 := op_prec_le hop
        rcases Nat.lt_or_ge (prec o) 2 with h | h
        · omega
        · exact absurd (op_prec2 hop h) hra
      have hSp : Stable (prec o) S := by
        intro x hx
        obtain ⟨h1, h2⟩ := hS x hx
        refine ⟨h1, ?_⟩
        rcases h2 with h2 | h2 | h2
        · omega
        · exact Or.inr (Or.inl h2)
        · exact Or.inr (Or.inr (by omega))
      obtain ⟨pl, Ol, hpl, hshl, houtl⟩ := ihl (prec o) S O hl hSp
      have hpop : popOps o (pl ++ S) Ol = (S, pl.reverse ++ Ol) := by
        rw [popOps_append]
        · apply popOps_stop
          intro x hx
          obtain ⟨h1, h2⟩ := hSp x hx
          unfold popCond
          rcases h2 with h2 | h2 | h2
          · omega
          · rw [h2]; rfl
          · have h4 : decide (prec x > prec o) = false := by simp; omega
            have h5 : (prec x == prec o) = false := by simp; omega
            rw [h4, h5]; simp
        · intro x hx
          obtain ⟨h1, h2⟩ := hpl x hx
          unfold popCond
          have h3 : (o != RIGHT_ASSOC) = true := by simp [hra]
          rw [h1, h3]
          simp
          omega
      have hS2 : Stable (prec o + 1) (o :: S) := by
        intro x hx
        cases hx
        exact ⟨op_not_fn hop, Or.inr (Or.inr (Nat.lt_succ_self _))⟩
      obtain ⟨pr, Or', hpr, hshr, houtr⟩ := ihr (prec o + 1) (o :: S) (pl.reverse ++ Ol) hr hS2
      refine ⟨pr ++ [o], Or', ?_, ?_, ?_⟩
      · intro x hx
        rcases List.mem_append.1 hx with hx | hx
        · exact ⟨(hpr x hx).1, by have := (hpr x hx).2; omega⟩
        · simp only [List.mem_singleton] at hx
          subst hx
          exact ⟨hop, hk⟩
      · intro rest
        simp only [GE.toks, List.append_assoc, List.cons_append, List.nil_append]
        rw [hshl, shunt_op _ _ _ _ hop, hpop, hshr]
      · simp [GE.post, houtr, houtl]

end Shunt

open Shunt in
/-- shunting-yard is correct on the precedence grammar without unary minus -/
theorem shunt_grammar (e : GE) (h : e.ok 0 = true) : infixToPostfix e.toks = .ok e.post := by
  have hS : Stable 0 [] := fun x hx => by cases hx
  obtain ⟨pend, O', hp, hsh, hout⟩ := shunt_main e 0 [] [] h hS
  have h1 := hsh []
  rw [List.append_nil, List.append_nil, shunt, drainStack_ok _ _ hp.ne_lparen, hout] at h1
  rw [infixToPostfix, h1]
  simp [Except.map]

theorem GE.graft_toks (o : String) (l r : GE) : (GE.graft o l r).toks = l.toks ++ o :: r.toks := by
  induction r with
  | atom a => rfl
  | paren e _ => rfl
  | fn f e _ => rfl
  | op o' rl rr ihl _ =>
    rw [GE.graft]
    split
    · simp only [GE.toks, ihl, List.append_assoc, List.cons_append]
    · rfl

namespace Shunt

/-- apart from additive operator nodes, level 0 and level 1 coincide -/
theorem ok_one_of_ok_zero (r : GE) (h : r.ok 0 = true)
    (hne : ∀ o' rl rr, r = GE.op o' rl rr → prec o' ≠ 0) : r.ok 1 = true := by
  cases r with
  | atom a => exact h
  | paren e => exact h
  | fn f e => exact h
  | op o' rl rr =>
    have h0 := hne o' rl rr rfl
    simp only [GE.ok, Bool.and_eq_true, decide_eq_true_eq] at h ⊢
    exact ⟨⟨h.1.1, by omega⟩, h.2⟩

end Shunt

open Shunt in
/-- grafting with an additive operator keeps the tree in the grammar -/
theorem GE.graft_ok (o : String) (l r : GE) (ho : operators.contains o = true) (hp : prec o = 0)
    (hl : l.ok 0 = true) (hr : r.ok 0 = true) : (GE.graft o l r).ok 0 = true := by
  have hra : o ≠ RIGHT_ASSOC := by
    intro h
    rw [h, prec_ra] at hp
    omega
  have base : ∀ r : GE, r.ok 0 = true → (∀ o' rl rr, r = GE.op o' rl rr → prec o' ≠ 0) →
      (GE.op o l r).ok 0 = true := by
    intro r hr hne
    simp only [GE.ok, Bool.and_eq_true, decide_eq_true_eq, if_neg hra, hp]
    exact ⟨⟨ho, Nat.le_refl _⟩, hl, ok_one_of_ok_zero r hr hne⟩
  induction r with
  | atom a => exact base _ hr (fun _ _ _ h => by cases h)
  | paren e _ => exact base _ hr (fun _ _ _ h => by cases h)
  | fn f e _ => exact base _ hr (fun _ _ _ h => by cases h)
  | op o' rl rr ihl _ =>
    rw [GE.graft]
    split
    · rename_i hpp
      rw [hp] at hpp
      have hra' : o' ≠ RIGHT_ASSOC := by
        intro h
        rw [h, prec_ra] at hpp
        omega
      simp only [GE.ok, Bool.and_eq_true, decide_eq_true_eq, if_neg hra', hpp] at hr ⊢
      exact ⟨hr.1, ihl hr.2.1, hr.2.2⟩
    · rename_i hpp
      rw [hp] at hpp
      exact base _ hr (fun _ _ _ h => by cases h; exact hpp)

end Bingo.Str
