import Proofs.Lemmas.ParArch
import Proofs.Lemmas.ParXchgPerm
/-!
# C11 (parallel clause) -- what the broadcast order has to satisfy

`_shuffle_island_indices` produces a permutation of `0 … R-1` (`isPermutation order = true`).  What the
proofs use is `order.Nodup` (the hypothesis of `par_partner_symmetric`) and `∀ x ∈ order, x < R`;
both follow (`isPermutation_spec`), and they make `partner order` a `Matching`.
-/
namespace Bingo
namespace ParXchg
open ParArch

theorem isPermutation_perm {order : List Nat} (h : isPermutation order = true) :
    (List.range order.length).Perm order := by
  apply List.Subperm.perm_of_length_le
  · apply List.subperm_of_subset List.nodup_range
    intro r hr
    simp only [isPermutation, List.all_eq_true, decide_eq_true_eq] at h
    have h1 := h r hr
    have : 0 < (order.filter (· == r)).length := by omega
    obtain ⟨x, hx⟩ := List.exists_mem_of_length_pos this
    rw [List.mem_filter] at hx
    have : x = r := by simpa using hx.2
    exact this ▸ hx.1
  · simp

theorem isPermutation_of_perm {order : List Nat} (h : (List.range order.length).Perm order) :
    isPermutation order = true := by
  simp only [isPermutation, List.all_eq_true, decide_eq_true_eq]
  intro r hr
  have h1 : order.count r = 1 := by
    rw [← h.count_eq]; exact List.count_eq_one_of_mem List.nodup_range hr
  rw [← h1, List.count_eq_countP, List.countP_eq_length_filter]

theorem isPermutation_spec {order : List Nat} (h : isPermutation order = true) :
    order.Nodup ∧ ∀ x ∈ order, x < order.length := by
  have hp := isPermutation_perm h
  exact ⟨hp.nodup_iff.mp List.nodup_range, fun x hx => List.mem_range.mp (hp.mem_iff.mpr hx)⟩

theorem partner_mem {order : List Nat} {a b : Nat} (h : partner order a = some b) : a ∈ order := by
  unfold partner at h
  cases hf : order.findIdx? (· == a) with
  | none => simp [hf] at h
  | some i =>
    obtain ⟨hi, rfl⟩ := C12.findIdx_spec hf
    exact List.getElem_mem hi

theorem matching_of_order {order : List Nat} (hnd : order.Nodup) (hlt : ∀ x ∈ order, x < order.length) :
    Matching (partner order) order.length where
  sym _ _ h := (C12.partner_symmetric hnd h).1
  irrefl _ _ h := (C12.partner_symmetric hnd h).2
  lt a _ h := hlt a (partner_mem h)

end ParXchg
end Bingo
