import Proofs.Lemmas.VarFork
/-!
# Every operation of the variation model returns a suffix of the draws it was given

Unconditional (no well-formedness / configuration hypothesis): `Sfx m` says that whenever `m ds` is
`ok (a, rest)`, `rest` is a suffix of `ds`.  Proved compositionally by the tactic `sfx`.
-/
namespace Bingo
namespace VarLemmas
open Var Gen.OpDefs

/-- `m` only ever consumes a prefix of the draw list -/
structure Sfx {α : Type} (m : M α) : Prop where
  post : Post m (fun _ => True)

theorem Sfx.suffix {α : Type} {m : M α} (h : Sfx m) {ds : List Nat} {a : α} {rest : List Nat}
    (e : m ds = .ok (a, rest)) : rest <:+ ds := (h.post ds a rest e).2

theorem Sfx.of_post {α : Type} {m : M α} {P : α → Prop} (h : Post m P) : Sfx m :=
  ⟨h.mono fun _ _ => trivial⟩

theorem Sfx.bind {α β : Type} {m : M α} {f : α → M β} (h1 : Sfx m) (h2 : ∀ a, Sfx (f a)) :
    Sfx (m >>= f) := ⟨Post.bind h1.post fun a _ => (h2 a).post⟩

theorem Sfx.pure {α : Type} (a : α) : Sfx (Pure.pure a : M α) := ⟨post_pure trivial⟩
theorem Sfx.raise {α : Type} (k : PyErr) : Sfx (M.raise k : M α) := ⟨post_raise⟩
theorem Sfx.starve {α : Type} : Sfx (M.starve : M α) := ⟨post_starve⟩
theorem Sfx.ite {α : Type} {c : Prop} [Decidable c] {m1 m2 : M α} (h1 : Sfx m1) (h2 : Sfx m2) :
    Sfx (if c then m1 else m2) := by split <;> assumption
theorem Sfx.ofOption {α : Type} (k : PyErr) (o : Option α) : Sfx (M.ofOption k o) :=
  .of_post (post_ofOption (P := fun _ => True) fun _ _ => trivial)
theorem Sfx.remaining : Sfx M.remaining := .of_post post_remaining
theorem Sfx.drawRange (lo hi : Nat) : Sfx (drawRange lo hi) := .of_post (post_drawRange lo hi)
theorem Sfx.drawBelow (h : Nat) : Sfx (drawBelow h) := .of_post (post_drawBelow h)
theorem Sfx.drawPmf (n : Nat) : Sfx (drawPmf n) := .of_post (post_drawPmf n)
theorem Sfx.isTerminalM (n : Int) : Sfx (isTerminalM n) := .of_post (post_isTerminalM n)
theorem Sfx.isArity2M (n : Int) : Sfx (isArity2M n) := .of_post (post_isArity2M n)
theorem Sfx.getRow (s : Stack) (i : Nat) : Sfx (getRow s i) := .of_post (post_getRow s i)
theorem Sfx.setRow (s : Stack) (i : Nat) (c : Cmd) : Sfx (setRow s i c) := .of_post (post_setRow s i c)
theorem Sfx.utilizedM (s : Stack) : Sfx (utilizedM s) := .of_post (post_utilizedM s)

theorem Sfx.foldlM {α β : Type} {f : β → α → M β} (h : ∀ b a, Sfx (f b a)) :
    ∀ (l : List α) (b : β), Sfx (l.foldlM f b) := by
  intro l
  induction l with
  | nil => intro b; exact Sfx.pure b
  | cons a l ih => intro b; rw [List.foldlM_cons]; exact Sfx.bind (h b a) fun b' => ih b'

/-- known `Sfx` facts (extended by `macro_rules` below) -/
syntax "sfx_known" : tactic
macro_rules | `(tactic| sfx_known) => `(tactic| with_reducible exact Sfx.pure _)
macro_rules | `(tactic| sfx_known) => `(tactic| with_reducible exact Sfx.raise _)
macro_rules | `(tactic| sfx_known) => `(tactic| with_reducible exact Sfx.starve)
macro_rules | `(tactic| sfx_known) => `(tactic| with_reducible exact Sfx.ofOption _ _)
macro_rules | `(tactic| sfx_known) => `(tactic| with_reducible exact Sfx.remaining)
macro_rules | `(tactic| sfx_known) => `(tactic| with_reducible exact Sfx.drawRange _ _)
macro_rules | `(tactic| sfx_known) => `(tactic| with_reducible exact Sfx.drawBelow _)
macro_rules | `(tactic| sfx_known) => `(tactic| with_reducible exact Sfx.drawPmf _)
macro_rules | `(tactic| sfx_known) => `(tactic| with_reducible exact Sfx.isTerminalM _)
macro_rules | `(tactic| sfx_known) => `(tactic| with_reducible exact Sfx.isArity2M _)
macro_rules | `(tactic| sfx_known) => `(tactic| with_reducible exact Sfx.getRow _ _)
macro_rules | `(tactic| sfx_known) => `(tactic| with_reducible exact Sfx.setRow _ _ _)
macro_rules | `(tactic| sfx_known) => `(tactic| with_reducible exact Sfx.utilizedM _)

/-- decompose a `do` block -/
macro "sfx" : tactic =>
  `(tactic| repeat' (first | sfx_known | assumption | intro _ | apply Sfx.bind | apply Sfx.ite
                           | apply Sfx.foldlM | split | (dsimp only; done)))

/-! ## component generator, generator -/

theorem sfx_randomTerminal (cfg : Config) : Sfx (randomTerminal cfg) := by unfold randomTerminal; sfx
macro_rules | `(tactic| sfx_known) => `(tactic| with_reducible exact sfx_randomTerminal _)
theorem sfx_randomTerminalParameter (cfg : Config) (t : Int) : Sfx (randomTerminalParameter cfg t) := by
  unfold randomTerminalParameter; sfx
macro_rules | `(tactic| sfx_known) => `(tactic| with_reducible exact sfx_randomTerminalParameter _ _)
theorem sfx_randomTerminalCommand (cfg : Config) : Sfx (randomTerminalCommand cfg) := by
  unfold randomTerminalCommand; sfx
macro_rules | `(tactic| sfx_known) => `(tactic| with_reducible exact sfx_randomTerminalCommand _)
theorem sfx_randomOperator (cfg : Config) : Sfx (randomOperator cfg) := by unfold randomOperator; sfx
macro_rules | `(tactic| sfx_known) => `(tactic| with_reducible exact sfx_randomOperator _)
theorem sfx_randomOperatorParameter (i : Nat) : Sfx (randomOperatorParameter i) := by
  unfold randomOperatorParameter; sfx
macro_rules | `(tactic| sfx_known) => `(tactic| with_reducible exact sfx_randomOperatorParameter _)
theorem sfx_randomOperatorCommand (cfg : Config) (i : Nat) : Sfx (randomOperatorCommand cfg i) := by
  unfold randomOperatorCommand; sfx
macro_rules | `(tactic| sfx_known) => `(tactic| with_reducible exact sfx_randomOperatorCommand _ _)
theorem sfx_randomCommand (cfg : Config) (i : Nat) : Sfx (randomCommand cfg i) := by
  unfold randomCommand; sfx
macro_rules | `(tactic| sfx_known) => `(tactic| with_reducible exact sfx_randomCommand _ _)

theorem sfx_generateFrom (cfg : Config) : ∀ k i, Sfx (generateFrom cfg k i) := by
  intro k
  induction k with
  | zero => intro i; exact Sfx.pure _
  | succ k ih => intro i; unfold generateFrom; sfx; exact ih _

theorem sfx_generate (cfg : Config) (size : Nat) : Sfx (generate cfg size) := sfx_generateFrom cfg size 0

/-! ## mutations -/

theorem sfx_randomCommandMutationLocation (s : Stack) : Sfx (randomCommandMutationLocation s) := by
  unfold randomCommandMutationLocation; sfx
macro_rules | `(tactic| sfx_known) => `(tactic| with_reducible exact sfx_randomCommandMutationLocation _)

theorem sfx_mutateCommandLoop (cfg : Config) (loc : Nat) (old : Cmd) (fuel : Nat) :
    Sfx (mutateCommandLoop cfg loc old fuel) := .of_post (post_mutateCommandLoop cfg loc old fuel)
macro_rules | `(tactic| sfx_known) => `(tactic| with_reducible exact sfx_mutateCommandLoop _ _ _ _)

theorem sfx_mutateCommand (cfg : Config) (s : Stack) : Sfx (mutateCommand cfg s) := by
  unfold mutateCommand; sfx

theorem sfx_randomizeNode (cfg : Config) (c : Cmd) : Sfx (randomizeNode cfg c) := by
  unfold randomizeNode; sfx
macro_rules | `(tactic| sfx_known) => `(tactic| with_reducible exact sfx_randomizeNode _ _)

theorem sfx_mutateNodeLoop (cfg : Config) (old : Cmd) : ∀ fuel cur, Sfx (mutateNodeLoop cfg old fuel cur) := by
  intro fuel
  induction fuel with
  | zero => intro cur; exact Sfx.starve
  | succ fuel ih => intro cur; unfold mutateNodeLoop; sfx; exact ih _
macro_rules | `(tactic| sfx_known) => `(tactic| with_reducible exact sfx_mutateNodeLoop _ _ _ _)

theorem sfx_mutateNode (cfg : Config) (s : Stack) : Sfx (mutateNode cfg s) := by
  unfold mutateNode
  have := Sfx.of_post (post_randomNodeMutationLocation cfg s)
  sfx

theorem sfx_randomizeParameters (cfg : Config) (c : Cmd) (loc : Nat) :
    Sfx (randomizeParameters cfg c loc) := by
  unfold randomizeParameters; sfx
macro_rules | `(tactic| sfx_known) => `(tactic| with_reducible exact sfx_randomizeParameters _ _ _)

theorem sfx_mutateParametersLoop (cfg : Config) (loc : Nat) (old : Cmd) :
    ∀ fuel cur, Sfx (mutateParametersLoop cfg loc old fuel cur) := by
  intro fuel
  induction fuel with
  | zero => intro cur; exact Sfx.starve
  | succ fuel ih => intro cur; unfold mutateParametersLoop; sfx; exact ih _
macro_rules | `(tactic| sfx_known) => `(tactic| with_reducible exact sfx_mutateParametersLoop _ _ _ _ _)

theorem sfx_mutateParameters (cfg : Config) (s : Stack) : Sfx (mutateParameters cfg s) := by
  unfold mutateParameters
  have := Sfx.of_post (post_randomParamMutLocation cfg s)
  sfx

theorem sfx_pruneRows (loc : Nat) (pruned : Int) : ∀ (l : List Cmd) (i : Nat),
    Sfx (pruneRows loc pruned i l) := by
  intro l
  induction l with
  | nil => intro i; exact Sfx.pure _
  | cons c rest ih => intro i; unfold pruneRows; sfx; exact ih _
macro_rules | `(tactic| sfx_known) => `(tactic| with_reducible exact sfx_pruneRows _ _ _ _)

theorem sfx_pruneBranch (cfg : Config) (s : Stack) : Sfx (pruneBranch cfg s) := by
  unfold pruneBranch
  have := Sfx.of_post (post_randomPruneLocation s)
  sfx

/-! ## fork mutation -/

theorem sfx_moveUtilizedCommands (s : Stack) (util : List Bool) (loc : Nat) :
    Sfx (moveUtilizedCommands s util loc) := by
  rw [moveUtilizedCommands_eq]; sfx
macro_rules | `(tactic| sfx_known) => `(tactic| with_reducible exact sfx_moveUtilizedCommands _ _ _)

theorem sfx_remapParam (iv : List Nat) (p : Int) : Sfx (remapParam iv p) := .of_post (post_remapParam iv p)
macro_rules | `(tactic| sfx_known) => `(tactic| with_reducible exact sfx_remapParam _ _)

theorem sfx_remapRows (iv : List Nat) : ∀ (cs : List Cmd) (us : List Bool), Sfx (remapRows iv cs us) := by
  intro cs
  induction cs with
  | nil => intro us; cases us <;> (unfold remapRows; exact Sfx.pure _)
  | cons c cs ih =>
    intro us
    cases us with
    | nil => unfold remapRows; exact Sfx.pure _
    | cons u us => unfold remapRows; sfx; exact ih _
macro_rules | `(tactic| sfx_known) => `(tactic| with_reducible exact sfx_remapRows _ _ _)

theorem sfx_fixStep (first : Bool) (st : Stack) (i : Nat) : Sfx (fixStep first st i) := by
  unfold fixStep; sfx

theorem sfx_fixColumn (first : Bool) (s : Stack) : Sfx (fixColumn first s) := by
  rw [fixColumn_eq]
  have := sfx_fixStep first
  sfx
macro_rules | `(tactic| sfx_known) => `(tactic| with_reducible exact sfx_fixColumn _ _)

theorem sfx_fixIndices (s : Stack) (util : List Bool) (iv : List Nat) : Sfx (fixIndices s util iv) := by
  unfold fixIndices; sfx
macro_rules | `(tactic| sfx_known) => `(tactic| with_reducible exact sfx_fixIndices _ _ _)

theorem sfx_getArityOperatorLoop (cfg : Config) (b : Bool) (n : Nat) :
    Sfx (getArityOperatorLoop cfg b n) := .of_post (post_getArityOperatorLoop cfg b n)
macro_rules | `(tactic| sfx_known) => `(tactic| with_reducible exact sfx_getArityOperatorLoop _ _ _)

theorem sfx_insertForkNormal (cfg : Config) (op2 : Int) (forkSize mcl startI endI nT : Nat) :
    ∀ (k i : Nat) (s : Stack), Sfx (insertForkNormal cfg op2 forkSize mcl startI endI nT k i s) := by
  intro k
  induction k with
  | zero => intro i s; exact Sfx.pure _
  | succ k ih => intro i s; unfold insertForkNormal; dsimp only; sfx <;> exact ih _ _
macro_rules | `(tactic| sfx_known) => `(tactic| with_reducible exact sfx_insertForkNormal _ _ _ _ _ _ _ _ _ _)

theorem sfx_insertForkArity1 (cfg : Config) (forkSize mcl startI endI : Nat) :
    ∀ (k i : Nat) (s : Stack), Sfx (insertForkArity1 cfg forkSize mcl startI endI k i s) := by
  intro k
  induction k with
  | zero => intro i s; exact Sfx.pure _
  | succ k ih => intro i s; unfold insertForkArity1; dsimp only; sfx <;> exact ih _ _
macro_rules | `(tactic| sfx_known) => `(tactic| with_reducible exact sfx_insertForkArity1 _ _ _ _ _ _ _ _)

theorem sfx_insertFork (cfg : Config) (s : Stack) (forkSize mcl startI endI : Nat) :
    Sfx (insertFork cfg s forkSize mcl startI endI) := by
  unfold insertFork; sfx
macro_rules | `(tactic| sfx_known) => `(tactic| with_reducible exact sfx_insertFork _ _ _ _ _ _)

theorem sfx_forkMutation (cfg : Config) (s : Stack) : Sfx (forkMutation cfg s) := by
  unfold forkMutation; dsimp only; sfx

/-! ## `__call__` of mutation and crossover -/

theorem sfx_mutateKind (cfg : Config) (kind : Nat) (s : Stack) : Sfx (mutateKind cfg kind s) := by
  unfold mutateKind
  split
  · exact sfx_mutateCommand cfg s
  · exact sfx_mutateNode cfg s
  · exact sfx_mutateParameters cfg s
  · exact sfx_pruneBranch cfg s
  · exact sfx_forkMutation cfg s
  · exact Sfx.raise _

theorem sfx_mutate (cfg : Config) (s : Stack) : Sfx (mutate cfg s) := by
  unfold mutate
  have := sfx_mutateKind cfg
  sfx
  exact this _ _

theorem sfx_crossover (p1 p2 : Stack) : Sfx (crossover p1 p2) := by
  unfold crossover; sfx

/-! ## `mutate`: well-formedness -/

theorem post_mutate (cfg : Config) (hcfg : CfgOK cfg) (s : Stack) (hwf : WF.WFGenome cfg.D cfg.ops s) :
    Post (mutate cfg s) (fun s' => WF.WFGenome cfg.D cfg.ops s' ∧ s'.length = s.length) := by
  unfold mutate
  apply Post.bind (post_drawPmf 5)
  intro kind _
  unfold mutateKind
  split
  · exact (post_mutateCommand cfg hcfg s).mono fun _ h => h.wf hwf
  · exact (post_mutateNode cfg hcfg s hwf).mono fun _ h => h.wf hwf
  · apply (post_mutateParameters cfg s hwf).mono
    rintro s' (rfl | h)
    · exact ⟨hwf, rfl⟩
    · exact h.wf hwf
  · exact post_pruneBranch cfg s hwf
  · exact post_forkMutation cfg hcfg s hwf
  · exact post_raise

end VarLemmas
end Bingo
