import Proofs.Lemmas.CasInterp
import Proofs.Lemmas.ReduceWF
import Mathlib.Data.List.Nodup
import Mathlib.Data.List.Perm.Subperm
/-!
# Target side of the simplifier with constants: `build_agraph_stack` followed by the constant
renumbering of `AGraph._update`

`buildAgraphStack e = .ok s'` stores every `CONSTANT` row `⟨CONSTANT, id, id⟩` of the dictionary as
`⟨CONSTANT, -1, -1⟩`; `Renumber.renumber s'` then gives the k-th `CONSTANT` row (in row order) the
parameter `k`.  With `ids` the ids of the `CONSTANT` rows of the dictionary in row order (pairwise
different because the dictionary shares equal rows), the renumbered array evaluated with the constant
vector `ids.map cv` refines `e.den x cv`.
-/
namespace Bingo
namespace CasInterp
open Gen.OpDefs Cas Cas.Expr ETree Renumber ReduceLemmas

/-! ## occurrences of terminals -/

mutual
/-- the terminal `term o v _` occurs in the expression -/
def hasTerm (o v : Int) : Expr → Bool
  | term o' v' _ => o' == o && v' == v
  | node _ as => hasTermList o v as
def hasTermList (o v : Int) : List Expr → Bool
  | [] => false
  | a :: as => hasTerm o v a || hasTermList o v as
end

/-- a terminal `term CONSTANT id _` occurs in `e` -/
def hasConstId (id : Int) (e : Expr) : Bool := hasTerm CONSTANT id e

/-- the terminals of `e` satisfy `T` *and* occur in `e` -/
theorem Ok_occurs {k : Bool} {T : Int → Int → Bool} (e : Expr) :
    Ok k T e = true → ∀ Q : Int → Int → Bool, (∀ o v, hasTerm o v e = true → Q o v = true) →
      Ok k (fun o v => T o v && Q o v) e = true := by
  induction e using Expr.rec (motive_2 := fun l => OkList k T l = true →
      ∀ Q : Int → Int → Bool, (∀ o v, hasTermList o v l = true → Q o v = true) →
        OkList k (fun o v => T o v && Q o v) l = true) with
  | term o v np =>
    intro h Q hQ
    rw [Ok_term] at h ⊢
    rcases h with h | h
    · exact .inl h
    · exact .inr (by simp [h, hQ o v (by simp [hasTerm])])
  | node o as ih =>
    intro h Q hQ
    simp only [Ok, Bool.and_eq_true] at h ⊢
    exact ⟨h.1, ih h.2 Q (fun o' v' ho => hQ o' v' (by simpa [hasTerm] using ho))⟩
  | nil => rfl
  | cons a as iha ihas =>
    rename_i h Q hQ
    simp only [OkList, Bool.and_eq_true] at h ⊢
    exact ⟨iha h.1 Q (fun o v ho => hQ o v (by simp [hasTermList, ho])),
      ihas h.2 Q (fun o v ho => hQ o v (by simp [hasTermList, ho]))⟩

/-- every terminal that occurs in an `Ok` expression is `INTEGER` or satisfies `T` -/
theorem Ok_hasTerm {k : Bool} {T : Int → Int → Bool} (e : Expr) :
    Ok k T e = true → ∀ o v, hasTerm o v e = true → o = INTEGER ∨ T o v = true := by
  induction e using Expr.rec (motive_2 := fun l => OkList k T l = true →
      ∀ o v, hasTermList o v l = true → o = INTEGER ∨ T o v = true) with
  | term o' v' np =>
    intro h o v ho
    simp only [hasTerm, Bool.and_eq_true, beq_iff_eq] at ho
    obtain ⟨rfl, rfl⟩ := ho
    exact Ok_term.mp h
  | node o' as ih =>
    intro h o v ho
    simp only [Ok, Bool.and_eq_true] at h
    exact ih h.2 o v (by simpa [hasTerm] using ho)
  | nil => rename_i _ o v ho; simp [hasTermList] at ho
  | cons a as iha ihas =>
    rename_i h o v ho
    simp only [OkList, Bool.and_eq_true] at h
    simp only [hasTermList, Bool.or_eq_true] at ho
    rcases ho with ho | ho
    · exact iha h.1 o v ho
    · exact ihas h.2 o v ho

/-! ## the dictionary has no duplicate rows, and its `CONSTANT` rows are `⟨CONSTANT, id, id⟩` -/

def DInv (d : StackDict) : Prop := d.Nodup ∧ ∀ c ∈ d, c.node = CONSTANT → c.p2 = c.p1

theorem DInv_nil : DInv [] := ⟨List.nodup_nil, by simp⟩

theorem addCommand_inv {d d' : StackDict} {c : Cmd} {loc : Int} (h : DInv d)
    (hc : c.node = CONSTANT → c.p2 = c.p1) (he : addCommand d c = (d', loc)) : DInv d' := by
  unfold addCommand at he
  cases hf : d.findIdx? (· == c) with
  | some i =>
    rw [hf] at he
    obtain ⟨rfl, _⟩ := Prod.mk.inj he
    exact h
  | none =>
    rw [hf] at he
    obtain ⟨rfl, _⟩ := Prod.mk.inj he
    have hnot : c ∉ d := by
      intro hm
      have h1 := List.findIdx?_eq_none_iff.mp hf c hm
      have h2 : (c == c) = true := cmd_beq.mpr rfl
      rw [h2] at h1; cases h1
    refine ⟨?_, ?_⟩
    · rw [List.nodup_append]
      refine ⟨h.1, by simp, ?_⟩
      intro a ha b hb
      simp only [List.mem_singleton] at hb
      subst hb
      intro e; subst e; exact hnot ha
    · intro c' hc'
      rw [List.mem_append] at hc'
      rcases hc' with h1 | h1
      · exact h.2 c' h1
      · simp only [List.mem_singleton] at h1
        subst h1; exact hc

theorem addAssoc_inv {op : Int} (hop : op ≠ CONSTANT) :
    ∀ (fuel : Nat) (locs : List Int) (d d' : StackDict) (loc : Int), DInv d →
      addAssociative op fuel locs d = .ok (d', loc) → DInv d' := by
  intro fuel
  induction fuel with
  | zero => intro locs d d' loc _ h; simp [addAssociative] at h
  | succ fuel ih =>
    intro locs d d' loc hd h
    by_cases hsing : ∃ l, locs = [l]
    · obtain ⟨l, rfl⟩ := hsing
      simp only [addAssociative] at h
      obtain ⟨rfl, _⟩ := Prod.mk.inj (Except.ok.inj h)
      exact hd
    · have hns : ∀ l, locs ≠ [l] := fun l hl => hsing ⟨l, hl⟩
      rw [addAssoc_unfold op fuel locs d hns] at h
      obtain ⟨⟨d1, loc1⟩, h1, h⟩ := bind_ok h
      obtain ⟨⟨d2, loc2⟩, h2, h⟩ := bind_ok h
      have h3 : addCommand d2 ⟨op, loc1, loc2⟩ = (d', loc) := Except.ok.inj h
      exact addCommand_inv (ih _ _ _ _ (ih _ _ _ _ hd h1) h2) (fun hc => absurd hc hop) h3

theorem buildStackRec_inv {T : Int → Int → Bool} (e : Expr) :
    Ok true T e = true → ∀ (d d' : StackDict) (loc : Int), DInv d →
      buildStackRec e d = .ok (d', loc) → DInv d' := by
  induction e using Expr.rec (motive_2 := fun as => OkList true T as = true →
      ∀ (d d' : StackDict) (locs : List Int), DInv d →
        buildStackRecList as d = .ok (d', locs) → DInv d') with
  | term o v np =>
    intro _ d d' loc hd h
    simp only [buildStackRec] at h
    exact addCommand_inv hd (c := ⟨o, v, v⟩) (fun _ => rfl) (Except.ok.inj h)
  | node op args ih =>
    intro hok d d' loc hd h
    simp only [Ok, Bool.and_eq_true] at hok
    obtain ⟨hop, _⟩ := shapeOK_true hok.1
    have hopc : op ≠ CONSTANT := by
      intro hc; rw [hc] at hop; exact absurd hop (by decide)
    simp only [buildStackRec] at h
    obtain ⟨⟨d1, locs⟩, hl, h⟩ := bind_ok h
    have hd1 := ih hok.2 d d1 locs hd hl
    rcases locs with _ | ⟨l1, _ | ⟨l2, _ | ⟨l3, rest⟩⟩⟩
    · simp only at h
      split_ifs at h
      exact addAssoc_inv hopc _ _ _ _ _ hd1 h
    · exact addCommand_inv hd1 (c := ⟨op, l1, l1⟩) (fun hc => absurd hc hopc) (Except.ok.inj h)
    · exact addCommand_inv hd1 (c := ⟨op, l1, l2⟩) (fun hc => absurd hc hopc) (Except.ok.inj h)
    · simp only at h
      split_ifs at h
      · obtain ⟨⟨d2, loc2⟩, h2, h⟩ := bind_ok h
        exact addCommand_inv (addAssoc_inv hopc _ _ _ _ _ hd1 h2) (c := ⟨op, l1, loc2⟩)
          (fun hc => absurd hc hopc) (Except.ok.inj h)
      · exact addAssoc_inv hopc _ _ _ _ _ hd1 h
  | nil =>
    rename_i _ d d' locs hd h
    simp only [buildStackRecList] at h
    obtain ⟨rfl, _⟩ := Prod.mk.inj (Except.ok.inj h)
    exact hd
  | cons a as iha ihas =>
    rename_i hok d d' locs hd h
    simp only [OkList, Bool.and_eq_true] at hok
    simp only [buildStackRecList] at h
    obtain ⟨⟨d1, l⟩, h1, h⟩ := bind_ok h
    dsimp only at h
    obtain ⟨⟨d2, ls⟩, h2, h⟩ := bind_ok h
    dsimp only at h
    obtain ⟨rfl, _⟩ := Prod.mk.inj (Except.ok.inj h)
    exact ihas hok.2 d1 d2 ls (iha hok.1 d d1 l hd h1) h2

/-! ## the ids of the `CONSTANT` rows, in row order -/

/-- `p1` of the `CONSTANT` rows of the (pre-emit) dictionary, in row order -/
def constIds (d : List Cmd) : List Int := (d.filter (·.node = CONSTANT)).map (·.p1)

theorem constIds_length (d : List Cmd) : (constIds d).length = numConsts d := by
  simp [constIds, numConsts]

theorem constIds_cons_const {c : Cmd} (d : List Cmd) (h : c.node = CONSTANT) :
    constIds (c :: d) = c.p1 :: constIds d := by
  simp [constIds, h]

theorem constIds_cons_other {c : Cmd} (d : List Cmd) (h : c.node ≠ CONSTANT) :
    constIds (c :: d) = constIds d := by
  simp [constIds, h]

theorem constIds_nodup {d : List Cmd} (h : DInv d) : (constIds d).Nodup := by
  unfold constIds
  apply List.Nodup.map_on _ (h.1.filter _)
  intro a ha b hb hab
  simp only [List.mem_filter, decide_eq_true_eq] at ha hb
  have h1 := h.2 a ha.1 ha.2
  have h2 := h.2 b hb.1 hb.2
  cases a; cases b
  simp_all

theorem constIds_mem {d : List Cmd} {id : Int} (h : id ∈ constIds d) :
    ∃ c ∈ d, c.node = CONSTANT ∧ c.p1 = id := by
  simp only [constIds, List.mem_map, List.mem_filter, decide_eq_true_eq] at h
  obtain ⟨c, ⟨hc, hn⟩, rfl⟩ := h
  exact ⟨c, hc, hn, rfl⟩

/-- the `CONSTANT` row at position `j` is the `numConsts (take j)`-th one -/
theorem constIds_get : ∀ (d : List Cmd) (j : Nat) (c : Cmd), d[j]? = some c →
    c.node = CONSTANT → (constIds d)[numConsts (d.take j)]? = some c.p1 := by
  intro d
  induction d with
  | nil => intro j c h; simp at h
  | cons hd rest ih =>
    intro j c h hc
    cases j with
    | zero =>
      simp at h; subst h
      simp [constIds_cons_const _ hc, numConsts]
    | succ j =>
      simp at h
      rw [List.take_succ_cons]
      by_cases hh : hd.node = CONSTANT
      · rw [numConsts_cons_const _ hh, constIds_cons_const _ hh]
        simpa using ih j c h hc
      · rw [numConsts_cons_other _ hh, constIds_cons_other _ hh]
        exact ih j c h hc

/-! ## the `int64` store keeps the node column -/

theorem emit_nodes {d s' : List Cmd} (h : d.mapM emitCommand = .ok s') :
    s'.map (·.node) = d.map (·.node) := by
  obtain ⟨hlen, hget⟩ := mapM_emit_get d s' h
  apply List.ext_getElem?
  intro i
  simp only [List.getElem?_map]
  cases hi : d[i]? with
  | none =>
    have : s'[i]? = none := by
      rw [List.getElem?_eq_none_iff] at hi ⊢; omega
    rw [this]
  | some c =>
    obtain ⟨c', hc', he⟩ := hget i c hi
    rw [hc']
    rcases emitCommand_cases he with ⟨hc, rfl⟩ | ⟨_, rfl⟩
    · simp [hc]
    · rfl

theorem numConsts_eq_nodes (l : List Cmd) :
    numConsts l = ((l.map (·.node)).filter (· = CONSTANT)).length := by
  induction l with
  | nil => rfl
  | cons c l ih =>
    by_cases hc : c.node = CONSTANT
    · rw [numConsts_cons_const _ hc]; simp [hc, ih]
    · rw [numConsts_cons_other _ hc]; simp [hc, ih]

theorem numConsts_take_emit {d s' : List Cmd} (h : d.mapM emitCommand = .ok s') (i : Nat) :
    numConsts (s'.take i) = numConsts (d.take i) := by
  rw [numConsts_eq_nodes, numConsts_eq_nodes, List.map_take, List.map_take, emit_nodes h]

theorem numConsts_emit {d s' : List Cmd} (h : d.mapM emitCommand = .ok s') :
    numConsts s' = numConsts d := by
  rw [numConsts_eq_nodes, numConsts_eq_nodes, emit_nodes h]

/-! ## rows of the renumbered array -/

theorem renumber_length' (s : Stack) : (renumber s).length = s.length := go_length s 0

theorem row_other {d s' : List Cmd} (h : d.mapM emitCommand = .ok s') {j : Nat} {c : Cmd}
    (hj : d[j]? = some c) (hc : c.node ≠ CONSTANT) : (renumber s')[j]? = some c := by
  obtain ⟨c', hc', he⟩ := (mapM_emit_get d s' h).2 j c hj
  rcases emitCommand_cases he with ⟨hc1, _⟩ | ⟨_, rfl⟩
  · exact absurd hc1 hc
  · exact go_get_other s' 0 j c' hc' hc

theorem row_const {d s' : List Cmd} (h : d.mapM emitCommand = .ok s') {j : Nat} {c : Cmd}
    (hj : d[j]? = some c) (hc : c.node = CONSTANT) :
    (renumber s')[j]? = some ⟨CONSTANT, Int.ofNat (numConsts (d.take j)),
      Int.ofNat (numConsts (d.take j))⟩ := by
  obtain ⟨c', hc', he⟩ := (mapM_emit_get d s' h).2 j c hj
  have hn : c'.node = CONSTANT := by
    rcases emitCommand_cases he with ⟨_, rfl⟩ | ⟨_, rfl⟩
    · rfl
    · exact hc
  have := go_get_const s' 0 j c' hc' hn
  rw [Nat.zero_add, numConsts_take_emit h] at this
  exact this

/-- the meaning of a row of the dictionary (constants by id) is the meaning of the same row of the
stored and renumbered array (constants from the vector `(constIds d).map cv`) -/
theorem RowDen.renumber {d s' : List Cmd} (hemit : d.mapM emitCommand = .ok s') {x : List ℝ}
    {cv : Int → ℝ} {j : Nat} {v : ℝ} (h : RowDen (termDen x cv) d j v) :
    RowDen (MathSem.leaf x ((constIds d).map cv)) (Renumber.renumber s') j v := by
  induction h with
  | @leaf j c v h1 h2 h3 h4 =>
    by_cases hc : c.node = CONSTANT
    · have hrow := row_const hemit h1 hc
      have hid := constIds_get d j c h1 hc
      have hk : numConsts (d.take j) < ((constIds d).map cv).length := by
        rw [List.length_map]; exact getElem?_lt' hid
      rw [hc] at h4
      have hv : v = cv c.p1 := by
        unfold termDen at h4
        rw [if_neg (by decide), if_neg (by decide), if_pos rfl] at h4
        exact (Option.some.inj h4).symm
      refine .leaf hrow (by decide : Ops.isTerminal CONSTANT = some true)
        (by decide : Ops.isArity2 CONSTANT = some false) ?_
      show MathSem.leaf x ((constIds d).map cv) CONSTANT (Int.ofNat (numConsts (d.take j))) = some v
      unfold MathSem.leaf
      rw [if_neg (by decide), if_neg (by decide), if_pos rfl, pyIdx_ofNat hk]
      simp [List.getElem?_map, hid, hv]
    · have hrow := row_other hemit h1 hc
      refine .leaf hrow h2 h3 ?_
      rcases isTerminal_cases h2 with ⟨_, hn, _⟩ | ⟨hb, _⟩
      · rcases hn with hn | hn | hn
        · rw [hn] at h4 ⊢
          simpa [termDen, MathSem.leaf] using h4
        · rw [hn] at h4 ⊢
          unfold termDen at h4; unfold MathSem.leaf
          rw [if_neg (by decide), if_pos rfl] at h4 ⊢
          exact h4
        · exact absurd hn hc
      · cases hb
  | @un j c a v h1 h2 h3 h4 h5 _ h7 ih =>
    have hc : c.node ≠ CONSTANT := by
      intro hc; rw [hc] at h2; exact absurd h2 (by decide)
    exact .un (row_other hemit h1 hc) h2 h3 h4 h5 ih h7
  | @bin j c a b v h1 h2 h3 h4 h5 h6 h7 _ _ h10 iha ihb =>
    have hc : c.node ≠ CONSTANT := by
      intro hc; rw [hc] at h2; exact absurd h2 (by decide)
    exact .bin (row_other hemit h1 hc) h2 h3 h4 h5 h6 h7 iha ihb h10

/-! ## C1, C2 -/

theorem terminal_of_hTD {T : Int → Int → Bool} {D : Nat}
    (hT : ∀ o v, T o v = true → varsBelow D o v = true ∨ o = CONSTANT) :
    ∀ o v, T o v = true → Ops.isTerminal o = some true := by
  intro o v ho
  rcases hT o v ho with hv | rfl
  · exact varsBelow_terminal D o v hv
  · decide

/-- C1 with the membership stated through `T` -/
theorem den_consts_core {T : Int → Int → Bool} {D : Nat} {e : Expr} {s' : Stack}
    (hT : ∀ o v, T o v = true → varsBelow D o v = true ∨ o = CONSTANT)
    (hok : Ok true T e = true) (h : buildAgraphStack e = .ok s') :
    ∃ ids : List Int, ids.length = numConsts s' ∧ ids.Nodup ∧
      (∀ id ∈ ids, T CONSTANT id = true) ∧
      ∀ (x : List ℝ) (cv : Int → ℝ) (v : ℝ), e.den x cv = some v →
        MathSem.den x (ids.map cv) (ofStack (Renumber.renumber s')) = some v := by
  have hT' := terminal_of_hTD hT
  unfold buildAgraphStack at h
  obtain ⟨⟨d, loc⟩, h1, h2⟩ := bind_ok h
  dsimp only at h2
  obtain ⟨hne, hl, hrows⟩ := buildStackRec_root_last hT' hok h1
  have hinv := buildStackRec_inv e hok [] d loc DInv_nil h1
  refine ⟨constIds d, ?_, constIds_nodup hinv, ?_, ?_⟩
  · rw [constIds_length, numConsts_emit h2]
  · intro id hid
    obtain ⟨c, hc, hn, rfl⟩ := constIds_mem hid
    obtain ⟨i, hi⟩ := List.getElem?_of_mem hc
    rcases hrows i c hi with ⟨_, hv⟩ | ⟨ht, _⟩
    · rcases hv with hI | hv
      · rw [hn] at hI; exact absurd hI (by decide)
      · rw [hn] at hv; exact hv
    · rw [hn] at ht; exact absurd ht (by decide)
  · intro x cv v hd
    have hr := (buildStackRec_den hT' hok (RowsOK_nil T) h1 hd).renumber h2
    have hlen : (Renumber.renumber s').length = d.length := by
      rw [renumber_length', (mapM_emit_get d s' h2).1]
    have : loc.toNat = (Renumber.renumber s').length - 1 := by rw [hlen]; omega
    rw [this] at hr
    rw [ofStack_eq, ← gden_math]; exact hr.trees

/-- C1: the emitted and renumbered array, evaluated with the constants `ids.map cv`, refines the
expression; `ids` are pairwise different constant ids that occur in `e` (and satisfy `T`) -/
theorem buildAgraphStack_den_consts {T : Int → Int → Bool} {D : Nat} {e : Expr} {s' : Stack}
    (hT : ∀ o v, T o v = true → varsBelow D o v = true ∨ o = CONSTANT)
    (hok : Ok true T e = true) (h : buildAgraphStack e = .ok s') :
    ∃ ids : List Int, ids.length = Renumber.numConsts s' ∧ ids.Nodup ∧
      (∀ id ∈ ids, T CONSTANT id = true ∧ hasConstId id e = true) ∧
      ∀ (x : List ℝ) (cv : Int → ℝ) (v : ℝ), e.den x cv = some v →
        MathSem.den x (ids.map cv) (ETree.ofStack (Renumber.renumber s')) = some v := by
  have hok' := Ok_occurs e hok (fun o v => hasTerm o v e) (fun _ _ ho => ho)
  have hT'' : ∀ o v, (T o v && hasTerm o v e) = true → varsBelow D o v = true ∨ o = CONSTANT := by
    intro o v ho
    rw [Bool.and_eq_true] at ho
    exact hT o v ho.1
  obtain ⟨ids, h1, h2, h3, h4⟩ := den_consts_core hT'' hok' h
  refine ⟨ids, h1, h2, ?_, h4⟩
  intro id hid
  have := h3 id hid
  rw [Bool.and_eq_true] at this
  exact this

/-- C2: the emitted and renumbered array is a well-formed backend input with `numConsts s'`
constants -/
theorem buildAgraphStack_wfeval_consts {T : Int → Int → Bool} {D : Nat} {e : Expr} {s' : Stack}
    (hT : ∀ o v, T o v = true → varsBelow D o v = true ∨ o = CONSTANT)
    (hok : Ok true T e = true) (h : buildAgraphStack e = .ok s') :
    WF.WFEval D (Renumber.numConsts s') (Renumber.renumber s') :=
  renumber_wfeval_of (buildAgraphStack_wf_gen hT hok h)

/-! ## C3: counting constants -/

theorem constRow_spec {s : Stack} {id : Int} (h : constRow s id = true) :
    0 ≤ id ∧ ∃ c, s[id.toNat]? = some c ∧ c.node = CONSTANT := by
  simp only [constRow, Bool.and_eq_true, decide_eq_true_eq] at h
  refine ⟨h.1, ?_⟩
  cases hg : s[id.toNat]? with
  | none => rw [hg] at h; simp at h
  | some c => rw [hg] at h; exact ⟨c, rfl, by simpa using h.2⟩

theorem termsOf_const {D : Nat} {s : Stack} {id : Int} (h : termsOf D s CONSTANT id = true) :
    constRow s id = true := by
  simp only [termsOf, Bool.or_eq_true, Bool.and_eq_true] at h
  rcases h with h | h
  · simp only [varsBelow, Bool.and_eq_true, beq_iff_eq] at h
    exact absurd h.1.1 (by decide)
  · exact h.2

theorem termsOf_hTD (D : Nat) (s : Stack) :
    ∀ o v, termsOf D s o v = true → varsBelow D o v = true ∨ o = CONSTANT := by
  intro o v h
  simp only [termsOf, Bool.or_eq_true, Bool.and_eq_true, beq_iff_eq] at h
  exact h.imp id (·.1)

/-- source side: a constant id that occurs in `build_cas_expression s` is the location of a
`CONSTANT` row of `s`.  (`NoPowRows` only because `buildCas_ok_gen`, which is used, needs it.) -/
theorem buildCas_constIds {D L : Nat} {s : Stack} {e : Expr} (hwf : WF.WFEval D L s)
    (hnp : NoPowRows s) (he : buildCasExpression s = .ok e) :
    ∀ id, hasConstId id e = true →
      constRow s id = true ∧ 0 ≤ id ∧ id.toNat < s.length ∧
        ∃ c, s[id.toNat]? = some c ∧ c.node = CONSTANT := by
  intro id hid
  have hok := buildCas_ok_gen hwf hnp he
  have hcr : constRow s id = true := by
    rcases Ok_hasTerm e hok CONSTANT id hid with h | h
    · exact absurd h (by decide)
    · exact termsOf_const h
  obtain ⟨h0, c, hc, hn⟩ := constRow_spec hcr
  exact ⟨hcr, h0, getElem?_lt' hc, c, hc, hn⟩

/-- is row `i` a `CONSTANT` row? -/
def isConstAt (s : Stack) (i : Nat) : Bool :=
  match s[i]? with
  | some c => c.node == CONSTANT
  | none => false

theorem filter_range_length (s : Stack) :
    ((List.range s.length).filter (isConstAt s)).length = numConsts s := by
  induction s using List.reverseRecOn with
  | nil => rfl
  | append_singleton l a ih =>
    rw [List.length_append, List.length_singleton, List.range_succ, List.filter_append,
      List.length_append]
    have h1 : (List.range l.length).filter (isConstAt (l ++ [a])) =
        (List.range l.length).filter (isConstAt l) := by
      apply List.filter_congr
      intro i hi
      rw [List.mem_range] at hi
      simp only [isConstAt, List.getElem?_append_left hi]
    rw [h1, ih]
    have h2 : isConstAt (l ++ [a]) l.length = (a.node == CONSTANT) := by
      simp [isConstAt]
    by_cases hc : a.node = CONSTANT
    · simp [numConsts, List.filter_append, h2, hc]
    · simp [numConsts, List.filter_append, h2, hc]

/-- C3: pairwise different locations of `CONSTANT` rows of `s` are at most `numConsts s` many -/
theorem numConsts_simplified_le {s : Stack} (ids : List Int) (hnd : ids.Nodup)
    (h : ∀ id ∈ ids, constRow s id = true) : ids.length ≤ Renumber.numConsts s := by
  have hnd' : (ids.map Int.toNat).Nodup := by
    apply List.Nodup.map_on _ hnd
    intro a ha b hb hab
    have := (constRow_spec (h a ha)).1
    have := (constRow_spec (h b hb)).1
    omega
  have hsub : ids.map Int.toNat ⊆ (List.range s.length).filter (isConstAt s) := by
    intro i hi
    rw [List.mem_map] at hi
    obtain ⟨id, hid, rfl⟩ := hi
    obtain ⟨_, c, hc, hn⟩ := constRow_spec (h id hid)
    rw [List.mem_filter, List.mem_range]
    exact ⟨getElem?_lt' hc, by simp [isConstAt, hc, hn]⟩
  have := (hnd'.subperm hsub).length_le
  rw [List.length_map, filter_range_length] at this
  exact this

/-! ## C4: the identity pipeline with constants -/

/-- stack → expression → stack → renumbering, with constants: for every constant vector `c` of the
source there is a constant vector `c'` of the rebuilt array (of the right length) such that both
arrays evaluate to `v` wherever the expression means `v`; the rebuilt array is a well-formed backend
input and has at most as many constants as the source -/
theorem roundtrip_consts {D L : Nat} {s s' : Stack} {e : Expr} (hwf : WF.WFEval D L s)
    (hnp : NoPowRows s) (he : buildCasExpression s = .ok e) (hs' : buildAgraphStack e = .ok s') :
    WF.WFEval D (Renumber.numConsts s') (Renumber.renumber s') ∧
    Renumber.numConsts s' ≤ Renumber.numConsts s ∧
    ∀ c : List ℝ, c.length = L → ∃ c' : List ℝ, c'.length = Renumber.numConsts s' ∧
      ∀ (x : List ℝ) (v : ℝ), x.length = D → e.den x (cvOf s c) = some v →
        MathSem.den x c (ETree.ofStack s) = some v ∧
        MathSem.den x c' (ETree.ofStack (Renumber.renumber s')) = some v := by
  have hok := buildCas_ok_gen hwf hnp he
  obtain ⟨ids, hlen, hnd, hmem, hden⟩ := buildAgraphStack_den_consts (termsOf_hTD D s) hok hs'
  refine ⟨buildAgraphStack_wfeval_consts (termsOf_hTD D s) hok hs', ?_, ?_⟩
  · rw [← hlen]
    exact numConsts_simplified_le ids hnd (fun id hid => termsOf_const (hmem id hid).1)
  · intro c hc
    refine ⟨ids.map (cvOf s c), by rw [List.length_map, hlen], ?_⟩
    intro x v hx hd
    exact ⟨buildCas_den hwf he hx hc hd, hden x (cvOf s c) v hd⟩

/-! ## non-vacuity -/

/-- `x0 * c5 + c5`: one shared `CONSTANT` row, stored as `(1,-1,-1)` and renumbered to constant 0 -/
example : buildStackRec (node ADDITION [node MULTIPLICATION [term VARIABLE 0 true,
      term CONSTANT 5 true], term CONSTANT 5 true]) [] =
    .ok ([⟨0, 0, 0⟩, ⟨1, 5, 5⟩, ⟨4, 0, 1⟩, ⟨2, 2, 1⟩], 3) := by decide

example : buildAgraphStack (node ADDITION [node MULTIPLICATION [term VARIABLE 0 true,
      term CONSTANT 5 true], term CONSTANT 5 true]) =
    .ok [⟨0, 0, 0⟩, ⟨1, -1, -1⟩, ⟨4, 0, 1⟩, ⟨2, 2, 1⟩] := by decide

example : Renumber.renumber [⟨0, 0, 0⟩, ⟨1, -1, -1⟩, ⟨4, 0, 1⟩, ⟨2, 2, 1⟩] =
    [⟨0, 0, 0⟩, ⟨1, 0, 0⟩, ⟨4, 0, 1⟩, ⟨2, 2, 1⟩] := by decide

example : Renumber.numConsts [⟨0, 0, 0⟩, ⟨1, -1, -1⟩, ⟨4, 0, 1⟩, ⟨2, 2, 1⟩] = 1 := by decide

example : constIds [⟨0, 0, 0⟩, ⟨1, 5, 5⟩, ⟨4, 0, 1⟩, ⟨2, 2, 1⟩] = [5] := by decide

example : Ok true (fun o v => varsBelow 1 o v || (o == CONSTANT && v == 5))
    (node ADDITION [node MULTIPLICATION [term VARIABLE 0 true, term CONSTANT 5 true],
      term CONSTANT 5 true]) = true := by decide

example : hasConstId 5 (node ADDITION [node MULTIPLICATION [term VARIABLE 0 true,
      term CONSTANT 5 true], term CONSTANT 5 true]) = true := by decide

end CasInterp
end Bingo
