import Model.Generated.SourceFacts
/-!
# C19 -- the text of `evaluation.py` the model `Pipeline.serialEval` / `multiprocessEval` mirrors, regenerated from the source

`serialEval`: `for indv in population: if redundant or not indv.fit_set: indv.fitness = f(indv)`.
`multiprocessEval`: one `_fitness_job` per unevaluated slot; the job returns the evaluated INDIVIDUAL (with whatever the
fitness function did to it, e.g. optimized constants), the extra evaluation count and the slot; the parent adds the count
and stores the returned individual in its slot.
-/
namespace Bingo
namespace C19Facts
open Gen.SourceFacts

theorem gen_evaluation_shapes :
    evaluationCall = "if self._multiprocess:     self._multiprocess_eval(population) else:     self._serial_eval(population)" ∧
    evaluationSerial = "for indv in population:     if self._redundant or not indv.fit_set:         indv.fitness = self.fitness_function(indv)" ∧
    evaluationMultiprocess = "num_procs = self._multiprocess if isinstance(self._multiprocess, int) else None ; with Pool(processes=num_procs) as pool:     results = []     for i, indv in enumerate(population):         if self._redundant or not indv.fit_set:             results.append(pool.apply_async(_fitness_job, (indv, self.fitness_function, i)))     for res in results:         indv, extra_evals, i = res.get()         self.fitness_function.eval_count += extra_evals         population[i] = indv" ∧
    evaluationFitnessJob = "evals_before = fitness_function.eval_count ; individual.fitness = fitness_function(individual) ; extra_evals = fitness_function.eval_count - evals_before ; return (individual, extra_evals, population_index)" :=
  ⟨rfl, rfl, rfl, rfl⟩

end C19Facts
end Bingo
