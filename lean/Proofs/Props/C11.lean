import Proofs.Lemmas.Migration
import Model.Generated.Phases
/-!
# C11 (serial part): a migration phase of a serial archipelago conserves the individuals

Only the property theorems and their non-vacuity examples live here; the proofs are in
`Proofs/Lemmas/Migration.lean` (core Lean only, no Mathlib).

`core i = (i.genome, i.fit, i.age)` is an individual up to its evaluated flag (migration only
clears flags); `k n = pyRoundFrac 1 2 n` is the number of individuals an island of size `n`
sends away.  Shuffles are oracle permutations, so every theorem covers every outcome of
`np.random.shuffle`.
-/
namespace Bingo.C11
open Bingo.Pipeline Bingo.Migration

/-! ## 1. the facts read from the Python source -/

theorem gen_ok :
    Gen.Consts.migrationFractions = [(1, 2), (1, 2)] ∧
    Gen.Consts.problems = [] ∧
    Gen.Phases.problems = [] ∧
    Gen.Phases.serialExchange =
      "indvs_to_2 = island_1.dump_fraction_of_population(0.5) ; indvs_to_1 = island_2.dump_fraction_of_population(0.5) ; island_1.population += indvs_to_1 ; island_2.population += indvs_to_2" ∧
    Gen.Phases.serialSwapPairs =
      "partner_1_index = island_indexes[pair_number * 2] ; partner_2_index = island_indexes[pair_number * 2 + 1] ; partner_1 = self.islands[partner_1_index] ; partner_2 = self.islands[partner_2_index] ; self._population_exchange_program(partner_1, partner_2) ; partner_1.reset_fitness() ; partner_2.reset_fitness()" ∧
    Gen.Phases.serialCoordinate =
      "island_partners = self._shuffle_island_indices() ; for i in range(self._num_islands // 2):     self._shuffle_island_and_swap_pairs(island_partners, i)" ∧
    Gen.Phases.islandDumpFraction =
      "np.random.shuffle(self.population) ; index = int(round(fraction * len(self.population))) ; dumped_population = self.population[:index] ; self.population = self.population[index:] ; return dumped_population" ∧
    Gen.Phases.islandResetFitness =
      "if population is None:     population = self.population ; for indv in population:     indv.fit_set = False" ∧
    Gen.Phases.archipelagoDoEvolution =
      "self._coordinate_migration_between_islands() ; self._step_through_generations(num_generations) ; self.generational_age += num_generations" :=
  ⟨by decide, by decide, by decide, rfl, rfl, rfl, rfl, rfl, rfl⟩

/-! ## 2. `int(round(0.5 * n))` -/

/-- Python rounds half to even: `int(round(0.5 * n))` is `n / 2` for even `n`, and for
`n = 2m + 1` it is `m` when `m` is even and `m + 1` otherwise; it never exceeds `n` -/
theorem round_half_even :
    (∀ n, n % 2 = 0 → pyRoundFrac 1 2 n = n / 2) ∧
    (∀ m, pyRoundFrac 1 2 (2 * m) = m) ∧
    (∀ m, pyRoundFrac 1 2 (2 * m + 1) = if m % 2 = 0 then m else m + 1) ∧
    (∀ n, pyRoundFrac 1 2 n ≤ n) := by
  refine ⟨fun n hn => ?_, pyRoundFrac_half_even, pyRoundFrac_half_odd, pyRoundFrac_half_le⟩
  obtain ⟨m, rfl⟩ : ∃ m, n = 2 * m := ⟨n / 2, by omega⟩
  rw [pyRoundFrac_half_even]; omega

/-! ## 3. shuffles -/

theorem applyPerm_perm {β : Type} {p : List Nat} {l l' : List β}
    (h : applyPerm p l = some l') : l'.Perm l ∧ l'.length = l.length :=
  ⟨Migration.applyPerm_perm h, Migration.applyPerm_length h⟩

/-! ## 4. the exchange between two partners -/

theorem exchange_multiset {s1 s2 : List Nat} {p1 p2 q1 q2 : List Indiv}
    (h : exchange s1 s2 p1 p2 = some (q1, q2)) :
    ((q1 ++ q2).map core).Perm ((p1 ++ p2).map core) :=
  Migration.exchange_multiset h

theorem exchange_sizes {s1 s2 : List Nat} {p1 p2 q1 q2 : List Indiv}
    (h : exchange s1 s2 p1 p2 = some (q1, q2)) :
    q1.length = p1.length - k p1.length + k p2.length ∧
    q2.length = p2.length - k p2.length + k p1.length ∧
    (p1.length = p2.length → q1.length = p1.length ∧ q2.length = p2.length) :=
  ⟨(Migration.exchange_sizes h).1, (Migration.exchange_sizes h).2, Migration.exchange_sizes_eq h⟩

theorem exchange_flags {s1 s2 : List Nat} {p1 p2 q1 q2 : List Indiv}
    (h : exchange s1 s2 p1 p2 = some (q1, q2)) :
    (∀ i ∈ q1, i.flag = false) ∧ (∀ i ∈ q2, i.flag = false) :=
  Migration.exchange_flags h

/-! ## 5. pairing -/

/-- for a shuffled index list `order` of `n` islands, the pairs `(order[2j], order[2j+1])`,
`j < n / 2`: every entry is a valid island, the pair members followed by the remaining
`n % 2` entries enumerate every island exactly once, partners differ, no island is in two
pairs, every island is in a pair or is the last entry of `order` (`n` odd), and for odd `n`
that last entry is in no pair -/
theorem pairing {order : List Nat} {n : Nat} (h : isPerm order n = true) :
    order.length = n ∧
    (∀ (pos x : Nat), order[pos]? = some x → x < n) ∧
    (pairsOf order n).length = n / 2 ∧
    (pairMembers order n ++ order.drop (2 * (n / 2))).Perm (List.range n) ∧
    (pairMembers order n ++ order.drop (2 * (n / 2))).Nodup ∧
    (order.drop (2 * (n / 2))).length = n % 2 ∧
    (n % 2 = 1 → order.drop (2 * (n / 2)) = [order.getD (n - 1) 0]) ∧
    (∀ j, j < n / 2 → order[2 * j]? ≠ order[2 * j + 1]?) ∧
    (∀ j j' x, j < n / 2 → j' < n / 2 →
      (order[2 * j]? = some x ∨ order[2 * j + 1]? = some x) →
      (order[2 * j']? = some x ∨ order[2 * j' + 1]? = some x) → j = j') ∧
    (∀ x, x < n → (∃ j, j < n / 2 ∧ (order[2 * j]? = some x ∨ order[2 * j + 1]? = some x)) ∨
      (n % 2 = 1 ∧ order[n - 1]? = some x)) ∧
    (n % 2 = 1 → ∀ j, j < n / 2 →
      order[2 * j]? ≠ order[n - 1]? ∧ order[2 * j + 1]? ≠ order[n - 1]?) := by
  have hperm := isPerm_iff.mp h
  have hnd := nodup_of_isPerm h
  have hlen : order.length = n := by simpa using hperm.length_eq
  have hmem : pairMembers order n = order.take (2 * (n / 2)) :=
    pairMembers_eq_take (by omega)
  have hinj : ∀ {i j : Nat}, i < n → order[i]? = order[j]? → i = j := fun hi he =>
    (List.getElem?_inj (by omega) hnd).mp he
  refine ⟨hlen, ?_, by simp [pairsOf], ?_, ?_, by simp; omega, ?_, ?_, ?_, ?_, ?_⟩
  · intro pos x hx
    exact List.mem_range.mp (hperm.mem_iff.mp (List.mem_of_getElem? hx))
  · rw [hmem, List.take_append_drop]; exact hperm
  · rw [hmem, List.take_append_drop]; exact hnd
  · intro hodd
    have hlt : 2 * (n / 2) < order.length := by omega
    rw [List.drop_eq_getElem_cons hlt, List.drop_of_length_le (by omega)]
    have : n - 1 = 2 * (n / 2) := by omega
    simp [this, List.getD_eq_getElem?_getD, List.getElem?_eq_getElem hlt]
  · intro j hj he
    have := hinj (i := 2 * j) (by omega) he; omega
  · intro j j' x hj hj' h1 h2
    rcases h1 with h1 | h1 <;> rcases h2 with h2 | h2 <;>
      (have := hinj (by omega) (h1.trans h2.symm); omega)
  · intro x hx
    obtain ⟨pos, hpos, rfl⟩ := List.getElem_of_mem (hperm.mem_iff.mpr (List.mem_range.mpr hx))
    by_cases hp : pos < 2 * (n / 2)
    · refine .inl ⟨pos / 2, by omega, ?_⟩
      rcases Nat.mod_two_eq_zero_or_one pos with hm | hm
      · left; rw [show 2 * (pos / 2) = pos by omega]; exact List.getElem?_eq_getElem hpos
      · right; rw [show 2 * (pos / 2) + 1 = pos by omega]; exact List.getElem?_eq_getElem hpos
    · refine .inr ⟨by omega, ?_⟩
      rw [show n - 1 = pos by omega]; exact List.getElem?_eq_getElem hpos
  · intro hodd j hj
    refine ⟨fun he => ?_, fun he => ?_⟩
    · have := hinj (i := 2 * j) (by omega) he; omega
    · have := hinj (i := 2 * j + 1) (by omega) he; omega

/-! ## 6. the whole migration phase -/

/-- `_coordinate_migration_between_islands` on equally or unequally sized islands: the number
of islands is unchanged; over all islands nobody is lost or duplicated (up to the evaluated
flag); every island among the first `2 * (n / 2)` entries of `order` ends with all flags
cleared; an island that is in no pair is unchanged (for odd `n` that is `order[n - 1]`); and
if all islands have the same size, every island keeps it -/
theorem serial_migration {order : List Nat} {shuffles : List (List Nat)}
    {islands islands' : List (List Indiv)} (h : migrate order shuffles islands = some islands') :
    islands'.length = islands.length ∧
    ((islands'.flatten).map core).Perm ((islands.flatten).map core) ∧
    (∀ pos x, pos < 2 * (islands.length / 2) → order[pos]? = some x →
      ∃ pop, islands'[x]? = some pop ∧ ∀ i ∈ pop, i.flag = false) ∧
    (∀ x, (∀ pos, pos < 2 * (islands.length / 2) → order[pos]? ≠ some x) →
      islands'[x]? = islands[x]?) ∧
    (islands.length % 2 = 1 → ∀ x, order[islands.length - 1]? = some x →
      islands'[x]? = islands[x]? ∧ x < islands.length) ∧
    (∀ s, (∀ p ∈ islands, p.length = s) → ∀ p ∈ islands', p.length = s) := by
  obtain ⟨hp, hgo⟩ := migrate_eq_some h
  have hnd := nodup_of_isPerm hp
  obtain ⟨hlen, hcnt, hsame, hflag, hsz⟩ := go_spec hnd _ 0 _ _ hgo
  have hpair := pairing hp
  refine ⟨hlen, List.perm_iff_count.mpr hcnt, ?_, ?_, ?_, hsz⟩
  · intro pos x hpos hx
    have hxlt : x < islands'.length := by rw [hlen]; exact hpair.2.1 pos x hx
    exact ⟨islands'[x], List.getElem?_eq_getElem hxlt,
      hflag pos x (by omega) (by omega) hx _ (List.getElem?_eq_getElem hxlt)⟩
  · intro x hx
    exact hsame x fun pos _ h2 => hx pos (by omega)
  · intro hodd x hx
    refine ⟨hsame x fun pos _ h2 hc => ?_, hpair.2.1 _ x hx⟩
    have := getElem?_inj_of_nodup hnd hc hx; omega

/-! ## 7. migration does not fail on well-formed oracles -/

/-- every island takes part in at most one exchange, so the size an island has when it is
shuffled is its size before the migration: it suffices that the `pos`-th shuffle is a
permutation of the size of island `order[pos]` -/
theorem migrate_some {order : List Nat} {shuffles : List (List Nat)} {islands : List (List Indiv)}
    (hord : isPerm order islands.length = true)
    (hsh : ∀ pos, pos < 2 * (islands.length / 2) → ∃ x s pop, order[pos]? = some x ∧
      shuffles[pos]? = some s ∧ islands[x]? = some pop ∧ isPerm s pop.length = true) :
    ∃ islands', migrate order shuffles islands = some islands' := by
  obtain ⟨out, hout⟩ := go_isSome (shuffles := shuffles) (nodup_of_isPerm hord)
    (islands.length / 2) 0 islands (fun pos _ h2 => hsh pos (by omega))
  exact ⟨out, by simp only [migrate, hord, Bool.not_true, Bool.false_eq_true, if_false, hout]⟩

/-- equally sized islands: enough shuffles, each a permutation of `range size` -/
theorem migrate_some_equal {order : List Nat} {shuffles : List (List Nat)}
    {islands : List (List Indiv)} {size : Nat}
    (hord : isPerm order islands.length = true)
    (hsize : ∀ p ∈ islands, p.length = size)
    (hlen : 2 * (islands.length / 2) ≤ shuffles.length)
    (hsh : ∀ pos s, pos < 2 * (islands.length / 2) → shuffles[pos]? = some s →
      isPerm s size = true) :
    ∃ islands', migrate order shuffles islands = some islands' := by
  have hpair := pairing hord
  refine migrate_some hord fun pos hpos => ?_
  have h1 : pos < order.length := by omega
  have h2 : pos < shuffles.length := by omega
  have hx : order[pos] < islands.length := hpair.2.1 pos _ (List.getElem?_eq_getElem h1)
  refine ⟨order[pos], shuffles[pos], islands[order[pos]], List.getElem?_eq_getElem h1,
    List.getElem?_eq_getElem h2, List.getElem?_eq_getElem hx, ?_⟩
  rw [hsize _ (List.getElem_mem hx)]
  exact hsh pos _ hpos (List.getElem?_eq_getElem h2)

/-! ## 8. non-vacuity -/

/-- `k 3 = 2`, `k 5 = 2`, `k 1 = 0`, `k 2 = 1`, `k 4 = 2`, `k 7 = 4` -/
example : k 3 = 2 ∧ k 5 = 2 ∧ k 1 = 0 ∧ k 2 = 1 ∧ k 4 = 2 ∧ k 7 = 4 := by decide

example : isPerm [2, 0, 1] 3 = true ∧ pairsOf [2, 0, 1] 3 = [(2, 0)] ∧
    pairMembers [2, 0, 1] 3 = [2, 0] ∧ [2, 0, 1].drop (2 * (3 / 2)) = [1] := by decide

example : isPerm [2, 0, 2] 3 = false ∧ isPerm [0, 1] 3 = false ∧ isPerm [0, 3, 1] 3 = false := by
  decide

example : applyPerm [1, 2, 0] [10, 11, 12] = some [11, 12, 10] ∧
    applyPerm [1, 1, 0] [10, 11, 12] = none := by decide

/-- three islands of three distinct individuals; islands 2 and 0 are partners, island 1 sits out -/
example :
    migrate [2, 0, 1] [[1, 2, 0], [2, 1, 0]] [demoIsland 0 3, demoIsland 10 3, demoIsland 20 3] =
      some [[⟨0, some (some 0), false, 0⟩, ⟨21, some (some 21), false, 1⟩, ⟨22, some (some 22), false, 2⟩],
            demoIsland 10 3,
            [⟨20, some (some 20), false, 0⟩, ⟨2, some (some 2), false, 2⟩, ⟨1, some (some 1), false, 1⟩]] := by
  decide

/-- the hypotheses of `migrate_some_equal` hold for that input -/
example : isPerm [2, 0, 1] [demoIsland 0 3, demoIsland 10 3, demoIsland 20 3].length = true ∧
    (∀ p ∈ [demoIsland 0 3, demoIsland 10 3, demoIsland 20 3], p.length = 3) ∧
    (∀ s ∈ [[1, 2, 0], [2, 1, 0]], isPerm s 3 = true) := by decide

/-- odd, different sizes 3 and 5: each island sends two individuals and keeps its size -/
example :
    (migrate [0, 1] [[1, 2, 0], [4, 3, 2, 1, 0]] [demoIsland 0 3, demoIsland 10 5]).map
        (·.map (·.map fun i => (i.genome, i.flag))) =
      some [[(0, false), (14, false), (13, false)],
            [(12, false), (11, false), (10, false), (1, false), (2, false)]] := by decide

/-- sizes 1 and 2 (`k 1 = 0`, `k 2 = 1`): the islands swap their sizes, so "every island keeps
its size" needs the equal-size hypothesis -/
example :
    (migrate [0, 1] [[0], [1, 0]] [demoIsland 0 1, demoIsland 10 2]).map
        (·.map (·.map fun i => (i.genome, i.flag))) =
      some [[(0, false), (11, false)], [(10, false)]] := by decide

/-- a shuffle oracle of the wrong length is rejected -/
example : migrate [1, 0] [[1, 2, 0], [4, 3, 2, 1, 0]] [demoIsland 0 3, demoIsland 10 5] = none := by
  decide

end Bingo.C11
