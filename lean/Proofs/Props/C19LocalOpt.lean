import Proofs.Props.C19
import Model.LocalOpt
/-!
# C19 ∘ C06: the evaluation count of a phase whose fitness function optimizes locally

"The evaluation count reported by an optimizer equals the number of times the underlying fitness
function was actually invoked, ... including invocations made by local optimization."

`C19.count_delta` is parametric in `cost : genome → Nat`, the number of base-fitness invocations
one wrapped call makes.  `C06.call_count` computes that number for `LocalOptFitnessFunction`:
one per optimizer trial, one per separate Jacobian request, plus the final evaluation -- or just
one when the equation does not request optimization or has no parameters.  Instantiating the one
with the other gives the count of a whole (serial or multiprocess) evaluation phase in terms of
what scipy did, for every optimizer behaviour and every completion order of the worker pool.
-/
namespace Bingo.C19
open Bingo.Pipeline Bingo.LocalOpt

variable {V : Type}

/-- fitness and cost of one wrapped call on genome `g` (`eqn g` = the equation's constants / flag /
parameter count, `orc g` = what the optimizer does on it) -/
def wrappedFit (base : List V → Key) (orc : Nat → Oracle V) (eqn : Nat → Eqn V) (g : Nat) : Key :=
  (call base (orc g) (eqn g)).1
def wrappedCost (base : List V → Key) (orc : Nat → Oracle V) (eqn : Nat → Eqn V) (g : Nat) : Nat :=
  (call base (orc g) (eqn g)).2.2

/-- the invocations of the base fitness function made for one individual -/
def baseCalls (orc : Nat → Oracle V) (eqn : Nat → Eqn V) (g : Nat) : Nat :=
  if (eqn g).needsOpt ∧ (eqn g).numParams ≠ 0 then (orc g).trials.length + (orc g).jacCalls + 1
  else 1

theorem wrappedCost_eq (base : List V → Key) (orc : Nat → Oracle V) (eqn : Nat → Eqn V) (g : Nat) :
    wrappedCost base orc eqn g = baseCalls orc eqn g := by
  -- the statement of `C06.call_count`, re-proved here so that this file depends on the model
  -- `LocalOpt.call` only and not on the C06 obligations about `EquationRegressor.fit`
  unfold wrappedCost baseCalls call optimize
  by_cases h : (eqn g).needsOpt = true <;> by_cases h0 : (eqn g).numParams = 0 <;> simp [h, h0]

/-- Serial phase with a locally optimizing fitness function: the counter advances by exactly the
number of base-fitness invocations, summed over the individuals that were due. -/
theorem count_delta_local_opt (base : List V → Key) (orc : Nat → Oracle V) (eqn : Nat → Eqn V)
    (redundant : Bool) (pop : List Indiv) :
    (serialEval (wrappedFit base orc eqn) (wrappedCost base orc eqn) redundant pop).2 =
      ((pop.filter fun i => redundant || !i.flag).map (fun i => baseCalls orc eqn i.genome)).sum := by
  rw [count_delta]
  congr 1
  apply List.map_congr_left
  intro i _
  exact wrappedCost_eq base orc eqn i.genome

/-- The same for multiprocess evaluation, for every order in which the pool returns the jobs. -/
theorem count_delta_local_opt_mp (base : List V → Key) (orc : Nat → Oracle V) (eqn : Nat → Eqn V)
    (redundant : Bool) (pop : List Indiv)
    (order : List (Nat × Indiv × Nat) → List (Nat × Indiv × Nat))
    (hperm : (order (jobs (wrappedFit base orc eqn) (wrappedCost base orc eqn) redundant pop)).Perm
      (jobs (wrappedFit base orc eqn) (wrappedCost base orc eqn) redundant pop)) :
    (multiprocessEval (wrappedFit base orc eqn) (wrappedCost base orc eqn) redundant pop order).2 =
      ((pop.filter fun i => redundant || !i.flag).map (fun i => baseCalls orc eqn i.genome)).sum := by
  rw [multiprocess_phase _ _ redundant pop order hperm]
  exact count_delta_local_opt base orc eqn redundant pop

/-- every due individual costs at least one invocation, an individual that is not due none: the
count is at least the number of due individuals, with equality iff nobody was optimized -/
theorem count_ge_due (base : List V → Key) (orc : Nat → Oracle V) (eqn : Nat → Eqn V)
    (redundant : Bool) (pop : List Indiv) :
    (pop.filter fun i => redundant || !i.flag).length ≤
      (serialEval (wrappedFit base orc eqn) (wrappedCost base orc eqn) redundant pop).2 := by
  rw [count_delta_local_opt]
  generalize (pop.filter fun i => redundant || !i.flag) = l
  induction l with
  | nil => simp
  | cons i rest ih =>
    simp only [List.length_cons, List.map_cons, List.sum_cons]
    have : 1 ≤ baseCalls orc eqn i.genome := by
      unfold baseCalls; split <;> omega
    omega

/-! non-vacuity: three individuals; genome 0 is optimized with 2 trials and 1 Jacobian request
(4 invocations), genome 1 does not request optimization (1), genome 2 is already evaluated (0) -/
example :
    (serialEval
      (wrappedFit (V := Int) (fun c => some c.length) (fun _ => ⟨[[1], [2]], 1, [7]⟩)
        (fun g => ⟨[0], g == 0, 1⟩))
      (wrappedCost (V := Int) (fun c => some c.length) (fun _ => ⟨[[1], [2]], 1, [7]⟩)
        (fun g => ⟨[0], g == 0, 1⟩))
      false [⟨0, none, false, 0⟩, ⟨1, none, false, 0⟩, ⟨2, some (some 1), true, 0⟩]).2 = 5 := by
  decide

end Bingo.C19
