import Proofs.Lemmas.Tables
import Proofs.Lemmas.FwdDen
import Proofs.Lemmas.TreeShape
import Proofs.Lemmas.WFFwd
import Proofs.Lemmas.Erase
import Proofs.Lemmas.DenMath
/-!
# C01: the evaluation backend computes the mathematical value of the expression

Only the property theorems and their non-vacuity examples live here; the proofs are in
`Proofs/Lemmas/*.lean` (all core-only except `DenMath`, which needs Mathlib's `ℝ`).
-/
namespace Bingo.C01
open Bingo.Tables

/-! ## 1. the translator reported no problem -/

theorem gen_tables_ok : Gen.OpDefs.problems = [] ∧ Gen.OpRules.problems = [] := by decide

/-! ## 2. decidable side-conditions on the generated tables -/

/-- every forward rule is supported, its node has one of the three legal (terminal, arity-2)
pairs, and it reads only the slots a node of that arity may read -/
theorem rules_consistent : rulesConsistent = true := by decide

/-- every node of the arity tables has a forward rule (used by 5 and 6) -/
theorem rules_total : rulesTotal = true := by decide

/-- VARIABLE reads no constant, CONSTANT no data column, INTEGER neither (used by 5 and 6) -/
theorem terminals_consistent : terminalsConsistent = true := by decide

/-- two contexts that agree on everything an expression reads give the same `interp` -/
theorem interp_congr {α : Type} [Scalar α] (e : RExpr) (cx cx' : RuleCtx α)
    (h : ∀ d, e.reads d = true → cx.get d = cx'.get d) : e.interp cx = e.interp cx' :=
  RExpr.interp_congr e cx cx' h

/-! ## 3. the row-by-row DAG sweep = evaluating the unfolded tree of every row -/

theorem fwd_eq_den {α : Type} [Scalar α] (s : Stack) (x c : List α) :
    Eval.fwd s x c = (ETree.trees s).mapM (ETree.den x c) :=
  FwdDen.fwd_eq_den s x c

theorem evalLast_eq_den {α : Type} [Scalar α] (s : Stack) (x c : List α) (vs : List α)
    (h : Eval.fwd s x c = some vs) :
    Eval.evalLast s x c = ETree.den x c (ETree.ofStack s) :=
  FwdDen.evalLast_eq_den s x c vs h

/-! ## 4. the generated rules denote the hand-written mathematical functions

The statement without `arityOK` is false (see the counterexamples below): `ETree` allows a
terminal node number in an operator position, where the generated INTEGER rule still returns
`float(param1)` while the specification has no unary/binary meaning for it. -/

theorem den_eq_math (x c : List ℝ) (t : ETree) (h : t.arityOK = true) :
    ETree.den x c t = MathSem.den x c t :=
  DenMath.den_eq_math x c t h

/-- every tree obtained by unfolding a stack satisfies the hypothesis of `den_eq_math` -/
theorem trees_arityOK (s : Stack) : ∀ t ∈ ETree.trees s, t.arityOK = true :=
  ETree.trees_arityOK s

theorem ofStack_arityOK (s : Stack) : (ETree.ofStack s).arityOK = true :=
  ETree.ofStack_arityOK s

/-- 3 + 4 end to end, unconditionally: the sweep computes the mathematical value of every row -/
theorem fwd_eq_math (s : Stack) (x c : List ℝ) :
    Eval.fwd s x c = (ETree.trees s).mapM (MathSem.den x c) :=
  DenMath.fwd_eq_math s x c

/-! ## 5. a well-formed stack never raises in the value-level model -/

theorem wf_fwd_some {α : Type} [Scalar α] (D L : Nat) (s : Stack) (x c : List α)
    (h : WF.WFEval D L s) (hx : x.length = D) (hc : c.length = L) :
    ∃ vs, Eval.fwd s x c = some vs ∧ vs.length = s.length :=
  WFFwd.wf_fwd_some D L s x c h hx hc

/-! ## 6. erasure between the Python-object-level and the value-level model -/

theorem evalpy_ok_erase {α : Type} [Scalar α] (isZero : α → Bool) (s : Stack) (x : List α)
    (c : List (KVal α)) (kv : List (KVal α)) :
    EvalPy.fwd isZero s x c = .ok kv → Eval.fwd s x (c.map Prod.snd) = some (kv.map Prod.snd) :=
  Erase.evalpy_ok_erase isZero s x c kv

theorem only_exception_is_pydiv {α : Type} [Scalar α] (isZero : α → Bool) (D L : Nat) (s : Stack)
    (x : List α) (c : List (KVal α)) (h : WF.WFEval D L s) (hx : x.length = D)
    (hc : c.length = L) : EvalPy.fwd isZero s x c ≠ .error .other :=
  WFFwd.only_exception_is_pydiv isZero D L s x c h hx hc

/-! ## 7. non-vacuity: the theorems instantiated on (x0*c0)+(x0*c0) with a shared row -/

/-- `(x0 * c0) + (x0 * c0)`, row 2 shared -/
def s0 : Stack := [⟨0, 0, 0⟩, ⟨1, 0, 0⟩, ⟨4, 0, 1⟩, ⟨2, 2, 2⟩]

example : WF.WFEval 1 1 s0 := by decide

example : ETree.trees s0 =
    [.leaf 0 0, .leaf 1 0, .bin 4 (.leaf 0 0) (.leaf 1 0),
     .bin 2 (.bin 4 (.leaf 0 0) (.leaf 1 0)) (.bin 4 (.leaf 0 0) (.leaf 1 0))] := rfl

-- 3: both sides are `some` of the expected values, for an arbitrary scalar type
example {α : Type} [Scalar α] (x0 c0 : α) :
    (ETree.trees s0).mapM (ETree.den [x0] [c0]) =
      some [x0, c0, Scalar.mul x0 c0, Scalar.add (Scalar.mul x0 c0) (Scalar.mul x0 c0)] :=
  (fwd_eq_den s0 [x0] [c0]).symm.trans rfl

example {α : Type} [Scalar α] (x0 c0 : α) :
    ETree.den [x0] [c0] (ETree.ofStack s0) =
      some (Scalar.add (Scalar.mul x0 c0) (Scalar.mul x0 c0)) :=
  (evalLast_eq_den s0 [x0] [c0] _ rfl).symm.trans rfl

-- 4: the hypothesis holds for the tree of `s0`, and the conclusion is the expected real number
example : (ETree.ofStack s0).arityOK = true := by decide

example (x0 c0 : ℝ) :
    MathSem.den [x0] [c0] (ETree.ofStack s0) = some (x0 * c0 + x0 * c0) :=
  (den_eq_math [x0] [c0] (ETree.ofStack s0) (by decide)).symm.trans rfl

example (x0 c0 : ℝ) :
    (ETree.trees s0).mapM (MathSem.den [x0] [c0]) = some [x0, c0, x0 * c0, x0 * c0 + x0 * c0] :=
  (fwd_eq_math s0 [x0] [c0]).symm.trans rfl

-- 4: the unconditional statement is false
example (x c : List ℝ) :
    ETree.den x c (.un (-1) .bad) = some 0 ∧ MathSem.den x c (.un (-1) .bad) = none := by
  constructor
  · simp [ETree.den, Eval.fwdRule, Gen.OpRules.fwdRules, RExpr.interp, ETree.opCtx]
  · simp [MathSem.den]

-- 5
example {α : Type} [Scalar α] (x0 c0 : α) :
    ∃ vs, Eval.fwd s0 [x0] [c0] = some vs ∧ vs.length = 4 :=
  wf_fwd_some 1 1 s0 [x0] [c0] (by decide) rfl rfl

-- 6: the object-level sweep succeeds on `s0` (x is a column, c0 a numpy scalar) ...
example {α : Type} [Scalar α] (isZero : α → Bool) (x0 c0 : α) :
    EvalPy.fwd isZero s0 [x0] [(.np, c0)] =
      .ok [(.col, x0), (.np, c0), (.col, Scalar.mul x0 c0),
           (.col, Scalar.add (Scalar.mul x0 c0) (Scalar.mul x0 c0))] := rfl

-- ... so erasure applies and gives the value-level result
example {α : Type} [Scalar α] (isZero : α → Bool) (x0 c0 : α) :
    Eval.fwd s0 [x0] [c0] =
      some [x0, c0, Scalar.mul x0 c0, Scalar.add (Scalar.mul x0 c0) (Scalar.mul x0 c0)] :=
  evalpy_ok_erase isZero s0 [x0] [(.np, c0)] _ rfl

example {α : Type} [Scalar α] (isZero : α → Bool) (x0 c0 : α) :
    EvalPy.fwd isZero s0 [x0] [(.np, c0)] ≠ .error .other :=
  only_exception_is_pydiv isZero 1 1 s0 [x0] [(.np, c0)] (by decide) rfl rfl

/-- `1 / 0` on Python ints: well-formed, and it does raise `ZeroDivisionError`, so
`only_exception_is_pydiv` cannot be strengthened to "never raises" -/
def sDiv : Stack := [⟨-1, 1, 1⟩, ⟨-1, 0, 0⟩, ⟨5, 0, 1⟩]

example : WF.WFEval 0 0 sDiv := by decide

example {α : Type} [Scalar α] :
    EvalPy.fwd (α := α) (fun _ => true) sDiv [] [] = .error .zerodiv := rfl

end Bingo.C01
