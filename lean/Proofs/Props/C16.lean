import Model.Strings
import Model.StringsTok
import Proofs.Lemmas.StrPostfix
import Proofs.Lemmas.StrRef
import Proofs.Lemmas.StrShunt
import Proofs.Lemmas.StrRound
import Proofs.Lemmas.StrFormat
import Proofs.Lemmas.StrTokenize
import Proofs.Lemmas.StrNegBase
/-!
# C16: printing an equation in the sympy format and parsing it back gives the same function

Only the property theorems, the table-pinning `decide` theorems and non-vacuity examples live here; the
proofs are in `Proofs/Lemmas/Str*.lean` (`StrTrees`, `StrPostfix`, `StrShunt`, `StrTokens`, `StrFormat` are
core-only; `StrRef`, `StrRound` need Mathlib's `ℝ` through `MathSem`).

Pipeline of the model (`Model/Strings.lean`): `parse = tokenize ; infixToPostfix ; postfixToCommands`,
`format .sympy` prints row by row.  `Model/StringsTok.lean` adds the tree printer `sympyStr`, its token list
`sympyToks`, the grammar `GE` and the re-associated parse tree `parseTree`.

`val : String → ℝ` is an arbitrary interpretation of float literals (Python's `float`).
-/
namespace Bingo.C16
open Bingo.Str Bingo.Str.Tables Gen.OpDefs

/-! ## 0. the translator reported no problem -/

theorem gen_ok : Gen.StringTables.problems = [] := by decide

/-! ## 1. the hand tables of `Model/StringsTok.lean` are pinned to the generated tables -/

/-- every key of `SYMPY_PRINT_MAP` is a unary node `n` named `f` whose template is `f({})`, `f` is one of the
parser's `functions` and `operator_map` sends it back to `n`; or it is one of the six binary nodes -/
theorem unName_pinned : SYMPY_PRINT_MAP.all (fun p =>
    match unName p.1 with
    | some f => p.2 == f ++ "({})" && functions.contains f && operator_map.lookup f == some p.1 &&
        (binName p.1).isNone
    | none => (binName p.1).isSome) = true := by decide

/-- the six binary templates, literally -/
theorem bin_templates :
    SYMPY_PRINT_MAP.lookup ADDITION = some "{} + {}" ∧
    SYMPY_PRINT_MAP.lookup SUBTRACTION = some "{} - ({})" ∧
    SYMPY_PRINT_MAP.lookup MULTIPLICATION = some "({})*({})" ∧
    SYMPY_PRINT_MAP.lookup DIVISION = some "({})/({})" ∧
    SYMPY_PRINT_MAP.lookup POWER = some "({})**({})" ∧
    SYMPY_PRINT_MAP.lookup SAFE_POWER = some "abs({})**({})" := by decide

/-- the tokenizer rewrites `**` to `^` (and `)(` to `)*(`, which never occurs in a sympy string) -/
theorem replacements_pinned : replacements = [(")(", ")*("), ("**", "^")] := by decide

/-- the three regex passes of the tokenizer, in order, with their replacement templates (the second one is the
repair of F11b) -/
theorem sub_passes_pinned :
    subOrder = ["negative_pattern", "negative_base_pattern", "non_unary_op_pattern"] ∧
    negative_pattern = "-([^\\s\\d])" ∧ negative_repl = "-1 * \\1" ∧
    negative_base_pattern = "(?<![\\d.][eE])-((?:\\d+\\.?\\d*|\\.\\d+)(?:[eE][+-]?\\d+)?\\s*\\^)" ∧
    negative_base_repl = "-1 * \\1" ∧
    non_unary_op_pattern = "([*/^()])" ∧ non_unary_op_repl = " \\1 " := by decide

/-- the operator token of a binary node is an operator of the parser mapped back to the node
(SAFE_POWER is printed with `abs(·)` and the POWER token) -/
theorem binName_pinned :
    binName ADDITION = some "+" ∧ binName SUBTRACTION = some "-" ∧ binName MULTIPLICATION = some "*" ∧
    binName DIVISION = some "/" ∧ binName POWER = some "^" ∧ binName SAFE_POWER = some "^" ∧
    operators.all (fun o => SYMPY_PRINT_MAP.any fun p =>
      binName p.1 == some o && operator_map.lookup o == some p.1) = true ∧
    operator_map.lookup "abs" = some ABS := by decide

/-- every function name of the parser is the name of a unary node; operators and functions and the
parentheses are pairwise different tokens -/
theorem names_pinned :
    functions.all (fun f => SYMPY_PRINT_MAP.any fun p => unName p.1 == some f) = true ∧
    operators.all (fun o => !functions.contains o) = true ∧
    (operators ++ functions).all (fun o => o != LPAREN && o != RPAREN) = true ∧
    LPAREN = "(" ∧ RPAREN = ")" ∧ RIGHT_ASSOC = "^" ∧
    precedence = [("+", 0), ("-", 0), ("*", 1), ("/", 1), ("^", 2)] := by decide

/-- the same facts in the form the proofs use them (for arbitrary node numbers) -/
theorem unName_spec {n : Int} {f : String} (h : unName n = some f) :
    functions.contains f = true ∧ operators.contains f = false ∧ operator_map.lookup f = some n :=
  ⟨(Round.unName_spec h).1, (Round.unName_spec h).2.1, (Round.unName_spec h).2.2.1⟩

theorem binName_spec {n : Int} {o : String} (h : binName n = some o) :
    operators.contains o = true ∧ (n = SAFE_POWER ∨ operator_map.lookup o = some n) :=
  ⟨(Round.binName_spec h).1, (Round.binName_spec h).2.2.2⟩

/-! ## A. the parser's output is a well-formed command array (for ALL postfix token lists) -/

/-- every operator row references earlier rows only, terminal rows have non-negative parameters, CONSTANT rows
index a collected constant, rows are pairwise distinct: `WFEval D c'.length s'` for every `D` above the
variable indices.  `hnc` (no explicit `c_k` token) is needed for the constant bound only, see the
counterexample below and `postfix_wf_general`. -/
theorem postfix_wf (toks : List String) (s' : Stack) (c' : List String)
    (h : postfixToCommands toks = .ok (s', c')) (hne : toks ≠ [])
    (hnc : ∀ t ∈ toks, Post.isConstName t = false) (D : Nat)
    (hD : ∀ c ∈ s', c.node = VARIABLE → c.p1 < D) :
    WF.WFEval D c'.length s' ∧ s'.Nodup :=
  Post.postfix_wf h hne hnc D hD

/-- the same with the explicit bound `maxVar s'` -/
theorem postfix_wf_maxVar (toks : List String) (s' : Stack) (c' : List String)
    (h : postfixToCommands toks = .ok (s', c')) (hne : toks ≠ [])
    (hnc : ∀ t ∈ toks, Post.isConstName t = false) :
    WF.WFEval (Post.maxVar s') c'.length s' :=
  (Post.postfix_wf h hne hnc _ (Post.lt_maxVar s')).1

/-- with explicit `c_k` tokens: well-formed for every `L` above the constant indices -/
theorem postfix_wf_general (toks : List String) (s' : Stack) (c' : List String)
    (h : postfixToCommands toks = .ok (s', c')) (hne : toks ≠ []) (D L : Nat)
    (hD : ∀ c ∈ s', c.node = VARIABLE → c.p1 < D) (hL : ∀ c ∈ s', c.node = CONSTANT → c.p1 < L) :
    WF.WFEval D L s' ∧ s'.Nodup :=
  Post.postfix_wf_general h hne D L hD hL

/-- `hnc` cannot be dropped: `c_5` alone yields a CONSTANT row 5 and no constant -/
example : postfixToCommands ["c_5"] = .ok ([⟨1, 5, 5⟩], []) ∧
    ∀ D, ¬ WF.WFEval D ([] : List String).length [⟨1, 5, 5⟩] := by
  refine ⟨rfl, fun D => ?_⟩
  simp [WF.WFEval, WF.wf, WF.rowsOK, WF.rowOK, Ops.isTerminal, Ops.isArity2, Gen.OpDefs.isTerminalTbl,
    Gen.OpDefs.isArity2Tbl, List.lookup, VARIABLE, CONSTANT]

/-! ## B. `postfixToCommands` never silently yields a different function -/

/-- For ALL non-empty postfix token lists (explicit `c_k` tokens included: they load constant `k` of the
RETURNED constant list, exactly as the command array will be evaluated): if a command array is returned, the
reference stack machine `Ref.refRun` (which knows nothing about command arrays, sharing or constant
collection) ends with exactly one value, and that value is the value of the returned equation. -/
theorem postfix_sound (val : String → ℝ) (x : List ℝ) (toks : List String) (s' : Stack)
    (c' : List String) (hne : toks ≠ []) (h : postfixToCommands toks = .ok (s', c')) :
    Ref.refRun x (c'.map val) val toks [] =
      some [MathSem.den x (c'.map val) (ETree.ofStack s')] :=
  Ref.postfix_sound val x toks s' c' hne h

/-- the crux of B: despite sharing, the root is the last row whenever the final stack has one entry -/
theorem root_is_last {toks : List String} {st' : PState} (h : postfixLoop toks {} = .ok st')
    {j : Nat} (hs : st'.stack = [j]) : j + 1 = st'.cmds.length :=
  (Post.postfixLoop_inv Post.PInv.init h).root_last hs

/-- converse of B at the level of acceptance: the loop raises only where the reference machine does -/
theorem postfix_complete (x cs : List ℝ) (val : String → ℝ) (toks : List String)
    (R' : List (Option ℝ)) (h : Ref.refRun x cs val toks [] = some R') :
    ∃ st', postfixLoop toks {} = .ok st' ∧ R'.length = st'.stack.length :=
  Ref.loop_complete x cs val (st := {}) (R := []) rfl h

/-! ## C. shunting-yard -/

/-- the classical statement: on the precedence grammar without unary minus
`E := T (("+"|"-") T)*, T := F (("*"|"/") F)*, F := P ("^" F)?, P := atom | "(" E ")" | fn "(" E ")"`
(`GE.ok 0 e`: `e` is derivable from `E`) the output is the postfix form of the syntax tree -/
theorem shunting_yard_grammar (e : GE) (h : e.ok 0 = true) : infixToPostfix e.toks = .ok e.post :=
  shunt_grammar e h

/-- the tokens of a printed tree are the infix tokens of the (re-associated) tree `parseTree` -/
theorem sympyToks_eq_toks (consts : List String) (t : ETree) :
    sympyToks consts t = (parseTree consts t).toks :=
  Round.sympyToks_eq consts t

theorem parseTree_in_grammar (consts : List String) (t : ETree) (h : printOK consts t = true) :
    (parseTree consts t).ok 0 = true :=
  Round.parseTree_ok consts t h

theorem shunting_yard_sympy (consts : List String) (t : ETree) (h : printOK consts t = true) :
    infixToPostfix (sympyToks consts t) = .ok (parseTree consts t).post :=
  Round.shunting_yard_sympy consts t h

/-- Python's `repr` of finite floats satisfies the condition on constant strings -/
example : ["-2.5", "1e-05", "1e+20", "0.1"].all constTokOK = true := by decide

/-! ## D. printing a tree and parsing its tokens gives the same function

`hsize` is needed: the model's lists are unbounded, while the parser stores row indices in a C `long`
(`np.array(command_array, dtype=int)`); a tree with 2^63 leaves would make `postfixToCommands` raise
`OverflowError` (no concrete witness can be written down).  `hneg` is needed: see the counterexample. -/
theorem roundtrip_tree (val : String → ℝ) (consts : List String) (t : ETree)
    (h : printOK consts t = true) (hneg : ∀ n : Int, n < 0 → val (toString n) = (n : ℝ))
    (hsize : (sympyToks consts t).length < 2 ^ 63) :
    ∃ s' c', parseToks (sympyToks consts t) = .ok (s', c') ∧
      ∀ x : List ℝ, MathSem.den x (c'.map val) (ETree.ofStack s') =
        MathSem.den x (consts.map val) t :=
  Round.roundtrip_tree val consts t h hneg hsize

/-! ## E. the same for well-formed command arrays -/

theorem roundtrip_stack (val : String → ℝ) (D L : Nat) (s : Stack) (consts : List String)
    (hwf : WF.WFEval D L s) (hL : consts.length = L)
    (hconsts : ∀ c ∈ consts, constTokOK c = true)
    (hint : ∀ c ∈ s, (c.node = INTEGER ∨ c.node = VARIABLE) → fitsInt64 c.p1 = true)
    (hneg : ∀ n : Int, n < 0 → val (toString n) = (n : ℝ))
    (hsize : (sympyToks consts (ETree.ofStack s)).length < 2 ^ 63) :
    ∃ s' c', parseToks (sympyToks consts (ETree.ofStack s)) = .ok (s', c') ∧
      ∀ x : List ℝ, MathSem.den x (c'.map val) (ETree.ofStack s') =
        MathSem.den x (consts.map val) (ETree.ofStack s) :=
  Round.roundtrip_stack val D L s consts hwf hL hconsts hint hneg hsize

/-- trees of well-formed stacks are printable -/
theorem ofStack_printOK (D L : Nat) (s : Stack) (consts : List String) (hwf : WF.WFEval D L s)
    (hL : consts.length = L) (hconsts : ∀ c ∈ consts, constTokOK c = true)
    (hint : ∀ c ∈ s, (c.node = INTEGER ∨ c.node = VARIABLE) → fitsInt64 c.p1 = true) :
    printOK consts (ETree.ofStack s) = true :=
  Round.ofStack_printOK D L s consts hwf hL hconsts hint

/-! ## F. the row-by-row printer prints the tree of the last row (DAG versus tree) -/

theorem format_eq_tree (D L : Nat) (s : Stack) (consts : List String) (h : WF.WFEval D L s)
    (hc : consts.length = L) :
    Str.format .sympy s consts = .ok (sympyStr consts (ETree.ofStack s)) :=
  Str.format_eq_tree D L s consts h hc

/-! ## G. the tokenizer on a printed tree; the round trip at string level -/

/-- Python's `repr` of finite floats satisfies the character-level condition on constant strings
(non-empty, characters among `0-9 . e + -`, every `-` immediately followed by a digit) -/
example : ["-2.5", "1e-05", "1e+20", "0.1"].all constCharsOK = true := by decide

theorem tokenize_sympyStr (consts : List String) (t : ETree) (h : printOK consts t = true)
    (hc : ∀ c ∈ consts, constCharsOK c = true) :
    tokenize (sympyStr consts t) = .ok (sympyToks consts t) :=
  Str.tokenize_sympyStr consts t h hc

/-- `constCharsOK` cannot be dropped: `-inf` satisfies `constTokOK` but is re-tokenized as `-1 * inf` -/
example : constTokOK "-inf" = true ∧
    (tokenize (sympyStr ["-inf"] (.leaf CONSTANT 0))).toOption = some ["-1", "*", "inf"] := by decide

theorem parse_of_tokenize {str : String} {toks : List String} (h : tokenize str = .ok toks) :
    parse str = parseToks toks := by
  simp only [parse, parseToks, h]
  rfl

/-- D at string level: `parse (sympyStr consts t)` is an equation with the same values as `t` -/
theorem roundtrip_string (val : String → ℝ) (consts : List String) (t : ETree)
    (h : printOK consts t = true) (hc : ∀ c ∈ consts, constCharsOK c = true)
    (hneg : ∀ n : Int, n < 0 → val (toString n) = (n : ℝ))
    (hsize : (sympyToks consts t).length < 2 ^ 63) :
    ∃ s' c', parse (sympyStr consts t) = .ok (s', c') ∧
      ∀ x : List ℝ, MathSem.den x (c'.map val) (ETree.ofStack s') =
        MathSem.den x (consts.map val) t := by
  rw [parse_of_tokenize (tokenize_sympyStr consts t h hc)]
  exact roundtrip_tree val consts t h hneg hsize

/-- C16 end to end: printing a well-formed command array in the sympy format and constructing an equation
from that string succeeds and gives an equation that evaluates identically -/
theorem roundtrip_format (val : String → ℝ) (D L : Nat) (s : Stack) (consts : List String)
    (hwf : WF.WFEval D L s) (hL : consts.length = L)
    (hconsts : ∀ c ∈ consts, constTokOK c = true ∧ constCharsOK c = true)
    (hint : ∀ c ∈ s, (c.node = INTEGER ∨ c.node = VARIABLE) → fitsInt64 c.p1 = true)
    (hneg : ∀ n : Int, n < 0 → val (toString n) = (n : ℝ))
    (hsize : (sympyToks consts (ETree.ofStack s)).length < 2 ^ 63) :
    ∃ str s' c', Str.format .sympy s consts = .ok str ∧ parse str = .ok (s', c') ∧
      ∀ x : List ℝ, MathSem.den x (c'.map val) (ETree.ofStack s') =
        MathSem.den x (consts.map val) (ETree.ofStack s) := by
  obtain ⟨s', c', hp, hden⟩ := roundtrip_string val consts (ETree.ofStack s)
    (ofStack_printOK D L s consts hwf hL (fun c hc => (hconsts c hc).1) hint)
    (fun c hc => (hconsts c hc).2) hneg hsize
  exact ⟨_, s', c', format_eq_tree D L s consts hwf hL, hp, hden⟩

/-! ## H. documentation examples -/

/-- F11b repaired (third regex pass `negative_base_pattern`, `-N^` ↦ `-1 * N^`): `-2**X_0` is read as
`(-1) * (2 ** X_0)` (the power binds tighter than the minus) -/
example : tokenize "-2**X_0" = .ok ["-1", "*", "2", "^", "x_0"] := rfl
example : parse "-2**X_0" =
    .ok ([⟨CONSTANT, 0, 0⟩, ⟨INTEGER, 2, 2⟩, ⟨VARIABLE, 0, 0⟩, ⟨POWER, 1, 2⟩, ⟨MULTIPLICATION, 0, 3⟩],
      ["-1"]) := rfl

/-- an explicitly parenthesised negative base is still `(-2.0) ** X_0` -/
example : parse "(-2)**X_0" =
    .ok ([⟨CONSTANT, 0, 0⟩, ⟨VARIABLE, 0, 0⟩, ⟨POWER, 0, 1⟩], ["-2"]) := rfl

/-- the lookbehind of the pass: the `-` of a float exponent is not a unary minus -/
example : tokenize "1e-2**X_0" = .ok ["1e-2", "^", "x_0"] := rfl

/-- the pass, pinned: at a `-` not blocked by the lookbehind and followed by digits and `^` it emits
`-1 * `, the digits and `^`, and continues behind the `^` as on a fresh string -/
theorem negativeBaseSub_spec (p2 p1 : Option Char) (hb : lookbehindBlocks p2 p1 = false)
    (ds post : List Char) (hne : ds ≠ []) (hds : ∀ c ∈ ds, isReDigit c = true) :
    negativeBaseGo 0 p2 p1 ('-' :: (ds ++ '^' :: post)) =
      ['-', '1', ' ', '*', ' '] ++ ds ++ '^' :: negativeBaseSub post :=
  NegBase.negativeBaseGo_spec p2 p1 hb ds post hne hds

/-- a `-` preceded by the mantissa-and-`e` of a float literal is left alone -/
theorem negativeBaseSub_blocked (p2 p1 : Option Char) (hb : lookbehindBlocks p2 p1 = true)
    (r : List Char) :
    negativeBaseGo 0 p2 p1 ('-' :: r) = '-' :: negativeBaseGo 0 p1 (some '-') r :=
  NegBase.negativeBaseGo_blocked p2 p1 hb r

/-- the pass is the identity on every string in which each `^` is immediately preceded by `)`, in particular
on printed sympy strings (used by G) -/
theorem negativeBaseSub_id (s : List Char) (h : Tkz.caretOK s = true) : negativeBaseSub s = s :=
  Tkz.negativeBaseSub_id h

example : String.ofList (negativeBaseSub "-12^x - 1e-5^y".toList) = "-1 * 12^x - 1e-5^y" := by decide

/-- an explicit `C_0` and the first float literal share constant slot 0: `C_0 + 2.5` is read as
`C_0 + C_0` with `C_0 = 2.5` (the single row `(1,0,0)` is shared) -/
example : parse "C_0 + 2.5" = .ok ([⟨CONSTANT, 0, 0⟩, ⟨ADDITION, 0, 0⟩], ["2.5"]) := rfl

/-- re-association: `a + (b - c)` prints as `a + b - (c)` and is read as `(a + b) - c` -/
example : sympyToks [] (.bin ADDITION (.leaf VARIABLE 0) (.bin SUBTRACTION (.leaf VARIABLE 1) (.leaf VARIABLE 2)))
      = ["x_0", "+", "x_1", "-", "(", "x_2", ")"] ∧
    parseTree [] (.bin ADDITION (.leaf VARIABLE 0) (.bin SUBTRACTION (.leaf VARIABLE 1) (.leaf VARIABLE 2)))
      = .op "-" (.op "+" (.atom "x_0") (.atom "x_1")) (.paren (.atom "x_2")) := by decide

/-! ## non-vacuity -/

/-- `X_0 + -2.5 - (abs(-3)**(sin(X_1)))` -/
def t1 : ETree :=
  .bin ADDITION (.leaf VARIABLE 0)
    (.bin SUBTRACTION (.leaf CONSTANT 0) (.bin SAFE_POWER (.leaf INTEGER (-3)) (.un SIN (.leaf VARIABLE 1))))

example : sympyStr ["-2.5"] t1 = "X_0 + -2.5 - (abs(-3)**(sin(X_1)))" := by decide
example : printOK ["-2.5"] t1 = true := by decide
example : (sympyToks ["-2.5"] t1).length < 2 ^ 63 := by decide
example : tokenize (sympyStr ["-2.5"] t1) = .ok (sympyToks ["-2.5"] t1) := rfl

-- C on `t1`
example : infixToPostfix (sympyToks ["-2.5"] t1) =
    .ok ["x_0", "-2.5", "+", "-3", "abs", "x_1", "sin", "^", "-"] :=
  (shunting_yard_sympy ["-2.5"] t1 (by decide)).trans rfl

-- the stack the parser builds from the printed `t1` (negative integer becomes a constant,
-- SAFE_POWER becomes POWER of ABS)
example : parseToks (sympyToks ["-2.5"] t1) =
    .ok ([⟨0, 0, 0⟩, ⟨1, 0, 0⟩, ⟨2, 0, 1⟩, ⟨1, 1, 1⟩, ⟨11, 3, 3⟩, ⟨0, 1, 1⟩, ⟨6, 5, 5⟩, ⟨10, 4, 6⟩,
      ⟨3, 2, 7⟩], ["-2.5", "-3"]) := rfl

-- D on `t1`: hypotheses are satisfiable, the conclusion is about a real parse result
example (val : String → ℝ) (hneg : ∀ n : Int, n < 0 → val (toString n) = (n : ℝ)) :
    ∃ s' c', parseToks (sympyToks ["-2.5"] t1) = .ok (s', c') ∧
      ∀ x : List ℝ, MathSem.den x (c'.map val) (ETree.ofStack s') =
        MathSem.den x (["-2.5"].map val) t1 :=
  roundtrip_tree val ["-2.5"] t1 (by decide) hneg (by decide)

/-- `hneg` cannot be dropped in D: with `val = 0` the printed `-3` comes back as the constant `0` -/
example : printOK [] (.leaf INTEGER (-3)) = true ∧
    parseToks (sympyToks [] (.leaf INTEGER (-3))) = .ok ([⟨CONSTANT, 0, 0⟩], ["-3"]) ∧
    MathSem.den [] (["-3"].map fun _ => (0 : ℝ)) (ETree.ofStack [⟨CONSTANT, 0, 0⟩]) = some 0 ∧
    MathSem.den [] (([] : List String).map fun _ => (0 : ℝ)) (.leaf INTEGER (-3)) = some (-3) := by
  refine ⟨by decide, rfl, rfl, ?_⟩
  simp [MathSem.den, MathSem.leaf]

/-- `printOK` cannot be dropped in D: a negative VARIABLE index prints as `X_-1`, which is rejected -/
example : (parseToks (sympyToks [] (.leaf VARIABLE (-1)))).toOption = none := by decide

/-- `(x0 * c0) + (x0 * c0)`, row 2 shared; the parser rebuilds exactly this stack -/
def s0 : Stack := [⟨0, 0, 0⟩, ⟨1, 0, 0⟩, ⟨4, 0, 1⟩, ⟨2, 2, 2⟩]

example : WF.WFEval 1 1 s0 := by decide
example : Str.format .sympy s0 ["0.1"] = .ok "(X_0)*(0.1) + (X_0)*(0.1)" :=
  (format_eq_tree 1 1 s0 ["0.1"] (by decide) rfl).trans rfl
example : parse "(X_0)*(0.1) + (X_0)*(0.1)" =
    .ok ([⟨0, 0, 0⟩, ⟨1, 0, 0⟩, ⟨4, 0, 1⟩, ⟨1, 1, 1⟩, ⟨4, 0, 3⟩, ⟨2, 2, 4⟩], ["0.1", "0.1"]) := rfl

-- end to end on `s0`
example (val : String → ℝ) (hneg : ∀ n : Int, n < 0 → val (toString n) = (n : ℝ)) :
    ∃ str s' c', Str.format .sympy s0 ["0.1"] = .ok str ∧ parse str = .ok (s', c') ∧
      ∀ x : List ℝ, MathSem.den x (c'.map val) (ETree.ofStack s') =
        MathSem.den x (["0.1"].map val) (ETree.ofStack s0) :=
  roundtrip_format val 1 1 s0 ["0.1"] (by decide) rfl (by decide) (by decide) hneg (by decide)

-- E on `s0`
example (val : String → ℝ) (hneg : ∀ n : Int, n < 0 → val (toString n) = (n : ℝ)) :
    ∃ s' c', parseToks (sympyToks ["0.1"] (ETree.ofStack s0)) = .ok (s', c') ∧
      ∀ x : List ℝ, MathSem.den x (c'.map val) (ETree.ofStack s') =
        MathSem.den x (["0.1"].map val) (ETree.ofStack s0) :=
  roundtrip_stack val 1 1 s0 ["0.1"] (by decide) rfl (by decide) (by decide) hneg (by decide)

-- A and B on the postfix form of `x_0 2.5 + x_0 2.5 + *` (sharing: three rows, two references to row 2)
example : postfixToCommands ["x_0", "c_0", "+", "x_0", "c_0", "+", "*"] =
    .ok ([⟨0, 0, 0⟩, ⟨1, 0, 0⟩, ⟨2, 0, 1⟩, ⟨4, 2, 2⟩], []) := rfl

example : WF.WFEval 1 1 [⟨0, 0, 0⟩, ⟨1, 0, 0⟩, ⟨2, 0, 1⟩, ⟨4, 2, 2⟩] :=
  (postfix_wf_general ["x_0", "c_0", "+", "x_0", "c_0", "+", "*"] _ _ rfl (by decide) 1 1
    (by decide) (by decide)).1

example : WF.WFEval 1 1 [⟨0, 0, 0⟩, ⟨1, 0, 0⟩, ⟨2, 0, 1⟩] :=
  (postfix_wf ["x_0", "2.5", "+"] [⟨0, 0, 0⟩, ⟨1, 0, 0⟩, ⟨2, 0, 1⟩] ["2.5"] rfl (by decide)
    (by decide) 1 (by decide)).1

example (val : String → ℝ) (x0 : ℝ) :
    Ref.refRun [x0] (["2.5"].map val) val ["x_0", "2.5", "+"] [] = some [some (x0 + val "2.5")] :=
  (postfix_sound val [x0] ["x_0", "2.5", "+"] [⟨0, 0, 0⟩, ⟨1, 0, 0⟩, ⟨2, 0, 1⟩] ["2.5"] (by decide)
    rfl).trans rfl

end Bingo.C16
