import Model.Strings
/-!
# C16 (placeholder until the proof agent's file arrives): the parser tables regenerated from the source
-/
namespace Bingo.C16
theorem gen_ok : Gen.StringTables.problems = [] := by decide
end Bingo.C16
