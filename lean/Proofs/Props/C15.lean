import Model.BestScan
import Model.Generated.Phases
import Proofs.Lemmas.BestScan
/-!
# C15 -- the best individual reported by an island / archipelago

"The best individual reported by an island belongs to a member of the current population whose
fitness is minimal among all members with a non-NaN fitness; a NaN fitness is reported only if
every member is NaN."
-/
namespace Bingo
namespace C15
open BestScan

variable {ι : Type}

/-- `Island.get_best_individual` raises (`none`) exactly on the empty population. -/
theorem island_scan_none (pop : List (Key × ι)) : islandScan pop = none ↔ pop = [] :=
  islandScan_eq_none

/-- The island scan: the result is a member; if any member is non-NaN the result is non-NaN and no
member is strictly smaller (and it is `≤` every non-NaN member); it is NaN only if all members are. -/
theorem island_scan (pop : List (Key × ι)) (b : Key × ι) (h : islandScan pop = some b) :
    b ∈ pop ∧
    ((∃ p ∈ pop, p.1.isNan = false) →
        b.1.isNan = false ∧ (∀ p ∈ pop, Key.lt p.1 b.1 = false) ∧
        (∀ p ∈ pop, p.1.isNan = false → Key.le b.1 p.1 = true)) ∧
    (b.1.isNan = true → ∀ p ∈ pop, p.1.isNan = true) :=
  have hb := islandScan_isBest h
  ⟨hb.1, fun hex => ⟨hb.not_nan hex, hb.not_lt, hb.le_of_not_nan⟩, hb.all_nan⟩

/-- "For every arrangement of the list": scanning any rearrangement `pop'` of `pop` (same members)
yields a result that satisfies the same specification with respect to `pop`, and the reported
*fitness* is the same whatever the arrangement. -/
theorem island_scan_perm (pop pop' : List (Key × ι)) (hperm : pop'.Perm pop) (b b' : Key × ι)
    (h : islandScan pop = some b) (h' : islandScan pop' = some b') :
    b'.1 = b.1 ∧ b' ∈ pop ∧
    ((∃ p ∈ pop, p.1.isNan = false) →
        b'.1.isNan = false ∧ ∀ p ∈ pop, Key.lt p.1 b'.1 = false) ∧
    (b'.1.isNan = true → ∀ p ∈ pop, p.1.isNan = true) := by
  have hb := islandScan_isBest h
  have hb' := islandScan_isBest h'
  have hmem : ∀ p, p ∈ pop' ↔ p ∈ pop := fun p => hperm.mem_iff
  have hb'' : IsBest b' pop := ⟨(hmem _).1 hb'.1, fun p hp => hb'.2 p ((hmem _).2 hp)⟩
  exact ⟨hb'.key_unique hb hmem, hb''.1, fun hex => ⟨hb''.not_nan hex, hb''.not_lt⟩, hb''.all_nan⟩

/-- Python's `min(key=)` is NOT NaN-safe: it returns the NaN-keyed first element although a
non-NaN one exists ... -/
example : pyMinBy [((none : Key), 0), (some 1, 1)] = some (none, 0) := by decide
/-- ... whereas the island scan skips it. -/
example : islandScan [((none : Key), 0), (some 1, 1)] = some (some 1, 1) := by decide
/-- and the answer of `min` depends on the arrangement. -/
example : pyMinBy [((some 1 : Key), 1), (none, 0)] = some (some 1, 1) := by decide

theorem pymin_not_nan_safe :
    ∃ (l : List (Key × Nat)) (b : Key × Nat), pyMinBy l = some b ∧ b.1.isNan = true ∧
      ∃ p ∈ l, p.1.isNan = false :=
  ⟨[(none, 0), (some 1, 1)], (none, 0), by decide, by decide, (some 1, 1), by decide, by decide⟩

/-- Without NaN keys Python's `min` is fine: it returns a member with minimal key. -/
theorem pymin_ok_of_no_nan (l : List (Key × ι)) (b : Key × ι)
    (hnn : ∀ p ∈ l, p.1.isNan = false) (h : pyMinBy l = some b) :
    b ∈ l ∧ ∀ p ∈ l, Key.le b.1 p.1 = true ∧ Key.lt p.1 b.1 = false := by
  cases l with
  | nil => simp [pyMinBy] at h
  | cons p rest =>
    simp only [pyMinBy, Option.some.injEq] at h
    subst h
    have hb := foldl_pyMin_spec rest p (hnn p (List.mem_cons_self))
      (fun q hq => hnn q (List.mem_cons_of_mem _ hq))
    exact ⟨hb.1, fun q hq => ⟨hb.le_of_not_nan q hq (hnn q hq), hb.not_lt q hq⟩⟩

/-- Archipelago level: scanning the per-island results (`filterMap islandScan`: one result per
non-empty island, in island order) with the island scan yields a member of the union of all
islands, minimal among all non-NaN members of all islands, NaN only if everything is NaN. -/
theorem archipelago_best (islands : List (List (Key × ι))) (b : Key × ι)
    (h : islandScan (islands.filterMap islandScan) = some b) :
    b ∈ islands.flatten ∧
    ((∃ p ∈ islands.flatten, p.1.isNan = false) →
        b.1.isNan = false ∧ (∀ p ∈ islands.flatten, Key.lt p.1 b.1 = false) ∧
        (∀ p ∈ islands.flatten, p.1.isNan = false → Key.le b.1 p.1 = true)) ∧
    (b.1.isNan = true → ∀ p ∈ islands.flatten, p.1.isNan = true) := by
  have hb := islandScan_isBest h
  have hflat : IsBest b islands.flatten := by
    refine IsBest.flatten ?_ ?_ hb
    · intro r hr
      obtain ⟨isl, hisl, hs⟩ := List.mem_filterMap.1 hr
      exact ⟨isl, hisl, islandScan_isBest hs⟩
    · intro isl hisl hne
      cases hs : islandScan isl with
      | none => exact absurd (islandScan_eq_none.1 hs) hne
      | some r => exact ⟨r, List.mem_filterMap.2 ⟨isl, hisl, hs⟩, islandScan_isBest hs⟩
  exact ⟨hflat.1, fun hex => ⟨hflat.not_nan hex, hflat.not_lt, hflat.le_of_not_nan⟩, hflat.all_nan⟩

/-- With all islands non-empty there is exactly one result per island, and the archipelago scan
succeeds as soon as there is an island. -/
theorem archipelago_results (islands : List (List (Key × ι))) (hne : ∀ isl ∈ islands, isl ≠ []) :
    (islands.filterMap islandScan).map some = islands.map islandScan ∧
    (islands ≠ [] → islandScan (islands.filterMap islandScan) ≠ none) := by
  have h1 : (islands.filterMap islandScan).map some = islands.map islandScan := by
    induction islands with
    | nil => rfl
    | cons isl rest ih =>
      have := ih (fun i hi => hne i (List.mem_cons_of_mem _ hi))
      cases hs : islandScan isl with
      | none => exact absurd (islandScan_eq_none.1 hs) (hne isl (List.mem_cons_self))
      | some r => simp [hs, this]
  refine ⟨h1, ?_⟩
  intro hne' hnone
  have := islandScan_eq_none.1 hnone
  rw [this] at h1
  cases islands with
  | nil => exact hne' rfl
  | cons a l => simp at h1

/-! non-vacuity -/
example : islandScan [((none : Key), 0), (some 5, 1), (none, 2), (some 3, 3), (some 3, 4)]
    = some (some 3, 3) := by decide
example : islandScan [((none : Key), 0), (none, 1)] = some (none, 1) := by decide
example : islandScan (([[(none, 0), (some 5, 1)], [(none, 2)], [(some 7, 3), (some 4, 4)]] :
    List (List (Key × Nat))).filterMap islandScan) = some (some 4, 4) := by decide

/-! ## the fitness-predictor island: reported fitness values are full-data fitness values

`trueFit g` is the fitness of genome `g` on the full training data (`get_true_fitness_for_trainer`), the keys stored in
the population are the PREDICTED fitness values the scan compares. -/

/-- `FitnessPredictorIsland.get_best_individual`: the scan of the base class, copied, fitness replaced -/
def fpiBest (trueFit : ι → Key) (pop : List (Key × ι)) : Option (Key × ι) :=
  (islandScan pop).map fun b => (trueFit b.2, b.2)

/-- `FitnessPredictorIsland._get_potential_hof_members`: every entry of the predicted-fitness hall of fame, deep-copied,
fitness replaced -/
def fpiHofMembers (trueFit : ι → Key) (hofPredicted : List (Key × ι)) : List (Key × ι) :=
  hofPredicted.map fun e => (trueFit e.2, e.2)

/-- the bodies the two definitions mirror (regenerated from the source), and the scan of the base class -/
theorem gen_fpi_shapes :
    Gen.Phases.fpiBestIndividual = "best_indv = super().get_best_individual().copy() ; best_indv.fitness = self._predictor_fitness_function.get_true_fitness_for_trainer(best_indv) ; return best_indv" ∧
    Gen.Phases.fpiHofMembers = "self._evaluate_population_if_needed() ; self._hof_w_predicted_fitness.update(self.population) ; potential_members = [] ; for indv_w_ped_fitness in self._hof_w_predicted_fitness:     indv_w_true_fitness = deepcopy(indv_w_ped_fitness)     indv_w_true_fitness.fitness = self._predictor_fitness_function.get_true_fitness_for_trainer(indv_w_true_fitness)     potential_members.append(indv_w_true_fitness) ; return potential_members" ∧
    Gen.Phases.islandBestIndividual = "if self.generational_age == 0:     self.evaluate_population() else:     self._evaluate_population_if_needed() ; best = self.population[0] ; for indv in self.population:     if indv.fitness < best.fitness or np.isnan(best.fitness).any():         best = indv ; return best" := ⟨rfl, rfl, rfl⟩

/-- the reported best individual of a predictor island is the member the (predicted-fitness) scan selects, and the fitness
attached to it is its fitness on the full data, whatever the predictor -/
theorem fpi_best_true (trueFit : ι → Key) (pop : List (Key × ι)) (r : Key × ι) (h : fpiBest trueFit pop = some r) :
    r.1 = trueFit r.2 ∧ ∃ b ∈ pop, islandScan pop = some b ∧ b.2 = r.2 := by
  unfold fpiBest at h
  cases hs : islandScan pop with
  | none => simp [hs] at h
  | some b =>
    simp only [hs, Option.map_some, Option.some.injEq] at h
    subst h
    exact ⟨rfl, b, (island_scan pop b hs).1, rfl, rfl⟩

/-- every potential hall-of-fame member of a predictor island carries its full-data fitness -/
theorem fpi_hof_true (trueFit : ι → Key) (hofPredicted : List (Key × ι)) :
    ∀ e ∈ fpiHofMembers trueFit hofPredicted, e.1 = trueFit e.2 := by
  intro e he
  simp only [fpiHofMembers, List.mem_map] at he
  obtain ⟨a, _, rfl⟩ := he
  rfl

example : fpiBest (fun g : Nat => some (Int.ofNat g * 10)) [((some 5 : Key), 1), (some 2, 7), (none, 3)] = some (some 70, 7) := by
  decide

end C15
end Bingo
