import Model.Generated.SourceFacts
/-!
# C03 -- equality of CAS expressions is structural

Like-term and like-base collection in `automatic_simplification.py` compare expressions with `==`.  The Lean port uses
`Cas.Expr.beq` (same operator, equal operand lists; `beq_den`: equal expressions denote the same function).  The text of
`Expression.__eq__` is regenerated from `expression.py`; an equality that consults anything else (a hash, a cached string)
is not the model's.
-/
namespace Bingo
namespace C03Facts
open Gen.SourceFacts

theorem gen_expression_eq :
    expressionEq = "if other is None:     return False ; if self._operator != other.operator:     return False ; return self._operands == other.operands" := rfl

/-- the reduction the model `Reduce.utilized` / `Reduce.reduce` mirrors: one backward pass marking the operands of utilized non-terminal rows, then renumbering of the kept rows -/
theorem gen_reduction :
    getUtilizedCommands = "util = [False] * stack.shape[0] ; util[-1] = True ; for i in range(1, stack.shape[0]):     node, param1, param2 = stack[-i]     if util[-i] and (not IS_TERMINAL_MAP[node]):         util[param1] = True         if IS_ARITY_2_MAP[node]:             util[param2] = True ; return util" ∧
    reduceStack = "used_commands = get_utilized_commands(stack) ; reduced_param_map = {} ; num_commands = np.sum(used_commands) ; new_stack = np.empty((num_commands, 3), int) ; j = 0 ; for i, (node, param1, param2) in enumerate(stack):     if used_commands[i]:         new_stack[j, 0] = node         if IS_TERMINAL_MAP[node]:             new_stack[j, 1] = param1             new_stack[j, 2] = param2         else:             new_stack[j, 1] = reduced_param_map[param1]             if IS_ARITY_2_MAP[node]:                 new_stack[j, 2] = reduced_param_map[param2]             else:                 new_stack[j, 2] = new_stack[j, 1]         reduced_param_map[i] = j         j += 1 ; return new_stack" :=
  ⟨rfl, rfl⟩

end C03Facts
end Bingo
