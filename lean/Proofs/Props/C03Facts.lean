import Model.Generated.SourceFacts
/-!
# C03 -- equality of CAS expressions is structural

Like-term and like-base collection in `automatic_simplification.py` compare expressions with `==`.  The Lean port uses
`Cas.Expr.beq` (same operator, equal operand lists; `beq_den`: equal expressions denote the same function).  The text of
`Expression.__eq__` is regenerated from `expression.py`; an equality that consults anything else (a hash, a cached string)
is not the model's.
-/
namespace Bingo
namespace C03Facts
open Gen.SourceFacts

theorem gen_expression_eq :
    expressionEq = "if other is None:     return False ; if self._operator != other.operator:     return False ; return self._operands == other.operands" := rfl

end C03Facts
end Bingo
