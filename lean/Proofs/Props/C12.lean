import Model.ParArch
import Proofs.Lemmas.ParArch
/-!
# C12 -- one call to evolve a non-blocking parallel archipelago: safety of the message protocol

"With buffered delivery of small messages, one call to evolve a parallel archipelago never deadlocks
under any interleaving of the ranks […]; at return the mean island age has advanced by at least the
requested number of generations […] and no age-update or exit message is left undelivered to disturb
the next call."

The statements are about `Model/ParArch.lean` (`step`, one transition per communication operation of
`_non_blocking_execution_main` / `_non_blocking_execution_helper`, with the repair of finding F10: rank 0
first collects one age of every helper by blocking receives and computes
`target_total_age = sum(total_age.values()) + num_steps * comm_size` from the island ages); the model is
tied to the Python code by trace validation (`bvdriver` op `partrace`, `harness/c12_run.py`).  They hold
for every number of ranks `R ≥ 1`, every `sync_frequency`, every requested number of generations, all
initial island ages, every observed slice length (`Action.evolve r k`, any `k`) and every interleaving
(`Reachable` allows any enabled action).  There is no precondition on the call.

* `no_deadlock`       -- in every reachable state either all ranks have returned or some rank can move
                         (in particular the blocking receives of the collecting loop are always served);
* `clean_return`      -- in a reachable state where all ranks have returned, rank 0's AGE_UPDATE mailbox
                         is empty and no EXIT_NOTIFICATION is waiting at any helper;
* `ages_advance`      -- at return `Σ (island ages at the start of the call) + R * n ≤ Σ island ages`: the
                         mean island age has advanced by at least the requested `n` generations in THIS
                         call (the per-call reading, which failed on later calls before the repair);
* `goal_reached`      -- at return `target_total_age ≤ Σ island ages`;
* `two_calls`         -- the final state of a call has empty mailboxes, so the next call starts from
                         `initial R sync' n' s.ages` and all statements apply again; after two calls the
                         ages have advanced by `R * (n₁ + n₂)`.

Not proved here: termination (it needs the fairness + speed assumption, `Props/C12Live.lean`; the harness
shows the livelock when the assumption is dropped), and the blocking mode (no messages at all between
the migration and the collectives).
-/
namespace Bingo
namespace C12
open ParArch

/-! ## The three safety statements of C12 on invariant states -/

theorem not_allArrived {s : State} (inv : Inv s) (h : allArrived s = false) :
    ∃ r, r < s.R ∧ s.arrived.getD r false = false := by
  apply Classical.byContradiction
  intro hne
  have : allArrived s = true := by
    rw [allArrived_iff]
    intro i hi
    rw [inv.lenArr] at hi
    cases hv : s.arrived.getD i false with
    | true => rfl
    | false => exact absurd ⟨i, hi, hv⟩ hne
  rw [this] at h; cases h

theorem enabled_of {s : State} {r : Nat} {a : Action} (hn : nextAction s r = some a) (hs : (step s a).isSome = true) :
    enabled s r = true := by
  unfold enabled; rw [hn]; exact hs

theorem mem_range_any {R : Nat} {f : Nat → Bool} {r : Nat} (hr : r < R) (hf : f r = true) :
    (List.range R).any f = true := by
  rw [List.any_eq_true]; exact ⟨r, List.mem_range.mpr hr, hf⟩

/-- rank 0 can move unless it waits in the barrier, waits in a collecting receive, or has returned -/
theorem enabled0 {s : State} (inv : Inv s) (h : s.pc0 ≠ .done) (hb : s.pc0 = .inBarrier → allArrived s = true)
    (hc : ∀ k, s.pc0 = .collecting k → (takeFrom k s.mbox).isSome = true) :
    enabled s 0 = true := by
  have hR := inv.Rpos
  cases hpc : s.pc0 with
  | collecting k =>
    have hp := hc k hpc
    obtain ⟨_, hk⟩ := inv.collK k hpc
    refine enabled_of (a := .recv 0 k tagAge) (by simp [nextAction, hpc, hp]) ?_
    cases ht : takeFrom k s.mbox with
    | none => simp [ht] at hp
    | some p => simp [step, Action.rank, step0, hpc, ht]
  | evolving =>
    refine enabled_of (a := .evolve 0 s.sync) (by simp [nextAction, hpc]) ?_
    simp [step, Action.rank, step0, hpc]
  | draining o =>
    cases o with
    | none =>
      refine enabled_of (a := .iprobe 0 none tagAge (headSource s)) (by simp [nextAction, hpc]) ?_
      cases hh : headSource s <;> simp [step, Action.rank, step0, hpc, hh]
    | some q =>
      have hp := inv.pending q (Or.inl hpc)
      refine enabled_of (a := .recv 0 q tagAge) (by simp [nextAction, hpc, hp]) ?_
      cases ht : takeFrom q s.mbox with
      | none => simp [ht] at hp
      | some p => simp [step, Action.rank, step0, hpc, ht]
  | sendingExit k =>
    obtain ⟨_, hk⟩ := inv.sendK k hpc
    refine enabled_of (a := .isend 0 k tagExit) (by simp [nextAction, hpc]) ?_
    simp [step, Action.rank, step0, hpc, hk]
  | atBarrier =>
    refine enabled_of (a := .barrierEnter 0) (by simp [nextAction, hpc]) ?_
    simp [step, Action.rank, step0, hpc]
  | inBarrier =>
    have ha := hb hpc
    refine enabled_of (a := .barrierLeave 0) (by simp [nextAction, hpc, ha]) ?_
    simp [step, Action.rank, step0, hpc, ha]
  | finalDrain o =>
    cases o with
    | none =>
      refine enabled_of (a := .iprobe 0 none tagAge (headSource s)) (by simp [nextAction, hpc]) ?_
      cases hh : headSource s <;> simp [step, Action.rank, step0, hpc, hh]
    | some q =>
      have hp := inv.pending q (Or.inr hpc)
      refine enabled_of (a := .recv 0 q tagAge) (by simp [nextAction, hpc, hp]) ?_
      cases ht : takeFrom q s.mbox with
      | none => simp [ht] at hp
      | some p => simp [step, Action.rank, step0, hpc, ht]
  | done => exact absurd hpc h

/-- rank 0 can move when it is neither collecting, nor in the barrier, nor done -/
theorem enabled0_nc {s : State} (inv : Inv s) (h : s.pc0 ≠ .done) (hb : s.pc0 ≠ .inBarrier)
    (hc : isCollecting s.pc0 = false) : enabled s 0 = true :=
  enabled0 inv h (fun e => absurd e hb) (fun k e => absurd e (not_collecting hc k))

/-- a helper can move unless it waits in the barrier or has returned -/
theorem enabledH {s : State} (inv : Inv s) {r : Nat} (h0 : 0 < r) (hR : r < s.R) (h : pcOf s r ≠ .done)
    (hb : pcOf s r = .inBarrier → allArrived s = true) : enabled s r = true := by
  have hr0 : r ≠ 0 := by omega
  cases hpc : pcOf s r with
  | sendFirst =>
    refine enabled_of (a := .isend r 0 tagAge) (by simp [nextAction, hr0, hR, hpc]) ?_
    simp [step, Action.rank, hr0, hR, stepH, hpc]
  | sending =>
    refine enabled_of (a := .isend r 0 tagAge) (by simp [nextAction, hr0, hR, hpc]) ?_
    simp [step, Action.rank, hr0, hR, stepH, hpc]
  | checking =>
    refine enabled_of (a := .iprobe r (some 0) tagExit (if s.exitQ.getD r 0 > 0 then some 0 else none))
      (by simp [nextAction, hr0, hR, hpc]) ?_
    simp [step, Action.rank, hr0, hR, stepH, hpc]
  | recvExit =>
    have h1 := inv.recvExit r h0 hR hpc
    have hpos : s.exitQ.getD r 0 > 0 := by omega
    have hpos' : 0 < s.exitQ[r]?.getD 0 := by simpa using hpos
    refine enabled_of (a := .recv r 0 tagExit) (by simp [nextAction, hr0, hR, hpc, hpos']) ?_
    have hne : ¬ s.exitQ[r]?.getD 0 = 0 := by
      have : ¬ s.exitQ.getD r 0 = 0 := by omega
      simpa using this
    simp [step, Action.rank, hr0, hR, stepH, hpc, hne]
  | evolving =>
    refine enabled_of (a := .evolve r s.sync) (by simp [nextAction, hr0, hR, hpc]) ?_
    simp [step, Action.rank, hr0, hR, stepH, hpc]
  | atBarrier =>
    refine enabled_of (a := .barrierEnter r) (by simp [nextAction, hr0, hR, hpc]) ?_
    simp [step, Action.rank, hr0, hR, stepH, hpc]
  | inBarrier =>
    have ha := hb hpc
    refine enabled_of (a := .barrierLeave r) (by simp [nextAction, hr0, hR, hpc, ha]) ?_
    simp [step, Action.rank, hr0, hR, stepH, hpc, ha]
  | done => exact absurd hpc h

/-- **no deadlock**: in an invariant state either every rank has returned or some rank can move -/
theorem noDeadlock_of_inv {s : State} (inv : Inv s) : noDeadlock s = true := by
  unfold noDeadlock
  cases hf : isFinal s with
  | true => rfl
  | false =>
    simp only [Bool.false_or]
    by_cases hd : s.pc0 = .done
    · -- rank 0 has returned: everybody has arrived; some helper is not done, it sits in the barrier
      have hall := inv.doneAll0 (by simp [hd, afterBarrier0])
      have : ∃ r, r < s.R ∧ ¬ (r = 0 ∨ pcOf s r = .done) := by
        apply Classical.byContradiction
        intro hne
        have : isFinal s = true := by
          simp only [isFinal, hd, beq_self_eq_true, Bool.true_and, List.all_eq_true, List.mem_range]
          intro r hr
          have : r = 0 ∨ pcOf s r = .done := Classical.byContradiction fun hc => hne ⟨r, hr, hc⟩
          simpa using this
        rw [this] at hf; cases hf
      obtain ⟨r, hr, hnd⟩ := this
      have h0 : 0 < r := by
        cases r with
        | zero => exact absurd (Or.inl rfl) hnd
        | succ n => omega
      exact mem_range_any hr (enabledH inv h0 hr (fun e => hnd (Or.inr e)) (fun _ => hall))
    · by_cases hb : s.pc0 = .inBarrier ∧ allArrived s = false
      · -- rank 0 waits in the barrier: a helper that has not arrived can move
        obtain ⟨r, hr, hna⟩ := not_allArrived inv hb.2
        have h0 : 0 < r := by
          cases r with
          | zero => have := inv.arr0; rw [hna, hb.1] at this; cases this
          | succ n => omega
        have hnar : arrivedH (pcOf s r) = false := by rw [← inv.arrH r h0 hr]; exact hna
        refine mem_range_any hr (enabledH inv h0 hr ?_ ?_)
        · intro e; rw [e] at hnar; cases hnar
        · intro e; rw [e] at hnar; cases hnar
      · by_cases hc : ∃ k, s.pc0 = .collecting k ∧ (takeFrom k s.mbox).isSome = false
        · -- rank 0 waits in a collecting receive: that helper has not yet sent its first age
          obtain ⟨k, hk, hno⟩ := hc
          obtain ⟨hk0, hkR⟩ := inv.collK k hk
          have hsf : pcOf s k = .sendFirst := by
            rcases inv.collWait k hk k (Nat.le_refl _) hkR with h1 | h1
            · exact h1
            · rw [hno] at h1; cases h1
          refine mem_range_any hkR (enabledH inv hk0 hkR ?_ ?_) <;> (rw [hsf]; intro e; cases e)
        · refine mem_range_any inv.Rpos (enabled0 inv hd ?_ ?_)
          · intro e
            cases ha : allArrived s with
            | true => rfl
            | false => exact absurd ⟨e, ha⟩ hb
          · intro k hk
            cases ht : (takeFrom k s.mbox).isSome with
            | true => rfl
            | false => exact absurd ⟨k, hk, ht⟩ hc

/-- **clean return**: when every rank has returned, no AGE_UPDATE and no EXIT_NOTIFICATION is pending -/
theorem cleanReturn_of_inv {s : State} (inv : Inv s) : cleanReturn s = true := by
  unfold cleanReturn
  cases hf : isFinal s with
  | false => rfl
  | true =>
    simp only [Bool.not_true, Bool.false_or, Bool.and_eq_true]
    simp only [isFinal, Bool.and_eq_true, beq_iff_eq, List.all_eq_true, List.mem_range] at hf
    obtain ⟨hd, hall⟩ := hf
    refine ⟨by rw [inv.doneEmpty hd]; rfl, ?_⟩
    rw [List.all_eq_true]
    intro x hx
    obtain ⟨i, hi, rfl⟩ := List.getElem_of_mem hx
    have hiR : i < s.R := by rw [← inv.lenExit]; exact hi
    have hget : s.exitQ.getD i 0 = s.exitQ[i] := by simp [List.getD_eq_getElem?_getD, hi]
    rw [← hget]
    cases i with
    | zero => simpa using inv.exit0
    | succ n =>
      have hdone : pcOf s (n + 1) = .done := by simpa using hall (n + 1) hiR
      have := inv.exitEq (n + 1) (by omega) hiR
      rw [hdone, hd] at this
      simp [postLoopH, exitSent] at this
      simp [List.getD_eq_getElem?_getD, this]

/-- **ages**: once rank 0 has left its loop (in particular at return) `target_total_age ≤ Σ island ages` -/
theorem agesOk_of_inv {s : State} (inv : Inv s) : agesOk s = true := by
  unfold agesOk
  cases hp : pastLoop s with
  | false => rfl
  | true => simpa using inv.loop hp

theorem pastLoop_not_collecting {s : State} (hp : pastLoop s = true) : isCollecting s.pc0 = false := by
  unfold pastLoop at hp
  cases hpc : s.pc0 <;> rw [hpc] at hp <;> first | rfl | cases hp

/-- **advance** (the repaired property): once rank 0 has left its loop (in particular at return) the sum
of the island ages exceeds the sum at the start of the call by at least `R * numSteps` -/
theorem advance_of_inv {s : State} (inv : Inv s) (hp : pastLoop s = true) :
    s.ages0.sum + s.R * s.numSteps ≤ s.ages.sum :=
  Nat.le_trans (inv.goalLo (pastLoop_not_collecting hp)) (inv.loop hp)

theorem advanceOk_of_inv {s : State} (inv : Inv s) : advanceOk s = true := by
  unfold advanceOk
  cases hp : pastLoop s with
  | false => rfl
  | true => simpa using advance_of_inv inv hp

/-- what rank 0 knows and what is in flight never exceeds the true island ages -/
theorem tableSound_of_inv {s : State} (inv : Inv s) : tableSound s = true := by
  unfold tableSound
  simp only [Bool.and_eq_true, List.all_eq_true, List.mem_range, decide_eq_true_eq]
  exact ⟨fun r hr => inv.tab r hr, fun m hm => inv.box m hm⟩


/-! ## Statements on reachable states of a call (no precondition besides `0 < R`) -/

theorem initial_frame (R sync n : Nat) (ages : List Nat) :
    (initial R sync n ages).R = R ∧ (initial R sync n ages).sync = sync ∧ (initial R sync n ages).numSteps = n ∧
    (initial R sync n ages).ages0 = ((List.range R).map fun r => ages.getD r 0) ∧
    (initial R sync n ages).ages = ((List.range R).map fun r => ages.getD r 0) := by
  unfold initial
  split <;> exact ⟨rfl, rfl, rfl, rfl, rfl⟩

theorem no_deadlock {R sync n : Nat} {ages : List Nat} (hR : 0 < R) {s : State}
    (h : Reachable (initial R sync n ages) s) : noDeadlock s = true :=
  noDeadlock_of_inv (inv_reachable (inv_initial R sync n ages hR) h)

theorem clean_return {R sync n : Nat} {ages : List Nat} (hR : 0 < R) {s : State}
    (h : Reachable (initial R sync n ages) s) (hf : isFinal s = true) :
    s.mbox = [] ∧ ∀ r, s.exitQ.getD r 0 = 0 := by
  have inv := inv_reachable (inv_initial R sync n ages hR) h
  have hc := cleanReturn_of_inv inv
  simp only [cleanReturn, hf, Bool.not_true, Bool.false_or, Bool.and_eq_true, List.all_eq_true] at hc
  refine ⟨by simpa using hc.1, fun r => ?_⟩
  by_cases hr : r < s.exitQ.length
  · have := hc.2 (s.exitQ[r]) (List.getElem_mem hr)
    simp [List.getD_eq_getElem?_getD, hr] at this ⊢
    exact this
  · have : s.exitQ[r]? = none := by simp; omega
    simp [List.getD_eq_getElem?_getD, this]

theorem final_pastLoop {s : State} (hf : isFinal s = true) : pastLoop s = true := by
  have hd : s.pc0 = .done := by
    simp only [isFinal, Bool.and_eq_true, beq_iff_eq] at hf; exact hf.1
  simp [pastLoop, hd]

/-- **the mean island age advances by at least the requested number of generations**: when the call
has returned on every rank, `Σ (ages at the start of the call) + R * n ≤ Σ ages` -/
theorem ages_advance {R sync n : Nat} {ages : List Nat} (hR : 0 < R) {s : State}
    (h : Reachable (initial R sync n ages) s) (hf : isFinal s = true) :
    ((List.range R).map fun r => ages.getD r 0).sum + R * n ≤ s.ages.sum := by
  have inv := inv_reachable (inv_initial R sync n ages hR) h
  obtain ⟨e1, _, e3, e4⟩ := reachable_frame h
  obtain ⟨i1, _, i3, i4, _⟩ := initial_frame R sync n ages
  have := advance_of_inv inv (final_pastLoop hf)
  rw [e1, e3, e4, i1, i3, i4] at this
  exact this

/-- at return the sum of the island ages has reached `target_total_age` -/
theorem goal_reached {R sync n : Nat} {ages : List Nat} (hR : 0 < R) {s : State}
    (h : Reachable (initial R sync n ages) s) (hf : isFinal s = true) :
    s.goal ≤ s.ages.sum ∧ ((List.range R).map fun r => ages.getD r 0).sum + R * n ≤ s.goal := by
  have inv := inv_reachable (inv_initial R sync n ages hR) h
  obtain ⟨e1, _, e3, e4⟩ := reachable_frame h
  obtain ⟨i1, _, i3, i4, _⟩ := initial_frame R sync n ages
  have hp := final_pastLoop hf
  have := inv.goalLo (pastLoop_not_collecting hp)
  rw [e1, e3, e4, i1, i3, i4] at this
  exact ⟨inv.loop hp, this⟩

/-- every state on the way satisfies all executable invariants that `partrace` checks -/
theorem invariants_hold {R sync n : Nat} {ages : List Nat} (hR : 0 < R) {s : State}
    (h : Reachable (initial R sync n ages) s) :
    noDeadlock s = true ∧ cleanReturn s = true ∧ agesOk s = true ∧ advanceOk s = true ∧ tableSound s = true := by
  have inv := inv_reachable (inv_initial R sync n ages hR) h
  exact ⟨noDeadlock_of_inv inv, cleanReturn_of_inv inv, agesOk_of_inv inv, advanceOk_of_inv inv,
    tableSound_of_inv inv⟩

theorem map_getD_range : ∀ (l : List Nat), (List.range l.length).map (fun r => l.getD r 0) = l := by
  intro l
  apply List.ext_getElem
  · simp
  · intro i h1 h2
    simp [List.getD_eq_getElem?_getD] at h1 ⊢
    simp [h1]

/-- the island ages a call starts with are the ages the previous call ended with -/
theorem final_ages {R sync n : Nat} {ages : List Nat} (hR : 0 < R) {s : State}
    (h : Reachable (initial R sync n ages) s) :
    ((List.range R).map fun r => s.ages.getD r 0) = s.ages := by
  have inv := inv_reachable (inv_initial R sync n ages hR) h
  have e1 : s.R = R := (reachable_frame h).1.trans (initial_frame R sync n ages).1
  have hlen : s.ages.length = R := by rw [inv.lenAges, e1]
  have := map_getD_range s.ages
  rw [hlen] at this
  exact this

/-- **repeated calls**.  The repaired code has no precondition: when a call has returned on all ranks
its mailboxes and exit queues are empty (`clean_return`), so the next call (any `sync'`, any `n'`) starts in
`initial R sync' n' s.ages`, from which `no_deadlock`, `clean_return`, `ages_advance`, … apply again.  For
two consecutive calls requesting `n₁` and `n₂` generations the island ages at the end of the second call
exceed the ages at the start of the first by at least `R * (n₁ + n₂)` in total. -/
theorem two_calls {R sync₁ sync₂ n₁ n₂ : Nat} {ages : List Nat} (hR : 0 < R) {s₁ s₂ : State}
    (h₁ : Reachable (initial R sync₁ n₁ ages) s₁) (hf₁ : isFinal s₁ = true)
    (h₂ : Reachable (initial R sync₂ n₂ s₁.ages) s₂) (hf₂ : isFinal s₂ = true) :
    (s₁.mbox = [] ∧ ∀ r, s₁.exitQ.getD r 0 = 0) ∧
    (initial R sync₂ n₂ s₁.ages).ages = s₁.ages ∧
    ((List.range R).map fun r => ages.getD r 0).sum + R * (n₁ + n₂) ≤ s₂.ages.sum := by
  have a1 := ages_advance hR h₁ hf₁
  have a2 := ages_advance hR h₂ hf₂
  have e := final_ages hR h₁
  rw [e] at a2
  refine ⟨clean_return hR h₁ hf₁, ?_, ?_⟩
  · rw [(initial_frame R sync₂ n₂ s₁.ages).2.2.2.2, e]
  · rw [Nat.mul_add]; omega

/-! ## C11, parallel clause: the partner relation of `_get_migration_partner` -/

/-- on a duplicate-free broadcast order (what `_shuffle_island_indices` produces) the partner relation
is symmetric and irreflexive: rank `a` exchanges with `b` iff `b` exchanges with `a` -/
theorem par_partner_symmetric {order : List Nat} (hnd : order.Nodup) {a b : Nat}
    (h : partner order a = some b) : partner order b = some a ∧ a ≠ b :=
  partner_symmetric hnd h

/-- only the last entry of an odd-length order sits a migration out -/
theorem par_partner_none {order : List Nat} {a i : Nat} (hf : order.findIdx? (· == a) = some i)
    (h : partner order a = none) : i + 1 = order.length ∧ order.length % 2 = 1 :=
  partner_none hf h

/-! ## non-vacuity: concrete runs of the model -/

/-- two ranks, `sync = 1`, one generation requested: a complete run (through the collecting receive)
ending in a clean final state -/
example :
    let s0 := initial 2 1 1 [0, 0]
    let run := [Action.isend 1 0 tagAge, .recv 0 1 tagAge, .iprobe 1 (some 0) tagExit none, .evolve 1 1, .evolve 0 1,
      .isend 1 0 tagAge, .iprobe 0 none tagAge (some 1), .recv 0 1 tagAge, .iprobe 0 none tagAge none,
      .isend 0 1 tagExit, .barrierEnter 0, .iprobe 1 (some 0) tagExit (some 0), .recv 1 0 tagExit,
      .barrierEnter 1, .barrierLeave 0, .iprobe 0 none tagAge none, .barrierLeave 1]
    (run.foldl (fun o a => o.bind (step · a)) (some s0)).map (fun s => (isFinal s, s.ages, s.mbox, s.exitQ, s.goal))
      = some (true, [1, 1], [], [0, 0], 2) := by decide

/-- three ranks with different start ages `[5, 1, 2]`, one generation requested: rank 0 collects one age
of each helper (`target_total_age = 8 + 1 * 3 = 11`), every island evolves one slice, and the call returns
with `advanceOk`: the ages `[6, 2, 3]` differ from the start ages and their sum has grown by `R * n = 3` -/
example :
    let s0 := initial 3 1 1 [5, 1, 2]
    let run := [Action.isend 1 0 tagAge, .isend 2 0 tagAge, .recv 0 1 tagAge, .recv 0 2 tagAge, .evolve 0 1,
      .iprobe 1 (some 0) tagExit none, .evolve 1 1, .isend 1 0 tagAge,
      .iprobe 2 (some 0) tagExit none, .evolve 2 1, .isend 2 0 tagAge,
      .iprobe 0 none tagAge (some 1), .recv 0 1 tagAge, .iprobe 0 none tagAge (some 2), .recv 0 2 tagAge,
      .iprobe 0 none tagAge none, .isend 0 1 tagExit, .isend 0 2 tagExit, .barrierEnter 0,
      .iprobe 1 (some 0) tagExit (some 0), .recv 1 0 tagExit, .barrierEnter 1,
      .iprobe 2 (some 0) tagExit (some 0), .recv 2 0 tagExit, .barrierEnter 2,
      .barrierLeave 0, .iprobe 0 none tagAge none, .barrierLeave 1, .barrierLeave 2]
    (run.foldl (fun o a => o.bind (step · a)) (some s0)).map
        (fun s => (isFinal s && advanceOk s && agesOk s && (s.ages != s.ages0), s.ages, s.ages0, s.goal))
      = some (true, [6, 2, 3], [5, 1, 2], 11) := by decide

/-- the collecting receive blocks until the helper has sent its first age; afterwards it is enabled -/
example :
    let s0 := initial 2 1 1 [0, 0]
    (step s0 (.recv 0 1 tagAge)).isNone = true ∧ enabled s0 0 = false ∧ enabled s0 1 = true ∧
    ((step s0 (.isend 1 0 tagAge)).map fun s => enabled s 0) = some true := by decide

/-- a blocked operation is not enabled: rank 0 cannot leave the barrier alone -/
example :
    let s0 := initial 1 1 0 [0]
    (step s0 (.barrierLeave 0)).isNone = true ∧ (step s0 (.barrierEnter 0)).isSome = true := by decide

end C12
end Bingo
