import Proofs.Lemmas.ParXchgOrder
import Proofs.Lemmas.ParXchgTerm
/-!
# C11 (parallel clause): the `sendrecv` population exchange of `ParallelArchipelago`

"Migration conserves the population: nobody is lost or duplicated, island sizes are unchanged [for
equal-sized partners] … for every number of islands, all population sizes, every shuffle outcome."

The statements are about the second half of `Model/ParArch.lean` (`partner`, `xinitial`, `xstep`): rank 0
broadcasts a shuffled `order` of the ranks, consecutive entries are partners, every rank with a partner
dumps `halfRound len` individuals and calls `comm.sendrecv(dumped, dest=partner, source=partner)` (one
buffered send, then a blocking receive).  `xexplore` checks small cases exhaustively; the theorems here
hold for EVERY number of ranks `R = order.length`, every `order` that is a permutation of `0 … R-1`
(`isPermutation order = true`), all populations `pops` (one list per rank, any sizes) and every
interleaving of the ranks (`XReachable` lets any rank that can move do so).

* `xchg_no_deadlock`  -- every reachable state satisfies `xNoDeadlock` (all through, or some rank can move);
* `xchg_terminates`   -- a run has at most `2 * R` steps (for any `order`, `pops`), a complete run exactly
                         `potential (xinitial …)` steps (`xchg_run_length`), every maximal run ends in a
                         final state (`xchg_maximal_final`), and a final state can be reached from every
                         reachable state (`xchg_completes`);
* `xchg_result`       -- in a reachable final state rank `r` with partner `p` holds
                         `drop h_r pop_r ++ take h_p pop_p`, a rank without partner holds what it had;
* `xchg_conserved`    -- in a reachable final state nothing is in flight and the individuals are a
                         permutation of the initial ones (`List.Perm`, and the executable `xConserved`);
* `xchg_sizes`        -- if partners have equal initial sizes, all island sizes are unchanged (`xSizesKept`).

The proofs are in `Proofs/Lemmas/ParXchg*.lean`: an inductive invariant `XInv` (what every island holds
as a function of its program counter; in flight is exactly one message `(a, b, dump a)` for every rank
`a` that has sent and whose partner `b` has not received yet), and the fact that the partner relation is
an involution on the ranks (`par_partner_symmetric`), so what is received is a rearrangement of what
is dumped.  The lemmas need only `order.Nodup ∧ ∀ x ∈ order, x < R` (`order_ok`).
-/
namespace Bingo
namespace C11Par
open ParArch ParXchg

/-! ## 0. hypotheses -/

/-- `isPermutation order` says `order` is a rearrangement of `0 … R-1`; it gives what
`par_partner_symmetric` needs (`Nodup`) and that every partner is a rank -/
theorem order_ok {order : List Nat} (h : isPermutation order = true) :
    (List.range order.length).Perm order ∧ order.Nodup ∧ ∀ x ∈ order, x < order.length :=
  ⟨isPermutation_perm h, isPermutation_spec h⟩

/-- `isPermutation` is exactly "a rearrangement of `0 … R-1`" -/
theorem isPermutation_iff {order : List Nat} :
    isPermutation order = true ↔ (List.range order.length).Perm order :=
  ⟨isPermutation_perm, isPermutation_of_perm⟩

/-- on such an order the partner relation is a symmetric irreflexive matching of ranks -/
theorem partner_matching {order : List Nat} (h : isPermutation order = true) {a b : Nat}
    (hab : partner order a = some b) :
    partner order b = some a ∧ a ≠ b ∧ a < order.length ∧ b < order.length := by
  have hm := matching_of_order (isPermutation_spec h).1 (isPermutation_spec h).2
  exact ⟨hm.sym a b hab, hm.irrefl a b hab, hm.lt a b hab, hm.lt b a (hm.sym a b hab)⟩

/-- the invariant holds in every reachable state -/
theorem reachable_inv {order : List Nat} {pops : List (List Nat)} (hperm : isPermutation order = true)
    (hlen : pops.length ≤ order.length) {s : XState} (h : XReachable (xinitial order pops) s) :
    Matching (partner order) order.length ∧ XInv (partner order) pops order.length s := by
  have hm := matching_of_order (isPermutation_spec hperm).1 (isPermutation_spec hperm).2
  exact ⟨hm, inv_reachable hm (inv_initial order pops hm hlen) h⟩

/-! ## 1. no deadlock -/

/-- in every reachable state either all ranks are through or some rank can move: a rank waiting in the
receive half whose partner has not sent yet is blocked, but then the partner can send -/
theorem xchg_no_deadlock {order : List Nat} {pops : List (List Nat)} (hperm : isPermutation order = true)
    (hlen : pops.length ≤ order.length) {s : XState} (h : XReachable (xinitial order pops) s) :
    xNoDeadlock s = true := by
  obtain ⟨hm, inv⟩ := reachable_inv hperm hlen h
  exact inv_noDeadlock hm inv

/-- the same, with the rank that can move -/
theorem xchg_progress {order : List Nat} {pops : List (List Nat)} (hperm : isPermutation order = true)
    (hlen : pops.length ≤ order.length) {s : XState} (h : XReachable (xinitial order pops) s)
    (hf : xFinal s = false) : ∃ r s', r < order.length ∧ xstep s r = some s' := by
  obtain ⟨hm, inv⟩ := reachable_inv hperm hlen h
  obtain ⟨r, hr, hs⟩ := inv_progress hm inv hf
  cases hx : xstep s r with
  | none => simp [hx] at hs
  | some s' => exact ⟨r, s', hr, hx⟩

/-! ## 2. termination -/

/-- a run of the exchange has at most `2 * R` steps, whatever `order` and `pops` are: every step
advances one rank from `toSend` to `toRecv` or from `toRecv` to `done` -/
theorem xchg_terminates {order : List Nat} {pops : List (List Nat)} {n : Nat} {s : XState}
    (h : XRun (xinitial order pops) n s) :
    n + potential s = potential (xinitial order pops) ∧ n ≤ 2 * order.length := by
  have h1 := potential_run h
  have h2 := potential_le (xinitial order pops)
  have h3 : (xinitial order pops).pcs.length = order.length := by simp [xinitial]
  exact ⟨h1, by omega⟩

/-- all complete runs have the same number of steps (two per rank that has a partner) -/
theorem xchg_run_length {order : List Nat} {pops : List (List Nat)} {n : Nat} {s : XState}
    (h : XRun (xinitial order pops) n s) (hf : xFinal s = true) :
    n = potential (xinitial order pops) := by
  have h1 := potential_run h
  have h2 := potential_of_final hf
  omega

/-- a run that cannot be extended has ended in a final state (no rank is stuck in `sendrecv`) -/
theorem xchg_maximal_final {order : List Nat} {pops : List (List Nat)} (hperm : isPermutation order = true)
    (hlen : pops.length ≤ order.length) {s : XState} (h : XReachable (xinitial order pops) s)
    (hmax : ∀ r, xstep s r = none) : xFinal s = true := by
  cases hf : xFinal s with
  | true => rfl
  | false =>
    obtain ⟨r, s', _, hs⟩ := xchg_progress hperm hlen h hf
    rw [hmax r] at hs; cases hs

/-- every run can be completed: a final state is reachable from every reachable state (so the
statements about reachable final states are never vacuous) -/
theorem xchg_completes {order : List Nat} {pops : List (List Nat)} (hperm : isPermutation order = true)
    (hlen : pops.length ≤ order.length) {s : XState} (h : XReachable (xinitial order pops) s) :
    ∃ s', XReachable (xinitial order pops) s' ∧ xFinal s' = true := by
  have hm := matching_of_order (isPermutation_spec hperm).1 (isPermutation_spec hperm).2
  exact final_reachable hm (inv_initial order pops hm hlen) _ s rfl h

/-! ## 3. what every island holds after the exchange -/

/-- in a reachable final state rank `r` with partner `p` holds what it kept followed by what `p` dumped;
a rank without partner holds what it had; the number of islands is unchanged -/
theorem xchg_result {order : List Nat} {pops : List (List Nat)} (hperm : isPermutation order = true)
    (hlen : pops.length ≤ order.length) {s : XState} (h : XReachable (xinitial order pops) s)
    (hf : xFinal s = true) :
    s.pops.length = order.length ∧
    (∀ r p, partner order r = some p →
      s.pops.getD r [] = (pops.getD r []).drop (halfRound (pops.getD r []).length) ++
        (pops.getD p []).take (halfRound (pops.getD p []).length)) ∧
    (∀ r, partner order r = none → s.pops.getD r [] = pops.getD r []) := by
  obtain ⟨hm, inv⟩ := reachable_inv hperm hlen h
  refine ⟨inv.lenPops, ?_, ?_⟩
  · intro r p hp
    rw [inv_final_pop inv hf r]
    simp [result, keep, dump, hp, hm.sym r p hp]
  · intro r hp
    rw [inv_final_pop inv hf r]
    simp [result, keep, hp]

/-! ## 4. conservation -/

/-- in a reachable final state nothing is left in flight and nobody is lost or duplicated: the
individuals on all islands together are a rearrangement of the initial ones -/
theorem xchg_conserved {order : List Nat} {pops : List (List Nat)} (hperm : isPermutation order = true)
    (hlen : pops.length = order.length) {s : XState} (h : XReachable (xinitial order pops) s)
    (hf : xFinal s = true) :
    s.inflight = [] ∧ s.pops.flatten.Perm pops.flatten ∧ xConserved pops s = true := by
  obtain ⟨hm, inv⟩ := reachable_inv hperm (Nat.le_of_eq hlen) h
  have h1 := inv_final_inflight inv hf
  have h2 : s.pops.flatten.Perm pops.flatten := by
    rw [inv_final_pops inv hf]; exact result_perm hm hlen
  refine ⟨h1, h2, ?_⟩
  simp [xConserved, h1, sortNats_perm h2]

/-- island sizes are unchanged when partners have equal sizes (in general rank `r` ends with
`|pop_r| - halfRound |pop_r| + halfRound |pop_p|` individuals) -/
theorem xchg_sizes {order : List Nat} {pops : List (List Nat)} (hperm : isPermutation order = true)
    (hlen : pops.length = order.length) {s : XState} (h : XReachable (xinitial order pops) s)
    (hf : xFinal s = true)
    (heq : ∀ r p, partner order r = some p → (pops.getD r []).length = (pops.getD p []).length) :
    s.pops.map List.length = pops.map List.length ∧ xSizesKept pops s = true := by
  obtain ⟨hl, hsome, hnone⟩ := xchg_result hperm (Nat.le_of_eq hlen) h hf
  have key : s.pops.map List.length = pops.map List.length := by
    apply List.ext_getElem
    · simp [hl, hlen]
    · intro i h1 h2
      simp only [List.length_map] at h1 h2
      have e1 : s.pops.getD i [] = s.pops[i] := by simp [List.getD, List.getElem?_eq_getElem h1]
      have e2 : pops.getD i [] = pops[i] := by simp [List.getD, List.getElem?_eq_getElem h2]
      simp only [List.getElem_map]
      cases hp : partner order i with
      | none => rw [← e1, ← e2, hnone i hp]
      | some p =>
        have := heq i p hp
        have hle := halfRound_le (pops.getD p []).length
        rw [← e1, ← e2, hsome i p hp, List.length_append, List.length_drop, List.length_take, this]
        omega
  exact ⟨key, by simp [xSizesKept, key]⟩

/-! ## 5. non-vacuity and the role of the hypotheses -/

/-- three ranks, order `[2, 0, 1]`: ranks 2 and 0 exchange, rank 1 sits out.  A complete run (0 sends,
2 sends, 0 receives, 2 receives) is reachable and final, and the islands hold what `xchg_result` says -/
example :
    isPermutation [2, 0, 1] = true ∧
    ∃ s, XReachable (xinitial [2, 0, 1] [[1, 2, 3], [4, 5, 6], [7, 8]]) s ∧ xFinal s = true ∧
      s.pops = [[3, 7], [4, 5, 6], [8, 1, 2]] ∧ s.inflight = [] := by
  refine ⟨by decide, ?_⟩
  have h1 : (runRanks (xinitial [2, 0, 1] [[1, 2, 3], [4, 5, 6], [7, 8]]) [0, 2, 0, 2]).map
      (fun s => (xFinal s, s.pops)) = some (true, [[3, 7], [4, 5, 6], [8, 1, 2]]) := by decide
  have h2 : (runRanks (xinitial [2, 0, 1] [[1, 2, 3], [4, 5, 6], [7, 8]]) [0, 2, 0, 2]).map
      (fun s => s.inflight) = some [] := by decide
  cases hr : runRanks (xinitial [2, 0, 1] [[1, 2, 3], [4, 5, 6], [7, 8]]) [0, 2, 0, 2] with
  | none => rw [hr] at h1; cases h1
  | some s =>
    rw [hr] at h1 h2
    simp only [Option.map_some, Option.some.injEq, Prod.mk.injEq] at h1 h2
    exact ⟨s, reachable_of_run .refl hr, h1.1, h1.2, h2⟩

/-- the theorems applied to that instance: whatever the interleaving, the final populations are these -/
example {s : XState} (h : XReachable (xinitial [2, 0, 1] [[1, 2, 3], [4, 5, 6], [7, 8]]) s)
    (hf : xFinal s = true) :
    s.pops.getD 0 [] = [3, 7] ∧ s.pops.getD 1 [] = [4, 5, 6] ∧ s.pops.getD 2 [] = [8, 1, 2] ∧
      s.inflight = [] := by
  obtain ⟨_, hsome, hnone⟩ := xchg_result (by decide) (by decide) h hf
  exact ⟨hsome 0 2 (by decide), hnone 1 (by decide), hsome 2 0 (by decide),
    (xchg_conserved (by decide) (by decide) h hf).1⟩

/-- blocking is modelled: after its send half rank 0 cannot receive before rank 2 has sent (but the
state is not a deadlock, rank 2 can move) -/
example :
    (runRanks (xinitial [2, 0, 1] [[1, 2, 3], [4, 5, 6], [7, 8]]) [0, 0]).isNone = true ∧
    (runRanks (xinitial [2, 0, 1] [[1, 2, 3], [4, 5, 6], [7, 8]]) [0]).map xNoDeadlock = some true := by
  decide

/-- `xNoDeadlock` can fail, and the hypothesis on `order` is needed: an entry that is not a rank
(`[0, 2]` on two ranks) leaves rank 0 waiting for ever -/
example :
    isPermutation [0, 2] = false ∧
    (runRanks (xinitial [0, 2] [[1, 2], [3, 4]]) [0]).map (fun s => (xNoDeadlock s, s.inflight)) =
      some (false, [(0, 2, [1])]) := by
  decide

/-- … and so does a duplicate entry (`[1, 0, 0, 2]`: rank 2 believes its partner is rank 0, rank 0
exchanges with rank 1): rank 2 is stuck and its message is never received -/
example :
    isPermutation [1, 0, 0, 2] = false ∧
    (runRanks (xinitial [1, 0, 0, 2] [[1, 2], [3, 4], [5, 6], [7, 8]]) [0, 1, 0, 1, 2]).map
      (fun s => (xNoDeadlock s, xFinal s)) = some (false, false) ∧
    (runRanks (xinitial [1, 0, 0, 2] [[1, 2], [3, 4], [5, 6], [7, 8]]) [0, 1, 0, 1, 2]).map
      (fun s => s.inflight) = some [(2, 0, [5])] := by
  decide

/-- the size clause needs equal-sized partners: sizes 1 and 2 (`halfRound 1 = 0`, `halfRound 2 = 1`)
end as 2 and 1; nobody is lost -/
example :
    (runRanks (xinitial [0, 1] [[1], [2, 3]]) [0, 1, 0, 1]).map
      (fun s => (xFinal s, xConserved [[1], [2, 3]] s, xSizesKept [[1], [2, 3]] s, s.pops)) =
      some (true, true, false, [[1, 2], [3]]) := by
  decide

end C11Par
end Bingo
