import Proofs.Lemmas.Gradient
import Proofs.Lemmas.Unused
/-!
# C02: the reverse sweep returns the exact partial derivatives

Vocabulary (all in `Proofs/Lemmas`, namespace `Bingo.AD`):
* `opFn n a b` -- the real function `MathSem.bin n` / `MathSem.un n` denotes (`opFn_is_mathsem`);
* `NodeDiff n a b` -- the node's differentiability condition at operand values `a`, `b`;
* `dA n a b`, `dB n a b` -- textbook partial derivatives (validated by `HasDerivAt` below);
* `addAt l p v` -- `l` with `v` added to entry `p`;
* `absRows seed v s` -- the stack linearised at forward values `v` (`ReverseMode.Row.op p q dA dB`
  for operator rows, `ReverseMode.Row.leaf (seed row)` for terminals);
* `colSeed wrt j` -- seed `1` on rows with node `wrt` and `p1 = j`, else `0`;
* `RowsDifferentiable s x c` -- `NodeDiff` holds at every row for the values of `Eval.fwd s x c`.
-/
namespace Bingo
namespace C02
open Gen.OpDefs AD

/-! ## 1. the value component -/

theorem value_same {α : Type} [Scalar α] {s : Stack} {x c : List α} {w : Bool} {v : α}
    {d : List α} (h : Eval.evalWithDeriv s x c w = some (v, d)) :
    Eval.evalLast s x c = some v :=
  evalWithDeriv_value h

/-! ## 2. the generated reverse rules are the partial derivatives -/

/-- `opFn` is exactly what `MathSem` says the node means -/
theorem opFn_is_mathsem {n : Int} (hop : Ops.isTerminal n = some false) (a b : ℝ) :
    MathSem.bin n a b = some (opFn n a b) ∨
      (MathSem.bin n a b = none ∧ MathSem.un n a = some (opFn n a b)) := by
  rcases isOp_cases hop with rfl | rfl | rfl | rfl | rfl | rfl | rfl | rfl | rfl | rfl | rfl | rfl | rfl | rfl <;>
    simp [opFn, MathSem.bin, MathSem.un, ADDITION, SUBTRACTION, MULTIPLICATION, DIVISION, SIN,
      COS, EXPONENTIAL, LOGARITHM, POWER, ABS, SQRT, SAFE_POWER, SINH, COSH]

/-- **Every operator node.**  Row `i` has node `n`, operand rows `p`, `q` (below `i`, possibly
equal), operand values `a`, `b`, own forward value `opFn n a b` and adjoint `R`.  Where the
node is differentiable, `dA`/`dB` are its partial derivatives (Mathlib `HasDerivAt`) and
executing the *generated* reverse statements adds `R * dA` to entry `p` and `R * dB` to
entry `q` of the adjoint list. -/
theorem rules_are_partials {n : Int} (hop : Ops.isTerminal n = some false) {N i p q : Nat}
    {cmd : Cmd} (hp : pyIdx N cmd.p1 = some p) (hq : pyIdx N cmd.p2 = some q)
    (hpi : p < i) (hqi : q < i) {fw radj : List ℝ} (hi : i < radj.length) {a b R : ℝ}
    (ha : fw[p]? = some a) (hb : fw[q]? = some b) (hF : fw[i]? = some (opFn n a b))
    (hR : radj[i]? = some R) (hd : NodeDiff n a b) :
    HasDerivAt (fun t => opFn n t b) (dA n a b) a ∧
    HasDerivAt (fun t => opFn n a t) (dB n a b) b ∧
    ∃ stmts, Gen.OpRules.revRules.lookup n = some stmts ∧
      Eval.applyStmts N fw i cmd stmts radj
        = some (addAt (addAt radj p (R * dA n a b)) q (R * dB n a b)) :=
  ⟨hasDerivAt_opFn_left hop hd, hasDerivAt_opFn_right hop hd,
    revRule_spec hop hp hq hpi hqi hi ha hb hF hR hd⟩

/-- arity-2 nodes, stated directly with the function `MathSem.bin n` denotes -/
theorem rules_are_partials_bin {n : Int} {op : ℝ → ℝ → ℝ}
    (hsem : ∀ a b, MathSem.bin n a b = some (op a b)) {N i p q : Nat}
    {cmd : Cmd} (hp : pyIdx N cmd.p1 = some p) (hq : pyIdx N cmd.p2 = some q)
    (hpi : p < i) (hqi : q < i) {fw radj : List ℝ} (hi : i < radj.length) {a b R : ℝ}
    (ha : fw[p]? = some a) (hb : fw[q]? = some b) (hF : fw[i]? = some (op a b))
    (hR : radj[i]? = some R) (hd : NodeDiff n a b) :
    ∃ da db, HasDerivAt (fun t => op t b) da a ∧ HasDerivAt (fun t => op a t) db b ∧
      ∃ stmts, Gen.OpRules.revRules.lookup n = some stmts ∧
        Eval.applyStmts N fw i cmd stmts radj
          = some (addAt (addAt radj p (R * da)) q (R * db)) := by
  have hop : Ops.isTerminal n = some false := by
    have h := hsem 0 0
    unfold MathSem.bin at h
    split_ifs at h <;> (subst_vars; decide)
  have hfn : opFn n = op := by
    funext a b; exact opFn_of_bin (hsem a b)
  have := rules_are_partials hop hp hq hpi hqi hi ha hb (by rw [hfn]; exact hF) hR hd
  rw [hfn] at this
  exact ⟨_, _, this⟩

/-- arity-1 nodes, stated directly with the function `MathSem.un n` denotes: only operand 1
receives an increment -/
theorem rules_are_partials_un {n : Int} {op : ℝ → ℝ}
    (hsem : ∀ a, MathSem.un n a = some (op a)) {N i p q : Nat}
    {cmd : Cmd} (hp : pyIdx N cmd.p1 = some p) (hq : pyIdx N cmd.p2 = some q)
    (hpi : p < i) (hqi : q < i) {fw radj : List ℝ} (hi : i < radj.length) {a b R : ℝ}
    (ha : fw[p]? = some a) (hb : fw[q]? = some b) (hF : fw[i]? = some (op a))
    (hR : radj[i]? = some R) (hd : NodeDiff n a b) :
    ∃ da, HasDerivAt op da a ∧
      ∃ stmts, Gen.OpRules.revRules.lookup n = some stmts ∧
        Eval.applyStmts N fw i cmd stmts radj = some (addAt radj p (R * da)) := by
  have hop : Ops.isTerminal n = some false := by
    have h := hsem 0
    unfold MathSem.un at h
    split_ifs at h <;> (subst_vars; decide)
  have hbin : ∀ a b, MathSem.bin n a b = none := by
    intro a b
    have h := hsem 0
    unfold MathSem.un at h
    unfold MathSem.bin
    split_ifs at h <;> (subst_vars; simp [ADDITION, SUBTRACTION, MULTIPLICATION,
      DIVISION, SIN, COS, EXPONENTIAL, LOGARITHM, POWER, ABS, SQRT, SAFE_POWER, SINH, COSH])
  have hfn : opFn n = fun a _ => op a := by
    funext a b; exact opFn_of_un (hbin a b) (hsem a)
  have hdB : dB n a b = 0 := by
    have h := hsem 0
    unfold MathSem.un at h
    split_ifs at h <;> (subst_vars; simp [dB, ADDITION, SUBTRACTION, MULTIPLICATION,
      DIVISION, SIN, COS, EXPONENTIAL, LOGARITHM, POWER, ABS, SQRT, SAFE_POWER, SINH, COSH])
  obtain ⟨h1, _, stmts, h3, h4⟩ :=
    rules_are_partials hop hp hq hpi hqi hi ha hb (by rw [hfn]; exact hF) hR hd
  rw [hfn] at h1
  refine ⟨_, h1, stmts, h3, ?_⟩
  rw [h4, hdB, mul_zero, addAt_zero _ (by simp; omega)]

/-! ## 3. the reverse sweep of a stack is the abstract reverse sweep -/

/-- `Eval.revSweep` (which executes the generated rules) keeps its adjoint list equal to the
abstract `ReverseMode.revSweep` on the stack linearised with the local partials of item 2 -/
theorem revSweep_is_abstract {D L : Nat} {s : Stack} (hwf : WF.WFEval D L s) {x c fw : List ℝ}
    (hx : x.length = D) (hc : c.length = L) (hfw : Eval.fwd s x c = some fw)
    (hdiff : RowsDifferentiable s x c) (seed : Cmd → ℝ) (k : Nat) (hk : k ≤ s.length)
    (radj d : List ℝ) (hr : radj.length = s.length) (hd : d.length = D) :
    ∃ radj' d', Eval.revSweep s VARIABLE fw k (radj, d) = some (radj', d') ∧
      ∀ i, radj'.getD i 0 =
        ReverseMode.revSweep (absRows seed (fun m => fw.getD m 0) s) k
          (fun i => radj.getD i 0) i := by
  obtain ⟨radj', d', h1, _, _, h4, _⟩ :=
    revSweep_sim (simHyp_x hwf hx hc hfw hdiff) k hk radj d hr hd
  exact ⟨radj', d', h1, fun i => congrFun (h4 seed) i⟩

/-- **Reverse sweep = forward tangent, on stacks.**  Entry `j` of `Eval.rev s VARIABLE D fw` is
the forward-mode tangent of the last row when the seed is `1` on the rows loading variable
`j` and `0` on all other terminals (several load rows: their adjoints add up); likewise for
`CONSTANT`. -/
theorem reverse_is_tangent_stack {D L : Nat} {s : Stack} (hwf : WF.WFEval D L s)
    {x c : List ℝ} (hx : x.length = D) (hc : c.length = L)
    (hdiff : RowsDifferentiable s x c) :
    ∃ fw, Eval.fwd s x c = some fw ∧
      (∃ d, Eval.rev s VARIABLE D fw = some d ∧ d.length = D ∧
        ∀ j : Nat, d.getD j 0 =
          (ReverseMode.tangents (absRows (colSeed VARIABLE j) (fun m => fw.getD m 0) s)).getD
            (s.length - 1) 0) ∧
      (∃ d, Eval.rev s CONSTANT L fw = some d ∧ d.length = L ∧
        ∀ j : Nat, d.getD j 0 =
          (ReverseMode.tangents (absRows (colSeed CONSTANT j) (fun m => fw.getD m 0) s)).getD
            (s.length - 1) 0) := by
  obtain ⟨fw, hfw, _, _⟩ := fwd_spec hwf hx hc
  exact ⟨fw, hfw, rev_eq_tangent (simHyp_x hwf hx hc hfw hdiff),
    rev_eq_tangent (simHyp_c hwf hx hc hfw hdiff)⟩

/-! ## 4. the gradient is the derivative -/

theorem gradient_correct_x {D L : Nat} {s : Stack} (hwf : WF.WFEval D L s) (x c : List ℝ)
    (hx : x.length = D) (hc : c.length = L) (j : Nat) (hj : j < D)
    (hdiff : RowsDifferentiable s x c) :
    ∃ v d, Eval.evalWithDeriv s x c true = some (v, d) ∧ ∃ hd : d.length = D,
      HasDerivAt (fun θ => (Eval.evalLast s (x.set j θ) c).getD 0)
        (d[j]'(by omega)) (x[j]'(by omega)) := by
  have hjx : j < x.length := by omega
  have hx0 : x.set j x[j] = x := List.set_getElem_self hjx
  obtain ⟨fw, hfw, hderiv⟩ := fwd_family_hasDerivAt hwf (fun θ => x.set j θ) (fun _ => c)
    (fun θ => by simp [hx]) (fun _ => hc) x[j] (colSeed VARIABLE j)
    (fun i hi hop => leaf_hasDerivAt_x hwf x c hx j hj i hi hop)
    (by show RowsDifferentiable s (x.set j x[j]) c; rw [hx0]; exact hdiff)
  simp only [hx0] at hfw
  obtain ⟨d, hd, hdlen, hdj⟩ := rev_eq_tangent (simHyp_x hwf hx hc hfw hdiff)
  obtain ⟨_, h1, h2, _⟩ := fwd_spec hwf hx hc
  rw [hfw] at h1; cases h1
  have hlast := evalLast_eq hfw h2 (length_pos_of_wf hwf)
  simp only [Eval.evalLast, hfw, Option.bind_some] at hlast
  refine ⟨_, d, evalWithDeriv_of hfw hlast (by simp [hx, hd]), hdlen, ?_⟩
  have : d[j]'(by omega) = d.getD j 0 := by
    simp [List.getD_eq_getElem?_getD, hdlen, hj]
  rw [this, hdj j]
  exact hderiv

theorem gradient_correct_c {D L : Nat} {s : Stack} (hwf : WF.WFEval D L s) (x c : List ℝ)
    (hx : x.length = D) (hc : c.length = L) (j : Nat) (hj : j < L)
    (hdiff : RowsDifferentiable s x c) :
    ∃ v d, Eval.evalWithDeriv s x c false = some (v, d) ∧ ∃ hd : d.length = L,
      HasDerivAt (fun θ => (Eval.evalLast s x (c.set j θ)).getD 0)
        (d[j]'(by omega)) (c[j]'(by omega)) := by
  have hjc : j < c.length := by omega
  have hc0 : c.set j c[j] = c := List.set_getElem_self hjc
  obtain ⟨fw, hfw, hderiv⟩ := fwd_family_hasDerivAt hwf (fun _ => x) (fun θ => c.set j θ)
    (fun _ => hx) (fun θ => by simp [hc]) c[j] (colSeed CONSTANT j)
    (fun i hi hop => leaf_hasDerivAt_c hwf x c hc j hj i hi hop)
    (by show RowsDifferentiable s x (c.set j c[j]); rw [hc0]; exact hdiff)
  simp only [hc0] at hfw
  obtain ⟨d, hd, hdlen, hdj⟩ := rev_eq_tangent (simHyp_c hwf hx hc hfw hdiff)
  obtain ⟨_, h1, h2, _⟩ := fwd_spec hwf hx hc
  rw [hfw] at h1; cases h1
  have hlast := evalLast_eq hfw h2 (length_pos_of_wf hwf)
  simp only [Eval.evalLast, hfw, Option.bind_some] at hlast
  refine ⟨_, d, evalWithDeriv_of hfw hlast (by simp [hc, hd]), hdlen, ?_⟩
  have : d[j]'(by omega) = d.getD j 0 := by
    simp [List.getD_eq_getElem?_getD, hdlen, hj]
  rw [this, hdj j]
  exact hderiv

/-! ## 5. unused inputs / constants get exactly zero (any scalar type) -/

/-- no `VARIABLE` row indexes column `j` (Python indexing: negative `p1` wraps) ⇒ `d[j]` is `0` -/
theorem unused_zero {α : Type} [Scalar α] {s : Stack} {x c : List α} {v : α} {d : List α}
    {j : Nat} (hj : j < x.length)
    (hno : ∀ cmd ∈ s, cmd.node = VARIABLE → pyIdx x.length cmd.p1 ≠ some j)
    (h : Eval.evalWithDeriv s x c true = some (v, d)) :
    d[j]? = some Eval.zero := by
  obtain ⟨fw, _, hd⟩ := evalWithDeriv_deriv h
  simp only [if_true] at hd
  exact (rev_unused hj hno hd).1

theorem unused_zero_c {α : Type} [Scalar α] {s : Stack} {x c : List α} {v : α} {d : List α}
    {j : Nat} (hj : j < c.length)
    (hno : ∀ cmd ∈ s, cmd.node = CONSTANT → pyIdx c.length cmd.p1 ≠ some j)
    (h : Eval.evalWithDeriv s x c false = some (v, d)) :
    d[j]? = some Eval.zero := by
  obtain ⟨fw, _, hd⟩ := evalWithDeriv_deriv h
  simp only [Bool.false_eq_true, if_false] at hd
  exact (rev_unused hj hno hd).1

/-- on a well-formed stack: no row is `(VARIABLE, j, _)` ⇒ `d[j]` is `Eval.zero` -/
theorem unused_zero_wf {α : Type} [Scalar α] {D L : Nat} {s : Stack} (hwf : WF.WFEval D L s)
    {x c : List α} {v : α} {d : List α} {j : Nat} (hx : x.length = D) (hj : j < D)
    (hno : ∀ cmd ∈ s, ¬ (cmd.node = VARIABLE ∧ cmd.p1 = (j : Int)))
    (h : Eval.evalWithDeriv s x c true = some (v, d)) :
    d[j]? = some Eval.zero := by
  refine unused_zero (by omega) ?_ h
  intro cmd hmem hn
  obtain ⟨i, hi, rfl⟩ := List.getElem_of_mem hmem
  rcases rowOK_cases (rowOK_of_wf hwf i hi) with ⟨_, b0, b1⟩ | ⟨h', _⟩ | h' | ⟨h', _⟩
  · rw [hx, pyIdx_of_lt b0 (by omega)]
    intro e
    apply hno _ hmem
    refine ⟨hn, ?_⟩
    have : s[i].p1.toNat = j := by simpa using e
    omega
  · rw [hn] at h'; exact absurd h' (by decide)
  · rw [hn] at h'; exact absurd h' (by decide)
  · rw [hn, isTerminal_VARIABLE] at h'; cases h'

theorem unused_zero_c_wf {α : Type} [Scalar α] {D L : Nat} {s : Stack} (hwf : WF.WFEval D L s)
    {x c : List α} {v : α} {d : List α} {j : Nat} (hc : c.length = L) (hj : j < L)
    (hno : ∀ cmd ∈ s, ¬ (cmd.node = CONSTANT ∧ cmd.p1 = (j : Int)))
    (h : Eval.evalWithDeriv s x c false = some (v, d)) :
    d[j]? = some Eval.zero := by
  refine unused_zero_c (by omega) ?_ h
  intro cmd hmem hn
  obtain ⟨i, hi, rfl⟩ := List.getElem_of_mem hmem
  rcases rowOK_cases (rowOK_of_wf hwf i hi) with ⟨h', _⟩ | ⟨_, b0, b1⟩ | h' | ⟨h', _⟩
  · rw [hn] at h'; exact absurd h' (by decide)
  · rw [hc, pyIdx_of_lt b0 (by omega)]
    intro e
    apply hno _ hmem
    refine ⟨hn, ?_⟩
    have : s[i].p1.toNat = j := by simpa using e
    omega
  · rw [hn] at h'; exact absurd h' (by decide)
  · rw [hn, isTerminal_CONSTANT] at h'; cases h'

/-! ## 6. non-vacuity -/

/-- `x0*x0 + sin(x0*x0)`: row 1 uses row 0 twice, row 3 reaches row 1 directly and through
row 2 (fan-out); every hypothesis of `gradient_correct_x` is satisfied at every `t`. -/
example (t : ℝ) :
    ∃ v d, Eval.evalWithDeriv [⟨0,0,0⟩, ⟨4,0,0⟩, ⟨6,1,1⟩, ⟨2,1,2⟩] [t] [] true = some (v, d) ∧
      ∃ hd : d.length = 1,
        HasDerivAt
          (fun θ => (Eval.evalLast [⟨0,0,0⟩, ⟨4,0,0⟩, ⟨6,1,1⟩, ⟨2,1,2⟩] ([t].set 0 θ) []).getD 0)
          (d[0]'(by omega)) t :=
  gradient_correct_x (D := 1) (L := 0) (by decide) [t] [] rfl rfl 0 (by decide)
    (rowsDifferentiable_of_smooth (by decide))

/-- the same stack, computed: the model returns value `t*t + sin(t*t)` and gradient
`(1 + cos(t*t))*t + (1 + cos(t*t))*t` (both uses of `x0` by the product are summed) -/
example (t : ℝ) :
    Eval.evalWithDeriv [⟨0,0,0⟩, ⟨4,0,0⟩, ⟨6,1,1⟩, ⟨2,1,2⟩] [t] [] true
      = some (t * t + Real.sin (t * t),
          [(1 + Real.cos (t * t)) * t + (1 + Real.cos (t * t)) * t]) := by
  simp [Eval.evalWithDeriv, Eval.fwd, Eval.fwdAux, Eval.fwdRow, Eval.fwdRule,
    Gen.OpRules.fwdRules, List.lookup, RExpr.interp, Eval.fwdCtx, Eval.lookupFwd, pyIdx,
    Eval.rev, Eval.revSweep, Eval.revStep, Eval.revRule, Gen.OpRules.revRules, Eval.applyStmts,
    Eval.applyStmt, Eval.revCtx, Eval.refIdx, Eval.zero, Eval.one, UnFn.apply, VARIABLE]

/-- a stack with a real differentiability condition: `x0 / c0`, derivative w.r.t. `c0`,
at any `c0 ≠ 0` -/
example (a b : ℝ) (hb : b ≠ 0) :
    ∃ v d, Eval.evalWithDeriv [⟨0,0,0⟩, ⟨1,0,0⟩, ⟨5,0,1⟩] [a] [b] false = some (v, d) ∧
      ∃ hd : d.length = 1,
        HasDerivAt
          (fun θ => (Eval.evalLast [⟨0,0,0⟩, ⟨1,0,0⟩, ⟨5,0,1⟩] [a] ([b].set 0 θ)).getD 0)
          (d[0]'(by omega)) b :=
  gradient_correct_c (D := 1) (L := 1) (by decide) [a] [b] rfl rfl 0 (by decide) (by
    intro fw hfw i hi
    have hfw' : fw = [a, b, a / b] := by
      simpa [Eval.fwd, Eval.fwdAux, Eval.fwdRow, Eval.fwdRule, Gen.OpRules.fwdRules, List.lookup,
        RExpr.interp, Eval.fwdCtx, Eval.lookupFwd, pyIdx] using hfw.symm
    subst hfw'
    match i, hi with
    | 0, _ => simp [NodeDiff, DIVISION, LOGARITHM, ABS, SQRT, POWER, SAFE_POWER]
    | 1, _ => simp [NodeDiff, DIVISION, LOGARITHM, ABS, SQRT, POWER, SAFE_POWER]
    | 2, _ => simpa [NodeDiff, DIVISION, LOGARITHM, ABS, SQRT, POWER, SAFE_POWER] using hb)

/-- `unused_zero_wf` applies: `x1` does not occur in `x0*x0 + sin(x0*x0)` -/
example (t u : ℝ) (v : ℝ) (d : List ℝ)
    (h : Eval.evalWithDeriv [⟨0,0,0⟩, ⟨4,0,0⟩, ⟨6,1,1⟩, ⟨2,1,2⟩] [t, u] [] true = some (v, d)) :
    d[1]? = some Eval.zero :=
  unused_zero_wf (D := 2) (L := 0) (by decide) rfl (by decide) (by decide) h

end C02
end Bingo
