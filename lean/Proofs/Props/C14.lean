import Proofs.Lemmas.ConvergeLoops
import Proofs.Lemmas.ConvergeExamples
/-!
# C14: `evolve_until_convergence` always returns, and what it returns is truthful

Only the property theorems and their non-vacuity examples live here; the proofs are in
`Proofs/Lemmas/Converge{Criteria,Run,Loops}.lean` (core Lean only, no Mathlib).

Hypotheses: `0 < cfg.freq` and the oracle contract `∀ k, 1 ≤ (obs k).gens`
(`get_gens_to_evolve()` returns `convergence_check_frequency` or `max(1, …)`, see `gen_ok`).
`1 ≤ cfg.maxGen` is not needed by any theorem.  `run cfg obs age improv best` is parametric in
the carried state, so every theorem covers repeated calls on one optimizer.
-/
namespace Bingo.C14
open Bingo.Converge

/-! ## 1. the facts read from the Python source -/

theorem gen_ok :
    Gen.Converge.problems = [] ∧
    (∀ s ∈ Gen.Converge.gensToEvolveReturns, s = "freq" ∨ s = "max:1") ∧
    Gen.Converge.finalStatus = 2 ∧
    Gen.Converge.ngenExpr = "(self.generational_age - self._starting_age)" ∧
    Gen.Converge.fitnessExpr = "self._best_fitness" ∧
    Gen.Converge.successStatuses = [0] ∧
    Gen.Converge.exitChain.map (·.2) = [0, 1, 3, 4, 5] ∧
    Gen.Converge.preLoop.filter (fun c => c = "_update_best_fitness" ∨ c = "_update_checkpoints")
      = ["_update_best_fitness", "_update_checkpoints"] ∧
    Gen.Converge.loops.map (·.1) =
      ["(self.generational_age - self._starting_age) lt min_generations",
       "(self.generational_age - self._starting_age) lt max_generations"] ∧
    Gen.Converge.loops.map (·.2.1) = ["convergence_check_frequency", "gens_to_evolve"] ∧
    Gen.Converge.loops.map (·.2.2.take 6) =
      [["evolve", "_update_best_fitness", "_update_checkpoints", "record_check"],
       ["get_gens_to_evolve", "evolve", "_update_best_fitness", "_update_checkpoints",
        "record_check", "_check_exit_criteria"]] :=
  ⟨by decide, by decide, by decide, by decide, by decide, by decide, by decide, by decide,
    by decide, by decide, by decide⟩

/-- `_update_best_fitness` has the shape modelled by `updateBest` -/
theorem gen_update_best :
    Gen.Converge.updateBestFitness =
      "last_best_fitness = self._best_fitness ; self._best_fitness = self.get_best_fitness() ; if last_best_fitness is None or self._best_fitness < last_best_fitness:     self._fitness_improvement_age = self.generational_age" :=
  rfl

/-- the exit check is total on the generated chain (no criterion of a shape the model does not
know), and it lets evolution continue exactly when no criterion of the chain holds -/
theorem check_total (cfg : Cfg) (st : St) (o : Obs) :
    checkExit cfg st o Gen.Converge.exitChain ≠ none ∧
    (checkExit cfg st o Gen.Converge.exitChain = some none ↔
      ∀ p ∈ Gen.Converge.exitChain, holds cfg st o p.1 = some false) :=
  ⟨checkExit_ne_none cfg st o, checkExit_continue_iff_holds cfg st o⟩

section
variable {cfg : Cfg} {obs : Nat → Obs} {age improv : Nat} {best : Option Key}

/-! ## 2. termination -/

theorem terminates (hf : 0 < cfg.freq) (hobs : ∀ k, 1 ≤ (obs k).gens) :
    run cfg obs age improv best ≠ .outOfFuel ∧
    ∀ why, run cfg obs age improv best ≠ .unsupported why := by
  obtain ⟨s, R, h, _⟩ := run_spec (obs := obs) (age := age) (improv := improv) (best := best)
    hf hobs
  rw [h]; unfold mkResult
  exact ⟨fun h => Outcome.noConfusion h, fun _ h => Outcome.noConfusion h⟩

/-! ## 3. the returned result -/

variable {status ngen : Nat} {fitness : Key} {success : Bool} {rounds : List Nat} {st' : St}

/-- `minRounds cfg` is the least `m` with `m * freq ≥ minGen` -/
theorem minRounds_least (hf : 0 < cfg.freq) :
    cfg.minGen ≤ minRounds cfg * cfg.freq ∧
    ∀ m, cfg.minGen ≤ m * cfg.freq → minRounds cfg ≤ m :=
  ⟨(minRounds_le_iff hf _).1 (Nat.le_refl _), fun m h => (minRounds_le_iff hf m).2 h⟩

theorem min_gens (hf : 0 < cfg.freq) (hobs : ∀ k, 1 ≤ (obs k).gens)
    (h : run cfg obs age improv best = .result status ngen fitness success rounds st') :
    cfg.minGen ≤ ngen := by
  obtain ⟨_, hn, _, _, hpre, _, _⟩ := run_result hf hobs h
  obtain ⟨t, rfl⟩ := hpre
  rw [hn, List.sum_append_nat, List.sum_replicate_nat]
  have := (minRounds_least hf).1
  omega

theorem reported (hf : 0 < cfg.freq) (hobs : ∀ k, 1 ≤ (obs k).gens)
    (h : run cfg obs age improv best = .result status ngen fitness success rounds st') :
    ngen = rounds.sum ∧ ngen = st'.age - st'.start ∧ st'.start = age ∧
    st'.age = age + rounds.sum ∧ fitness = (obs rounds.length).best ∧
    st'.best = some fitness := by
  obtain ⟨hst, hn, hfit, _⟩ := run_result hf hobs h
  subst hst
  refine ⟨hn, ?_, stateAfter_start _, stateAfter_age _, hfit, ?_⟩
  · rw [hn, stateAfter_evolved]
  · rw [hfit, stateAfter_best]

theorem status_truthful (hf : 0 < cfg.freq) (hobs : ∀ k, 1 ≤ (obs k).gens)
    (h : run cfg obs age improv best = .result status ngen fitness success rounds st') :
    (status = 0 → Key.le fitness cfg.thr = true) ∧
    (status = 1 → ∃ t, cfg.stag = some t ∧ (st'.age : Int) - st'.improv ≥ t) ∧
    (status = 2 → cfg.maxGen ≤ ngen) ∧
    (status = 3 → ∃ t, cfg.maxEvals = some t ∧ ((obs rounds.length).evals : Int) ≥ t) ∧
    (status = 4 → ∃ t, cfg.maxTime = some t ∧ (obs rounds.length).elapsed ≥ t) ∧
    (status = 5 → ∃ e, (obs rounds.length).est = some e ∧ e < 2500) ∧
    status ∈ [0, 1, 2, 3, 4, 5] := by
  obtain ⟨hst, hn, hfit, _, _, _, hfin⟩ := run_result hf hobs h
  subst hst
  have hconv : critConv cfg (stateAfter obs age improv best rounds) = Key.le fitness cfg.thr := by
    unfold critConv; rw [stateAfter_best, hfit]; rfl
  rcases hfin with ⟨hs, _, hmax⟩ | hc
  · have hs2 : status = 2 := hs
    subst hs2
    refine ⟨?_, ?_, fun _ => hn ▸ hmax, ?_, ?_, ?_, by decide⟩ <;> intro h0 <;> omega
  · obtain ⟨hmem, h0, h1, h3, h4, h5⟩ := checkExit_status hc
    refine ⟨fun h => hconv ▸ h0.1 h, fun h => critStag_true (h1 h), fun h => by omega,
      fun h => critEvals_true (h3 h), fun h => critTime_true (h4 h),
      fun h => critEst_true (h5 h), ?_⟩
    rcases hmem with h | h | h | h | h <;> subst h <;> decide

theorem success_iff (hf : 0 < cfg.freq) (hobs : ∀ k, 1 ≤ (obs k).gens)
    (h : run cfg obs age improv best = .result status ngen fitness success rounds st') :
    (success = true ↔ Key.le fitness cfg.thr = true) ∧ (success = true ↔ status = 0) := by
  obtain ⟨hst, _, hfit, hsucc, _, _, hfin⟩ := run_result hf hobs h
  subst hst
  have hconv : critConv cfg (stateAfter obs age improv best rounds) = Key.le fitness cfg.thr := by
    unfold critConv; rw [stateAfter_best, hfit]; rfl
  refine ⟨?_, by rw [hsucc]; simp⟩
  rw [hsucc, ← hconv]
  rcases hfin with ⟨hs, hc, _⟩ | hc
  · have hs2 : status = 2 := hs
    have := ((checkExit_continue_iff _ _ _).1 hc).1
    rw [this]; simp [hs2]
  · have := (checkExit_status hc).2.1
    simpa using this

/-- a NaN best fitness is never reported as a success -/
theorem nan_never_success (hf : 0 < cfg.freq) (hobs : ∀ k, 1 ≤ (obs k).gens)
    (h : run cfg obs age improv best = .result status ngen fitness success rounds st')
    (hnan : fitness = none) : success = false := by
  have := (success_iff hf hobs h).1
  subst hnan
  cases success
  · rfl
  · exact absurd (this.1 rfl) (by simp [Key.le])

/-- The trace of the call.  The first `minRounds cfg` rounds are those of the min-generation
loop (each evolves `freq` generations and was started with fewer than `minGen` generations
evolved).  Every later round `j` (0-based, so it is preceded by the check that reads observation
`j` in the state `stateAfter … (rounds.take j)`) was started only after a check at which
`_check_exit_criteria` found no criterion (`= some none`, equivalently by `check_total` every
`holds … = some false`) and with fewer than `maxGen` generations evolved, and it evolved what
`get_gens_to_evolve()` returned.  The returned state is the state after the last round. -/
theorem no_round_after_hit (hf : 0 < cfg.freq) (hobs : ∀ k, 1 ≤ (obs k).gens)
    (h : run cfg obs age improv best = .result status ngen fitness success rounds st') :
    minRounds cfg ≤ rounds.length ∧
    rounds.take (minRounds cfg) = List.replicate (minRounds cfg) cfg.freq ∧
    (∀ j, j < minRounds cfg → (rounds.take j).sum < cfg.minGen) ∧
    (∀ j, minRounds cfg ≤ j → j < rounds.length →
      checkExit cfg (stateAfter obs age improv best (rounds.take j)) (obs j)
        Gen.Converge.exitChain = some none ∧
      (rounds.take j).sum < cfg.maxGen ∧
      rounds[j]? = some (gensFor cfg obs j)) ∧
    st' = stateAfter obs age improv best rounds := by
  obtain ⟨hst, _, _, _, hpre, hgood, _⟩ := run_result hf hobs h
  obtain ⟨t, rfl⟩ := hpre
  refine ⟨by simp, List.take_left' List.length_replicate, ?_, hgood, hst⟩
  intro j hj
  rw [List.take_append_of_le_length (by simp; omega), List.take_replicate,
    List.sum_replicate_nat, Nat.min_eq_left (Nat.le_of_lt hj)]
  have := minRounds_le_iff hf (cfg := cfg) j
  omega

/-- contrapositive reading: a check of the main loop at which some criterion held, or which
found `maxGen` generations evolved, is the last one — no further round is started -/
theorem stops_at_hit (hf : 0 < cfg.freq) (hobs : ∀ k, 1 ≤ (obs k).gens)
    (h : run cfg obs age improv best = .result status ngen fitness success rounds st')
    (j : Nat) (hm : minRounds cfg ≤ j) (hj : j ≤ rounds.length)
    (hit : checkExit cfg (stateAfter obs age improv best (rounds.take j)) (obs j)
        Gen.Converge.exitChain ≠ some none ∨ cfg.maxGen ≤ (rounds.take j).sum) :
    j = rounds.length := by
  have hg := (no_round_after_hit hf hobs h).2.2.2.1 j hm
  by_cases hlt : j < rounds.length
  · obtain ⟨h1, h2, _⟩ := hg hlt
    rcases hit with hit | hit
    · exact absurd h1 hit
    · omega
  · omega

/-- what the state after `j` rounds is -/
theorem stateAfter_fields (R : List Nat) :
    (stateAfter obs age improv best R).start = age ∧
    (stateAfter obs age improv best R).age = age + R.sum ∧
    (stateAfter obs age improv best R).best = some (obs R.length).best :=
  ⟨stateAfter_start R, stateAfter_age R, stateAfter_best R⟩

/-- every round evolves at least one generation, hence the generational ages at which
`_update_checkpoints` runs (entry and after every round: `checkAges age rounds`, i.e.
`age + (rounds.take j).sum` for `j = 0 … rounds.length`) are strictly increasing.
This is the hypothesis `ages.Pairwise (· < ·)` of C13. -/
theorem checkpoint_ages_increasing (hf : 0 < cfg.freq) (hobs : ∀ k, 1 ≤ (obs k).gens)
    (h : run cfg obs age improv best = .result status ngen fitness success rounds st') :
    (∀ g ∈ rounds, 1 ≤ g) ∧
    checkAges age rounds
      = (List.range (rounds.length + 1)).map (fun j => age + (rounds.take j).sum) ∧
    (checkAges age rounds).Pairwise (· < ·) :=
  ⟨rounds_pos hf hobs h, checkAges_eq rounds age,
    checkAges_pairwise rounds age (rounds_pos hf hobs h)⟩

/-- what "check `j` records an improvement" means -/
theorem improvedAt_zero :
    improvedAt obs best 0 = true ↔ best = none ∨ ∃ b, best = some b ∧ Key.lt (obs 0).best b = true := by
  unfold improvedAt prevBest; cases best <;> simp

theorem improvedAt_succ (j : Nat) :
    improvedAt obs best (j + 1) = Key.lt (obs (j + 1)).best (obs j).best := rfl

/-- `_fitness_improvement_age` at return is the age at the last check (entry = check 0, after
round `j` = check `j`) that recorded an improvement, and the carried value if there was none -/
theorem improv_correct (hf : 0 < cfg.freq) (hobs : ∀ k, 1 ≤ (obs k).gens)
    (h : run cfg obs age improv best = .result status ngen fitness success rounds st') :
    (∀ j, j ≤ rounds.length → improvedAt obs best j = true →
      (∀ i, j < i → i ≤ rounds.length → improvedAt obs best i = false) →
      st'.improv = age + (rounds.take j).sum) ∧
    ((∀ j, j ≤ rounds.length → improvedAt obs best j = false) → st'.improv = improv) := by
  obtain ⟨hst, _⟩ := run_result hf hobs h
  subst hst
  exact stateAfter_improv rounds

end

/-! ## 4. non-vacuity -/

/-! ### A: stops by threshold after 2 rounds with `freq = 3` (`cfgA`, `obsA` in `Lemmas/ConvergeExamples`) -/

example : 0 < cfgA.freq ∧ ∀ k, 1 ≤ (obsA k).gens := ⟨by decide, obsA_gens⟩

theorem runA : run cfgA obsA 0 0 none =
    .result 0 6 (some 5) true [3, 3] { age := 6, start := 0, improv := 6, best := some (some 5) } := by
  rfl

example : cfgA.minGen ≤ 6 := min_gens (by decide) obsA_gens runA
example : Key.le (some 5) cfgA.thr = true :=
  (status_truthful (by decide) obsA_gens runA).1 rfl
example : minRounds cfgA = 0 := by decide
example : improvedAt obsA none 2 = true ∧ improvedAt obsA none 1 = false := by decide

/-! ### B: reaches `maxGen = 10` with `freq = 4` (`freq ∤ maxGen`), time-limited, one shortened round,
resumed at age 7 with a carried best (`cfgB`, `obsB` in `Lemmas/ConvergeExamples`) -/

theorem runB : run cfgB obsB 7 3 (some (some 100)) =
    .result 2 13 (some 96) false [4, 4, 1, 4]
      { age := 20, start := 7, improv := 20, best := some (some 96) } := by
  rfl

example : cfgB.maxGen ≤ 13 := (status_truthful (by decide) obsB_gens runB).2.2.1 rfl
example : minRounds cfgB = 1 := by decide
example : ¬ (cfgB.freq ∣ cfgB.maxGen) := by decide
example : checkAges 7 [4, 4, 1, 4] = [7, 11, 15, 16, 20] := by decide
example : stateAfter obsB 7 3 (some (some 100)) [4, 4, 1] =
    { age := 16, start := 7, improv := 16, best := some (some 97) } := by rfl
example : checkExit cfgB (stateAfter obsB 7 3 (some (some 100)) [4, 4, 1]) (obsB 3)
    Gen.Converge.exitChain = some none :=
  ((no_round_after_hit (by decide) obsB_gens runB).2.2.2.1 3 (by decide) (by decide)).1
example : (20 : Nat) = 7 + ([4, 4, 1, 4].take 4).sum :=
  (improv_correct (by decide) obsB_gens runB).1 4 (by decide) (by decide)
    (fun i h1 h2 => by simp only [List.length_cons, List.length_nil] at h2; omega)
example : (false = true ↔ Key.le (some 96) cfgB.thr = true) := (success_iff (by decide) obsB_gens runB).1

end Bingo.C14
