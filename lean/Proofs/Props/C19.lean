import Proofs.Lemmas.EvalPhase
import Proofs.Lemmas.EvalMultiprocess
import Proofs.Lemmas.EvalCount
import Proofs.Lemmas.EvalExamples
/-!
# C19 (and the evaluation clause of C17): what one call of the evaluation phase does, and what
the evaluation count counts

Only the property theorems and their non-vacuity examples live here; the proofs are in
`Proofs/Lemmas/{EvalPhase,EvalMultiprocess,EvalCount}.lean` (core Lean only).

`f` is an arbitrary deterministic fitness function; `cost g` is the number of base
fitness-function invocations one call of the fitness function on genome `g` makes (1 for a plain
fitness function, more through local optimization).
-/
namespace Bingo.C19
open Bingo.Pipeline Bingo.EvalPhase

/-! ## 7. the serial phase -/

theorem serial_phase (f : Nat → Key) (cost : Nat → Nat) (redundant : Bool) (pop : List Indiv) :
    (serialEval f cost redundant pop).1.length = pop.length ∧
    ∀ (i : Nat) (h : i < pop.length),
      let o := (serialEval f cost redundant pop).1[i]'((serialEval_length f cost redundant pop).symm ▸ h)
      o.genome = pop[i].genome ∧ o.age = pop[i].age ∧
      (if redundant = true ∨ pop[i].flag = false
        then o.flag = true ∧ o.fit = some (f pop[i].genome)
        else o = pop[i]) := by
  refine ⟨serialEval_length f cost redundant pop, ?_⟩
  intro i h
  have hget := serialEval_getElem f cost redundant pop i h
  simp only [hget]
  by_cases ht : touched redundant pop[i] = true
  · have hc : redundant = true ∨ pop[i].flag = false := by simpa [touched] using ht
    simp only [ht, if_true, hc, evalOne, and_self]
  · have hc : ¬(redundant = true ∨ pop[i].flag = false) := by simpa [touched] using ht
    simp only [ht, hc, if_false]
    trivial

theorem count_delta (f : Nat → Key) (cost : Nat → Nat) (redundant : Bool) (pop : List Indiv) :
    (serialEval f cost redundant pop).2 =
      ((pop.filter fun i => redundant || !i.flag).map (fun i => cost i.genome)).sum :=
  serialEval_snd f cost redundant pop

/-! ## 8. the multiprocess phase -/

/-- whatever order the pool hands the results back in (each submitted job exactly once), the
population and the reported count are those of serial evaluation -/
theorem multiprocess_phase (f : Nat → Key) (cost : Nat → Nat) (redundant : Bool) (pop : List Indiv)
    (order : List (Nat × Indiv × Nat) → List (Nat × Indiv × Nat))
    (hperm : (order (jobs f cost redundant pop)).Perm (jobs f cost redundant pop)) :
    multiprocessEval f cost redundant pop order = serialEval f cost redundant pop :=
  multiprocessEval_eq_serialEval f cost redundant pop order hperm

/-- hence every slot of a multiprocess evaluation keeps its genome and age and gets `f genome` -/
theorem multiprocess_slots (f : Nat → Key) (cost : Nat → Nat) (redundant : Bool) (pop : List Indiv)
    (order : List (Nat × Indiv × Nat) → List (Nat × Indiv × Nat))
    (hperm : (order (jobs f cost redundant pop)).Perm (jobs f cost redundant pop)) :
    (multiprocessEval f cost redundant pop order).1.length = pop.length ∧
    ∀ (k : Nat) (i : Indiv), pop[k]? = some i →
      ∃ o, (multiprocessEval f cost redundant pop order).1[k]? = some o ∧
        o.genome = i.genome ∧ o.age = i.age ∧
        (redundant = true ∨ i.flag = false → o.flag = true ∧ o.fit = some (f i.genome)) ∧
        (¬(redundant = true ∨ i.flag = false) → o = i) := by
  rw [multiprocess_phase f cost redundant pop order hperm]
  refine ⟨serialEval_length f cost redundant pop, ?_⟩
  intro k i hget
  refine ⟨_, by rw [serialEval_getElem?, hget]; rfl, ?_⟩
  by_cases ht : touched redundant i = true
  · simp only [ht, if_true]
    exact ⟨rfl, rfl, fun _ => ⟨rfl, rfl⟩, fun h => absurd (by simpa [touched] using ht) h⟩
  · simp only [ht]
    exact ⟨rfl, rfl, fun h => absurd (by simpa [touched] using h) ht, fun _ => rfl⟩

/-! ## 9. totals -/

/-- the count an island's evaluation object reports after any sequence of evaluation calls
(serial or multiprocess, any redundancy setting, any populations) is its starting count plus the
per-call numbers of fitness-function invocations -/
theorem island_total (f : Nat → Key) (cost : Nat → Nat) (c0 : Nat) (calls : List Call)
    (h : ∀ c ∈ calls, c.OrderOK f cost) :
    islandCount f cost c0 calls =
      c0 + (calls.map fun c =>
        ((c.pop.filter fun i => c.redundant || !i.flag).map (fun i => cost i.genome)).sum).sum :=
  islandCount_eq f cost c0 calls h

/-- an archipelago reports the sum over its islands -/
theorem archipelago_total (f : Nat → Key) (cost : Nat → Nat) (islands : List (Nat × List Call))
    (h : ∀ isl ∈ islands, ∀ c ∈ isl.2, c.OrderOK f cost) :
    archipelagoCount f cost islands =
      (islands.map (·.1)).sum +
        (islands.map fun isl => (isl.2.map fun c =>
          ((c.pop.filter fun i => c.redundant || !i.flag).map (fun i => cost i.genome)).sum).sum).sum :=
  archipelagoCount_eq f cost islands h

/-- the definitions the two totals are about -/
theorem totals_defs (f : Nat → Key) (cost : Nat → Nat) :
    (∀ c0, islandCount f cost c0 [] = c0) ∧
    (∀ c0 c cs, islandCount f cost c0 (c :: cs) = islandCount f cost (c0 + (c.run f cost).2) cs) ∧
    (∀ r p, (Call.mk r p none).run f cost = serialEval f cost r p) ∧
    (∀ r p o, (Call.mk r p (some o)).run f cost = multiprocessEval f cost r p o) ∧
    (∀ islands, archipelagoCount f cost islands =
      (islands.map fun isl => islandCount f cost isl.1 isl.2).sum) :=
  ⟨fun _ => rfl, fun _ _ _ => rfl, fun _ _ => rfl, fun _ _ _ => rfl, fun _ => rfl⟩

/-! ## 10. non-vacuity -/

/-- the data: `f g = g²`, `cost g = g % 3 + 1`, slot 0 unflagged with a stale value, slot 1
flagged and correct, slots 2 and 3 never evaluated -/
example : Ex.f 3 = some 9 ∧ Ex.cost 5 = 3 ∧ Ex.pop =
    [⟨3, some (some 99), false, 4⟩, ⟨5, some (some 25), true, 2⟩, ⟨7, none, false, 0⟩,
      ⟨4, none, false, 1⟩] := by decide

/-- serial, non-redundant: slots 0, 2, 3 evaluated (stale value of slot 0 replaced), slot 1
untouched, count = cost 3 + cost 7 + cost 4 = 1 + 2 + 2 -/
example : serialEval Ex.f Ex.cost false Ex.pop =
    ([⟨3, some (some 9), true, 4⟩, ⟨5, some (some 25), true, 2⟩, ⟨7, some (some 49), true, 0⟩,
      ⟨4, some (some 16), true, 1⟩], 5) := by decide

/-- redundant: slot 1 is re-evaluated too and counted (cost 5 = 3) -/
example : (serialEval Ex.f Ex.cost true Ex.pop).2 = 8 := by decide

/-- three jobs, with their slots -/
example : (jobs Ex.f Ex.cost false Ex.pop).map (·.1) = [0, 2, 3] := by decide

/-- results consumed in reversed completion order: same population, same count -/
example : multiprocessEval Ex.f Ex.cost false Ex.pop List.reverse = serialEval Ex.f Ex.cost false Ex.pop := by
  decide

/-- the hypothesis of `multiprocess_phase` is satisfiable by a non-trivial order, and the theorem
gives the same equation -/
example : multiprocessEval Ex.f Ex.cost false Ex.pop List.reverse = serialEval Ex.f Ex.cost false Ex.pop :=
  multiprocess_phase Ex.f Ex.cost false Ex.pop List.reverse (List.reverse_perm _)

/-- the hypothesis is needed: a pool that loses a result does not reproduce serial evaluation -/
example : multiprocessEval Ex.f Ex.cost false Ex.pop (List.drop 1) ≠ serialEval Ex.f Ex.cost false Ex.pop := by
  decide

/-- one island: a serial call, then a multiprocess call on the (now evaluated) population with
redundancy on; two islands summed -/
example :
    islandCount Ex.f Ex.cost 10 [⟨false, Ex.pop, none⟩, ⟨true, Ex.pop, some List.reverse⟩] = 10 + 5 + 8 ∧
    archipelagoCount Ex.f Ex.cost [(10, [⟨false, Ex.pop, none⟩]), (0, [⟨true, Ex.pop, some List.reverse⟩])]
      = (10 + 5) + 8 := by decide

end Bingo.C19
