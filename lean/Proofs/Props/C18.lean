import Proofs.Lemmas.AGraphState
/-!
# C18 — the `AGraph` cache is transparent; copies are independent

After any legal sequence of public operations on an equation object, every refreshed observation
equals what a freshly constructed equation with the same command stack, simplification setting and
constants gives.  `derive` (the simplifier) and `one` (the default constant) are arbitrary.

Legality (`AG.Legal`): `set_local_optimization_params(p)` is only applied with
`len(p) = get_number_local_optimization_params()`.

Corner: the object `AGraph()` *before any command stack was assigned* has the empty command stack and
an empty, non-stale cache.  That cache is consistent iff the simplifier maps the empty stack to the
empty stack (`derive useSimp [] = []`).  For a completely arbitrary `derive` the statements about
histories from `init` therefore need either that hypothesis (`inv_init`, `inv_run`, `obs_eq_fresh`)
or a history that contains a write (`inv_run_of_write`, `obs_eq_fresh_of_write`,
`obs_eq_fresh_setCmd`, which need no hypothesis and hold from *any* starting state); the
counterexample is `init_counterexample` below.
-/
namespace Bingo
namespace C18
open AG

variable {V : Type}

/-! ## 1. the cache invariant -/

/-- the never-assigned object has a consistent cache provided the simplifier maps the empty stack to
the empty stack -/
theorem inv_init (derive : Bool → Stack → Stack) (one : V) (useSimp : Bool)
    (h0 : derive useSimp [] = []) : Inv derive one (init useSimp : St V) := by
  right
  simp [init, h0, Renumber.renumber, Renumber.go, Renumber.numConsts]

/-- every legal operation preserves the invariant -/
theorem inv_step (derive : Bool → Stack → Stack) (one : V) (s : St V) (op : Op V)
    (hl : LegalOp derive one s op) (h : Inv derive one s) :
    Inv derive one (step derive one s op) := by
  cases op with
  | setCmd a => left; rfl
  | editRow i row => left; rfl
  | observe => exact inv_ensure derive one s h
  | setFitness v => exact h
  | resetFlag => exact h
  | setConsts p =>
    cases hm : s.modified with
    | true => left; exact hm
    | false =>
      rcases h with h | ⟨h1, h2⟩
      · rw [hm] at h; cases h
      · right
        have hp : p.length = s.consts.length := by
          have := hl
          simp only [LegalOp, observe_snd, ensure_of_not_modified derive one s hm] at this
          exact this
        exact ⟨h1, hp.trans h2⟩

/-- a legal history preserves the invariant, from any state -/
theorem inv_run_of_inv (derive : Bool → Stack → Stack) (one : V) (ops : List (Op V)) (s : St V)
    (hl : Legal derive one s ops) (h : Inv derive one s) :
    Inv derive one (run derive one s ops) := by
  induction ops generalizing s with
  | nil => exact h
  | cons op ops ih =>
    exact ih (step derive one s op) hl.2 (inv_step derive one s op hl.1 h)

/-- legal histories from the never-assigned object keep the invariant -/
theorem inv_run (derive : Bool → Stack → Stack) (one : V) (useSimp : Bool) (ops : List (Op V))
    (h0 : derive useSimp [] = [])
    (hl : Legal derive one (init useSimp) ops) :
    Inv derive one (run derive one (init useSimp) ops) :=
  inv_run_of_inv derive one ops _ hl (inv_init derive one useSimp h0)

/-- a legal history that contains a write establishes the invariant from *any* state, for any
simplifier -/
theorem inv_run_of_write (derive : Bool → Stack → Stack) (one : V) (s : St V)
    (pre post : List (Op V)) (w : Op V) (hw : IsWrite w)
    (hl : Legal derive one s (pre ++ w :: post)) :
    Inv derive one (run derive one s (pre ++ w :: post)) := by
  rw [run_append, run_cons]
  have hl' := ((legal_append derive one s pre (w :: post)).1 hl).2
  exact inv_run_of_inv derive one post _ hl'.2 (inv_write derive one _ w hw)

/-! ## 2. `use_simplification` never changes; the command stack is determined by the writes -/

theorem useSimp_const (derive : Bool → Stack → Stack) (one : V) (ops : List (Op V)) (s : St V) :
    (run derive one s ops).useSimp = s.useSimp := by
  induction ops generalizing s with
  | nil => rfl
  | cons op ops ih => rw [run_cons, ih, step_useSimp]

theorem cmd_run (derive : Bool → Stack → Stack) (one : V) (ops : List (Op V)) (s : St V) :
    (run derive one s ops).cmd = cmdOf s.cmd ops := by
  induction ops generalizing s with
  | nil => rfl
  | cons op ops ih => rw [run_cons, ih, step_cmd]; rfl

/-- in particular from the never-assigned object -/
theorem cmd_run_init (derive : Bool → Stack → Stack) (one : V) (useSimp : Bool)
    (ops : List (Op V)) :
    (run derive one (init useSimp) ops).cmd = cmdOf [] ops ∧
      (run derive one (init useSimp) ops).useSimp = useSimp :=
  ⟨cmd_run derive one ops _, useSimp_const derive one ops _⟩

/-! ## 3. every refreshed observation equals that of a fresh object -/

/-- core: a state satisfying the invariant is observationally a fresh object with the same command
stack, simplification setting and constants -/
theorem obs_eq_fresh_of_inv (derive : Bool → Stack → Stack) (one : V) (s : St V)
    (h : Inv derive one s) :
    (observe derive one s).2 = (observe derive one (fresh s.useSimp s.cmd s.consts)).2 := by
  have hf : (fresh s.useSimp s.cmd s.consts).modified = true := rfl
  rw [observe_snd, observe_snd, ensure_of_modified derive one _ hf]
  cases hm : s.modified with
  | true =>
    rw [ensure_of_modified derive one s hm]
    obtain ⟨h1, h2, h3⟩ := update_congr derive one s (fresh s.useSimp s.cmd s.consts) rfl rfl rfl
    rw [h1, h2, h3]
  | false =>
    rcases h with h | ⟨h1, h2⟩
    · rw [hm] at h; cases h
    · rw [ensure_of_not_modified derive one s hm]
      obtain ⟨e1, e2, e3⟩ := update_congr derive one s (fresh s.useSimp s.cmd s.consts) rfl rfl rfl
      obtain ⟨u1, u2⟩ := update_of_inv derive one s h1 h2
      rw [← e1, ← e2, ← e3, u1, u2, update_cmd]

/-- main theorem: after any legal history from the never-assigned object (simplifier maps the empty
stack to the empty stack) -/
theorem obs_eq_fresh (derive : Bool → Stack → Stack) (one : V) (useSimp : Bool)
    (ops : List (Op V)) (h0 : derive useSimp [] = [])
    (hl : Legal derive one (init useSimp) ops) :
    let s := run derive one (init useSimp) ops
    (observe derive one s).2 = (observe derive one (fresh s.useSimp s.cmd s.consts)).2 :=
  obs_eq_fresh_of_inv derive one _ (inv_run derive one useSimp ops h0 hl)

/-- main theorem, hypothesis-free variant: after any legal history that contains a write, from any
state whatsoever and for any simplifier -/
theorem obs_eq_fresh_of_write (derive : Bool → Stack → Stack) (one : V) (s0 : St V)
    (pre post : List (Op V)) (w : Op V) (hw : IsWrite w)
    (hl : Legal derive one s0 (pre ++ w :: post)) :
    let s := run derive one s0 (pre ++ w :: post)
    (observe derive one s).2 = (observe derive one (fresh s.useSimp s.cmd s.consts)).2 :=
  obs_eq_fresh_of_inv derive one _ (inv_run_of_write derive one s0 pre post w hw hl)

/-- the usual life cycle: construct, assign the command stack, then any legal history; the fresh
object is described explicitly (`useSimp`, the command stack computed from the writes) -/
theorem obs_eq_fresh_setCmd (derive : Bool → Stack → Stack) (one : V) (useSimp : Bool)
    (a : Stack) (ops : List (Op V))
    (hl : Legal derive one (init useSimp) (.setCmd a :: ops)) :
    let s := run derive one (init useSimp) (.setCmd a :: ops)
    (observe derive one s).2 = (observe derive one (fresh useSimp (cmdOf a ops) s.consts)).2 := by
  intro s
  have h := obs_eq_fresh_of_write derive one (init useSimp) [] ops (.setCmd a) trivial hl
  simp only [List.nil_append] at h
  have hu : s.useSimp = useSimp := useSimp_const derive one _ _
  have hc : s.cmd = cmdOf a ops := cmd_run derive one _ _
  rw [← hu, ← hc]
  exact h

/-- observing twice gives the same observation and the second observation does not change the
state -/
theorem observe_idempotent (derive : Bool → Stack → Stack) (one : V) (s : St V) :
    (observe derive one (observe derive one s).1).1 = (observe derive one s).1 ∧
      (observe derive one (observe derive one s).1).2 = (observe derive one s).2 := by
  simp [observe_snd, ensure_idem]

/-- once refreshed, an observation is the identity on the state -/
theorem observe_fixed (derive : Bool → Stack → Stack) (one : V) (s : St V)
    (h : s.modified = false) : (observe derive one s).1 = s :=
  ensure_of_not_modified derive one s h

/-! ## 4. writes clear the fitness; observations and `setConsts` do not touch it -/

theorem writes_clear_fitness (s : St V) (a : Stack) (i : Nat) (row : Cmd) :
    ((setCmd s a).fitSet = false ∧ (setCmd s a).fit = none) ∧
      ((editRow s i row).fitSet = false ∧ (editRow s i row).fit = none) :=
  ⟨⟨rfl, rfl⟩, ⟨rfl, rfl⟩⟩

/-- writes do not touch the age -/
theorem writes_keep_age (s : St V) (a : Stack) (i : Nat) (row : Cmd) :
    (setCmd s a).age = s.age ∧ (editRow s i row).age = s.age := ⟨rfl, rfl⟩

theorem observe_preserves (derive : Bool → Stack → Stack) (one : V) (s : St V) :
    (observe derive one s).1.fit = s.fit ∧ (observe derive one s).1.fitSet = s.fitSet ∧
      (observe derive one s).1.age = s.age ∧ (observe derive one s).1.cmd = s.cmd ∧
      (observe derive one s).1.useSimp = s.useSimp :=
  ⟨ensure_fit derive one s, ensure_fitSet derive one s, ensure_age derive one s,
    ensure_cmd derive one s, ensure_useSimp derive one s⟩

theorem setConsts_preserves (s : St V) (p : List V) :
    (setConsts s p).fit = s.fit ∧ (setConsts s p).fitSet = s.fitSet ∧
      (setConsts s p).age = s.age ∧ (setConsts s p).cmd = s.cmd ∧
      (setConsts s p).useSimp = s.useSimp ∧ (setConsts s p).simp = s.simp ∧
      (setConsts s p).modified = s.modified :=
  ⟨rfl, rfl, rfl, rfl, rfl, rfl, rfl⟩

/-- the fitness setter marks the individual evaluated and touches nothing an observation depends on -/
theorem setFitness_spec (derive : Bool → Stack → Stack) (one : V) (s : St V) (v : Key) :
    (setFitness s v).fit = some v ∧ (setFitness s v).fitSet = true ∧
      (setFitness s v).age = s.age ∧
      (observe derive one (setFitness s v)).2 = (observe derive one s).2 := by
  refine ⟨rfl, rfl, rfl, ?_⟩
  cases hm : s.modified with
  | true =>
    have hm' : (setFitness s v).modified = true := hm
    rw [observe_snd, observe_snd, ensure_of_modified _ _ _ hm, ensure_of_modified _ _ _ hm']
    obtain ⟨h1, h2, h3⟩ := update_congr derive one (setFitness s v) s rfl rfl rfl
    rw [h1, h2, h3]
  | false =>
    have hm' : (setFitness s v).modified = false := hm
    rw [observe_snd, observe_snd, ensure_of_not_modified _ _ _ hm,
      ensure_of_not_modified _ _ _ hm']
    rfl

/-! ## 5. copies -/

/-- a copy has the same fitness, evaluated flag, age and the same observation as its source at the
time of copying -/
theorem copy_equal (derive : Bool → Stack → Stack) (one : V) (s : St V) :
    (copy s).fit = s.fit ∧ (copy s).fitSet = s.fitSet ∧ (copy s).age = s.age ∧
      (observe derive one (copy s)).2 = (observe derive one s).2 :=
  ⟨rfl, rfl, rfl, rfl⟩

/-- copies are independent: in a world holding a source `s` and its copy, after any interleaving
`ops` of operations on the two objects (tag `false`: on the source, tag `true`: on the copy), the
source is what the operations addressed to it alone produce from `s`, and the copy is what the
operations addressed to it alone produce from `copy s`.  (States are values in the model, so this is
immediate; it is the named counterpart of the aliasing check on the real code.) -/
theorem copy_independent (derive : Bool → Stack → Stack) (one : V) (s : St V)
    (ops : List (Bool × Op V)) :
    runPair derive one (s, copy s) ops =
      (run derive one s (opsOf false ops), run derive one (copy s) (opsOf true ops)) :=
  runPair_eq derive one ops (s, copy s)

/-- the special case "first `a` on the source, then `b` on the copy" and the other order: the copy's
observation does not depend on `a`, the source's does not depend on `b` -/
theorem copy_independent_seq (derive : Bool → Stack → Stack) (one : V) (s : St V)
    (a b : List (Op V)) :
    runPair derive one (s, copy s) (a.map (fun o => (false, o)) ++ b.map (fun o => (true, o))) =
        (run derive one s a, run derive one (copy s) b) ∧
      runPair derive one (s, copy s) (b.map (fun o => (true, o)) ++ a.map (fun o => (false, o))) =
        (run derive one s a, run derive one (copy s) b) := by
  have e1 : ∀ (l : List (Op V)) (t : Bool), opsOf t (l.map (fun o => (t, o))) = l := by
    intro l t
    induction l with
    | nil => rfl
    | cons o l ih =>
      simp only [opsOf] at ih ⊢
      simp [ih]
  have e2 : ∀ (l : List (Op V)) (t t' : Bool), t ≠ t' →
      opsOf t' (l.map (fun o => (t, o))) = [] := by
    intro l t t' hne
    induction l with
    | nil => rfl
    | cons o l ih =>
      simp only [opsOf] at ih ⊢
      simp [hne]
  have app : ∀ (t : Bool) (x y : List (Bool × Op V)), opsOf t (x ++ y) = opsOf t x ++ opsOf t y := by
    intro t x y; simp [opsOf]
  constructor
  · rw [copy_independent, app, app, e1, e1, e2 _ _ _ (by decide), e2 _ _ _ (by decide)]
    simp
  · rw [copy_independent, app, app, e1, e1, e2 _ _ _ (by decide), e2 _ _ _ (by decide)]
    simp

/-! ## 6. non-vacuity -/

section Examples

open AG.Ex

example : Legal idDerive 1 (init true) hist := by decide

/-- the number of constants grows from 0 to 1: reset to `one` -/
example : (observe idDerive (1 : Int) (run idDerive 1 (init true) (hist.take 1))).2.consts = [1] := by
  decide

/-- the renumbered stack -/
example : (observe idDerive (1 : Int) (run idDerive 1 (init true) (hist.take 1))).2.simp
    = [x, ⟨1, 0, 0⟩, xc] := by decide

/-- the set constants are what is observed -/
example : (observe idDerive (1 : Int) (run idDerive 1 (init true) (hist.take 4))).2.consts = [5] := by
  decide

/-- the number of constants grows from 1 to 2: the optimised `5` is lost, both reset to `one` -/
example : (observe idDerive (1 : Int) (run idDerive 1 (init true) (hist.take 6))).2.consts
    = [1, 1] := by decide

example : (observe idDerive (1 : Int) (run idDerive 1 (init true) (hist.take 6))).2.simp
    = [⟨1, 0, 0⟩, ⟨1, 1, 1⟩, xc] := by decide

/-- the number of constants shrinks from 2 to 1: truncated -/
example : (observe idDerive (1 : Int) (run idDerive 1 (init true) hist)).2.consts = [5] := by
  decide

/-- the write cleared the fitness that had been set -/
example : (run idDerive (1 : Int) (init true) (hist.take 8)).fit = some (some 3) ∧
    (run idDerive (1 : Int) (init true) (hist.take 8)).fitSet = true ∧
    (run idDerive (1 : Int) (init true) hist).fit = none ∧
    (run idDerive (1 : Int) (init true) hist).fitSet = false := by decide

/-- the final observation is that of the fresh object (instance of `obs_eq_fresh_setCmd`) -/
example :
    (observe idDerive (1 : Int) (run idDerive 1 (init true) hist)).2.simp =
      (observe idDerive (1 : Int) (fresh true [x, c, xc] [5])).2.simp ∧
    (observe idDerive (1 : Int) (run idDerive 1 (init true) hist)).2.consts =
      (observe idDerive (1 : Int) (fresh true [x, c, xc] [5])).2.consts ∧
    (observe idDerive (1 : Int) (run idDerive 1 (init true) hist)).2.cmd =
      (observe idDerive (1 : Int) (fresh true [x, c, xc] [5])).2.cmd := by decide

/-- `Legal` is not vacuous the other way either: setting two parameters on a one-constant equation
is rejected -/
example : ¬ Legal idDerive (1 : Int) (init true) [.setCmd [x, c, xc], .setConsts [5, 6]] := by
  decide

/-- why legality is needed: after the illegal history the object (not stale, 2 constants cached)
observes `[5, 6]`, the fresh object truncates to `[5]` -/
example :
    (observe idDerive (1 : Int)
      (run idDerive 1 (init true) [.setCmd [x, c, xc], .observe, .setConsts [5, 6]])).2.consts
      = [5, 6] ∧
    (observe idDerive (1 : Int) (fresh true [x, c, xc] [5, 6])).2.consts = [5] := by decide

/-- why `inv_init` / `obs_eq_fresh` need `derive useSimp [] = []` (or a write in the history): with a
simplifier that maps the empty stack to a one-constant stack, the never-assigned object observes the
empty stack while the fresh object with the same (empty) command stack observes one constant -/
theorem init_counterexample :
    let derive : Bool → Stack → Stack := fun _ s => if s = [] then [c] else s
    let s : St Int := run derive 1 (init true) []
    Legal derive 1 (init true) ([] : List (Op Int)) ∧
      (observe derive 1 s).2.simp = [] ∧
      (observe derive 1 (fresh s.useSimp s.cmd s.consts)).2.simp = [⟨1, 0, 0⟩] := by
  decide

end Examples

end C18
end Bingo
