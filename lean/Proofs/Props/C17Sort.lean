import Proofs.Props.C17
/-!
# C17, continued: `sorted(set)` removes the hash-seed dependence, proved rather than built in

`Repro.registered` models the sorted branch as `sortStrings l` of the set's *content*, i.e. it
already assumes that sorting an arbitrary iteration order gives one fixed list.  The source does
`sorted(operators)` on whatever order the interpreter's hash seed produced.  Here that assumption is
a theorem: for every iteration order `perm seed l` that is a rearrangement of the content,
`sortStrings (perm seed l)` is the same list -- the sorted rearrangement of `l`, which is unique.
Consequently the operator drawn at every sampled index is the same under every hash seed.
-/
namespace Bingo.C17
open Bingo Repro

theorem insertSorted_perm (x : String) (l : List String) : (insertSorted x l).Perm (x :: l) := by
  induction l with
  | nil => exact List.Perm.refl _
  | cons y ys ih =>
    unfold insertSorted
    split
    · exact List.Perm.refl _
    · exact ((List.Perm.cons y ih).trans (List.Perm.swap x y ys))

theorem sortStrings_perm (l : List String) : (sortStrings l).Perm l := by
  induction l with
  | nil => exact List.Perm.refl _
  | cons x xs ih =>
    show (insertSorted x (sortStrings xs)).Perm (x :: xs)
    exact (insertSorted_perm x _).trans (List.Perm.cons x ih)

theorem insertSorted_sorted (x : String) (l : List String) (h : l.Pairwise (· ≤ ·)) :
    (insertSorted x l).Pairwise (· ≤ ·) := by
  induction l with
  | nil => simp [insertSorted]
  | cons y ys ih =>
    unfold insertSorted
    obtain ⟨hy, hys⟩ := List.pairwise_cons.1 h
    split
    · next hxy =>
      refine List.pairwise_cons.2 ⟨?_, h⟩
      intro z hz
      rcases List.mem_cons.1 hz with rfl | hz
      · exact hxy
      · exact String.le_trans hxy (hy z hz)
    · next hxy =>
      have hyx : y ≤ x := by
        rcases String.le_total x y with h1 | h1
        · exact absurd h1 hxy
        · exact h1
      refine List.pairwise_cons.2 ⟨?_, ih hys⟩
      intro z hz
      rcases List.mem_cons.1 ((insertSorted_perm x ys).subset hz) with rfl | hz
      · exact hyx
      · exact hy z hz

theorem sortStrings_sorted (l : List String) : (sortStrings l).Pairwise (· ≤ ·) := by
  induction l with
  | nil => exact List.Pairwise.nil
  | cons x xs ih => exact insertSorted_sorted x _ ih

/-- Python's `sorted` on two rearrangements of the same strings gives the same list. -/
theorem sortStrings_eq_of_perm {l₁ l₂ : List String} (h : l₁.Perm l₂) :
    sortStrings l₁ = sortStrings l₂ :=
  List.Perm.eq_of_pairwise (le := (· ≤ ·)) (fun _ _ _ _ h1 h2 => String.le_antisymm h1 h2)
    (sortStrings_sorted l₁) (sortStrings_sorted l₂)
    ((sortStrings_perm l₁).trans (h.trans (sortStrings_perm l₂).symm))

/-- The source's `sorted(operators)` on a set: whatever iteration order each hash seed produces
(any rearrangement of the content), the registration order is the same. -/
theorem sorted_set_deterministic (perm : Nat → List String → List String)
    (hperm : ∀ seed l, (perm seed l).Perm l) (l : List String) (seed1 seed2 : Nat) :
    sortStrings (perm seed1 l) = sortStrings (perm seed2 l) :=
  sortStrings_eq_of_perm ((hperm seed1 l).trans (hperm seed2 l).symm)

/-- and it is the order the model `registered` uses for sets -/
theorem registered_is_sorted_iteration (perm : Nat → List String → List String)
    (hperm : ∀ seed l, (perm seed l).Perm l) (l : List String) (seed : Nat) :
    registered Gen.Repro.setsIteratedSorted perm (.hashset l) seed = sortStrings (perm seed l) := by
  have h : Gen.Repro.setsIteratedSorted = true := by decide
  simp only [registered, h, if_true]
  exact sortStrings_eq_of_perm (hperm seed l).symm

/-- Same sampled indices ⇒ same operators, under every pair of hash seeds, for the default
container and for every user-supplied set. -/
theorem sampled_operators_deterministic (perm : Nat → List String → List String)
    (l : List String) (seed1 seed2 : Nat) (ks : List Nat) :
    ks.map (drawSample (registered Gen.Repro.setsIteratedSorted perm defaultContainer seed1)) =
      ks.map (drawSample (registered Gen.Repro.setsIteratedSorted perm defaultContainer seed2)) ∧
    ks.map (drawSample (registered Gen.Repro.setsIteratedSorted perm (.hashset l) seed1)) =
      ks.map (drawSample (registered Gen.Repro.setsIteratedSorted perm (.hashset l) seed2)) := by
  rw [registration_deterministic perm seed1 seed2, user_set_deterministic perm l seed1 seed2]
  exact ⟨rfl, rfl⟩

example : sortStrings ["sin", "+", "*", "cos"] = sortStrings ["cos", "*", "sin", "+"] :=
  sortStrings_eq_of_perm (by decide)

end Bingo.C17
