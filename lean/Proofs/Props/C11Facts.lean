import Model.Generated.SourceFacts
/-!
# C11 -- the texts the migration models mirror (`Migration.exchange`, `ParArch.partner`, `ParArch.xstep`), regenerated from the source
-/
namespace Bingo
namespace C11Facts
open Gen.SourceFacts

/-- the partner of a rank is the neighbour of ITS POSITION in the broadcast order (even position: the next entry, none at the end; odd: the previous); only a rank with a partner dumps emigrants, exchanges them with `sendrecv` and resets its fitness flags -/
theorem gen_parallel_migration :
    parMigrationPartner = "if self.comm_rank == 0:     island_partners = self._shuffle_island_indices() else:     island_partners = None ; island_partners = self.comm.bcast(island_partners, root=0) ; island_index = island_partners.index(self.comm_rank) ; if island_index % 2 == 0:     partner_index = island_index + 1     if partner_index < self.comm_size:         partner = island_partners[partner_index]     else:         partner = None     LOGGER.debug('    %d <-> %s', self.comm_rank, str(partner)) else:     partner_index = island_index - 1     partner = island_partners[partner_index] ; return partner" ∧
    parExchangeProgram = "population_to_send = self.island.dump_fraction_of_population(0.5) ; received_population = self.comm.sendrecv(population_to_send, dest=partner, sendtag=MIGRATION, source=partner, recvtag=MIGRATION) ; self.island.population += received_population" ∧
    parCoordinateMigration = "if self.comm_rank == 0:     LOGGER.log(DETAILED_INFO, 'Performing migration between Islands') ; partner = self._get_migration_partner() ; if partner is not None:     self._population_exchange_program(partner)     self.island.reset_fitness()" :=
  ⟨rfl, rfl, rfl⟩

/-- the serial exchange: both islands dump their emigrants, then each receives ALL emigrants of the other -/
theorem gen_serial_exchange :
    serialExchangeProgram = "indvs_to_2 = island_1.dump_fraction_of_population(0.5) ; indvs_to_1 = island_2.dump_fraction_of_population(0.5) ; island_1.population += indvs_to_1 ; island_2.population += indvs_to_2" :=
  rfl

end C11Facts
end Bingo
