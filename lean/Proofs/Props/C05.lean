import Proofs.Lemmas.PipelineSem
import Proofs.Lemmas.PipelineHistory
import Proofs.Lemmas.PipelineExamples
import Model.Generated.Phases
/-!
# C05: a stored fitness is never stale, and fitness is only read from evaluated individuals

Only the property theorems and their non-vacuity examples live here; the semantics
(`CStep`, `ReadsOK`, `Abs`, `CRun`, `SafeFrom`, `History`, `Reach`, `HSafe`) and the proofs are in
`Proofs/Lemmas/{EvalPhase,PipelineSem,PipelineHistory,PipelineExamples}.lean` (core Lean only).

`f : Nat → Key` is an arbitrary deterministic fitness function.  Every oracle choice of the
concrete semantics (children produced by variation, shuffles, the members selection picks,
evaluation cost and redundancy) is universally quantified.

A concrete state has three containers: the population, the offspring and the list returned by
the selection (`next`, a fresh local of `generational_step`); the step returns `next`, and the
island assigns it to `self.population`.  `muCommaLambda` is accepted from an evaluated entry
population only (known finding).
-/
namespace Bingo.C05
open Bingo.Pipeline Bingo.PipelineSem Bingo.EvalPhase

/-! ## 3. the facts read from the Python source -/

theorem generated_steps_safe :
    accepts .fr Gen.Phases.evolutionaryAlgorithm = true ∧
    accepts .fr Gen.Phases.muPlusLambda = true ∧
    accepts .fr Gen.Phases.generalizedCrowding = true ∧
    Gen.Phases.ageFitnessInheritsMuPlusLambda = true ∧
    Gen.Phases.problems = [] :=
  ⟨by decide, by decide, by decide, by decide, by decide⟩

theorem mu_comma_lambda_safe_if_evaluated : accepts .ev Gen.Phases.muCommaLambda = true := by decide

/-- the shapes of the short methods the model relies on -/
theorem generated_shapes :
    Gen.Phases.serialEval =
      "for indv in population:     if self._redundant or not indv.fit_set:         indv.fitness = self.fitness_function(indv)" ∧
    Gen.Phases.islandStep =
      "self.generational_age += 1 ; self.population = self._ea.generational_step(self.population) ; for indv in self.population:     indv.genetic_age += 1" ∧
    Gen.Phases.islandHofMembers = "self._evaluate_population_if_needed() ; return self.population" ∧
    Gen.Phases.islandEvaluateIfNeeded =
      "if not all((indv.fit_set for indv in self.population)):     self.evaluate_population()" ∧
    Gen.Phases.islandEvaluate = "self._ea.evaluation(self.population)" ∧
    Gen.Phases.islandResetFitness =
      "if population is None:     population = self.population ; for indv in population:     indv.fit_set = False" ∧
    Gen.Phases.varOrAppend = "child.fit_set = False ; offspring.append(child)" ∧
    Gen.Phases.updateHallOfFame =
      "if self.hall_of_fame is not None:     self.hall_of_fame.update(self._get_potential_hof_members())     LOGGER.debug('Hall of fame updated')" ∧
    Gen.Phases.optimizerEvolve =
      "if not self._logged_headers:     self._log_all_headers() ; start_time = datetime.now() ; self._do_evolution(num_generations) ; if hall_of_fame_update:     self.update_hall_of_fame() ; if not suppress_logging:     self._log_evolution(start_time)" :=
  ⟨rfl, rfl, rfl, rfl, rfl, rfl, rfl, rfl, rfl⟩

/-! ## 2. the abstract interpreter is sound for the concrete semantics -/

theorem abstract_sound (f : Nat → Key) (a a' : AState) (p : Phase) (s : CState)
    (habs : Abs f a s) (hstep : absStep a p = some a') :
    ReadsOK f p s ∧ ∀ s', CStep f p s s' → Abs f a' s' :=
  PipelineSem.abstract_sound habs hstep

/-- lifted to phase lists: whatever prefix of `ps` has been executed concretely, the reads of the
next phase are safe; and every final state satisfies the final abstract state -/
theorem abstract_sound_run (f : Nat → Key) (ps : List Phase) (a a' : AState) (s : CState)
    (habs : Abs f a s) (hrun : absRun ps a = some a') :
    (∀ pre p post s1, ps = pre ++ p :: post → CRun f pre s s1 → ReadsOK f p s1) ∧
    ∀ s', CRun f ps s s' → Abs f a' s' :=
  have h := PipelineSem.abstract_sound_run habs hrun
  ⟨(safeFrom_iff f ps s).mp h.1, h.2⟩

/-! ## 4. generational steps end to end, and histories -/

/-- any accepted phase list, any fresh entry population, any concrete execution: every read is of
evaluated individuals and the step returns a list of evaluated individuals -/
theorem step_end_to_end (f : Nat → Key) (ps : List Phase) (pop : List Indiv)
    (hacc : accepts .fr ps = true) (hpop : ∀ i ∈ pop, Fresh f i) :
    (∀ pre p post s1, ps = pre ++ p :: post → CRun f pre ⟨pop, none, none⟩ s1 → ReadsOK f p s1) ∧
    ∀ s', CRun f ps ⟨pop, none, none⟩ s' → ∃ n, s'.next = some n ∧ ∀ i ∈ n, Evaluated f i :=
  have h := step_sound (entry := .fr) hacc hpop
  ⟨(safeFrom_iff f ps _).mp h.1, h.2⟩

/-- the same for a phase list accepted from an evaluated entry population (`MuCommaLambda`) -/
theorem step_end_to_end_evaluated (f : Nat → Key) (ps : List Phase) (pop : List Indiv)
    (hacc : accepts .ev ps = true) (hpop : ∀ i ∈ pop, Evaluated f i) :
    (∀ pre p post s1, ps = pre ++ p :: post → CRun f pre ⟨pop, none, none⟩ s1 → ReadsOK f p s1) ∧
    ∀ s', CRun f ps ⟨pop, none, none⟩ s' → ∃ n, s'.next = some n ∧ ∀ i ∈ n, Evaluated f i :=
  have h := step_sound (entry := .ev) hacc hpop
  ⟨(safeFrom_iff f ps _).mp h.1, h.2⟩

/-- every history of the language `History`, started on a fresh population: every fitness read
along every concrete execution is safe (`HSafe`), and at every boundary reached the population is
fresh -- evaluated when the history ends in a step or a read -/
theorem histories (f : Nat → Key) (a : AVal) (h : History a) (p0 : List Indiv)
    (h0 : ∀ i ∈ p0, Fresh f i) :
    HSafe f h p0 ∧
    ∀ p, Reach f h p0 p → (∀ i ∈ p, Fresh f i) ∧ (a = .ev → ∀ i ∈ p, Evaluated f i) := by
  obtain ⟨hs, hr⟩ := history_sound h h0
  refine ⟨hs, fun p hp => ⟨(hr p hp).some_fresh, ?_⟩⟩
  rintro rfl
  exact hr p hp

/-- what `HSafe` says, event by event -/
theorem histories_reads (f : Nat → Key) (p0 : List Indiv) :
    (∀ (a : AVal) (h : History a) ps acc,
      HSafe f (.step h ps acc) p0 ↔ HSafe f h p0 ∧ ∀ q, Reach f h p0 q → SafeFrom f ps ⟨q, none, none⟩) ∧
    (∀ (h : History .ev) ps acc,
      HSafe f (.stepEv h ps acc) p0 ↔ HSafe f h p0 ∧ ∀ q, Reach f h p0 q → SafeFrom f ps ⟨q, none, none⟩) ∧
    (∀ (h : History .ev),
      HSafe f (.read h) p0 ↔ HSafe f h p0 ∧ ∀ q, Reach f h p0 q → ∀ i ∈ q, Evaluated f i) ∧
    (∀ (a : AVal) (h : History a), HSafe f (.reset h) p0 ↔ HSafe f h p0) ∧
    (∀ (a : AVal) (h : History a), HSafe f (.migrate h) p0 ↔ HSafe f h p0) ∧
    (∀ (a : AVal) (h : History a),
      HSafe f (.hofUpdate h) p0 ↔ HSafe f h p0 ∧
        ∀ q cost redundant, Reach f h p0 q → ∀ i ∈ evalIfNeeded f cost redundant q, Evaluated f i) :=
  ⟨fun _ _ _ _ => Iff.rfl, fun _ _ _ => Iff.rfl, fun _ => Iff.rfl, fun _ _ => Iff.rfl,
    fun _ _ => Iff.rfl,
    fun _ _ => ⟨fun h => ⟨h.1, fun q cost red hq => h.2 _ ⟨q, cost, red, hq, rfl⟩⟩,
      fun h => ⟨h.1, by rintro p ⟨q, cost, red, hq, rfl⟩; exact h.2 q cost red hq⟩⟩⟩

/-- a hall-of-fame update is safe ANYWHERE in a history (on a brand-new island, right after a migration, after a call
that evolved no generation): the population is evaluated first unless every member is already marked evaluated -/
theorem hof_update_anywhere (f : Nat → Key) (a : AVal) (h : History a) (p0 : List Indiv)
    (h0 : ∀ i ∈ p0, Fresh f i) :
    HSafe f (.hofUpdate h) p0 ∧ ∀ p, Reach f (.hofUpdate h) p0 p → ∀ i ∈ p, Evaluated f i :=
  history_sound (.hofUpdate h) h0

/-- non-vacuity: on a brand-new (unevaluated) population the update evaluates everybody before reading -/
example : HSafe Ex.f (.hofUpdate .start) Ex.pop ∧
    evalIfNeeded Ex.f (fun _ => 1) false Ex.pop = (serialEval Ex.f (fun _ => 1) false Ex.pop).1 :=
  ⟨(hof_update_anywhere Ex.f .fr .start Ex.pop (by decide)).1, by decide⟩

/-! ## 5. the operations preserve freshness -/

theorem ops_preserve_fresh (f : Nat → Key) :
    -- redundant evaluation: everything evaluated, whatever the input
    (∀ cost l, ∀ o ∈ (serialEval f cost true l).1, Evaluated f o) ∧
    -- evaluation of a fresh list: everything evaluated
    (∀ cost redundant l, (∀ i ∈ l, Fresh f i) →
      ∀ o ∈ (serialEval f cost redundant l).1, Evaluated f o) ∧
    -- slot by slot, any input: touched slots are evaluated, the others unchanged, freshness kept
    (∀ cost redundant (l : List Indiv) (k : Nat) i, l[k]? = some i →
      ∃ o, (serialEval f cost redundant l).1[k]? = some o ∧
        (redundant = true ∨ i.flag = false → Evaluated f o) ∧
        (¬(redundant = true ∨ i.flag = false) → o = i) ∧
        (Fresh f i → Fresh f o)) ∧
    -- `reset_fitness`
    (∀ l, ∀ i ∈ clearFlags l, i.flag = false ∧ Fresh f i) ∧
    -- a value copy (same genome, value and flag; the age may differ)
    (∀ i j : Indiv, Fresh f i → j.genome = i.genome → j.fit = i.fit → j.flag = i.flag → Fresh f j) := by
  refine ⟨fun cost l => serialEval_redundant_evaluated f cost l,
    fun cost red l hl => serialEval_all_evaluated cost red hl, ?_, ?_, ?_⟩
  · intro cost red l k i hget
    refine ⟨_, by rw [serialEval_getElem?, hget]; rfl, ?_⟩
    by_cases ht : touched red i = true
    · simp only [ht, if_true]
      exact ⟨fun _ => evalOne_evaluated f i,
        fun h => absurd (by simpa [touched] using ht) h,
        fun _ => evaluated_fresh (evalOne_evaluated f i)⟩
    · simp only [ht]
      exact ⟨fun h => absurd (by simpa [touched] using h) ht, fun _ => rfl, id⟩
  · intro l i hi
    refine ⟨?_, allFresh_clearFlags f l i hi⟩
    simp only [clearFlags, Migration.resetFitness, List.mem_map] at hi
    obtain ⟨j, _, rfl⟩ := hi
    rfl
  · intro i j hi hg hv hfl hj
    rw [hv, hg]
    exact hi (hfl ▸ hj)

/-! ## 6. non-vacuity -/

/-- the entry population is fresh but not evaluated: genome 3 carries a stale value -/
example : AllFresh Ex.f Ex.pop ∧ ¬ AllEv Ex.f Ex.pop ∧
    Ex.pop[0]? = some ⟨3, some (some 99), false, 4⟩ ∧ Ex.f 3 = some 9 ∧
    Ex.pop[1]? = some ⟨5, some (Ex.f 5), true, 2⟩ := by decide

/-- a concrete execution of `MuPlusLambda.generational_step` on it -/
example : CRun Ex.f Gen.Phases.muPlusLambda ⟨Ex.pop, none, none⟩ ⟨Ex.popEv, some Ex.kidsEv, some Ex.sel⟩ :=
  Ex.run

/-- the theorem applies to it, and its conclusion is what direct computation gives -/
example : ∃ n, some Ex.sel = some n ∧ ∀ i ∈ n, Evaluated Ex.f i :=
  (step_end_to_end Ex.f Gen.Phases.muPlusLambda Ex.pop generated_steps_safe.2.1 (by decide)).2 _ Ex.run
example : AllEv Ex.f Ex.sel ∧ (⟨3, some (some 9), true, 4⟩ : Indiv) ∈ Ex.sel := by decide

/-- the reads are not vacuous: at the `diagnostics` phase of that run both containers exist -/
example : ReadsOK Ex.f .diagnostics ⟨Ex.popEv, some Ex.kidsEv, none⟩ :=
  ⟨by decide, Ex.kidsEv, rfl, by decide⟩

/-- a read of the unevaluated entry population is NOT safe, so `ReadsOK` can fail -/
example : ¬ ReadsOK Ex.f .readPop ⟨Ex.pop, none, none⟩ := by
  show ¬ AllEv Ex.f Ex.pop
  decide

/-- the abstract interpreter rejects a step that reads before evaluating -/
example : accepts .fr [.variation, .evalOff, .diagnostics, .select .popPlusOff] = false := by decide

/-- the history language is inhabited: two generations (the second by an algorithm that needs an
evaluated entry population), a hall-of-fame update, a migration, another generation, a query -/
example : HSafe Ex.f Ex.history Ex.pop :=
  (histories Ex.f .ev Ex.history Ex.pop (by decide)).1

end Bingo.C05
