import Proofs.Props.C07
/-!
# C07, end to end for `ExplicitRegression` in both residual modes

`C07.gradient_correct_*` are stated for an abstract residual family `ρ i θ` with partials `J i`;
`C07.jacobian_assembly_vec` says which family and which Jacobian the two `return`s of
`Gen.Metrics.explicitJacobian` produce.  The theorems below compose the two, so that the statement
is about what `get_fitness_and_gradient` returns for an equation `f i θ` (value at data row `i`
with the constant under consideration equal to `θ`) whose partials are `F i` (this is what
`evaluate_equation_with_local_opt_gradient_at` returns, C02):

* absolute mode (`relative = False`): residual `f i θ - y i`,       Jacobian column `F i`;
* relative mode (`relative = True`):  residual `(f i θ - y i) / y i`, Jacobian column `F i / y i`.

The second half is the "an equation reproducing the data has the minimal fitness" clause stated on
the equation's values rather than on a residual vector: if `f i = y i` on every row the MAE, MSE
and RMSE fitness is `0` in both modes, `0` is a lower bound for every other equation, and in the
absolute mode (and in the relative mode when no `y i` is `0`) fitness `0` is reached only by
equations that reproduce the data.
-/
namespace Bingo
namespace C07
open Bingo.Metrics

/-- the residual vector of the absolute mode (`np.squeeze(error)`) -/
noncomputable def absRes (M : ℕ) (f : ℕ → ℝ) (y : ℕ → ℝ) : List ℝ :=
  (List.range M).map (fun i => f i - y i)

/-- the residual vector of the relative mode (`np.squeeze(error / self.training_data.y)`) -/
noncomputable def relRes (M : ℕ) (f : ℕ → ℝ) (y : ℕ → ℝ) : List ℝ :=
  (List.range M).map (fun i => (f i - y i) / y i)

/-- the Jacobian column handed to `_metric_derivative` in the relative mode (`df_dc / y`) -/
noncomputable def relJac (M : ℕ) (F : ℕ → ℝ) (y : ℕ → ℝ) : List ℝ :=
  (List.range M).map (fun i => F i / y i)

/-! ## 1. fitness gradient = derivative of the fitness, absolute and relative mode -/

/-- MSE, both modes, no side condition. -/
theorem explicit_gradient_mse (M L : ℕ) (f : ℕ → ℝ → ℝ) (F y : ℕ → ℝ) (θ₀ : ℝ)
    (hf : ∀ i < M, HasDerivAt (f i) (F i) θ₀) :
    (∃ g, VFun.eval Gen.Metrics.dmse (absRes M (fun i => f i θ₀) y) ((List.range M).map F) L
          Real.pi = some g ∧
        HasDerivAt (fun θ => (VFun.eval Gen.Metrics.mse (absRes M (fun i => f i θ) y) [] L
          Real.pi).getD 0) g θ₀) ∧
    (∃ g, VFun.eval Gen.Metrics.dmse (relRes M (fun i => f i θ₀) y) (relJac M F y) L
          Real.pi = some g ∧
        HasDerivAt (fun θ => (VFun.eval Gen.Metrics.mse (relRes M (fun i => f i θ) y) [] L
          Real.pi).getD 0) g θ₀) := by
  obtain ⟨ha, hr⟩ := jacobian_assembly_vec M f F y θ₀ hf
  obtain ⟨g₁, e₁, d₁, _⟩ := gradient_correct_mse M L (fun i θ => f i θ - y i) F θ₀ ha
  obtain ⟨g₂, e₂, d₂, _⟩ :=
    gradient_correct_mse M L (fun i θ => (f i θ - y i) / y i) (fun i => F i / y i) θ₀ hr
  exact ⟨⟨g₁, e₁, d₁⟩, ⟨g₂, e₂, d₂⟩⟩

/-- RMSE, both modes, where the mean squared residual of that mode is positive. -/
theorem explicit_gradient_rmse (M L : ℕ) (f : ℕ → ℝ → ℝ) (F y : ℕ → ℝ) (θ₀ : ℝ)
    (hf : ∀ i < M, HasDerivAt (f i) (F i) θ₀) :
    (0 < mseV (absRes M (fun i => f i θ₀) y) →
      ∃ g, VFun.eval Gen.Metrics.drmse (absRes M (fun i => f i θ₀) y) ((List.range M).map F) L
          Real.pi = some g ∧
        HasDerivAt (fun θ => (VFun.eval Gen.Metrics.rmse (absRes M (fun i => f i θ) y) [] L
          Real.pi).getD 0) g θ₀) ∧
    (0 < mseV (relRes M (fun i => f i θ₀) y) →
      ∃ g, VFun.eval Gen.Metrics.drmse (relRes M (fun i => f i θ₀) y) (relJac M F y) L
          Real.pi = some g ∧
        HasDerivAt (fun θ => (VFun.eval Gen.Metrics.rmse (relRes M (fun i => f i θ) y) [] L
          Real.pi).getD 0) g θ₀) := by
  obtain ⟨ha, hr⟩ := jacobian_assembly_vec M f F y θ₀ hf
  refine ⟨fun hpos => ?_, fun hpos => ?_⟩
  · obtain ⟨g, e, d, _⟩ := gradient_correct_rmse M L (fun i θ => f i θ - y i) F θ₀ ha hpos
    exact ⟨g, e, d⟩
  · obtain ⟨g, e, d, _⟩ :=
      gradient_correct_rmse M L (fun i θ => (f i θ - y i) / y i) (fun i => F i / y i) θ₀ hr hpos
    exact ⟨g, e, d⟩

/-- MAE, both modes, where no residual component of that mode vanishes. -/
theorem explicit_gradient_mae (M L : ℕ) (f : ℕ → ℝ → ℝ) (F y : ℕ → ℝ) (θ₀ : ℝ)
    (hf : ∀ i < M, HasDerivAt (f i) (F i) θ₀) :
    ((∀ i < M, f i θ₀ - y i ≠ 0) →
      ∃ g, VFun.eval Gen.Metrics.dmae (absRes M (fun i => f i θ₀) y) ((List.range M).map F) L
          Real.pi = some g ∧
        HasDerivAt (fun θ => (VFun.eval Gen.Metrics.mae (absRes M (fun i => f i θ) y) [] L
          Real.pi).getD 0) g θ₀) ∧
    ((∀ i < M, (f i θ₀ - y i) / y i ≠ 0) →
      ∃ g, VFun.eval Gen.Metrics.dmae (relRes M (fun i => f i θ₀) y) (relJac M F y) L
          Real.pi = some g ∧
        HasDerivAt (fun θ => (VFun.eval Gen.Metrics.mae (relRes M (fun i => f i θ) y) [] L
          Real.pi).getD 0) g θ₀) := by
  obtain ⟨ha, hr⟩ := jacobian_assembly_vec M f F y θ₀ hf
  refine ⟨fun h0 => ?_, fun h0 => ?_⟩
  · obtain ⟨g, e, d, _⟩ := gradient_correct_mae M L (fun i θ => f i θ - y i) F θ₀ ha h0
    exact ⟨g, e, d⟩
  · obtain ⟨g, e, d, _⟩ :=
      gradient_correct_mae M L (fun i θ => (f i θ - y i) / y i) (fun i => F i / y i) θ₀ hr h0
    exact ⟨g, e, d⟩

/-- NMLL, both modes, where the mean squared residual of that mode is positive. -/
theorem explicit_gradient_nmll (M L : ℕ) (f : ℕ → ℝ → ℝ) (F y : ℕ → ℝ) (θ₀ : ℝ)
    (hf : ∀ i < M, HasDerivAt (f i) (F i) θ₀) :
    (0 < mseV (absRes M (fun i => f i θ₀) y) →
      ∃ g, VFun.eval Gen.Metrics.dnmll (absRes M (fun i => f i θ₀) y) ((List.range M).map F) L
          Real.pi = some g ∧
        HasDerivAt (fun θ => (VFun.eval Gen.Metrics.nmll (absRes M (fun i => f i θ) y) [] L
          Real.pi).getD 0) g θ₀) ∧
    (0 < mseV (relRes M (fun i => f i θ₀) y) →
      ∃ g, VFun.eval Gen.Metrics.dnmll (relRes M (fun i => f i θ₀) y) (relJac M F y) L
          Real.pi = some g ∧
        HasDerivAt (fun θ => (VFun.eval Gen.Metrics.nmll (relRes M (fun i => f i θ) y) [] L
          Real.pi).getD 0) g θ₀) := by
  obtain ⟨ha, hr⟩ := jacobian_assembly_vec M f F y θ₀ hf
  refine ⟨fun hpos => ?_, fun hpos => ?_⟩
  · obtain ⟨g, e, d, _⟩ := gradient_correct_nmll M L (fun i θ => f i θ - y i) F θ₀ ha hpos
    exact ⟨g, e, d⟩
  · obtain ⟨g, e, d, _⟩ :=
      gradient_correct_nmll M L (fun i θ => (f i θ - y i) / y i) (fun i => F i / y i) θ₀ hr hpos
    exact ⟨g, e, d⟩

/-! ## 2. an equation reproducing the data has the minimal fitness -/

lemma absRes_ne_nil {M : ℕ} (hM : 1 ≤ M) (f y : ℕ → ℝ) : absRes M f y ≠ [] := by
  intro h
  have := congrArg List.length h
  simp [absRes] at this
  omega

lemma relRes_ne_nil {M : ℕ} (hM : 1 ≤ M) (f y : ℕ → ℝ) : relRes M f y ≠ [] := by
  intro h
  have := congrArg List.length h
  simp [relRes] at this
  omega

lemma absRes_zero_iff (M : ℕ) (f y : ℕ → ℝ) :
    (∀ x ∈ absRes M f y, x = 0) ↔ ∀ i < M, f i = y i := by
  simp only [absRes, List.mem_map, List.mem_range, forall_exists_index, and_imp,
    forall_apply_eq_imp_iff₂, sub_eq_zero]

lemma relRes_zero_of_eq (M : ℕ) (f y : ℕ → ℝ) (h : ∀ i < M, f i = y i) :
    ∀ x ∈ relRes M f y, x = 0 := by
  simp only [relRes, List.mem_map, List.mem_range, forall_exists_index, and_imp,
    forall_apply_eq_imp_iff₂]
  intro i hi
  rw [h i hi, sub_self, zero_div]

lemma relRes_zero_iff (M : ℕ) (f y : ℕ → ℝ) (hy : ∀ i < M, y i ≠ 0) :
    (∀ x ∈ relRes M f y, x = 0) ↔ ∀ i < M, f i = y i := by
  simp only [relRes, List.mem_map, List.mem_range, forall_exists_index, and_imp,
    forall_apply_eq_imp_iff₂]
  constructor
  · intro h i hi
    have := h i hi
    rw [div_eq_zero_iff] at this
    rcases this with h0 | h0
    · exact sub_eq_zero.1 h0
    · exact absurd h0 (hy i hi)
  · intro h i hi
    rw [h i hi, sub_self, zero_div]

/-- Absolute mode, `M ≥ 1` data rows: the MAE / MSE / RMSE fitness of any equation is `≥ 0`, and it
is `0` exactly when the equation reproduces the data (`f i = y i` on every row). -/
theorem reproducing_minimal_abs (M L : ℕ) (hM : 1 ≤ M) (f y : ℕ → ℝ) :
    (∃ v, VFun.eval Gen.Metrics.mae (absRes M f y) [] L Real.pi = some v ∧ 0 ≤ v ∧
      (v = 0 ↔ ∀ i < M, f i = y i)) ∧
    (∃ v, VFun.eval Gen.Metrics.mse (absRes M f y) [] L Real.pi = some v ∧ 0 ≤ v ∧
      (v = 0 ↔ ∀ i < M, f i = y i)) ∧
    (∃ v, VFun.eval Gen.Metrics.rmse (absRes M f y) [] L Real.pi = some v ∧ 0 ≤ v ∧
      (v = 0 ↔ ∀ i < M, f i = y i)) := by
  obtain ⟨⟨a, ha, ha0, haz⟩, ⟨b, hb, hb0, hbz⟩, ⟨c, hc, hc0, hcz⟩⟩ :=
    minimal_at_zero (absRes M f y) (absRes_ne_nil hM f y) L
  exact ⟨⟨a, ha, ha0, haz.trans (absRes_zero_iff M f y)⟩,
    ⟨b, hb, hb0, hbz.trans (absRes_zero_iff M f y)⟩,
    ⟨c, hc, hc0, hcz.trans (absRes_zero_iff M f y)⟩⟩

/-- Relative mode, `M ≥ 1` data rows: the fitness is `≥ 0`; an equation reproducing the data has
fitness `0` (for every `y`, by `0 / y = 0` also in numpy unless `y i = 0`, where numpy yields `nan`
and the statement is about Mathlib's `0 / 0 = 0`); and when no `y i` is `0`, fitness `0` is reached
only by equations reproducing the data. -/
theorem reproducing_minimal_rel (M L : ℕ) (hM : 1 ≤ M) (f y : ℕ → ℝ) :
    (∃ v, VFun.eval Gen.Metrics.mae (relRes M f y) [] L Real.pi = some v ∧ 0 ≤ v ∧
      ((∀ i < M, f i = y i) → v = 0) ∧
      ((∀ i < M, y i ≠ 0) → (v = 0 ↔ ∀ i < M, f i = y i))) ∧
    (∃ v, VFun.eval Gen.Metrics.mse (relRes M f y) [] L Real.pi = some v ∧ 0 ≤ v ∧
      ((∀ i < M, f i = y i) → v = 0) ∧
      ((∀ i < M, y i ≠ 0) → (v = 0 ↔ ∀ i < M, f i = y i))) ∧
    (∃ v, VFun.eval Gen.Metrics.rmse (relRes M f y) [] L Real.pi = some v ∧ 0 ≤ v ∧
      ((∀ i < M, f i = y i) → v = 0) ∧
      ((∀ i < M, y i ≠ 0) → (v = 0 ↔ ∀ i < M, f i = y i))) := by
  obtain ⟨⟨a, ha, ha0, haz⟩, ⟨b, hb, hb0, hbz⟩, ⟨c, hc, hc0, hcz⟩⟩ :=
    minimal_at_zero (relRes M f y) (relRes_ne_nil hM f y) L
  exact ⟨⟨a, ha, ha0, fun h => haz.2 (relRes_zero_of_eq M f y h),
      fun hy => haz.trans (relRes_zero_iff M f y hy)⟩,
    ⟨b, hb, hb0, fun h => hbz.2 (relRes_zero_of_eq M f y h),
      fun hy => hbz.trans (relRes_zero_iff M f y hy)⟩,
    ⟨c, hc, hc0, fun h => hcz.2 (relRes_zero_of_eq M f y h),
      fun hy => hcz.trans (relRes_zero_iff M f y hy)⟩⟩

/-- Consequently no equation has a smaller MAE / MSE / RMSE fitness than one reproducing the data,
in either mode: with `f⋆ i = y i`, `fitness f⋆ ≤ fitness f` for every `f`. -/
theorem reproducing_le_any (M L : ℕ) (hM : 1 ≤ M) (fstar f y : ℕ → ℝ)
    (hstar : ∀ i < M, fstar i = y i) :
    (VFun.eval Gen.Metrics.mae (absRes M fstar y) [] L Real.pi).getD 0 ≤
      (VFun.eval Gen.Metrics.mae (absRes M f y) [] L Real.pi).getD 0 ∧
    (VFun.eval Gen.Metrics.mse (absRes M fstar y) [] L Real.pi).getD 0 ≤
      (VFun.eval Gen.Metrics.mse (absRes M f y) [] L Real.pi).getD 0 ∧
    (VFun.eval Gen.Metrics.rmse (absRes M fstar y) [] L Real.pi).getD 0 ≤
      (VFun.eval Gen.Metrics.rmse (absRes M f y) [] L Real.pi).getD 0 ∧
    (VFun.eval Gen.Metrics.mae (relRes M fstar y) [] L Real.pi).getD 0 ≤
      (VFun.eval Gen.Metrics.mae (relRes M f y) [] L Real.pi).getD 0 ∧
    (VFun.eval Gen.Metrics.mse (relRes M fstar y) [] L Real.pi).getD 0 ≤
      (VFun.eval Gen.Metrics.mse (relRes M f y) [] L Real.pi).getD 0 ∧
    (VFun.eval Gen.Metrics.rmse (relRes M fstar y) [] L Real.pi).getD 0 ≤
      (VFun.eval Gen.Metrics.rmse (relRes M f y) [] L Real.pi).getD 0 := by
  obtain ⟨⟨a, ha, _, haz⟩, ⟨b, hb, _, hbz⟩, ⟨c, hc, _, hcz⟩⟩ :=
    reproducing_minimal_abs M L hM fstar y
  obtain ⟨⟨a', ha', ha0', _⟩, ⟨b', hb', hb0', _⟩, ⟨c', hc', hc0', _⟩⟩ :=
    reproducing_minimal_abs M L hM f y
  obtain ⟨⟨p, hp, _, hpz, _⟩, ⟨q, hq, _, hqz, _⟩, ⟨s, hs, _, hsz, _⟩⟩ :=
    reproducing_minimal_rel M L hM fstar y
  obtain ⟨⟨p', hp', hp0', _⟩, ⟨q', hq', hq0', _⟩, ⟨s', hs', hs0', _⟩⟩ :=
    reproducing_minimal_rel M L hM f y
  rw [ha, hb, hc, ha', hb', hc', hp, hq, hs, hp', hq', hs']
  simp only [Option.getD_some]
  rw [haz.2 hstar, hbz.2 hstar, hcz.2 hstar, hpz hstar, hqz hstar, hsz hstar]
  exact ⟨ha0', hb0', hc0', hp0', hq0', hs0'⟩

/-! ## 3. non-vacuity -/

/-- `f i θ = θ * (i + 1)`, `y = [2, 4, 6]`, at `θ₀ = 1` (residual `[-1, -2, -3]`, all non-zero):
the hypotheses of every theorem of section 1 hold, including both positivity side conditions. -/
example :
    (∀ i : ℕ, i < 3 → HasDerivAt (fun θ : ℝ => θ * ((i : ℝ) + 1)) ((i : ℝ) + 1) 1) ∧
    (∀ i : ℕ, i < 3 → (1 : ℝ) * ((i : ℝ) + 1) - 2 * ((i : ℝ) + 1) ≠ 0) ∧
    0 < mseV (absRes 3 (fun i => (1 : ℝ) * ((i : ℝ) + 1)) (fun i => 2 * ((i : ℝ) + 1))) := by
  refine ⟨fun i _ => ?_, fun i _ => ?_, ?_⟩
  · simpa using (hasDerivAt_id (1 : ℝ)).mul_const ((i : ℝ) + 1)
  · have : (0 : ℝ) ≤ (i : ℝ) := Nat.cast_nonneg i
    intro h; nlinarith
  · rw [mseV_pos_iff (absRes_ne_nil (by norm_num) _ _)]
    exact ⟨-1, by simp [absRes, List.range_succ]; norm_num, by norm_num⟩

/-- and the data `y = [2, 4, 6]` are reproduced by `f i = 2 (i + 1)`: fitness exactly `0`. -/
example (L : ℕ) :
    VFun.eval Gen.Metrics.mse
      (absRes 3 (fun i => 2 * ((i : ℝ) + 1)) (fun i => 2 * ((i : ℝ) + 1))) [] L Real.pi = some 0 := by
  obtain ⟨_, ⟨v, hv, _, hz⟩, _⟩ := reproducing_minimal_abs 3 L (by norm_num)
    (fun i => 2 * ((i : ℝ) + 1)) (fun i => 2 * ((i : ℝ) + 1))
  rw [hv, hz.2 (fun _ _ => rfl)]

end C07
end Bingo
