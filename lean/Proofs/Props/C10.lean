import Model.HallOfFame
import Proofs.Lemmas.Bisect
import Proofs.Lemmas.HallOfFame
import Proofs.Lemmas.HofInv
import Proofs.Lemmas.Pareto
/-!
# C10 -- hall of fame and Pareto front

"After any sequence of updates, a bounded hall of fame without a similarity filter holds the
smallest keys ever offered (as a multiset, up to its capacity), in ascending order with earlier
arrivals first among equals, never holds a NaN key.  A Pareto front holds exactly the individuals
whose key pair is not dominated by any key pair ever offered, no two members dominate each other,
and with a similarity filter no two members are similar."

`offered` is the concatenation of all populations passed to `update` so far (`update_seq`,
`pf_update_seq`: a sequence of `update` calls is one `update` call with the concatenation).

Two corners where the informal sentence needs care (both documented by `example`s below):
* `pf_exact`: `_first_dominates(o, x)` is `True` when `o` has a NaN key (NaN is never `>` and
  always `!=`), but such an `o` never enters the front, so "not dominated by any offered item" must
  range over offered items with a non-NaN key pair.
* `exact` is about the *keys*.  On a tie with the last (worst) member of a full hall of fame the
  later arrival replaces the earlier one (`<=` in `_item_should_be_added`), so the *individuals*
  kept are not always the earliest ones with those keys.
-/
namespace Bingo
namespace C10
open HOF

/-! ## 1. `bisect_right` / `insert` -/

theorem bisectRight_spec (a : List Key) (x : Key) (hx : x.isNan = false)
    (hs : a.Pairwise (fun p q => Key.le p q = true)) (hnn : ∀ k ∈ a, k.isNan = false) :
    bisectRight a x = (a.filter (fun k => Key.le k x)).length :=
  bisectRight_eq_count a x hx hs hnn

/-- `insert` places the item after all keys `≤` its key (so after all equal keys), before all
greater keys, and the keys stay sorted. -/
theorem insert_spec (h : List Item) (it : Item) (hit : it.key.isNan = false)
    (hnn : ∀ a ∈ h, a.key.isNan = false)
    (hs : (h.map (·.key)).Pairwise (fun p q => Key.le p q = true)) :
    insert h it = h.filter (fun a => Key.le a.key it.key) ++
        it :: h.filter (fun a => Key.lt it.key a.key) ∧
    ((insert h it).map (·.key)).Pairwise (fun p q => Key.le p q = true) := by
  refine ⟨insert_eq_filter hit hnn hs, ?_⟩
  have hk := kSorted_of_keys_sorted hnn hs
  rw [insert_eq_oins' hit hnn hk]
  refine keys_sorted_of_kSorted ?_ (kSorted_oins hk)
  intro a ha
  rcases (mem_oins keyInt).1 ha with h1 | h1
  · rw [h1]; exact hit
  · exact hnn a h1

/-! ## a sequence of updates is one update with the concatenation -/

theorem update_seq (m : Nat) (sim : Option (Item → Item → Bool)) (pops : List (List Item))
    (h : List Item) : pops.foldlM (update m sim) h = update m sim h pops.flatten := by
  induction pops generalizing h with
  | nil => simp [update]
  | cons pop pops ih =>
    rw [List.foldlM_cons, List.flatten_cons, update_append]
    cases update m sim h pop with
    | none => rfl
    | some h' => exact ih h'

theorem pf_update_seq (sim : Option (Item → Item → Bool)) (pops : List (List Item))
    (h : List Item) : pops.foldl (pfUpdate sim) h = pfUpdate sim h pops.flatten :=
  pfUpdate_flatten sim pops h

/-! ## 2. no NaN -/

theorem no_nan (m : Nat) (sim : Option (Item → Item → Bool)) (h pop h' : List Item)
    (hu : update m sim h pop = some h') (hnn : ∀ a ∈ h, a.key.isNan = false) :
    ∀ a ∈ h', a.key.isNan = false :=
  update_noNan hu hnn

/-! ## 4. `update` does not raise for a capacity `≥ 1` -/

theorem update_some (m : Nat) (hm : 1 ≤ m) (sim : Option (Item → Item → Bool))
    (h pop : List Item) : ∃ h', update m sim h pop = some h' :=
  update_isSome hm pop h

/-- capacity 0: `remove(-1)` on the empty list raises `IndexError` -/
example : update 0 none [] [⟨some 1, none, 0⟩] = none := by decide

/-! ## 3. sorted, stable -/

theorem sorted_stable (m : Nat) (hm : 1 ≤ m) (sim : Option (Item → Item → Bool))
    (offered h : List Item) (hid : offered.Pairwise (fun a b => a.id < b.id))
    (hu : update m sim [] offered = some h) :
    h.Pairwise (fun a b => Key.le a.key b.key = true ∧ (a.key = b.key → a.id < b.id)) := by
  obtain ⟨hnn, hs⟩ := update_inv hm offered [] h (fun _ hx => by simp at hx) List.Pairwise.nil
    (fun _ hx => by simp at hx) hid hu
  refine List.Pairwise.imp_of_mem ?_ hs
  intro a b ha hb hab
  rw [key_eq_of_noNan (hnn a ha), key_eq_of_noNan (hnn b hb)]
  refine ⟨by simpa [Key.le] using hab.1, fun heq => hab.2 (by simpa using heq)⟩

/-! ## 5. exactness -/

theorem exact (m : Nat) (hm : 1 ≤ m) (offered h : List Item)
    (hu : update m none [] offered = some h) :
    h.map (·.key) =
      ((((offered.filterMap (·.key)).mergeSort (fun a b => decide (a ≤ b))).take m).map some) ∧
    (∀ it ∈ h, it ∈ offered) ∧ h.length = min m (offered.filterMap (·.key)).length := by
  have hnn : NoNan h := update_noNan hu (fun _ hx => by simp at hx)
  have hk := update_exact hm offered [] h [] (fun _ hx => by simp at hx) List.Pairwise.nil
    (by simp) hu
  rw [foldl_histStep_eq_mergeSort] at hk
  refine ⟨by rw [map_key_of_noNan hnn, hk], ?_, ?_⟩
  · intro it hit
    rcases update_mem hu it hit with h1 | h1
    · simp at h1
    · exact h1.1
  · have := congrArg List.length hk
    simpa [List.length_take, (List.mergeSort_perm _ _).length_eq] using this

/-- the documented corner: on a tie with the last member of a full hall of fame the LATER arrival
replaces the earlier one (the keys are unaffected). -/
example : update 2 none [] [⟨some 1, none, 0⟩, ⟨some 2, none, 1⟩, ⟨some 2, none, 2⟩]
    = some [⟨some 1, none, 0⟩, ⟨some 2, none, 2⟩] := by decide

/-! ## 6. Pareto front without similarity filter -/

theorem dom_irrefl (a : Item) (h1 : a.key.isNan = false) (h2 : a.key2.isNan = false) :
    firstDominates a a = false := HOF.dom_irrefl ⟨h1, h2⟩

theorem dom_trans (a b c : Item) (ha1 : a.key.isNan = false) (ha2 : a.key2.isNan = false)
    (hb1 : b.key.isNan = false) (hb2 : b.key2.isNan = false)
    (hc1 : c.key.isNan = false) (hc2 : c.key2.isNan = false)
    (hab : firstDominates a b = true) (hbc : firstDominates b c = true) :
    firstDominates a c = true := HOF.dom_trans ⟨ha1, ha2⟩ ⟨hb1, hb2⟩ ⟨hc1, hc2⟩ hab hbc

theorem dom_asymm (a b : Item) (ha1 : a.key.isNan = false) (ha2 : a.key2.isNan = false)
    (hb1 : b.key.isNan = false) (hb2 : b.key2.isNan = false)
    (hab : firstDominates a b = true) : firstDominates b a = false :=
  HOF.dom_asymm ⟨ha1, ha2⟩ ⟨hb1, hb2⟩ hab

/-- on non-NaN key pairs `_first_dominates` is the usual strict Pareto order -/
theorem dom_iff (a b : Item) (x1 y1 x2 y2 : Int) (ha1 : a.key = some x1) (ha2 : a.key2 = some y1)
    (hb1 : b.key = some x2) (hb2 : b.key2 = some y2) :
    firstDominates a b = true ↔ x1 ≤ x2 ∧ y1 ≤ y2 ∧ (x1 ≠ x2 ∨ y1 ≠ y2) :=
  firstDominates_iff ha1 ha2 hb1 hb2

/-- An item is in the Pareto front iff it was offered, has a non-NaN key pair, and no offered
item with a non-NaN key pair dominates it.  (Equal key pairs do not dominate each other, so all
copies stay; membership is by item, `id` included.) -/
theorem pf_exact (offered : List Item) (x : Item) :
    x ∈ pfUpdate none [] offered ↔
      x ∈ offered ∧ x.key.isNan = false ∧ x.key2.isNan = false ∧
      ∀ o ∈ offered, o.key.isNan = false → o.key2.isNan = false → firstDominates o x = false := by
  rw [mem_pfUpdate_none]
  constructor
  · rintro ⟨h1, ⟨h2, h3⟩, h4⟩; exact ⟨h1, h2, h3, fun o ho a b => h4 o ho ⟨a, b⟩⟩
  · rintro ⟨h1, h2, h3, h4⟩; exact ⟨h1, ⟨h2, h3⟩, fun o ho hg => h4 o ho hg.1 hg.2⟩

/-- the statement as originally phrased holds when no NaN key was ever offered -/
theorem pf_exact_of_no_nan (offered : List Item)
    (hnn : ∀ o ∈ offered, o.key.isNan = false ∧ o.key2.isNan = false) (x : Item)
    (hx : x ∈ offered) :
    x ∈ pfUpdate none [] offered ↔ ∀ o ∈ offered, firstDominates o x = false := by
  rw [pf_exact]
  constructor
  · rintro ⟨_, _, _, h4⟩ o ho; exact h4 o ho (hnn o ho).1 (hnn o ho).2
  · intro h; exact ⟨hx, (hnn x hx).1, (hnn x hx).2, fun o ho _ _ => h o ho⟩

/-- counterexample to the unrestricted phrasing: the NaN item "dominates" item 0 according to
`_first_dominates`, but item 0 (rightly) stays in the front. -/
example : firstDominates ⟨none, none, 1⟩ ⟨some 1, some 1, 0⟩ = true ∧
    pfUpdate none [] [⟨some 1, some 1, 0⟩, ⟨none, none, 1⟩] = [⟨some 1, some 1, 0⟩] := by decide

theorem pf_antichain (sim : Option (Item → Item → Bool)) (offered : List Item) :
    ∀ a ∈ pfUpdate sim [] offered, ∀ b ∈ pfUpdate sim [] offered, firstDominates a b = false :=
  (pfUpdate_inv sim offered [] (fun _ h => by simp at h) (fun _ h => by simp at h)).2.1

theorem pf_no_nan (sim : Option (Item → Item → Bool)) (offered : List Item) :
    ∀ a ∈ pfUpdate sim [] offered, a ∈ offered ∧ a.key.isNan = false ∧ a.key2.isNan = false := by
  obtain ⟨hg, _, hsub⟩ := pfUpdate_inv sim offered [] (fun _ h => by simp at h)
    (fun _ h => by simp at h)
  intro a ha
  refine ⟨?_, (hg a ha).1, (hg a ha).2⟩
  rcases hsub a ha with h | h
  · simp at h
  · exact h

/-! ## 7. Pareto front with a similarity filter -/

theorem pf_no_similar (f : Item → Item → Bool) (hsymm : ∀ a b, f a b = f b a)
    (offered : List Item) :
    (pfUpdate (some f) [] offered).Pairwise (fun a b => f a b = false ∧ f b a = false) :=
  pfUpdate_noSimilar hsymm offered [] List.Pairwise.nil

/-- index form: members at different positions are not similar -/
theorem pf_no_similar_idx (f : Item → Item → Bool) (hsymm : ∀ a b, f a b = f b a)
    (offered : List Item) (i j : Nat) (hi : i < (pfUpdate (some f) [] offered).length)
    (hj : j < (pfUpdate (some f) [] offered).length) (hij : i ≠ j) :
    f (pfUpdate (some f) [] offered)[i] (pfUpdate (some f) [] offered)[j] = false := by
  have hp := List.pairwise_iff_getElem.1 (pf_no_similar f hsymm offered)
  rcases Nat.lt_or_gt_of_ne hij with h | h
  · exact (hp i j hi hj h).1
  · exact (hp j i hj hi h).2

/-! ## 8. non-vacuity -/

/-- capacity 2, five offers with a tie and a NaN: keys 5, 3, NaN, 3, 1 -/
example : update 2 none [] [⟨some 5, none, 0⟩, ⟨some 3, none, 1⟩, ⟨none, none, 2⟩,
    ⟨some 3, none, 3⟩, ⟨some 1, none, 4⟩] = some [⟨some 1, none, 4⟩, ⟨some 3, none, 1⟩] := by decide

/-- the right-hand side of `exact` on that history (`mergeSort` is defined by well-founded
recursion, so `simp` rather than `decide` evaluates it) -/
example : ((List.filterMap (·.key) ([⟨some 5, none, 0⟩, ⟨some 3, none, 1⟩, ⟨none, none, 2⟩,
    ⟨some 3, none, 3⟩, ⟨some 1, none, 4⟩] : List Item)).mergeSort
      (fun a b => decide (a ≤ b))).take 2 = [1, 3] := by
  simp [List.mergeSort, List.MergeSort.Internal.splitInTwo]

/-- ties keep arrival order (capacity not reached) -/
example : update 5 none [] [⟨some 3, none, 0⟩, ⟨some 1, none, 1⟩, ⟨some 3, none, 2⟩,
    ⟨some 1, none, 3⟩] = some [⟨some 1, none, 1⟩, ⟨some 1, none, 3⟩, ⟨some 3, none, 0⟩,
    ⟨some 3, none, 2⟩] := by decide

/-- two populations in sequence = one concatenated population -/
example : (update 2 none [] [⟨some 5, none, 0⟩, ⟨some 3, none, 1⟩]).bind
      (fun h => update 2 none h [⟨some 4, none, 2⟩]) =
    some [⟨some 3, none, 1⟩, ⟨some 4, none, 2⟩] := by decide

/-- a similarity filter (same parity of the id) rejects an otherwise acceptable item -/
example : update 3 (some fun a b => a.id % 2 == b.id % 2) []
    [⟨some 5, none, 0⟩, ⟨some 1, none, 2⟩, ⟨some 3, none, 1⟩] =
    some [⟨some 3, none, 1⟩, ⟨some 5, none, 0⟩] := by decide

/-- Pareto history where a later item removes two members; an equal key pair stays; NaN ignored -/
example : pfUpdate none [] [⟨some 1, some 5, 0⟩, ⟨some 3, some 3, 1⟩, ⟨some 4, some 2, 2⟩,
    ⟨none, some 0, 3⟩, ⟨some 2, some 2, 4⟩, ⟨some 2, some 2, 5⟩] =
    [⟨some 1, some 5, 0⟩, ⟨some 2, some 2, 4⟩, ⟨some 2, some 2, 5⟩] := by decide

/-- Pareto front with a similarity filter -/
example : pfUpdate (some fun a b => a.id % 2 == b.id % 2) []
    [⟨some 1, some 5, 0⟩, ⟨some 5, some 1, 2⟩, ⟨some 3, some 3, 1⟩] =
    [⟨some 1, some 5, 0⟩, ⟨some 3, some 3, 1⟩] := by decide

end C10
end Bingo
