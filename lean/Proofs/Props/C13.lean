import Proofs.Lemmas.CheckpointCall
import Proofs.Props.C14
/-!
# C13 (rotation part): a crash during checkpointed evolution never leaves the disk without a
complete checkpoint, the number of checkpoints is bounded, only own files are deleted

Only the property theorems and their non-vacuity examples live here; the proofs are in
`Proofs/Lemmas/Checkpoint{FS,Rotation,Call}.lean` (core Lean only, no Mathlib).

Setting: one call writes checkpoints at the ages `ages` (strictly increasing, see
`ages_increasing`), keeps `num_checkpoints = some n` with `1 ≤ n`, and starts from an arbitrary
disk `fs0`.  A crash can happen between any two steps, so the reachable disks are
`fsRun fs0 p` for the prefixes `p` of `callOps (some n) [] ages`.  For such a prefix,
`writing p` is the age whose checkpoint was begun last (the optimizer's age at the crash) and
`hasRename p` says whether some `os.replace` has happened, which for a prefix of the call means
that the first checkpoint has been completed (`hasRename_iff_first`).
-/
namespace Bingo.C13
open Bingo.Checkpoint

/-! ## 5. the facts read from the Python source -/

theorem dump_shape :
    Gen.Converge.dumpOpenMode = "wb" ∧ Checkpoint.dumpFirst = true ∧
    Gen.Converge.checkpointCountCmp = "gt" ∧
    Gen.Converge.removeStale = "os.remove(self._previous_checkpoints.pop(0))" ∧
    Gen.Converge.checkpointName = "f'{checkpoint_base_name}_{self.generational_age}.pkl'" ∧
    Gen.Converge.dumpWritesTo = "temp" ∧ Gen.Converge.dumpRenames = true ∧
    ∀ a, Checkpoint.dumpOps a =
      [.openW (.temp a), .finish (.temp a), .rename (.temp a) (.ckpt a)] :=
  ⟨by decide, by decide, by decide, by decide, by decide, by decide, by decide, fun _ => rfl⟩

/-- the retention test and one `_update_checkpoints`, spelled out -/
theorem round_shape (n : Nat) (P : List Nat) (a : Nat) :
    (P.length + 1 ≤ n → roundOps (some n) P a = (dumpOps a, P ++ [a])) ∧
    (∀ old t, P = old :: t → n < P.length + 1 →
      roundOps (some n) P a = (dumpOps a ++ [.remove (.ckpt old)], t ++ [a])) := by
  refine ⟨roundOps_keep a, ?_⟩
  rintro old t rfl h
  exact roundOps_drop old t a (by simpa using h)

/-- the ages at which one call writes checkpoints are strictly increasing (C14: every round
evolves at least one generation) -/
theorem ages_increasing {cfg : Converge.Cfg} {obs : Nat → Converge.Obs} {age improv : Nat}
    {best : Option Key} {status ngen : Nat} {fitness : Key} {success : Bool} {rounds : List Nat}
    {st' : Converge.St} (hf : 0 < cfg.freq) (hobs : ∀ k, 1 ≤ (obs k).gens)
    (h : Converge.run cfg obs age improv best
      = .result status ngen fitness success rounds st') :
    (Converge.checkAges age rounds).Pairwise (· < ·) :=
  (C14.checkpoint_ages_increasing hf hobs h).2.2

/-! ## 9. only the optimizer's own files are deleted -/

theorem own_files_only (n : Nat) (ages : List Nat) (pre post : List FOp) (f : FName)
    (h : callOps (some n) [] ages = pre ++ .remove f :: post) :
    ∃ a ∈ ages, f = .ckpt a ∧ FOp.rename (.temp a) (.ckpt a) ∈ pre := by
  obtain ⟨a, hf, ha⟩ := own_gen n ages [] pre post f h
  rcases ha with ha | ⟨ha, hr⟩
  · simp at ha
  · exact ⟨a, ha, hf, hr⟩

/-! ## 7. one complete checkpoint -/

section
variable {n : Nat} {fs0 fs : FS} {ages : List Nat} {p : List FOp}

/-- for a prefix of the call, "some rename happened" = "the first checkpoint was completed" -/
theorem hasRename_iff_first {a1 : Nat} {rest : List Nat}
    (hp : p <+: callOps (some n) [] (a1 :: rest)) :
    hasRename p = true ↔ FOp.rename (.temp a1) (.ckpt a1) ∈ p := by
  refine ⟨fun h => ?_, hasRename_of_mem⟩
  have hpre : ∃ Y, callOps (some n) [] (a1 :: rest) = dumpOps a1 ++ Y := by
    rw [callOps]
    rcases roundOps_cases n [] a1 with hr | ⟨old, t, _, hr⟩
    · rw [hr]; exact ⟨_, rfl⟩
    · rw [hr]; exact ⟨_, List.append_assoc ..⟩
  obtain ⟨Y, hY⟩ := hpre
  rw [hY] at hp
  simp only [dumpOps_eq, List.cons_append, List.nil_append] at hp
  rcases List.prefix_cons_iff.1 hp with rfl | ⟨p1, rfl, hp1⟩
  · simp [hasRename] at h
  rcases List.prefix_cons_iff.1 hp1 with rfl | ⟨p2, rfl, hp2⟩
  · simp [hasRename, isRename] at h
  rcases List.prefix_cons_iff.1 hp2 with rfl | ⟨p3, rfl, hp3⟩
  · simp [hasRename, isRename] at h
  simp

theorem one_complete (hn : 1 ≤ n) (hs : ages.Pairwise (· < ·))
    (hp : p <+: callOps (some n) [] ages) (hrun : fsRun fs0 p = some fs) :
    -- after the first checkpoint completed: a complete checkpoint written by this call, of an
    -- earlier or equal generation than the one being written, is on disk
    (hasRename p = true →
      ∃ b ∈ completeCkpts fs, b ∈ ages ∧ FOp.rename (.temp b) (.ckpt b) ∈ p ∧
        ∀ g, writing p = some g → b ≤ g) ∧
    -- before that, the complete checkpoints are exactly those found at entry
    (hasRename p = false → completeCkpts fs = completeCkpts fs0) ∧
    -- so a disk that had a complete checkpoint at entry always has one
    (completeCkpts fs0 ≠ [] → completeCkpts fs ≠ []) ∧
    -- resume workflow: a complete checkpoint of a generation ≤ the call's first age at entry
    -- gives a complete checkpoint of an earlier or equal generation at every crash point
    (∀ b0 ∈ completeCkpts fs0, (∀ a ∈ ages, b0 ≤ a) →
      ∃ b ∈ completeCkpts fs, ∀ g, writing p = some g → b ≤ g) := by
  obtain ⟨fs', hrun', hQ1, hQ2, _⟩ := call_reachable hn fs0 hs (fun _ => true)
    (ckptFiles fs0).length (fun _ _ => rfl)
    (fun a _ _ => ((List.filter_sublist.filter _).trans List.filter_sublist).length_le) hp
  rw [hrun] at hrun'; injection hrun' with hrun'; subst hrun'
  have h1 : hasRename p = true →
      ∃ b ∈ completeCkpts fs, b ∈ ages ∧ FOp.rename (.temp b) (.ckpt b) ∈ p ∧
        ∀ g, writing p = some g → b ≤ g := by
    intro hr
    obtain ⟨b, hb, hren, hle⟩ := hQ2 hr
    refine ⟨b, hb, ?_, hren, hle⟩
    rcases mem_callOps n ages [] _ (hp.subset hren) with ⟨a, ha, hd⟩ | ⟨old, hrm, _⟩
    · have : b = a := by simpa [dumpOps_eq] using hd
      exact this ▸ ha
    · exact FOp.noConfusion hrm
  refine ⟨h1, fun hr => (hQ1 hr).1, fun hne => ?_, fun b0 hb0 hle => ?_⟩
  · cases hr : hasRename p
    · rw [(hQ1 hr).1]; exact hne
    · obtain ⟨b, hb, _⟩ := h1 hr
      exact List.ne_nil_of_mem hb
  · cases hr : hasRename p
    · exact ⟨b0, (hQ1 hr).1 ▸ hb0, fun g hg => hle g (writing_mem hp hg)⟩
    · obtain ⟨b, hb, _, _, hbg⟩ := h1 hr
      exact ⟨b, hb, hbg⟩

/-- the hypothesis `∀ a ∈ ages, b0 ≤ a` of the last part cannot be dropped: if the only complete
checkpoint at entry belongs to a later generation (age 1000) than the call's first age (2), then
during the first dump the disk holds no complete checkpoint of an earlier or equal generation -/
example :
    let fs0 : FS := [(.ckpt 1000, true)]
    let p : List FOp := [.openW (.temp 2)]
    p <+: callOps (some 1) [] [2] ∧ writing p = some 2 ∧
    (fsRun fs0 p).map completeCkpts = some [1000] := by
  refine ⟨⟨[.finish (.temp 2), .rename (.temp 2) (.ckpt 2)], rfl⟩, by decide, by decide⟩

/-- once one complete checkpoint exists, one always exists -/
theorem complete_persists {p1 p2 : List FOp} {f1 f2 : FS} (hn : 1 ≤ n)
    (hs : ages.Pairwise (· < ·)) (hp2 : p2 <+: callOps (some n) [] ages) (hp1 : p1 <+: p2)
    (h1 : fsRun fs0 p1 = some f1) (h2 : fsRun fs0 p2 = some f2)
    (hne : completeCkpts f1 ≠ []) : completeCkpts f2 ≠ [] := by
  have hA := one_complete hn hs (hp1.trans hp2) h1
  have hB := one_complete hn hs hp2 h2
  cases hr : hasRename p2
  · have hr1 := hasRename_prefix hp1 hr
    exact hB.2.2.1 (hA.2.1 hr1 ▸ hne)
  · obtain ⟨b, hb, _⟩ := hB.1 hr
    exact List.ne_nil_of_mem hb

/-! ## 8. the number of checkpoints is bounded -/

/-- on any disk: the call never adds more than `n + 1` checkpoint files -/
theorem bounded_any_disk (hn : 1 ≤ n) (hs : ages.Pairwise (· < ·))
    (hp : p <+: callOps (some n) [] ages) (hrun : fsRun fs0 p = some fs) :
    (ckptFiles fs).length ≤ (ckptFiles fs0).length + n + 1 := by
  obtain ⟨fs', hrun', hQ1, _, hQ3⟩ := call_reachable hn fs0 hs (fun _ => true)
    (ckptFiles fs0).length (fun _ _ => rfl)
    (fun a _ _ => ((List.filter_sublist.filter _).trans List.filter_sublist).length_le) hp
  rw [hrun] at hrun'; injection hrun' with hrun'; subst hrun'
  cases hr : hasRename p
  · rw [(hQ1 hr).2]; omega
  · have := hQ3 hr
    rw [List.filter_eq_self.2 (fun _ _ => rfl)] at this
    exact this

/-- the number of checkpoint files named like an age of this call is at most `n + 1`, provided
the disk at entry has no checkpoint named like a later age of this call (one named like the
first age — the resume workflow — is allowed) and does not list a file twice -/
theorem bounded (hn : 1 ≤ n) (hs : ages.Pairwise (· < ·))
    (hnodup : (ckptFiles fs0).Nodup) (hfresh : ∀ a ∈ ages.tail, a ∉ ckptFiles fs0)
    (hp : p <+: callOps (some n) [] ages) (hrun : fsRun fs0 p = some fs) :
    ((ckptFiles fs).filter (· ∈ ages)).length ≤ n + 1 := by
  have hfirst : ∀ a1 rest, ages = a1 :: rest → ∀ x ∈ ckptFiles fs0, x ∈ ages → x = a1 := by
    intro a1 rest hages x hx hxa
    subst hages
    rcases List.mem_cons.1 hxa with h | h
    · exact h
    · exact absurd hx (hfresh x h)
  obtain ⟨fs', hrun', hQ1, _, hQ3⟩ := call_reachable hn fs0 hs (fun a => decide (a ∈ ages)) 0
    (fun a ha => by simpa using ha)
    (fun a1 rest hages => by
      have : ((ckptFiles fs0).filter (· ≠ a1)).filter (fun a => decide (a ∈ ages)) = [] := by
        rw [List.filter_eq_nil_iff]
        intro x hx hxa
        have hx' := List.mem_filter.1 hx
        have := hfirst a1 rest hages x hx'.1 (by simpa using hxa)
        simp [this] at hx'
      rw [this]; exact Nat.le_refl _) hp
  rw [hrun] at hrun'; injection hrun' with hrun'; subst hrun'
  cases hr : hasRename p
  · rw [(hQ1 hr).2]
    have hle1 : ((ckptFiles fs0).filter (· ∈ ages)).length ≤ 1 := by
      cases hages : ages with
      | nil => rw [List.filter_eq_nil_iff.2 (by simp)]; simp
      | cons a1 rest =>
        rw [← hages]
        exact length_le_one_of_nodup_of_forall_eq (v := a1)
          (hnodup.sublist List.filter_sublist)
          (fun x hx => by
            have hx' := List.mem_filter.1 hx
            exact hfirst a1 rest hages x hx'.1 (by simpa using hx'.2))
    omega
  · have := hQ3 hr
    omega

/-- `bounded` fails without the freshness hypothesis: stale checkpoints of a previous, longer
run that are named like later ages of this call are counted from the start -/
theorem bounded_needs_fresh :
    let fs0 : FS := [(.ckpt 2, true), (.ckpt 4, true), (.ckpt 6, true), (.ckpt 8, true),
      (.ckpt 10, true)]
    [2, 4, 6, 8, 10].Pairwise (· < ·) ∧ (ckptFiles fs0).Nodup ∧
    ([] : List FOp) <+: callOps (some 2) [] [2, 4, 6, 8, 10] ∧ fsRun fs0 [] = some fs0 ∧
    ¬ ((ckptFiles fs0).filter (· ∈ [2, 4, 6, 8, 10])).length ≤ 2 + 1 := by
  refine ⟨by decide, by decide, List.nil_prefix, rfl, by decide⟩

/-! ## 6. no step of the call fails -/

/-- No hypothesis on the disk at entry is needed: the `os.replace` source was just written and
every removal target was renamed into place earlier by this call and not removed since. -/
theorem never_raises (hn : 1 ≤ n) (hs : ages.Pairwise (· < ·))
    (hp : p <+: callOps (some n) [] ages) : ∃ fs, fsRun fs0 p = some fs := by
  obtain ⟨fs', hrun', _⟩ := call_reachable hn fs0 hs (fun _ => true)
    (ckptFiles fs0).length (fun _ _ => rfl)
    (fun a _ _ => ((List.filter_sublist.filter _).trans List.filter_sublist).length_le) hp
  exact ⟨fs', hrun'⟩

/-- the ages must be distinct: with a repeated age the second removal of the same name raises -/
theorem never_raises_needs_distinct : fsRun [] (callOps (some 2) [] [2, 2, 3, 4]) = none := by
  decide

end

/-! ## 10. the defect that was fixed: writing the checkpoint in place -/

/-- On a resumed run (`<base>_2.pkl` exists and is complete) a crash after the first of the two
steps of an in-place dump leaves no complete checkpoint: `one_complete` (third part) is false
for `dumpOpsInPlace`. -/
theorem in_place_write_unsafe :
    let fs0 : FS := [(.ckpt 2, true)]
    dumpOpsInPlace 2 = [.openW (.ckpt 2), .finish (.ckpt 2)] ∧
    completeCkpts fs0 = [2] ∧
    [FOp.openW (.ckpt 2)] <+: dumpOpsInPlace 2 ∧
    fsRun fs0 [.openW (.ckpt 2)] = some [(.ckpt 2, false)] ∧
    completeCkpts [(FName.ckpt 2, false)] = [] := by
  refine ⟨rfl, by decide, ⟨[.finish (.ckpt 2)], rfl⟩, by decide, by decide⟩

/-- the same resumed run with the temp-file-and-rename dump keeps `<base>_2.pkl` complete in
every crash state -/
example :
    (List.range 4).map (fun i =>
      (fsRun [(.ckpt 2, true)] ((dumpOps 2).take i)).map completeCkpts)
      = [some [2], some [2], some [2], some [2]] := by decide

/-! ## 11. non-vacuity: `ages = [2, 4, 6, 8]`, `n = 2` -/

example : [2, 4, 6, 8].Pairwise (· < ·) := by decide

example : callOps (some 2) [] [2, 4, 6, 8] =
    [.openW (.temp 2), .finish (.temp 2), .rename (.temp 2) (.ckpt 2),
     .openW (.temp 4), .finish (.temp 4), .rename (.temp 4) (.ckpt 4),
     .openW (.temp 6), .finish (.temp 6), .rename (.temp 6) (.ckpt 6), .remove (.ckpt 2),
     .openW (.temp 8), .finish (.temp 8), .rename (.temp 8) (.ckpt 8), .remove (.ckpt 4)] := by
  decide

/-- all 15 crash states from an empty disk: (complete checkpoints, checkpoint files) -/
example :
    (List.range 15).map (fun i =>
      (fsRun [] ((callOps (some 2) [] [2, 4, 6, 8]).take i)).map
        (fun fs => (completeCkpts fs, ckptFiles fs)))
      = [some ([], []), some ([], []), some ([], []),
         some ([2], [2]), some ([2], [2]), some ([2], [2]),
         some ([4, 2], [4, 2]), some ([4, 2], [4, 2]), some ([4, 2], [4, 2]),
         some ([6, 4, 2], [6, 4, 2]), some ([6, 4], [6, 4]),
         some ([6, 4], [6, 4]), some ([6, 4], [6, 4]),
         some ([8, 6, 4], [8, 6, 4]), some ([8, 6], [8, 6])] := by decide

/-- all 15 crash states of a resumed run (a complete `<base>_2.pkl` and an unrelated
`<base>_1.pkl` at entry): the bound `n + 1 = 3` on own files is attained, `<base>_1.pkl` is
never touched -/
example :
    (List.range 15).map (fun i =>
      (fsRun [(.ckpt 2, true), (.ckpt 1, true)] ((callOps (some 2) [] [2, 4, 6, 8]).take i)).map
        completeCkpts)
      = [some [2, 1], some [2, 1], some [2, 1], some [2, 1], some [2, 1], some [2, 1],
         some [4, 2, 1], some [4, 2, 1], some [4, 2, 1], some [6, 4, 2, 1], some [6, 4, 1],
         some [6, 4, 1], some [6, 4, 1], some [8, 6, 4, 1], some [8, 6, 1]] := by decide

example : writing ((callOps (some 2) [] [2, 4, 6, 8]).take 11) = some 8 := by decide
example : hasRename ((callOps (some 2) [] [2, 4, 6, 8]).take 2) = false ∧
    hasRename ((callOps (some 2) [] [2, 4, 6, 8]).take 3) = true := by decide

/-- the theorems instantiated at the crash point after 11 steps -/
example : ∃ fs, fsRun [] ((callOps (some 2) [] [2, 4, 6, 8]).take 11) = some fs :=
  never_raises (by decide) (by decide) (List.take_prefix _ _)

example : ∀ fs, fsRun [] ((callOps (some 2) [] [2, 4, 6, 8]).take 11) = some fs →
    ∃ b ∈ completeCkpts fs, b ∈ [2, 4, 6, 8] ∧
      FOp.rename (.temp b) (.ckpt b) ∈ (callOps (some 2) [] [2, 4, 6, 8]).take 11 ∧
      ∀ g, writing ((callOps (some 2) [] [2, 4, 6, 8]).take 11) = some g → b ≤ g :=
  fun _ h => (one_complete (by decide) (by decide) (List.take_prefix _ _) h).1 (by decide)

end Bingo.C13
