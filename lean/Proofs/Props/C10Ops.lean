import Proofs.Props.C10
/-!
# C10, continued: ordering and NaN-exclusion over interleaved `update` / `insert` / `remove` / `clear`

The property's quantifier: "for all sequences of update calls (and, for the ordering,
NaN-exclusion and copy-independence clauses, also interleaved insert/remove/clear calls)".
`C10.sorted_stable` / `C10.no_nan` speak about `update` histories from the empty hall of fame.
Here a history is any list of the four public mutators:

* `update pop`   -- `HallOfFame.update(population)` (`HOF.update`),
* `insert it`    -- the public `HallOfFame.insert(item)`, which neither checks the capacity nor the
                    key.  A directly inserted NaN key is F9 (recorded, outside the statement), so the
                    theorem carries the hypothesis that directly inserted keys are numbers;
* `remove idx`   -- `del _keys[idx]; del _items[idx]` with Python index semantics, raising
                    (`none`) for an index out of range;
* `clear`.

`history_inv`: if no call raised, the hall of fame holds no NaN key and is in ascending key order
with earlier arrivals first among equal keys -- arrival numbers (`id`) increasing over the whole
history, as they are for copies made at `insert` time.  `history_raises_only_remove`: with a
capacity `≥ 1` the only call that can raise is a `remove` with an index out of range.
-/
namespace Bingo
namespace C10
open HOF

inductive HOp where
  | update (pop : List Item)
  | insert (it : Item)
  | remove (idx : Int)
  | clear
  deriving Repr

/-- the individuals an operation offers, in arrival order -/
def HOp.offered : HOp → List Item
  | .update pop => pop
  | .insert it => [it]
  | .remove _ => []
  | .clear => []

/-- a direct `insert` carries a number as key (F9 excluded) -/
def HOp.insertOk : HOp → Prop
  | .insert it => it.key.isNan = false
  | _ => True

def hstep (m : Nat) (sim : Option (Item → Item → Bool)) (h : List Item) : HOp → Option (List Item)
  | .update pop => update m sim h pop
  | .insert it => some (insert h it)
  | .remove idx => remove h idx
  | .clear => some []

/-- run a history; `none` as soon as a call raises -/
def hrun (m : Nat) (sim : Option (Item → Item → Bool)) : List Item → List HOp → Option (List Item)
  | h, [] => some h
  | h, op :: rest =>
    match hstep m sim h op with
    | none => none
    | some h' => hrun m sim h' rest

def allOffered (ops : List HOp) : List Item := ops.flatMap HOp.offered

theorem hstep_inv {m sim} (hm : 1 ≤ m) {h h' : List Item} {op : HOp}
    (hnn : NoNan h) (hs : StableSorted h)
    (hid : ∀ a ∈ h, ∀ b ∈ op.offered, a.id < b.id)
    (hp : op.offered.Pairwise (fun a b => a.id < b.id)) (hok : op.insertOk)
    (hst : hstep m sim h op = some h') :
    NoNan h' ∧ StableSorted h' ∧ (∀ x ∈ h', x ∈ h ∨ x ∈ op.offered) := by
  cases op with
  | update pop =>
    simp only [hstep] at hst
    obtain ⟨h1, h2⟩ := update_inv hm pop h h' hnn hs hid hp hst
    refine ⟨h1, h2, fun x hx => ?_⟩
    rcases update_mem hst x hx with hx' | hx'
    · exact Or.inl hx'
    · exact Or.inr hx'.1
  | insert it =>
    simp only [hstep, Option.some.injEq] at hst
    subst hst
    have hit : it.key.isNan = false := hok
    refine ⟨fun x hx => ?_, ?_, fun x hx => ?_⟩
    · rcases mem_insert.1 hx with rfl | hx'
      · exact hit
      · exact hnn x hx'
    · rw [insert_eq_oins' hit hnn hs.kSorted]
      exact stableSorted_oins hs (fun a ha => hid a ha it (by simp [HOp.offered]))
    · rcases mem_insert.1 hx with rfl | hx'
      · exact Or.inr (by simp [HOp.offered])
      · exact Or.inl hx'
  | remove idx =>
    simp only [hstep] at hst
    have hsub := remove_sublist hst
    exact ⟨hnn.sublist hsub, List.Pairwise.sublist hsub hs, fun x hx => Or.inl (hsub.subset hx)⟩
  | clear =>
    simp only [hstep, Option.some.injEq] at hst
    subst hst
    exact ⟨fun _ hx => by simp at hx, List.Pairwise.nil, fun _ hx => by simp at hx⟩

theorem hrun_inv {m sim} (hm : 1 ≤ m) : ∀ (ops : List HOp) (h h' : List Item),
    NoNan h → StableSorted h →
    (∀ a ∈ h, ∀ b ∈ allOffered ops, a.id < b.id) →
    (allOffered ops).Pairwise (fun a b => a.id < b.id) →
    (∀ op ∈ ops, op.insertOk) →
    hrun m sim h ops = some h' → NoNan h' ∧ StableSorted h' := by
  intro ops
  induction ops with
  | nil =>
    intro h h' hnn hs _ _ _ hr
    simp only [hrun, Option.some.injEq] at hr
    subst hr; exact ⟨hnn, hs⟩
  | cons op rest ih =>
    intro h h' hnn hs hid hp hok hr
    have hflat : allOffered (op :: rest) = op.offered ++ allOffered rest := by
      simp [allOffered]
    rw [hflat] at hid hp
    obtain ⟨hp1, hp2, hp12⟩ := List.pairwise_append.1 hp
    unfold hrun at hr
    cases hst : hstep m sim h op with
    | none => simp [hst] at hr
    | some h1 =>
      simp only [hst] at hr
      obtain ⟨hnn1, hs1, hmem⟩ := hstep_inv hm hnn hs
        (fun a ha b hb => hid a ha b (List.mem_append_left _ hb)) hp1
        (hok op List.mem_cons_self) hst
      refine ih h1 h' hnn1 hs1 ?_ hp2 (fun o ho => hok o (List.mem_cons_of_mem _ ho)) hr
      intro a ha b hb
      rcases hmem a ha with ha' | ha'
      · exact hid a ha' b (List.mem_append_right _ hb)
      · exact hp12 a ha' b hb

/-- Ordering and NaN-exclusion after any history of `update` / `insert` / `remove` / `clear` calls
that did not raise, on a hall of fame of capacity `≥ 1` that started empty: ascending keys, earlier
arrivals first among equals, no NaN key. -/
theorem history_inv (m : Nat) (hm : 1 ≤ m) (sim : Option (Item → Item → Bool)) (ops : List HOp)
    (h : List Item)
    (hid : (allOffered ops).Pairwise (fun a b => a.id < b.id))
    (hok : ∀ op ∈ ops, op.insertOk)
    (hr : hrun m sim [] ops = some h) :
    (∀ a ∈ h, a.key.isNan = false) ∧
    h.Pairwise (fun a b => Key.le a.key b.key = true ∧ (a.key = b.key → a.id < b.id)) := by
  obtain ⟨hnn, hs⟩ := hrun_inv hm ops [] h (fun _ hx => by simp at hx) List.Pairwise.nil
    (fun _ hx => by simp at hx) hid hok hr
  refine ⟨hnn, List.Pairwise.imp_of_mem ?_ hs⟩
  intro a b ha hb hab
  rw [key_eq_of_noNan (hnn a ha), key_eq_of_noNan (hnn b hb)]
  exact ⟨by simpa [Key.le] using hab.1, fun heq => hab.2 (by simpa using heq)⟩

/-- With a capacity `≥ 1`, the only mutator that can raise is `remove` (index out of range). -/
theorem hstep_raises_only_remove (m : Nat) (hm : 1 ≤ m) (sim : Option (Item → Item → Bool))
    (h : List Item) (op : HOp) (hnone : hstep m sim h op = none) :
    ∃ idx, op = .remove idx ∧ ¬ (-(h.length : Int) ≤ idx ∧ idx < h.length) := by
  cases op with
  | update pop =>
    obtain ⟨h', hu⟩ := update_isSome (sim := sim) hm pop h
    simp [hstep, hu] at hnone
  | insert it => simp [hstep] at hnone
  | clear => simp [hstep] at hnone
  | remove idx =>
    refine ⟨idx, rfl, ?_⟩
    simp only [hstep, remove] at hnone
    intro ⟨h1, h2⟩
    split at hnone
    · split at hnone
      · cases hnone
      · omega
    · split at hnone
      · cases hnone
      · omega

/-! non-vacuity: offer 5, 3, (NaN via update: rejected), insert 3 directly, remove the worst,
clear, offer 7 -/
example : hrun 2 none []
    [.update [⟨some 5, none, 0⟩, ⟨some 3, none, 1⟩, ⟨none, none, 2⟩], .insert ⟨some 3, none, 3⟩,
     .remove (-1)] = some [⟨some 3, none, 1⟩, ⟨some 3, none, 3⟩] := by decide
example : hrun 2 none [] [.update [⟨some 5, none, 0⟩], .clear, .update [⟨some 7, none, 1⟩]] =
    some [⟨some 7, none, 1⟩] := by decide
example : hrun 2 none [] [.update [⟨some 5, none, 0⟩], .remove 1] = none := by decide
/-- F9: a directly inserted NaN breaks the order invariant, hence the `insertOk` hypothesis -/
example : hrun 3 none [] [.update [⟨some 5, none, 0⟩, ⟨some 9, none, 1⟩], .insert ⟨none, none, 2⟩] =
    some [⟨some 5, none, 0⟩, ⟨some 9, none, 1⟩, ⟨none, none, 2⟩] := by decide

end C10
end Bingo
