import Proofs.Lemmas.FwdDen
import Proofs.Lemmas.TreeShape
import Proofs.Lemmas.WFFwd
import Proofs.Lemmas.DenMath
import Proofs.Props.C02
/-!
# C02 ∘ C01: the returned gradient is the derivative of the *mathematical* function

`C02.gradient_correct_x/c` state the derivative for the model's own evaluator (`Eval.evalLast`).
`C01` proves that evaluator equal to the mathematical denotation `MathSem.den` of the expression
tree the stack unfolds to (`ETree.ofStack`), whose operator meanings are the hand-written real
functions of `Proofs/Lemmas/MathSem` (not the generated tables).  Composing the two removes the
evaluator from the statement: the gradient returned by the reverse sweep is the partial derivative
of the function the stack *denotes*.
-/
namespace Bingo
namespace C02
open AD

/-- on a well-formed stack the evaluator and the mathematical denotation agree for all inputs of
the right shape -/
theorem evalLast_eq_math {D L : Nat} {s : Stack} (hwf : WF.WFEval D L s) (x c : List ℝ)
    (hx : x.length = D) (hc : c.length = L) :
    Eval.evalLast s x c = MathSem.den x c (ETree.ofStack s) := by
  -- the lemmas behind `C01.wf_fwd_some`, `C01.evalLast_eq_den`, `C01.den_eq_math`,
  -- `C01.ofStack_arityOK`, used directly so that this file does not depend on the object-level
  -- (erasure) obligations of C01
  obtain ⟨vs, hvs, _⟩ := WFFwd.wf_fwd_some D L s x c hwf hx hc
  rw [FwdDen.evalLast_eq_den s x c vs hvs, DenMath.den_eq_math x c _ (ETree.ofStack_arityOK s)]

/-- `evaluate_with_derivative(..., wrt_x = True)`: value = the denoted function's value, gradient
entry `j` = its partial derivative with respect to input column `j`. -/
theorem gradient_of_denotation_x {D L : Nat} {s : Stack} (hwf : WF.WFEval D L s) (x c : List ℝ)
    (hx : x.length = D) (hc : c.length = L) (j : Nat) (hj : j < D)
    (hdiff : RowsDifferentiable s x c) :
    ∃ v d, Eval.evalWithDeriv s x c true = some (v, d) ∧
      MathSem.den x c (ETree.ofStack s) = some v ∧ ∃ hd : d.length = D,
      HasDerivAt (fun θ => (MathSem.den (x.set j θ) c (ETree.ofStack s)).getD 0)
        (d[j]'(by omega)) (x[j]'(by omega)) := by
  obtain ⟨v, d, he, hd, hder⟩ := gradient_correct_x hwf x c hx hc j hj hdiff
  refine ⟨v, d, he, ?_, hd, ?_⟩
  · rw [← evalLast_eq_math hwf x c hx hc]; exact value_same he
  · have : (fun θ => (MathSem.den (x.set j θ) c (ETree.ofStack s)).getD 0) =
        (fun θ => (Eval.evalLast s (x.set j θ) c).getD 0) := by
      funext θ
      rw [evalLast_eq_math hwf (x.set j θ) c (by simp [hx]) hc]
    rw [this]; exact hder

/-- `evaluate_with_derivative(..., wrt_x = False)`: the same for the constants. -/
theorem gradient_of_denotation_c {D L : Nat} {s : Stack} (hwf : WF.WFEval D L s) (x c : List ℝ)
    (hx : x.length = D) (hc : c.length = L) (j : Nat) (hj : j < L)
    (hdiff : RowsDifferentiable s x c) :
    ∃ v d, Eval.evalWithDeriv s x c false = some (v, d) ∧
      MathSem.den x c (ETree.ofStack s) = some v ∧ ∃ hd : d.length = L,
      HasDerivAt (fun θ => (MathSem.den x (c.set j θ) (ETree.ofStack s)).getD 0)
        (d[j]'(by omega)) (c[j]'(by omega)) := by
  obtain ⟨v, d, he, hd, hder⟩ := gradient_correct_c hwf x c hx hc j hj hdiff
  refine ⟨v, d, he, ?_, hd, ?_⟩
  · rw [← evalLast_eq_math hwf x c hx hc]; exact value_same he
  · have : (fun θ => (MathSem.den x (c.set j θ) (ETree.ofStack s)).getD 0) =
        (fun θ => (Eval.evalLast s x (c.set j θ)).getD 0) := by
      funext θ
      rw [evalLast_eq_math hwf x (c.set j θ) hx (by simp [hc])]
    rw [this]; exact hder

/-- non-vacuity: `sin(x0*x0) + x0*x0` (the stack of the C02 example) -/
example (t : ℝ) :
    ∃ v d, Eval.evalWithDeriv [⟨0,0,0⟩, ⟨4,0,0⟩, ⟨6,1,1⟩, ⟨2,1,2⟩] [t] [] true = some (v, d) ∧
      MathSem.den [t] [] (ETree.ofStack [⟨0,0,0⟩, ⟨4,0,0⟩, ⟨6,1,1⟩, ⟨2,1,2⟩]) = some v ∧
      ∃ hd : d.length = 1,
        HasDerivAt (fun θ => (MathSem.den ([t].set 0 θ) []
          (ETree.ofStack [⟨0,0,0⟩, ⟨4,0,0⟩, ⟨6,1,1⟩, ⟨2,1,2⟩])).getD 0) (d[0]'(by omega)) t :=
  gradient_of_denotation_x (D := 1) (L := 0) (by decide) [t] [] rfl rfl 0 (by decide)
    (rowsDifferentiable_of_smooth (by decide))

end C02
end Bingo
