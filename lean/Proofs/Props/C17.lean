import Model.Repro
import Proofs.Props.C19
/-!
# C17: seeded runs are reproducible; parallel evaluation equals serial evaluation

What a theorem can carry: (1) the operator registration order -- part of the seed-to-result
function, because the sampled operator is `items[index]` -- does not depend on the interpreter's
hash seed for the container the source uses (regenerated into `Gen.Repro`); (2) multiprocess
evaluation equals serial evaluation for every completion order (proved in C19).  That two
interpreter processes with equal seeds then run the same trajectory is runtime behaviour
(numpy / random determinism) and is validated by the harness, not proved.
-/
namespace Bingo.C17
open Bingo Repro

theorem gen_ok :
    Gen.Repro.problems = [] ∧ Gen.Repro.noneMeansDefault = true ∧ Gen.Repro.registrationLoopOver = "operators" ∧
    Gen.Repro.seedCalls = ["np.random.seed(self.random_state)", "random.seed(self.random_state)"] := by
  decide

/-- registration order is part of the seed-to-result function: two different orders differ at some
sampled index -/
theorem order_sensitivity (l1 l2 : List String) (hlen : l1.length = l2.length) (hne : l1 ≠ l2) :
    ∃ k, k < l1.length ∧ drawSample l1 k ≠ drawSample l2 k := by
  induction l1 generalizing l2 with
  | nil => cases l2 <;> simp_all
  | cons a as ih =>
    cases l2 with
    | nil => simp at hlen
    | cons b bs =>
      by_cases hab : a = b
      · subst hab
        have hne' : as ≠ bs := fun h => hne (by rw [h])
        obtain ⟨k, hk, hd⟩ := ih bs (by simpa using hlen) hne'
        exact ⟨k + 1, by simpa using hk, by simpa [drawSample] using hd⟩
      · exact ⟨0, by simp, by simp [drawSample, hab]⟩

/-- the default operator container is iterated in the same order under every hash seed -/
theorem registration_deterministic (perm : Nat → List String → List String) (seed1 seed2 : Nat) :
    registered Gen.Repro.setsIteratedSorted perm defaultContainer seed1 =
      registered Gen.Repro.setsIteratedSorted perm defaultContainer seed2 := by
  have hk : (Gen.Repro.defaultOperatorsKind = "set") = False := by decide
  have h : defaultContainer = .ordered Gen.Repro.defaultOperators := by
    unfold defaultContainer; rw [if_neg (by rw [hk]; exact id)]
  rw [h]; rfl

/-- also for a set supplied by the user: the source iterates sets in sorted order -/
theorem user_set_deterministic (perm : Nat → List String → List String) (l : List String) (seed1 seed2 : Nat) :
    registered Gen.Repro.setsIteratedSorted perm (.hashset l) seed1 =
      registered Gen.Repro.setsIteratedSorted perm (.hashset l) seed2 := by
  have h : Gen.Repro.setsIteratedSorted = true := by decide
  simp [registered, h]

/-- a hash-ordered container without sorting is NOT deterministic (the defect that was fixed in /repo) -/
theorem unsorted_set_depends_on_seed :
    ∃ (perm : Nat → List String → List String) (l : List String),
      registered false perm (.hashset l) 0 ≠ registered false perm (.hashset l) 1 :=
  ⟨fun seed l => if seed = 0 then l else l.reverse, ["+", "-"], by decide⟩

/-- multiprocess evaluation = serial evaluation for every completion order (C19) -/
theorem multiprocess_eq_serial (f : Nat → Key) (cost : Nat → Nat) (redundant : Bool) (pop : List Pipeline.Indiv)
    (order : List (Nat × Pipeline.Indiv × Nat) → List (Nat × Pipeline.Indiv × Nat))
    (h : (order (Pipeline.jobs f cost redundant pop)).Perm (Pipeline.jobs f cost redundant pop)) :
    Pipeline.multiprocessEval f cost redundant pop order = Pipeline.serialEval f cost redundant pop :=
  C19.multiprocess_phase f cost redundant pop order h

example : registered true (fun _ l => l.reverse) (.hashset ["sin", "+", "*"]) 5 = ["*", "+", "sin"] := by decide


/-- the only random-number sources in the library that the seeding of `SymbolicRegressor.fit` (`np.random.seed`,
`random.seed`) does not reach -- private generators (`default_rng`, `RandomState`, `random.Random`, OS entropy) or
re-seeding calls -- are the `np.random.seed` calls of the benchmark definitions, which a fit never runs -/
theorem no_private_rng :
    (Gen.Repro.privateRngSources.all fun s =>
      "bingo/symbolic_regression/benchmarking/".toList.isPrefixOf s.toList) = true := by
  decide

end Bingo.C17
