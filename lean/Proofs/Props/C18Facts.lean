import Model.Generated.SourceFacts
/-!
# C18 -- facts about `agraph.py` the object model (`Model/AGraphState.lean`) relies on, regenerated from the source

The model gives every computing read the shape "refresh the cache if the object was modified, then read the cache", and
every write path through the command array the shape "store, then `_notify_modification()`".  The translator
(`translator/t_facts.py`) recomputes on every run, from the AST of `AGraph`,

* the methods that read the cached simplified stack / constants / optimization request WITHOUT a preceding
  `if self._modified: self._update()`,
* the methods in which that guard precedes the first read,
* the call sites of `_notify_modification()` and whether each is an unconditional top-level statement,
* the text of `_notify_modification`.

A read entry point that loses its guard, a new unguarded reader, or a notification that becomes conditional changes these
lists and the theorem below no longer checks.
-/
namespace Bingo
namespace C18Facts
open Gen.SourceFacts

/-- the only readers of the cache without a guard are the plain accessors of the stored constants, `_update` itself and the
copy helper (the model treats the stored constants as state, not as a computed observation) -/
theorem gen_agraph_readers :
    unguardedCacheReaders = ["constants", "_update", "get_local_optimization_params", "_copy_agraph_values_to_new_graph"] ∧
    guardedCacheReaders = ["needs_local_optimization", "get_number_local_optimization_params", "evaluate_equation_at",
      "evaluate_equation_with_x_gradient_at", "evaluate_equation_with_local_opt_gradient_at", "get_formatted_string",
      "get_complexity"] ∧
    problems = [] := by decide

/-- both ways of writing the command array notify unconditionally, and a notification raises `_modified` and clears the
stored fitness and its flag (`AG.notify`) -/
theorem gen_agraph_writers :
    notifySites = [("command_array.setter", "unconditional"), ("mutable_command_array", "unconditional")] ∧
    agraphNotifyModification = "self._modified = True ; self._fitness = None ; self._fit_set = False" := by decide

/-- the state of an equation object is exactly what the model (`AG.St`) carries: the command array, the cached simplified
stack and constants with their two flags, the stored fitness with its flag, and the simplification switch; a further
attribute (say, a cache of printed strings) would be state the model does not have -/
theorem gen_agraph_attributes :
    agraphAttributes = ["_command_array", "_fit_set", "_fitness", "_modified", "_needs_opt", "_simplified_command_array",
      "_simplified_constants", "_use_simplification", "command_array"] := by decide

/-- the refresh the model `AG.update` mirrors: simplify or reduce, renumber the constant rows, keep / truncate / re-initialise the stored constants, lower `_modified` -/
theorem gen_agraph_update :
    agraphUpdate = "if self._use_simplification:     self._simplified_command_array = simplification_backend.simplify_stack(self._command_array) else:     self._simplified_command_array = simplification_backend.reduce_stack(self._command_array) ; const_commands = self._simplified_command_array[:, 0] == CONSTANT ; num_const = np.count_nonzero(const_commands) ; self._simplified_command_array[const_commands, 1] = np.arange(num_const) ; self._simplified_command_array[const_commands, 2] = np.arange(num_const) ; optimization_aggression = 0 ; if optimization_aggression == 0 and num_const <= len(self._simplified_constants):     self._simplified_constants = self._simplified_constants[:num_const] elif optimization_aggression == 1 and num_const == len(self._simplified_constants):     self._simplified_constants = self._simplified_constants[:num_const] else:     self._simplified_constants = (1.0,) * num_const     if num_const > 0:         self._needs_opt = True ; self._modified = False" :=
  rfl

end C18Facts
end Bingo
