import Proofs.Lemmas.CasTermNec
/-!
# C03 (termination): bingo's algebraic simplifier terminates

Every function of `Model/Cas/*.lean` that mirrors a recursive Python function carries a fuel argument and
answers `.error "fuel"` when it is exhausted; the Python code has no fuel.  "The Python function
terminates on `x`" is therefore "for some fuel the model's answer on `x` is not `.error "fuel"`", and by
`fuel_stable` the answer is then the same for every larger fuel.  Only statements live here; the proofs
are in `Proofs/Lemmas/CasTerm*.lean`.

Vocabulary (`Proofs/Lemmas/CasTermLevel.lean`):
* `NE T e` — structural well-formedness: every terminal is an `INTEGER` or carries an operator allowed
  by `T` (and different from `MULTIPLICATION`); every node has an operand, sums and products have at
  least two, every other node at most two.  No semantic hypothesis: arbitrary `POWER` / `SAFE_POWER`
  nodes, arbitrary exponents, constants.  `NEL T l`: all members of `l`.
* `TOK T e` — the same condition on the terminals only, nothing about the nodes.
* the termination measure: three mutually recursive "levels" of an expression,
  `sl e` (as operand of a sum), `pl e` (as operand of a product), `cl e` (as base of a power):
    sl (INTEGER) = 0, sl (other terminal) = 2, sl (a₁ + … + aₙ) = max sl aᵢ,
    sl (a₁ · … · aₙ) = 1 + max 1 (max pl aᵢ), sl (b ^ x) = 2 + sl x + cl b, sl (other node) = 2;
    pl (INTEGER) = 0, pl (other terminal) = 1, pl (a₁ · … · aₙ) = max pl aᵢ, pl (b ^ x) = 1 + sl x + cl b,
    pl (a₁ + … + aₙ) = 1 + (max sl aᵢ - 2), pl (other node) = 1;
    cl (terminal) = 0, cl (a₁ · … · aₙ) = 1 + max cl aᵢ, cl (b ^ x) = cl b + pl x + sl x + 4,
    cl (a₁ + … + aₙ) = max sl aᵢ - 2, cl (other node) = 0.
  Stage 1 (`CasTermClosure.lean`, induction on the fuel): the operand lists of one level are closed under
  the results (`simplifySumRec_level`, …).  Stage 2 (`CasTermMain.lean`, strong induction on the level):
  every call is made at a strictly lower level, or at the same level on a smaller argument (power functions
  before products; `mergeProducts` / `mergeSums` by the total size of the two lists, the `…Rec` functions
  by the length of the list); the one call that stays on its level, the sum of two coefficients, is a
  sum of two terminals whose own coefficients are `1`.
* `size e` — number of nodes: the measure for the ordering `__lt__` and for the constant-folding loop.
The bound for the eight mutually recursive functions and for `automatic_simplify` is an EXISTENCE
statement (no closed formula for the fuel); the bounds for `__lt__` and `fold_constants` are explicit.
-/
namespace Bingo.C03Term
open Bingo Bingo.Cas Bingo.Cas.Term Gen.OpDefs Expr

/-! ## 1. the answer does not depend on the fuel once it suffices -/

/-- stronger than `C03Cas.fuel_mono`: also a run that raises (anything but the fuel error) is stable -/
theorem fuel_stable {st : Bool} {f f' : Nat} (hle : f ≤ f') {e : Expr}
    (h : automaticSimplify st f e ≠ .error "fuel") :
    automaticSimplify st f' e = automaticSimplify st f e := automaticSimplify_le hle h

/-! ## 2. the ordering `Expression.__lt__`: explicit fuel -/

theorem ltF_terminates (a b : Expr) {f : Nat} (h : 3 * (size a + size b) ≤ f) :
    ltF f a b ≠ .error "fuel" := Term.ltF_terminates a b h

/-! ## 3. the eight mutually recursive functions terminate on well-formed operands -/

section eight
variable {T : Int → Bool} (st : Bool)

theorem simplifyPower_terminates {b e : Expr} (hb : NE T b = true) (he : NE T e = true) :
    ∃ N, simplifyPower st N b e ≠ .error "fuel" := halts_pow st hb he

theorem simplifyConstantPower_terminates {b e : Expr} (hb : NE T b = true) (he : NE T e = true) :
    ∃ N, simplifyConstantPower st N b e ≠ .error "fuel" :=
  (termAt st _).cpow b e hb he (Nat.le_refl _)

theorem simplifyProduct_terminates {l : List Expr} (hl : NEL T l = true) (hne : l ≠ []) :
    ∃ N, simplifyProduct st N l ≠ .error "fuel" := halts_prod st hl hne

theorem simplifyProductRec_terminates {l : List Expr} (hl : NEL T l = true) (hlen : 2 ≤ l.length) :
    ∃ N, simplifyProductRec st N l ≠ .error "fuel" :=
  (termAt st _).prodRec l (fun a ha => NEM_of_NE (NEL_iff.1 hl a ha)) hlen (Nat.le_refl _)

theorem mergeProducts_terminates {l₁ l₂ : List Expr} (h1 : NEL T l₁ = true) (h2 : NEL T l₂ = true) :
    ∃ N, mergeProducts st N l₁ l₂ ≠ .error "fuel" :=
  (termAt st (max (plL l₁) (plL l₂))).mergeP l₁ l₂ h1 h2 (Nat.le_max_left _ _) (Nat.le_max_right _ _)

theorem simplifySum_terminates {l : List Expr} (hl : NEL T l = true) (hne : l ≠ []) :
    ∃ N, simplifySum st N l ≠ .error "fuel" := halts_sum st hl hne

theorem simplifySumRec_terminates {l : List Expr} (hl : NEL T l = true) (hlen : 2 ≤ l.length) :
    ∃ N, simplifySumRec st N l ≠ .error "fuel" := (termAt st _).sumRec l hl hlen (Nat.le_refl _)

theorem mergeSums_terminates {l₁ l₂ : List Expr} (h1 : NEL T l₁ = true) (h2 : NEL T l₂ = true) :
    ∃ N, mergeSums st N l₁ l₂ ≠ .error "fuel" :=
  (termAt st (max (slL l₁) (slL l₂))).mergeS l₁ l₂ h1 h2 (Nat.le_max_left _ _) (Nat.le_max_right _ _)

/-- the lists of one level are closed under the results (what makes the induction go through) -/
theorem simplifySumRec_level {f : Nat} {l rs : List Expr} (hl : NEL T l = true)
    (h : simplifySumRec st f l = .ok rs) : NEL T rs = true ∧ slL rs ≤ slL l :=
  (clAt st f).sumRec l rs hl h

theorem simplifyProductRec_level {f : Nat} {l rs : List Expr} (hl : NEL T l = true)
    (h : simplifyProductRec st f l = .ok rs) : NEL T rs = true ∧ plL rs ≤ plL l :=
  (clAt st f).prodRec l rs (fun a ha => NEM_of_NE (NEL_iff.1 hl a ha)) h

theorem simplifyPower_level {f : Nat} {b e r : Expr} (hb : NE T b = true) (he : NE T e = true)
    (h : simplifyPower st f b e = .ok r) : NE T r = true ∧ pl r ≤ 1 + sl e + cl b :=
  (clAt st f).pow b e r hb he h

end eight

/-! ## 4. `automatic_simplify` terminates -/

/-- **`automaticSimplify_terminates`**: for every expression whose terminals are integers or carry an
operator other than `MULTIPLICATION` (no condition on the nodes, no semantic hypothesis) there is a fuel
from which on `automaticSimplify` never answers `"fuel"` -/
theorem automaticSimplify_terminates (st : Bool) {T : Int → Bool} (e : Expr) (h : TOK T e = true) :
    ∃ N, ∀ f, N ≤ f → automaticSimplify st f e ≠ .error "fuel" := by
  obtain ⟨N, hN⟩ := automaticSimplify_halts st e h
  exact ⟨N, fun f hf => by rw [automaticSimplify_le hf hN]; exact hN⟩

/-- its result is structurally well-formed -/
theorem automaticSimplify_wf (st : Bool) {T : Int → Bool} {f : Nat} {e r : Expr} (h : TOK T e = true)
    (hr : automaticSimplify st f e = .ok r) : NE T r = true := automaticSimplify_NE st f e h r hr

/-! ## 5. the passes around it -/

/-- the expression read off a stack is well-formed (terminals: integers, variables, constants) -/
theorem buildCas_wf {s : Stack} {e : Expr} (h : buildCasExpression s = .ok e) :
    NE varOrConst e = true := buildCas_NE (rowsT_any s) h

/-- `_group_constants` and `_insert_subtraction` keep it -/
theorem groupConstants_wf {T : Int → Bool} {e : Expr} (h : NE T e = true) :
    NE T (groupConstants e) = true := groupConstants_NE e h
theorem insertSubtraction_wf {T : Int → Bool} {e : Expr} (h : NE T e = true) :
    NE T (insertSubtraction e) = true := insertSubtraction_NE e h

/-- without constants the folding loop stops at once -/
theorem foldConstants_terminates_noconst {e : Expr} (h : NE onlyVar e = true) (fuel : Nat) :
    foldConstants (fuel+1) e = .ok (groupConstants e) := foldConstants_onlyVar h fuel

/-- every folding pass that is carried out makes the expression smaller (`size` = number of nodes):
`S` a duplicate-free list of constant ids of `e`, `repl` the non-empty replacement instructions computed
for it (the loop only continues with such a `repl`), `e'` the folded expression.  `Grp e`: the grouped
normal form established by `_group_constants` and kept by every pass. -/
theorem fold_progress {T : Int → Bool} {e : Expr} (hne : NE T e = true) (hg : Grp e = true)
    {S : List Int} (hnd : S.Nodup) (hsub : ∀ j ∈ S, j ∈ (getConstants e).map (·.1))
    {repl : Replacements}
    (hgen : generateReplacements S (getConstants e) (findInsertionPoints e S) = .ok repl)
    (hnonempty : repl.isEmpty = false) {e' : Expr}
    (hp : performConstantFolding repl e = .ok e') : size e' < size e :=
  Term.fold_progress hne hg hnd hsub hgen hnonempty hp

/-- **`foldConstants_terminates`**, explicit fuel: one unit per node of the grouped expression, plus one -/
theorem foldConstants_terminates {e : Expr} (h : NE varOrConst e = true) {f : Nat}
    (hf : size (groupConstants e) < f) : foldConstants f e ≠ .error "fuel" :=
  foldConstants_nfu varOrConst_cases (by decide) h hf

/-- its result is structurally well-formed -/
theorem foldConstants_wf {e e' : Expr} {f : Nat} (h : NE varOrConst e = true)
    (hr : foldConstants f e = .ok e') : NE varOrConst e' = true :=
  foldConstants_NE varOrConst_cases (by decide) h hr

/-- `optional_modifications` has no fuel -/
theorem optionalModifications_terminates (e : Expr) : optionalModifications e ≠ .error "fuel" :=
  optionalModifications_nfu e

/-- `build_agraph_stack` (fuel of `_add_associative_operators_to_stack` = number of locations + 1)
never runs out of fuel on an expression all of whose nodes have an operand -/
theorem buildAgraphStack_terminates {e : Expr} (h : NEmp e = true) :
    buildAgraphStack e ≠ .error "fuel" := buildAgraphStack_nfu h

/-! ## 6. end to end -/

/-- the pipeline with the fuel as a parameter is the model's pipeline at `fuelFor` -/
theorem simplifyWith_eq (st : Bool) (s : Stack) :
    simplifyWith st s = simplifyWithFuel st (fuelFor s.length) s := rfl

/-- **`simplify_terminates`**: on every well-formed stack (any operators, constants allowed) the pipeline
`build_cas_expression → automatic_simplify → fold_constants → optional_modifications → build_agraph_stack`
run with enough fuel never answers `"fuel"`, i.e. bingo's `simplify` terminates (possibly by raising an
`OverflowError`, which `simplify_stack` turns into a call of `reduce_stack`).
Whether the model's fixed `fuelFor n = 64 (n+4)²` is always enough (`C03Cas.terminates_Full`) is NOT
decided here: the bound obtained for `automatic_simplify` is an existence statement. -/
theorem simplify_terminates {D L : Nat} {s : Stack} (hwf : WF.WFEval D L s) (st : Bool) :
    ∃ N, ∀ f, N ≤ f → simplifyWithFuel st f s ≠ .error "fuel" :=
  simplifyWithFuel_halts hwf st

/-! ## 7. the structural hypotheses are necessary

The only inputs on which the model does not terminate (for EVERY fuel the answer is `"fuel"`; Python:
unbounded recursion) are ill-formed expressions that no command stack produces. -/

/-- `_simplify_product_rec([])` calls itself on `[][1:] = []` -/
theorem simplifyProduct_nil_diverges (st : Bool) (f : Nat) : simplifyProduct st f [] = .error "fuel" :=
  simplifyProduct_nil st f

/-- so a constant power of a product without operands diverges (excluded by `NE`) -/
theorem emptyProduct_power_diverges (st : Bool) (f : Nat) :
    simplifyConstantPower st f (node MULTIPLICATION []) (term CONSTANT 0 true) = .error "fuel" :=
  simplifyConstantPower_emptyProduct st f

/-- `_add_associative_operators_to_stack` on no locations at all (a node without operands, excluded by
`NEmp`) -/
theorem addAssociative_nil_diverges (op : Int) (d : StackDict) (f : Nat) :
    addAssociative op f [] d = .error "fuel" := addAssociative_nil op d f

/-! ## 8. examples -/

/-- `(x0 + x0) / x0` as an expression -/
def eQ : Expr :=
  node DIVISION [node ADDITION [term VARIABLE 0 true, term VARIABLE 0 true], term VARIABLE 0 true]

example : TOK varOrConst eQ = true := by decide
example : sl eQ = 2 ∧ pl eQ = 1 ∧ cl eQ = 0 := by decide
/-- fuel 7 suffices for it, 6 does not (`fuelFor 3 = 3136`) -/
example : automaticSimplify true 7 eQ = .ok (term INTEGER 2 false) := by rfl
example : automaticSimplify true 6 eQ = .error "fuel" := by rfl

/-- the stack of `(x0 + x0) / x0` -/
example : simplifyWithFuel true 7 [⟨0,0,0⟩, ⟨2,0,0⟩, ⟨5,1,0⟩] = .ok [⟨-1,2,2⟩] := by rfl

/-- `x0 ^ (x0 + c0)`: levels outside the integer-power fragment of `C03Cas` -/
example : pl (node POWER [term VARIABLE 0 true,
    node ADDITION [term VARIABLE 0 true, term CONSTANT 0 true]]) = 3 := by decide

/-- the end-to-end theorem applies to a stack with a constant and a non-literal power:
`c0 * x0 + x0 ^ c0` -/
example : ∃ N, ∀ f, N ≤ f →
    simplifyWithFuel true f [⟨1,0,0⟩, ⟨0,0,0⟩, ⟨4,0,1⟩, ⟨10,1,0⟩, ⟨2,2,3⟩] ≠ .error "fuel" :=
  simplify_terminates (D := 1) (L := 1) (by decide) true

end Bingo.C03Term
