import Proofs.Lemmas.VariationFresh
import Proofs.Lemmas.PipelineExamples
import Model.Generated.Phases
import Proofs.Props.C04
/-!
# C05, variation phase: the children handed to the evaluation are fresh

The concrete semantics of C05 (`PipelineSem.CStep.variation`) ASSUMES that the offspring list is
fresh (`AllFresh f cs`).  Here that assumption is derived from models of the variation classes
(`Model/VariationPhase.lean`: `VarAnd.__call__`, `VarOr.__call__`, `AddRandomIndividuals.__call__`)
and a contract on the operators they are configured with.

* `OperatorContract f crossover mutation` -- children of fresh parents are fresh.  It holds for
  `SinglePointCrossover` / `SinglePointMutation` (`svCrossover_contract`, `svMutation_contract`:
  the children are unflagged) and, more generally, for every pair of operators whose crossover
  children are unflagged and whose mutant is unflagged or an exact copy
  (`contract_of_unflagged_or_copy`).
  For `AGraphCrossover` / `AGraphMutation` these two facts are `C04.crossover_children` (both
  children `fitSet = false`) and `C04.mutation_child` (`w = [] → child = parent`,
  `w ≠ [] → child.fitSet = false`), Proofs/Props/C04.lean section 10; `agraph_operators_fresh`
  restates them as freshness of the children over the object model `AG.St`.
* `varAnd_fresh` needs the contract (the `example` in section 4 shows a crossover that violates it
  and a stale offspring); `varOr_unflagged` needs nothing.
* `variation_step_sound` discharges the hypothesis of `CStep.variation` for the three models.

Draws are universally quantified everywhere.  The population is assumed non-empty (the Python
code raises on an empty one as soon as it indexes it).
-/
namespace Bingo.C05Var
open Bingo.Pipeline Bingo.PipelineSem Bingo.VarPhase

/-! ## 1. the operator contract -/

/-- crossover children unflagged, mutant unflagged or an exact copy of the parent: the shape of
`C04.crossover_children` / `C04.mutation_child` and of the multiple-value operators -/
theorem contract_of_unflagged_or_copy (f : Nat → Key)
    (crossover : Indiv → Indiv → Nat → Indiv × Indiv) (mutation : Indiv → Nat → Indiv)
    (hx : ∀ p1 p2 r, (crossover p1 p2 r).1.flag = false ∧ (crossover p1 p2 r).2.flag = false)
    (hm : ∀ p r, (mutation p r).flag = false ∨ mutation p r = p) :
    OperatorContract f crossover mutation where
  crossover_fresh p1 p2 r _ _ :=
    ⟨fresh_of_unflagged f (hx p1 p2 r).1, fresh_of_unflagged f (hx p1 p2 r).2⟩
  mutation_fresh p r hp := by
    rcases hm p r with h | h
    · exact fresh_of_unflagged f h
    · rw [h]; exact hp

/-- `SinglePointCrossover`: both children are unflagged, for every numbering of value lists, every
draw and every parents (fresh or not) -/
theorem svCrossover_contract (f : Nat → Key) (enc : List Nat → Nat) (dec : Nat → List Nat)
    (p1 p2 : Indiv) (r : Nat) :
    (svCrossoverI enc dec p1 p2 r).1.flag = false ∧ (svCrossoverI enc dec p1 p2 r).2.flag = false ∧
    Fresh f (svCrossoverI enc dec p1 p2 r).1 ∧ Fresh f (svCrossoverI enc dec p1 p2 r).2 :=
  ⟨rfl, rfl, fresh_of_unflagged f rfl, fresh_of_unflagged f rfl⟩

/-- `SinglePointMutation`: the child is unflagged -/
theorem svMutation_contract (f : Nat → Key) (mf : Nat → Nat) (enc : List Nat → Nat)
    (dec : Nat → List Nat) (p : Indiv) (r : Nat) :
    (svMutationI mf enc dec p r).flag = false ∧ Fresh f (svMutationI mf enc dec p r) :=
  ⟨rfl, fresh_of_unflagged f rfl⟩

/-- hence the multiple-value operators satisfy the contract -/
theorem sv_operator_contract (f : Nat → Key) (mf : Nat → Nat) (enc : List Nat → Nat)
    (dec : Nat → List Nat) :
    OperatorContract f (svCrossoverI enc dec) (svMutationI mf enc dec) :=
  contract_of_unflagged_or_copy f _ _
    (fun p1 p2 r => ⟨(svCrossover_contract f enc dec p1 p2 r).1, (svCrossover_contract f enc dec p1 p2 r).2.1⟩)
    (fun p r => Or.inl (svMutation_contract f mf enc dec p r).1)

/-- what the small models compute (object level): recombined values, larger parental age, stored
value kept (but unflagged) -/
theorem sv_operators_spec (mf : Nat → Nat) (p1 p2 : MVChrom) (r : Nat) :
    (svCrossover p1 p2 r).1.values =
      p1.values.take (r % p1.values.length) ++ p2.values.drop (r % p1.values.length) ∧
    (svCrossover p1 p2 r).2.values =
      p2.values.take (r % p1.values.length) ++ p1.values.drop (r % p1.values.length) ∧
    (svCrossover p1 p2 r).1.age = max p1.age p2.age ∧
    (svCrossover p1 p2 r).2.age = max p1.age p2.age ∧
    (svCrossover p1 p2 r).1.fit = p1.fit ∧ (svCrossover p1 p2 r).2.fit = p2.fit ∧
    (svMutation mf p1 r).values = p1.values.set (r % p1.values.length) (mf r) ∧
    (svMutation mf p1 r).age = p1.age ∧ (svMutation mf p1 r).fit = p1.fit := by
  refine ⟨rfl, rfl, ?_, ?_, rfl, rfl, rfl, rfl, rfl⟩ <;>
  · simp only [svCrossover]
    split <;> omega

/-- an `AGraph` object (`AG.St`, the object model of C04/C18) seen as an `Indiv`; `code` numbers
the genomes (any function of the object: command array, constants) -/
def agIndiv {V : Type} (code : AG.St V → Nat) (s : AG.St V) : Indiv :=
  ⟨code s, s.fit, s.fitSet, s.age⟩

/-- `AGraphCrossover.__call__` / `AGraphMutation.__call__` (the regenerated op lists of C04 section
10) deliver fresh children: both crossover children are unflagged; the mutant is unflagged as soon
as one store happened and an exact copy of the parent otherwise -/
theorem agraph_operators_fresh {V : Type} (f : Nat → Key) (code : AG.St V → Nat) :
    (∀ (p1 p2 : AG.St V) cut c1 c2, p1.cmd.length = p2.cmd.length → 1 ≤ cut →
      cut < p1.cmd.length - 1 →
      VarObj.crossoverObj Gen.Variation.crossoverOps p1 p2 cut = some (c1, c2) →
      Fresh f (agIndiv code c1) ∧ Fresh f (agIndiv code c2)) ∧
    (∀ (parent : AG.St V) w child,
      VarObj.mutationObj Gen.Variation.mutationOps parent w = some child →
      Fresh f (agIndiv code parent) → Fresh f (agIndiv code child)) := by
  constructor
  · intro p1 p2 cut c1 c2 hlen h1 h2 hx
    obtain ⟨d1, d2, hd, _, _, hf1, hf2, _⟩ := C04.crossover_children p1 p2 cut [] hlen h1 h2
    rw [hx] at hd
    cases hd
    exact ⟨fresh_of_unflagged f hf1, fresh_of_unflagged f hf2⟩
  · intro parent w child hm hp
    obtain ⟨c, hc, _, hcopy, hwr, _⟩ := C04.mutation_child parent w
    rw [hm] at hc
    cases hc
    by_cases hw : w = []
    · rw [hcopy hw]; exact hp
    · exact fresh_of_unflagged f (hwr hw).1

/-! ## 2. `VarAnd` -/

/-- under the operator contract, `VarAnd` maps a fresh non-empty population to fresh offspring:
for every offspring count and all draws of both loops -/
theorem varAnd_fresh (f : Nat → Key) (crossover : Indiv → Indiv → Nat → Indiv × Indiv)
    (mutation : Indiv → Nat → Indiv) (hc : OperatorContract f crossover mutation)
    (population : List Indiv) (hne : population ≠ []) (hpop : AllFresh f population)
    (numberOffspring : Nat) (cx mu : List (Bool × Nat)) :
    AllFresh f (varAnd crossover mutation population numberOffspring cx mu) :=
  mutatePopulation_fresh hc.mutation_fresh
    (crossoverPopulation_fresh hc hne hpop numberOffspring cx) mu

/-- exactly `number_offspring` offspring, including 0 (both loops empty) and 1 (only the odd last
copy); no hypothesis on operators, population or draws -/
theorem varAnd_length (crossover : Indiv → Indiv → Nat → Indiv × Indiv)
    (mutation : Indiv → Nat → Indiv) (population : List Indiv) (numberOffspring : Nat)
    (cx mu : List (Bool × Nat)) :
    (varAnd crossover mutation population numberOffspring cx mu).length = numberOffspring := by
  unfold varAnd
  rw [mutatePopulation_length, crossoverPopulation_length]

/-- the two small cases spelled out: nothing for 0; for 1 a (possibly mutated) copy of
`population[1 % len(population)]` -/
theorem varAnd_small (crossover : Indiv → Indiv → Nat → Indiv × Indiv)
    (mutation : Indiv → Nat → Indiv) (population : List Indiv) (cx mu : List (Bool × Nat)) :
    varAnd crossover mutation population 0 cx mu = [] ∧
    varAnd crossover mutation population 1 cx mu =
      [if (mu.headD (false, 0)).1 then
          mutation (nth population (1 % population.length)) (mu.headD (false, 0)).2
        else nth population (1 % population.length)] := ⟨rfl, rfl⟩

/-! ## 3. `VarOr` and `AddRandomIndividuals` -/

/-- every offspring of `VarOr` is unflagged: no contract, any population, all draws -/
theorem varOr_unflagged (crossover : Indiv → Indiv → Nat → Indiv × Indiv)
    (mutation : Indiv → Nat → Indiv) (population : List Indiv) (numberOffspring : Nat)
    (draws : List OrDraw) :
    ∀ c ∈ varOr crossover mutation population numberOffspring draws, c.flag = false :=
  orLoop_unflagged population numberOffspring draws (fun _ h => by cases h)

theorem varOr_fresh (f : Nat → Key) (crossover : Indiv → Indiv → Nat → Indiv × Indiv)
    (mutation : Indiv → Nat → Indiv) (population : List Indiv) (numberOffspring : Nat)
    (draws : List OrDraw) :
    AllFresh f (varOr crossover mutation population numberOffspring draws) :=
  allUnflagged_fresh f (varOr_unflagged crossover mutation population numberOffspring draws)

theorem varOr_length (crossover : Indiv → Indiv → Nat → Indiv × Indiv)
    (mutation : Indiv → Nat → Indiv) (population : List Indiv) (numberOffspring : Nat)
    (draws : List OrDraw) :
    (varOr crossover mutation population numberOffspring draws).length = numberOffspring := by
  unfold varOr
  rw [orLoop_length]
  exact Nat.zero_add _

/-- `AddRandomIndividuals`: fresh children of the wrapped variation plus generated individuals
that are fresh (a new chromosome is unflagged: `newChromosome_contract`) -/
theorem addRandom_fresh (f : Nat → Key) (variation : List Indiv → Nat → List Indiv)
    (gen : Nat → Indiv) (hg : GeneratorContract f gen) (numRandIndvs : Nat)
    (population : List Indiv) (numberOffspring : Nat) (draws : List Nat)
    (hv : AllFresh f (variation population numberOffspring)) :
    AllFresh f (addRandom variation gen numRandIndvs population numberOffspring draws) :=
  generateNewPop_fresh hg numRandIndvs draws hv

/-- it returns `num_rand_indvs` MORE individuals than the wrapped variation -/
theorem addRandom_length (variation : List Indiv → Nat → List Indiv) (gen : Nat → Indiv)
    (numRandIndvs : Nat) (population : List Indiv) (numberOffspring : Nat) (draws : List Nat) :
    (addRandom variation gen numRandIndvs population numberOffspring draws).length =
      (variation population numberOffspring).length + numRandIndvs :=
  generateNewPop_length gen numRandIndvs draws _

theorem generator_contract_new (f : Nat → Key) (genomeOf : Nat → Nat) :
    GeneratorContract f fun r => newChromosome (genomeOf r) :=
  newChromosome_contract f genomeOf

/-! ## 4. the contract is needed for `VarAnd` -/

/-- `SinglePointCrossover.__call__` with the statement `child_2.fit_set = False` removed: the
second child keeps the parent's flag and stored value but carries a recombined genome -/
def svCrossoverSeeded (enc : List Nat → Nat) (dec : Nat → List Nat) (p1 p2 : Indiv) (r : Nat) :
    Indiv × Indiv :=
  let c := svCrossoverI enc dec p1 p2 r
  (c.1, { c.2 with flag := p2.flag })

/-- two evaluated parents with value lists [1,2] and [3,4] -/
def exPop : List Indiv := [⟨12, some (Ex.f 12), true, 0⟩, ⟨34, some (Ex.f 34), true, 1⟩]

def exMutation : Indiv → Nat → Indiv := svMutationI (fun r => r / 2) encDigits decDigits

/-- the population is fresh (even evaluated), the crossover happens at point 1, no mutation: the
second offspring has genome [3,2], is flagged, and stores the fitness of [3,4] -/
example :
    AllEv Ex.f exPop ∧
    varAnd (svCrossoverSeeded encDigits decDigits) exMutation exPop 2 [(true, 1)] [] =
      [⟨14, some (Ex.f 12), false, 1⟩, ⟨32, some (Ex.f 34), true, 1⟩] ∧
    ¬ AllFresh Ex.f (varAnd (svCrossoverSeeded encDigits decDigits) exMutation exPop 2 [(true, 1)] []) ∧
    -- the seeded operator violates the contract on these very parents
    ¬ Fresh Ex.f (svCrossoverSeeded encDigits decDigits ⟨12, some (Ex.f 12), true, 0⟩
        ⟨34, some (Ex.f 34), true, 1⟩ 1).2 ∧
    -- with the real operator the same draws give fresh (unflagged) offspring
    varAnd (svCrossoverI encDigits decDigits) exMutation exPop 2 [(true, 1)] [] =
      [⟨14, some (Ex.f 12), false, 1⟩, ⟨32, some (Ex.f 34), false, 1⟩] := by
  decide

/-! ## 5. the hypothesis of `CStep.variation` is discharged -/

/-- from a state whose population is fresh and non-empty (what `absStep` guarantees at a
`variation` phase, plus non-emptiness), the output of each of the three models is a legal
`variation` step of the concrete semantics of C05 -/
theorem variation_step_sound (f : Nat → Key) (crossover : Indiv → Indiv → Nat → Indiv × Indiv)
    (mutation : Indiv → Nat → Indiv) (gen : Nat → Indiv) (s : CState) :
    -- VarAnd: contract, fresh non-empty population
    (OperatorContract f crossover mutation → s.pop ≠ [] → AllFresh f s.pop →
      ∀ n cx mu, CStep f .variation s { s with off := some (varAnd crossover mutation s.pop n cx mu) }) ∧
    -- VarOr: nothing
    (∀ n draws, CStep f .variation s { s with off := some (varOr crossover mutation s.pop n draws) }) ∧
    -- AddRandomIndividuals around any variation whose output is fresh
    (GeneratorContract f gen → ∀ (variation : List Indiv → Nat → List Indiv) numRand n draws,
      AllFresh f (variation s.pop n) →
      CStep f .variation s { s with off := some (addRandom variation gen numRand s.pop n draws) }) ∧
    -- in particular around VarAnd and VarOr
    (OperatorContract f crossover mutation → GeneratorContract f gen → s.pop ≠ [] → AllFresh f s.pop →
      ∀ numRand n cx mu draws, CStep f .variation s
        { s with off := some (addRandom (fun p k => varAnd crossover mutation p k cx mu) gen numRand s.pop n draws) }) ∧
    (GeneratorContract f gen → ∀ numRand n ordraws draws, CStep f .variation s
        { s with off := some (addRandom (fun p k => varOr crossover mutation p k ordraws) gen numRand s.pop n draws) }) := by
  refine ⟨?_, ?_, ?_, ?_, ?_⟩
  · intro hc hne hpop n cx mu
    exact .variation s _ (varAnd_fresh f crossover mutation hc s.pop hne hpop n cx mu)
  · intro n draws
    exact .variation s _ (varOr_fresh f crossover mutation s.pop n draws)
  · intro hg variation numRand n draws hv
    exact .variation s _ (addRandom_fresh f variation gen hg numRand s.pop n draws hv)
  · intro hc hg hne hpop numRand n cx mu draws
    exact .variation s _ (addRandom_fresh f _ gen hg numRand s.pop n draws
      (varAnd_fresh f crossover mutation hc s.pop hne hpop n cx mu))
  · intro hg numRand n ordraws draws
    exact .variation s _ (addRandom_fresh f _ gen hg numRand s.pop n draws
      (varOr_fresh f crossover mutation s.pop n ordraws))

/-- end to end with modelled children: a generational step `variation ; evalOff ; ...` accepted by
the abstract interpreter, run with `VarAnd` offspring instead of arbitrary fresh children -/
theorem varAnd_then_eval_evaluated (f : Nat → Key) (crossover : Indiv → Indiv → Nat → Indiv × Indiv)
    (mutation : Indiv → Nat → Indiv) (hc : OperatorContract f crossover mutation)
    (population : List Indiv) (hne : population ≠ []) (hpop : AllFresh f population)
    (n : Nat) (cx mu : List (Bool × Nat)) (cost : Nat → Nat) (redundant : Bool) :
    AllEv f (serialEval f cost redundant (varAnd crossover mutation population n cx mu)).1 :=
  EvalPhase.serialEval_all_evaluated cost redundant
    (varAnd_fresh f crossover mutation hc population hne hpop n cx mu)

/-- a whole generational step whose first phase is the variation, accepted by the abstract
interpreter, run with `VarAnd` offspring: whatever the remaining phases do, the returned list is
evaluated -/
theorem step_with_varAnd (f : Nat → Key) (crossover : Indiv → Indiv → Nat → Indiv × Indiv)
    (mutation : Indiv → Nat → Indiv) (hc : OperatorContract f crossover mutation)
    (ps : List Phase) (hacc : accepts .fr (.variation :: ps) = true)
    (population : List Indiv) (hne : population ≠ []) (hpop : AllFresh f population)
    (n : Nat) (cx mu : List (Bool × Nat)) (s' : CState)
    (hrun : CRun f ps ⟨population, some (varAnd crossover mutation population n cx mu), none⟩ s') :
    ∃ nx, s'.next = some nx ∧ AllEv f nx :=
  (step_sound (entry := .fr) hacc hpop).2 s'
    (CRun.cons ((variation_step_sound f crossover mutation default ⟨population, none, none⟩).1
      hc hne hpop n cx mu) hrun)

/-- the same with `VarOr` offspring (no contract) -/
theorem step_with_varOr (f : Nat → Key) (crossover : Indiv → Indiv → Nat → Indiv × Indiv)
    (mutation : Indiv → Nat → Indiv)
    (ps : List Phase) (hacc : accepts .fr (.variation :: ps) = true)
    (population : List Indiv) (hpop : AllFresh f population)
    (n : Nat) (draws : List OrDraw) (s' : CState)
    (hrun : CRun f ps ⟨population, some (varOr crossover mutation population n draws), none⟩ s') :
    ∃ nx, s'.next = some nx ∧ AllEv f nx :=
  (step_sound (entry := .fr) hacc hpop).2 s'
    (CRun.cons ((variation_step_sound f crossover mutation default ⟨population, none, none⟩).2.1
      n draws) hrun)

/-! ## 6. the modelled methods, verbatim -/

/-- the text of the methods `Model/VariationPhase.lean` mirrors, regenerated from the source by
`translator/t_phases.py`: a change of any of them breaks this theorem -/
theorem gen_variation_shapes :
    Gen.Phases.varAndCall =
      "self.crossover_offspring_type = np.zeros(number_offspring, object) ; self.mutation_offspring_type = np.zeros(number_offspring, object) ; self.offspring_parents = [[]] * number_offspring ; offspring = self._crossover_population(number_offspring, population) ; self._mutate_population(offspring) ; return offspring" ∧
    Gen.Phases.varAndCrossoverPopulation =
      "offspring = [] ; for i in range(0, number_offspring - 1, 2):     parent_index_1 = i % len(population)     parent_index_2 = (parent_index_1 + 1) % len(population)     if np.random.random() <= self._crossover_probability:         child_1, child_2 = self._crossover(population[parent_index_1], population[parent_index_2])         offspring.append(child_1)         offspring.append(child_2)         self.crossover_offspring_type[i:i + 2] = self._crossover.last_crossover_types         self.offspring_parents[i] = [parent_index_1, parent_index_2]         self.offspring_parents[i + 1] = [parent_index_1, parent_index_2]     else:         offspring.append(population[parent_index_1].copy())         offspring.append(population[parent_index_2].copy())         self.offspring_parents[i] = [parent_index_1]         self.offspring_parents[i + 1] = [parent_index_2] ; if len(offspring) < number_offspring:     parent_index_1 = (len(offspring) + 1) % len(population)     offspring.append(population[parent_index_1].copy())     self.offspring_parents[-1] = [parent_index_1] ; return offspring" ∧
    Gen.Phases.varAndMutatePopulation =
      "for i, parent in enumerate(offspring):     if np.random.random() <= self._mutation_probability:         offspring[i] = self._mutation(parent)         self.mutation_offspring_type[i] = self._mutation.last_mutation_type" ∧
    Gen.Phases.varOrCall =
      "offspring = [] ; self.crossover_offspring_type = np.zeros(number_offspring, object) ; self.mutation_offspring_type = np.zeros(number_offspring, object) ; self.offspring_parents = [[]] * number_offspring ; for i in range(number_offspring):     choice = np.random.rand()     if choice <= self._mutation_probability:         self._do_mutation(population, offspring, i)     elif choice <= self._mutation_probability + self._crossover_probability:         self._do_crossover(population, offspring, i)     else:         self._do_replication(population, offspring, i) ; return offspring" ∧
    Gen.Phases.varOrDoMutation =
      "parent, parent_ind = self._get_random_parent(population) ; mutant = self._mutation(parent) ; self._append_new_individual_to_offspring(mutant, offspring) ; self.mutation_offspring_type[i] = self._mutation.last_mutation_type ; self.offspring_parents[i] = [parent_ind]" ∧
    Gen.Phases.varOrDoCrossover =
      "parent_1, parent_ind_1 = self._get_random_parent(population) ; parent_2, parent_ind_2 = self._get_random_parent(population) ; child_1, _ = self._crossover(parent_1, parent_2) ; self._append_new_individual_to_offspring(child_1, offspring) ; self.crossover_offspring_type[i] = self._crossover.last_crossover_types[0] ; self.offspring_parents[i] = [parent_ind_1, parent_ind_2]" ∧
    Gen.Phases.varOrDoReplication =
      "parent, parent_ind = self._get_random_parent(population) ; child = parent.copy() ; self._append_new_individual_to_offspring(child, offspring) ; self.offspring_parents[i] = [parent_ind]" ∧
    Gen.Phases.varOrGetRandomParent =
      "random_index = np.random.randint(len(population)) ; return (population[random_index], random_index)" ∧
    Gen.Phases.varOrAppend =
      "child.fit_set = False ; offspring.append(child)" ∧
    Gen.Phases.svCrossoverCall =
      "child_1 = parent_1.copy() ; child_2 = parent_2.copy() ; child_1.fit_set = False ; child_2.fit_set = False ; self._crossover_point = np.random.randint(len(parent_1.values)) ; child_1.values = parent_1.values[:self._crossover_point] + parent_2.values[self._crossover_point:] ; child_2.values = parent_2.values[:self._crossover_point] + parent_1.values[self._crossover_point:] ; if parent_1.genetic_age > parent_2.genetic_age:     age = parent_1.genetic_age else:     age = parent_2.genetic_age ; child_1.genetic_age = age ; child_2.genetic_age = age ; self.last_crossover_types = ('single_point', 'single_point') ; return (child_1, child_2)" ∧
    Gen.Phases.svMutationCall =
      "child = parent.copy() ; child.fit_set = False ; mutation_point = np.random.randint(len(parent.values)) ; child.values[mutation_point] = self._mutation_function() ; self.last_mutation_type = 'single_point' ; return child" ∧
    Gen.Phases.addRandomCall =
      "children = self._variation(population, number_offspring) ; self.mutation_offspring_type = self._variation.mutation_offspring_type ; self.crossover_offspring_type = self._variation.crossover_offspring_type ; self.offspring_parents = self._variation.offspring_parents ; return self._generate_new_pop(children)" ∧
    Gen.Phases.addRandomGenerateNewPop =
      "for _ in range(self._num_rand_indvs):     random_indv = self._chromosome_generator()     population.append(random_indv) ; self.offspring_parents.extend([[]] * self._num_rand_indvs) ; self.crossover_offspring_type = np.hstack((self.crossover_offspring_type, np.zeros(self._num_rand_indvs))) ; self.mutation_offspring_type = np.hstack((self.mutation_offspring_type, np.zeros(self._num_rand_indvs))) ; return population" ∧
    Gen.Phases.chromosomeCopy =
      "return copy.deepcopy(self)" :=
  ⟨rfl, rfl, rfl, rfl, rfl, rfl, rfl, rfl, rfl, rfl, rfl, rfl, rfl, rfl⟩

/-! ## 7. non-vacuity -/

/-- the contract is satisfiable (the multiple-value operators) and refutable (the seeded one) -/
example : OperatorContract Ex.f (svCrossoverI encDigits decDigits) exMutation :=
  sv_operator_contract Ex.f _ _ _

example : ¬ OperatorContract Ex.f (svCrossoverSeeded encDigits decDigits) exMutation := by
  intro h
  have h2 := (h.crossover_fresh ⟨12, some (Ex.f 12), true, 0⟩ ⟨34, some (Ex.f 34), true, 1⟩ 1
    (by decide) (by decide)).2
  revert h2
  decide

/-- `VarAnd`, 5 offspring from 2 parents: pair 0 copied (second copy then mutated at point 1 to
value 3), pair 1 crossed at point 1, odd last offspring a copy of `population[(4 + 1) % 2]`.
The flagged copies keep value and flag, so the offspring is fresh but not unflagged. -/
example :
    varAnd (svCrossoverI encDigits decDigits) exMutation exPop 5 [(false, 0), (true, 1)]
        [(false, 0), (true, 7), (false, 0), (false, 0), (false, 0)] =
      [⟨12, some (Ex.f 12), true, 0⟩, ⟨33, some (Ex.f 34), false, 1⟩, ⟨14, some (Ex.f 12), false, 1⟩,
       ⟨32, some (Ex.f 34), false, 1⟩, ⟨34, some (Ex.f 34), true, 1⟩] ∧
    AllFresh Ex.f exPop ∧ exPop ≠ [] := by decide

example : AllFresh Ex.f (varAnd (svCrossoverI encDigits decDigits) exMutation exPop 5
    [(false, 0), (true, 1)] [(false, 0), (true, 7), (false, 0), (false, 0), (false, 0)]) :=
  varAnd_fresh Ex.f _ _ (sv_operator_contract Ex.f _ _ _) exPop (by decide) (by decide) 5 _ _

/-- the population of C05's examples (fresh, not evaluated, 3 members) and a population of one
(the individual is crossed with itself) -/
example :
    AllFresh Ex.f Ex.pop ∧ ¬ AllEv Ex.f Ex.pop ∧
    varAnd (svCrossoverI encDigits decDigits) exMutation Ex.pop 3 [(false, 0)] [] =
      [⟨3, some (some 99), false, 4⟩, ⟨5, some (some 25), true, 2⟩, ⟨3, some (some 99), false, 4⟩] ∧
    varAnd (svCrossoverI encDigits decDigits) exMutation [⟨12, some (Ex.f 12), true, 3⟩] 3 [(true, 1)] [] =
      [⟨12, some (Ex.f 12), false, 3⟩, ⟨12, some (Ex.f 12), false, 3⟩, ⟨12, some (Ex.f 12), true, 3⟩] := by
  decide

/-- `VarOr`, one iteration of each branch, even with the seeded crossover: everything unflagged -/
example :
    varOr (svCrossoverSeeded encDigits decDigits) exMutation exPop 3
        [⟨.mutation, 0, 0, 5⟩, ⟨.crossover, 1, 2, 1⟩, ⟨.replication, 3, 0, 0⟩] =
      [⟨12, some (Ex.f 12), false, 0⟩, ⟨32, some (Ex.f 34), false, 1⟩, ⟨34, some (Ex.f 34), false, 1⟩] := by
  decide

/-- `AddRandomIndividuals` around `VarOr`: one child plus two generated individuals -/
example :
    addRandom (fun p k => varOr (svCrossoverI encDigits decDigits) exMutation p k [])
        (fun r => newChromosome (r + 50)) 2 exPop 1 [7] =
      [⟨12, some (Ex.f 12), false, 0⟩, ⟨57, none, false, 0⟩, ⟨50, none, false, 0⟩] := by decide

/-- the step of section 5 is a real transition: offspring container filled, nothing else touched -/
example : CStep Ex.f .variation ⟨exPop, none, none⟩
    ⟨exPop, some [⟨14, some (Ex.f 12), false, 1⟩, ⟨32, some (Ex.f 34), false, 1⟩], none⟩ :=
  (variation_step_sound Ex.f (svCrossoverI encDigits decDigits) exMutation default ⟨exPop, none, none⟩).1
    (sv_operator_contract Ex.f _ _ _) (by decide) (by decide) 2 [(true, 1)] []

end Bingo.C05Var
