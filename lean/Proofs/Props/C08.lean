import Model.Generated.Consts
import Proofs.Lemmas.SelTournament
import Proofs.Lemmas.SelCrowding
import Proofs.Lemmas.SelAgeFitness
import Proofs.Lemmas.SelExamples
/-!
# C08: what the selection operators return

Only the property theorems and their non-vacuity examples live here; the proofs are in
`Proofs/Lemmas/Sel{Tournament,Crowding,Swap,FindRemovals,AgeFitness}.lean` (core Lean only, no
Mathlib).

Oracle contract for age-fitness: `Sel.DrawsOK selSize live inds` (one call of
`_get_unique_rand_indices(live)`: `2 ≤ selSize`, no duplicates, all `< live`,
`length = min selSize live`), lifted to a run by `Sel.RunDrawsOK` ("every draw the run consumes
is `DrawsOK` for the live size `start - nRemoved` at that moment").

`Sel.afRounds` is the ghost trace of the completed rounds (`before`, `nRemoved`, `inds`, `rem`,
`after`); `af_trace` ties it to `r.removedLog`, `r.rounds`, `r.pop`.

Corners found (all stated below as theorems / examples):
* `ageFitness` with `target = 0` and `selSize = 2` raises (`inds[1]` on a one-element draw) once a
  single individual is left: `af_target_zero_raises`.  Hence `1 ≤ target` in `af_terminates`.
* a tournament whose first sampled member has NaN fitness is won by that NaN individual
  (`min(key=)` never displaces a NaN seed): `tour_nan_first`, `tournament_nan_first_example`.
* `detMostFit c p = c ↔ …` is false as an equation between values when `c = p`; the exact
  statement is `crowd_det_rule` (`detMostFit c p = if childWins c p then c else p`).
-/
namespace Bingo.C08
open Bingo.Sel

/-! ## 7. tournament -/

/-- as many winners as tournaments; each winner is a population member drawn in its sample -/
theorem tour_member_count {pop : List Indv} {samples : List (List Nat)} {w : List Indv}
    (h : tournament pop samples = some w) :
    w.length = samples.length ∧
    ∀ k (h1 : k < w.length) (h2 : k < samples.length), ∃ i ∈ samples[k], pop[i]? = some w[k] :=
  ⟨tournament_length h, fun k h1 h2 => (tournamentWinner_spec (tournament_get h k h1 h2)).1⟩

/-- nobody in the sample is strictly fitter than the winner; without NaN in the sample the
winner is non-NaN and `≤` everybody -/
theorem tour_minimal {pop : List Indv} {samples : List (List Nat)} {w : List Indv}
    (h : tournament pop samples = some w) (k : Nat) (h1 : k < w.length) (h2 : k < samples.length) :
    (∀ i ∈ samples[k], ∀ m, pop[i]? = some m → Key.lt m.key w[k].key = false) ∧
    ((∀ i ∈ samples[k], ∀ m, pop[i]? = some m → m.key.isNan = false) →
      w[k].key.isNan = false ∧
      ∀ i ∈ samples[k], ∀ m, pop[i]? = some m → Key.le w[k].key m.key = true) :=
  ⟨(tournamentWinner_spec (tournament_get h k h1 h2)).2.1,
   (tournamentWinner_spec (tournament_get h k h1 h2)).2.2.1⟩

/-- a NaN individual drawn first wins its tournament -/
theorem tour_nan_first {pop : List Indv} {samples : List (List Nat)} {w : List Indv}
    (h : tournament pop samples = some w) (k : Nat) (h1 : k < w.length) (h2 : k < samples.length)
    (i₀ : Nat) (m₀ : Indv) (hh : samples[k].head? = some i₀) (hp : pop[i₀]? = some m₀)
    (hn : m₀.key.isNan = true) : w[k] = m₀ :=
  (tournamentWinner_spec (tournament_get h k h1 h2)).2.2.2 i₀ m₀ hh hp hn

/-- `tournament` raises only on an empty sample or an out-of-range index -/
theorem tour_total {pop : List Indv} {samples : List (List Nat)}
    (h : ∀ s ∈ samples, s ≠ [] ∧ ∀ i ∈ s, i < pop.length) : (tournament pop samples).isSome :=
  tournament_isSome h

/-! ## 8. deterministic crowding -/

/-- succeeds exactly on even sizes with `target ≤ len/2`, and returns `len/2` individuals -/
theorem crowd_size {closer : Nat → Bool} {population : List Indv} {target : Nat} :
    ((detCrowding closer population target).isSome ↔
      population.length % 2 = 0 ∧ target % 2 = 0 ∧ target ≤ population.length / 2) ∧
    ∀ out, detCrowding closer population target = some out →
      out.length = population.length / 2 :=
  ⟨crowding_isSome_iff _ closer population target, fun _ h => (crowding_spec h).2.2.2.1⟩

/-- slots `≥ target` are the original parents; for `k < target/2` slots `2k`, `2k+1` hold
`_return_most_fit(child paired by the distance rule, parent of that slot)` -/
theorem crowd_pairing {closer : Nat → Bool} {population : List Indv} {target : Nat}
    {out : List Indv} (h : detCrowding closer population target = some out) :
    (∀ j, target ≤ j → out[j]? = (population.take (population.length / 2))[j]?) ∧
    (∀ k, k < target / 2 → ∃ p1 p2 c1 c2,
      population[2*k]? = some p1 ∧ population[2*k+1]? = some p2 ∧
      population[population.length / 2 + 2*k]? = some c1 ∧
      population[population.length / 2 + 2*k+1]? = some c2 ∧
      out[2*k]? = some (detMostFit (if closer k then c1 else c2) p1) ∧
      out[2*k+1]? = some (detMostFit (if closer k then c2 else c1) p2)) :=
  ⟨(crowding_spec h).2.2.2.2.1, (crowding_spec h).2.2.2.2.2⟩

/-- the slot holds the child iff the child is non-NaN and (the parent is NaN or the child is
strictly better); otherwise it keeps the parent -/
theorem crowd_det_rule (c p : Indv) :
    detMostFit c p = (if childWins c p then c else p) ∧
    (childWins c p = true ↔
      c.key.isNan = false ∧ (p.key.isNan = true ∨ Key.lt c.key p.key = true)) ∧
    (detMostFit c p = c ∨ detMostFit c p = p) := by
  refine ⟨detMostFit_eq c p, ?_, detMostFit_cases c p⟩
  unfold childWins
  cases c.key.isNan <;> cases p.key.isNan <;> simp

/-- on keys: the slot's fitness is NaN only if both were NaN, and never worse than a non-NaN
parent's -/
theorem crowd_det_key (c p : Indv) :
    ((detMostFit c p).key.isNan = true ↔ c.key.isNan = true ∧ p.key.isNan = true) ∧
    (p.key.isNan = false → Key.le (detMostFit c p).key p.key = true) :=
  detMostFit_key c p

/-! ## 2. `_swap_removals_to_end` -/

/-- `L = pop.length - k` is the live prefix.  For duplicate-free `R` below `L`: the call succeeds,
only permutes, leaves positions `≥ L` alone, puts the individuals of `R` (largest index first) at
`L-1, L-2, …`, i.e. positions `[L-|R|, L)` hold exactly the individuals at the indices in `R` and
`[0, L-|R|)` exactly the other individuals of `[0, L)`. -/
theorem af_swap_spec {pop : List Indv} {R : List Nat} {k : Nat}
    (hk : k ≤ pop.length) (hnd : R.Nodup) (hlt : ∀ x ∈ R, x < pop.length - k) :
    ∃ pop', swapRemovalsToEnd pop R k = some pop' ∧
      pop'.length = pop.length ∧ pop'.Perm pop ∧
      (∀ j, pop.length - k ≤ j → pop'[j]? = pop[j]?) ∧
      pop'.drop (pop.length - k) = pop.drop (pop.length - k) ∧
      (∀ t (ht : t < (sortDesc R).length), pop'[pop.length - k - 1 - t]? = pop[(sortDesc R)[t]]?) ∧
      ((pop'.take (pop.length - k)).drop (pop.length - k - R.length)
        = (sortDesc R).reverse.filterMap (fun j => pop[j]?)) ∧
      ((pop'.take (pop.length - k)).drop (pop.length - k - R.length)).Perm
        (R.filterMap (fun j => pop[j]?)) ∧
      (pop'.take (pop.length - k - R.length)).Perm
        (((List.range (pop.length - k)).filter (fun j => !R.contains j)).filterMap
          (fun j => pop[j]?)) :=
  swapRemovalsToEnd_spec hk hnd hlt

/-- `sortDesc` is `sorted(·, reverse=True)` -/
theorem af_sortDesc (R : List Nat) :
    (sortDesc R).Perm R ∧ (sortDesc R).Pairwise (· ≥ ·) ∧
    (R.Nodup → (sortDesc R).Pairwise (· > ·)) :=
  ⟨sortDesc_perm R, sortDesc_sorted R, sortDesc_strict⟩

section af
variable {selSize factor : Nat} {pop : List Indv} {target : Nat} {draws : List (List Nat)}
  {r : AFResult}

/-! ## 1, 3. the population is only permuted; sizes -/

theorem af_perm (h : ageFitness selSize factor pop target draws = some r) : r.pop.Perm pop :=
  (ageFitness_run h).2.perm

/-- no assumption on the draws -/
theorem af_size (h : ageFitness selSize factor pop target draws = some r) :
    target ≤ pop.length ∧ target ≤ r.kept ∧ r.kept ≤ pop.length ∧
    r.pop.length = pop.length ∧ (r.pop.take r.kept).length = r.kept := by
  obtain ⟨ht, run⟩ := ageFitness_run h
  obtain ⟨n', h1, _, h3⟩ := run.kept (Nat.zero_le _)
  have hl := run.perm.length_eq
  refine ⟨ht, by omega, by omega, hl, ?_⟩
  rw [List.length_take]; omega

theorem af_result_sub (h : ageFitness selSize factor pop target draws = some r) :
    ∃ rest, (r.pop.take r.kept ++ rest).Perm pop :=
  ⟨r.pop.drop r.kept, by rw [List.take_append_drop]; exact af_perm h⟩

/-! ## 4. one round -/

/-- `Justified pop inds rem x`: `pop[x]` is NaN, or some `y ∈ inds` with `y ∉ rem` is non-NaN,
no older and no worse -/
theorem af_round_justified {live needed : Nat} {inds rem : List Nat}
    (hd : DrawsOK selSize live inds) (h : findRemovals selSize inds pop needed = some rem) :
    rem.Nodup ∧ (∀ x ∈ rem, x ∈ inds) ∧ (1 ≤ needed → rem.length ≤ needed) ∧
    (selSize = 2 → rem.length ≤ 1) ∧
    ∀ x ∈ rem, ∃ px, pop[x]? = some px ∧
      (px.key.isNan = true ∨
        ∃ y ∈ inds, y ∉ rem ∧ ∃ py, pop[y]? = some py ∧ py.key.isNan = false ∧
          py.age ≤ px.age ∧ Key.le py.key px.key = true) :=
  findRemovals_spec hd h

/-- the size bound alone needs no assumption on the draw -/
theorem af_round_size {needed : Nat} {inds rem : List Nat} (hn : 1 ≤ needed)
    (h : findRemovals selSize inds pop needed = some rem) : rem.length ≤ needed :=
  findRemovals_length hn h

/-- a round never raises on an OK draw (Python indexes `inds[1]` when `selSize = 2`) -/
theorem af_round_total {live : Nat} {inds : List Nat} (needed : Nat)
    (hd : DrawsOK selSize live inds) (hlive : live ≤ pop.length) (h2 : selSize = 2 → 2 ≤ live) :
    ∃ rem, findRemovals selSize inds pop needed = some rem :=
  findRemovals_isSome needed hd hlive h2

/-! ## 5. the whole run -/

/-- the ghost trace is the run: one log entry per round (the ids of that round's removals), the
round counter, the final list -/
theorem af_trace (h : ageFitness selSize factor pop target draws = some r) :
    let rounds := afRounds selSize pop.length (pop.length - target) factor pop 0 0 draws
    r.removedLog = rounds.map Round.ids ∧ r.rounds = rounds.length ∧
    r.pop = (rounds.getLast?.map (·.after)).getD pop := by
  have := (ageFitness_run h).2.log_eq
  simp only [List.nil_append, Nat.zero_add] at this
  exact this

/-- every completed round `rd` (see `Sel.RoundOK`): `rd.before`/`rd.after` are permutations of
`pop`; the draw was OK; `rd.rem` is what `findRemovals` returned, duplicate-free, `⊆ rd.inds`,
within the remaining removal budget; the already-removed suffix is untouched and the newly removed
individuals sit right below it; and every removed `x` is NaN or dominated by an individual that is
in the live prefix `rd.after.take (pop.length - (rd.nRemoved + rd.rem.length))` after the round -/
theorem af_removal_justified (h : ageFitness selSize factor pop target draws = some r)
    (hok : RunDrawsOK selSize pop.length (pop.length - target) factor pop 0 0 draws) :
    ∀ rd ∈ afRounds selSize pop.length (pop.length - target) factor pop 0 0 draws,
      RoundOK selSize pop.length (pop.length - target) pop rd ∧
      ∀ x ∈ rd.rem, ∃ px, rd.before[x]? = some px ∧
        (px.key.isNan = true ∨
          ∃ py ∈ rd.after.take (pop.length - (rd.nRemoved + rd.rem.length)),
            py.key.isNan = false ∧ py.age ≤ px.age ∧ Key.le py.key px.key = true) := by
  intro rd hrd
  have := (ageFitness_run h).2.rounds_ok (pop₀ := pop) hok rfl (List.Perm.refl _)
    (Nat.sub_le _ _) rd hrd
  exact ⟨this, this.justified⟩

/-- the logged ids are exactly the ids of the individuals that are not returned -/
theorem af_log_exact (h : ageFitness selSize factor pop target draws = some r)
    (hok : RunDrawsOK selSize pop.length (pop.length - target) factor pop 0 0 draws) :
    r.removedLog.flatten.Perm ((r.pop.drop r.kept).map (·.id)) :=
  (ageFitness_run h).2.log_exact (pop₀ := pop) hok rfl (List.Perm.refl _) (Nat.sub_le _ _)
    (by simp)

/-- trace-free reading for populations with distinct ids: every id logged in round `t` belongs to
an individual that is NaN, or is dominated by an individual not removed in rounds `0..t` -/
theorem af_removal_justified_ids (h : ageFitness selSize factor pop target draws = some r)
    (hok : RunDrawsOK selSize pop.length (pop.length - target) factor pop 0 0 draws)
    (hids : (pop.map (·.id)).Nodup) :
    ∀ t (ht : t < r.removedLog.length), ∀ i ∈ r.removedLog[t],
      ∃ px ∈ pop, px.id = i ∧
        (px.key.isNan = true ∨
          ∃ py ∈ pop, py.id ∉ (r.removedLog.take (t + 1)).flatten ∧
            py.key.isNan = false ∧ py.age ≤ px.age ∧ Key.le py.key px.key = true) :=
  ageFitness_justified_ids h hok hids

/-! ## 6. termination -/

theorem af_rounds_bound (h : ageFitness selSize factor pop target draws = some r) :
    r.rounds ≤ pop.length * factor :=
  ((ageFitness_run h).2.rounds (Nat.zero_le _)).2

/-- the fuel passed by `ageFitness` suffices and nothing raises: with enough OK draws the call
returns -/
theorem af_terminates (h1 : 1 ≤ target) (h2 : target ≤ pop.length)
    (hdr : pop.length * factor ≤ draws.length)
    (hok : RunDrawsOK selSize pop.length (pop.length - target) factor pop 0 0 draws) :
    ∃ r, ageFitness selSize factor pop target draws = some r := by
  unfold ageFitness
  rw [if_neg (by omega)]
  exact afLoop_isSome (by omega) _ pop 0 0 draws [] (by omega) (by omega) (Nat.zero_le _) rfl
    (Nat.zero_le _) hok

/-- instance for the constant read from the source -/
theorem af_terminates_worst_case (h1 : 1 ≤ target) (h2 : target ≤ pop.length)
    (hdr : pop.length * Gen.Consts.WORST_CASE_FACTOR ≤ draws.length)
    (hok : RunDrawsOK selSize pop.length (pop.length - target) Gen.Consts.WORST_CASE_FACTOR
      pop 0 0 draws) :
    ∃ r, ageFitness selSize Gen.Consts.WORST_CASE_FACTOR pop target draws = some r ∧
      r.rounds ≤ pop.length * Gen.Consts.WORST_CASE_FACTOR ∧
      target ≤ r.kept ∧ r.kept ≤ pop.length := by
  obtain ⟨r, hr⟩ := af_terminates h1 h2 hdr hok
  exact ⟨r, hr, af_rounds_bound hr, (af_size hr).2.1, (af_size hr).2.2.1⟩

end af

/-! ## 9. non-vacuity -/

section examples
open Bingo.Sel.Ex

/-- `selSize = 3`: `ia` is marked first (dominated by `ib`), and then, already marked, still
removes `ic`; the surviving justifier of both is `ib` -/
example : findRemovals 3 [0, 1, 2] [ia, ib, ic] 2 = some [0, 2] := by decide

example : view (ageFitness 3 50 [ia, ib, ic] 1 [[0, 1, 2]])
    = some ([ib, ia, ic], 1, 1, [[10, 12]]) := by decide

example : afRounds 3 3 2 50 [ia, ib, ic] 0 0 [[0, 1, 2]]
    = [⟨[ia, ib, ic], 0, [0, 1, 2], [0, 2], [ib, ia, ic]⟩] := by decide

/-- the hypotheses of the run theorems are satisfiable on that run -/
example : RunDrawsOK 3 3 2 50 [ia, ib, ic] 0 0 [[0, 1, 2]] := by
  rw [RunDrawsOK]
  intro _
  refine ⟨⟨by decide, by decide, by decide, by decide⟩, ?_⟩
  intro rem pop' _ _
  rw [RunDrawsOK]
  trivial

/-- with a NaN: round 1 draws `[1, 2]` and removes the NaN at index 1; round 2 draws `[0, 1]` and
removes `ic` (dominated by `ia`) -/
example : view (ageFitness 2 50 [ia, inan, ic] 1 [[1, 2], [0, 1]])
    = some ([ia, ic, inan], 1, 2, [[13], [12]]) := by decide

/-- equal individuals: only the later one goes -/
example : findRemovals 3 [0, 1, 2] [ia, ia, ia] 3 = some [1, 2] := by decide

/-- `target = 0`, `selSize = 2`: Python raises `IndexError` (`inds[1]` of `[0]`) -/
theorem af_target_zero_raises : ageFitness 2 50 [ia] 0 [[0]] = none := by decide

/-- a NaN drawn first wins the tournament; drawn later it never wins against a non-NaN -/
theorem tournament_nan_first_example :
    tournament [ia, inan, ib] [[1, 0, 2], [0, 1, 2]] = some [inan, ib] := by decide

/-- parents `[ia, inan, ic, inan]`, offspring `[ib, ib, inan, ia]`, `target = 2`: `ib` replaces
`ia` (strictly better) and the NaN parent; slots `2, 3` are untouched -/
example : detCrowding (fun k => k == 0) [ia, inan, ic, inan, ib, ib, inan, ia] 2
    = some [ib, ib, ic, inan] := by decide

/-- a NaN child never replaces its parent, not even a NaN parent -/
example : detMostFit inan ia = ia ∧ detMostFit inan inan = inan ∧ detMostFit ia inan = ia := by
  decide

example : detCrowding (fun _ => true) [ia, ib, ic] 2 = none ∧
    detCrowding (fun _ => true) [ia, ib, ic, ic] 4 = none := by decide

end examples


/-! ## the value `__call__` returns: the first `target` slots -/

/-- exactly the target: `GeneralizedCrowding.__call__` returns `target_population_size` individuals -/
theorem crowd_call_size (closer : Nat → Bool) (population : List Sel.Indv) (target : Nat) (out : List Sel.Indv)
    (h : Sel.detCrowdingCall closer population target = some out) : out.length = target := by
  unfold Sel.detCrowdingCall at h
  cases hd : Sel.detCrowding closer population target with
  | none => simp [hd] at h
  | some full =>
    simp [hd] at h
    have hs := (crowd_size (closer := closer) (population := population) (target := target)).1.mp (by simp [hd])
    have hl := (crowd_size (closer := closer) (population := population) (target := target)).2 full hd
    subst h
    simp [List.length_take]
    omega

/-- the returned slots are the decided slots of `detCrowding` -/
theorem crowd_call_slots (closer : Nat → Bool) (population : List Sel.Indv) (target : Nat) (out full : List Sel.Indv)
    (hf : Sel.detCrowding closer population target = some full)
    (h : Sel.detCrowdingCall closer population target = some out) :
    ∀ j, j < target → out[j]? = full[j]? := by
  unfold Sel.detCrowdingCall at h
  simp [hf] at h
  subst h
  intro j hj
  simp [hj]

/-- with the target the evolutionary algorithm passes (half of the combined population) nothing is cut off -/
theorem crowd_call_eq_of_half (closer : Nat → Bool) (population : List Sel.Indv) (target : Nat)
    (ht : target = population.length / 2) :
    Sel.detCrowdingCall closer population target = Sel.detCrowding closer population target := by
  unfold Sel.detCrowdingCall
  cases hd : Sel.detCrowding closer population target with
  | none => rfl
  | some full =>
    have hl := (crowd_size (closer := closer) (population := population) (target := target)).2 full hd
    simp [List.take_of_length_le (by omega : full.length ≤ target)]

/-! ## probabilistic crowding and probabilistic tournament: members and count for EVERY outcome of the draws -/

/-- `ProbabilisticCrowding._return_most_fit` returns one of its two arguments, whatever the coin -/
theorem prob_pick_member (coin : Nat → Bool) (c p : Sel.Indv) (k : Nat) :
    Sel.probMostFit coin c p k = c ∨ Sel.probMostFit coin c p k = p := by
  unfold Sel.probMostFit
  split
  · exact .inl rfl
  · split
    · exact .inr rfl
    · split
      · exact .inl rfl
      · exact .inr rfl

/-- probabilistic crowding returns exactly `target` individuals (for the targets the algorithm accepts); every slot
holds its parent or the child paired with it by the distance rule, for every outcome of the random numbers -/
theorem prob_crowd_member_count (coin closer : Nat → Bool) (population : List Sel.Indv) (target : Nat)
    (out : List Sel.Indv) (h : Sel.probCrowdingCall coin closer population target = some out) :
    out.length = target ∧
    ∀ k, k < target / 2 → ∃ p1 p2 c1 c2,
      population[2*k]? = some p1 ∧ population[2*k+1]? = some p2 ∧
      population[population.length / 2 + 2*k]? = some c1 ∧
      population[population.length / 2 + 2*k+1]? = some c2 ∧
      (out[2*k]? = some p1 ∨ out[2*k]? = some (if closer k then c1 else c2)) ∧
      (out[2*k+1]? = some p2 ∨ out[2*k+1]? = some (if closer k then c2 else c1)) := by
  unfold Sel.probCrowdingCall at h
  cases hf : Sel.crowding (Sel.probMostFit coin) closer population target with
  | none => simp [hf] at h
  | some full =>
    simp only [hf, Option.map_some, Option.some.injEq] at h
    subst h
    obtain ⟨_, he2, hle, hlen, _, hin⟩ := Sel.crowding_spec hf
    refine ⟨by simp [hlen]; omega, ?_⟩
    intro k hk
    obtain ⟨p1, p2, c1, c2, h1, h2, h3, h4, ho1, ho2⟩ := hin k hk
    refine ⟨p1, p2, c1, c2, h1, h2, h3, h4, ?_, ?_⟩
    · have hlt : 2 * k < target := by omega
      rw [List.getElem?_take_of_lt hlt, ho1]
      rcases prob_pick_member coin (if closer k then c1 else c2) p1 (2*k) with e | e <;> rw [e]
      · exact .inr rfl
      · exact .inl rfl
    · have hlt : 2 * k + 1 < target := by omega
      rw [List.getElem?_take_of_lt hlt, ho2]
      rcases prob_pick_member coin (if closer k then c2 else c1) p2 (2*k+1) with e | e <;> rw [e]
      · exact .inr rfl
      · exact .inl rfl

/-- `np.searchsorted(np.cumsum(w), r)` is a valid index as soon as `r` does not exceed the total weight (the code draws
`r = random() * sum(w)` with `random() < 1`; NaN members get weight 0) -/
theorem searchLeft_lt (w : List Nat) (r : Nat) (hne : w ≠ []) (hr : r ≤ w.sum) :
    Sel.searchLeft (Sel.cumsum w) r < w.length := by
  induction w generalizing r with
  | nil => exact absurd rfl hne
  | cons a rest ih =>
    simp only [Sel.cumsum, Sel.searchLeft, List.filter_cons, List.length_cons]
    by_cases ha : a < r
    · simp only [ha, decide_true, if_true, List.length_cons, Nat.add_lt_add_iff_right]
      cases rest with
      | nil => simp [List.sum_cons] at hr; omega
      | cons b rest' =>
        have hr' : r - a ≤ (b :: rest').sum := by simp [List.sum_cons] at hr ⊢; omega
        have := ih (r - a) (by simp) hr'
        simp only [Sel.searchLeft] at this
        have hmap : ((Sel.cumsum (b :: rest')).map (a + ·)).filter (· < r) =
            ((Sel.cumsum (b :: rest')).filter (· < r - a)).map (a + ·) := by
          rw [List.filter_map]
          congr 1
          apply List.filter_congr
          intro x _
          simp only [Function.comp, decide_eq_decide]
          omega
        rw [hmap, List.length_map]
        exact this
    · simp only [ha, decide_false, Bool.false_eq_true, if_false]
      have : ((Sel.cumsum rest).map (a + ·)).filter (· < r) = [] := by
        rw [List.filter_eq_nil_iff]
        intro x hx
        simp only [List.mem_map] at hx
        obtain ⟨y, _, rfl⟩ := hx
        simp only [decide_eq_true_eq]; omega
      rw [this]; simp

/-- a probabilistic tournament returns as many winners as tournaments, each a member of its sample, whenever the index is
in range (or every member is NaN) -/
theorem prob_tour_member_count {pop : List Sel.Indv} {samples : List (List Nat × Nat)} {w : List Sel.Indv}
    (h : Sel.probTournament pop samples = some w) :
    w.length = samples.length ∧
    ∀ k (h1 : k < w.length) (h2 : k < samples.length), ∃ i ∈ samples[k].1, pop[i]? = some w[k] := by
  unfold Sel.probTournament at h
  have hmap := ListAux.mapM_eq_some_iff.mp h
  have hlen : w.length = samples.length := by simpa using (congrArg List.length hmap).symm
  refine ⟨hlen, ?_⟩
  intro k h1 h2
  have hk : Sel.probTournamentWinner pop samples[k].1 samples[k].2 = some w[k] := by
    have h3 := congrArg (·[k]?) hmap
    simpa [List.getElem?_map, List.getElem?_eq_getElem h1, List.getElem?_eq_getElem h2] using h3
  unfold Sel.probTournamentWinner at hk
  cases hm : (samples[k].1).mapM (pop[·]?) with
  | none => simp [hm] at hk
  | some members =>
    simp only [hm] at hk
    have hmm := ListAux.mapM_eq_some_iff.mp hm
    have hmem : ∀ (j : Nat) (m : Sel.Indv), members[j]? = some m → ∃ i ∈ samples[k].1, pop[i]? = some m := by
      intro j m hj
      have h4 := congrArg (·[j]?) hmm
      simp only [List.getElem?_map, hj] at h4
      cases hs : (samples[k].1)[j]? with
      | none => simp [hs] at h4
      | some i =>
        simp only [hs, Option.map_some] at h4
        refine ⟨i, List.mem_of_getElem? hs, ?_⟩
        injection h4 with h4
    split at hk
    · exact hmem 0 _ hk
    · exact hmem _ _ hk

end Bingo.C08
