import Proofs.Lemmas.CasPipeline
import Proofs.Lemmas.CasSpecs
/-!
# C03 (CAS part): the algebraic simplifier is sound on the power-free fragment

`Cas.simplifyWith strict stack` (`Model/Cas/*.lean`) is the executable port of bingo's simplification
backend: `buildCasExpression` → `automaticSimplify` → `foldConstants` → `optionalModifications` →
`buildAgraphStack`.  Only the property theorems and their non-vacuity examples live here; the proofs
are in `Proofs/Lemmas/Cas*.lean`.

Vocabulary (`Proofs/Lemmas/CasSem.lean`):
* `Expr.den x cv e : Option ℝ` — the PARTIAL (conventional) real meaning of a CAS expression at the
  data row `x`, `cv id` = value of the constant `id`; `none` = undefined (division by `0`, `log 0`,
  `0 ^ negative`, ill-formed node).  `POWER [b, INTEGER n]` is `b ^ n` as an integer power (`zpowDen`).
* `a ⊑ b` — refinement: wherever `a` is defined, `b` is defined and equal.
* `Ok k T e` — the fragment: every `POWER` has an `INTEGER` literal exponent, no `SAFE_POWER`, every
  non-`INTEGER` terminal `(o, v)` satisfies `T o v`.  `IntPow e := Ok false (fun _ _ => true) e`.
  `k = true` adds what the stack builder needs (≥ 2 operands in sums/products, legal operators,
  exponent ≠ 1).  Every pass preserves `Ok k T` for arbitrary `T`, which also says that no pass invents
  a variable or a constant id.
* strict mode (`strict = true`): every `int64` wrap that changes a value is the error `"ovf"`, so a
  successful strict run did all integer arithmetic exactly (`arith_strict`, `intPow_strict`).

History: the proof attempt found a genuine defect in `_merge_sums` / `_merge_products` (a collected
like-term that is itself a sum, e.g. `2(x0+x1) - (x0+x1)`, was kept as ONE nested operand and a later
merge dropped a summand: `((2(x0+x1) + x2) - (x0+x1)) + x3` became `x0 + (x0+x1) + x2`).  It was
repaired in bingo and in the model (the merge functions now flatten such a head operand); the theorems
below are about the repaired code and need no flatness hypothesis.  See `witness_repaired`.
-/
namespace Bingo.C03Cas
open Bingo Bingo.Cas Gen.OpDefs Expr

/-! ## 1. the refinement order and the semantics -/

theorem refines_refl (a : Option ℝ) : a ⊑ a := Refines.refl a
theorem refines_trans {a b c : Option ℝ} (h1 : a ⊑ b) (h2 : b ⊑ c) : a ⊑ c := h1.trans h2

/-- every constructor is monotone: replacing operands by refinements refines the node -/
theorem node_mono {o : Int} {lit : Option Int} {vs vs' : List (Option ℝ)}
    (h : List.Forall₂ Refines vs vs') : nodeDen o lit vs ⊑ nodeDen o lit vs' :=
  Auto.nodeDen_mono h

/-- integer powers with a literal exponent, as in the informal specification -/
theorem pow_lit_nonneg {n : Int} (h : 0 ≤ n) (b : ℝ) : zpowDen n b = some (b ^ n.toNat) :=
  zpowDen_nonneg h b
theorem pow_lit_neg {n : Int} (h : n < 0) {b : ℝ} (hb : b ≠ 0) :
    zpowDen n b = some ((b ^ n.natAbs)⁻¹) := zpowDen_neg h hb
theorem pow_lit_neg_zero {n : Int} (h : n < 0) : zpowDen n 0 = none := zpowDen_neg_zero h

/-- `Expression.__eq__` (structural, ignoring the `numpy`/Python-int kind) implies equal meaning -/
theorem beq_den (x : List ℝ) (cv : Int → ℝ) (a b : Expr) (h : a.beq b = true) :
    den x cv a = den x cv b := Cas.beq_den x cv a b h

/-! ## 2. strict integer arithmetic is exact -/

theorem arith_strict {f : Int → Int → Int} {a b r : PInt} (h : arith true f a b = .ok r) :
    r.val = f a.val b.val := Cas.arith_strict h

/-- includes the correctness of the square-and-multiply loop `powMod64` -/
theorem intPow_strict {a b r : PInt} (h : intPow true a b = .ok r) :
    r.val = a.val ^ b.val.toNat := Cas.intPow_strict h

/-! ## 3. L1: the two interpreters -/

/-- L1a, source side: wherever the expression read off the stack is (conventionally) defined, Mathlib's
total semantics of the stack has the same value.  `cvOf s c loc` = the value `c[p1]` of the constant
loaded by row `loc` (CONSTANT terminals carry the row location as id). -/
theorem buildCas_den {D L : Nat} {s : Stack} {e : Expr} {x c : List ℝ} {v : ℝ}
    (hwf : WF.WFEval D L s) (he : buildCasExpression s = .ok e) (hx : x.length = D)
    (hc : c.length = L) (hd : e.den x (CasInterp.cvOf s c) = some v) :
    MathSem.den x c (ETree.ofStack s) = some v := CasInterp.buildCas_den hwf he hx hc hd

/-- a constant-free stack without `POWER`/`SAFE_POWER` rows gives an expression of the fragment -/
theorem buildCas_ok {D : Nat} {s : Stack} {e : Expr} (hwf : WF.WFEval D 0 s)
    (hnp : CasInterp.NoPowRows s) (he : buildCasExpression s = .ok e) :
    Ok true (varsBelow D) e = true := CasInterp.buildCas_ok hwf hnp he

/-- this pass terminates on every well-formed stack -/
theorem buildCas_some {D L : Nat} {s : Stack} (hwf : WF.WFEval D L s) :
    ∃ e, buildCasExpression s = .ok e := CasInterp.buildCas_some hwf

/-- with common-sub-expression sharing the root is still the LAST row of the emitted dict (the AGraph
evaluates the last row): old rows cannot reference new rows, so a root found by the dedup lookup
means nothing was appended at all, which cannot happen starting from the empty dict -/
theorem root_is_last {T : Int → Int → Bool} {e : Expr} {d : StackDict} {loc : Int}
    (hT : ∀ o v, T o v = true → Ops.isTerminal o = some true) (hok : Ok true T e = true)
    (h : buildStackRec e [] = .ok (d, loc)) : d ≠ [] ∧ loc = ↑d.length - 1 :=
  let r := CasInterp.buildStackRec_root_last hT hok h
  ⟨r.1, r.2.1⟩

/-- `interp_den`, on the pre-emit dict (constants read through their id): the tree of the last row
has the value of the expression wherever the expression is defined.  Side condition on `e`: `Ok true`
(sums / products with ONE operand would be emitted as `a + a` / `a * a`). -/
theorem interp_den {T : Int → Int → Bool} {e : Expr} {d : StackDict} {loc : Int} {x : List ℝ}
    {cv : Int → ℝ} {v : ℝ} (hT : ∀ o v, T o v = true → Ops.isTerminal o = some true)
    (hok : Ok true T e = true) (h : buildStackRec e [] = .ok (d, loc)) (hd : e.den x cv = some v) :
    CasInterp.gden (termDen x cv) (ETree.ofStack d) = some v :=
  CasInterp.buildStackRec_den_tree hT hok h hd

/-- `interp_den` for the emitted stack of a constant-free expression -/
theorem interp_den_noconst {D : Nat} {e : Expr} {s' : Stack} {x : List ℝ} {cv : Int → ℝ} {v : ℝ}
    (hok : Ok true (varsBelow D) e = true) (h : buildAgraphStack e = .ok s') (hx : x.length = D)
    (hd : e.den x cv = some v) : MathSem.den x [] (ETree.ofStack s') = some v :=
  CasInterp.buildAgraphStack_den_noconst hok h hx hd

/-! ## 4. L2/L3: `automaticSimplify` (strict) refines, function by function

`k`, `T` arbitrary; with `k = false`, `T = fun _ _ => true` the hypothesis `Ok k T e = true` is
`IntPow e`.  `P x cv l` / `S x cv l` = product / sum of the meanings of a list. -/

section auto
variable {k : Bool} {T : Int → Int → Bool} {f : Nat}

theorem simplifyProductRec_sound {l rs : List Expr} (hl : ∀ e ∈ l, Ok k T e = true)
    (h : simplifyProductRec true f l = .ok rs) :
    (∀ r ∈ rs, Ok k T r = true) ∧ ∀ x cv, P x cv l ⊑ P x cv rs := Cas.simplifyProductRec_sound hl h

theorem mergeProducts_sound {l₁ l₂ rs : List Expr} (h1 : ∀ e ∈ l₁, Ok k T e = true)
    (h2 : ∀ e ∈ l₂, Ok k T e = true) (h : mergeProducts true f l₁ l₂ = .ok rs) :
    (∀ r ∈ rs, Ok k T r = true) ∧ ∀ x cv, omul (P x cv l₁) (P x cv l₂) ⊑ P x cv rs :=
  Cas.mergeProducts_sound h1 h2 h

theorem simplifySumRec_sound {l rs : List Expr} (hl : ∀ e ∈ l, Ok k T e = true)
    (h : simplifySumRec true f l = .ok rs) :
    (∀ r ∈ rs, Ok k T r = true) ∧ ∀ x cv, S x cv l ⊑ S x cv rs := Cas.simplifySumRec_sound hl h

theorem mergeSums_sound {l₁ l₂ rs : List Expr} (h1 : ∀ e ∈ l₁, Ok k T e = true)
    (h2 : ∀ e ∈ l₂, Ok k T e = true) (h : mergeSums true f l₁ l₂ = .ok rs) :
    (∀ r ∈ rs, Ok k T r = true) ∧ ∀ x cv, oadd (S x cv l₁) (S x cv l₂) ⊑ S x cv rs :=
  Cas.mergeSums_sound h1 h2 h

theorem simplifyProduct_sound {l : List Expr} {r : Expr} (hl : ∀ e ∈ l, Ok k T e = true)
    (h : simplifyProduct true f l = .ok r) :
    Ok k T r = true ∧ ∀ x cv, den x cv (node MULTIPLICATION l) ⊑ den x cv r :=
  Cas.simplifyProduct_sound hl h

theorem simplifySum_sound {l : List Expr} {r : Expr} (hl : ∀ e ∈ l, Ok k T e = true)
    (h : simplifySum true f l = .ok r) :
    Ok k T r = true ∧ ∀ x cv, den x cv (node ADDITION l) ⊑ den x cv r := Cas.simplifySum_sound hl h

theorem simplifyPower_sound {b r : Expr} {n : Int} {np : Bool} (hb : Ok k T b = true)
    (h : simplifyPower true f b (term INTEGER n np) = .ok r) :
    Ok k T r = true ∧ ∀ x cv, den x cv (node POWER [b, term INTEGER n np]) ⊑ den x cv r :=
  Cas.simplifyPower_sound hb h

theorem simplifyConstantPower_sound {b r : Expr} {n : Int} {np : Bool} (hb : Ok k T b = true)
    (h : simplifyConstantPower true f b (term INTEGER n np) = .ok r) :
    Ok k T r = true ∧ ∀ x cv, den x cv (node POWER [b, term INTEGER n np]) ⊑ den x cv r :=
  Cas.simplifyConstantPower_sound hb h

theorem simplifyQuotient_sound {a b r : Expr} (ha : Ok k T a = true) (hb : Ok k T b = true)
    (h : simplifyQuotient true f a b = .ok r) :
    Ok k T r = true ∧ ∀ x cv, den x cv (node DIVISION [a, b]) ⊑ den x cv r :=
  Auto.simplifyQuotient_sound ha hb h

theorem simplifyDifference_sound {a b r : Expr} (ha : Ok k T a = true) (hb : Ok k T b = true)
    (h : simplifyDifference true f a b = .ok r) :
    Ok k T r = true ∧ ∀ x cv, den x cv (node SUBTRACTION [a, b]) ⊑ den x cv r :=
  Auto.simplifyDifference_sound ha hb h

/-- `log(exp u) = u` uses `log |exp u| = u`; `log 1 = 0` -/
theorem simplifyLogarithm_sound {a r : Expr} (hs : shapeOK k LOGARITHM [a] = true)
    (ha : Ok k T a = true) (h : simplifyLogarithm a = .ok r) :
    Ok k T r = true ∧ ∀ x cv, den x cv (node LOGARITHM [a]) ⊑ den x cv r :=
  Auto.simplifyLogarithm_sound hs ha h

theorem dispatch_sound {o : Int} {args : List Expr} {r : Expr} (hs : shapeOK k o args = true)
    (ha : ∀ a ∈ args, Ok k T a = true) (h : dispatch true f o args = .ok r) :
    Ok k T r = true ∧ ∀ x cv, den x cv (node o args) ⊑ den x cv r := Auto.dispatch_sound hs ha h

/-- general form: the result stays in the fragment and refines the input -/
theorem automaticSimplify_sound' {e e' : Expr} (hok : Ok k T e = true)
    (h : automaticSimplify true f e = .ok e') :
    Ok k T e' = true ∧ ∀ x cv, den x cv e ⊑ den x cv e' := Auto.automaticSimplify_sound hok h

end auto

/-- **`automaticSimplify_sound`** on the integer-power fragment -/
theorem automaticSimplify_sound {f : Nat} {e e' : Expr} (hok : IntPow e)
    (h : automaticSimplify true f e = .ok e') :
    IntPow e' ∧ ∀ x cv, e.den x cv ⊑ e'.den x cv := Auto.automaticSimplify_sound hok h

/-- `fuel_mono`: the result of a successful run does not depend on the fuel -/
theorem fuel_mono {st : Bool} {f : Nat} {e r : Expr} (h : automaticSimplify st f e = .ok r) :
    automaticSimplify st (f+1) e = .ok r := FuelMono.automaticSimplify_fuel_succ h

theorem fuel_mono_le {st : Bool} {f f' : Nat} {e r : Expr} (hle : f ≤ f')
    (h : automaticSimplify st f e = .ok r) : automaticSimplify st f' e = .ok r :=
  FuelMono.automaticSimplify_fuel_mono hle h

/-! ## 5. L3 continued: optional modifications, grouping, folding -/

/-- the meaning is preserved EXACTLY (no hypothesis on `e`) -/
theorem insertSubtraction_sound (e : Expr) (x : List ℝ) (cv : Int → ℝ) :
    (insertSubtraction e).den x cv = e.den x cv := insertSubtraction_den e x cv

/-- `x ^ n → x · … · x` for `n > 0`: the meaning is preserved exactly -/
theorem replaceIntegerPowers_sound {e e' : Expr} (hr : replaceIntegerPowers e = .ok e')
    (x : List ℝ) (cv : Int → ℝ) : e'.den x cv = e.den x cv := replaceIntegerPowers_den hr x cv

theorem optionalModifications_sound {e e' : Expr} (hr : optionalModifications e = .ok e')
    (x : List ℝ) (cv : Int → ℝ) : e'.den x cv = e.den x cv := optionalModifications_den hr x cv

theorem optionalModifications_ok {k : Bool} {T : Int → Int → Bool} {e e' : Expr}
    (h : Ok k T e = true) (hr : optionalModifications e = .ok e') : Ok k T e' = true :=
  Cas.optionalModifications_ok h hr

theorem groupConstants_sound (e : Expr) (x : List ℝ) (cv : Int → ℝ) :
    (groupConstants e).den x cv = e.den x cv := Cas.groupConstants_sound e x cv

/-- without constants the folding loop stops at once -/
theorem foldLoop_noconst (fuel : Nat) {e : Expr} (h : getConstants e = []) :
    foldLoop (fuel+1) e = .ok e := Cas.foldLoop_noconst fuel h

theorem foldConstants_noconst {k : Bool} {T : Int → Int → Bool} (fuel : Nat) {e : Expr}
    (h : Ok k T e = true) (hT : ∀ v, T CONSTANT v = false) :
    foldConstants (fuel+1) e = .ok (groupConstants e) := Cas.foldConstants_noconst fuel h hT

/-- constant folding WITH constants keeps the fragment (for `k = true`: when the admissible terminals
are variables and constants only) -/
theorem foldConstants_ok {k : Bool} {T : Int → Int → Bool} (hT : k = true → TermT T) {fuel : Nat}
    {e e' : Expr} (h : Ok k T e = true) (hr : foldConstants fuel e = .ok e') : Ok k T e' = true :=
  Cas.foldConstants_ok hT h hr

/-! ## 6. the Expr-level pipeline -/

/-- **`simplify_sound_noconst_partial`**: for a source expression without any `CONSTANT` the three
passes `automaticSimplify` → `foldConstants` → `optionalModifications` stay in the fragment and refine
pointwise: wherever the original is defined the result is defined and equal. -/
theorem simplify_sound_noconst_partial {k : Bool} {T : Int → Int → Bool} {f g : Nat}
    {e0 e1 e2 e3 : Expr} (hT : ∀ v, T CONSTANT v = false) (hok : Ok k T e0 = true)
    (h1 : automaticSimplify true f e0 = .ok e1) (h2 : foldConstants (g+1) e1 = .ok e2)
    (h3 : optionalModifications e2 = .ok e3) :
    Ok k T e3 = true ∧ ∀ x cv, e0.den x cv ⊑ e3.den x cv :=
  let r := exprPipeline_noconst hT hok h1 h2 h3
  ⟨r.1, r.2.2⟩

/-- **`simp_consts_le`** ("no more free constants", Expr level, constants allowed): every variable and
every constant id of the simplified expression occurs in the original one -/
theorem simp_consts_le {f g : Nat} {e0 e1 e2 e3 : Expr} (hok : IntPow e0)
    (h1 : automaticSimplify true f e0 = .ok e1) (h2 : foldConstants g e1 = .ok e2)
    (h3 : optionalModifications e2 = .ok e3) :
    ∀ o v, hasTerm o v e3 = true → o = INTEGER ∨ hasTerm o v e0 = true :=
  exprPipeline_terms_subset hok h1 h2 h3

/-- WITH constants, relative to the one ingredient that is not proved here (the folding step of this
run is a reparametrisation): the pipeline refines for suitable new constant values -/
theorem simplify_sound_partial_of_fold {k : Bool} {T : Int → Int → Bool} {f g : Nat}
    {e0 e1 e2 e3 : Expr} (hok : Ok k T e0 = true)
    (h1 : automaticSimplify true f e0 = .ok e1) (h2 : foldConstants g e1 = .ok e2)
    (h3 : optionalModifications e2 = .ok e3)
    (hfold : ∀ cv : Int → ℝ, ∃ cv' : Int → ℝ, ∀ x, e1.den x cv ⊑ e2.den x cv') :
    ∀ cv : Int → ℝ, ∃ cv' : Int → ℝ, ∀ x, e0.den x cv ⊑ e3.den x cv' :=
  exprPipeline_sound_of_fold hok h1 h2 h3 hfold

/-! ## 7. end to end on stacks -/

/-- **`simp_wf`**: the output of a successful strict run on a power-free stack (constants allowed) is
non-empty, every operator row references earlier rows only, every variable is one of the inputs -/
theorem simp_wf {D L : Nat} {s s' : Stack} (hwf : WF.WFEval D L s) (hnp : CasInterp.NoPowRows s)
    (h : simplifyWith true s = .ok s') : WF.wf D none none s' = true :=
  simplify_stack_wf hwf hnp h

/-- **`simplify_stack_sound_noconst_partial`**: a constant-free stack without `POWER`/`SAFE_POWER`
rows, simplified in strict mode.  At every data row `x` where the source expression is conventionally
defined with value `v` (`stackDen`: the partial meaning of the expression read off `s`), Mathlib's
total semantics of BOTH the source and the simplified stack give `v`: "an equation without constants is
preserved pointwise at every point where the original is finite". -/
theorem simplify_stack_sound_noconst_partial {D : Nat} {s s' : Stack} (hwf : WF.WFEval D 0 s)
    (hnp : CasInterp.NoPowRows s) (h : simplifyWith true s = .ok s') {x : List ℝ} {cv : Int → ℝ}
    {v : ℝ} (hx : x.length = D) (hv : stackDen x cv s = some v) :
    MathSem.den x [] (ETree.ofStack s) = some v ∧ MathSem.den x [] (ETree.ofStack s') = some v :=
  (simplify_stack_noconst hwf hnp h).2 x cv v hx hv

/-! ## 8. what is NOT proved

* `simplify_sound_Full`: the property with constants and with arbitrary powers.  Missing: (a) the
  semantic soundness of the constant-folding loop (`Cas.foldConstants_sound_Full`, believed true,
  validated numerically), (b) the renumbering of the emitted CONSTANT rows on the target stack.
  `POWER` with a non-literal exponent and `SAFE_POWER` are outside the fragment treated here.  For them
  only the weaker clause of the property ("agree wherever BOTH are finite") can hold, and the proof
  attempt found that even that failed: `_simplify_constant_power` rewrote `(b ^ m) ^ C → b ^ (m C)`
  whenever both exponents were INTEGER or CONSTANT terminals, e.g. `(X_0 ^ 2) ^ C_0` became `X_0 ^ C`;
  with `C_0 = 1/2` the original is `|x|`, which no `C` reproduces where both are finite.  Repaired in
  bingo and in the model: powers of powers are merged for an INTEGER outer exponent only
  (see `power_tower_kept`).
* `terminates_Full`: the fuel `fuelFor n` handed to every pass is a guess; `fuel_mono` shows that
  the result does not depend on it, `buildCas_some` that the first pass terminates, but no bound on the
  recursion depth of the eight mutually recursive simplifiers is proved. -/

def simplify_sound_Full : Prop :=
  ∀ (D L : Nat) (s s' : Stack), WF.WFEval D L s → simplifyWith true s = .ok s' →
    Renumber.numConsts s' ≤ Renumber.numConsts s ∧
    ∀ c : List ℝ, c.length = L → ∃ c' : List ℝ, c'.length = Renumber.numConsts s' ∧
      ∀ (x : List ℝ) (v : ℝ), x.length = D → stackDen x (CasInterp.cvOf s c) s = some v →
        MathSem.den x c' (ETree.ofStack (Renumber.renumber s')) = some v

def terminates_Full : Prop :=
  ∀ (D L : Nat) (s : Stack), WF.WFEval D L s → simplifyWith true s ≠ .error "fuel"

/-! ## 9. non-vacuity -/

/-- `(x0 + x0) / x0` -/
def sQ : Stack := [⟨0,0,0⟩, ⟨2,0,0⟩, ⟨5,1,0⟩]

example : WF.WFEval 1 0 sQ := by decide
example : CasInterp.NoPowRows sQ := by unfold CasInterp.NoPowRows; decide

/-- bingo simplifies it to the integer `2` -/
theorem sQ_simplified : simplifyWith true sQ = .ok [⟨-1,2,2⟩] := by rfl

/-- the source is undefined at `x0 = 0` and `2` elsewhere -/
theorem sQ_den (x0 : ℝ) (cv : Int → ℝ) : stackDen [x0] cv sQ = if x0 = 0 then none else some 2 := by
  have h : buildCasExpression sQ = .ok (node DIVISION
      [node ADDITION [term VARIABLE 0 true, term VARIABLE 0 true], term VARIABLE 0 true]) := by rfl
  unfold stackDen
  rw [h]
  dsimp only
  rw [den_bin _ _ _ _ _ (by decide) (by decide) (by decide), den_add]
  have hv : den [x0] cv (term VARIABLE 0 true) = some x0 := by rw [den_var]; rfl
  simp only [S_cons, S_nil, hv, oadd_some, Option.bind_some, add_zero, Auto.binDen_div]
  split
  · rfl
  · congr 1; field_simp; ring

/-- the end-to-end theorem instantiated: the simplified stack evaluates to `2` wherever `x0 ≠ 0` (it is
a strict refinement: the simplified stack is also defined at `x0 = 0`) -/
example (x0 : ℝ) (h0 : x0 ≠ 0) : MathSem.den [x0] [] (ETree.ofStack [⟨-1,2,2⟩]) = some 2 :=
  (simplify_stack_sound_noconst_partial (D := 1) (s := sQ) (by decide)
    (by unfold CasInterp.NoPowRows; decide) sQ_simplified (x := [x0]) (cv := fun _ => 0) rfl
    (by rw [sQ_den, if_neg h0])).2

example : WF.wf 1 none none [⟨-1,2,2⟩] = true :=
  simp_wf (D := 1) (L := 0) (s := sQ) (by decide) (by unfold CasInterp.NoPowRows; decide)
    sQ_simplified

/-- the stack on which the defect of `_merge_sums` was found:
`((2(x0+x1) + x2) + (-1)(x0+x1)) + x3` -/
def sW : Stack :=
  [⟨0,0,0⟩, ⟨0,1,1⟩, ⟨2,0,1⟩, ⟨-1,2,2⟩, ⟨4,3,2⟩, ⟨-1,-1,-1⟩, ⟨4,5,2⟩, ⟨0,2,2⟩, ⟨2,4,7⟩, ⟨2,8,6⟩,
   ⟨0,3,3⟩, ⟨2,9,10⟩]

example : WF.WFEval 4 0 sW := by decide
example : CasInterp.NoPowRows sW := by unfold CasInterp.NoPowRows; decide

set_option maxRecDepth 100000 in
/-- the repaired simplifier gives `(x0 + x1) + (x2 + x3)` (before the repair: `x0 + (x0+x1) + x2`) -/
theorem witness_repaired : simplifyWith true sW =
    .ok [⟨0,0,0⟩, ⟨0,1,1⟩, ⟨0,2,2⟩, ⟨0,3,3⟩, ⟨2,0,1⟩, ⟨2,2,3⟩, ⟨2,4,5⟩] := by rfl

/-- the fragment hypothesis is satisfiable and the Expr-level theorem applies to a concrete run:
`x0 * x0 / x0` (as an expression) simplifies to `x0`, a strict refinement (defined at `0`) -/
example : automaticSimplify true 10
    (node DIVISION [node MULTIPLICATION [term VARIABLE 0 true, term VARIABLE 0 true],
      term VARIABLE 0 true]) = .ok (term VARIABLE 0 true) := by rfl

example : IntPow (node DIVISION [node MULTIPLICATION [term VARIABLE 0 true, term VARIABLE 0 true],
    term VARIABLE 0 true]) := by decide

/-- outside the fragment, after the second repair: `(X_0 ^ 2) ^ C_0` keeps the inner square (it is
emitted as `(X_0 * X_0) ^ C`) instead of collapsing to `X_0 ^ C` -/
theorem power_tower_kept :
    simplifyWith true [⟨0,0,0⟩, ⟨-1,2,2⟩, ⟨10,0,1⟩, ⟨1,0,0⟩, ⟨10,2,3⟩] =
      .ok [⟨0,0,0⟩, ⟨4,0,0⟩, ⟨1,-1,-1⟩, ⟨10,1,2⟩] := by rfl

end Bingo.C03Cas
