import Proofs.Lemmas.CasSimplify
import Proofs.Lemmas.CasSpecs
/-!
# C03 (CAS part): the algebraic simplifier is sound on the integer-power fragment

`Cas.simplifyWith strict stack` (`Model/Cas/*.lean`) is the executable port of bingo's simplification
backend: `buildCasExpression` → `automaticSimplify` → `foldConstants` → `optionalModifications` →
`buildAgraphStack`.  Only the property theorems and their non-vacuity examples live here; the proofs
are in `Proofs/Lemmas/Cas*.lean`.

Vocabulary (`Proofs/Lemmas/CasSem.lean`):
* `Expr.den x cv e : Option ℝ` — the PARTIAL (conventional) real meaning of a CAS expression at the
  data row `x`, `cv id` = value of the constant `id`; `none` = undefined (division by `0`, `log 0`,
  `0 ^ negative`, ill-formed node).  `POWER [b, INTEGER n]` is `b ^ n` as an integer power (`zpowDen`).
* `a ⊑ b` — refinement: wherever `a` is defined, `b` is defined and equal.
* `Ok k T e` — the fragment: every `POWER` has an `INTEGER` literal exponent, no `SAFE_POWER`, every
  non-`INTEGER` terminal `(o, v)` satisfies `T o v`.  `IntPow e := Ok false (fun _ _ => true) e`.
  `k = true` adds what the stack builder needs (≥ 2 operands in sums/products, legal operators,
  exponent ≠ 1).  Every pass preserves `Ok k T` for arbitrary `T`, which also says that no pass invents
  a variable or a constant id.
* a successful run did all integer arithmetic exactly (`arith_strict`, `intPow_strict`).
* `pden x c t : Option ℝ` (`Proofs/Lemmas/CasInterpP.lean`) — the same conventional partial semantics
  directly on the tree of a stack; `buildCas_den_eq`: it IS the meaning of the expression read off the stack.
* strictness: integer arithmetic of the CAS is exact (Python ints); a result that does not fit `int64`
  raises (`"ovf"`) and `simplify_stack` falls back to `reduce_stack`.  For expressions read off a stack the
  `strict` switch of the model is irrelevant (`simplifyWith_strict_irrelevant`).

History: the proof attempt found three genuine defects of bingo's simplifier, all repaired in bingo and in
the model before the theorems below were proved:
1. `_merge_sums` / `_merge_products`: a collected like-term that is itself a sum, e.g.
   `2(x0+x1) - (x0+x1)`, was kept as ONE nested operand and a later merge dropped a summand:
   `((2(x0+x1) + x2) - (x0+x1)) + x3` became `x0 + (x0+x1) + x2` (see `witness_repaired`); the merge
   functions now flatten such a head operand, and no flatness hypothesis is needed.
2. `_simplify_constant_power` rewrote `(b ^ m) ^ C → b ^ (m C)` for a CONSTANT outer exponent:
   `(X_0 ^ 2) ^ C_0` became `X_0 ^ C`; with `C_0 = 1/2` the original is `|x|`, which no `C` reproduces
   where both are finite (see `power_tower_kept`); powers of powers are now merged for an INTEGER outer
   exponent only.
3. `int64` wrap-around of folded integers; integers are now exact and an overflow falls back to
   `reduce_stack`.
-/
namespace Bingo.C03Cas
open Bingo Bingo.Cas Gen.OpDefs Expr

/-! ## 1. the refinement order and the semantics -/

theorem refines_refl (a : Option ℝ) : a ⊑ a := Refines.refl a
theorem refines_trans {a b c : Option ℝ} (h1 : a ⊑ b) (h2 : b ⊑ c) : a ⊑ c := h1.trans h2

/-- every constructor is monotone: replacing operands by refinements refines the node -/
theorem node_mono {o : Int} {lit : Option Int} {vs vs' : List (Option ℝ)}
    (h : List.Forall₂ Refines vs vs') : nodeDen o lit vs ⊑ nodeDen o lit vs' :=
  Auto.nodeDen_mono h

/-- integer powers with a literal exponent, as in the informal specification -/
theorem pow_lit_nonneg {n : Int} (h : 0 ≤ n) (b : ℝ) : zpowDen n b = some (b ^ n.toNat) :=
  zpowDen_nonneg h b
theorem pow_lit_neg {n : Int} (h : n < 0) {b : ℝ} (hb : b ≠ 0) :
    zpowDen n b = some ((b ^ n.natAbs)⁻¹) := zpowDen_neg h hb
theorem pow_lit_neg_zero {n : Int} (h : n < 0) : zpowDen n 0 = none := zpowDen_neg_zero h

/-- `Expression.__eq__` (structural, ignoring the `numpy`/Python-int kind) implies equal meaning -/
theorem beq_den (x : List ℝ) (cv : Int → ℝ) (a b : Expr) (h : a.beq b = true) :
    den x cv a = den x cv b := Cas.beq_den x cv a b h

/-! ## 2. strict integer arithmetic is exact -/

theorem arith_strict {f : Int → Int → Int} {a b r : PInt} (h : arith true f a b = .ok r) :
    r.val = f a.val b.val := Cas.arith_strict h

/-- includes the correctness of the square-and-multiply loop `powMod64` -/
theorem intPow_strict {a b r : PInt} (h : intPow true a b = .ok r) :
    r.val = a.val ^ b.val.toNat := Cas.intPow_strict h

/-! ## 3. L1: the two interpreters -/

/-- L1a, source side: wherever the expression read off the stack is (conventionally) defined, Mathlib's
total semantics of the stack has the same value.  `cvOf s c loc` = the value `c[p1]` of the constant
loaded by row `loc` (CONSTANT terminals carry the row location as id). -/
theorem buildCas_den {D L : Nat} {s : Stack} {e : Expr} {x c : List ℝ} {v : ℝ}
    (hwf : WF.WFEval D L s) (he : buildCasExpression s = .ok e) (hx : x.length = D)
    (hc : c.length = L) (hd : e.den x (CasInterp.cvOf s c) = some v) :
    MathSem.den x c (ETree.ofStack s) = some v := CasInterp.buildCas_den hwf he hx hc hd

/-- a constant-free stack without `POWER`/`SAFE_POWER` rows gives an expression of the fragment -/
theorem buildCas_ok {D : Nat} {s : Stack} {e : Expr} (hwf : WF.WFEval D 0 s)
    (hnp : CasInterp.NoPowRows s) (he : buildCasExpression s = .ok e) :
    Ok true (varsBelow D) e = true := CasInterp.buildCas_ok hwf hnp he

/-- the same for stacks whose `POWER` rows have an INTEGER row ≠ 1 as exponent (no `SAFE_POWER`) -/
theorem buildCas_ok_pow {D L : Nat} {s : Stack} {e : Expr} (hwf : WF.WFEval D L s)
    (hnp : CasInterp.PowLitRows s) (he : buildCasExpression s = .ok e) :
    Ok true (CasInterp.termsOf D s) e = true := CasInterp.buildCas_ok_pow_gen hwf hnp he

/-- the expression read off a stack means exactly what the stack means conventionally (`pden`: the partial
semantics on the tree of the stack; an EQUALITY, POWER / SAFE_POWER rows and constants allowed) -/
theorem buildCas_den_eq {D L : Nat} {s : Stack} {e : Expr} {x c : List ℝ}
    (hwf : WF.WFEval D L s) (he : buildCasExpression s = .ok e) (hx : x.length = D)
    (hc : c.length = L) :
    e.den x (CasInterp.cvOf s c) = CasInterp.pden x c (ETree.ofStack s) :=
  CasInterp.buildCas_den_eq hwf he hx hc

/-- wherever the conventional meaning is defined, Mathlib's total functions agree with it -/
theorem pden_sound (x c : List ℝ) (t : ETree) (v : ℝ) (h : CasInterp.pden x c t = some v) :
    MathSem.den x c t = some v := CasInterp.pden_sound x c t v h

/-- this pass terminates on every well-formed stack -/
theorem buildCas_some {D L : Nat} {s : Stack} (hwf : WF.WFEval D L s) :
    ∃ e, buildCasExpression s = .ok e := CasInterp.buildCas_some hwf

/-- with common-sub-expression sharing the root is still the LAST row of the emitted dict (the AGraph
evaluates the last row): old rows cannot reference new rows, so a root found by the dedup lookup
means nothing was appended at all, which cannot happen starting from the empty dict -/
theorem root_is_last {T : Int → Int → Bool} {e : Expr} {d : StackDict} {loc : Int}
    (hT : ∀ o v, T o v = true → Ops.isTerminal o = some true) (hok : Ok true T e = true)
    (h : buildStackRec e [] = .ok (d, loc)) : d ≠ [] ∧ loc = ↑d.length - 1 :=
  let r := CasInterp.buildStackRec_root_last hT hok h
  ⟨r.1, r.2.1⟩

/-- `interp_den`, on the pre-emit dict (constants read through their id): the tree of the last row
has the value of the expression wherever the expression is defined.  Side condition on `e`: `Ok true`
(sums / products with ONE operand would be emitted as `a + a` / `a * a`). -/
theorem interp_den {T : Int → Int → Bool} {e : Expr} {d : StackDict} {loc : Int} {x : List ℝ}
    {cv : Int → ℝ} {v : ℝ} (hT : ∀ o v, T o v = true → Ops.isTerminal o = some true)
    (hok : Ok true T e = true) (h : buildStackRec e [] = .ok (d, loc)) (hd : e.den x cv = some v) :
    CasInterp.gden (termDen x cv) (ETree.ofStack d) = some v :=
  CasInterp.buildStackRec_den_tree hT hok h hd

/-- `interp_den` for the emitted stack of a constant-free expression -/
theorem interp_den_noconst {D : Nat} {e : Expr} {s' : Stack} {x : List ℝ} {cv : Int → ℝ} {v : ℝ}
    (hok : Ok true (varsBelow D) e = true) (h : buildAgraphStack e = .ok s') (hx : x.length = D)
    (hd : e.den x cv = some v) : MathSem.den x [] (ETree.ofStack s') = some v :=
  CasInterp.buildAgraphStack_den_noconst hok h hx hd

/-- `interp_den` for the emitted AND renumbered stack, WITH constants: `ids` are the ids of the CONSTANT
rows in row order (pairwise different, all occurring in `e`), the k-th one becomes constant `k` -/
theorem interp_den_consts {T : Int → Int → Bool} {D : Nat} {e : Expr} {s' : Stack}
    (hT : ∀ o v, T o v = true → varsBelow D o v = true ∨ o = CONSTANT)
    (hok : Ok true T e = true) (h : buildAgraphStack e = .ok s') :
    ∃ ids : List Int, ids.length = Renumber.numConsts s' ∧ ids.Nodup ∧
      (∀ id ∈ ids, T CONSTANT id = true ∧ CasInterp.hasConstId id e = true) ∧
      ∀ (x : List ℝ) (cv : Int → ℝ) (v : ℝ), e.den x cv = some v →
        MathSem.den x (ids.map cv) (ETree.ofStack (Renumber.renumber s')) = some v :=
  CasInterp.buildAgraphStack_den_consts hT hok h

/-! ## 4. L2/L3: `automaticSimplify` (strict) refines, function by function

`k`, `T` arbitrary; with `k = false`, `T = fun _ _ => true` the hypothesis `Ok k T e = true` is
`IntPow e`.  `P x cv l` / `S x cv l` = product / sum of the meanings of a list. -/

section auto
variable {k : Bool} {T : Int → Int → Bool} {f : Nat}

theorem simplifyProductRec_sound {l rs : List Expr} (hl : ∀ e ∈ l, Ok k T e = true)
    (h : simplifyProductRec true f l = .ok rs) :
    (∀ r ∈ rs, Ok k T r = true) ∧ ∀ x cv, P x cv l ⊑ P x cv rs := Cas.simplifyProductRec_sound hl h

theorem mergeProducts_sound {l₁ l₂ rs : List Expr} (h1 : ∀ e ∈ l₁, Ok k T e = true)
    (h2 : ∀ e ∈ l₂, Ok k T e = true) (h : mergeProducts true f l₁ l₂ = .ok rs) :
    (∀ r ∈ rs, Ok k T r = true) ∧ ∀ x cv, omul (P x cv l₁) (P x cv l₂) ⊑ P x cv rs :=
  Cas.mergeProducts_sound h1 h2 h

theorem simplifySumRec_sound {l rs : List Expr} (hl : ∀ e ∈ l, Ok k T e = true)
    (h : simplifySumRec true f l = .ok rs) :
    (∀ r ∈ rs, Ok k T r = true) ∧ ∀ x cv, S x cv l ⊑ S x cv rs := Cas.simplifySumRec_sound hl h

theorem mergeSums_sound {l₁ l₂ rs : List Expr} (h1 : ∀ e ∈ l₁, Ok k T e = true)
    (h2 : ∀ e ∈ l₂, Ok k T e = true) (h : mergeSums true f l₁ l₂ = .ok rs) :
    (∀ r ∈ rs, Ok k T r = true) ∧ ∀ x cv, oadd (S x cv l₁) (S x cv l₂) ⊑ S x cv rs :=
  Cas.mergeSums_sound h1 h2 h

theorem simplifyProduct_sound {l : List Expr} {r : Expr} (hl : ∀ e ∈ l, Ok k T e = true)
    (h : simplifyProduct true f l = .ok r) :
    Ok k T r = true ∧ ∀ x cv, den x cv (node MULTIPLICATION l) ⊑ den x cv r :=
  Cas.simplifyProduct_sound hl h

theorem simplifySum_sound {l : List Expr} {r : Expr} (hl : ∀ e ∈ l, Ok k T e = true)
    (h : simplifySum true f l = .ok r) :
    Ok k T r = true ∧ ∀ x cv, den x cv (node ADDITION l) ⊑ den x cv r := Cas.simplifySum_sound hl h

theorem simplifyPower_sound {b r : Expr} {n : Int} {np : Bool} (hb : Ok k T b = true)
    (h : simplifyPower true f b (term INTEGER n np) = .ok r) :
    Ok k T r = true ∧ ∀ x cv, den x cv (node POWER [b, term INTEGER n np]) ⊑ den x cv r :=
  Cas.simplifyPower_sound hb h

theorem simplifyConstantPower_sound {b r : Expr} {n : Int} {np : Bool} (hb : Ok k T b = true)
    (h : simplifyConstantPower true f b (term INTEGER n np) = .ok r) :
    Ok k T r = true ∧ ∀ x cv, den x cv (node POWER [b, term INTEGER n np]) ⊑ den x cv r :=
  Cas.simplifyConstantPower_sound hb h

theorem simplifyQuotient_sound {a b r : Expr} (ha : Ok k T a = true) (hb : Ok k T b = true)
    (h : simplifyQuotient true f a b = .ok r) :
    Ok k T r = true ∧ ∀ x cv, den x cv (node DIVISION [a, b]) ⊑ den x cv r :=
  Auto.simplifyQuotient_sound ha hb h

theorem simplifyDifference_sound {a b r : Expr} (ha : Ok k T a = true) (hb : Ok k T b = true)
    (h : simplifyDifference true f a b = .ok r) :
    Ok k T r = true ∧ ∀ x cv, den x cv (node SUBTRACTION [a, b]) ⊑ den x cv r :=
  Auto.simplifyDifference_sound ha hb h

/-- `log(exp u) = u` uses `log |exp u| = u`; `log 1 = 0` -/
theorem simplifyLogarithm_sound {a r : Expr} (hs : shapeOK k LOGARITHM [a] = true)
    (ha : Ok k T a = true) (h : simplifyLogarithm a = .ok r) :
    Ok k T r = true ∧ ∀ x cv, den x cv (node LOGARITHM [a]) ⊑ den x cv r :=
  Auto.simplifyLogarithm_sound hs ha h

theorem dispatch_sound {o : Int} {args : List Expr} {r : Expr} (hs : shapeOK k o args = true)
    (ha : ∀ a ∈ args, Ok k T a = true) (h : dispatch true f o args = .ok r) :
    Ok k T r = true ∧ ∀ x cv, den x cv (node o args) ⊑ den x cv r := Auto.dispatch_sound hs ha h

/-- general form: the result stays in the fragment and refines the input -/
theorem automaticSimplify_sound' {e e' : Expr} (hok : Ok k T e = true)
    (h : automaticSimplify true f e = .ok e') :
    Ok k T e' = true ∧ ∀ x cv, den x cv e ⊑ den x cv e' := Auto.automaticSimplify_sound hok h

end auto

/-- **`automaticSimplify_sound`** on the integer-power fragment -/
theorem automaticSimplify_sound {f : Nat} {e e' : Expr} (hok : IntPow e)
    (h : automaticSimplify true f e = .ok e') :
    IntPow e' ∧ ∀ x cv, e.den x cv ⊑ e'.den x cv := Auto.automaticSimplify_sound hok h

/-- `fuel_mono`: the result of a successful run does not depend on the fuel -/
theorem fuel_mono {st : Bool} {f : Nat} {e r : Expr} (h : automaticSimplify st f e = .ok r) :
    automaticSimplify st (f+1) e = .ok r := FuelMono.automaticSimplify_fuel_succ h

theorem fuel_mono_le {st : Bool} {f f' : Nat} {e r : Expr} (hle : f ≤ f')
    (h : automaticSimplify st f e = .ok r) : automaticSimplify st f' e = .ok r :=
  FuelMono.automaticSimplify_fuel_mono hle h

/-- `NoNp e`: every INTEGER terminal is an exact Python int.  On such expressions the strictness switch
is irrelevant, and the property is preserved -/
theorem strict_irrelevant {st : Bool} {f : Nat} {e : Expr} (h : NoNpM.NoNp e = true) :
    automaticSimplify st f e = automaticSimplify true f e :=
  NoNpM.automaticSimplify_strict_irrelevant h

theorem buildCas_noNp {s : Stack} {e : Expr} (h : buildCasExpression s = .ok e) :
    NoNpM.NoNp e = true := NoNpM.buildCasExpression_noNp h

/-- for every stack the wrapping run and the strict run are the same computation -/
theorem simplifyWith_strict_irrelevant (s : Stack) : simplifyWith false s = simplifyWith true s :=
  NoNpM.simplifyWith_strict_irrelevant s

/-! ## 5. L3 continued: optional modifications, grouping, folding -/

/-- the meaning is preserved EXACTLY (no hypothesis on `e`) -/
theorem insertSubtraction_sound (e : Expr) (x : List ℝ) (cv : Int → ℝ) :
    (insertSubtraction e).den x cv = e.den x cv := insertSubtraction_den e x cv

/-- `x ^ n → x · … · x` for `n > 0`: the meaning is preserved exactly -/
theorem replaceIntegerPowers_sound {e e' : Expr} (hr : replaceIntegerPowers e = .ok e')
    (x : List ℝ) (cv : Int → ℝ) : e'.den x cv = e.den x cv := replaceIntegerPowers_den hr x cv

theorem optionalModifications_sound {e e' : Expr} (hr : optionalModifications e = .ok e')
    (x : List ℝ) (cv : Int → ℝ) : e'.den x cv = e.den x cv := optionalModifications_den hr x cv

theorem optionalModifications_ok {k : Bool} {T : Int → Int → Bool} {e e' : Expr}
    (h : Ok k T e = true) (hr : optionalModifications e = .ok e') : Ok k T e' = true :=
  Cas.optionalModifications_ok h hr

theorem groupConstants_sound (e : Expr) (x : List ℝ) (cv : Int → ℝ) :
    (groupConstants e).den x cv = e.den x cv := Cas.groupConstants_sound e x cv

/-- without constants the folding loop stops at once -/
theorem foldLoop_noconst (fuel : Nat) {e : Expr} (h : getConstants e = []) :
    foldLoop (fuel+1) e = .ok e := Cas.foldLoop_noconst fuel h

theorem foldConstants_noconst {k : Bool} {T : Int → Int → Bool} (fuel : Nat) {e : Expr}
    (h : Ok k T e = true) (hT : ∀ v, T CONSTANT v = false) :
    foldConstants (fuel+1) e = .ok (groupConstants e) := Cas.foldConstants_noconst fuel h hT

/-- constant folding WITH constants keeps the fragment (for `k = true`: when the admissible terminals
are variables and constants only) -/
theorem foldConstants_ok {k : Bool} {T : Int → Int → Bool} (hT : k = true → TermT T) {fuel : Nat}
    {e e' : Expr} (h : Ok k T e = true) (hr : foldConstants fuel e = .ok e') : Ok k T e' = true :=
  Cas.foldConstants_ok hT h hr

/-- **constant folding is sound up to a reparametrisation of the constants** that does not depend on
the data row (`TermT T`: the admissible non-INTEGER terminals are variables and constants) -/
theorem foldConstants_sound {k : Bool} {T : Int → Int → Bool} (hT : TermT T) {fuel : Nat}
    {e e' : Expr} (hok : Ok k T e = true) (h : foldConstants fuel e = .ok e') :
    ∀ cv : Int → ℝ, ∃ cv' : Int → ℝ, ∀ x : List ℝ, e.den x cv ⊑ e'.den x cv' :=
  Cas.foldConstants_sound hT hok h

/-! ## 6. the Expr-level pipeline -/

/-- **`simplify_sound_noconst_partial`**: for a source expression without any `CONSTANT` the three
passes `automaticSimplify` → `foldConstants` → `optionalModifications` stay in the fragment and refine
pointwise: wherever the original is defined the result is defined and equal. -/
theorem simplify_sound_noconst_partial {k : Bool} {T : Int → Int → Bool} {f g : Nat}
    {e0 e1 e2 e3 : Expr} (hT : ∀ v, T CONSTANT v = false) (hok : Ok k T e0 = true)
    (h1 : automaticSimplify true f e0 = .ok e1) (h2 : foldConstants (g+1) e1 = .ok e2)
    (h3 : optionalModifications e2 = .ok e3) :
    Ok k T e3 = true ∧ ∀ x cv, e0.den x cv ⊑ e3.den x cv :=
  let r := exprPipeline_noconst hT hok h1 h2 h3
  ⟨r.1, r.2.2⟩

/-- **`simp_consts_le`** ("no more free constants", Expr level, constants allowed): every variable and
every constant id of the simplified expression occurs in the original one -/
theorem simp_consts_le {f g : Nat} {e0 e1 e2 e3 : Expr} (hok : IntPow e0)
    (h1 : automaticSimplify true f e0 = .ok e1) (h2 : foldConstants g e1 = .ok e2)
    (h3 : optionalModifications e2 = .ok e3) :
    ∀ o v, hasTerm o v e3 = true → o = INTEGER ∨ hasTerm o v e0 = true :=
  exprPipeline_terms_subset hok h1 h2 h3

/-- **`simplify_sound_partial`**, WITH constants: for every value of the constants there are new values
(independent of the data row) under which the simplified expression is defined and equal wherever the
original is defined -/
theorem simplify_sound_partial {k : Bool} {T : Int → Int → Bool} (hT : TermT T) {f g : Nat}
    {e0 e1 e2 e3 : Expr} (hok : Ok k T e0 = true)
    (h1 : automaticSimplify true f e0 = .ok e1) (h2 : foldConstants g e1 = .ok e2)
    (h3 : optionalModifications e2 = .ok e3) :
    ∀ cv : Int → ℝ, ∃ cv' : Int → ℝ, ∀ x, e0.den x cv ⊑ e3.den x cv' :=
  exprPipeline_sound hT hok h1 h2 h3

/-! ## 7. end to end on stacks

Fragment: `PowLitRows s` — no `SAFE_POWER` row, every `POWER` row has an INTEGER row with value ≠ 1 as
exponent (in particular: stacks without power rows, `NoPowRows.powLit`). -/

/-- **`simp_wf`** (strict run, constants allowed): the output is non-empty, every operator row references
earlier rows only, every variable is one of the inputs; after the renumbering of `AGraph._update` it is an
input of the evaluation backend -/
theorem simp_wf {D L : Nat} {s s' : Stack} (hwf : WF.WFEval D L s) (hnp : CasInterp.PowLitRows s)
    (h : simplifyWith true s = .ok s') :
    WF.wf D none none s' = true ∧ WF.WFEval D (Renumber.numConsts s') (Renumber.renumber s') :=
  simplify_stack_wf hwf hnp h

/-- **`simplify_stack_sound_noconst_partial`** (strict run): a constant-free stack of the fragment.  At
every data row `x` where the source stack is conventionally defined with value `v`, Mathlib's total
semantics of the simplified stack gives `v`: "an equation without constants is preserved pointwise at
every point where the original is finite". -/
theorem simplify_stack_sound_noconst_partial {D : Nat} {s s' : Stack} (hwf : WF.WFEval D 0 s)
    (hnp : CasInterp.PowLitRows s) (h : simplifyWith true s = .ok s') {x : List ℝ} {v : ℝ}
    (hx : x.length = D) (hv : CasInterp.pden x [] (ETree.ofStack s) = some v) :
    MathSem.den x [] (ETree.ofStack s') = some v :=
  (simplify_stack_noconst hwf hnp h).2 x v hx hv

/-- **`simplify_stack_sound_partial`** (strict run, WITH constants): no more constants than before, and
for every value `c` of the original constants there is a value `c'` of the new ones such that at every
data row where the source is conventionally defined the simplified, renumbered stack has the same value -/
theorem simplify_stack_sound_partial {D L : Nat} {s s' : Stack} (hwf : WF.WFEval D L s)
    (hnp : CasInterp.PowLitRows s) (h : simplifyWith true s = .ok s') :
    Renumber.numConsts s' ≤ Renumber.numConsts s ∧
    ∀ c : List ℝ, c.length = L → ∃ c' : List ℝ, c'.length = Renumber.numConsts s' ∧
      ∀ (x : List ℝ) (v : ℝ), x.length = D → CasInterp.pden x c (ETree.ofStack s) = some v →
        MathSem.den x c' (ETree.ofStack (Renumber.renumber s')) = some v :=
  simplify_stack_consts hwf hnp h

/-! ### `Cas.simplify` = `simplify_stack`, the function the real code runs (no strictness switch)

It runs the CAS and falls back to `reduce_stack` when an integer of the simplified expression would not
fit `int64`; both branches are covered. -/

/-- **C03 (CAS part) for constant-free equations** -/
theorem simplify_noconst_sound {D : Nat} {s s' : Stack} (hwf : WF.WFEval D 0 s)
    (hnp : CasInterp.PowLitRows s) (h : Cas.simplify s = .ok s') :
    WF.wf D none none s' = true ∧
    ∀ (x : List ℝ) (v : ℝ), x.length = D → CasInterp.pden x [] (ETree.ofStack s) = some v →
      MathSem.den x [] (ETree.ofStack s') = some v :=
  Cas.simplify_noconst_sound hwf hnp h

/-- **C03 (CAS part) WITH constants**: the simplified, renumbered stack is an input of the evaluation
backend with no more constants than the source; for every setting of the original constants some setting
of the simplified constants makes the two agree at every point where the original is defined -/
theorem simplify_consts_sound {D L : Nat} {s s' : Stack} (hwf : WF.WFEval D L s)
    (hnp : CasInterp.PowLitRows s) (h : Cas.simplify s = .ok s') :
    WF.WFEval D (Renumber.numConsts s') (Renumber.renumber s') ∧
    Renumber.numConsts s' ≤ Renumber.numConsts s ∧
    ∀ c : List ℝ, c.length = L → ∃ c' : List ℝ, c'.length = Renumber.numConsts s' ∧
      ∀ (x : List ℝ) (v : ℝ), x.length = D → CasInterp.pden x c (ETree.ofStack s) = some v →
        MathSem.den x c' (ETree.ofStack (Renumber.renumber s')) = some v :=
  Cas.simplify_consts_sound hwf hnp h

/-! ## 8. what is NOT proved

* `simplify_sound_Full`: the property for ALL stacks, i.e. also `POWER` rows with a non-literal exponent
  and `SAFE_POWER` rows.  For them only the weaker clause of the property ("agree wherever BOTH are
  finite") can hold: e.g. `(a b) ^ C → a ^ C · b ^ C` is undefined for `a, b < 0`, `C = 1/2` where the
  original is defined, so it is not a refinement; "agree where both are defined" is not transitive, so the
  pass-by-pass method used here does not apply.  The statement below is the refinement form, which is the
  right one on the fragment `PowLitRows` (proved: `simplify_consts_sound`) and false outside.
* `terminates_Full`: the fuel `fuelFor n` handed to every pass is a guess; `fuel_mono` shows that the
  result does not depend on it and `buildCas_some` that the first pass terminates, but no bound on the
  recursion depth of the eight mutually recursive simplifiers is proved. -/

def simplify_sound_Full : Prop :=
  ∀ (D L : Nat) (s s' : Stack), WF.WFEval D L s → Cas.simplify s = .ok s' →
    Renumber.numConsts s' ≤ Renumber.numConsts s ∧
    ∀ c : List ℝ, c.length = L → ∃ c' : List ℝ, c'.length = Renumber.numConsts s' ∧
      ∀ (x : List ℝ) (v : ℝ), x.length = D → CasInterp.pden x c (ETree.ofStack s) = some v →
        MathSem.den x c' (ETree.ofStack (Renumber.renumber s')) = some v

def terminates_Full : Prop :=
  ∀ (D L : Nat) (s : Stack), WF.WFEval D L s → simplifyWith false s ≠ .error "fuel"

/-! ## 9. non-vacuity -/

/-- `(x0 + x0) / x0` -/
def sQ : Stack := [⟨0,0,0⟩, ⟨2,0,0⟩, ⟨5,1,0⟩]

theorem sQ_wf : WF.WFEval 1 0 sQ := by decide
theorem sQ_frag : CasInterp.PowLitRows sQ :=
  CasInterp.NoPowRows.powLit (by unfold CasInterp.NoPowRows; decide)

/-- bingo simplifies it to the integer `2` (both the pipeline and `simplify_stack` itself) -/
theorem sQ_simplified : simplifyWith true sQ = .ok [⟨-1,2,2⟩] := by rfl
theorem sQ_simplify : Cas.simplify sQ = .ok [⟨-1,2,2⟩] := by rfl

/-- the source is undefined at `x0 = 0` and `2` elsewhere -/
theorem sQ_den (x0 : ℝ) :
    CasInterp.pden [x0] [] (ETree.ofStack sQ) = if x0 = 0 then none else some 2 := by
  have h : ETree.ofStack sQ = .bin 5 (.bin 2 (.leaf 0 0) (.leaf 0 0)) (.leaf 0 0) := by rfl
  have hv : MathSem.leaf [x0] [] 0 0 = some x0 := by rfl
  rw [h]
  simp only [CasInterp.pden, hv, Option.bind_some]
  rw [show (2 : Int) = ADDITION from rfl, CasInterp.binDen_add, Option.bind_some,
    show (5 : Int) = DIVISION from rfl, Auto.binDen_div]
  split
  · rfl
  · congr 1; field_simp; ring

/-- the end-to-end theorem instantiated: the simplified stack evaluates to `2` wherever `x0 ≠ 0` (it is a
strict refinement: the simplified stack is also defined at `x0 = 0`) -/
example (x0 : ℝ) (h0 : x0 ≠ 0) : MathSem.den [x0] [] (ETree.ofStack [⟨-1,2,2⟩]) = some 2 :=
  (simplify_noconst_sound sQ_wf sQ_frag sQ_simplify).2 [x0] 2 rfl (by rw [sQ_den, if_neg h0])

example : WF.wf 1 none none [⟨-1,2,2⟩] = true :=
  (simp_wf sQ_wf sQ_frag sQ_simplified).1

/-- with a constant: `c0 * x0 + c0 * x0` becomes `2 * c * x0`-like with ONE constant -/
def sC : Stack := [⟨1,0,0⟩, ⟨0,0,0⟩, ⟨4,0,1⟩, ⟨2,2,2⟩]

example : WF.WFEval 1 1 sC := by decide

set_option maxRecDepth 100000 in
theorem sC_simplify : Cas.simplify sC = .ok [⟨1,-1,-1⟩, ⟨0,0,0⟩, ⟨4,0,1⟩] := by rfl

example : Renumber.renumber [⟨1,-1,-1⟩, ⟨0,0,0⟩, ⟨4,0,1⟩] = [⟨1,0,0⟩, ⟨0,0,0⟩, ⟨4,0,1⟩] := by decide

/-- the stack on which the defect of `_merge_sums` was found:
`((2(x0+x1) + x2) + (-1)(x0+x1)) + x3` -/
def sW : Stack :=
  [⟨0,0,0⟩, ⟨0,1,1⟩, ⟨2,0,1⟩, ⟨-1,2,2⟩, ⟨4,3,2⟩, ⟨-1,-1,-1⟩, ⟨4,5,2⟩, ⟨0,2,2⟩, ⟨2,4,7⟩, ⟨2,8,6⟩,
   ⟨0,3,3⟩, ⟨2,9,10⟩]

example : WF.WFEval 4 0 sW := by decide
example : CasInterp.PowLitRows sW :=
  CasInterp.NoPowRows.powLit (by unfold CasInterp.NoPowRows; decide)

set_option maxRecDepth 100000 in
/-- the repaired simplifier gives `(x0 + x1) + (x2 + x3)` (before the repair: `x0 + (x0+x1) + x2`) -/
theorem witness_repaired : simplifyWith true sW =
    .ok [⟨0,0,0⟩, ⟨0,1,1⟩, ⟨0,2,2⟩, ⟨0,3,3⟩, ⟨2,0,1⟩, ⟨2,2,3⟩, ⟨2,4,5⟩] := by rfl

/-- the fragment hypothesis is satisfiable and the Expr-level theorem applies to a concrete run:
`x0 * x0 / x0` (as an expression) simplifies to `x0`, a strict refinement (defined at `0`) -/
example : automaticSimplify true 10
    (node DIVISION [node MULTIPLICATION [term VARIABLE 0 true, term VARIABLE 0 true],
      term VARIABLE 0 true]) = .ok (term VARIABLE 0 true) := by rfl

example : IntPow (node DIVISION [node MULTIPLICATION [term VARIABLE 0 true, term VARIABLE 0 true],
    term VARIABLE 0 true]) := by decide

/-- outside the fragment, after the second repair: `(X_0 ^ 2) ^ C_0` keeps the inner square (it is
emitted as `(X_0 * X_0) ^ C`) instead of collapsing to `X_0 ^ C` -/
theorem power_tower_kept :
    simplifyWith true [⟨0,0,0⟩, ⟨-1,2,2⟩, ⟨10,0,1⟩, ⟨1,0,0⟩, ⟨10,2,3⟩] =
      .ok [⟨0,0,0⟩, ⟨4,0,0⟩, ⟨1,-1,-1⟩, ⟨10,1,2⟩] := by rfl

end Bingo.C03Cas
