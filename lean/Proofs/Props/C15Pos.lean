import Proofs.Props.C15
/-!
# C15, continued: *which* member the island scan returns

`C15.island_scan` says the reported individual is a member of minimal non-NaN fitness.  That
leaves ties open.  `island_scan_position` determines the answer completely: the population splits
as `pre ++ b :: post` with

* every member before `b` NaN or strictly worse than `b` -- so among equal minima the *first* is
  reported;
* every member after `b` not better than `b`, and `b` itself a number unless nothing follows it --
  so a NaN is reported only as the *last* member of an all-NaN population
  (`island_scan_all_nan_last`).

The tie rule is part of the seed-to-result function (C17) and of "the best individual reported"
being reproducible across arrangements only up to equal fitness (`C15.island_scan_perm`).
-/
namespace Bingo
namespace C15
open BestScan

variable {ι : Type}

/-- the complete description of the scan result relative to a list `l` -/
def ScanPos (l : List (Key × ι)) (b : Key × ι) : Prop :=
  ∃ pre post, l = pre ++ b :: post ∧
    (∀ q ∈ pre, q.1.isNan = true ∨ Key.lt b.1 q.1 = true) ∧
    (∀ q ∈ post, b.1.isNan = false ∧ Key.lt q.1 b.1 = false)

theorem scanStep_self (p : Key × ι) : scanStep p p = p := by
  unfold scanStep; split <;> rfl

theorem scanStep_scanPos (done : List (Key × ι)) (b x : Key × ι) (h : ScanPos done b) :
    ScanPos (done ++ [x]) (scanStep b x) := by
  obtain ⟨pre, post, hsplit, hpre, hpost⟩ := h
  unfold scanStep
  split
  · next hrep =>
    -- `x` replaces `b`
    refine ⟨pre ++ b :: post, [], ?_, ?_, by simp⟩
    · rw [hsplit]
    · intro q hq
      rcases Bool.or_eq_true_iff.1 hrep with hlt | hnan
      · -- both numbers, x < b
        obtain ⟨bk, bi⟩ := b
        obtain ⟨xk, xi⟩ := x
        cases bk with
        | none => cases xk <;> simp [Key.lt] at hlt
        | some bv =>
          cases xk with
          | none => simp [Key.lt] at hlt
          | some xv =>
            simp only [Key.lt, decide_eq_true_eq] at hlt
            rcases List.mem_append.1 hq with hq | hq
            · rcases hpre q hq with h | h
              · exact Or.inl h
              · right
                obtain ⟨qk, qi⟩ := q
                cases qk with
                | none => simp [Key.lt] at h
                | some qv =>
                  simp only [Key.lt, decide_eq_true_eq] at h ⊢
                  omega
            · rcases List.mem_cons.1 hq with hq | hq
              · subst hq; right; simp only [Key.lt, decide_eq_true_eq]; exact hlt
              · obtain ⟨_, h⟩ := hpost q hq
                obtain ⟨qk, qi⟩ := q
                cases qk with
                | none => left; rfl
                | some qv =>
                  right
                  simp only [Key.lt, decide_eq_false_iff_not] at h
                  simp only [Key.lt, decide_eq_true_eq]
                  omega
      · -- `b` is NaN: nothing follows it and everything before it is NaN
        have hpostnil : post = [] := by
          cases post with
          | nil => rfl
          | cons q' _ =>
            have := (hpost q' (by simp)).1
            rw [hnan] at this; cases this
        subst hpostnil
        rcases List.mem_append.1 hq with hq | hq
        · rcases hpre q hq with h | h
          · exact Or.inl h
          · obtain ⟨bk, bi⟩ := b
            cases bk with
            | none => simp [Key.lt] at h
            | some _ => simp [Key.isNan] at hnan
        · simp only [List.mem_singleton] at hq
          subst hq; exact Or.inl hnan
  · next hkeep =>
    -- `b` stays
    have hk := Bool.or_eq_false_iff.1 (by simpa using hkeep)
    refine ⟨pre, post ++ [x], ?_, hpre, ?_⟩
    · rw [hsplit]; simp
    · intro q hq
      rcases List.mem_append.1 hq with hq | hq
      · exact hpost q hq
      · simp only [List.mem_singleton] at hq
        subst hq; exact ⟨hk.2, hk.1⟩


theorem foldl_scanPos_gen (rest : List (Key × ι)) :
    ∀ (done : List (Key × ι)) (b : Key × ι), ScanPos done b →
      ScanPos (done ++ rest) (rest.foldl scanStep b) := by
  induction rest with
  | nil => intro done b h; simpa using h
  | cons x rest ih =>
    intro done b h
    have := ih (done ++ [x]) (scanStep b x) (scanStep_scanPos done b x h)
    simpa using this

theorem foldl_scanPos (p : Key × ι) (rest : List (Key × ι)) :
    ScanPos (p :: rest) (rest.foldl scanStep p) :=
  foldl_scanPos_gen rest [p] p ⟨[], [], rfl, by simp, by simp⟩

/-- The island scan returns the first member of minimal non-NaN fitness; a NaN only at the very
end of the list. -/
theorem island_scan_position (pop : List (Key × ι)) (b : Key × ι) (h : islandScan pop = some b) :
    ScanPos pop b := by
  cases pop with
  | nil => simp [islandScan] at h
  | cons p rest =>
    simp only [islandScan, List.foldl_cons, scanStep_self, Option.some.injEq] at h
    subst h
    exact foldl_scanPos p rest

/-- Among members of equal fitness the first one is reported: nobody before the reported member
has the same (or a better) fitness. -/
theorem island_scan_first_of_ties (pop : List (Key × ι)) (b : Key × ι)
    (h : islandScan pop = some b) :
    ∃ pre post, pop = pre ++ b :: post ∧ ∀ q ∈ pre, Key.le q.1 b.1 = false := by
  obtain ⟨pre, post, hs, hpre, _⟩ := island_scan_position pop b h
  refine ⟨pre, post, hs, fun q hq => ?_⟩
  obtain ⟨qk, qi⟩ := q
  obtain ⟨bk, bi⟩ := b
  rcases hpre _ hq with hn | hl
  · cases qk with
    | none => cases bk <;> rfl
    | some _ => simp [Key.isNan] at hn
  · cases qk with
    | none => cases bk <;> rfl
    | some qv =>
      cases bk with
      | none => rfl
      | some bv =>
        simp only [Key.lt, decide_eq_true_eq] at hl
        simp only [Key.le, decide_eq_false_iff_not]
        omega

/-- If the reported fitness is NaN, the reported individual is the last member. -/
theorem island_scan_all_nan_last (pop : List (Key × ι)) (b : Key × ι)
    (h : islandScan pop = some b) (hn : b.1.isNan = true) : pop.getLast? = some b := by
  obtain ⟨pre, post, hs, _, hpost⟩ := island_scan_position pop b h
  cases post with
  | nil => subst hs; simp
  | cons q _ =>
    have := (hpost q (by simp)).1
    rw [hn] at this; cases this

/-! non-vacuity: ties `1 1`, a NaN in front, a better value later -/
example : islandScan [((none : Key), 0), (some 3, 1), (some 1, 2), (none, 3), (some 1, 4)] =
    some (some 1, 2) := by decide
example : islandScan [((none : Key), 0), (none, 1), (none, 2)] = some (none, 2) := by decide

end C15
end Bingo
