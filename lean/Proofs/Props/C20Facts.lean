import Model.Generated.SourceFacts
/-!
# C20 -- the text of `_calculate_partials` the model `SavGol.partials` mirrors, regenerated from the source

Break points are the rows with a NaN in ANY column; each trajectory is filtered column by column with window 7, order 3,
first derivative; the first 3 and the last 4 rows of every trajectory are dropped; the retained indices are
`start + 3 .. end - 5` of each trajectory.
-/
namespace Bingo
namespace C20Facts
open Gen.SourceFacts

theorem gen_calculate_partials :
    implicitCalculatePartials = "break_points = np.where(np.any(np.isnan(x), 1))[0].tolist() ; break_points.append(x.shape[0]) ; start = 0 ; for end in break_points:     x_seg = np.copy(x[start:end, :])     time_deriv = np.empty(x_seg.shape)     for i in range(x_seg.shape[1]):         time_deriv[:, i] = _savitzky_golay_gram(x_seg[:, i], 7, 3, 1)     time_deriv = time_deriv[3:-4, :]     x_seg = x_seg[3:-4, :]     if start == 0:         x_all = np.copy(x_seg)         time_deriv_all = np.copy(time_deriv)         inds_all = np.arange(start + 3, end - 4)     else:         x_all = np.vstack((x_all, np.copy(x_seg)))         time_deriv_all = np.vstack((time_deriv_all, np.copy(time_deriv)))         inds_all = np.hstack((inds_all, np.arange(start + 3, end - 4)))     start = end + 1 ; return (x_all, time_deriv_all, inds_all)" := rfl

/-- the fitness vector the model `SavGol.implicitVector` mirrors: a ratio of the directional derivative to the sum of its absolute terms, with the `required_params` guard and nothing else between them -/
theorem gen_implicit_fitness_vector :
    implicitFitnessVector = "self.eval_count += 1 ; _, df_dx = individual.evaluate_equation_with_x_gradient_at(x=self.training_data.x) ; dot_product = df_dx * self.training_data.dx_dt ; if self._required_params is not None:     if not self._enough_parameters_used(dot_product):         return np.full((self.training_data.x.shape[0],), np.inf) ; denominator = np.sum(np.abs(dot_product), axis=1) ; normalized_fitness = np.sum(dot_product, axis=1) / denominator ; normalized_fitness[~np.isfinite(denominator)] = np.inf ; return normalized_fitness" :=
  rfl

end C20Facts
end Bingo
