import Proofs.Lemmas.Elitism
import Proofs.Lemmas.ElitismHof
import Proofs.Lemmas.ElitismSel
import Proofs.Lemmas.ElitismRun
import Proofs.Lemmas.SelExamples
import Proofs.Lemmas.ElitismExamples
import Model.Generated.Phases
/-!
# C09: elitism -- the best fitness never gets worse

"Under the age-fitness algorithm and under deterministic generalized crowding, the best (lowest,
non-NaN) fitness present in an island's population never increases from one generation to the
next when the fitness function is deterministic, and the same holds for the best fitness over all
islands of a serial archipelago across migrations.  An attached hall of fame's best entry is never
worse than the best individual of any population it has been updated with."

Only the property theorems and their non-vacuity examples live here; the proofs are in
`Proofs/Lemmas/Elitism{,Hof,Sel,Run}.lean` (core Lean only, no Mathlib).

`NoWorse ks' ks` ("every non-NaN key of the old list `ks` is matched by a non-NaN key of the new
list `ks'` that is `≤` it") is `best ks' ≤ best ks` for `best` = minimum over the non-NaN keys,
with "no non-NaN key" as top element (`noWorse_iff_best`).

Where the hypotheses of the informal sentence enter:
* *deterministic fitness*: `hdet : evald.map key = pop.map key` in `af_step` / `crowding_step` --
  re-evaluating a stored individual reproduces its key; `nondeterministic_counterexample` shows
  that the claim fails without it.
* *age-fitness*: the run-level oracle contract `Sel.RunDrawsOK` of C08.  `1 ≤ target` is **not**
  needed (a successful run with `target = 0` keeps the best as well), so it is not assumed.
* *hall of fame*: capacity `1 ≤ m` and **no similarity filter**.  With a filter the claim is
  false (`hof_filtered_counterexample`: a better individual similar to a member is rejected); what
  remains true with any filter is that the hall of fame's own best never gets worse
  (`hof_monotone_any_filter`).
-/
namespace Bingo.C09
open Bingo.Sel

/-! ## 0. `NoWorse` -/

theorem noWorse_refl (ks : List Key) : NoWorse ks ks := NoWorse.refl ks

theorem noWorse_trans {a b c : List Key} (h1 : NoWorse a b) (h2 : NoWorse b c) : NoWorse a c :=
  h1.trans h2

/-- the new list may grow, the old list may shrink -/
theorem noWorse_mono {a a' b b' : List Key} (h : NoWorse a b) (ha : ∀ k ∈ a, k ∈ a')
    (hb : ∀ k ∈ b', k ∈ b) : NoWorse a' b' := h.mono ha hb

theorem noWorse_of_superset {ks' ks : List Key} (h : ∀ k ∈ ks, k ∈ ks') : NoWorse ks' ks :=
  NoWorse.of_subset h

theorem noWorse_of_perm {ks' ks : List Key} (h : ks'.Perm ks) : NoWorse ks' ks ∧ NoWorse ks ks' :=
  ⟨NoWorse.of_perm h, NoWorse.of_perm h.symm⟩

/-- `best` is the minimum of the non-NaN keys -/
theorem best_spec (ks : List Key) :
    (best ks = none ↔ ∀ k ∈ ks, k.isNan = true) ∧
    ∀ b, best ks = some b ↔ some b ∈ ks ∧ ∀ x, some x ∈ ks → b ≤ x :=
  ⟨best_eq_none_iff, fun _ => best_eq_some_iff⟩

theorem noWorse_iff_best {ks' ks : List Key} :
    NoWorse ks' ks ↔
      (best ks = none ∨ ∃ b' b, best ks' = some b' ∧ best ks = some b ∧ b' ≤ b) :=
  Bingo.noWorse_iff_best

/-- reading of `NoWorse` as "the best never increases" -/
theorem noWorse_best {ks' ks : List Key} (h : NoWorse ks' ks) {b : Int} (hb : best ks = some b) :
    ∃ b', best ks' = some b' ∧ b' ≤ b := by
  rcases noWorse_iff_best.1 h with h0 | ⟨b', b₀, h1, h2, h3⟩
  · rw [hb] at h0; cases h0
  · rw [hb] at h2; cases h2; exact ⟨b', h1, h3⟩

/-! ## 6. hall of fame -/

/-- an unfiltered hall of fame of capacity `≥ 1`, started empty, is no worse than everything it
was offered -/
theorem hof (m : Nat) (hm : 1 ≤ m) (offered h : List HOF.Item)
    (hu : HOF.update m none [] offered = some h) :
    NoWorse (h.map (·.key)) (offered.map (·.key)) :=
  HOF.update_none_noWorse hm hu

/-- if some offered key is non-NaN the hall of fame is non-empty and its first entry is non-NaN
and `≤` every non-NaN offered key -/
theorem hof_first (m : Nat) (hm : 1 ≤ m) (offered h : List HOF.Item)
    (hu : HOF.update m none [] offered = some h)
    (hex : ∃ it ∈ offered, it.key.isNan = false) :
    ∃ b rest, h = b :: rest ∧ b.key.isNan = false ∧
      ∀ it ∈ offered, it.key.isNan = false → Key.le b.key it.key = true :=
  HOF.update_none_first hm hu hex

/-- one `update` call per population: the final hall of fame is no worse than the union of the
populations, hence no worse than each of them -/
theorem hof_updates (m : Nat) (hm : 1 ≤ m) (pops : List (List HOF.Item)) (h : List HOF.Item)
    (hu : pops.foldlM (HOF.update m none) [] = some h) :
    NoWorse (h.map (·.key)) (pops.flatten.map (·.key)) ∧
    ∀ pop ∈ pops, NoWorse (h.map (·.key)) (pop.map (·.key)) :=
  HOF.foldlM_update_none_noWorse hm hu

/-- with ANY similarity filter (or none): the hall of fame's own best never gets worse over an
`update`, from any NaN-free key-sorted state (in particular from `[]`, and these two invariants
are re-established) -/
theorem hof_monotone_any_filter (m : Nat) (hm : 1 ≤ m) (sim : Option (HOF.Item → HOF.Item → Bool))
    (pop h h' : List HOF.Item) (hnn : HOF.NoNan h) (hs : HOF.KSorted h)
    (hu : HOF.update m sim h pop = some h') :
    NoWorse (h'.map (·.key)) (h.map (·.key)) ∧ HOF.NoNan h' ∧ HOF.KSorted h' :=
  HOF.update_noWorse_self hm pop h h' hnn hs hu

/-- the statement of `hof` is false with a similarity filter: the individual with key 1 is
rejected because it is similar (same parity of the id) to the member with key 5 -/
theorem hof_filtered_counterexample :
    HOF.update 3 (some fun a b => a.id % 2 == b.id % 2) []
        [⟨some 5, none, 0⟩, ⟨some 1, none, 2⟩, ⟨some 3, none, 1⟩] =
      some [⟨some 3, none, 1⟩, ⟨some 5, none, 0⟩] ∧
    ¬ NoWorse [some 3, some 5] [some 5, some 1, some 3] := by decide

/-! ## 2. deterministic crowding -/

/-- `population = parents ++ offspring`, parents = first half: the result is no worse than the
parents -/
theorem crowding_keeps_best {closer : Nat → Bool} {population : List Indv} {target : Nat}
    {out : List Indv} (h : detCrowding closer population target = some out) :
    NoWorse (out.map (·.key)) ((population.take (population.length / 2)).map (·.key)) :=
  Sel.crowding_keeps_best h

/-- ... and so is any permutation of it (the final `np.random.shuffle`) -/
theorem crowding_keeps_best_shuffled {closer : Nat → Bool} {population : List Indv} {target : Nat}
    {out next : List Indv} (h : detCrowding closer population target = some out)
    (hp : next.Perm out) :
    NoWorse (next.map (·.key)) ((population.take (population.length / 2)).map (·.key)) :=
  (Sel.crowding_keeps_best h).perm_left (hp.map _)

/-! ## 1. age-fitness selection -/

/-- the survivors `r.pop.take r.kept` are no worse than the input (no assumption on `target`) -/
theorem af_selection_keeps_best {selSize factor : Nat} {pop : List Indv} {target : Nat}
    {draws : List (List Nat)} {r : AFResult}
    (h : ageFitness selSize factor pop target draws = some r)
    (hok : RunDrawsOK selSize pop.length (pop.length - target) factor pop 0 0 draws) :
    NoWorse ((r.pop.take r.kept).map (·.key)) (pop.map (·.key)) :=
  ageFitness_keeps_best h hok

/-! ## 3. one generational step -/

/-- `AgeFitnessEA.generational_step` at key level: `evald` = the population after evaluation
(same keys as stored: deterministic fitness), `off` = ANY offspring list, selection on the union,
`next` = the survivors up to order and up to everything but the keys -/
theorem af_step {selSize factor : Nat} {pop evald off next : List Indv} {target : Nat}
    {draws : List (List Nat)} {r : AFResult}
    (hdet : evald.map (·.key) = pop.map (·.key))
    (hsel : ageFitness selSize factor (evald ++ off) target draws = some r)
    (hok : RunDrawsOK selSize (evald ++ off).length ((evald ++ off).length - target) factor
      (evald ++ off) 0 0 draws)
    (hnext : (next.map (·.key)).Perm ((r.pop.take r.kept).map (·.key))) :
    AFStep selSize factor pop next ∧ NoWorse (next.map (·.key)) (pop.map (·.key)) :=
  ⟨.mk hdet hsel hok hnext, (AFStep.mk hdet hsel hok hnext).noWorse⟩

/-- `GeneralizedCrowdingEA.generational_step` at key level: as many offspring as parents,
deterministic crowding on the union, then any permutation -/
theorem crowding_step {pop evald off out next : List Indv} {closer : Nat → Bool} {target : Nat}
    (hdet : evald.map (·.key) = pop.map (·.key))
    (hlen : off.length = evald.length)
    (hsel : detCrowding closer (evald ++ off) target = some out)
    (hnext : (next.map (·.key)).Perm (out.map (·.key))) :
    CrowdStep pop next ∧ NoWorse (next.map (·.key)) (pop.map (·.key)) :=
  ⟨.mk hdet hlen hsel hnext, (CrowdStep.mk hdet hlen hsel hnext).noWorse⟩

/-- the step relations are nothing more than the hypotheses of `af_step` / `crowding_step` -/
theorem step_relations {selSize factor : Nat} {pop next : List Indv} :
    (AFStep selSize factor pop next ↔
      ∃ (evald off : List Indv) (target : Nat) (draws : List (List Nat)) (r : AFResult),
        evald.map (·.key) = pop.map (·.key) ∧
        ageFitness selSize factor (evald ++ off) target draws = some r ∧
        RunDrawsOK selSize (evald ++ off).length ((evald ++ off).length - target) factor
          (evald ++ off) 0 0 draws ∧
        (next.map (·.key)).Perm ((r.pop.take r.kept).map (·.key))) ∧
    (CrowdStep pop next ↔
      ∃ (evald off out : List Indv) (closer : Nat → Bool) (target : Nat),
        evald.map (·.key) = pop.map (·.key) ∧ off.length = evald.length ∧
        detCrowding closer (evald ++ off) target = some out ∧
        (next.map (·.key)).Perm (out.map (·.key))) := by
  constructor
  · constructor
    · rintro ⟨h1, h2, h3, h4⟩; exact ⟨_, _, _, _, _, h1, h2, h3, h4⟩
    · rintro ⟨_, _, _, _, _, h1, h2, h3, h4⟩; exact .mk h1 h2 h3 h4
  · constructor
    · rintro ⟨h1, h2, h3, h4⟩; exact ⟨_, _, _, _, _, h1, h2, h3, h4⟩
    · rintro ⟨_, _, _, _, _, h1, h2, h3, h4⟩; exact .mk h1 h2 h3 h4

/-- the phase lists read from the source: both algorithms select from `population + offspring`
(`AgeFitnessEA` inherits `MuPlusLambda.generational_step`), crowding shuffles afterwards -/
theorem steps_select_from_union :
    Gen.Phases.muPlusLambda.getLast? = some (.select .popPlusOff) ∧
    Gen.Phases.generalizedCrowding =
      [.variation, .evalPop, .evalOff, .diagnostics, .select .popPlusOff, .shuffle] ∧
    Gen.Phases.ageFitnessInheritsMuPlusLambda = true := by decide

/-! ## 4. any number of generations -/

/-- `n` age-fitness generations, each with its own offspring, target, and draws -/
theorem runs {selSize factor n : Nat} {pop pop' : List Indv}
    (h : Iter (AFStep selSize factor) n pop pop') :
    NoWorse (pop'.map (·.key)) (pop.map (·.key)) :=
  h.noWorse (keys := fun p => p.map (·.key)) fun _ _ hs => hs.noWorse

/-- `n` generalized-crowding generations -/
theorem runs_crowding {n : Nat} {pop pop' : List Indv} (h : Iter CrowdStep n pop pop') :
    NoWorse (pop'.map (·.key)) (pop.map (·.key)) :=
  h.noWorse (keys := fun p => p.map (·.key)) fun _ _ hs => hs.noWorse

/-- any interleaving of the two kinds of steps -/
theorem runs_mixed {selSize factor n : Nat} {pop pop' : List Indv}
    (h : Iter (fun a b => AFStep selSize factor a b ∨ CrowdStep a b) n pop pop') :
    NoWorse (pop'.map (·.key)) (pop.map (·.key)) :=
  h.noWorse (keys := fun p => p.map (·.key)) fun _ _ hs => hs.elim (·.noWorse) (·.noWorse)

/-- "the best fitness never increases": if the start population has best key `b`, the population
after `n` generations has a best key `b' ≤ b` -/
theorem runs_best {selSize factor n : Nat} {pop pop' : List Indv}
    (h : Iter (AFStep selSize factor) n pop pop') {b : Int}
    (hb : best (pop.map (·.key)) = some b) :
    ∃ b', best (pop'.map (·.key)) = some b' ∧ b' ≤ b :=
  noWorse_best (runs h) hb

theorem runs_crowding_best {n : Nat} {pop pop' : List Indv} (h : Iter CrowdStep n pop pop')
    {b : Int} (hb : best (pop.map (·.key)) = some b) :
    ∃ b', best (pop'.map (·.key)) = some b' ∧ b' ≤ b :=
  noWorse_best (runs_crowding h) hb

/-! ## 5. serial archipelago -/
open Bingo.Pipeline Bingo.Migration Bingo.Arch

/-- a migration conserves the multiset of keys `f genome` over all islands, so the archipelago is
no worse afterwards -- and no better -/
theorem migration_keys (f : Nat → Key) {order : List Nat} {shuffles : List (List Nat)}
    {islands islands' : List (List Indiv)} (h : migrate order shuffles islands = some islands') :
    (allKeys f islands').Perm (allKeys f islands) ∧
    NoWorse (allKeys f islands') (allKeys f islands) ∧
    NoWorse (allKeys f islands) (allKeys f islands') ∧
    best (allKeys f islands') = best (allKeys f islands) := by
  have hp := migrate_keys_perm f h
  refine ⟨hp, NoWorse.of_perm hp, NoWorse.of_perm hp.symm, ?_⟩
  have h1 := noWorse_iff_best.1 (NoWorse.of_perm hp)
  have h2 := noWorse_iff_best.1 (NoWorse.of_perm hp.symm)
  cases hb : best (allKeys f islands) with
  | none =>
    rcases h2 with h2 | ⟨_, _, h3, _, _⟩
    · exact h2
    · rw [hb] at h3; cases h3
  | some b =>
    rcases h1 with h1 | ⟨b1, b2, e1, e2, le1⟩
    · rw [hb] at h1; cases h1
    · rcases h2 with h2 | ⟨b3, b4, e3, e4, le2⟩
      · rw [e1] at h2; cases h2
      · rw [hb] at e2 e3; rw [e1] at e4; cases e2; cases e3; cases e4
        rw [e1]; congr 1; omega

/-- the same for any function of `(genome, stored fitness, age)`, e.g. the stored fitness itself -/
theorem migration_conserves {β : Type} (g : Nat × Option Key × Nat → β) {order : List Nat}
    {shuffles : List (List Nat)} {islands islands' : List (List Indiv)}
    (h : migrate order shuffles islands = some islands') :
    (islands'.flatten.map fun i => g (core i)).Perm (islands.flatten.map fun i => g (core i)) :=
  migrate_map_perm g h

/-- one generational step of island `j` (age-fitness or crowding, seen through `f genome`) -/
theorem island_step (f : Nat → Key) {selSize factor : Nat} {islands : List (List Indiv)} {j : Nat}
    {pop pop' : List Indiv} (hj : islands[j]? = some pop)
    (hs : IslandStep f selSize factor pop pop') :
    NoWorse (keysOf f pop') (keysOf f pop) ∧
    NoWorse (allKeys f (islands.set j pop')) (allKeys f islands) :=
  ⟨hs.noWorse, allKeys_set_noWorse f hs.noWorse _ _ hj⟩

/-- any sequence of `n` transitions, each a migration phase or a generational step of one
island: the best key over all islands never gets worse -/
theorem archipelago (f : Nat → Key) {selSize factor n : Nat} {islands islands' : List (List Indiv)}
    (h : Iter (Arch.Step f selSize factor) n islands islands') :
    NoWorse (allKeys f islands') (allKeys f islands) :=
  h.noWorse (keys := allKeys f) fun _ _ hs => hs.noWorse

theorem archipelago_best (f : Nat → Key) {selSize factor n : Nat}
    {islands islands' : List (List Indiv)}
    (h : Iter (Arch.Step f selSize factor) n islands islands') {b : Int}
    (hb : best (allKeys f islands) = some b) :
    ∃ b', best (allKeys f islands') = some b' ∧ b' ≤ b :=
  noWorse_best (archipelago f h) hb

/-- the transitions are exactly: a successful `migrate`, or `islands.set j pop'` for an
`IslandStep` of `islands[j]` -/
theorem arch_step_iff (f : Nat → Key) {selSize factor : Nat} {a b : List (List Indiv)} :
    Arch.Step f selSize factor a b ↔
      (∃ order shuffles, migrate order shuffles a = some b) ∨
      (∃ j pop pop', a[j]? = some pop ∧ IslandStep f selSize factor pop pop' ∧
        b = a.set j pop') := by
  constructor
  · intro h
    cases h with
    | migration h => exact Or.inl ⟨_, _, h⟩
    | island hj hs => exact Or.inr ⟨_, _, _, hj, hs, rfl⟩
  · rintro (⟨_, _, h⟩ | ⟨_, _, _, hj, hs, rfl⟩)
    · exact .migration h
    · exact .island hj hs

/-! ## 7. non-vacuity -/

section examples
open Bingo.Sel.Ex

example : NoWorse [some 1, none] [some 5, none, some 7] ∧ NoWorse [none] [none] ∧
    NoWorse [] [none] ∧ ¬ NoWorse [some 5] [some 1] ∧ ¬ NoWorse [] [some 1] ∧
    ¬ NoWorse [none] [some 1] := by decide

example : best [some 5, none, some 1] = some 1 ∧ best [none] = none ∧ best [] = none ∧
    best [some (-3), some 2] = some (-3) := by decide

/-- hall of fame of capacity 2, five offers with a tie and a NaN -/
example :
    HOF.update 2 none [] [⟨some 5, none, 0⟩, ⟨some 3, none, 1⟩, ⟨none, none, 2⟩,
      ⟨some 3, none, 3⟩, ⟨some 1, none, 4⟩] = some [⟨some 1, none, 4⟩, ⟨some 3, none, 1⟩] ∧
    NoWorse [some 1, some 3] [some 5, some 3, none, some 3, some 1] := by decide

/-- only NaN offered: the hall of fame stays empty (so `hof_first` needs its hypothesis) -/
example : HOF.update 2 none [] [⟨none, none, 0⟩] = some [] := by decide

/-- two `update` calls -/
example : [[(⟨some 5, none, 0⟩ : HOF.Item), ⟨some 3, none, 1⟩], [⟨some 4, none, 2⟩]].foldlM
    (HOF.update 2 none) [] = some [⟨some 3, none, 1⟩, ⟨some 4, none, 2⟩] := by decide

/-- crowding: parents `[ia, inan, ic, inan]` (keys 5, NaN, 7, NaN), offspring
`[ib, ib, inan, ia]`, `target = 2` -/
example : detCrowding (fun k => k == 0) [ia, inan, ic, inan, ib, ib, inan, ia] 2
      = some [ib, ib, ic, inan] ∧
    NoWorse ([ib, ib, ic, inan].map (·.key)) ([ia, inan, ic, inan].map (·.key)) := by decide

/-- a crowding step: the same call, then a shuffle -/
example : CrowdStep [ia, inan, ic, inan] [inan, ic, ib, ib] :=
  (crowding_step (pop := [ia, inan, ic, inan]) (evald := [ia, inan, ic, inan])
    (off := [ib, ib, inan, ia]) (out := [ib, ib, ic, inan]) (closer := fun k => k == 0)
    (target := 2) rfl rfl (by decide) (by decide)).1

/-- a child that is worse never replaces its parent; a NaN parent is replaced by a non-NaN child -/
example : detCrowding (fun _ => true) [ib, inan, ic, ia] 2 = some [ib, ia] := by decide

/-- age-fitness: `ib` (key 1, youngest) survives -/
example : (ageFitness 3 50 [ia, ib, ic] 1 [[0, 1, 2]]).map
      (fun r => (r.pop.take r.kept).map (·.key)) = some [some 1] ∧
    NoWorse [some 1] ([ia, ib, ic].map (·.key)) := by decide

/-- an age-fitness step: population `[ia, ib]`, offspring `[ic]`, back to one survivor whose age
was incremented -/
example : AFStep 3 50 [ia, ib] [⟨some 1, 1, 11⟩] :=
  (af_step (pop := [ia, ib]) (evald := [ia, ib]) (off := [ic]) (target := 1)
    (draws := [[0, 1, 2]]) (r := ⟨[ib, ia, ic], 1, 1, [[10, 12]]⟩) rfl demo_sel demo_drawsOK
    (by decide)).1

/-- two generations (the second with no offspring and nothing to remove) -/
example : Iter (AFStep 3 50) 2 [ia, ib] [⟨some 1, 2, 11⟩] :=
  .succ (.succ (.zero _)
    (af_step (pop := [ia, ib]) (evald := [ia, ib]) (off := [ic]) (target := 1)
      (draws := [[0, 1, 2]]) (r := ⟨[ib, ia, ic], 1, 1, [[10, 12]]⟩) rfl demo_sel demo_drawsOK
      (by decide)).1)
    (af_step (pop := [⟨some 1, 1, 11⟩]) (evald := [⟨some 1, 1, 11⟩]) (off := []) (target := 1)
      (draws := []) (r := ⟨[⟨some 1, 1, 11⟩], 1, 0, []⟩) rfl rfl (by simp [RunDrawsOK])
      (by decide)).1

/-- determinism is needed: if re-evaluation turns the stored key 5 into 9, the selection can only
return key 9 -/
theorem nondeterministic_counterexample :
    (ageFitness 2 50 [⟨some 9, 1, 10⟩] 1 []).map (fun r => (r.pop.take r.kept).map (·.key))
      = some [some 9] ∧
    ¬ NoWorse [some 9] ([ia].map (·.key)) := by decide

/-- age-fitness is not elitist for the *individual*: the best individual `ia` may be removed, but
only by `ib'` with an equal key (and no greater age) -/
example : (ageFitness 2 50 [ia, ⟨some 5, 0, 99⟩] 1 [[0, 1]]).map
      (fun r => r.pop.take r.kept) = some [⟨some 5, 0, 99⟩] := by decide

/-- the C11 migration demo through `f genome = genome`: the key multiset is only permuted -/
example :
    (migrate [2, 0, 1] [[1, 2, 0], [2, 1, 0]]
        [demoIsland 0 3, demoIsland 10 3, demoIsland 20 3]).map
      (allKeys fun g => some (Int.ofNat g)) =
      some [some 0, some 21, some 22, some 10, some 11, some 12, some 20, some 2, some 1] ∧
    allKeys (fun g => some (Int.ofNat g)) [demoIsland 0 3, demoIsland 10 3, demoIsland 20 3] =
      [some 0, some 1, some 2, some 10, some 11, some 12, some 20, some 21, some 22] := by decide

/-- a migration transition exists -/
example : ∃ isl', Arch.Step (fun g => some (Int.ofNat g)) 3 50
    [demoIsland 0 3, demoIsland 10 3, demoIsland 20 3] isl' :=
  ⟨_, .migration (order := [2, 0, 1]) (shuffles := [[1, 2, 0], [2, 1, 0]])
    (islands' := [[⟨0, some (some 0), false, 0⟩, ⟨21, some (some 21), false, 1⟩,
        ⟨22, some (some 22), false, 2⟩], demoIsland 10 3,
      [⟨20, some (some 20), false, 0⟩, ⟨2, some (some 2), false, 2⟩,
        ⟨1, some (some 1), false, 1⟩]]) (by decide)⟩

/-- an island transition exists: island 1 = genomes `[5, 1]` (keys 5, 1) steps to genome `[1]` -/
example : Arch.Step (fun g => some (Int.ofNat g)) 3 50
    [[⟨7, none, false, 0⟩], [⟨5, none, false, 1⟩, ⟨1, none, false, 0⟩]]
    [[⟨7, none, false, 0⟩], [⟨1, none, false, 1⟩]] :=
  .island (j := 1) (pop := [⟨5, none, false, 1⟩, ⟨1, none, false, 0⟩])
    (pop' := [⟨1, none, false, 1⟩]) rfl
    ⟨[ia, ib], [⟨some 1, 1, 11⟩], by decide, by decide, Or.inl
      (af_step (pop := [ia, ib]) (evald := [ia, ib]) (off := [ic]) (target := 1)
        (draws := [[0, 1, 2]]) (r := ⟨[ib, ia, ic], 1, 1, [[10, 12]]⟩) rfl demo_sel
        demo_drawsOK (by decide)).1⟩

end examples

end Bingo.C09
