import Proofs.Props.C06
/-!
# C06, continued: the agreement persists, and re-fitting returns the best of *all* its fits

`C06.reported_is_base` / `no_longer_needs` speak about one call; `refit_first_finite` compares the
result of `EquationRegressor.fit` with its first fit only.  Here:

* `call_again` -- calling the local-optimization fitness function a second time on the individual
  it returned (with any optimizer behaviour) does not touch the constants, costs exactly one base
  evaluation and reports the same value: the agreement established by the first call is stable;
* `call_numParams` -- the call never changes the number of parameters;
* `refit_best_of_all` -- when the first fit is a number, the fitness stored by `fit` is a number
  not larger than the first fit's *and* not larger than the fitness `base o.final` reached by any
  of the re-fits (NaN re-fits are ignored), and it is the base fitness of the stored constants.
-/
namespace Bingo.C06
open Bingo LocalOpt

variable {V : Type}

/-- the call never changes the number of parameters of the individual -/
theorem call_numParams (base : List V → Key) (o : Oracle V) (e : Eqn V) :
    (call base o e).2.1.numParams = e.numParams := by
  by_cases hn : e.needsOpt = true <;> by_cases hp : e.numParams = 0 <;>
    simp [call, optimize, hn, hp]

/-- A second call on the returned individual, whatever the optimizer would do (`o'`): no
optimization, the same individual, the same reported value, one base evaluation. -/
theorem call_again (base : List V → Key) (o o' : Oracle V) (e : Eqn V) :
    call base o' (call base o e).2.1 = ((call base o e).1, (call base o e).2.1, 1) := by
  have hn := no_longer_needs base o e
  have hb := reported_is_base base o e
  obtain ⟨h1, h2, h3⟩ := untouched base o' _ hn
  refine Prod.ext ?_ (Prod.ext h1 h2)
  simp only [h3, ← hb]

/-- what one re-fit computes: the oracle's final vector becomes the constants and its base fitness
is reported (the individual has parameters and `_needs_opt` was forced) -/
theorem call_forced (base : List V → Key) (o : Oracle V) (cur : Eqn V) (hp : cur.numParams ≠ 0) :
    call base o { cur with needsOpt := true } =
      (base o.final, { cur with consts := o.final, needsOpt := false },
        o.trials.length + o.jacCalls + 1) := by
  simp [call, optimize, hp]

/-- invariant of the retry loop: the best so far is a number, consistent with its constants, not
larger than the first fit and not larger than any numeric fitness of the re-fits `seen` so far -/
def InvAll (base : List V → Key) (a : Int) (seen : List (Oracle V))
    (acc : Key × List V × Eqn V) : Prop :=
  acc.1 = base acc.2.1 ∧ acc.2.2.numParams ≠ 0 ∧
  ∃ b, acc.1 = some b ∧ b ≤ a ∧ ∀ o ∈ seen, ∀ c, base o.final = some c → b ≤ c

theorem fold_invAll (base : List V → Key) (a : Int) (retries seen : List (Oracle V))
    (acc : Key × List V × Eqn V) (h : InvAll base a seen acc) :
    InvAll base a (seen ++ retries) (retries.foldl (fun (acc : Key × List V × Eqn V) o =>
        let (bf, bc, cur) := acc
        let (f, cur', _) := call base o { cur with needsOpt := true }
        if Key.lt f bf then (f, cur'.consts, cur') else (bf, bc, cur')) acc) := by
  induction retries generalizing acc seen with
  | nil => simpa using h
  | cons o rest ih =>
    simp only [List.foldl_cons]
    have hassoc : seen ++ o :: rest = (seen ++ [o]) ++ rest := by simp
    rw [hassoc]
    apply ih
    obtain ⟨bf, bc, cur⟩ := acc
    obtain ⟨hcons, hnp, b, hb, hba, hseen⟩ := h
    simp only at hcons hnp hb
    subst hb
    simp only [call_forced base o cur hnp]
    split
    · next hlt =>
      cases hf : base o.final with
      | none => rw [hf] at hlt; simp [Key.lt] at hlt
      | some c =>
        rw [hf] at hlt
        simp only [Key.lt, decide_eq_true_eq] at hlt
        refine ⟨hf.symm, hnp, c, rfl, by omega, ?_⟩
        intro o' ho' c' hc'
        rcases List.mem_append.1 ho' with hm | hm
        · have := hseen o' hm c' hc'; omega
        · simp only [List.mem_singleton] at hm
          subst hm
          rw [hf] at hc'
          cases hc'
          exact Int.le_refl _
    · next hlt =>
      refine ⟨hcons, hnp, b, rfl, hba, ?_⟩
      intro o' ho' c' hc'
      rcases List.mem_append.1 ho' with hm | hm
      · exact hseen o' hm c' hc'
      · simp only [List.mem_singleton] at hm
        subst hm
        rw [hc'] at hlt
        simp only [Key.lt, decide_eq_true_eq] at hlt
        omega

/-- `EquationRegressor.fit` returns the best of all its fits: if the first fit is a number `a`,
the stored fitness is a number `b ≤ a`, `b ≤` the fitness of every re-fit that is a number, and `b`
is the base fitness of the constants the equation holds afterwards. -/
theorem refit_best_of_all (base : List V → Key) (first : Oracle V) (retries : List (Oracle V))
    (e : Eqn V) (hp : e.numParams ≠ 0) (a : Int) (ha : (call base first e).1 = some a) :
    ∃ b, (refit base first retries e).1 = some b ∧ b ≤ a ∧
      (∀ o ∈ retries, ∀ c, base o.final = some c → b ≤ c) ∧
      (refit base first retries e).1 = base (refit base first retries e).2.consts := by
  simp only [refit, hp, if_false]
  have h0 : InvAll base a []
      ((call base first e).1, (call base first e).2.1.consts, (call base first e).2.1) := by
    refine ⟨reported_is_base base first e, ?_, a, ha, Int.le_refl _, ?_⟩
    · simpa [call_numParams] using hp
    · intro o ho; simp at ho
  have := fold_invAll base a retries [] _ h0
  obtain ⟨hc, _, b, hb, hba, hall⟩ := this
  exact ⟨b, hb, hba, by simpa using hall, hc⟩

/-! non-vacuity: first fit 5; re-fits NaN, 3, 4: the stored fitness 3 is ≤ 5, ≤ 3, ≤ 4 -/
example :
    let base : List Int → Key := fun c => match c with | [x] => some x | _ => none
    (call base ⟨[[9],[5]], 0, [5]⟩ ⟨[1], true, 1⟩).1 = some 5 ∧
    (refit base ⟨[[9],[5]], 0, [5]⟩ [⟨[], 0, []⟩, ⟨[[3]], 2, [3]⟩, ⟨[[4]], 0, [4]⟩] ⟨[1], true, 1⟩).1
      = some 3 := by decide

example : call (V := Int) (fun c => some c.length) ⟨[[5]], 3, [9, 9]⟩
      (call (V := Int) (fun c => some c.length) ⟨[[1,2],[3,4]], 1, [7,8]⟩ ⟨[0,0], true, 2⟩).2.1
    = (some 2, ⟨[7,8], false, 2⟩, 1) := by decide

end Bingo.C06
