import Model.Generated.SourceFacts
/-!
# C13 -- loading a checkpoint is unpickling and nothing else (the lossless / transparent clauses are about `dill`; the loader adds no state change of its own)
-/
namespace Bingo
namespace C13Facts
open Gen.SourceFacts

/-- `load_evolutionary_optimizer_from_file` -/
theorem gen_loader :
    loadOptimizerFromFile = "LOGGER.log(INFO, 'Loading checkpoint file: %s', filename) ; with open(filename, 'rb') as load_file:     ev_opt = dill.load(load_file) ; LOGGER.log(DETAILED_INFO, 'Loaded successfully') ; return ev_opt" :=
  rfl

end C13Facts
end Bingo
