import Proofs.Props.C14
/-!
# C14, continued: the oracle contract `1 ≤ gens` follows from the source of `get_gens_to_evolve`

Every theorem of `C14` carries the hypothesis `hobs : ∀ k, 1 ≤ (obs k).gens` about the number of
generations `CheckpointController.get_gens_to_evolve()` returns.  `Gen.Converge.gensToEvolveReturns`
lists the `return` expressions of that method as regenerated from the source: each is either the
check frequency (`"freq"`) or `max(1, …)` (`"max:1"`).  `gensOf` evaluates such a return for an
arbitrary integer `v` standing for the truncated time estimate (`int(est * freq)`, any sign), and
`hobs_of_source` derives the contract for every stream of observations whose `gens` are produced by
returns of the listed kinds -- so with `0 < freq` the contract is a consequence of the code, for
every value the clock-dependent estimate may take, and `terminates_of_source` needs no oracle
hypothesis.  (`int()` of a NaN or infinite estimate raises in Python; that needs a generation that
took zero time by the clock and is outside this model: `v` ranges over integers.)
-/
namespace Bingo.C14
open Bingo.Converge

/-- the value of one `return` of `get_gens_to_evolve` (`v` = `int(est_remaining_checks * freq)`) -/
def gensOf (freq : Nat) (ret : String) (v : Int) : Nat :=
  if ret = "freq" then freq else if ret = "max:1" then (max 1 v).toNat else 0

theorem gensOf_ge_one (freq : Nat) (hf : 0 < freq) (v : Int) :
    ∀ ret ∈ Gen.Converge.gensToEvolveReturns, 1 ≤ gensOf freq ret v := by
  intro ret hret
  have h : ret = "freq" ∨ ret = "max:1" := by
    have := (by decide : ∀ s ∈ Gen.Converge.gensToEvolveReturns, s = "freq" ∨ s = "max:1")
    exact this ret hret
  rcases h with rfl | rfl
  · simp only [gensOf, if_true]; omega
  · simp only [gensOf, show ("max:1" = "freq") = False from by decide, if_false, if_true]
    omega

/-- the shortened round is never longer than a regular one when the truncated estimate is at most
the frequency (the branch is taken only for `est ≤ 1`) -/
theorem gensOf_le_freq (freq : Nat) (hf : 0 < freq) (v : Int) (hv : v ≤ freq) :
    ∀ ret ∈ Gen.Converge.gensToEvolveReturns, gensOf freq ret v ≤ freq := by
  intro ret hret
  have h : ret = "freq" ∨ ret = "max:1" := by
    have := (by decide : ∀ s ∈ Gen.Converge.gensToEvolveReturns, s = "freq" ∨ s = "max:1")
    exact this ret hret
  rcases h with rfl | rfl
  · simp [gensOf]
  · simp only [gensOf, show ("max:1" = "freq") = False from by decide, if_false, if_true]
    omega

/-- the oracle contract of C14, from the source -/
theorem hobs_of_source (cfg : Cfg) (hf : 0 < cfg.freq) (obs : Nat → Obs) (ret : Nat → String)
    (v : Nat → Int) (hret : ∀ k, ret k ∈ Gen.Converge.gensToEvolveReturns)
    (hg : ∀ k, (obs k).gens = gensOf cfg.freq (ret k) (v k)) : ∀ k, 1 ≤ (obs k).gens := by
  intro k; rw [hg k]; exact gensOf_ge_one cfg.freq hf (v k) (ret k) (hret k)

/-- `evolve_until_convergence` always returns, with the contract discharged -/
theorem terminates_of_source (cfg : Cfg) (hf : 0 < cfg.freq) (obs : Nat → Obs) (ret : Nat → String)
    (v : Nat → Int) (hret : ∀ k, ret k ∈ Gen.Converge.gensToEvolveReturns)
    (hg : ∀ k, (obs k).gens = gensOf cfg.freq (ret k) (v k)) (age improv : Nat)
    (best : Option Key) :
    run cfg obs age improv best ≠ .outOfFuel ∧
    ∀ why, run cfg obs age improv best ≠ .unsupported why :=
  terminates hf (hobs_of_source cfg hf obs ret v hret hg)

example : gensOf 10 "max:1" (-7) = 1 ∧ gensOf 10 "max:1" 4 = 4 ∧ gensOf 10 "freq" 4 = 10 := by decide

end Bingo.C14
