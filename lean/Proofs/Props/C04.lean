import Proofs.Lemmas.VarProgress
import Proofs.Lemmas.VarObj
/-!
# C04: the random generator, the five mutation kinds and crossover produce well-formed genomes

`Model/Variation.lean` (`Bingo.Var`) is the executable port of `agraph/generator.py`,
`component_generator.py`, `mutation.py`, `crossover.py`; every operation is a pure function of
(configuration, parent stack(s), list of random draws) in the monad
`M α = List Nat → Res (α × List Nat)`.

Standing hypotheses:
* `CfgOK cfg` (decidable): every enabled operator is an operator (non-terminal) node of the arity
  tables, and `1 ≤ cfg.nLoad` (bingo's constructor checks `num_initial_load_statements ≥ 1`);
* `WF.WFGenome cfg.D cfg.ops s`: the stack is non-empty, VARIABLE rows load an existing column,
  operator rows use an enabled operator and reference only earlier rows (terminal rows may also be
  CONSTANT or INTEGER).

Contents:
1. `gen_wf` and the component-generator building blocks;
2. `command_wf`, `node_wf`, `param_wf` (each replaces exactly one row: `*_one_row`);
3. `prune_wf`; 4. `crossover_wf`; 5. `fork_wf` (with the post-conditions of its three phases);
6. `mutate_wf`;
7. `*_draws_consumed`: the returned draw list is a suffix of the given one (unconditionally), and
   `draw*_in_bounds`: an `ok` draw is the head of the list and lies in the requested range;
8. progress: for which rows the rejection loops of command / node mutation can exit
   (`command_progress_iff`, `node_progress_iff`, closed forms, `*_stuck`), including the degenerate
   families in which the real loop never exits; the loop of parameter mutation can always exit on a
   well-formed parent (`paramLoop_progress`).  The other operations have no unbounded loop (the model
   functions are structurally recursive; `_get_arity_operator` gives up after 100 attempts);
9. non-vacuity `example`s (by `decide`).

Not stated here:
* "the operators never modify their parents" holds by construction: the model functions are pure, the
  parent is an argument and is not returned;
* genetic age of children and the `fit_set` flag live on the `AGraph` objects, not on command stacks;
  they are checked on the real objects by the differential-testing harness, not modelled here.
-/
namespace Bingo.C04
open Var VarLemmas

variable {cfg : Config}

/-! ## 1. generator -/

/-- `random_terminal_command` returns a row that is fine at every position -/
theorem randomTerminalCommand_rowOK {draws rest : List Nat} {c : Cmd}
    (h : randomTerminalCommand cfg draws = .ok (c, rest)) (i : Nat) :
    WF.rowOK cfg.D none (some cfg.ops) i c = true :=
  ((post_randomTerminalCommand cfg draws c rest h).1).rowOK i

/-- the parameters of `random_operator_command(i)` are drawn below `i`, the operator is enabled -/
theorem randomOperatorCommand_params {i : Nat} {draws rest : List Nat} {c : Cmd}
    (h : randomOperatorCommand cfg i draws = .ok (c, rest)) :
    c.node ∈ cfg.ops ∧ 0 ≤ c.p1 ∧ c.p1 < i ∧ 0 ≤ c.p2 ∧ c.p2 < i := by
  obtain ⟨⟨op, a, b, hop, ha, hb, rfl⟩, _⟩ := post_randomOperatorCommand cfg i draws c rest h
  exact ⟨hop, by simp, by simpa using ha, by simp, by simpa using hb⟩

theorem randomOperatorCommand_rowOK (hcfg : CfgOK cfg) {i : Nat} {draws rest : List Nat} {c : Cmd}
    (h : randomOperatorCommand cfg i draws = .ok (c, rest)) :
    WF.rowOK cfg.D none (some cfg.ops) i c = true :=
  rowOK_iff_spec.mpr ((post_randomOperatorCommand cfg i draws c rest h).1.spec hcfg)

/-- an operator command at row 0 is never `ok` (`np.random.randint(0)` raises) -/
theorem randomOperatorCommand_zero_not_ok (draws : List Nat) (r : Cmd × List Nat) :
    randomOperatorCommand cfg 0 draws ≠ .ok r :=
  VarLemmas.randomOperatorCommand_zero_not_ok cfg draws r

theorem randomCommand_rowOK (hcfg : CfgOK cfg) {i : Nat} {draws rest : List Nat} {c : Cmd}
    (h : randomCommand cfg i draws = .ok (c, rest)) :
    WF.rowOK cfg.D none (some cfg.ops) i c = true :=
  ((post_randomCommand cfg i draws c rest h).1).rowOK hcfg

/-- the rows `random_command(i)` can return, exactly -/
theorem randomCommand_range (i : Nat) (c : Cmd) :
    (∃ draws rest, randomCommand cfg i draws = .ok (c, rest)) ↔ IsFreshCommand cfg i c :=
  VarLemmas.randomCommand_range cfg i c

theorem gen_wf (hcfg : CfgOK cfg) {size : Nat} (hsize : 1 ≤ size) {draws rest : List Nat} {s : Stack}
    (h : generate cfg size draws = .ok (s, rest)) :
    WF.WFGenome cfg.D cfg.ops s ∧ s.length = size :=
  (post_generate cfg hcfg size hsize draws s rest h).1

/-! ## 2. command, node and parameter mutation -/

/-- command mutation replaces one row by a row that is fine at that position -/
theorem command_one_row (hcfg : CfgOK cfg) {parent child : Stack} {draws rest : List Nat}
    (h : mutateCommand cfg parent draws = .ok (child, rest)) :
    ∃ loc new, loc < parent.length ∧ WF.rowOK cfg.D none (some cfg.ops) loc new = true ∧
      child = parent.set loc new :=
  (post_mutateCommand cfg hcfg parent draws child rest h).1

theorem command_wf (hcfg : CfgOK cfg) {parent child : Stack} {draws rest : List Nat}
    (hwf : WF.WFGenome cfg.D cfg.ops parent)
    (h : mutateCommand cfg parent draws = .ok (child, rest)) :
    WF.WFGenome cfg.D cfg.ops child ∧ child.length = parent.length :=
  ReplacesRow.wf (post_mutateCommand cfg hcfg parent draws child rest h).1 hwf

/-- node mutation replaces one row by a row that is fine at that position -/
theorem node_one_row (hcfg : CfgOK cfg) {parent child : Stack} {draws rest : List Nat}
    (hwf : WF.WFGenome cfg.D cfg.ops parent)
    (h : mutateNode cfg parent draws = .ok (child, rest)) :
    ∃ loc new, loc < parent.length ∧ WF.rowOK cfg.D none (some cfg.ops) loc new = true ∧
      child = parent.set loc new :=
  (post_mutateNode cfg hcfg parent hwf draws child rest h).1

/-- more precisely: a terminal row becomes a fresh terminal command with another node, an operator row
keeps both parameters and gets another enabled operator -/
theorem node_mutant (hcfg : CfgOK cfg) {parent child : Stack} {draws rest : List Nat}
    (h : mutateNode cfg parent draws = .ok (child, rest)) :
    ∃ loc old new, parent[loc]? = some old ∧ child = parent.set loc new ∧ new.node ≠ old.node ∧
      ((Ops.isTerminal old.node = some true ∧ IsFreshTerminal cfg new) ∨
       (Ops.isTerminal old.node = some false ∧ ∃ op ∈ cfg.ops, new = ⟨op, old.p1, old.p2⟩)) := by
  obtain ⟨_, _, _, loc, old, new, _, _, _, hold, hm, rfl⟩ := mutateNode_ok_elim hcfg h
  exact ⟨loc, old, new, hold, rfl, hm.1, hm.2⟩

theorem node_wf (hcfg : CfgOK cfg) {parent child : Stack} {draws rest : List Nat}
    (hwf : WF.WFGenome cfg.D cfg.ops parent)
    (h : mutateNode cfg parent draws = .ok (child, rest)) :
    WF.WFGenome cfg.D cfg.ops child ∧ child.length = parent.length :=
  ReplacesRow.wf (post_mutateNode cfg hcfg parent hwf draws child rest h).1 hwf

/-- parameter mutation returns the parent unchanged (no row has a parameter to mutate) or replaces one
row by a row that is fine at that position -/
theorem param_one_row {parent child : Stack} {draws rest : List Nat}
    (hwf : WF.WFGenome cfg.D cfg.ops parent)
    (h : mutateParameters cfg parent draws = .ok (child, rest)) :
    child = parent ∨ ∃ loc new, loc < parent.length ∧
      WF.rowOK cfg.D none (some cfg.ops) loc new = true ∧ child = parent.set loc new :=
  (post_mutateParameters cfg parent hwf draws child rest h).1

theorem param_wf {parent child : Stack} {draws rest : List Nat}
    (hwf : WF.WFGenome cfg.D cfg.ops parent)
    (h : mutateParameters cfg parent draws = .ok (child, rest)) :
    WF.WFGenome cfg.D cfg.ops child ∧ child.length = parent.length := by
  rcases (post_mutateParameters cfg parent hwf draws child rest h).1 with rfl | hr
  · exact ⟨hwf, rfl⟩
  · exact hr.wf hwf

/-! ## 3. pruning -/

theorem prune_wf {parent child : Stack} {draws rest : List Nat}
    (hwf : WF.WFGenome cfg.D cfg.ops parent)
    (h : pruneBranch cfg parent draws = .ok (child, rest)) :
    WF.WFGenome cfg.D cfg.ops child ∧ child.length = parent.length :=
  (post_pruneBranch cfg parent hwf draws child rest h).1

/-! ## 4. crossover -/

theorem crossover_wf {p1 p2 c1 c2 : Stack} {draws rest : List Nat}
    (h1 : WF.WFGenome cfg.D cfg.ops p1) (h2 : WF.WFGenome cfg.D cfg.ops p2)
    (h : crossover p1 p2 draws = .ok ((c1, c2), rest)) :
    WF.WFGenome cfg.D cfg.ops c1 ∧ WF.WFGenome cfg.D cfg.ops c2 ∧
      c1.length = p1.length ∧ c2.length = p1.length ∧ p2.length = p1.length := by
  obtain ⟨⟨w1, w2, l1, l2, l3, _⟩, _⟩ := post_crossover cfg p1 p2 h1 h2 draws (c1, c2) rest h
  exact ⟨w1, w2, l1, l2, l3⟩

/-- the children are the two recombinations at one cut point `1 ≤ cut < size - 1`; an `ok` result
needs parents of equal length (numpy raises otherwise) -/
theorem crossover_rows {p1 p2 c1 c2 : Stack} {draws rest : List Nat}
    (h : crossover p1 p2 draws = .ok ((c1, c2), rest)) :
    p2.length = p1.length ∧ ∃ cut, 1 ≤ cut ∧ cut < p1.length - 1 ∧ draws = cut :: rest ∧
      c1 = p1.take cut ++ p2.drop cut ∧ c2 = p2.take cut ++ p1.drop cut := by
  unfold crossover at h
  obtain ⟨cut, ds', hd, h2⟩ := (bind_ok_iff _ _ _ _ _).mp h
  obtain ⟨rfl, hlo, hhi⟩ := (drawRange_ok_iff _ _ _ _ _).mp hd
  split at h2
  · exact absurd h2 (raise_not_ok _ _ _)
  · next hl =>
    obtain ⟨e, rfl⟩ := (pure_ok_iff _ _ _ _).mp h2
    cases e
    exact ⟨by simpa using hl, cut, hlo, hhi, rfl, rfl, rfl⟩

/-! ## 5. fork mutation -/

/-- phase 1, `_move_utilized_commands`: a rearrangement of the parent's rows; the mutated command
lies before the gap, the gap is as long as the number of unutilized rows -/
theorem moveUtilizedCommands_post {s : Stack} {util : List Bool} {loc : Nat} {draws rest : List Nat}
    {mv : Moved} (hlen : util.length = s.length) (hloc : util[loc]? = some true)
    (h : moveUtilizedCommands s util loc draws = .ok (mv, rest)) :
    mv.stack.length = s.length ∧ (∀ c ∈ mv.stack, c ∈ s) ∧
      mv.mutatedCommandLocation < mv.startI ∧ mv.endI = mv.startI + util.count false - 1 :=
  (post_moveUtilizedCommands s util loc hlen hloc draws mv rest h).1

/-- phase 1 consumes no draw and returns a permutation of the parent's rows -/
theorem moveUtilizedCommands_perm {s : Stack} {util : List Bool} {loc : Nat} {draws rest : List Nat}
    {mv : Moved} (hlen : util.length = s.length)
    (h : moveUtilizedCommands s util loc draws = .ok (mv, rest)) : mv.stack.Perm s ∧ rest = draws :=
  VarLemmas.moveUtilizedCommands_perm hlen h

/-- phase 2, `_fix_indices`: if every row is fine at *some* position (terminal rows, enabled operators
with non-negative parameters), then afterwards every row is fine at its *own* position -/
theorem fixIndices_post {s : Stack} {util : List Bool} {iv : List Nat} {draws rest : List Nat}
    {s' : Stack} (hpre : ∀ c ∈ s, ∃ j, WF.rowOK cfg.D none (some cfg.ops) j c = true)
    (h : fixIndices s util iv draws = .ok (s', rest)) :
    s'.length = s.length ∧ ∀ i c, s'[i]? = some c → WF.rowOK cfg.D none (some cfg.ops) i c = true := by
  obtain ⟨⟨hl, hr⟩, _⟩ := post_fixIndices cfg s util iv
    (fun c hc => (hpre c hc).imp fun _ hj => rowOK_iff_spec.mp hj) draws s' rest h
  exact ⟨hl, fun i c hi => rowOK_iff_spec.mpr (hr i c hi)⟩

/-- phase 3, `_insert_fork`: only rows that are fine where they are written -/
theorem insertFork_post (hcfg : CfgOK cfg) {s s' : Stack} {forkSize mcl startI endI : Nat}
    {draws rest : List Nat} (hmcl : mcl < startI) (hend : startI + forkSize - 1 ≤ endI)
    (hrows : ∀ i c, s[i]? = some c → WF.rowOK cfg.D none (some cfg.ops) i c = true)
    (h : insertFork cfg s forkSize mcl startI endI draws = .ok (s', rest)) :
    s'.length = s.length ∧ ∀ i c, s'[i]? = some c → WF.rowOK cfg.D none (some cfg.ops) i c = true := by
  obtain ⟨⟨hl, hr⟩, _⟩ := post_insertFork cfg hcfg s forkSize mcl startI endI hmcl hend
    (fun i c hi => rowOK_iff_spec.mp (hrows i c hi)) draws s' rest h
  exact ⟨hl, fun i c hi => rowOK_iff_spec.mpr (hr i c hi)⟩

theorem fork_wf (hcfg : CfgOK cfg) {parent child : Stack} {draws rest : List Nat}
    (hwf : WF.WFGenome cfg.D cfg.ops parent)
    (h : forkMutation cfg parent draws = .ok (child, rest)) :
    WF.WFGenome cfg.D cfg.ops child ∧ child.length = parent.length :=
  (post_forkMutation cfg hcfg parent hwf draws child rest h).1

/-! ## 6. `AGraphMutation.__call__` -/

theorem mutate_wf (hcfg : CfgOK cfg) {parent child : Stack} {draws rest : List Nat}
    (hwf : WF.WFGenome cfg.D cfg.ops parent)
    (h : mutate cfg parent draws = .ok (child, rest)) :
    WF.WFGenome cfg.D cfg.ops child ∧ child.length = parent.length :=
  (post_mutate cfg hcfg parent hwf draws child rest h).1

/-! ## 7. draws -/

/-- an `ok` draw is the head of the draw list and lies in the requested range -/
theorem drawRange_in_bounds {lo hi d : Nat} {draws rest : List Nat}
    (h : drawRange lo hi draws = .ok (d, rest)) : draws = d :: rest ∧ lo ≤ d ∧ d < hi :=
  (drawRange_ok_iff lo hi draws d rest).mp h
theorem drawBelow_in_bounds {hi d : Nat} {draws rest : List Nat}
    (h : drawBelow hi draws = .ok (d, rest)) : draws = d :: rest ∧ d < hi :=
  (drawBelow_ok_iff hi draws d rest).mp h
theorem drawPmf_in_bounds {n d : Nat} {draws rest : List Nat}
    (h : drawPmf n draws = .ok (d, rest)) : draws = d :: rest ∧ d < n :=
  (drawPmf_ok_iff n draws d rest).mp h

theorem generate_draws_consumed {size : Nat} {draws rest : List Nat} {s : Stack}
    (h : generate cfg size draws = .ok (s, rest)) : rest <:+ draws := (sfx_generate cfg size).suffix h
theorem command_draws_consumed {parent child : Stack} {draws rest : List Nat}
    (h : mutateCommand cfg parent draws = .ok (child, rest)) : rest <:+ draws :=
  (sfx_mutateCommand cfg parent).suffix h
theorem node_draws_consumed {parent child : Stack} {draws rest : List Nat}
    (h : mutateNode cfg parent draws = .ok (child, rest)) : rest <:+ draws :=
  (sfx_mutateNode cfg parent).suffix h
theorem param_draws_consumed {parent child : Stack} {draws rest : List Nat}
    (h : mutateParameters cfg parent draws = .ok (child, rest)) : rest <:+ draws :=
  (sfx_mutateParameters cfg parent).suffix h
theorem prune_draws_consumed {parent child : Stack} {draws rest : List Nat}
    (h : pruneBranch cfg parent draws = .ok (child, rest)) : rest <:+ draws :=
  (sfx_pruneBranch cfg parent).suffix h
theorem fork_draws_consumed {parent child : Stack} {draws rest : List Nat}
    (h : forkMutation cfg parent draws = .ok (child, rest)) : rest <:+ draws :=
  (sfx_forkMutation cfg parent).suffix h
theorem mutate_draws_consumed {parent child : Stack} {draws rest : List Nat}
    (h : mutate cfg parent draws = .ok (child, rest)) : rest <:+ draws :=
  (sfx_mutate cfg parent).suffix h
theorem crossover_draws_consumed {p1 p2 : Stack} {draws rest : List Nat} {c : Stack × Stack}
    (h : crossover p1 p2 draws = .ok (c, rest)) : rest <:+ draws := (sfx_crossover p1 p2).suffix h

/-! ## 8. progress of the rejection loops -/

/-! ### command mutation -/

/-- the loop of `_mutate_command` returns `new` for suitable draws iff `random_command(loc)` can return
`new` and `new` is not rejected -/
theorem commandLoop_returns_iff (loc : Nat) (old new : Cmd) :
    (∃ fuel draws rest, mutateCommandLoop cfg loc old fuel draws = .ok (new, rest)) ↔
      IsFreshCommand cfg loc new ∧ ¬ Rejected old new := by
  constructor
  · rintro ⟨fuel, ds, rest, h⟩; exact mutateCommandLoop_sound h
  · rintro ⟨h1, h2⟩
    obtain ⟨pre, hp⟩ := mutateCommandLoop_complete h1 h2 []
    exact ⟨1, _, _, hp 0⟩

/-- the loop can exit iff an acceptable row exists (`CanProgressCmd`, decidable) -/
theorem commandLoop_progress_iff (loc : Nat) (old : Cmd) :
    (∃ fuel draws r, mutateCommandLoop cfg loc old fuel draws = .ok r) ↔ CanProgressCmd cfg loc old :=
  mutateCommandLoop_ok_iff cfg loc old

/-- no acceptable row: whatever the draws and however long the loop is run, it never returns (it ends
in `outOfDraws`, `badDraw` or a Python exception) -/
theorem commandLoop_stuck {loc : Nat} {old : Cmd} (h : ¬ CanProgressCmd cfg loc old)
    (fuel : Nat) (draws : List Nat) (r : Cmd × List Nat) :
    mutateCommandLoop cfg loc old fuel draws ≠ .ok r :=
  fun e => h ((mutateCommandLoop_ok_iff cfg loc old).mp ⟨fuel, draws, r, e⟩)

/-- closed form for valid configurations: the loop is stuck exactly when there are no variables, the
row is a CONSTANT and no operator command can be drawn at that row -/
theorem commandLoop_progress_closed (hcfg : CfgOK cfg) (loc : Nat) (old : Cmd) :
    CanProgressCmd cfg loc old ↔
      1 ≤ cfg.D ∨ old.node ≠ Gen.OpDefs.CONSTANT ∨ (cfg.nLoad ≤ loc ∧ 1 ≤ loc ∧ cfg.ops ≠ []) :=
  canProgressCmd_iff hcfg loc old

/-- the degenerate family: `D = 0`, the row is a CONSTANT and only terminals can be drawn there -/
theorem commandLoop_stuck_constant (hcfg : CfgOK cfg) {loc : Nat} {old : Cmd} (hD : cfg.D = 0)
    (hold : old.node = Gen.OpDefs.CONSTANT) (hloc : loc < cfg.nLoad ∨ loc = 0 ∨ cfg.ops = [])
    (fuel : Nat) (draws : List Nat) (r : Cmd × List Nat) :
    mutateCommandLoop cfg loc old fuel draws ≠ .ok r := by
  apply commandLoop_stuck
  rw [canProgressCmd_iff hcfg]
  rintro (h | h | ⟨h1, h2, h3⟩)
  · omega
  · exact h hold
  · rcases hloc with h | h | h
    · omega
    · omega
    · exact h3 h

/-- `_mutate_command` can return `ok` iff some utilized row admits an acceptable replacement -/
theorem command_progress_iff (parent : Stack) :
    (∃ draws child rest, mutateCommand cfg parent draws = .ok (child, rest)) ↔
      ∃ loc, CommandEligible parent loc ∧ CanProgressCommand cfg parent loc := by
  constructor
  · rintro ⟨ds, child, rest, h⟩
    obtain ⟨u, d, ds1, loc, old, new, hu, _, hloc, hold, hf, hr, _⟩ := mutateCommand_ok_elim h
    exact ⟨loc, ⟨u, hu, List.mem_of_getElem? hloc⟩, old, hold, new, hf, hr⟩
  · rintro ⟨loc, ⟨u, hu, hmem⟩, old, hold, new, hf, hr⟩
    obtain ⟨d, hd⟩ := List.mem_iff_getElem?.mp hmem
    obtain ⟨pre, hp⟩ := mutateCommand_complete hu hd hold hf hr []
    exact ⟨_, _, _, hp⟩

/-- once the first draw has selected a row at which the loop cannot exit, no continuation of the draw
list makes `_mutate_command` return -/
theorem command_stuck {parent : Stack} {u : List Bool} {d loc : Nat}
    (hu : Reduce.utilized parent = some u) (hd : (cmdIndices u)[d]? = some loc)
    (hstuck : ¬ CanProgressCommand cfg parent loc) (draws : List Nat) (r : Stack × List Nat) :
    mutateCommand cfg parent (d :: draws) ≠ .ok r := by
  obtain ⟨child, rest⟩ := r
  intro h
  obtain ⟨u', d', ds1, loc', old, new, hu', e, hloc, hold, hf, hr, _⟩ := mutateCommand_ok_elim h
  rw [hu] at hu'; cases hu'
  cases e
  rw [hd] at hloc; cases hloc
  exact hstuck ⟨old, hold, new, hf, hr⟩

/-! ### node mutation -/

/-- the loop of `_mutate_node` returns `new` for suitable draws iff `NodeMutant cfg old new` -/
theorem nodeLoop_returns_iff (hcfg : CfgOK cfg) (old new : Cmd) :
    (∃ fuel draws rest, mutateNodeLoop cfg old fuel old draws = .ok (new, rest)) ↔
      NodeMutant cfg old new := by
  constructor
  · rintro ⟨fuel, ds, rest, h⟩
    exact (post_mutateNodeLoop_mutant cfg hcfg old fuel old ⟨rfl, fun _ => ⟨rfl, rfl⟩⟩ ds new rest h).1
  · intro h
    obtain ⟨pre, hp⟩ := mutateNodeLoop_complete h []
    exact ⟨1, _, _, hp 0⟩

theorem nodeLoop_progress_iff (hcfg : CfgOK cfg) (old : Cmd) :
    (∃ fuel draws r, mutateNodeLoop cfg old fuel old draws = .ok r) ↔ CanProgressNodeCmd cfg old :=
  mutateNodeLoop_ok_iff cfg hcfg old

theorem nodeLoop_stuck (hcfg : CfgOK cfg) {old : Cmd} (h : ¬ CanProgressNodeCmd cfg old)
    (fuel : Nat) (draws : List Nat) (r : Cmd × List Nat) :
    mutateNodeLoop cfg old fuel old draws ≠ .ok r :=
  fun e => h ((mutateNodeLoop_ok_iff cfg hcfg old).mp ⟨fuel, draws, r, e⟩)

/-- closed form: a terminal row is stuck iff it is a CONSTANT and there are no variables; an operator
row is stuck iff no *different* operator is enabled (also when the same operator was enabled twice, in
which case `_get_random_node_mutation_location` does offer the row) -/
theorem nodeLoop_progress_closed (old : Cmd) :
    CanProgressNodeCmd cfg old ↔
      (Ops.isTerminal old.node = some true ∧ (old.node ≠ Gen.OpDefs.CONSTANT ∨ 1 ≤ cfg.D)) ∨
      (Ops.isTerminal old.node = some false ∧ ∃ op ∈ cfg.ops, op ≠ old.node) :=
  canProgressNodeCmd_iff old

theorem nodeLoop_stuck_constant (hcfg : CfgOK cfg) {old : Cmd} (hD : cfg.D = 0)
    (hold : old.node = Gen.OpDefs.CONSTANT) (fuel : Nat) (draws : List Nat) (r : Cmd × List Nat) :
    mutateNodeLoop cfg old fuel old draws ≠ .ok r := by
  apply nodeLoop_stuck hcfg
  rw [canProgressNodeCmd_iff]
  rintro (⟨_, h | h⟩ | ⟨h, _⟩)
  · exact h hold
  · omega
  · rw [hold, constant_facts.1] at h; cases h

theorem nodeLoop_stuck_same_operator (hcfg : CfgOK cfg) {old : Cmd}
    (hop : Ops.isTerminal old.node = some false) (hall : ∀ op ∈ cfg.ops, op = old.node)
    (fuel : Nat) (draws : List Nat) (r : Cmd × List Nat) :
    mutateNodeLoop cfg old fuel old draws ≠ .ok r := by
  apply nodeLoop_stuck hcfg
  rw [canProgressNodeCmd_iff]
  rintro (⟨h, _⟩ | ⟨_, op, hm, hne⟩)
  · rw [hop] at h; cases h
  · exact hne (hall op hm)

theorem node_progress_iff (hcfg : CfgOK cfg) (parent : Stack) :
    (∃ draws child rest, mutateNode cfg parent draws = .ok (child, rest)) ↔
      ∃ loc, NodeEligible cfg parent loc ∧ CanProgressNode cfg parent loc := by
  constructor
  · rintro ⟨ds, child, rest, h⟩
    obtain ⟨u, d, ds1, loc, old, new, hu, _, hloc, hold, hm, _⟩ := mutateNode_ok_elim hcfg h
    exact ⟨loc, ⟨u, hu, List.mem_of_getElem? hloc⟩, old, hold, new, hm⟩
  · rintro ⟨loc, ⟨u, hu, hmem⟩, old, hold, new, hm⟩
    obtain ⟨d, hd⟩ := List.mem_iff_getElem?.mp hmem
    obtain ⟨pre, hp⟩ := mutateNode_complete hu hd hold hm []
    exact ⟨_, _, _, hp⟩

theorem node_stuck (hcfg : CfgOK cfg) {parent : Stack} {u : List Bool} {d loc : Nat}
    (hu : Reduce.utilized parent = some u) (hd : (nodeIndices cfg parent u)[d]? = some loc)
    (hstuck : ¬ CanProgressNode cfg parent loc) (draws : List Nat) (r : Stack × List Nat) :
    mutateNode cfg parent (d :: draws) ≠ .ok r := by
  obtain ⟨child, rest⟩ := r
  intro h
  obtain ⟨u', d', ds1, loc', old, new, hu', e, hloc, hold, hm, _⟩ := mutateNode_ok_elim hcfg h
  rw [hu] at hu'; cases hu'
  cases e
  rw [hd] at hloc; cases hloc
  exact hstuck ⟨old, hold, new, hm⟩

/-! ### parameter mutation: never stuck on a well-formed parent -/

/-- what `_get_random_param_mut_location` can return: a utilized row that is not a CONSTANT / INTEGER
(nor a VARIABLE when `D ≤ 1`), and row 1 only if it is a terminal -/
theorem param_location_eligible {parent : Stack} {draws rest : List Nat} {loc : Nat}
    (h : randomParamMutLocation cfg parent draws = .ok (some loc, rest)) :
    ParamEligible cfg parent loc :=
  (post_randomParamMutLocation_eligible cfg parent draws (some loc) rest h).1 loc rfl

/-- at every such row of a well-formed parent the rejection loop of `_mutate_parameters` can exit (in
its first iteration, with a row different from the old one) -/
theorem paramLoop_progress {parent : Stack} (hwf : WF.WFGenome cfg.D cfg.ops parent) {loc : Nat}
    (hel : ParamEligible cfg parent loc) {old : Cmd} (hold : parent[loc]? = some old) :
    ∃ new draws, new ≠ old ∧
      ∀ fuel, mutateParametersLoop cfg loc old (fuel+1) old draws = .ok (new, []) := by
  obtain ⟨new, pre, hne, hp⟩ := mutateParametersLoop_can_exit hwf hel hold []
  exact ⟨new, pre ++ [], hne, hp⟩

/-! ## 9. non-vacuity

`D = 2`, one forced load row, operators `+ * sin`.
`parent = X0, C, sin(X0) [unused], X1 [unused], X0*C, (X0*C)+(X0*C)`. -/

def exCfg : Config := ⟨2, 1, [2, 4, 6]⟩
def exParent : Stack := [⟨0,0,0⟩, ⟨1,-1,-1⟩, ⟨6,0,0⟩, ⟨0,1,1⟩, ⟨4,0,1⟩, ⟨2,4,4⟩]
def exParent2 : Stack := [⟨0,1,1⟩, ⟨6,0,0⟩, ⟨1,-1,-1⟩, ⟨4,2,0⟩, ⟨2,0,2⟩, ⟨4,4,0⟩]
/-- an unused operator row (`sin(row 2)`, row 3) that points above its new position after the move -/
def exParent3 : Stack := [⟨0,0,0⟩, ⟨1,-1,-1⟩, ⟨4,0,1⟩, ⟨6,2,2⟩, ⟨0,1,1⟩, ⟨2,2,2⟩]

example : CfgOK exCfg := by decide
example : WF.WFGenome exCfg.D exCfg.ops exParent ∧ WF.WFGenome exCfg.D exCfg.ops exParent2 ∧
    WF.WFGenome exCfg.D exCfg.ops exParent3 := by decide
/-- two unutilized rows -/
example : Reduce.utilized exParent = some [true, true, false, false, true, true] := by decide

example : generate exCfg 4 [1, 0, 1, 2, 0, 0, 0, 0, 1, 0, 2, 1] =
    .ok ([⟨0,0,0⟩, ⟨6,0,0⟩, ⟨1,-1,-1⟩, ⟨2,2,1⟩], []) := by decide
example : WF.WFGenome exCfg.D exCfg.ops [⟨0,0,0⟩, ⟨6,0,0⟩, ⟨1,-1,-1⟩, ⟨2,2,1⟩] := by decide

example : mutateCommand exCfg exParent [2, 1, 0, 3, 1] =
    .ok ([⟨0,0,0⟩, ⟨1,-1,-1⟩, ⟨6,0,0⟩, ⟨0,1,1⟩, ⟨2,3,1⟩, ⟨2,4,4⟩], []) := by decide
example : WF.WFGenome exCfg.D exCfg.ops
    [⟨0,0,0⟩, ⟨1,-1,-1⟩, ⟨6,0,0⟩, ⟨0,1,1⟩, ⟨2,3,1⟩, ⟨2,4,4⟩] := by decide

example : mutateNode exCfg exParent [3, 0, 1] =
    .ok ([⟨0,0,0⟩, ⟨1,-1,-1⟩, ⟨6,0,0⟩, ⟨0,1,1⟩, ⟨4,0,1⟩, ⟨4,4,4⟩], []) := by decide
example : WF.WFGenome exCfg.D exCfg.ops
    [⟨0,0,0⟩, ⟨1,-1,-1⟩, ⟨6,0,0⟩, ⟨0,1,1⟩, ⟨4,0,1⟩, ⟨4,4,4⟩] := by decide

/-- the first draw `(0, 0)` reproduces the old row and is rejected, the second is accepted -/
example : mutateParameters exCfg exParent [1, 0, 1, 1, 1] =
    .ok ([⟨0,0,0⟩, ⟨1,-1,-1⟩, ⟨6,0,0⟩, ⟨0,1,1⟩, ⟨4,1,1⟩, ⟨2,4,4⟩], []) := by decide
example : WF.WFGenome exCfg.D exCfg.ops
    [⟨0,0,0⟩, ⟨1,-1,-1⟩, ⟨6,0,0⟩, ⟨0,1,1⟩, ⟨4,1,1⟩, ⟨2,4,4⟩] := by decide

example : pruneBranch exCfg exParent [0, 1] =
    .ok ([⟨0,0,0⟩, ⟨1,-1,-1⟩, ⟨6,0,0⟩, ⟨0,1,1⟩, ⟨4,0,1⟩, ⟨2,1,1⟩], []) := by decide
example : WF.WFGenome exCfg.D exCfg.ops
    [⟨0,0,0⟩, ⟨1,-1,-1⟩, ⟨6,0,0⟩, ⟨0,1,1⟩, ⟨4,0,1⟩, ⟨2,1,1⟩] := by decide

/-- fork at row 4: the two unutilized rows are overwritten by `X1` and `(X0*C) + X1` -/
example : forkMutation exCfg exParent [2, 2, 0, 1, 1, 1, 3] =
    .ok ([⟨0,0,0⟩, ⟨1,-1,-1⟩, ⟨4,0,1⟩, ⟨0,1,1⟩, ⟨2,2,3⟩, ⟨2,4,4⟩], []) := by decide
example : WF.WFGenome exCfg.D exCfg.ops
    [⟨0,0,0⟩, ⟨1,-1,-1⟩, ⟨4,0,1⟩, ⟨0,1,1⟩, ⟨2,2,3⟩, ⟨2,4,4⟩] := by decide

/-- fork at row 0 of `exParent3`: `fixColumn` has to re-draw both parameters of the moved `sin` row
(draws 3–6, the first of each pair being the extra call of `np.vectorize`) -/
example : forkMutation exCfg exParent3 [2, 0, 0, 0, 0, 0, 0, 1, 0, 1] =
    .ok ([⟨0,0,0⟩, ⟨1,-1,-1⟩, ⟨2,0,1⟩, ⟨1,-1,-1⟩, ⟨4,2,3⟩, ⟨2,4,4⟩], []) := by decide
example : WF.WFGenome exCfg.D exCfg.ops
    [⟨0,0,0⟩, ⟨1,-1,-1⟩, ⟨2,0,1⟩, ⟨1,-1,-1⟩, ⟨4,2,3⟩, ⟨2,4,4⟩] := by decide

set_option maxRecDepth 8000 in
/-- the arity-1 branch of `_insert_fork` (only `sin` enabled: 100 failed attempts to draw an arity-2
operator) -/
example : forkMutation ⟨2, 1, [6]⟩ [⟨0,0,0⟩, ⟨6,0,0⟩, ⟨6,1,1⟩, ⟨6,0,0⟩]
      ([2, 0] ++ List.replicate 100 0 ++ [0, 0]) =
    .ok ([⟨0,0,0⟩, ⟨6,0,0⟩, ⟨6,1,1⟩, ⟨6,2,2⟩], []) := by decide
example : WF.WFGenome 2 [6] [⟨0,0,0⟩, ⟨6,0,0⟩, ⟨6,1,1⟩, ⟨6,0,0⟩] ∧
    WF.WFGenome 2 [6] [⟨0,0,0⟩, ⟨6,0,0⟩, ⟨6,1,1⟩, ⟨6,2,2⟩] := by decide

example : mutate exCfg exParent [4, 2, 2, 0, 1, 1, 1, 3] =
    .ok ([⟨0,0,0⟩, ⟨1,-1,-1⟩, ⟨4,0,1⟩, ⟨0,1,1⟩, ⟨2,2,3⟩, ⟨2,4,4⟩], []) := by decide

example : crossover exParent exParent2 [2] =
    .ok (([⟨0,0,0⟩, ⟨1,-1,-1⟩, ⟨1,-1,-1⟩, ⟨4,2,0⟩, ⟨2,0,2⟩, ⟨4,4,0⟩],
          [⟨0,1,1⟩, ⟨6,0,0⟩, ⟨6,0,0⟩, ⟨0,1,1⟩, ⟨4,0,1⟩, ⟨2,4,4⟩]), []) := by decide
example : WF.WFGenome exCfg.D exCfg.ops [⟨0,0,0⟩, ⟨1,-1,-1⟩, ⟨1,-1,-1⟩, ⟨4,2,0⟩, ⟨2,0,2⟩, ⟨4,4,0⟩] ∧
    WF.WFGenome exCfg.D exCfg.ops [⟨0,1,1⟩, ⟨6,0,0⟩, ⟨6,0,0⟩, ⟨0,1,1⟩, ⟨4,0,1⟩, ⟨2,4,4⟩] := by decide

/-! ### progress: both sides occur -/

/-- every utilized row of the example can be command-mutated and node-mutated -/
example : ∀ loc ∈ [0, 1, 4, 5], CommandEligible exParent loc ∧ CanProgressCommand exCfg exParent loc ∧
    NodeEligible exCfg exParent loc ∧ CanProgressNode exCfg exParent loc := by decide

/-- no variables: a CONSTANT in the load rows can be neither command- nor node-mutated -/
example : CfgOK ⟨0, 1, [2, 4, 6]⟩ ∧ WF.WFGenome 0 [2, 4, 6] [⟨1,-1,-1⟩, ⟨6,0,0⟩] ∧
    CommandEligible [⟨1,-1,-1⟩, ⟨6,0,0⟩] 0 ∧ ¬ CanProgressCommand ⟨0, 1, [2, 4, 6]⟩ [⟨1,-1,-1⟩, ⟨6,0,0⟩] 0 ∧
    NodeEligible ⟨0, 1, [2, 4, 6]⟩ [⟨1,-1,-1⟩, ⟨6,0,0⟩] 0 ∧
    ¬ CanProgressNode ⟨0, 1, [2, 4, 6]⟩ [⟨1,-1,-1⟩, ⟨6,0,0⟩] 0 := by decide

/-- hence: once the first draw selects row 0, command mutation never returns -/
example (draws : List Nat) (r : Stack × List Nat) :
    mutateCommand ⟨0, 1, [2, 4, 6]⟩ [⟨1,-1,-1⟩, ⟨6,0,0⟩] (0 :: draws) ≠ .ok r :=
  command_stuck (u := [true, true]) (loc := 0) (by decide) (by decide) (by decide) draws r

/-- the same operator enabled twice (`add_operator(2); add_operator("+")`): the row `X0 + X0` is offered
by `_get_random_node_mutation_location` (two operators are enabled) but node mutation never returns -/
example : CfgOK ⟨1, 1, [2, 2]⟩ ∧ WF.WFGenome 1 [2, 2] [⟨0,0,0⟩, ⟨2,0,0⟩] ∧
    NodeEligible ⟨1, 1, [2, 2]⟩ [⟨0,0,0⟩, ⟨2,0,0⟩] 1 ∧
    ¬ CanProgressNode ⟨1, 1, [2, 2]⟩ [⟨0,0,0⟩, ⟨2,0,0⟩] 1 := by decide

example (draws : List Nat) (r : Stack × List Nat) :
    mutateNode ⟨1, 1, [2, 2]⟩ [⟨0,0,0⟩, ⟨2,0,0⟩] (1 :: draws) ≠ .ok r :=
  node_stuck (u := [true, true]) (loc := 1) (by decide) (by decide) (by decide) (by decide) draws r


/-! ## 10. object level: genetic age, evaluated flag, parents intact

The bodies of `AGraphCrossover.__call__` / `AGraphMutation.__call__` are REGENERATED from the source as op lists
(`Gen.Variation.crossoverOps`, `mutationOps`) and interpreted over the `AGraph` object model `AG.St` of C18
(`Model/VariationObjOps.lean`); the mutation kinds reach the child only through the stores the translator lists in
`Gen.Variation.storeSites`.  Parents are arguments of pure functions: they cannot be modified in the model; on the
real objects that clause is checked by the harness (bit-identical snapshots). -/

/-- the translator recognised every statement; no store in mutation.py / crossover.py bypasses the mutable view
(class `other`), and the genetic age is written only inside a `__call__` (the crossover's) -/
theorem gen_variation_ok :
    Gen.Variation.problems = [] ∧
    (Gen.Variation.storeSites.all fun s => s.2.2 != VarObj.StoreKind.other) = true ∧
    (Gen.Variation.storeSites.all fun s => s.2.2 != VarObj.StoreKind.age || s.1 == "__call__") = true := by
  decide

/-- crossover on the objects: both children get the larger parental age, both are marked not evaluated, and their
stacks are those of the stack-level model `Var.crossover` for the same draw -/
theorem crossover_children {V : Type} (p1 p2 : AG.St V) (cut : Nat) (rest : List Nat)
    (hlen : p1.cmd.length = p2.cmd.length) (h1 : 1 ≤ cut) (h2 : cut < p1.cmd.length - 1) :
    ∃ c1 c2, VarObj.crossoverObj Gen.Variation.crossoverOps p1 p2 cut = some (c1, c2) ∧
      c1.age = max p1.age p2.age ∧ c2.age = max p1.age p2.age ∧
      c1.fitSet = false ∧ c2.fitSet = false ∧ c1.fit = none ∧ c2.fit = none ∧
      crossover p1.cmd p2.cmd (cut :: rest) = .ok ((c1.cmd, c2.cmd), rest) := by
  refine ⟨_, _, VarObjLemmas.crossoverObj_gen p1 p2 cut hlen h1 h2, rfl, rfl, rfl, rfl, rfl, rfl, ?_⟩
  have hA : ¬ (p2.cmd.length ≤ 2) := by omega
  have hB : cut < p2.cmd.length - 1 := by omega
  simp [crossover, drawRange, bind, M.andThen, pure, M.ret, h1, hlen, hA, hB]

/-- where numpy raises (`randint` on an empty range, slices of different length) no children are returned -/
theorem crossover_no_children {V : Type} (p1 p2 : AG.St V) (cut : Nat)
    (h : p1.cmd.length ≠ p2.cmd.length ∨ ¬ (1 ≤ cut ∧ cut < p1.cmd.length - 1)) :
    VarObj.crossoverObj Gen.Variation.crossoverOps p1 p2 cut = none := by
  rcases h with h | h
  · exact VarObjLemmas.crossoverObj_gen_unequal p1 p2 cut h
  · exact VarObjLemmas.crossoverObj_gen_bad_draw p1 p2 cut h

/-- mutation on the objects, for whatever row stores `w` the drawn kind performs through the mutable view: the
mutant keeps its parent's age; without a store it is an exact copy; with one it is marked not evaluated -/
theorem mutation_child {V : Type} (parent : AG.St V) (w : VarObj.Writes) :
    ∃ child, VarObj.mutationObj Gen.Variation.mutationOps parent w = some child ∧
      child.age = parent.age ∧ (w = [] → child = parent) ∧
      (w ≠ [] → child.fitSet = false ∧ child.fit = none) ∧
      (child.cmd ≠ parent.cmd → child.fitSet = false) := by
  refine ⟨_, VarObjLemmas.mutationObj_gen parent w, VarObjLemmas.applyWrites_age _ w, ?_, ?_, ?_⟩
  · rintro rfl; rfl
  · exact VarObjLemmas.applyWrites_flag _ w
  · intro hne
    by_cases hw : w = []
    · subst hw; exact absurd rfl hne
    · exact (VarObjLemmas.applyWrites_flag _ w hw).1

/-- non-vacuity: two evaluated parents of ages 2 and 9, cut at row 2 -/
example :
    VarObj.crossoverObj (V := Nat) Gen.Variation.crossoverOps
      { cmd := exParent, simp := [], consts := [], needsOpt := false, modified := false, useSimp := false,
        fit := some (some 1), fitSet := true, age := 2 }
      { cmd := exParent2, simp := [], consts := [], needsOpt := false, modified := false, useSimp := false,
        fit := some (some 2), fitSet := true, age := 9 } 2
    = some ({ cmd := [⟨0,0,0⟩, ⟨1,-1,-1⟩, ⟨1,-1,-1⟩, ⟨4,2,0⟩, ⟨2,0,2⟩, ⟨4,4,0⟩], simp := [], consts := [],
              needsOpt := false, modified := true, useSimp := false, fit := none, fitSet := false, age := 9 },
            { cmd := [⟨0,1,1⟩, ⟨6,0,0⟩, ⟨6,0,0⟩, ⟨0,1,1⟩, ⟨4,0,1⟩, ⟨2,4,4⟩], simp := [], consts := [],
              needsOpt := false, modified := true, useSimp := false, fit := none, fitSet := false, age := 9 }) := by
  rfl

end Bingo.C04
