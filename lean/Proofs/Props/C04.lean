import Model.Variation
/-!
# C04 (placeholder until the proof agent's file arrives)
-/
namespace Bingo.C04
theorem gen_consts_ok : Gen.Consts.problems = [] ∧ Gen.Consts.MAX_FORK_SIZE = 4 := by decide
end Bingo.C04
