import Model.Generated.SourceFacts
/-!
# C06 -- `LocalOptFitnessFunction.__call__`: optimize if requested, then ALWAYS evaluate the base fitness afresh

The model (`Model/LocalOpt.lean`) returns the base fitness of the constants the individual holds after the optional
optimization; it never returns a stored value.
-/
namespace Bingo
namespace C06Facts
open Gen.SourceFacts

theorem gen_local_opt_call :
    localOptCall = "if individual.needs_local_optimization():     self.optimizer(individual) ; return self._fitness_function(individual)" := rfl

/-- storing constants clears the optimization request unconditionally (`LocalOpt` model: after the optimizer wrote its result the individual no longer asks) -/
theorem gen_set_params :
    agraphSetLocalOptParams = "self._simplified_constants = tuple(params) ; self._needs_opt = False" :=
  rfl

end C06Facts
end Bingo
