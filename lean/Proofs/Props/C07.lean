import Proofs.Lemmas.MetricsGen
import Proofs.Lemmas.MetricsEval
import Proofs.Lemmas.MetricsDeriv
import Proofs.Lemmas.MetricsMin
/-!
# C07 -- fitness metrics, their gradients, and the evaluation counter

"The fitness equals the selected metric (MAE, MSE, RMSE or the negative Laplace-approximated
marginal likelihood) of the residual; an equation reproducing the data has the minimal fitness.
The scalar fitness gradient returned to optimizers equals the derivative of that same fitness with
respect to the equation's constants.  Each fitness call increases the evaluation counter by
exactly one."

`Gen.Metrics.{mae,mse,rmse,nmll}` and `Gen.Metrics.{dmae,dmse,drmse,dnmll}` are generated from
`fitness_function.py` / `gradient_mixin.py`; every theorem below evaluates them with the model
interpreter `VFun.eval` over `ℝ` (`π = Real.pi`, `L` = number of constants).  The derivative
functions are evaluated for one constant at a time (`partials` = the row of that constant), so
`θ : ℝ` below is that constant with all the others fixed: the statements are about each partial
derivative.  `maeV`, `mseV`, `rmseV`, `nmllOf` (Lemmas/MetricsEval) are the closed forms; they are
spelled out in `closed_forms`.
-/
namespace Bingo
namespace C07
open Bingo.Metrics

/-! ## 1. the facts read from the Python source -/

theorem gen_ok :
    Gen.Metrics.problems = [] ∧
    Gen.Metrics.mixinPairs =
      [("mean_absolute_error", "_mean_absolute_error_derivative"),
       ("mean_squared_error", "_mean_squared_error_derivative"),
       ("root_mean_squared_error", "_root_mean_squared_error_derivative"),
       ("negative_nmll_laplace", "_negative_nmll_laplace_derivative")] ∧
    Gen.Metrics.evalCountIncrements =
      [("__init__", 0, 0), ("evaluate_fitness_vector", 1, 0),
       ("get_fitness_vector_and_jacobian", 1, 0)] ∧
    Gen.Metrics.vectorCall =
      "fitness_vector = self.evaluate_fitness_vector(individual) ; return self._metric(fitness_vector, individual)" ∧
    Gen.Metrics.getFitnessAndGradient =
      "fitness_vector, jacobian = self.get_fitness_vector_and_jacobian(individual) ; return (self._metric(fitness_vector, individual), self._metric_derivative(fitness_vector, jacobian.transpose()))" ∧
    Gen.Metrics.explicitVector =
      "self.eval_count += 1 ; f_of_x = individual.evaluate_equation_at(self.training_data.x) ; error = f_of_x - self.training_data.y ; if not self._relative:     return np.squeeze(error) ; return np.squeeze(error / self.training_data.y)" ∧
    Gen.Metrics.explicitJacobian =
      "self.eval_count += 1 ; f_of_x, df_dc = individual.evaluate_equation_with_local_opt_gradient_at(self.training_data.x) ; error = f_of_x - self.training_data.y ; if not self._relative:     return (np.squeeze(error), df_dc) ; return (np.squeeze(error / self.training_data.y), df_dc / self.training_data.y)" :=
  ⟨by decide, by decide, by decide, rfl, rfl, rfl, rfl⟩

/-- Every public entry point of the fitness function (`__call__`, `evaluate_fitness_vector`,
`get_fitness_vector_and_jacobian`, `get_fitness_and_gradient`) executes exactly one
`self.eval_count += 1` and no other write to `eval_count`; the constructor executes none. -/
theorem count_once :
    (∀ e ∈ entryPoints,
      totalIncr Gen.Metrics.evalCountIncrements e.2 = some 1 ∧
      totalOther Gen.Metrics.evalCountIncrements e.2 = some 0) ∧
    entryPoints.map (·.1) =
      ["__call__", "evaluate_fitness_vector", "get_fitness_vector_and_jacobian",
       "get_fitness_and_gradient"] ∧
    totalIncr Gen.Metrics.evalCountIncrements ["__init__"] = some 0 ∧
    totalOther Gen.Metrics.evalCountIncrements ["__init__"] = some 0 := by
  decide

/-! ## 2. the fitness is the selected metric of the residual -/

/-- the closed forms used below, spelled out -/
theorem closed_forms (r : List ℝ) (M L : ℕ) (m : ℝ) :
    maeV r = (r.map (|·|)).sum / (r.length : ℝ) ∧
    mseV r = (r.map (· ^ 2)).sum / (r.length : ℝ) ∧
    rmseV r = Real.sqrt ((r.map (· ^ 2)).sum / (r.length : ℝ)) ∧
    nmllOf M L m =
      -((1 - 1 / Real.sqrt M) *
            (-((M : ℝ) / 2) * Real.log m - (M : ℝ) / 2 - ((M : ℝ) / 2) * Real.log (2 * Real.pi))
          + Real.log (1 / Real.sqrt M) / 2 * ((L : ℝ) + 1)) :=
  ⟨rfl, rfl, rfl, rfl⟩

/-- What the four generated metric functions compute on a residual vector `r` (any length; for
`r = []` both sides are Mathlib's `0 / 0 = 0`, numpy gives `nan`). -/
theorem metrics_defs (r : List ℝ) (L : ℕ) :
    VFun.eval Gen.Metrics.mae r [] L Real.pi = some ((r.map (|·|)).sum / (r.length : ℝ)) ∧
    VFun.eval Gen.Metrics.mse r [] L Real.pi = some ((r.map (· ^ 2)).sum / (r.length : ℝ)) ∧
    VFun.eval Gen.Metrics.rmse r [] L Real.pi =
      some (Real.sqrt ((r.map (· ^ 2)).sum / (r.length : ℝ))) ∧
    VFun.eval Gen.Metrics.nmll r [] L Real.pi =
      some (-((1 - 1 / Real.sqrt (r.length : ℝ)) *
            (-((r.length : ℝ) / 2) * Real.log ((r.map (· ^ 2)).sum / (r.length : ℝ))
              - (r.length : ℝ) / 2 - ((r.length : ℝ) / 2) * Real.log (2 * Real.pi))
          + Real.log (1 / Real.sqrt (r.length : ℝ)) / 2 * ((L : ℝ) + 1))) :=
  ⟨eval_mae r [] L _, eval_mse r [] L _, eval_rmse r [] L _, eval_nmll r [] L⟩

/-! ## 4. the gradient returned to optimizers is the derivative of the fitness -/

/-- MSE: no side condition. -/
theorem gradient_correct_mse (M L : ℕ) (ρ : ℕ → ℝ → ℝ) (J : ℕ → ℝ) (θ₀ : ℝ)
    (hρ : ∀ i < M, HasDerivAt (ρ i) (J i) θ₀) :
    ∃ g, VFun.eval Gen.Metrics.dmse ((List.range M).map (fun i => ρ i θ₀))
          ((List.range M).map J) L Real.pi = some g ∧
      HasDerivAt (fun θ => (VFun.eval Gen.Metrics.mse
          ((List.range M).map (fun i => ρ i θ)) [] L Real.pi).getD 0) g θ₀ ∧
      HasDerivAt (fun θ => mseV ((List.range M).map (fun i => ρ i θ))) g θ₀ := by
  have h := hasDerivAt_mse (List.range M) ρ J θ₀ (fun i hi => hρ i (List.mem_range.1 hi))
  refine ⟨_, eval_dmse_map _ _ _ _ _, ?_, h⟩
  simp only [eval_mse, Option.getD_some]
  exact h

/-- RMSE: differentiable where the mean squared error is positive. -/
theorem gradient_correct_rmse (M L : ℕ) (ρ : ℕ → ℝ → ℝ) (J : ℕ → ℝ) (θ₀ : ℝ)
    (hρ : ∀ i < M, HasDerivAt (ρ i) (J i) θ₀)
    (hpos : 0 < mseV ((List.range M).map (fun i => ρ i θ₀))) :
    ∃ g, VFun.eval Gen.Metrics.drmse ((List.range M).map (fun i => ρ i θ₀))
          ((List.range M).map J) L Real.pi = some g ∧
      HasDerivAt (fun θ => (VFun.eval Gen.Metrics.rmse
          ((List.range M).map (fun i => ρ i θ)) [] L Real.pi).getD 0) g θ₀ ∧
      HasDerivAt (fun θ => rmseV ((List.range M).map (fun i => ρ i θ))) g θ₀ := by
  have h := hasDerivAt_rmse (List.range M) ρ J θ₀ (fun i hi => hρ i (List.mem_range.1 hi)) hpos
  refine ⟨_, eval_drmse_map _ _ _ _ _, ?_, h⟩
  simp only [eval_rmse, Option.getD_some]
  exact h

/-- MAE: differentiable where no residual component vanishes. -/
theorem gradient_correct_mae (M L : ℕ) (ρ : ℕ → ℝ → ℝ) (J : ℕ → ℝ) (θ₀ : ℝ)
    (hρ : ∀ i < M, HasDerivAt (ρ i) (J i) θ₀) (h0 : ∀ i < M, ρ i θ₀ ≠ 0) :
    ∃ g, VFun.eval Gen.Metrics.dmae ((List.range M).map (fun i => ρ i θ₀))
          ((List.range M).map J) L Real.pi = some g ∧
      HasDerivAt (fun θ => (VFun.eval Gen.Metrics.mae
          ((List.range M).map (fun i => ρ i θ)) [] L Real.pi).getD 0) g θ₀ ∧
      HasDerivAt (fun θ => maeV ((List.range M).map (fun i => ρ i θ))) g θ₀ := by
  have h := hasDerivAt_mae (List.range M) ρ J θ₀ (fun i hi => hρ i (List.mem_range.1 hi))
    (fun i hi => h0 i (List.mem_range.1 hi))
  refine ⟨_, eval_dmae_map _ _ _ _ _, ?_, h⟩
  simp only [eval_mae, Option.getD_some]
  exact h

/-- NMLL: differentiable where the mean squared error is positive.  (The earlier formula
`-n/2 / dmse` in place of `-n/2 * dmse / mse` does not satisfy this.) -/
theorem gradient_correct_nmll (M L : ℕ) (ρ : ℕ → ℝ → ℝ) (J : ℕ → ℝ) (θ₀ : ℝ)
    (hρ : ∀ i < M, HasDerivAt (ρ i) (J i) θ₀)
    (hpos : 0 < mseV ((List.range M).map (fun i => ρ i θ₀))) :
    ∃ g, VFun.eval Gen.Metrics.dnmll ((List.range M).map (fun i => ρ i θ₀))
          ((List.range M).map J) L Real.pi = some g ∧
      HasDerivAt (fun θ => (VFun.eval Gen.Metrics.nmll
          ((List.range M).map (fun i => ρ i θ)) [] L Real.pi).getD 0) g θ₀ ∧
      HasDerivAt (fun θ => nmllOf M L (mseV ((List.range M).map (fun i => ρ i θ)))) g θ₀ := by
  have h := hasDerivAt_nmll (List.range M) ρ J θ₀ L (fun i hi => hρ i (List.mem_range.1 hi)) hpos
  have e := eval_dnmll_map (List.range M) (fun i => ρ i θ₀) J L Real.pi
  simp only [List.length_range] at h e
  refine ⟨_, e, ?_, h⟩
  simp only [eval_nmll, Option.getD_some, List.length_map, List.length_range]
  exact h

/-! ## 3. an equation reproducing the data has the minimal fitness -/

/-- MAE, MSE and RMSE are non-negative and vanish exactly on the zero residual. -/
theorem minimal_at_zero (r : List ℝ) (hr : r ≠ []) (L : ℕ) :
    (∃ v, VFun.eval Gen.Metrics.mae r [] L Real.pi = some v ∧ 0 ≤ v ∧
      (v = 0 ↔ ∀ x ∈ r, x = 0)) ∧
    (∃ v, VFun.eval Gen.Metrics.mse r [] L Real.pi = some v ∧ 0 ≤ v ∧
      (v = 0 ↔ ∀ x ∈ r, x = 0)) ∧
    (∃ v, VFun.eval Gen.Metrics.rmse r [] L Real.pi = some v ∧ 0 ≤ v ∧
      (v = 0 ↔ ∀ x ∈ r, x = 0)) :=
  ⟨⟨_, eval_mae r [] L _, maeV_nonneg r, maeV_eq_zero_iff hr⟩,
   ⟨_, eval_mse r [] L _, mseV_nonneg r, mseV_eq_zero_iff hr⟩,
   ⟨_, eval_rmse r [] L _, rmseV_nonneg r, rmseV_eq_zero_iff hr⟩⟩

/-- The NMLL fitness is `nmllOf M L` of the mean squared error, and `nmllOf M L` is
non-decreasing on `m > 0` (`M ≥ 1`), strictly increasing for `M ≥ 2`, identically `0` for `M = 1`,
and tends to `-∞` as `m → 0⁺` for `M ≥ 2`: the smaller the residual the smaller the fitness, and a
perfect fit is the (unattained, `-∞`) infimum. -/
theorem minimal_at_zero_nmll (M L : ℕ) :
    (∀ r : List ℝ, r.length = M →
      VFun.eval Gen.Metrics.nmll r [] L Real.pi = some (nmllOf M L (mseV r))) ∧
    (1 ≤ M → ∀ m₁ m₂ : ℝ, 0 < m₁ → m₁ ≤ m₂ → nmllOf M L m₁ ≤ nmllOf M L m₂) ∧
    (2 ≤ M → ∀ m₁ m₂ : ℝ, 0 < m₁ → m₁ < m₂ → nmllOf M L m₁ < nmllOf M L m₂) ∧
    (2 ≤ M → Filter.Tendsto (fun m => nmllOf M L m) (nhdsWithin 0 (Set.Ioi 0)) Filter.atBot) ∧
    (M = 1 → ∀ m : ℝ, nmllOf M L m = 0) := by
  refine ⟨?_, fun hM _ _ h₁ h₁₂ => nmllOf_mono hM L h₁ h₁₂,
    fun hM _ _ h₁ h₁₂ => nmllOf_strictMono hM L h₁ h₁₂, fun hM => nmllOf_tendsto_atBot hM L, ?_⟩
  · rintro r rfl; exact eval_nmll r [] L
  · rintro rfl m; exact nmllOf_one L m

/-- Two residual vectors of the same length `M ≥ 1`, the first with the smaller (positive) mean
squared error: its NMLL fitness is not larger. -/
theorem nmll_le_of_mse_le (r₁ r₂ : List ℝ) (L : ℕ) (hlen : r₁.length = r₂.length) (hr : r₁ ≠ [])
    (hpos : 0 < mseV r₁) (hle : mseV r₁ ≤ mseV r₂) :
    ∃ v₁ v₂, VFun.eval Gen.Metrics.nmll r₁ [] L Real.pi = some v₁ ∧
      VFun.eval Gen.Metrics.nmll r₂ [] L Real.pi = some v₂ ∧ v₁ ≤ v₂ := by
  refine ⟨_, _, eval_nmll r₁ [] L, eval_nmll r₂ [] L, ?_⟩
  rw [← hlen]
  exact nmllOf_mono (List.length_pos_iff.2 hr) L hpos hle

/-! ## 5. assembling the Jacobian: the relative mode is a pointwise scaling -/

/-- `error = f_of_x - y` has the partials `df_dc`; `error / y` has the partials `df_dc / y`
(the two `return`s of `Gen.Metrics.explicitJacobian`).  The second part is meaningful for
`y ≠ 0`; for `y = 0` it holds only by Mathlib's `x / 0 = 0` (numpy gives `inf`/`nan`). -/
theorem jacobian_assembly (f : ℝ → ℝ) (F y θ₀ : ℝ) (hf : HasDerivAt f F θ₀) :
    HasDerivAt (fun θ => f θ - y) F θ₀ ∧
    HasDerivAt (fun θ => (f θ - y) / y) (F / y) θ₀ :=
  ⟨hf.sub_const y, (hf.sub_const y).div_const y⟩

/-- The same for whole vectors: with `df_dc = F`, the residual families of the two modes satisfy
the hypothesis of `gradient_correct_*` with the Jacobian column that `explicitJacobian` returns. -/
theorem jacobian_assembly_vec (M : ℕ) (f : ℕ → ℝ → ℝ) (F y : ℕ → ℝ) (θ₀ : ℝ)
    (hf : ∀ i < M, HasDerivAt (f i) (F i) θ₀) :
    (∀ i < M, HasDerivAt (fun θ => f i θ - y i) (F i) θ₀) ∧
    (∀ i < M, HasDerivAt (fun θ => (f i θ - y i) / y i) (F i / y i) θ₀) :=
  ⟨fun i hi => (jacobian_assembly (f i) (F i) (y i) θ₀ (hf i hi)).1,
   fun i hi => (jacobian_assembly (f i) (F i) (y i) θ₀ (hf i hi)).2⟩

/-! ## 6. non-vacuity: concrete evaluations and an instance of `gradient_correct` -/

/-! residual `r = [1, -2, 2]`, partials `J = [1, 0, 3]` -/

example (L : ℕ) : VFun.eval Gen.Metrics.mae [1, -2, 2] [] L Real.pi = some (5 / 3) := by
  rw [eval_mae]; norm_num
example (L : ℕ) : VFun.eval Gen.Metrics.mse [1, -2, 2] [] L Real.pi = some 3 := by
  rw [eval_mse]; norm_num
example (L : ℕ) : VFun.eval Gen.Metrics.rmse [1, -2, 2] [] L Real.pi = some (Real.sqrt 3) := by
  rw [eval_rmse]; norm_num
example (L : ℕ) : VFun.eval Gen.Metrics.nmll [1, -2, 2] [] L Real.pi =
    some (-((1 - 1 / Real.sqrt 3) * (-(3 / 2) * Real.log 3 - 3 / 2 - 3 / 2 * Real.log (2 * Real.pi))
      + Real.log (1 / Real.sqrt 3) / 2 * ((L : ℝ) + 1))) := by
  rw [eval_nmll]; norm_num [nmllOf, mseV]
example (L : ℕ) : VFun.eval Gen.Metrics.dmae [1, -2, 2] [1, 0, 3] L Real.pi = some (4 / 3) := by
  rw [eval_dmae _ _ _ _ (by simp)]
  norm_num [Real.sign_of_neg, Real.sign_of_pos]
example (L : ℕ) : VFun.eval Gen.Metrics.dmse [1, -2, 2] [1, 0, 3] L Real.pi = some (14 / 3) := by
  rw [eval_dmse _ _ _ _ (by simp)]; norm_num
example (L : ℕ) : VFun.eval Gen.Metrics.drmse [1, -2, 2] [1, 0, 3] L Real.pi =
    some (1 / Real.sqrt 3 * (7 / 3)) := by
  rw [eval_drmse _ _ _ _ (by simp)]; norm_num [mseV]
example (L : ℕ) : VFun.eval Gen.Metrics.dnmll [1, -2, 2] [1, 0, 3] L Real.pi =
    some ((1 - 1 / Real.sqrt 3) * (7 / 3)) := by
  rw [eval_dnmll _ _ _ _ (by simp)]; norm_num [mseV]

/-- `gradient_correct_mse` for the one-constant linear model `θ * x`, any data -/
example (M L : ℕ) (x y : ℕ → ℝ) (θ₀ : ℝ) :
    ∃ g, VFun.eval Gen.Metrics.dmse ((List.range M).map (fun i => θ₀ * x i - y i))
          ((List.range M).map x) L Real.pi = some g ∧
      HasDerivAt (fun θ => (VFun.eval Gen.Metrics.mse
          ((List.range M).map (fun i => θ * x i - y i)) [] L Real.pi).getD 0) g θ₀ := by
  obtain ⟨g, h1, h2, -⟩ := gradient_correct_mse M L (fun i θ => θ * x i - y i) x θ₀
    (fun i _ => by simpa using ((hasDerivAt_id θ₀).mul_const (x i)).sub_const (y i))
  exact ⟨g, h1, h2⟩

/-- data `x = [1, 0, 3]`, `y = [0, 2, 1]`, model `θ * x`, at `θ₀ = 1`: residual `[1, -2, 2]`,
Jacobian column `[1, 0, 3]` -/
example (L : ℕ) :
    HasDerivAt (fun θ => mseV [θ * 1 - 0, θ * 0 - 2, θ * 3 - 1]) (14 / 3) 1 ∧
    HasDerivAt (fun θ => rmseV [θ * 1 - 0, θ * 0 - 2, θ * 3 - 1]) (1 / Real.sqrt 3 * (7 / 3)) 1 ∧
    HasDerivAt (fun θ => maeV [θ * 1 - 0, θ * 0 - 2, θ * 3 - 1]) (4 / 3) 1 ∧
    HasDerivAt (fun θ => nmllOf 3 L (mseV [θ * 1 - 0, θ * 0 - 2, θ * 3 - 1]))
      ((1 - 1 / Real.sqrt 3) * (7 / 3)) 1 := by
  have hρ : ∀ i < 3, HasDerivAt (fun θ : ℝ => θ * ([1, 0, 3] : List ℝ).getD i 0 - ([0, 2, 1] : List ℝ).getD i 0)
      (([1, 0, 3] : List ℝ).getD i 0) 1 := fun i _ => by
    simpa using ((hasDerivAt_id (1 : ℝ)).mul_const (([1, 0, 3] : List ℝ).getD i 0)).sub_const
      (([0, 2, 1] : List ℝ).getD i 0)
  have hr : (List.range 3).map (fun i => (1 : ℝ) * ([1, 0, 3] : List ℝ).getD i 0 - ([0, 2, 1] : List ℝ).getD i 0) = [1, -2, 2] := by
    norm_num [List.range_succ]
  have hJ : (List.range 3).map (fun i => ([1, 0, 3] : List ℝ).getD i 0) = [1, 0, 3] := by
    simp [List.range_succ]
  have hθ : ∀ θ : ℝ, (List.range 3).map (fun i => θ * ([1, 0, 3] : List ℝ).getD i 0 - ([0, 2, 1] : List ℝ).getD i 0)
      = [θ * 1 - 0, θ * 0 - 2, θ * 3 - 1] := fun θ => by
    simp [List.range_succ]
  have hpos : 0 < mseV ((List.range 3).map (fun i => (fun (i : ℕ) (θ : ℝ) =>
      θ * ([1, 0, 3] : List ℝ).getD i 0 - ([0, 2, 1] : List ℝ).getD i 0) i 1)) := by
    beta_reduce; rw [hr]; norm_num [mseV]
  refine ⟨?_, ?_, ?_, ?_⟩
  · obtain ⟨g, h1, -, h3⟩ := gradient_correct_mse 3 L _ _ 1 hρ
    rw [hr, hJ, eval_dmse _ _ _ _ (by simp)] at h1
    simp only [hθ] at h3
    convert h3 using 1
    rw [← Option.some_inj.1 h1]; norm_num
  · obtain ⟨g, h1, -, h3⟩ := gradient_correct_rmse 3 L _ _ 1 hρ hpos
    rw [hr, hJ, eval_drmse _ _ _ _ (by simp)] at h1
    simp only [hθ] at h3
    convert h3 using 1
    rw [← Option.some_inj.1 h1]; norm_num [mseV]
  · obtain ⟨g, h1, -, h3⟩ := gradient_correct_mae 3 L _ _ 1 hρ (fun i hi => by
      interval_cases i <;> norm_num)
    rw [hr, hJ, eval_dmae _ _ _ _ (by simp)] at h1
    simp only [hθ] at h3
    convert h3 using 1
    rw [← Option.some_inj.1 h1]; norm_num [Real.sign_of_neg, Real.sign_of_pos]
  · obtain ⟨g, h1, -, h3⟩ := gradient_correct_nmll 3 L _ _ 1 hρ hpos
    rw [hr, hJ, eval_dnmll _ _ _ _ (by simp)] at h1
    simp only [hθ] at h3
    convert h3 using 1
    rw [← Option.some_inj.1 h1]; norm_num [mseV]

end C07
end Bingo
