import Model.LocalOpt
import Model.Generated.Phases
/-!
# C06: local optimization leaves the individual and its reported fitness in agreement

The optimizer is an arbitrary oracle (`LocalOpt.Oracle`), so the theorems hold for every
behaviour of scipy; `base` is any deterministic base fitness as a function of the constants.
-/
namespace Bingo.C06
open Bingo LocalOpt

variable {V : Type}

/-- the value returned is the base fitness of the equation with exactly the constants it holds afterwards -/
theorem reported_is_base (base : List V → Key) (o : Oracle V) (e : Eqn V) :
    (call base o e).1 = base (call base o e).2.1.consts := by
  unfold call optimize
  split <;> (try split) <;> rfl

/-- afterwards the equation no longer requests optimization -/
theorem no_longer_needs (base : List V → Key) (o : Oracle V) (e : Eqn V) :
    (call base o e).2.1.needsOpt = false := by
  unfold call
  split
  · simp only [optimize]; split <;> simp
  · next h => simpa using h

/-- the number of stored constants equals the number of parameters (the optimizer returns a vector of
the length it was asked for) -/
theorem param_count (base : List V → Key) (o : Oracle V) (e : Eqn V)
    (hfinal : o.final.length = e.numParams) (hc : e.consts.length = e.numParams) :
    (call base o e).2.1.consts.length = e.numParams ∧ (call base o e).2.1.numParams = e.numParams := by
  unfold call
  split
  · simp only [optimize]
    split
    · next h0 => simp [h0]
    · exact ⟨hfinal, rfl⟩
  · exact ⟨hc, rfl⟩

/-- an equation that did not need optimization is evaluated with its constants untouched, once -/
theorem untouched (base : List V → Key) (o : Oracle V) (e : Eqn V) (h : e.needsOpt = false) :
    (call base o e).2.1 = e ∧ (call base o e).2.2 = 1 ∧ (call base o e).1 = base e.consts := by
  unfold call
  simp [h]

/-- the count of base-fitness invocations: one per trial of the optimizer plus the final evaluation -/
theorem call_count (base : List V → Key) (o : Oracle V) (e : Eqn V) :
    (call base o e).2.2 = if e.needsOpt ∧ e.numParams ≠ 0 then o.trials.length + o.jacCalls + 1 else 1 := by
  unfold call optimize
  by_cases h : e.needsOpt = true <;> by_cases h0 : e.numParams = 0 <;> simp [h, h0]

/-! ## re-fitting through the regressor wrapper -/

/-- invariant of the retry loop: the best pair so far is consistent and not worse than the first fit -/
def Inv (base : List V → Key) (f0 : Key) (acc : Key × List V × Eqn V) : Prop :=
  acc.1 = base acc.2.1 ∧ Key.lt f0 acc.1 = false

theorem lt_trans_false {a b c : Key} (hab : Key.lt a b = false) (hcb : Key.lt c b = true) :
    Key.lt a c = false := by
  cases a <;> cases b <;> cases c <;> simp_all [Key.lt] <;> omega

theorem fold_inv (base : List V → Key) (f0 : Key) (retries : List (Oracle V))
    (acc : Key × List V × Eqn V) (h : Inv base f0 acc) :
    Inv base f0 (retries.foldl (fun (acc : Key × List V × Eqn V) o =>
        let (bf, bc, cur) := acc
        let (f, cur', _) := call base o { cur with needsOpt := true }
        if Key.lt f bf then (f, cur'.consts, cur') else (bf, bc, cur')) acc) := by
  induction retries generalizing acc with
  | nil => simpa using h
  | cons o rest ih =>
    simp only [List.foldl_cons]
    apply ih
    obtain ⟨bf, bc, cur⟩ := acc
    simp only
    split
    · next hlt =>
      refine ⟨reported_is_base base o _, ?_⟩
      exact lt_trans_false h.2 hlt
    · exact h

/-- re-fitting never returns constants worse than those of the first fit, and the stored fitness is the
base fitness of the stored constants -/
theorem refit_not_worse (base : List V → Key) (first : Oracle V) (retries : List (Oracle V)) (e : Eqn V)
    (hp : e.numParams ≠ 0) :
    let r := refit base first retries e
    r.1 = base r.2.consts ∧ Key.lt (call base first e).1 r.1 = false ∧ r.2.needsOpt = false := by
  simp only [refit, hp, if_false]
  have h0 : Inv base (call base first e).1
      ((call base first e).1, (call base first e).2.1.consts, (call base first e).2.1) := by
    refine ⟨reported_is_base base first e, ?_⟩
    cases (call base first e).1 <;> simp [Key.lt]
  have := fold_inv base (call base first e).1 retries _ h0
  exact ⟨this.1, this.2, trivial⟩

/-- an equation without parameters is left alone by `fit` -/
theorem refit_no_params (base : List V → Key) (first : Oracle V) (retries : List (Oracle V)) (e : Eqn V)
    (hp : e.numParams = 0) : refit base first retries e = (base e.consts, e) := by
  simp [refit, hp]

/-! non-vacuity: a first fit of 5, retries giving NaN, 3, 4: the result is 3 with its own constants -/
example :
    refit (V := Int) (fun c => match c with | [x] => some x | _ => none)
      ⟨[[9],[5]], 0, [5]⟩ [⟨[], 0, []⟩, ⟨[[3]], 2, [3]⟩, ⟨[[4]], 0, [4]⟩] ⟨[1], true, 1⟩
      = (some 3, ⟨[3], false, 1⟩) := by decide

example : (call (V := Int) (fun c => some c.length) ⟨[[1,2],[3,4]], 1, [7,8]⟩ ⟨[0,0], true, 2⟩)
    = (some 2, ⟨[7,8], false, 2⟩, 4) := by decide


/-! ## the body of `EquationRegressor.fit` the model `refit` mirrors (regenerated from the source) -/

/-- first fit, then `fit_retries` re-fits with `_needs_opt` forced, a retry replaces the best only if it is
STRICTLY smaller under Python's float `<` (so a NaN never replaces anything and a NaN best is never replaced),
finally the best fitness and the best constants are stored -/
theorem gen_fit_shape : Gen.Phases.regressorFit = "if sample_weight is not None:     print('sample weight not None, TODO')     raise NotImplementedError ; if self.equation.get_number_local_optimization_params() == 0:     return ; fit_func = self._get_local_opt(X, y) ; best_fitness = fit_func(self.equation) ; best_constants = tuple(self.equation.constants) ; for _ in range(self.fit_retries):     self.equation._needs_opt = True     fitness = fit_func(self.equation)     if fitness < best_fitness:         best_fitness = fitness         best_constants = tuple(self.equation.constants) ; self.equation.fitness = best_fitness ; self.equation.set_local_optimization_params(best_constants)" := by rfl

/-- the invariant with the NaN-aware reading of "not worse": a first fit that is a number is never replaced by a NaN
or by a larger number -/
def Inv' (base : List V → Key) (f0 : Key) (acc : Key × List V × Eqn V) : Prop :=
  acc.1 = base acc.2.1 ∧ (∀ a, f0 = some a → ∃ b, acc.1 = some b ∧ b ≤ a)

theorem fold_inv' (base : List V → Key) (f0 : Key) (retries : List (Oracle V))
    (acc : Key × List V × Eqn V) (h : Inv' base f0 acc) :
    Inv' base f0 (retries.foldl (fun (acc : Key × List V × Eqn V) o =>
        let (bf, bc, cur) := acc
        let (f, cur', _) := call base o { cur with needsOpt := true }
        if Key.lt f bf then (f, cur'.consts, cur') else (bf, bc, cur')) acc) := by
  induction retries generalizing acc with
  | nil => simpa using h
  | cons o rest ih =>
    simp only [List.foldl_cons]
    apply ih
    obtain ⟨bf, bc, cur⟩ := acc
    simp only
    split
    · next hlt =>
      refine ⟨reported_is_base base o _, ?_⟩
      intro a ha
      obtain ⟨b, hb, hba⟩ := h.2 a ha
      simp only at hb
      subst hb
      cases hf : (call base o { cur with needsOpt := true }).1 with
      | none => rw [hf] at hlt; simp [Key.lt] at hlt
      | some c =>
        rw [hf] at hlt
        simp only [Key.lt, decide_eq_true_eq] at hlt
        exact ⟨c, rfl, by omega⟩
    · exact h

/-- "re-fitting never returns constants worse than those of its first fit", NaN included: if the first fit is a
number, the stored fitness is a number, not larger, and it is the base fitness of the stored constants -/
theorem refit_first_finite (base : List V → Key) (first : Oracle V) (retries : List (Oracle V)) (e : Eqn V)
    (hp : e.numParams ≠ 0) (a : Int) (ha : (call base first e).1 = some a) :
    ∃ b, (refit base first retries e).1 = some b ∧ b ≤ a ∧
      (refit base first retries e).1 = base (refit base first retries e).2.consts := by
  simp only [refit, hp, if_false]
  have h0 : Inv' base (call base first e).1
      ((call base first e).1, (call base first e).2.1.consts, (call base first e).2.1) := by
    refine ⟨reported_is_base base first e, ?_⟩
    intro a' ha'
    exact ⟨a', ha', Int.le_refl _⟩
  have := fold_inv' base (call base first e).1 retries _ h0
  obtain ⟨b, hb, hba⟩ := this.2 a ha
  exact ⟨b, hb, hba, this.1⟩

/-- non-vacuity: a first fit of 5, retries NaN, 7, 3: the result is 3; a NaN first fit stays NaN whatever follows
(the current code cannot recover from it: `x < nan` is false) -/
example :
    (refit (V := Int) (fun c => match c with | [x] => if x = 0 then none else some x | _ => none)
      ⟨[], 0, [5]⟩ [⟨[], 0, [0]⟩, ⟨[], 0, [7]⟩, ⟨[], 0, [3]⟩] ⟨[1], true, 1⟩).1 = some 3 := by decide
example :
    (refit (V := Int) (fun c => match c with | [x] => if x = 0 then none else some x | _ => none)
      ⟨[], 0, [0]⟩ [⟨[], 0, [2]⟩] ⟨[1], true, 1⟩).1 = none := by decide

end Bingo.C06
