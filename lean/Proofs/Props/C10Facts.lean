import Model.Generated.SourceFacts
/-!
# C10 -- the texts of `hall_of_fame.py` / `pareto_front.py` the models `HOF.update`, `HOF.insert`, `HOF.pfUpdate` mirror, regenerated from the source
-/
namespace Bingo
namespace C10Facts
open Gen.SourceFacts

/-- every member of the offered population is considered, in order; admission = not NaN and (not full or better than the worst) and not similar; insertion by `bisect_right` and eviction of the last entry -/
theorem gen_hall_of_fame :
    hofUpdate = "for item in population:     if self._item_should_be_added(item):         if len(self) >= self._max_size:             self.remove(-1)         self.insert(item)" ∧
    hofItemShouldBeAdded = "item_key = self._key_func(item) ; if np.isnan(item_key):     return False ; if not self:     return True ; if item_key <= self._keys[-1] or len(self) < self._max_size:     return self._not_similar(item) ; return False" ∧
    hofInsert = "item = deepcopy(item) ; item_key = self._key_func(item) ; index = bisect_right(self._keys, item_key) ; self._keys.insert(index, item_key) ; self._items.insert(index, item)" :=
  ⟨rfl, rfl, rfl⟩

/-- a candidate enters iff neither key is NaN, no member dominates it and it is similar to no member; the members it dominates leave first; domination is `<=` in both keys and `<` in one -/
theorem gen_pareto_front :
    pfUpdate = "for indv in population:     if self._not_dominated(indv) and self._not_similar(indv):         self._remove_dominated_pf_members(indv)         self.insert(indv)" ∧
    pfNotDominated = "if np.isnan(self._key_func(individual)) or np.isnan(self._key_func_2(individual)):     return False ; for hof_member in self:     if self._first_dominates(hof_member, individual):         return False ; return True" ∧
    pfFirstDominates = "first_keys = (self._key_func(first_indv), self._key_func_2(first_indv)) ; second_keys = (self._key_func(second_indv), self._key_func_2(second_indv)) ; if first_keys[0] > second_keys[0] or first_keys[1] > second_keys[1]:     return False ; not_equal = first_keys[0] != second_keys[0] or first_keys[1] != second_keys[1] ; return not_equal" :=
  ⟨rfl, rfl, rfl⟩

end C10Facts
end Bingo
