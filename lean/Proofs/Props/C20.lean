import Model.SavGol
import Model.Generated.Consts
import Proofs.Lemmas.SavGolWeights
import Proofs.Lemmas.SavGol
import Proofs.Lemmas.SavGolPartials
import Proofs.Lemmas.SavGolFitness
/-!
# C20 -- Savitzky–Golay partials and the implicit-regression fitness

"Every trajectory that is a polynomial of degree at most three in the sample index yields exactly
its derivative at the retained rows; the retained rows are the original rows minus the first three
and last four of each NaN-separated trajectory, and samples of one trajectory never influence
another.  The implicit regression fitness lies in [0, 1] or is infinite/NaN, is unchanged when the
equation is multiplied by a non-zero constant, and is zero for an exact invariant of the data."

Throughout `m = 3` (half window), `n = 3` (order), `s = 1` (derivative), `dropHead = 3`,
`dropTail = 4`; these are the literals at the call site, checked against the regenerated constants
by `gen_ok`.  Helper vocabulary (all in `Proofs/Lemmas/SavGolPartials.lean`, each pinned down by
a theorem of this file): `segBounds x` = the `[start, stop)` ranges between NaN rows (`segBounds_maximal`,
`segBounds_cover`), `retained x` (`retained_def`), `rowAt x k` = row `k` of `x`, `width x` =
`x.shape[1]`, `sgDeriv x k j` (`sgDeriv_def`).
-/
namespace Bingo
namespace C20
open SavGol

/-! ## 1. the constants at the call site -/

theorem gen_ok :
    Gen.Consts.SG_WINDOW = 7 ∧ Gen.Consts.SG_ORDER = 3 ∧ Gen.Consts.SG_DERIV = 1 ∧
      Gen.Consts.sgTrims = [("time_deriv", 3, 4), ("x_seg", 3, 4)] ∧
      Gen.Consts.sgIndexRanges
        = ["np.arange(start + 3, end - 4)", "np.arange(start + 3, end - 4)"] ∧
      Gen.Consts.problems = [] := by decide

/-! ## 2. the weight table -/

/-- the centred column of the weight table is the classical `[22,-67,-58,0,58,67,-22]/252` -/
theorem weights :
    (List.range 7).map (fun a => weight 3 3 1 a 3)
      = [11/126, -67/252, -29/126, 0, 29/126, 67/252, -11/126] := weights_centre

/-- moment identities: the centred filter maps `1, k, k², k³` to `0, 1, 0, 0` -/
theorem cubic_exact_centre :
    ∀ j ∈ ([0, 1, 2, 3] : List Nat),
      ((List.range 7).map fun a => weight 3 3 1 a 3 * ((a : Rat) - 3) ^ j).sum
        = if j = 1 then 1 else 0 := moments_centre

/-- also each asymmetric boundary column `b` is exact on cubics at its own point `b - 3` (not
needed below: boundary outputs are trimmed away) -/
theorem cubic_exact_boundary :
    ∀ b ∈ List.range 7, ∀ j ∈ ([0, 1, 2, 3] : List Nat),
      ((List.range 7).map fun a => weight 3 3 1 a b * ((a : Rat) - 3) ^ j).sum
        = (j : Rat) * ((b : Rat) - 3) ^ (j - 1) := moments_all

/-! ## 3. exactness on cubics -/

/-- for every cubic `p` and every centre `i` (any rational, in particular any integer):
`Σ_{a=0}^{6} w_a · p(i + a - 3) = p'(i)` -/
theorem cubic_exact (c0 c1 c2 c3 : Rat) (p : Rat → Rat)
    (hp : ∀ t, p t = c0 + c1 * t + c2 * t ^ 2 + c3 * t ^ 3) (i : Rat) :
    ((List.range 7).map fun a => weight 3 3 1 a 3 * p (i + (a : Rat) - 3)).sum
      = c1 + 2 * c2 * i + 3 * c3 * i ^ 2 := by
  simp only [hp]
  exact cubic_exact_rat c0 c1 c2 c3 i

theorem cubic_exact_int (c0 c1 c2 c3 : Rat) (p : Rat → Rat)
    (hp : ∀ t, p t = c0 + c1 * t + c2 * t ^ 2 + c3 * t ^ 3) (i : Int) :
    ((List.range 7).map fun a => weight 3 3 1 a 3 * p (((i + (a : Int) - 3 : Int) : Rat))).sum
      = c1 + 2 * c2 * i + 3 * c3 * (i : Rat) ^ 2 := by
  rw [← cubic_exact c0 c1 c2 c3 p hp (i : Rat)]
  congr 1
  apply List.map_congr_left
  intro a _
  push_cast
  rfl

/-! ## 4. `_savitzky_golay_gram` at interior indices -/

/-- on a series of at least 7 samples the filter succeeds, preserves the length, and every
interior output uses the centred column on the samples `i-3 … i+3` -/
theorem savgol_interior (y : List Rat) (h : 7 ≤ y.length) :
    ∃ out, savgol 3 3 1 y = some out ∧ out.length = y.length ∧
      ∀ i, 3 ≤ i → i + 3 < y.length →
        out[i]? = some ((List.range 7).map fun a => y.getD (i + a - 3) 0 * weight 3 3 1 a 3).sum :=
  ⟨_, savgol_eq_some 3 3 1 y h, by simp,
    fun i h1 h2 => savgol_getElem?_interior 3 3 1 y i h1 h2⟩

/-- a non-empty series shorter than the window raises (`IndexError`); the empty series is fine -/
theorem savgol_short (y : List Rat) (h0 : 0 < y.length) (h : y.length < 7) :
    savgol 3 3 1 y = none := savgol_eq_none 3 3 1 y h0 h

/-- samples of a cubic: the interior outputs are the exact derivative -/
theorem savgol_cubic (y : List Rat) (h : 7 ≤ y.length) (c0 c1 c2 c3 t0 : Rat)
    (hy : ∀ t, t < y.length →
      y.getD t 0 = c0 + c1 * (t0 + t) + c2 * (t0 + t) ^ 2 + c3 * (t0 + t) ^ 3) :
    ∃ out, savgol 3 3 1 y = some out ∧
      ∀ i, 3 ≤ i → i + 3 < y.length →
        out[i]? = some (c1 + 2 * c2 * (t0 + i) + 3 * c3 * (t0 + i) ^ 2) := by
  refine ⟨_, savgol_eq_some 3 3 1 y h, fun i h1 h2 => ?_⟩
  rw [savgol_getElem?_interior 3 3 1 y i h1 h2,
    conv_cubic y c0 c1 c2 c3 t0 i h1 (fun t ht1 ht2 => hy t (by omega))]

/-! ## 5. `_calculate_partials` -/

/-- `segBounds x` lists maximal NaN-free runs `[start, stop)` of rows … -/
theorem segBounds_maximal (x : List (Option (List Rat))) (p : Nat × Nat) (hp : p ∈ segBounds x) :
    p.1 ≤ p.2 ∧ p.2 ≤ x.length ∧ (∀ i, p.1 ≤ i → i < p.2 → ∃ r, x[i]? = some (some r)) ∧
      (p.2 < x.length → x[p.2]? = some none) ∧ (p.1 = 0 ∨ x[p.1 - 1]? = some none) :=
  segBounds_spec x p hp

/-- … and every non-NaN row lies in one of them -/
theorem segBounds_cover (x : List (Option (List Rat))) (i : Nat) (r : List Rat)
    (h : x[i]? = some (some r)) : ∃ p ∈ segBounds x, p.1 ≤ i ∧ i < p.2 :=
  SavGol.segBounds_cover x i r h

theorem retained_def (x : List (Option (List Rat))) :
    retained x = (segBounds x).flatMap fun p => List.range' (p.1 + 3) (p.2 - p.1 - 7) := rfl

theorem retained_mem (x : List (Option (List Rat))) (k : Nat) :
    k ∈ retained x ↔ ∃ p ∈ segBounds x, p.1 + 3 ≤ k ∧ k + 4 < p.2 := mem_retained

theorem sgDeriv_def (x : List (Option (List Rat))) (k j : Nat) :
    sgDeriv x k j
      = ((List.range 7).map fun a => (rowAt x (k + a - 3)).getD j 0 * weight 3 3 1 a 3).sum := rfl

/-- the loop over break points is the concatenation of the per-trajectory results (any
parameters, no hypothesis) -/
theorem partials_by_segment (m n : Nat) (s : Int) (dh dt : Nat) (x : List (Option (List Rat))) :
    calculatePartials m n s dh dt x
      = ((segBounds x).mapM fun p => segment m n s dh dt x p.1 p.2).map fun l =>
          (l.flatMap (·.1), l.flatMap (·.2.1), l.flatMap (·.2.2)) := by
  rw [calculatePartials_eq_segments]
  cases (segBounds x).mapM fun p => segment m n s dh dt x p.1 p.2 <;> simp [concat3]

/-- if every trajectory is empty or has at least 7 rows (in particular: at least 8), the call
succeeds; the retained indices are `[start+3, stop-4)` of each trajectory in order, the retained
`x` rows are the input rows at those indices, and each derivative entry is the centred filter on
rows `k-3 … k+3`, all of which lie in the same trajectory -/
theorem retained_rows (x : List (Option (List Rat)))
    (h : ∀ p ∈ segBounds x, p.2 - p.1 = 0 ∨ 7 ≤ p.2 - p.1) :
    calculatePartials 3 3 1 3 4 x
        = some (retained x, (retained x).map (rowAt x),
            (retained x).map fun k => (List.range (width x)).map fun j => sgDeriv x k j) ∧
      ∀ p ∈ segBounds x, ∀ k ∈ List.range' (p.1 + 3) (p.2 - p.1 - 7),
        p.1 + 3 ≤ k ∧ k + 4 < p.2 ∧ ∀ i, k - 3 ≤ i → i ≤ k + 3 → ∃ r, x[i]? = some (some r) :=
  ⟨calculatePartials_eq x h, fun _ hp _ hk => window_in_segment hp hk⟩

/-- single-trajectory form: any NaN-free block `[a, b)` of rows that is empty or has at least 7
rows -/
theorem retained_rows_segment (x : List (Option (List Rat))) (a b : Nat)
    (hsome : ∀ i, a ≤ i → i < b → ∃ r, x[i]? = some (some r)) (hL : b - a = 0 ∨ 7 ≤ b - a) :
    segment 3 3 1 3 4 x a b
      = some (List.range' (a + 3) (b - a - 7), (List.range' (a + 3) (b - a - 7)).map (rowAt x),
          (List.range' (a + 3) (b - a - 7)).map fun k =>
            (List.range (width x)).map fun j => sgDeriv x k j) :=
  segment_eq_x x a b hsome hL

/-- the result of one segment is a function of that segment's rows (and of the column count,
which numpy fixes globally) -/
theorem segments_independent (m n : Nat) (s : Int) (dh dt : Nat)
    (x x' : List (Option (List Rat))) (a b : Nat) (hw : width x = width x')
    (h : ∀ i, a ≤ i → i < b → x[i]? = x'[i]?) :
    segment m n s dh dt x a b = segment m n s dh dt x' a b :=
  segment_congr m n s dh dt x x' a b hw h

/-- row-level form: a retained row and its derivative depend on rows `k-3 … k+3` only -/
theorem retained_row_local (x x' : List (Option (List Rat))) (k : Nat) (hk : 3 ≤ k)
    (h : ∀ i, k - 3 ≤ i → i ≤ k + 3 → x[i]? = x'[i]?) :
    rowAt x k = rowAt x' k ∧ ∀ j, sgDeriv x k j = sgDeriv x' k j :=
  ⟨rowAt_congr (h k (by omega) (by omega)), fun j => sgDeriv_congr hk h j⟩

/-- if within every trajectory `p` every column `j` is a cubic in the row index, every retained
derivative row is the exact derivative -/
theorem partials_cubic (x : List (Option (List Rat)))
    (h : ∀ p ∈ segBounds x, p.2 - p.1 = 0 ∨ 7 ≤ p.2 - p.1)
    (c0 c1 c2 c3 : Nat × Nat → Nat → Rat)
    (hx : ∀ p ∈ segBounds x, ∀ k, p.1 ≤ k → k < p.2 → ∀ j, j < width x →
      (rowAt x k).getD j 0
        = c0 p j + c1 p j * k + c2 p j * (k : Rat) ^ 2 + c3 p j * (k : Rat) ^ 3) :
    calculatePartials 3 3 1 3 4 x
      = some (retained x, (retained x).map (rowAt x),
          (segBounds x).flatMap fun p => (List.range' (p.1 + 3) (p.2 - p.1 - 7)).map
            fun (k : Nat) => (List.range (width x)).map fun j =>
              c1 p j + 2 * c2 p j * k + 3 * c3 p j * (k : Rat) ^ 2) :=
  calculatePartials_cubic x h c0 c1 c2 c3 hx

/-- single-entry form: a column that is cubic on rows `k-3 … k+3` -/
theorem partials_cubic_entry (x : List (Option (List Rat))) (k j : Nat) (hk : 3 ≤ k)
    (c0 c1 c2 c3 : Rat)
    (hx : ∀ t, k - 3 ≤ t → t ≤ k + 3 →
      (rowAt x t).getD j 0 = c0 + c1 * t + c2 * (t : Rat) ^ 2 + c3 * (t : Rat) ^ 3) :
    sgDeriv x k j = c1 + 2 * c2 * k + 3 * c3 * (k : Rat) ^ 2 :=
  sgDeriv_cubic x k j hk c0 c1 c2 c3 hx

/-! ## 6. the implicit-regression fitness -/

/-- a finite row lies in `[-1, 1]` -/
theorem fitness_range (dot : List Rat) (r : Rat) (h : implicitRow dot = some r) :
    -1 ≤ r ∧ r ≤ 1 := implicitRow_range h

/-- a row is non-finite (0/0) exactly when every term vanishes -/
theorem fitness_nonfinite (dot : List Rat) :
    (implicitRow dot = none ↔ (dot.map fun d => |d|).sum = 0) ∧
      ((dot.map fun d => |d|).sum = 0 ↔ ∀ d ∈ dot, d = 0) :=
  ⟨implicitRow_none_iff dot, sum_abs_eq_zero_iff dot⟩

/-- multiplying the equation by `α ≠ 0` multiplies each row by `sign α`: the absolute value is
unchanged, for `α > 0` the row itself is unchanged, for `α < 0` it is negated -/
theorem scale_invariant (dot : List Rat) (α : Rat) (hα : α ≠ 0) :
    (implicitRow (dot.map (α * ·))).map (fun r => |r|) = (implicitRow dot).map (fun r => |r|) ∧
      (0 < α → implicitRow (dot.map (α * ·)) = implicitRow dot) ∧
      (α < 0 → implicitRow (dot.map (α * ·)) = (implicitRow dot).map fun r => -r) :=
  ⟨implicitRow_scale_abs dot α hα, implicitRow_scale_pos dot α, implicitRow_scale_neg dot α⟩

/-- an exact invariant (`Σ_j ∂f/∂x_j · dx_j/dt = 0`, not all terms zero) gives a zero row -/
theorem zero_on_invariant (dot : List Rat) (hs : dot.sum = 0) (hne : ¬ ∀ d ∈ dot, d = 0) :
    implicitRow dot = some 0 := implicitRow_zero hs hne

theorem zero_row_iff (dot : List Rat) :
    implicitRow dot = some 0 ↔ dot.sum = 0 ∧ ¬ ∀ d ∈ dot, d = 0 := implicitRow_eq_zero_iff

theorem fitnessMae_def (rows : List (List Rat)) :
    fitnessMae rows
      = (rows.mapM implicitRow).bind fun rs =>
          if rs = [] then none else some ((rs.map fun r => |r|).sum / (rs.length : Rat)) := rfl

/-- the mean absolute error of finite rows lies in `[0, 1]` -/
theorem mae_range (rows : List (List Rat)) (f : Rat) (h : fitnessMae rows = some f) :
    0 ≤ f ∧ f ≤ 1 := fitnessMae_range h

/-- it is non-finite exactly when there are no rows or some row is identically zero -/
theorem mae_nonfinite (rows : List (List Rat)) :
    fitnessMae rows = none ↔ rows = [] ∨ ∃ dot ∈ rows, ∀ d ∈ dot, d = 0 :=
  fitnessMae_none_iff rows

/-- the fitness (mae) is unchanged when the equation is multiplied by a non-zero constant -/
theorem mae_scale_invariant (rows : List (List Rat)) (α : Rat) (hα : α ≠ 0) :
    fitnessMae (rows.map fun dot => dot.map (α * ·)) = fitnessMae rows :=
  fitnessMae_scale rows α hα

/-- … and is zero for an exact invariant of the data -/
theorem mae_zero_on_invariant (rows : List (List Rat)) (hne : rows ≠ [])
    (h : ∀ dot ∈ rows, dot.sum = 0 ∧ ¬ ∀ d ∈ dot, d = 0) : fitnessMae rows = some 0 :=
  fitnessMae_zero hne h

/-! ## 7. non-vacuity -/

/-- one trajectory `x = i³`, `i = 0 … 9`: rows 3, 4, 5 are kept, derivative `3 i²` exactly -/
example :
    calculatePartials 3 3 1 3 4
      [some [0], some [1], some [8], some [27], some [64], some [125], some [216], some [343],
        some [512], some [729]]
      = some ([3, 4, 5], [[27], [64], [125]], [[27], [48], [75]]) := by decide +kernel

example :
    segBounds [some [0], some [1], some [8], some [27], some [64], some [125], some [216],
      some [343], some [512], some [729]] = [(0, 10)] := by decide +kernel

/-- two trajectories separated by a NaN row: `(i², 1 - i)` on rows 0–7 and `(t³ - 5, 2t)`,
`t = i - 9`, on rows 9–17 -/
example :
    calculatePartials 3 3 1 3 4
      [some [0, 1], some [1, 0], some [4, -1], some [9, -2], some [16, -3], some [25, -4],
        some [36, -5], some [49, -6], none,
        some [-5, 0], some [-4, 2], some [3, 4], some [22, 6], some [59, 8], some [120, 10],
        some [211, 12], some [338, 14], some [507, 16]]
      = some ([3, 12, 13], [[9, -2], [22, 6], [59, 8]], [[6, -1], [27, 2], [48, 2]]) := by
  decide +kernel

example :
    segBounds
      [some [0, 1], some [1, 0], some [4, -1], some [9, -2], some [16, -3], some [25, -4],
        some [36, -5], some [49, -6], none,
        some [-5, 0], some [-4, 2], some [3, 4], some [22, 6], some [59, 8], some [120, 10],
        some [211, 12], some [338, 14], some [507, 16]] = [(0, 8), (9, 18)] := by decide +kernel

/-- a trajectory of 1–6 rows makes the whole call raise; 7 rows or 0 rows retain nothing -/
example :
    calculatePartials 3 3 1 3 4 [some [0], some [1], some [8], some [27], some [64], some [125]]
      = none := by decide +kernel

example :
    calculatePartials 3 3 1 3 4
      [some [0], some [1], some [8], some [27], some [64], some [125], some [216]]
      = some ([], [], []) := by decide +kernel

example : calculatePartials 3 3 1 3 4 [none, none] = some ([], [], []) := by decide +kernel

/-- the column-count hypothesis of `segments_independent` is needed for ragged input: the two
inputs agree on rows 8–14 but the first non-NaN row has a different length -/
example :
    segment 3 3 1 3 4
        ([some [0], some [0], some [0], some [0], some [0], some [0], some [0], none] ++
          [some [0, 0], some [1, 1], some [2, 2], some [3, 3], some [4, 4], some [5, 5],
            some [6, 6], some [7, 7]]) 8 16
      ≠ segment 3 3 1 3 4
        ([some [0, 0], some [0, 0], some [0, 0], some [0, 0], some [0, 0], some [0, 0],
            some [0, 0], none] ++
          [some [0, 0], some [1, 1], some [2, 2], some [3, 3], some [4, 4], some [5, 5],
            some [6, 6], some [7, 7]]) 8 16 := by decide +kernel

/-- fitness rows -/
example : implicitRow [1, -1] = some 0 := by decide +kernel
example : implicitRow [3, -1] = some (1 / 2) := by decide +kernel
example : implicitRow [-3, 1] = some (-1 / 2) := by decide +kernel
example : implicitRow [0, 0] = none := by decide +kernel
example : fitnessMae [[3, -1], [-3, 1]] = some (1 / 2) := by decide +kernel
example : fitnessMae [[1, -1], [2, -2]] = some 0 := by decide +kernel

/-! ## the `required_params` guard of `ImplicitRegression.evaluate_fitness_vector` -/

/-- without the option, or when SOME row uses at least `req` terms, the vector is the row-wise normalised fitness; when
no row does, every entry is infinite -/
theorem required_guard (req : Nat) (dots : List (List Rat)) :
    implicitVector none dots = dots.map implicitRow ∧
    (enoughParams req dots = true → implicitVector (some req) dots = dots.map implicitRow) ∧
    (enoughParams req dots = false → implicitVector (some req) dots = dots.map fun _ => none) ∧
    (enoughParams req dots = true ↔ ∃ row ∈ dots, req ≤ (row.filter (· ≠ 0)).length) := by
  refine ⟨rfl, fun h => by simp [implicitVector, h], fun h => by simp [implicitVector, h], ?_⟩
  simp [enoughParams]

/-- hence an exact invariant keeps fitness zero at its rows as soon as one row (any row) uses enough terms -/
theorem zero_on_invariant_required (req : Nat) (dots : List (List Rat)) (i : Nat) (dot : List Rat)
    (hi : dots[i]? = some dot) (hs : dot.sum = 0) (hne : ¬ ∀ d ∈ dot, d = 0)
    (henough : ∃ row ∈ dots, req ≤ (row.filter (· ≠ 0)).length) :
    (implicitVector (some req) dots)[i]? = some (some 0) := by
  rw [((required_guard req dots).2.1 ((required_guard req dots).2.2.2.mpr henough))]
  rw [List.getElem?_map, hi]
  simp [zero_on_invariant dot hs hne]

/-- non-vacuity: one row with three terms lets the two-term invariant row through -/
example : implicitVector (some 3) [[1, -1, 0], [1, 1, 2]] = [some 0, some 1] ∧
    implicitVector (some 3) [[1, -1, 0], [1, 1, 0]] = [none, none] := by decide +kernel

end C20
end Bingo
