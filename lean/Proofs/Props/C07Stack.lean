import Proofs.Props.C02
import Proofs.Props.C07Rel
/-!
# C07 ∘ C02: from the command stack to the fitness gradient

`C07.explicit_gradient_*` take as hypothesis that the Jacobian handed to the metric derivative
holds the partial derivatives of the equation's values (`hf`).  `C02.gradient_correct_c` proves
exactly that for the reverse sweep of `evaluate_with_derivative`.  The theorems below discharge the
hypothesis: for a well-formed stack `s`, data rows `X i`, targets `y i`, constants `c` and a
constant index `j`, the number that `get_fitness_and_gradient` returns in slot `j` -- the metric
derivative applied to the residual and to column `j` of the Jacobian assembled from the model's
`Eval.evalWithDeriv s (X i) c false` -- is the derivative, with respect to constant `j`, of the
fitness of the equation that the stack encodes (`Eval.evalLast`, which is the mathematical value of
the expression by C01), in the absolute and in the relative mode.

Side conditions: every row of the stack is evaluated at a point where its operator is
differentiable (`RowsDifferentiable`, as in C02), plus the metric's own condition.
-/
namespace Bingo
namespace C07
open Bingo.Metrics AD

/-- value of the equation at data row `xi` with constant `j` replaced by `θ` -/
noncomputable def eqVal (s : Stack) (xi c : List ℝ) (j : ℕ) (θ : ℝ) : ℝ :=
  (Eval.evalLast s xi (c.set j θ)).getD 0

/-- entry `j` of the constant-gradient row returned by `evaluate_with_derivative` at row `xi` -/
noncomputable def jacEntry (s : Stack) (xi c : List ℝ) (j : ℕ) : ℝ :=
  ((Eval.evalWithDeriv s xi c false).map (fun p => p.2.getD j 0)).getD 0

/-- the Jacobian entries are the partial derivatives of the equation's values (C02), and the value
returned next to them is the equation's value -/
theorem jacEntry_hasDerivAt {D L : ℕ} {s : Stack} (hwf : WF.WFEval D L s) (xi c : List ℝ)
    (hx : xi.length = D) (hc : c.length = L) (j : ℕ) (hj : j < L)
    (hdiff : RowsDifferentiable s xi c) :
    HasDerivAt (eqVal s xi c j) (jacEntry s xi c j) (c[j]'(by omega)) ∧
    ∃ v d, Eval.evalWithDeriv s xi c false = some (v, d) ∧
      v = eqVal s xi c j (c[j]'(by omega)) ∧ d.length = L := by
  obtain ⟨v, d, he, hd, hder⟩ := C02.gradient_correct_c hwf xi c hx hc j hj hdiff
  have hje : jacEntry s xi c j = d[j]'(by omega) := by
    simp [jacEntry, he, List.getD_eq_getElem?_getD, hd, hj]
  refine ⟨by rw [hje]; exact hder, v, d, he, ?_, hd⟩
  have hjc : j < c.length := by omega
  simp only [eqVal, List.set_getElem_self hjc, C02.value_same he, Option.getD_some]

/-- MSE, absolute and relative mode, from the stack: no side condition beyond C02's. -/
theorem stack_gradient_mse {D L : ℕ} {s : Stack} (hwf : WF.WFEval D L s) (M : ℕ)
    (X : ℕ → List ℝ) (y : ℕ → ℝ) (c : List ℝ) (hX : ∀ i < M, (X i).length = D)
    (hc : c.length = L) (j : ℕ) (hj : j < L) (hdiff : ∀ i < M, RowsDifferentiable s (X i) c) :
    (∃ g, VFun.eval Gen.Metrics.dmse
          (absRes M (fun i => eqVal s (X i) c j (c[j]'(by omega))) y)
          ((List.range M).map (fun i => jacEntry s (X i) c j)) L Real.pi = some g ∧
        HasDerivAt (fun θ => (VFun.eval Gen.Metrics.mse
          (absRes M (fun i => eqVal s (X i) c j θ) y) [] L Real.pi).getD 0) g (c[j]'(by omega))) ∧
    (∃ g, VFun.eval Gen.Metrics.dmse
          (relRes M (fun i => eqVal s (X i) c j (c[j]'(by omega))) y)
          (relJac M (fun i => jacEntry s (X i) c j) y) L Real.pi = some g ∧
        HasDerivAt (fun θ => (VFun.eval Gen.Metrics.mse
          (relRes M (fun i => eqVal s (X i) c j θ) y) [] L Real.pi).getD 0) g (c[j]'(by omega))) :=
  explicit_gradient_mse M L (fun i => eqVal s (X i) c j) (fun i => jacEntry s (X i) c j) y _
    (fun i hi => (jacEntry_hasDerivAt hwf (X i) c (hX i hi) hc j hj (hdiff i hi)).1)

/-- RMSE, both modes, from the stack, where that mode's mean squared residual is positive. -/
theorem stack_gradient_rmse {D L : ℕ} {s : Stack} (hwf : WF.WFEval D L s) (M : ℕ)
    (X : ℕ → List ℝ) (y : ℕ → ℝ) (c : List ℝ) (hX : ∀ i < M, (X i).length = D)
    (hc : c.length = L) (j : ℕ) (hj : j < L) (hdiff : ∀ i < M, RowsDifferentiable s (X i) c) :
    (0 < mseV (absRes M (fun i => eqVal s (X i) c j (c[j]'(by omega))) y) →
      ∃ g, VFun.eval Gen.Metrics.drmse
          (absRes M (fun i => eqVal s (X i) c j (c[j]'(by omega))) y)
          ((List.range M).map (fun i => jacEntry s (X i) c j)) L Real.pi = some g ∧
        HasDerivAt (fun θ => (VFun.eval Gen.Metrics.rmse
          (absRes M (fun i => eqVal s (X i) c j θ) y) [] L Real.pi).getD 0) g (c[j]'(by omega))) ∧
    (0 < mseV (relRes M (fun i => eqVal s (X i) c j (c[j]'(by omega))) y) →
      ∃ g, VFun.eval Gen.Metrics.drmse
          (relRes M (fun i => eqVal s (X i) c j (c[j]'(by omega))) y)
          (relJac M (fun i => jacEntry s (X i) c j) y) L Real.pi = some g ∧
        HasDerivAt (fun θ => (VFun.eval Gen.Metrics.rmse
          (relRes M (fun i => eqVal s (X i) c j θ) y) [] L Real.pi).getD 0) g (c[j]'(by omega))) :=
  explicit_gradient_rmse M L (fun i => eqVal s (X i) c j) (fun i => jacEntry s (X i) c j) y _
    (fun i hi => (jacEntry_hasDerivAt hwf (X i) c (hX i hi) hc j hj (hdiff i hi)).1)

/-- MAE, both modes, from the stack, where no residual component of that mode vanishes. -/
theorem stack_gradient_mae {D L : ℕ} {s : Stack} (hwf : WF.WFEval D L s) (M : ℕ)
    (X : ℕ → List ℝ) (y : ℕ → ℝ) (c : List ℝ) (hX : ∀ i < M, (X i).length = D)
    (hc : c.length = L) (j : ℕ) (hj : j < L) (hdiff : ∀ i < M, RowsDifferentiable s (X i) c) :
    ((∀ i < M, eqVal s (X i) c j (c[j]'(by omega)) - y i ≠ 0) →
      ∃ g, VFun.eval Gen.Metrics.dmae
          (absRes M (fun i => eqVal s (X i) c j (c[j]'(by omega))) y)
          ((List.range M).map (fun i => jacEntry s (X i) c j)) L Real.pi = some g ∧
        HasDerivAt (fun θ => (VFun.eval Gen.Metrics.mae
          (absRes M (fun i => eqVal s (X i) c j θ) y) [] L Real.pi).getD 0) g (c[j]'(by omega))) ∧
    ((∀ i < M, (eqVal s (X i) c j (c[j]'(by omega)) - y i) / y i ≠ 0) →
      ∃ g, VFun.eval Gen.Metrics.dmae
          (relRes M (fun i => eqVal s (X i) c j (c[j]'(by omega))) y)
          (relJac M (fun i => jacEntry s (X i) c j) y) L Real.pi = some g ∧
        HasDerivAt (fun θ => (VFun.eval Gen.Metrics.mae
          (relRes M (fun i => eqVal s (X i) c j θ) y) [] L Real.pi).getD 0) g (c[j]'(by omega))) :=
  explicit_gradient_mae M L (fun i => eqVal s (X i) c j) (fun i => jacEntry s (X i) c j) y _
    (fun i hi => (jacEntry_hasDerivAt hwf (X i) c (hX i hi) hc j hj (hdiff i hi)).1)

/-- NMLL, both modes, from the stack, where that mode's mean squared residual is positive. -/
theorem stack_gradient_nmll {D L : ℕ} {s : Stack} (hwf : WF.WFEval D L s) (M : ℕ)
    (X : ℕ → List ℝ) (y : ℕ → ℝ) (c : List ℝ) (hX : ∀ i < M, (X i).length = D)
    (hc : c.length = L) (j : ℕ) (hj : j < L) (hdiff : ∀ i < M, RowsDifferentiable s (X i) c) :
    (0 < mseV (absRes M (fun i => eqVal s (X i) c j (c[j]'(by omega))) y) →
      ∃ g, VFun.eval Gen.Metrics.dnmll
          (absRes M (fun i => eqVal s (X i) c j (c[j]'(by omega))) y)
          ((List.range M).map (fun i => jacEntry s (X i) c j)) L Real.pi = some g ∧
        HasDerivAt (fun θ => (VFun.eval Gen.Metrics.nmll
          (absRes M (fun i => eqVal s (X i) c j θ) y) [] L Real.pi).getD 0) g (c[j]'(by omega))) ∧
    (0 < mseV (relRes M (fun i => eqVal s (X i) c j (c[j]'(by omega))) y) →
      ∃ g, VFun.eval Gen.Metrics.dnmll
          (relRes M (fun i => eqVal s (X i) c j (c[j]'(by omega))) y)
          (relJac M (fun i => jacEntry s (X i) c j) y) L Real.pi = some g ∧
        HasDerivAt (fun θ => (VFun.eval Gen.Metrics.nmll
          (relRes M (fun i => eqVal s (X i) c j θ) y) [] L Real.pi).getD 0) g (c[j]'(by omega))) :=
  explicit_gradient_nmll M L (fun i => eqVal s (X i) c j) (fun i => jacEntry s (X i) c j) y _
    (fun i hi => (jacEntry_hasDerivAt hwf (X i) c (hX i hi) hc j hj (hdiff i hi)).1)

/-! ## non-vacuity: `C_0 * X_0 + C_1` (rows: X_0, C_0, C_1, C_0*X_0, that + C_1), three data rows,
constant index `1`: all hypotheses of `stack_gradient_mse` hold for every data set -/
example (x0 x1 x2 y0 y1 y2 a b : ℝ) :
    let s : Stack := [⟨0,0,0⟩, ⟨1,0,0⟩, ⟨1,1,1⟩, ⟨4,1,0⟩, ⟨2,3,2⟩]
    let X : ℕ → List ℝ := fun i => [[x0], [x1], [x2]].getD i [0]
    let y : ℕ → ℝ := fun i => [y0, y1, y2].getD i 0
    ∃ g, VFun.eval Gen.Metrics.dmse
          (absRes 3 (fun i => eqVal s (X i) [a, b] 1 b) y)
          ((List.range 3).map (fun i => jacEntry s (X i) [a, b] 1)) 2 Real.pi = some g ∧
        HasDerivAt (fun θ => (VFun.eval Gen.Metrics.mse
          (absRes 3 (fun i => eqVal s (X i) [a, b] 1 θ) y) [] 2 Real.pi).getD 0) g b := by
  intro s X y
  have h := (stack_gradient_mse (D := 1) (L := 2) (s := s) (by decide) 3 X y [a, b]
    (by intro i hi; interval_cases i <;> rfl) rfl 1 (by decide)
    (fun i _ => rowsDifferentiable_of_smooth (by decide))).1
  simpa using h

end C07
end Bingo
