import Proofs.Lemmas.ReduceWF
/-!
# C03 (reduction part) and C01's "unused commands never influence the result"

`Reduce.utilized` mirrors `get_utilized_commands`, `Reduce.reduce` mirrors `reduce_stack`,
`Renumber.renumber` mirrors the constant renumbering of `AGraph._update`, `Eval.evalLast` mirrors
`evaluate` at one data row.  `α` is any `Scalar` (so also the binary64 instance the driver runs).

The exact statement "`evalLast r x c = evalLast s x c` for all `x c`" is FALSE in one corner
(see the counterexample `example`s at the end): an *unused* CONSTANT row of `s` whose index is
out of range of `c` makes Python's `_forward_eval` of `s` raise, while the reduced stack, which
no longer has the row, evaluates.  What is true, and proved here:
* `reduce_eval_of_some`: whatever `s` evaluates to, `r` evaluates to the same value;
* `reduce_eval`: full equality as soon as the loads of the dropped terminal rows succeed;
* `reduce_eval_wfeval`: under `WFEval D L s`, `x.length = D`, `c.length = L` both are `some` and equal.
-/
namespace Bingo.C03
open Reduce ReduceLemmas

variable {D : Nat} {ops : List Int} {s : Stack}

/-! ## 1. `get_utilized_commands` succeeds -/

theorem utilized_some (h : WF.WFGenome D ops s) :
    ∃ u, Reduce.utilized s = some u ∧ u.length = s.length ∧ u.getLast? = some true := by
  obtain ⟨u, hu, hinv⟩ := utilized_inv (wf_rows h)
  refine ⟨u, hu, hinv.len, ?_⟩
  rw [List.getLast?_eq_getElem?, hinv.len]; exact hinv.last

/-! ## 2. the mask is exactly reachability from the last row -/

theorem utilized_iff_reach' (h : WF.WFGenome D ops s) {u : List Bool}
    (hu : Reduce.utilized s = some u) (i : Nat) : u[i]? = some true ↔ Reach s i := by
  obtain ⟨u0, hu0, hinv⟩ := utilized_inv (wf_rows h)
  rw [hu] at hu0; cases hu0
  exact ⟨hinv.sound i, hinv.complete (wf_rows h) i⟩

theorem utilized_iff_reach (h : WF.WFGenome D ops s) {u : List Bool}
    (hu : Reduce.utilized s = some u) (i : Nat) (hi : i < u.length) :
    u[i] = true ↔ Reach s i := by
  rw [← utilized_iff_reach' h hu i, List.getElem?_eq_getElem hi]; simp

/-! ## 3. `reduce_stack` succeeds; its length is the number of utilized rows -/

theorem reduce_some (h : WF.WFGenome D ops s) : ∃ r, Reduce.reduce s = some r := by
  obtain ⟨_, r, _, hr, _⟩ := reduce_isReduction (wf_rows h)
  exact ⟨r, hr⟩

theorem reduce_length (h : WF.WFGenome D ops s) {u : List Bool} {r : Stack}
    (hu : Reduce.utilized s = some u) (hr : Reduce.reduce s = some r) :
    r.length = (u.filter id).length := by
  obtain ⟨u0, r0, hu0, hr0, _, hred⟩ := reduce_isReduction (wf_rows h)
  rw [hu] at hu0; cases hu0
  rw [hr] at hr0; cases hr0
  rw [hred.rlen, ← hred.ulen, pos_length]

/-- "its length is the number of commands the result depends on" -/
theorem reduce_length_reach (h : WF.WFGenome D ops s) {r : Stack}
    (hr : Reduce.reduce s = some r) :
    ∃ u : List Bool, u.length = s.length ∧ (∀ i, u[i]? = some true ↔ Reach s i) ∧
      r.length = (u.filter id).length := by
  obtain ⟨u, hu, hl, _⟩ := utilized_some h
  exact ⟨u, hl, utilized_iff_reach' h hu, reduce_length h hu hr⟩

/-! ## 5. the reduced stack evaluates identically -/

section eval
variable {α : Type} [Scalar α]

/-- whatever the original stack evaluates to, the reduced stack evaluates to the same value -/
theorem reduce_eval_of_some (h : WF.WFGenome D ops s) {r : Stack}
    (hr : Reduce.reduce s = some r) {x c : List α} {v : α}
    (hv : Eval.evalLast s x c = some v) : Eval.evalLast r x c = some v := by
  obtain ⟨_, r0, _, hr0, _, hred⟩ := reduce_isReduction (wf_rows h)
  rw [hr] at hr0; cases hr0
  exact evalLast_reduce_of_some hred hv

/-- if the loads of the dropped terminal rows succeed at `x c`, the reduced stack evaluates
identically (both sides are `none` exactly when a load of a *utilized* row fails) -/
theorem reduce_eval (h : WF.WFGenome D ops s) {u : List Bool} {r : Stack}
    (hu : Reduce.utilized s = some u) (hr : Reduce.reduce s = some r) {x c : List α}
    (hload : UnusedLoad u s x c) : Eval.evalLast r x c = Eval.evalLast s x c := by
  obtain ⟨u0, r0, hu0, hr0, _, hred⟩ := reduce_isReduction (wf_rows h)
  rw [hu] at hu0; cases hu0
  rw [hr] at hr0; cases hr0
  exact evalLast_reduce hred hload

/-- the evaluation backend's precondition: both evaluate, to the same value -/
theorem reduce_eval_wfeval {L : Nat} (h : WF.WFEval D L s) {r : Stack}
    (hr : Reduce.reduce s = some r) {x c : List α} (hx : x.length = D) (hc : c.length = L) :
    ∃ v, Eval.evalLast s x c = some v ∧ Eval.evalLast r x c = some v := by
  obtain ⟨_, r0, _, hr0, _, hred⟩ := reduce_isReduction (wf_rows h)
  rw [hr] at hr0; cases hr0
  obtain ⟨v, hv⟩ := evalLast_isSome_of_loads (wf_rows h) (wfeval_loads h hx hc)
  exact ⟨v, hv, evalLast_reduce_of_some hred hv⟩

end eval

/-! ## 4. the reduced stack is well formed and has no unused row -/

theorem reduce_wf (h : WF.WFGenome D ops s) {r : Stack} (hr : Reduce.reduce s = some r) :
    WF.WFGenome D ops r := by
  obtain ⟨_, r0, _, hr0, _, hred⟩ := reduce_isReduction (wf_rows h)
  rw [hr] at hr0; cases hr0
  exact reduce_wf_of h hred

theorem reduce_wfeval {L : Nat} (h : WF.WFEval D L s) {r : Stack} (hr : Reduce.reduce s = some r) :
    WF.WFEval D L r := by
  obtain ⟨_, r0, _, hr0, _, hred⟩ := reduce_isReduction (wf_rows h)
  rw [hr] at hr0; cases hr0
  exact reduce_wf_of h hred

/-- in particular every operator parameter of the reduced stack points strictly below its row -/
theorem reduce_params_below (h : WF.WFGenome D ops s) {r : Stack} (hr : Reduce.reduce s = some r)
    (j : Nat) (cmd : Cmd) (hj : r[j]? = some cmd) (ht : Ops.isTerminal cmd.node = some false) :
    0 ≤ cmd.p1 ∧ cmd.p1 < j ∧ 0 ≤ cmd.p2 ∧ cmd.p2 < j := by
  cases (wf_rows (reduce_wf h hr)).kind j cmd hj with
  | term ht' _ => rw [ht] at ht'; cases ht'
  | op b _ _ h10 h1 h20 h2 => exact ⟨h10, h1, h20, h2⟩

theorem reduce_all_used (h : WF.WFGenome D ops s) {r : Stack} (hr : Reduce.reduce s = some r) :
    Reduce.utilized r = some (List.replicate r.length true) := by
  obtain ⟨_, r0, _, hr0, hinv, hred⟩ := reduce_isReduction (wf_rows h)
  rw [hr] at hr0; cases hr0
  exact reduce_all_used_of hred hinv (wf_rows (reduce_wf_of h hred))

/-! ## 6. rows the last row does not depend on never influence the result -/

/-- two stacks that agree on the utilized rows have the same reduction (no well-formedness
needed) -/
theorem reduce_eq_of_agree {s' : Stack} {u : List Bool} (hu : Reduce.utilized s = some u)
    (hu' : Reduce.utilized s' = some u) (hl : s.length = s'.length)
    (hag : ∀ i : Nat, u[i]? = some true → s[i]? = s'[i]?) :
    Reduce.reduce s = Reduce.reduce s' :=
  reduce_congr hu hu' hl hag

/-- the hypothesis "same mask" is redundant: agreeing on the utilized rows of `s` is enough -/
theorem utilized_eq_of_agree {s' : Stack} {u : List Bool} (h : WF.WFGenome D ops s)
    (h' : WF.WFGenome D ops s') (hu : Reduce.utilized s = some u) (hl : s.length = s'.length)
    (hag : ∀ i : Nat, u[i]? = some true → s[i]? = s'[i]?) : Reduce.utilized s' = some u :=
  ReduceLemmas.utilized_eq_of_agree (wf_rows h) (wf_rows h') hu hl hag

section eval
variable {α : Type} [Scalar α]

/-- whenever both evaluate, they evaluate to the same value -/
theorem unused_irrelevant_of_some {s' : Stack} {u : List Bool} (h : WF.WFGenome D ops s)
    (h' : WF.WFGenome D ops s') (hu : Reduce.utilized s = some u)
    (hu' : Reduce.utilized s' = some u) (hl : s.length = s'.length)
    (hag : ∀ i : Nat, u[i]? = some true → s[i]? = s'[i]?) {x c : List α} {v v' : α}
    (hv : Eval.evalLast s x c = some v) (hv' : Eval.evalLast s' x c = some v') : v = v' := by
  obtain ⟨r, hr⟩ := reduce_some h
  have hr' : Reduce.reduce s' = some r := by rw [← reduce_eq_of_agree hu hu' hl hag]; exact hr
  have e1 := reduce_eval_of_some h hr hv
  have e2 := reduce_eval_of_some h' hr' hv'
  rw [e1] at e2; exact Option.some.inj e2

/-- full equality when the loads of the unused terminal rows of both stacks succeed -/
theorem unused_irrelevant {s' : Stack} {u : List Bool} (h : WF.WFGenome D ops s)
    (h' : WF.WFGenome D ops s') (hu : Reduce.utilized s = some u)
    (hu' : Reduce.utilized s' = some u) (hl : s.length = s'.length)
    (hag : ∀ i : Nat, u[i]? = some true → s[i]? = s'[i]?) {x c : List α}
    (hload : UnusedLoad u s x c) (hload' : UnusedLoad u s' x c) :
    Eval.evalLast s x c = Eval.evalLast s' x c := by
  obtain ⟨r, hr⟩ := reduce_some h
  have hr' : Reduce.reduce s' = some r := by rw [← reduce_eq_of_agree hu hu' hl hag]; exact hr
  rw [← reduce_eval h hu hr hload, ← reduce_eval h' hu' hr' hload']

/-- under the evaluation backend's precondition: both evaluate, to the same value -/
theorem unused_irrelevant_wfeval {L : Nat} {s' : Stack} {u : List Bool} (h : WF.WFEval D L s)
    (h' : WF.WFEval D L s') (hu : Reduce.utilized s = some u)
    (hu' : Reduce.utilized s' = some u) (hl : s.length = s'.length)
    (hag : ∀ i : Nat, u[i]? = some true → s[i]? = s'[i]?) {x c : List α}
    (hx : x.length = D) (hc : c.length = L) :
    ∃ v, Eval.evalLast s x c = some v ∧ Eval.evalLast s' x c = some v := by
  obtain ⟨_, r, _, hr, _, _⟩ := reduce_isReduction (wf_rows h)
  have hr' : Reduce.reduce s' = some r := by rw [← reduce_eq_of_agree hu hu' hl hag]; exact hr
  obtain ⟨v, hv, hrv⟩ := reduce_eval_wfeval h hr (x := x) (c := c) hx hc
  obtain ⟨v', hv', hrv'⟩ := reduce_eval_wfeval h' hr' (x := x) (c := c) hx hc
  rw [hrv] at hrv'; cases hrv'
  exact ⟨v, hv, hv'⟩

end eval

/-! ## 7. constant renumbering turns the reduced genome into a backend input -/

theorem renumber_wfeval {r : Stack} (h : WF.WFGenome D ops r) :
    WF.WFEval D (Renumber.numConsts r) (Renumber.renumber r) :=
  renumber_wfeval_of h

theorem renumber_length (r : Stack) : (Renumber.renumber r).length = r.length :=
  go_length r 0

theorem renumber_other (r : Stack) (i : Nat) (cmd : Cmd) (hi : r[i]? = some cmd)
    (hne : cmd.node ≠ Gen.OpDefs.CONSTANT) : (Renumber.renumber r)[i]? = some cmd :=
  go_get_other r 0 i cmd hi hne

/-- the `k`-th CONSTANT row (`k` = number of CONSTANT rows before it) loads constant `k` -/
theorem renumber_const (r : Stack) (i : Nat) (cmd : Cmd) (hi : r[i]? = some cmd)
    (he : cmd.node = Gen.OpDefs.CONSTANT) :
    (Renumber.renumber r)[i]? =
      some ⟨Gen.OpDefs.CONSTANT, Int.ofNat (Renumber.numConsts (r.take i)),
        Int.ofNat (Renumber.numConsts (r.take i))⟩ := by
  simpa [Renumber.renumber] using go_get_const r 0 i cmd hi he

/-- the pipeline of `AGraph._update`: reduce, then renumber -/
theorem reduce_renumber_wfeval (h : WF.WFGenome D ops s) {r : Stack}
    (hr : Reduce.reduce s = some r) :
    WF.WFEval D (Renumber.numConsts r) (Renumber.renumber r) :=
  renumber_wfeval (reduce_wf h hr)

/-! ## 8. non-vacuity: a stack with an unused row (row 2) and a shared row (row 3)

`X0, C[-1], sin(X0) (unused), X0*C, (X0*C)+(X0*C)` with `ops = [2,4,6]`, `D = 1`. -/

example : WF.WFGenome 1 [2, 4, 6] [⟨0,0,0⟩, ⟨1,-1,-1⟩, ⟨6,0,0⟩, ⟨4,0,1⟩, ⟨2,3,3⟩] := by decide

example : Reduce.utilized [⟨0,0,0⟩, ⟨1,-1,-1⟩, ⟨6,0,0⟩, ⟨4,0,1⟩, ⟨2,3,3⟩] =
    some [true, true, false, true, true] := by decide

example : Reduce.reduce [⟨0,0,0⟩, ⟨1,-1,-1⟩, ⟨6,0,0⟩, ⟨4,0,1⟩, ⟨2,3,3⟩] =
    some [⟨0,0,0⟩, ⟨1,-1,-1⟩, ⟨4,0,1⟩, ⟨2,2,2⟩] := by decide

/-- row 0 is reachable, row 2 is not -/
example : Reach [⟨0,0,0⟩, ⟨1,-1,-1⟩, ⟨6,0,0⟩, ⟨4,0,1⟩, ⟨2,3,3⟩] 0 ∧
    ¬ Reach [⟨0,0,0⟩, ⟨1,-1,-1⟩, ⟨6,0,0⟩, ⟨4,0,1⟩, ⟨2,3,3⟩] 2 := by
  have h : WF.WFGenome 1 [2, 4, 6] [⟨0,0,0⟩, ⟨1,-1,-1⟩, ⟨6,0,0⟩, ⟨4,0,1⟩, ⟨2,3,3⟩] := by decide
  have hu : Reduce.utilized [⟨0,0,0⟩, ⟨1,-1,-1⟩, ⟨6,0,0⟩, ⟨4,0,1⟩, ⟨2,3,3⟩] =
      some [true, true, false, true, true] := by decide
  refine ⟨(utilized_iff_reach' h hu 0).mp rfl, fun hr => ?_⟩
  have := (utilized_iff_reach' h hu 2).mpr hr
  simp at this

/-- both stacks evaluate to `(x0*c0) + (x0*c0)`, for every scalar type -/
example {α : Type} [Scalar α] (x0 c0 : α) :
    Eval.evalLast [⟨0,0,0⟩, ⟨1,-1,-1⟩, ⟨6,0,0⟩, ⟨4,0,1⟩, ⟨2,3,3⟩] [x0] [c0] =
      some (Scalar.add (Scalar.mul x0 c0) (Scalar.mul x0 c0)) ∧
    Eval.evalLast [⟨0,0,0⟩, ⟨1,-1,-1⟩, ⟨4,0,1⟩, ⟨2,2,2⟩] [x0] [c0] =
      some (Scalar.add (Scalar.mul x0 c0) (Scalar.mul x0 c0)) := by
  constructor <;> rfl

/-- the hypothesis of `reduce_eval` is satisfiable: the only dropped row is an operator -/
example {α : Type} [Scalar α] (x c : List α) :
    UnusedLoad [true, true, false, true, true]
      [⟨0,0,0⟩, ⟨1,-1,-1⟩, ⟨6,0,0⟩, ⟨4,0,1⟩, ⟨2,3,3⟩] x c := by
  intro i cmd hi hu ht
  have hi2 : i = 2 := by
    rcases i with _ | _ | _ | _ | _ | i <;> first | rfl | simp at hu
  subst hi2
  simp at hi; subst hi
  have hf : Ops.isTerminal (Cmd.mk 6 0 0).node = some false := by decide
  rw [hf] at ht; cases ht

/-- renumbering the reduced stack: the constant row now loads constant 0 -/
example : Renumber.renumber [⟨0,0,0⟩, ⟨1,-1,-1⟩, ⟨4,0,1⟩, ⟨2,2,2⟩] =
      [⟨0,0,0⟩, ⟨1,0,0⟩, ⟨4,0,1⟩, ⟨2,2,2⟩] ∧
    Renumber.numConsts [⟨0,0,0⟩, ⟨1,-1,-1⟩, ⟨4,0,1⟩, ⟨2,2,2⟩] = 1 ∧
    WF.WFEval 1 1 [⟨0,0,0⟩, ⟨1,0,0⟩, ⟨4,0,1⟩, ⟨2,2,2⟩] := by decide

/-! ### the corner where the exact statements of 5 and 6 fail

`s = [CONSTANT 5 (unused), X0]`, no constants: Python's `_forward_eval` of `s` raises
`IndexError` on row 0, the reduced stack `[X0]` evaluates to `x0`.  (Run with the decidable
scalar `intScalar`; the same happens for every scalar type.) -/

example : WF.WFGenome 1 [] [⟨1,5,5⟩, ⟨0,0,0⟩] ∧
    Reduce.reduce [⟨1,5,5⟩, ⟨0,0,0⟩] = some [⟨0,0,0⟩] ∧
    @Eval.evalLast Int intScalar [⟨1,5,5⟩, ⟨0,0,0⟩] [7] [] = none ∧
    @Eval.evalLast Int intScalar [⟨0,0,0⟩] [7] [] = some 7 := by decide

/-- the same corner for `unused_irrelevant`: same length, same mask, same utilized row, yet one
raises and the other does not -/
example : WF.WFGenome 1 [] [⟨1,5,5⟩, ⟨0,0,0⟩] ∧ WF.WFGenome 1 [] [⟨0,0,0⟩, ⟨0,0,0⟩] ∧
    Reduce.utilized [⟨1,5,5⟩, ⟨0,0,0⟩] = some [false, true] ∧
    Reduce.utilized [⟨0,0,0⟩, ⟨0,0,0⟩] = some [false, true] ∧
    @Eval.evalLast Int intScalar [⟨1,5,5⟩, ⟨0,0,0⟩] [7] [] = none ∧
    @Eval.evalLast Int intScalar [⟨0,0,0⟩, ⟨0,0,0⟩] [7] [] = some 7 := by decide

end Bingo.C03
