import Model.BestQuery
import Proofs.Lemmas.EvalPhase
import Proofs.Props.C15
/-!
# C15 on the object level: whatever the flags, the reported best carries its true fitness

`Island.get_best_individual` first brings the population into an evaluated state (`evaluate_population()` at generational
age 0, `_evaluate_population_if_needed()` later: repaired defect F21 -- a population replaced at a later age, by
`regenerate_population()` or by building an archipelago from an evolved island, used to be scanned unevaluated).  For every
population whose flagged members are fresh (C05), every age and every evaluation mode:

* the query does not raise on a non-empty population (`island_best_some`),
* every member the scan reads is evaluated, the genomes of the population are unchanged (`prepare_evaluated`, `prepare_genomes`),
* the reported individual is a member of the population the island now holds, it is marked evaluated, the fitness it carries is
  the fitness function's value for its own genome, and that value is minimal among the non-NaN values of ALL genomes of the
  original population; NaN is reported only if every genome's fitness is NaN (`island_best_true`).
-/
namespace Bingo
namespace C15Query
open Pipeline BestScan BestQuery EvalPhase

variable {f : Nat → Key} {cost : Nat → Nat} {red : Bool}

/-- after the evaluation step every member is evaluated -/
theorem prepare_evaluated (age : Nat) {pop : List Indiv} (hfresh : ∀ i ∈ pop, Fresh f i) :
    ∀ o ∈ prepare f cost red age pop, Evaluated f o := by
  unfold prepare evalIfNeeded
  split
  · exact serialEval_all_evaluated cost red hfresh
  · split
    · rename_i hall
      intro o ho
      exact fresh_flag_evaluated (hfresh o ho) (by simpa using List.all_eq_true.mp hall o ho)
    · exact serialEval_all_evaluated cost red hfresh

/-- the evaluation step changes no genome, no age and no slot -/
theorem prepare_genomes (age : Nat) (pop : List Indiv) :
    (prepare f cost red age pop).map (·.genome) = pop.map (·.genome) ∧
    (prepare f cost red age pop).map (·.age) = pop.map (·.age) := by
  have h : ∀ l : List Indiv, ((serialEval f cost red l).1.map (·.genome) = l.map (·.genome)) ∧
      ((serialEval f cost red l).1.map (·.age) = l.map (·.age)) := by
    intro l
    rw [serialEval_fst]
    constructor <;>
    · rw [List.map_map]
      apply List.map_congr_left
      intro i _
      by_cases ht : touched red i = true <;> simp [ht, evalOne]
  unfold prepare evalIfNeeded
  split
  · exact h pop
  · split
    · exact ⟨rfl, rfl⟩
    · exact h pop

/-- every member has a stored fitness: the scan can compare them -/
theorem keyed_of_evaluated : ∀ {l : List Indiv}, (∀ o ∈ l, Evaluated f o) →
    keyed l = some (l.map fun i => (f i.genome, i))
  | [], _ => rfl
  | i :: rest, h => by
    have hi := h i List.mem_cons_self
    have hr := keyed_of_evaluated (l := rest) (fun o ho => h o (List.mem_cons_of_mem _ ho))
    simp [keyed, hi.2, hr]

/-- the query does not raise on a non-empty population -/
theorem island_best_some (age : Nat) {pop : List Indiv} (hfresh : ∀ i ∈ pop, Fresh f i) (hne : pop ≠ []) :
    (islandBest f cost red age pop).1 ≠ none := by
  unfold islandBest
  simp only [keyed_of_evaluated (prepare_evaluated (cost := cost) (red := red) age hfresh), Option.bind_some]
  intro h
  rw [Option.map_eq_none_iff, C15.island_scan_none] at h
  have hlen := congrArg List.length (prepare_genomes (f := f) (cost := cost) (red := red) age pop).1
  simp only [List.length_map] at hlen
  have : (prepare f cost red age pop) = [] := by simpa using h
  rw [this] at hlen
  exact hne (List.length_eq_zero_iff.mp hlen.symm)

/-- **the reported best individual carries its true fitness and is a true minimum**, for every state of the flags -/
theorem island_best_true (age : Nat) {pop : List Indiv} (hfresh : ∀ i ∈ pop, Fresh f i) {b : Indiv}
    (h : (islandBest f cost red age pop).1 = some b) :
    b ∈ (islandBest f cost red age pop).2 ∧ b.genome ∈ pop.map (·.genome) ∧
    b.flag = true ∧ b.fit = some (f b.genome) ∧
    ((∃ g ∈ pop.map (·.genome), (f g).isNan = false) →
        (f b.genome).isNan = false ∧ ∀ g ∈ pop.map (·.genome), Key.lt (f g) (f b.genome) = false) ∧
    ((f b.genome).isNan = true → ∀ g ∈ pop.map (·.genome), (f g).isNan = true) := by
  have hev := prepare_evaluated (cost := cost) (red := red) age hfresh
  have hgen := (prepare_genomes (f := f) (cost := cost) (red := red) age pop).1
  unfold islandBest at h ⊢
  simp only [keyed_of_evaluated hev, Option.bind_some] at h
  obtain ⟨kb, hscan, rfl⟩ := Option.map_eq_some_iff.mp h
  obtain ⟨hmem, hmin, hnan⟩ := C15.island_scan _ kb hscan
  obtain ⟨i, hi, rfl⟩ := List.mem_map.mp hmem
  have hig : i.genome ∈ pop.map (·.genome) := by rw [← hgen]; exact List.mem_map.mpr ⟨i, hi, rfl⟩
  have hall : ∀ g ∈ pop.map (·.genome), ∃ p ∈ (prepare f cost red age pop).map (fun i => (f i.genome, i)), p.1 = f g := by
    intro g hg
    rw [← hgen] at hg
    obtain ⟨j, hj, rfl⟩ := List.mem_map.mp hg
    exact ⟨_, List.mem_map.mpr ⟨j, hj, rfl⟩, rfl⟩
  refine ⟨hi, hig, (hev i hi).1, (hev i hi).2, ?_, ?_⟩
  · rintro ⟨g, hg, hgn⟩
    obtain ⟨p, hp, hpe⟩ := hall g hg
    obtain ⟨h1, h2, _⟩ := hmin ⟨p, hp, by rw [hpe]; exact hgn⟩
    refine ⟨h1, fun g' hg' => ?_⟩
    obtain ⟨p', hp', hpe'⟩ := hall g' hg'
    have := h2 p' hp'
    rwa [hpe'] at this
  · intro hbn g hg
    obtain ⟨p, hp, hpe⟩ := hall g hg
    have := hnan hbn p hp
    rwa [hpe] at this

/-! non-vacuity: an evolved island (age 3) whose population was replaced (no member evaluated, no stored fitness): the
query evaluates and reports the member with the smallest fitness; a half-evaluated population after a migration -/
private def fEx : Nat → Key := fun g => if g = 7 then none else some (Int.ofNat g % 5)
example : (islandBest fEx (fun _ => 1) false 3 [⟨7, none, false, 0⟩, ⟨9, none, false, 0⟩, ⟨11, none, false, 0⟩]).1
    = some ⟨11, some (some 1), true, 0⟩ := by decide
example : (islandBest fEx (fun _ => 1) false 3 [⟨9, some (some 4), true, 2⟩, ⟨11, some (some 0), false, 1⟩]).1
    = some ⟨11, some (some 1), true, 1⟩ := by decide
/-- without the evaluation step the first population cannot even be compared (`None < None`) -/
example : keyed [(⟨7, none, false, 0⟩ : Indiv), ⟨9, none, false, 0⟩] = none := by decide

end C15Query
end Bingo
