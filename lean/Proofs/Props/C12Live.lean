import Model.ParArch
import Proofs.Lemmas.ParArch
import Proofs.Lemmas.ParArchLive
import Proofs.Lemmas.ParArchLiveMono
import Proofs.Lemmas.ParArchLivePot
import Proofs.Lemmas.ParArchLiveFair
import Proofs.Lemmas.ParArchLiveTerm
import Proofs.Lemmas.ParArchLiveWitness
import Proofs.Lemmas.ParArchLiveLock
import Proofs.Props.C12
/-!
# C12 -- one call to evolve a non-blocking parallel archipelago: the liveness part, as accounting

"… and returns on every rank under every fair interleaving in which helpers do not produce age updates
faster than rank 0 can receive them."

Part 1 (this section of the file) holds for EVERY run of the model (`run`: a list of actions replayed
through `ParArch.step`), with no fairness and no speed assumption.  The only hypothesis on the observed
actions is `slicePos`: every completed `island.evolve` slice of rank 0 adds at least one generation
(`sync_frequency ≥ 1`; with `k = 0` rank 0's loop `while sum(total_age.values()) < target_total_age` need
not make progress at all).

* `rank0_evolves_bounded`   -- rank 0 completes at most `target_total_age - sum(total_age.values()) + 1`
                               slices (`R * numSteps` from the start of a call: one call performs at most
                               `R * numSteps` loop iterations on rank 0);
* `rank0_steps_bounded`     -- `(protocol operations of rank 0) + Φ(end) ≤ Φ(start) + 2 * (helper age sends)`;
* `helper_steps_after_exit_bounded` -- once its EXIT_NOTIFICATION is sent a helper performs at most 6
                               more protocol operations in the whole call, at most 5 before it is inside
                               the barrier;
* `livelock_needs_helper_sends`, `all_steps_bounded` -- the number of protocol operations of rank 0 (of
                               all ranks) in a run is bounded by a constant of the start state plus 2
                               (plus 5) per helper age send.

Part 2 (`terminates_fair`, `terminates_fair_call`, `drain_phase_terminates`, `collecting_terminates`):
infinite executions (`IsExec`), fairness (`Fair`), and the speed assumption `SpeedBound p q D` with
`2 * q < p`: the call returns on every rank.  Fairness alone gets rank 0 through the collecting loop at the
start of `_non_blocking_execution_main` (a helper before its first `_send_updated_age()` can always move,
and a waiting message of the awaited source enables the receive).

Reading of part 1: the only unbounded resource of the protocol is the stream of AGE_UPDATE messages.  An
execution in which the call does not return must contain infinitely many helper age sends, and rank 0
spends all but boundedly many of its operations probing and receiving them: this is the livelock that
the harness exhibits when helpers out-run rank 0's drain loop, and it is the only one.
-/
set_option linter.unusedSimpArgs false
set_option linter.unusedVariables false
namespace Bingo
namespace C12
open ParArch

/-! ## the start of a call satisfies both invariants -/

theorem budget_initial (R sync n : Nat) (ages : List Nat) (hR : 0 < R) :
    budget (initial R sync n ages) = R * n := by
  unfold initial
  split
  · exact budget_c rfl
  · exact (finishCollect_facts (collectStart R sync n ages) hR).1

/-- `Φ` at the start of a call: two per generation·rank to go, plus the `R - 1` collecting receives and the
length of the exit path -/
theorem phi_initial_le (R sync n : Nat) (ages : List Nat) (hR : 0 < R) :
    Phi (initial R sync n ages) ≤ 2 * (R * n) + 2 * R + 4 := by
  have hb := budget_initial R sync n ages hR
  have hm : (initial R sync n ages).mbox.length = 0 := by rw [initial_mbox]; rfl
  have hRR : (initial R sync n ages).R = R := (initial_frame R sync n ages).1
  unfold Phi
  rw [hb, hm, hRR]
  have : ordPc R (R * n) (initial R sync n ages).pc0 ≤ 2 * R + 4 := by
    unfold initial
    split
    · show R + 5 + (R - 1) ≤ 2 * R + 4
      omega
    · have := (finishCollect_facts (collectStart R sync n ages) hR).2.1
      have h' : ordPc R (R * n) (finishCollect (collectStart R sync n ages)).pc0 ≤ R + 4 := this
      omega
  omega

theorem psi_initial (R sync n : Nat) (ages : List Nat) (hR : 0 < R) :
    Psi (initial R sync n ages) = R * n := by
  have hb := budget_initial R sync n ages hR
  unfold Psi
  rw [hb]
  have : loopExtra (R * n) (initial R sync n ages).pc0 = 0 := by
    unfold initial
    split
    · rfl
    · exact loopExtra_finish (collectStart R sync n ages) hR
  omega

/-! ## (a) loop iterations of rank 0 -/

/-- **(a)** In every run from a state satisfying the invariants, rank 0 completes at most
`Psi s0 ≤ budget s0 + 1` slices `island.evolve(sync)`, where `budget s0` is
`target_total_age - sum(total_age.values())` (and `R * numSteps`, the value this difference will have once
`target_total_age` is assigned, while rank 0 is still in the collecting loop): every loop iteration raises
`sum(total_age.values())` by at least 1 (entry 0 by `k ≥ 1`; a helper's entry is only ever replaced by a
newer, hence not smaller, age), and the loop is left as soon as the sum reaches `target_total_age`.  The
`+ 1` is the exceptional start "in the loop although the condition already fails" (not reachable from
the start of a call, see `rank0_evolves_bounded_call`). -/
theorem rank0_evolves_bounded {s0 s : State} {as : List Action} (inv : Inv s0) (mono : Mono s0)
    (hk : ∀ a, a ∈ as → slicePos a = true) (h : run s0 as = some s) :
    as.countP isEvolve0 + Psi s ≤ Psi s0 ∧ Psi s0 ≤ budget s0 + 1 ∧
    (isCollecting s0.pc0 = false → budget s0 = s0.goal - tableSum s0.table) ∧
    (isCollecting s0.pc0 = true → budget s0 = s0.R * s0.numSteps) := by
  constructor
  · have := run_count_bound (fun s => Inv s ∧ Mono s) slicePos Psi isEvolve0 (fun _ => false) 0
      (fun hs hst => ⟨inv_step hs.1 hst, mono_step hs.1 hs.2 hst⟩)
      (fun hs hg hst => by simpa using psi_step hs.1 hs.2 hg hst) as s0 s ⟨inv, mono⟩ hk h
    omega
  · have := loopExtra_le (budget s0) s0.pc0
    refine ⟨?_, budget_nc, budget_c⟩
    simp only [Psi] at this ⊢
    omega

/-- (a) for one call of `_non_blocking_execution(n)`: at most `R * n` loop iterations (slices) on rank 0 -/
theorem rank0_evolves_bounded_call {R sync n : Nat} {ages : List Nat} (hR : 0 < R)
    {s : State} {as : List Action}
    (hk : ∀ a, a ∈ as → slicePos a = true) (h : run (initial R sync n ages) as = some s) :
    as.countP isEvolve0 ≤ R * n := by
  have := (rank0_evolves_bounded (inv_initial R sync n ages hR) (mono_initial R sync n ages) hk h).1
  rw [psi_initial R sync n ages hR] at this
  omega

/-! ## (b) protocol operations of rank 0 -/

/-- **(b)** The potential `Φ s = 2 * budget s + 2 * |mailbox| + ordPc …`
(`budget s = target_total_age - sum(total_age.values())`; `ordPc` counts the remaining collecting receives)
(`Phi`, `Proofs/Lemmas/ParArchLivePot.lean`) drops by at least 1 with every protocol operation of rank 0
and rises by exactly 2 with every helper `_send_updated_age` (`phi_step`).  Hence, in every run, the
number of protocol operations of rank 0 is at most `Φ(start) + 2 * (helper age sends)`. -/
theorem rank0_steps_bounded {s0 s : State} {as : List Action} (inv : Inv s0) (mono : Mono s0)
    (hk : ∀ a, a ∈ as → slicePos a = true) (h : run s0 as = some s) :
    as.countP r0Proto + Phi s ≤ Phi s0 + 2 * as.countP helperSend := by
  have := run_count_bound (fun s => Inv s ∧ Mono s) slicePos Phi r0Proto helperSend 2
    (fun hs hst => ⟨inv_step hs.1 hst, mono_step hs.1 hs.2 hst⟩)
    (fun hs hg hst => phi_step hs.1 hs.2 hg hst) as s0 s ⟨inv, mono⟩ hk h
  omega

/-- the three clauses of the potential argument, one transition at a time -/
theorem phi_clauses {s s' : State} {a : Action} (inv : Inv s) (mono : Mono s) (hk : slicePos a = true)
    (h : step s a = some s') :
    (r0Proto a = true → Phi s' + 1 ≤ Phi s) ∧
    (helperSend a = true → Phi s' = Phi s + 2) ∧
    (a.rank ≠ 0 → helperSend a = false → Phi s' = Phi s) ∧
    (a.rank = 0 → Phi s' ≤ Phi s) := by
  have hstep := phi_step inv mono hk h
  refine ⟨fun h1 => ?_, fun h2 => ?_, fun h3 h4 => ?_, fun h5 => ?_⟩
  · rcases step_cases h with ⟨hr, h0⟩ | ⟨h0, hR, hH⟩
    · rw [(rank0_flags hr).2, h1] at hstep; simpa using hstep
    · rw [(helper_flags h0).1] at h1; cases h1
  · rcases step_cases h with ⟨hr, h0⟩ | ⟨h0, hR, hH⟩
    · rw [(rank0_flags hr).2] at h2; cases h2
    · have := phi_stepH h0 rfl hH; rw [h2] at this; simpa using this
  · rcases step_cases h with ⟨hr, h0⟩ | ⟨h0, hR, hH⟩
    · exact absurd hr h3
    · have := phi_stepH h0 rfl hH; rw [h4] at this; simpa using this
  · rw [(rank0_flags h5).2] at hstep
    have : Phi s' ≤ Phi s + 0 := Nat.le_trans (Nat.le_add_right _ _) (by simpa using hstep)
    simpa using this

/-! ## (c) helpers after their exit notification -/

/-- **(c)** Once the EXIT_NOTIFICATION for helper `r` has been sent (`exitSent s0.pc0 r`), helper `r`
performs, in every run, at most `hPot (pcOf s0 r) ≤ 6` further protocol operations in the whole call
(worst case: it had just probed negatively: `evolve`, `isend` age, `iprobe` exit, `recv` exit,
`Barrier` enter, `Barrier` leave), and after 5 of them it is inside (or past) the barrier. -/
theorem helper_steps_after_exit_bounded {s0 s : State} {as : List Action} {r : Nat} (inv : Inv s0)
    (h0 : 0 < r) (hR : r < s0.R) (hs : exitSent s0.pc0 r = true) (h : run s0 as = some s) :
    as.countP (rProto r) + hPot (pcOf s r) ≤ hPot (pcOf s0 r) ∧ hPot (pcOf s0 r) ≤ 6 ∧
    (5 ≤ as.countP (rProto r) → pcOf s r = .inBarrier ∨ pcOf s r = .done) := by
  have key : as.countP (rProto r) + hPot (pcOf s r) ≤ hPot (pcOf s0 r) := by
    have := run_count_bound (fun s => Inv s ∧ r < s.R ∧ exitSent s.pc0 r = true) (fun _ => true)
      (fun s => hPot (pcOf s r)) (rProto r) (fun _ => false) 0
      (fun hs hst => ⟨inv_step hs.1 hst, by rw [(step_frame hst).1]; exact hs.2.1, exitSent_step hst hs.2.2⟩)
      (fun hs _ hst => by simpa using hpot_step hs.1 h0 hs.2.1 hs.2.2 hst) as s0 s ⟨inv, hR, hs⟩
      (fun _ _ => rfl) h
    omega
  have h6 := hPot_le (pcOf s0 r)
  refine ⟨key, h6, fun h5 => hPot_le_one (by omega)⟩

/-- (c) at any point of a run: `as1` leads to a state where the notification for `r` is sent, `as2`
continues from there -/
theorem helper_steps_after_exit_bounded_mid {s0 s1 s2 : State} {as1 as2 : List Action} {r : Nat} (inv : Inv s0)
    (h0 : 0 < r) (hR : r < s0.R) (h1 : run s0 as1 = some s1) (hs : exitSent s1.pc0 r = true)
    (h2 : run s1 as2 = some s2) :
    as2.countP (rProto r) ≤ 6 ∧ (5 ≤ as2.countP (rProto r) → pcOf s2 r = .inBarrier ∨ pcOf s2 r = .done) := by
  have hR1 : r < s1.R := by rw [(reachable_frame (run_reachable h1)).1]; exact hR
  obtain ⟨a, b, c⟩ := helper_steps_after_exit_bounded (run_inv inv h1) h0 hR1 hs h2
  exact ⟨by omega, c⟩

/-! ## (d) the only way not to return -/

/-- **(d)** In every run the number of protocol operations of rank 0 is at most
`Φ(start) + 2 * (number of helper age sends in the run)`.

Reading for infinite executions: every finite prefix obeys the bound, and `Φ(start)` is a constant of
the call (`≤ 2 * R * numSteps + 2 * R + 4`, `phi_initial_le`).  So if rank 0 performs infinitely many
protocol operations -- which, rank 0 being never blocked before the barrier (`C12.enabled0`), is what
a fair execution looks like in which rank 0 does not reach the barrier (fairness also gets it through
the at most `R - 1` blocking receives of the collecting loop, `collecting_terminates`) -- then the helpers perform
infinitely many `_send_updated_age`.  Together with `rank0_evolves_bounded` (finitely many loop
iterations) this pins the livelock down: rank 0 stays in ONE `_gather_updated_ages` drain phase forever,
receiving age updates at least as fast as it can probe for the next one.  No other non-returning fair
execution exists (`all_steps_bounded`, `helper_steps_after_exit_bounded`). -/
theorem livelock_needs_helper_sends {s0 s : State} {as : List Action} (inv : Inv s0) (mono : Mono s0)
    (hk : ∀ a, a ∈ as → slicePos a = true) (h : run s0 as = some s) :
    as.countP r0Proto ≤ Phi s0 + 2 * as.countP helperSend := by
  have := rank0_steps_bounded inv mono hk h
  omega

/-- (d), all ranks: the number of protocol operations (everything but scheduling points inside a slice)
of ALL ranks in a run is at most `Glob(start) + 5 * (helper age sends)`, `Glob = Φ + Σ_r hPsi (pc r)`
(at most 4 per helper) -/
theorem all_steps_bounded {s0 s : State} {as : List Action} (inv : Inv s0) (mono : Mono s0)
    (hk : ∀ a, a ∈ as → slicePos a = true) (h : run s0 as = some s) :
    as.countP nonTick + Glob s ≤ Glob s0 + 5 * as.countP helperSend := by
  have := run_count_bound (fun s => Inv s ∧ Mono s) slicePos Glob nonTick helperSend 5
    (fun hs hst => ⟨inv_step hs.1 hst, mono_step hs.1 hs.2 hst⟩)
    (fun hs hg hst => glob_step hs.1 hs.2 hg hst) as s0 s ⟨inv, mono⟩ hk h
  omega

/-- (d) for one call: at most `2 * R * n + 2 * R + 4 + 2 * sends` protocol operations of rank 0 (the
`R - 1` collecting receives are part of the constant) -/
theorem livelock_needs_helper_sends_call {R sync n : Nat} {ages : List Nat} (hR : 0 < R)
    {s : State} {as : List Action}
    (hk : ∀ a, a ∈ as → slicePos a = true) (h : run (initial R sync n ages) as = some s) :
    as.countP r0Proto ≤ 2 * (R * n) + 2 * R + 4 + 2 * as.countP helperSend := by
  have h1 := livelock_needs_helper_sends (inv_initial R sync n ages hR) (mono_initial R sync n ages) hk h
  have h2 := phi_initial_le R sync n ages hR
  omega

/-! ## non-vacuity -/

/-- the complete run of `Props/C12.lean` (two ranks, one generation): 17 actions, 9 protocol operations
of rank 0 (1 collecting receive, 1 slice), 8 of the helper, 2 of them age sends; `Φ` goes from
`2*2 + 0 + (2+5+1) = 12` to 0, and `9 ≤ 12 + 2*2` -/
example :
    let s0 := initial 2 1 1 [0, 0]
    let as := [Action.isend 1 0 tagAge, .recv 0 1 tagAge, .iprobe 1 (some 0) tagExit none, .evolve 1 1, .evolve 0 1,
      .isend 1 0 tagAge, .iprobe 0 none tagAge (some 1), .recv 0 1 tagAge, .iprobe 0 none tagAge none,
      .isend 0 1 tagExit, .barrierEnter 0, .iprobe 1 (some 0) tagExit (some 0), .recv 1 0 tagExit,
      .barrierEnter 1, .barrierLeave 0, .iprobe 0 none tagAge none, .barrierLeave 1]
    (run s0 as).map (fun s => (isFinal s, Phi s, Psi s, Glob s)) = some (true, 0, 0, 0) ∧
    (Phi s0, Psi s0, Glob s0) = (12, 2, 14) ∧
    (as.countP r0Proto, as.countP isEvolve0, as.countP helperSend, as.countP nonTick, as.countP (rProto 1))
      = (9, 1, 2, 17, 8) ∧
    as.all slicePos = true := by decide

/-- the helper after its notification: from the state after `isend 0 1 EXIT`, with the helper just past
a negative probe (the worst case), exactly 6 more protocol operations of the helper, and after 5 it is
inside the barrier -/
example :
    let s0 := initial 2 1 1 [0, 0]
    let as1 := [Action.isend 1 0 tagAge, .recv 0 1 tagAge, .evolve 0 1, .iprobe 0 none tagAge none, .evolve 0 1,
      .iprobe 0 none tagAge none, .iprobe 1 (some 0) tagExit none, .isend 0 1 tagExit]
    let as2 := [Action.tick 1, .evolve 1 1, .isend 1 0 tagAge, .iprobe 1 (some 0) tagExit (some 0),
      .recv 1 0 tagExit, .barrierEnter 1]
    ((run s0 as1).map fun s => (exitSent s.pc0 1, pcOf s 1, hPot (pcOf s 1))) = some (true, PcH.evolving, 6) ∧
    ((run s0 (as1 ++ as2)).map fun s => pcOf s 1) = some PcH.inBarrier ∧
    as2.countP (rProto 1) = 5 := by decide

/-! ## Part 2: fair executions under the speed assumption return on every rank

Definitions (`Proofs/Lemmas/ParArchLiveFair.lean`):

* `IsExec st act`: `st 0, st 1, …` is an infinite execution, `act n` the action taken at step `n`
  (`step (st n) a = some (st (n+1))`), or `none` when every rank has returned and the state stutters;
* `Fair st act`: whenever rank `r` can move (`enabled (st n) r`), rank `r` performs a protocol operation
  at some step `m ≥ n`.  In this model a rank that can move remains able to move until it does, so this is
  weak fairness; asking for a protocol operation (not a `tick`) says that every `island.evolve` slice is
  finite;
* `SpeedBound st act p q D`: for every window of steps `n … n+len` during which rank 0 stays inside one
  drain phase (`pc0 = draining _`), `p * (helper age sends in the window) ≤ q * (protocol operations of
  rank 0 in the window) + D`.

The speed assumption is what "helpers do not produce age updates faster than rank 0 can receive them"
means quantitatively: receiving one update costs rank 0 two operations (`iprobe` + `recv`), so the
helpers together must send fewer than one update per two operations of rank 0, `q / p < 1 / 2`, up to a
constant.  Informally (not proved here): round-robin scheduling with helper slices of at least `c`
scheduling points satisfies it with `p = c + 2`, `q = R - 1` and a slack `D` of about `(R - 1) * (c + 2)`:
while rank 0 performs `w` operations (it is never blocked while draining) each helper gets at most `w + 1`
turns and needs `c + 2` of them per loop iteration (probe, `c` points including the completion of the
slice, send); `2 * q < p` is then `2 * (R - 1) < c + 2`.  Without it the statement is false
(the harness's livelock; `livelock_needs_helper_sends` says it is the only obstruction).

The collecting loop at the start of `_non_blocking_execution_main` needs no speed assumption: fairness
alone ends every blocking receive (`collecting_terminates`). -/

/-- every blocking receive of rank 0's collecting loop is served -/
theorem collecting_terminates {st : Nat → State} {act : Nat → Option Action}
    (hexec : IsExec st act) (hinv : Inv (st 0)) (hmono : Mono (st 0))
    (hslices : ∀ n a, act n = some a → slicePos a = true) (hfair : Fair st act)
    (n k : Nat) (hd : (st n).pc0 = .collecting k) :
    ∃ m, n ≤ m ∧ (st m).pc0 ≠ .collecting k :=
  FairExec.collecting_ends ⟨hexec, hinv, hmono, hslices, hfair⟩ n k hd

/-- every drain phase of rank 0 ends -/
theorem drain_phase_terminates {st : Nat → State} {act : Nat → Option Action} {p q D : Nat}
    (hexec : IsExec st act) (hinv : Inv (st 0)) (hmono : Mono (st 0))
    (hslices : ∀ n a, act n = some a → slicePos a = true) (hfair : Fair st act)
    (hspeed : SpeedBound st act p q D) (hpq : 2 * q < p) (n : Nat) (hd : isDraining (st n).pc0 = true) :
    ∃ m, n ≤ m ∧ isDraining (st m).pc0 = false :=
  FairExec.drain_phase_ends ⟨hexec, hinv, hmono, hslices, hfair⟩ hspeed hpq n hd

/-- the liveness clause of C12 in full: every fair execution from a state satisfying the invariants, with
non-empty slices of rank 0, whose drain phases obey the speed assumption, reaches a state in which
`_non_blocking_execution` has returned on every rank -/
def terminates_fair_Full : Prop :=
  ∀ (st : Nat → State) (act : Nat → Option Action) (p q D : Nat),
    IsExec st act → Inv (st 0) → Mono (st 0) → (∀ n a, act n = some a → slicePos a = true) →
    Fair st act → SpeedBound st act p q D → 2 * q < p → ∃ n, isFinal (st n) = true

/-- **termination**: `terminates_fair_Full` holds -/
theorem terminates_fair : terminates_fair_Full :=
  fun _ _ _ _ _ hexec hinv hmono hslices hfair hspeed hpq =>
    FairExec.terminates ⟨hexec, hinv, hmono, hslices, hfair⟩ hspeed hpq

theorem exec_reachable {st : Nat → State} {act : Nat → Option Action} (hexec : IsExec st act) (n : Nat) :
    Reachable (st 0) (st n) := by
  have := run_reachable (run_seg hexec 0 n)
  rwa [Nat.zero_add] at this

/-- termination of one call (no precondition on the call), with what the safety part says about the state
it ends in: every rank has returned, no AGE_UPDATE / EXIT_NOTIFICATION message is left, and the island
ages have advanced by at least `n` on average: `Σ (ages at the start) + R * n ≤ Σ ages` -/
theorem terminates_fair_call {R sync n : Nat} {ages : List Nat} (hR : 0 < R)
    {st : Nat → State} {act : Nat → Option Action} {p q D : Nat}
    (hstart : st 0 = initial R sync n ages) (hexec : IsExec st act)
    (hslices : ∀ n a, act n = some a → slicePos a = true) (hfair : Fair st act)
    (hspeed : SpeedBound st act p q D) (hpq : 2 * q < p) :
    ∃ m, isFinal (st m) = true ∧ (st m).mbox = [] ∧ (∀ r, (st m).exitQ.getD r 0 = 0) ∧
      ((List.range R).map fun r => ages.getD r 0).sum + R * n ≤ (st m).ages.sum := by
  have hinv : Inv (st 0) := by rw [hstart]; exact inv_initial R sync n ages hR
  have hmono : Mono (st 0) := by rw [hstart]; exact mono_initial R sync n ages
  obtain ⟨m, hm⟩ := terminates_fair st act p q D hexec hinv hmono hslices hfair hspeed hpq
  have hreach := exec_reachable hexec m
  rw [hstart] at hreach
  obtain ⟨h1, h2⟩ := clean_return hR hreach hm
  exact ⟨m, hm, h1, h2, ages_advance hR hreach hm⟩

/-- non-vacuity of the hypotheses of `terminates_fair_call`: the complete run of the first example (with
two scheduling points inside slices added), continued by stuttering, is a fair execution of a call with
`R = 2`, and it satisfies `SpeedBound 3 1 6` (`2 * 1 < 3`) -/
example :
    let s0 := initial 2 1 1 [0, 0]
    let as := [Action.isend 1 0 tagAge, .recv 0 1 tagAge, .iprobe 1 (some 0) tagExit none, .tick 0, .tick 1,
      .evolve 1 1, .evolve 0 1, .isend 1 0 tagAge, .iprobe 0 none tagAge (some 1), .recv 0 1 tagAge,
      .iprobe 0 none tagAge none, .isend 0 1 tagExit, .barrierEnter 0,
      .iprobe 1 (some 0) tagExit (some 0), .recv 1 0 tagExit, .barrierEnter 1, .barrierLeave 0,
      .iprobe 0 none tagAge none, .barrierLeave 1]
    stOf s0 as 0 = s0 ∧ IsExec (stOf s0 as) (actOf as) ∧ (∀ n a, actOf as n = some a → slicePos a = true) ∧
    Fair (stOf s0 as) (actOf as) ∧ SpeedBound (stOf s0 as) (actOf as) 3 1 6 := by
  intro s0 as
  have hrun : (run s0 as).isSome = true := by decide
  cases h : run s0 as with
  | none => rw [h] at hrun; cases hrun
  | some t =>
    have hf : isFinal t = true := by
      have : (run s0 as).all isFinal = true := by decide
      rw [h] at this; exact this
    refine ⟨rfl, isExec_of_run h hf, ?_, fair_of_check h hf (by decide) (by decide), ?_⟩
    · intro n a ha
      have hall : as.all slicePos = true := by decide
      rw [List.all_eq_true] at hall
      exact hall a (List.mem_of_getElem? ha)
    · have : (6 : Nat) = 3 * as.countP helperSend := by decide
      rw [this]
      exact speedBound_of_run _ as 3 1

/-! ## the speed assumption cannot be dropped -/

/-- **the livelock**: a fair execution of one call on two ranks (`sync = 1`, one generation requested,
every slice adds one generation) in which no rank ever returns.  After the helper's first age update, rank
0's collecting receive, one loop iteration of the helper and rank 0's first slice, the period "rank 0 probes and finds an update; the helper probes for the exit
notification, evolves a slice, sends its age; rank 0 receives" repeats forever
(`Proofs/Lemmas/ParArchLiveLock.lean`).  Both ranks perform protocol operations in every period, so no
fairness notion that only talks about who gets to move excludes it. -/
theorem livelock_exists :
    ∃ (st : Nat → State) (act : Nat → Option Action),
      st 0 = initial 2 1 1 [0, 0] ∧ IsExec st act ∧ (∀ n a, act n = some a → slicePos a = true) ∧
      Fair st act ∧ (∀ n, isFinal (st n) = false) ∧ (∀ n, 6 ≤ n → isDraining (st n).pc0 = true) :=
  ⟨lockFullSt, lockFullAct, lockFull_start, lockFull_isExec, lockFull_slices, lockFull_fair, lockFull_not_final,
    fun n hn => by
      obtain ⟨k, rfl⟩ : ∃ k, n = k + 6 := ⟨n - 6, by omega⟩
      rw [(lockFull_ge k).1]
      exact lock_draining k⟩

/-- fairness alone does not give termination -/
theorem termination_needs_speed_assumption :
    ¬ (∀ (st : Nat → State) (act : Nat → Option Action), IsExec st act → Inv (st 0) → Mono (st 0) →
        (∀ n a, act n = some a → slicePos a = true) → Fair st act → ∃ n, isFinal (st n) = true) := by
  intro h
  obtain ⟨st, act, h0, hexec, hsl, hfair, hnf, _⟩ := livelock_exists
  have hinv : Inv (st 0) := by rw [h0]; exact inv_initial 2 1 1 [0, 0] (by decide)
  have hmono : Mono (st 0) := by rw [h0]; exact mono_initial 2 1 1 [0, 0]
  obtain ⟨n, hn⟩ := h st act hexec hinv hmono hsl hfair
  rw [hnf n] at hn; cases hn

/-- in the livelock the helper sends one update per two operations of rank 0: it violates every speed
bound with `2 * q < p`, whatever the slack -/
theorem livelock_violates_speed_bound (p q D : Nat) (hpq : 2 * q < p) :
    ¬ SpeedBound lockFullSt lockFullAct p q D := by
  intro hsp
  have hinv : Inv (lockFullSt 0) := inv_initial 2 1 1 [0, 0] (by decide)
  have hmono : Mono (lockFullSt 0) := mono_initial 2 1 1 [0, 0]
  obtain ⟨n, hn⟩ := terminates_fair lockFullSt lockFullAct p q D lockFull_isExec hinv hmono lockFull_slices
    lockFull_fair hsp hpq
  rw [lockFull_not_final n] at hn; cases hn

end C12
end Bingo
