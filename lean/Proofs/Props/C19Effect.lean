import Proofs.Lemmas.EvalEffect
/-!
# C19 for fitness functions that change the individual they are called on

`C19.lean` treats the fitness function as a pure function of the genome.  The property also
quantifies over wrapped (locally optimizing) fitness functions, which store optimized constants in
the individual and clear its optimization request, and return the base fitness of the individual
AFTER that change.  Here (`Model/EvalEffect.lean`) an individual carries a `state`, a fitness
function is `F : genome → state → new state × fitness`, and `cost genome state` is the number of
base-fitness invocations of one call.

* serial: the effect happens in place on the slot's own object;
* multiprocess: the worker evaluates a copy, the copy comes back and replaces the slot; for every
  completion order the result is that of serial evaluation (population, states included, and
  count);
* for an idempotent `F` the phase leaves every member flagged with the fitness function's value
  for the individual the slot holds (`Consistent`);
* a parent that reads back only the fitness value (`multiprocessEvalLossyE`) leaves a flagged
  slot that is not consistent as soon as `F` changes a submitted individual.

Only the property theorems and their non-vacuity examples live here; the proofs are in
`Proofs/Lemmas/EvalEffect.lean` (core Lean only).
-/
namespace Bingo.C19Effect
open Bingo.EvalEffect

/-! ## 1. the serial phase -/

theorem serial_phase_effect (F : Nat → Nat → Nat × Key) (cost : Nat → Nat → Nat) (redundant : Bool)
    (pop : List EInd) :
    (serialEvalE F cost redundant pop).1.length = pop.length ∧
    ∀ (i : Nat) (h : i < pop.length),
      let o := (serialEvalE F cost redundant pop).1[i]'((serialEvalE_length F cost redundant pop).symm ▸ h)
      o.genome = pop[i].genome ∧ o.age = pop[i].age ∧
      (if redundant = true ∨ pop[i].flag = false
        then o = evalOneE F pop[i] ∧
          o.state = (F pop[i].genome pop[i].state).1 ∧
          o.fit = some (F pop[i].genome pop[i].state).2 ∧ o.flag = true
        else o = pop[i]) := by
  refine ⟨serialEvalE_length F cost redundant pop, ?_⟩
  intro i h
  have hget := serialEvalE_getElem F cost redundant pop i h
  simp only [hget]
  by_cases ht : touchedE redundant pop[i] = true
  · have hc : redundant = true ∨ pop[i].flag = false := (touchedE_iff _ _).mp ht
    simp only [ht, if_true, hc, evalOneE, and_self]
  · have hc : ¬(redundant = true ∨ pop[i].flag = false) := fun hc => ht ((touchedE_iff _ _).mpr hc)
    simp only [ht, hc, if_false]
    trivial

/-- the count: `cost genome state` over the evaluated slots, states BEFORE evaluation -/
theorem count_delta_effect (F : Nat → Nat → Nat × Key) (cost : Nat → Nat → Nat) (redundant : Bool)
    (pop : List EInd) :
    (serialEvalE F cost redundant pop).2 =
      ((pop.filter fun i => redundant || !i.flag).map (fun i => cost i.genome i.state)).sum :=
  serialEvalE_snd F cost redundant pop

/-! ## 2. the multiprocess phase -/

/-- whatever order the pool hands the results back in (each submitted job exactly once), the
population (states included) and the reported count are those of serial evaluation -/
theorem multiprocess_phase_effect (F : Nat → Nat → Nat × Key) (cost : Nat → Nat → Nat)
    (redundant : Bool) (pop : List EInd)
    (order : List (Nat × EInd × Nat) → List (Nat × EInd × Nat))
    (hperm : (order (jobsE F cost redundant pop)).Perm (jobsE F cost redundant pop)) :
    multiprocessEvalE F cost redundant pop order = serialEvalE F cost redundant pop :=
  multiprocessEvalE_eq_serialEvalE F cost redundant pop order hperm

/-- hence every slot of a multiprocess evaluation keeps genome and age and, if evaluated, holds
the changed individual with the value the function returned for it -/
theorem multiprocess_slots_effect (F : Nat → Nat → Nat × Key) (cost : Nat → Nat → Nat)
    (redundant : Bool) (pop : List EInd)
    (order : List (Nat × EInd × Nat) → List (Nat × EInd × Nat))
    (hperm : (order (jobsE F cost redundant pop)).Perm (jobsE F cost redundant pop)) :
    (multiprocessEvalE F cost redundant pop order).1.length = pop.length ∧
    ∀ (k : Nat) (i : EInd), pop[k]? = some i →
      ∃ o, (multiprocessEvalE F cost redundant pop order).1[k]? = some o ∧
        o.genome = i.genome ∧ o.age = i.age ∧
        (redundant = true ∨ i.flag = false →
          o.state = (F i.genome i.state).1 ∧ o.fit = some (F i.genome i.state).2 ∧ o.flag = true) ∧
        (¬(redundant = true ∨ i.flag = false) → o = i) := by
  rw [multiprocess_phase_effect F cost redundant pop order hperm]
  refine ⟨serialEvalE_length F cost redundant pop, ?_⟩
  intro k i hget
  refine ⟨_, by rw [serialEvalE_getElem?, hget]; rfl, ?_⟩
  by_cases ht : touchedE redundant i = true
  · simp only [ht, if_true]
    exact ⟨rfl, rfl, fun _ => ⟨rfl, rfl, rfl⟩, fun h => absurd ((touchedE_iff _ _).mp ht) h⟩
  · simp only [ht]
    exact ⟨rfl, rfl, fun h => absurd ((touchedE_iff _ _).mpr h) ht, fun _ => rfl⟩

/-! ## 3. consistency -/

/-- the definitions the next theorems are about -/
theorem consistency_defs (F : Nat → Nat → Nat × Key) (i : EInd) :
    (Consistent F i ↔
      (i.flag = true → i.fit = some (F i.genome i.state).2 ∧ (F i.genome i.state).1 = i.state)) ∧
    (Idempotent F ↔ ∀ g s, F g (F g s).1 = ((F g s).1, (F g s).2)) ∧
    evalOneE F i =
      { i with state := (F i.genome i.state).1, fit := some (F i.genome i.state).2, flag := true } :=
  ⟨Iff.rfl, Iff.rfl, rfl⟩

/-- local optimization followed by a base evaluation is idempotent when the optimizer leaves an
optimized individual alone; a flagged consistent individual then carries the base fitness of the
individual as it stands -/
theorem wrapped_idempotent (opt : Nat → Nat → Nat) (base : Nat → Nat → Key)
    (h : ∀ g s, opt g (opt g s) = opt g s) :
    Idempotent (wrap opt base) ∧
    ∀ i, Consistent (wrap opt base) i → i.flag = true → i.fit = some (base i.genome i.state) :=
  ⟨wrap_idempotent opt base h, fun _ hc hf => consistent_wrap_base hc hf⟩

/-- after the phase (serial, hence multiprocess for every completion order) every slot holds its
old object or the evaluated one, every member is flagged, and every member is consistent, provided
the flagged members of the input were -/
theorem phase_consistent (F : Nat → Nat → Nat × Key) (cost : Nat → Nat → Nat) (redundant : Bool)
    (pop : List EInd) (hI : Idempotent F) (hpop : ∀ i ∈ pop, Consistent F i) :
    (∀ (k : Nat) (i : EInd), pop[k]? = some i →
      ∃ o, (serialEvalE F cost redundant pop).1[k]? = some o ∧
        ((o = i ∧ i.flag = true) ∨ o = evalOneE F i)) ∧
    (∀ o ∈ (serialEvalE F cost redundant pop).1, o.flag = true ∧ Consistent F o) ∧
    (∀ order : List (Nat × EInd × Nat) → List (Nat × EInd × Nat),
      (order (jobsE F cost redundant pop)).Perm (jobsE F cost redundant pop) →
      ∀ o ∈ (multiprocessEvalE F cost redundant pop order).1, o.flag = true ∧ Consistent F o) := by
  have hser : ∀ o ∈ (serialEvalE F cost redundant pop).1, o.flag = true ∧ Consistent F o :=
    fun o ho => evaluatedE_iff.mp (serialEvalE_all_evaluated hI cost redundant hpop o ho)
  refine ⟨?_, hser, ?_⟩
  · intro k i hget
    refine ⟨_, by rw [serialEvalE_getElem?, hget]; rfl, ?_⟩
    by_cases ht : touchedE redundant i = true
    · exact Or.inr (if_pos ht)
    · exact Or.inl ⟨if_neg ht, flag_of_not_touchedE ht⟩
  · intro order hperm
    rw [multiprocess_phase_effect F cost redundant pop order hperm]
    exact hser

/-- with `redundant = true`, or on a population with all flags cleared, nothing is asked of the
input: every member is flagged and consistent -/
theorem phase_consistent_fresh (F : Nat → Nat → Nat × Key) (cost : Nat → Nat → Nat) (redundant : Bool)
    (pop : List EInd) (hI : Idempotent F) (hfresh : redundant = true ∨ ∀ i ∈ pop, i.flag = false) :
    (∀ o ∈ (serialEvalE F cost redundant pop).1, o.flag = true ∧ Consistent F o) ∧
    (∀ order : List (Nat × EInd × Nat) → List (Nat × EInd × Nat),
      (order (jobsE F cost redundant pop)).Perm (jobsE F cost redundant pop) →
      ∀ o ∈ (multiprocessEvalE F cost redundant pop order).1, o.flag = true ∧ Consistent F o) := by
  have ht : ∀ i ∈ pop, touchedE redundant i = true := by
    intro i hi
    rcases hfresh with h | h
    · exact (touchedE_iff _ _).mpr (Or.inl h)
    · exact (touchedE_iff _ _).mpr (Or.inr (h i hi))
  have hser : ∀ o ∈ (serialEvalE F cost redundant pop).1, o.flag = true ∧ Consistent F o :=
    fun o ho => evaluatedE_iff.mp (serialEvalE_touched_evaluated hI cost redundant ht o ho)
  refine ⟨hser, ?_⟩
  intro order hperm
  rw [multiprocess_phase_effect F cost redundant pop order hperm]
  exact hser

/-- idempotence is needed: one evaluation by a function whose second call would change the
individual again leaves a flagged member that is not consistent -/
theorem idempotent_needed :
    ¬ Idempotent Ex.G ∧
    ¬ Consistent Ex.G (serialEvalE Ex.G (fun _ _ => 1) false [⟨0, 0, none, false, 0⟩]).1[0]! := by
  refine ⟨fun h => ?_, by decide⟩
  have := h 0 0
  revert this
  decide

/-! ## 4. sending back only the fitness value -/

/-- for every completion order, the lossy parent leaves in each evaluated slot the slot's OWN
object (its state untouched) with the value the function returned for the changed copy; the count
is right; and such a slot is consistent exactly when the function did not change the individual -/
theorem lossy_phase (F : Nat → Nat → Nat × Key) (cost : Nat → Nat → Nat) (redundant : Bool)
    (pop : List EInd) (order : List (Nat × EInd × Nat) → List (Nat × EInd × Nat))
    (hperm : (order (jobsE F cost redundant pop)).Perm (jobsE F cost redundant pop)) :
    (multiprocessEvalLossyE F cost redundant pop order).2 = (serialEvalE F cost redundant pop).2 ∧
    ∀ (k : Nat) (i : EInd), pop[k]? = some i →
      ∃ o, (multiprocessEvalLossyE F cost redundant pop order).1[k]? = some o ∧
        (redundant = true ∨ i.flag = false →
          o = { i with fit := some (F i.genome i.state).2, flag := true } ∧
          (Consistent F o ↔ (F i.genome i.state).1 = i.state)) ∧
        (¬(redundant = true ∨ i.flag = false) → o = i) := by
  refine ⟨multiprocessEvalLossyE_snd F cost redundant pop order hperm, ?_⟩
  intro k i hget
  rw [multiprocessEvalLossyE_fst F cost redundant pop order hperm]
  refine ⟨_, by rw [List.getElem?_map, hget]; rfl, ?_⟩
  by_cases ht : touchedE redundant i = true
  · simp only [ht, if_true]
    exact ⟨fun _ => ⟨rfl, consistent_setFitnessE_iff F i⟩, fun h => absurd ((touchedE_iff _ _).mp ht) h⟩
  · simp only [ht]
    exact ⟨fun h => absurd ((touchedE_iff _ _).mpr h) ht, fun _ => rfl⟩

/-- a fitness function that never changes the individual does not see the difference -/
theorem lossy_invisible_without_effect (F : Nat → Nat → Nat × Key) (cost : Nat → Nat → Nat)
    (redundant : Bool) (pop : List EInd) (order : List (Nat × EInd × Nat) → List (Nat × EInd × Nat))
    (hperm : (order (jobsE F cost redundant pop)).Perm (jobsE F cost redundant pop))
    (hpure : ∀ g s, (F g s).1 = s) :
    multiprocessEvalLossyE F cost redundant pop order = multiprocessEvalE F cost redundant pop order := by
  rw [multiprocess_phase_effect F cost redundant pop order hperm]
  apply Prod.ext
  · rw [multiprocessEvalLossyE_fst F cost redundant pop order hperm, serialEvalE_fst]
    apply List.map_congr_left
    intro i _
    by_cases ht : touchedE redundant i = true
    · rw [if_pos ht, if_pos ht]; exact setFitnessE_eq_evalOneE (hpure _ _)
    · rw [if_neg ht, if_neg ht]
  · exact multiprocessEvalLossyE_snd F cost redundant pop order hperm

/-- the counterexample: `Ex.F` optimizes (state 0 ↦ genome + 1) and returns the base fitness
`genome + 2 * state` of the optimized individual.  It is idempotent, the population is consistent,
the jobs come back reversed.  The lossy parent leaves slot 0 flagged with fitness 11 and state 0:
not consistent, and 11 is not the base fitness (3) of the individual the slot holds.  The real
write-back on the same input leaves every member flagged and consistent. -/
theorem lossy_breaks_consistency :
    Idempotent Ex.F ∧
    (∀ i ∈ Ex.pop, Consistent Ex.F i) ∧
    (List.reverse (jobsE Ex.F Ex.cost false Ex.pop)).Perm (jobsE Ex.F Ex.cost false Ex.pop) ∧
    (multiprocessEvalLossyE Ex.F Ex.cost false Ex.pop List.reverse).1[0]? =
      some ⟨3, 0, some (some 11), true, 4⟩ ∧
    (∃ o ∈ (multiprocessEvalLossyE Ex.F Ex.cost false Ex.pop List.reverse).1,
      o.flag = true ∧ ¬ Consistent Ex.F o ∧ o.fit ≠ some (Ex.base o.genome o.state)) ∧
    (∀ o ∈ (multiprocessEvalE Ex.F Ex.cost false Ex.pop List.reverse).1,
      o.flag = true ∧ Consistent Ex.F o ∧ o.fit = some (Ex.base o.genome o.state)) := by
  refine ⟨Ex.F_idempotent, by decide, List.reverse_perm _, by decide, by decide, by decide⟩

/-! ## 5. non-vacuity -/

/-- the data: optimizer, base fitness, wrapped function, cost, population -/
example : Ex.F 3 0 = (4, some 11) ∧ Ex.F 3 4 = (4, some 11) ∧ Ex.F 4 9 = (9, some 22) ∧
    Ex.cost 3 0 = 3 ∧ Ex.cost 4 9 = 1 ∧ Ex.pop =
    [⟨3, 0, some (some 99), false, 4⟩, ⟨5, 6, some (some 17), true, 2⟩, ⟨7, 0, none, false, 0⟩,
      ⟨4, 9, none, false, 1⟩] := by decide

/-- serial, non-redundant: slots 0, 2, 3 evaluated (state of 0 and 2 changed, stale value of slot 0
replaced), slot 1 untouched, count = 3 + 3 + 1 (costs at the states before evaluation) -/
example : serialEvalE Ex.F Ex.cost false Ex.pop =
    ([⟨3, 4, some (some 11), true, 4⟩, ⟨5, 6, some (some 17), true, 2⟩, ⟨7, 8, some (some 23), true, 0⟩,
      ⟨4, 9, some (some 22), true, 1⟩], 7) := by decide

/-- redundant: slot 1 is re-evaluated too (unchanged, `Ex.F` is idempotent) and counted -/
example : serialEvalE Ex.F Ex.cost true Ex.pop =
    ([⟨3, 4, some (some 11), true, 4⟩, ⟨5, 6, some (some 17), true, 2⟩, ⟨7, 8, some (some 23), true, 0⟩,
      ⟨4, 9, some (some 22), true, 1⟩], 8) := by decide

/-- a second, redundant phase on the result costs one invocation per member (nothing left to
optimize) and changes nothing -/
example : serialEvalE Ex.F Ex.cost true (serialEvalE Ex.F Ex.cost false Ex.pop).1 =
    ((serialEvalE Ex.F Ex.cost false Ex.pop).1, 4) := by decide

/-- three jobs, with their slots; each carries the changed copy -/
example : (jobsE Ex.F Ex.cost false Ex.pop).map (·.1) = [0, 2, 3] ∧
    (jobsE Ex.F Ex.cost false Ex.pop).map (·.2.1.state) = [4, 8, 9] ∧
    (jobsE Ex.F Ex.cost false Ex.pop).map (·.2.2) = [3, 3, 1] := by decide

/-- results consumed in reversed completion order: same population, same count (redundant and
not) -/
example : multiprocessEvalE Ex.F Ex.cost false Ex.pop List.reverse = serialEvalE Ex.F Ex.cost false Ex.pop ∧
    multiprocessEvalE Ex.F Ex.cost true Ex.pop List.reverse = serialEvalE Ex.F Ex.cost true Ex.pop := by
  decide

/-- the hypothesis of `multiprocess_phase_effect` is satisfiable by a non-trivial order, and the
theorem gives the same equation -/
example : multiprocessEvalE Ex.F Ex.cost false Ex.pop List.reverse = serialEvalE Ex.F Ex.cost false Ex.pop :=
  multiprocess_phase_effect Ex.F Ex.cost false Ex.pop List.reverse (List.reverse_perm _)

/-- the hypothesis is needed: a pool that loses a result does not reproduce serial evaluation -/
example : multiprocessEvalE Ex.F Ex.cost false Ex.pop (List.drop 1) ≠ serialEvalE Ex.F Ex.cost false Ex.pop := by
  decide

/-- the hypotheses of `phase_consistent` hold of the data, so its conclusion is about something -/
example : ∀ o ∈ (multiprocessEvalE Ex.F Ex.cost false Ex.pop List.reverse).1,
    o.flag = true ∧ Consistent Ex.F o :=
  (phase_consistent Ex.F Ex.cost false Ex.pop Ex.F_idempotent (by decide)).2.2 List.reverse
    (List.reverse_perm _)

/-- the hypothesis on the input is needed when `redundant = false`: a flagged member with a wrong
value stays as it is -/
example : ¬ Consistent Ex.F ⟨5, 6, some (some 0), true, 2⟩ ∧
    (serialEvalE Ex.F Ex.cost false [⟨5, 6, some (some 0), true, 2⟩]).1 = [⟨5, 6, some (some 0), true, 2⟩] ∧
    (serialEvalE Ex.F Ex.cost true [⟨5, 6, some (some 0), true, 2⟩]).1 = [⟨5, 6, some (some 17), true, 2⟩] := by
  decide

/-- the lossy parent reports the right count and the right fitness values, only the states differ -/
example : (multiprocessEvalLossyE Ex.F Ex.cost false Ex.pop List.reverse).2 = 7 ∧
    (multiprocessEvalLossyE Ex.F Ex.cost false Ex.pop List.reverse).1.map (·.fit) =
      (serialEvalE Ex.F Ex.cost false Ex.pop).1.map (·.fit) ∧
    (multiprocessEvalLossyE Ex.F Ex.cost false Ex.pop List.reverse).1.map (·.state) = [0, 6, 0, 9] ∧
    (serialEvalE Ex.F Ex.cost false Ex.pop).1.map (·.state) = [4, 6, 8, 9] := by decide

end Bingo.C19Effect
