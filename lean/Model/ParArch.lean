import Model.Generated.Consts
/-!
# Message protocol of `ParallelArchipelago` (`bingo/evolutionary_optimizers/parallel_archipelago.py`)

An executable transition system for ONE call of `_non_blocking_execution(num_steps)` (with the repair
of finding F10: rank 0 first collects one age of every helper and derives `target_total_age` from the
island ages, not from the archipelago's own age) on `R` MPI ranks
with buffered sends (an `isend` of a small message completes at once; the message waits in the
destination's mailbox), non-overtaking delivery, and `iprobe`/`recv`/`Barrier` as in MPI.

* rank 0 runs `_non_blocking_execution_main`, ranks `1 … R-1` run `_non_blocking_execution_helper`;
* one transition = one communication operation of one rank (or the completion of one
  `island.evolve(sync_frequency)` slice, or a scheduling point inside such a slice);
* the trace validator (`Driver/OpsParArch.lean`, op `partrace`) replays event logs of the real Python
  code, produced on the deterministic mpi4py stub, through `step`.

The second part models `_get_migration_partner` and the `sendrecv` population exchange.

Everything here is core Lean (no imports besides the generated constants) because it is linked into
`bvdriver`.
-/
namespace Bingo
namespace ParArch

/-- message tags, `AGE_UPDATE = 2`, `EXIT_NOTIFICATION = 3`, `MIGRATION = 4` at the top of
`parallel_archipelago.py` (extracted by the translator into `Gen.Consts`) -/
def tagAge : Nat := Gen.Consts.AGE_UPDATE
def tagExit : Nat := Gen.Consts.EXIT_NOTIFICATION
def tagMigration : Nat := Gen.Consts.MIGRATION

/-- program counter of rank 0 inside `_non_blocking_execution_main` -/
inductive Pc0 where
  /-- before `self.comm.recv(source=k, tag=AGE_UPDATE)` in the initial
  `for source in range(1, self.comm_size)` loop that fills `total_age` -/
  | collecting (k : Nat)
  /-- in the `while sum(total_age.values()) < target_total_age` body, before/inside
  `self.island.evolve(sync)` -/
  | evolving
  /-- in the `while self.comm.iprobe(ANY_SOURCE, AGE_UPDATE, status)` loop of `_gather_updated_ages`
  called from the main loop; `some q`: the probe found a message of `q`, `comm.recv(q)` is next -/
  | draining (pending : Option Nat)
  /-- in `_send_exit_notifications`, `destination = k` is next -/
  | sendingExit (k : Nat)
  /-- before `self.comm.Barrier()` -/
  | atBarrier
  /-- inside `self.comm.Barrier()`, arrival registered -/
  | inBarrier
  /-- in the last `_gather_updated_ages` (after the barrier) -/
  | finalDrain (pending : Option Nat)
  /-- `_non_blocking_execution_main` has returned -/
  | done
  deriving DecidableEq, Hashable, Repr

/-- program counter of a helper rank inside `_non_blocking_execution_helper` -/
inductive PcH where
  /-- before the first `self._send_updated_age()` -/
  | sendFirst
  /-- before `comm.iprobe(source=0, tag=EXIT_NOTIFICATION)` in `_has_exit_notification` -/
  | checking
  /-- the probe was positive, before `comm.recv(source=0, tag=EXIT_NOTIFICATION)` -/
  | recvExit
  /-- in the loop body, before/inside `self.island.evolve(sync)` -/
  | evolving
  /-- before the `_send_updated_age()` that ends the loop body -/
  | sending
  /-- before `self.comm.Barrier()` -/
  | atBarrier
  /-- inside the barrier -/
  | inBarrier
  /-- `_non_blocking_execution_helper` has returned -/
  | done
  deriving DecidableEq, Hashable, Repr

/-- global state of one `_non_blocking_execution` call. Lists indexed by rank have length `R`
(entry 0 of `pcH` and `exitQ` is unused). -/
structure State where
  /-- `comm.Get_size()` -/
  R : Nat
  /-- `self._sync_frequency` (after the adjustment in `_step_through_generations`) -/
  sync : Nat
  /-- the argument `num_steps` of `_non_blocking_execution` -/
  numSteps : Nat
  /-- `target_total_age = sum(total_age.values()) + num_steps * self.comm_size` of
  `_non_blocking_execution_main`; 0 until the collecting loop has finished -/
  goal : Nat
  pc0 : Pc0
  pcH : List PcH
  /-- AGE_UPDATE messages waiting at rank 0, arrival order, `(source, age)` = the dict `{rank: age}` -/
  mbox : List (Nat × Nat)
  /-- number of EXIT_NOTIFICATION messages waiting at each helper -/
  exitQ : List Nat
  /-- who has entered the barrier -/
  arrived : List Bool
  /-- `island.generational_age` of every rank -/
  ages : List Nat
  /-- rank 0's local dict `total_age` -/
  table : List (Option Nat)
  /-- ghost: `island.generational_age` of every rank at the start of the call (never changed; only
  used to state that the mean island age advances by at least `num_steps`) -/
  ages0 : List Nat
  deriving BEq, Hashable, Repr

/-- an observable event of the run: which rank moved, and what it did / saw -/
inductive Action where
  /-- `island.evolve(sync)` returned on rank `r`; its age grew by `k` (observed) -/
  | evolve (r k : Nat)
  /-- scheduling point inside `island.evolve` on rank `r` (harness speed model; no protocol effect) -/
  | tick (r : Nat)
  /-- `comm.isend(_, dest, tag)` (+ `req.Wait()`, immediate for buffered sends) -/
  | isend (r dest tag : Nat)
  /-- `comm.iprobe(source, tag)`; `src = none` is `MPI.ANY_SOURCE`; `found` = source of the matched
  message (the observed result) -/
  | iprobe (r : Nat) (src : Option Nat) (tag : Nat) (found : Option Nat)
  /-- `comm.recv(source=src, tag)` -/
  | recv (r src tag : Nat)
  /-- arrival at `comm.Barrier()` -/
  | barrierEnter (r : Nat)
  /-- return from `comm.Barrier()` -/
  | barrierLeave (r : Nat)
  deriving DecidableEq, Repr

/-- the rank that performs the action -/
def Action.rank : Action → Nat
  | .evolve r _ | .tick r | .isend r _ _ | .iprobe r _ _ _ | .recv r _ _ | .barrierEnter r | .barrierLeave r => r

/-- `sum(total_age.values())` in `_non_blocking_execution_main` (absent keys contribute nothing) -/
def tableSum (t : List (Option Nat)) : Nat := (t.map fun o => o.getD 0).sum

/-- the loop condition `sum(total_age.values()) < target_total_age` -/
def belowTarget (s : State) : Bool := tableSum s.table < s.goal

/-- position in `_send_exit_notifications`' `for destination in range(1, comm_size)`; after the last
destination comes `self.comm.Barrier()` -/
def afterExit (R k : Nat) : Pc0 := if k < R then .sendingExit k else .atBarrier

/-- the end of the collecting loop of `_non_blocking_execution_main`:
`target_total_age = sum(total_age.values()) + num_steps * self.comm_size`, then the first evaluation of
`while sum(total_age.values()) < target_total_age` -/
def finishCollect (s : State) : State :=
  let g := tableSum s.table + s.numSteps * s.R
  { s with goal := g, pc0 := if tableSum s.table < g then .evolving else afterExit s.R 1 }

/-- all ranks at the start of `_non_blocking_execution(numSteps)`: rank 0 has executed
`total_age = {0: self.island.generational_age}` and stands before `recv(source=1, AGE_UPDATE)`, the first
blocking receive of the collecting loop -/
def collectStart (R sync numSteps : Nat) (ages : List Nat) : State :=
  { R := R, sync := sync, numSteps := numSteps, goal := 0,
    pc0 := .collecting 1,
    pcH := (List.range R).map fun r => if r = 0 then PcH.done else PcH.sendFirst,
    mbox := [], exitQ := List.replicate R 0, arrived := List.replicate R false,
    ages := (List.range R).map fun r => ages.getD r 0,
    table := (List.replicate R none).set 0 (some (ages.getD 0 0)),
    ages0 := (List.range R).map fun r => ages.getD r 0 }

/-- start of `_non_blocking_execution(numSteps)`; with a single rank the collecting loop
`for source in range(1, self.comm_size)` is empty -/
def initial (R sync numSteps : Nat) (ages : List Nat) : State :=
  if 1 < R then collectStart R sync numSteps ages else finishCollect (collectStart R sync numSteps ages)

/-- age of rank `r` -/
def age (s : State) (r : Nat) : Nat := s.ages.getD r 0

/-- pc of helper `r` -/
def pcOf (s : State) (r : Nat) : PcH := s.pcH.getD r .done

/-- all ranks have called `Barrier()` -/
def allArrived (s : State) : Bool := s.arrived.all id

/-- source of the first waiting AGE_UPDATE message = result of `iprobe(ANY_SOURCE, AGE_UPDATE)` -/
def headSource (s : State) : Option Nat := s.mbox.head?.map (·.1)

/-- remove the first message of `src` from rank 0's mailbox (`comm.recv(source=src, tag=AGE_UPDATE)`) -/
def takeFrom (src : Nat) : List (Nat × Nat) → Option (Nat × List (Nat × Nat))
  | [] => none
  | (q, a) :: rest =>
    if q = src then some (a, rest)
    else match takeFrom src rest with
      | none => none
      | some (a', rest') => some (a', (q, a) :: rest')

/-- one step of rank 0 (`_non_blocking_execution_main`, `_gather_updated_ages`,
`_send_exit_notifications`) -/
def step0 (s : State) : Action → Option State
  | .tick _ => if s.pc0 == .evolving then some s else none
  | .evolve _ k =>
    -- `self.island.evolve(self._sync_frequency, …)`; then `_gather_updated_ages` starts with
    -- `total_age.update({0: self.island.generational_age})`
    if s.pc0 == .evolving then
      let a := age s 0 + k
      some { s with ages := s.ages.set 0 a, table := s.table.set 0 (some a), pc0 := .draining none }
    else none
  | .iprobe _ src tag found =>
    -- `while self.comm.iprobe(source=MPI.ANY_SOURCE, tag=AGE_UPDATE, status=status)`
    if src != none || tag != tagAge || found != headSource s then none
    else match s.pc0, found with
      | .draining none, some q => some { s with pc0 := .draining (some q) }
      | .draining none, none =>
        -- loop exit of `_gather_updated_ages`; `while sum(total_age.values()) < target_total_age`
        some { s with pc0 := if belowTarget s then .evolving else afterExit s.R 1 }
      | .finalDrain none, some q => some { s with pc0 := .finalDrain (some q) }
      | .finalDrain none, none => some { s with pc0 := .done }
      | _, _ => none
  | .recv _ src tag =>
    -- `data = self.comm.recv(source=status.Get_source(), tag=AGE_UPDATE)`; `total_age.update(data)`
    if tag != tagAge then none
    else match s.pc0 with
      | .collecting k =>
        -- `total_age.update(self.comm.recv(source=source, tag=AGE_UPDATE))` of the collecting loop:
        -- blocking, takes the oldest waiting message of `source` (non-overtaking per source and tag)
        if k != src then none else
        match takeFrom src s.mbox with
        | none => none   -- blocked
        | some (a, rest) =>
          let s1 := { s with mbox := rest, table := s.table.set src (some a) }
          some (if k + 1 < s.R then { s1 with pc0 := .collecting (k + 1) } else finishCollect s1)
      | .draining (some q) =>
        if q != src then none else
        match takeFrom src s.mbox with
        | none => none   -- blocked
        | some (a, rest) => some { s with mbox := rest, table := s.table.set src (some a), pc0 := .draining none }
      | .finalDrain (some q) =>
        if q != src then none else
        match takeFrom src s.mbox with
        | none => none
        | some (a, rest) => some { s with mbox := rest, table := s.table.set src (some a), pc0 := .finalDrain none }
      | _ => none
  | .isend _ dest tag =>
    -- `req = self.comm.isend(True, dest=destination, tag=EXIT_NOTIFICATION); req.Wait()`
    match s.pc0 with
    | .sendingExit k =>
      if dest != k || tag != tagExit || !(k < s.R) then none
      else some { s with exitQ := s.exitQ.set k (s.exitQ.getD k 0 + 1), pc0 := afterExit s.R (k + 1) }
    | _ => none
  | .barrierEnter _ =>
    if s.pc0 == .atBarrier then some { s with arrived := s.arrived.set 0 true, pc0 := .inBarrier } else none
  | .barrierLeave _ =>
    -- return from `self.comm.Barrier()`; then `_gather_updated_ages(total_age)` updates key 0 first
    if s.pc0 == .inBarrier && allArrived s then
      some { s with table := s.table.set 0 (some (age s 0)), pc0 := .finalDrain none }
    else none

/-- one step of helper `r` (`_non_blocking_execution_helper`, `_has_exit_notification`,
`_send_updated_age`) -/
def stepH (s : State) (r : Nat) : Action → Option State
  | .tick _ => if pcOf s r == .evolving then some s else none
  | .evolve _ k =>
    -- `self.island.evolve(self._sync_frequency, …)` in the helper loop
    if pcOf s r == .evolving then
      some { s with ages := s.ages.set r (age s r + k), pcH := s.pcH.set r .sending }
    else none
  | .isend _ dest tag =>
    -- `_send_updated_age`: `req = self.comm.isend({rank: age}, dest=0, tag=AGE_UPDATE); req.Wait()`
    if dest != 0 || tag != tagAge then none
    else if pcOf s r == .sendFirst || pcOf s r == .sending then
      some { s with mbox := s.mbox ++ [(r, age s r)], pcH := s.pcH.set r .checking }
    else none
  | .iprobe _ src tag found =>
    -- `_has_exit_notification`: `if self.comm.iprobe(source=0, tag=EXIT_NOTIFICATION)`
    if src != some 0 || tag != tagExit || pcOf s r != .checking then none
    else
      let present := s.exitQ.getD r 0 > 0
      if found != (if present then some 0 else none) then none
      else some { s with pcH := s.pcH.set r (if present then .recvExit else .evolving) }
  | .recv _ src tag =>
    -- `_ = self.comm.recv(source=0, tag=EXIT_NOTIFICATION)`; the `while not …` loop ends
    if src != 0 || tag != tagExit || pcOf s r != .recvExit then none
    else if s.exitQ.getD r 0 = 0 then none   -- blocked
    else some { s with exitQ := s.exitQ.set r (s.exitQ.getD r 0 - 1), pcH := s.pcH.set r .atBarrier }
  | .barrierEnter _ =>
    if pcOf s r == .atBarrier then
      some { s with arrived := s.arrived.set r true, pcH := s.pcH.set r .inBarrier }
    else none
  | .barrierLeave _ =>
    if pcOf s r == .inBarrier && allArrived s then some { s with pcH := s.pcH.set r .done } else none

/-- the transition function: `none` = the action is not enabled in `s` (wrong rank state, blocked, or
an observable that differs from what the state determines). Mirrors `_non_blocking_execution`'s
dispatch on `self.comm_rank == 0`. -/
def step (s : State) (a : Action) : Option State :=
  let r := a.rank
  if r = 0 then step0 s a
  else if r < s.R then stepH s r a
  else none

/-- the next protocol action of rank `r` as determined by the state (an `evolve` slice is assumed to
add exactly `sync` generations, which is what `Island.evolve(sync)` does); `none` = rank is done or
blocked (in `recv` without message / in `Barrier` waiting for others) -/
def nextAction (s : State) (r : Nat) : Option Action :=
  if r = 0 then
    match s.pc0 with
    | .collecting k => if (takeFrom k s.mbox).isSome then some (.recv 0 k tagAge) else none
    | .evolving => some (.evolve 0 s.sync)
    | .draining none | .finalDrain none => some (.iprobe 0 none tagAge (headSource s))
    | .draining (some q) | .finalDrain (some q) =>
      if (takeFrom q s.mbox).isSome then some (.recv 0 q tagAge) else none
    | .sendingExit k => some (.isend 0 k tagExit)
    | .atBarrier => some (.barrierEnter 0)
    | .inBarrier => if allArrived s then some (.barrierLeave 0) else none
    | .done => none
  else if r < s.R then
    match pcOf s r with
    | .sendFirst | .sending => some (.isend r 0 tagAge)
    | .checking => some (.iprobe r (some 0) tagExit (if s.exitQ.getD r 0 > 0 then some 0 else none))
    | .recvExit => if s.exitQ.getD r 0 > 0 then some (.recv r 0 tagExit) else none
    | .evolving => some (.evolve r s.sync)
    | .atBarrier => some (.barrierEnter r)
    | .inBarrier => if allArrived s then some (.barrierLeave r) else none
    | .done => none
  else none

/-- rank `r` can move: its next action exists and `step` accepts it -/
def enabled (s : State) (r : Nat) : Bool :=
  match nextAction s r with
  | none => false
  | some a => (step s a).isSome

/-- `_non_blocking_execution` has returned on every rank -/
def isFinal (s : State) : Bool :=
  s.pc0 == .done && (List.range s.R).all fun r => r = 0 || pcOf s r == .done

/-- invariant "no deadlock": unless everybody has returned, somebody can move -/
def noDeadlock (s : State) : Bool := isFinal s || (List.range s.R).any (enabled s)

/-- invariant "clean return": once everybody has returned no AGE_UPDATE and no EXIT_NOTIFICATION
message is left for the next call -/
def cleanReturn (s : State) : Bool := !isFinal s || (s.mbox.isEmpty && s.exitQ.all (· == 0))

/-- rank 0 has left the `while sum(total_age.values()) < target_total_age` loop -/
def pastLoop (s : State) : Bool :=
  match s.pc0 with
  | .collecting _ | .evolving | .draining _ => false
  | _ => true

/-- invariant "ages": once rank 0 has left its loop (in particular at return) the sum of the island
ages is at least `target_total_age`: `goal ≤ Σ ages` -/
def agesOk (s : State) : Bool := !pastLoop s || s.goal ≤ s.ages.sum

/-- invariant "advance" (the repaired property): once rank 0 has left its loop (in particular at
return) the mean island age has advanced by at least `num_steps` since the start of THIS call:
`Σ ages0 + R * numSteps ≤ Σ ages` -/
def advanceOk (s : State) : Bool := !pastLoop s || s.ages0.sum + s.R * s.numSteps ≤ s.ages.sum

/-- auxiliary invariant: what rank 0 knows (`total_age`) and what is in flight never exceeds the true
island ages (ages only grow) -/
def tableSound (s : State) : Bool :=
  ((List.range s.R).all fun r => (s.table.getD r none).getD 0 ≤ age s r) &&
  s.mbox.all fun m => m.2 ≤ age s m.1

/-- shape invariant of the state vectors -/
def wellFormed (s : State) : Bool :=
  s.pcH.length = s.R && s.exitQ.length = s.R && s.arrived.length = s.R &&
  s.ages.length = s.R && s.table.length = s.R && s.ages0.length = s.R &&
  s.mbox.all fun m => 0 < m.1 && m.1 < s.R

/-- all executable invariants of one state -/
def invariants (s : State) : List (String × Bool) :=
  [("wellFormed", wellFormed s), ("noDeadlock", noDeadlock s), ("cleanReturn", cleanReturn s),
   ("agesOk", agesOk s), ("advanceOk", advanceOk s), ("tableSound", tableSound s)]

/-- name of the first violated invariant -/
def firstBroken (s : State) : Option String := ((invariants s).find? fun p => !p.2).map (·.1)

/-! ## bounded exhaustive exploration (sanity check of the model itself) -/

/-- successor states under the canonical actions (`evolve` adds `sync`, no ticks) -/
def successors (s : State) : List State :=
  (List.range s.R).filterMap fun r => (nextAction s r).bind (step s)

/-- ranks whose canonical action exists but is rejected by `step` (must be none: model self-consistency) -/
def inconsistentRanks (s : State) : Nat :=
  ((List.range s.R).filter fun r => match nextAction s r with
    | none => false
    | some a => (step s a).isNone).length

/-- counters of the bounded exploration (`parexplore`) -/
structure Stats where
  states : Nat := 0
  transitions : Nat := 0
  deadlocks : Nat := 0
  finals : Nat := 0
  uncleanFinals : Nat := 0
  badAges : Nat := 0
  unsound : Nat := 0
  inconsistent : Nat := 0
  frontier : Nat := 0
  deriving Repr

/-- visited set: hash buckets -/
structure Seen where
  buckets : Array (List State)

/-- empty visited set (exploration infrastructure, no Python counterpart) -/
def Seen.empty : Seen := ⟨Array.replicate 16384 []⟩

/-- bucket of a state (exploration infrastructure) -/
def Seen.slot (sn : Seen) (s : State) : Nat := (hash s).toNat % sn.buckets.size

/-- membership in the visited set (exploration infrastructure) -/
def Seen.contains (sn : Seen) (s : State) : Bool := (sn.buckets.getD (sn.slot s) []).any (· == s)

/-- add to the visited set (exploration infrastructure) -/
def Seen.insert (sn : Seen) (s : State) : Seen :=
  let i := sn.slot s
  ⟨sn.buckets.setIfInBounds i (s :: sn.buckets.getD i [])⟩

/-- account for one newly discovered state -/
def Stats.visit (st : Stats) (s : State) : Stats :=
  { st with
    states := st.states + 1
    deadlocks := st.deadlocks + (if noDeadlock s then 0 else 1)
    finals := st.finals + (if isFinal s then 1 else 0)
    uncleanFinals := st.uncleanFinals + (if cleanReturn s then 0 else 1)
    badAges := st.badAges + (if agesOk s && advanceOk s then 0 else 1)
    unsound := st.unsound + (if tableSound s && wellFormed s then 0 else 1)
    inconsistent := st.inconsistent + inconsistentRanks s }

/-- expand one BFS layer: returns (seen, stats, next frontier) -/
def expandLayer (seen : Seen) (st : Stats) (layer : List State) : Seen × Stats × List State :=
  layer.foldl (init := (seen, st, [])) fun (seen, st, nxt) s =>
    (successors s).foldl (init := (seen, { st with transitions := st.transitions }, nxt)) fun (seen, st, nxt) t =>
      let st := { st with transitions := st.transitions + 1 }
      if seen.contains t then (seen, st, nxt) else (seen.insert t, st.visit t, t :: nxt)

/-- breadth-first exploration of all states reachable in at most `depth` canonical steps -/
def exploreFrom (seen : Seen) (st : Stats) (layer : List State) : Nat → Stats
  | 0 => { st with frontier := layer.length }
  | d + 1 =>
    match layer with
    | [] => { st with frontier := 0 }
    | _ =>
      let (seen, st, nxt) := expandLayer seen st layer
      exploreFrom seen st nxt d

/-- `parexplore`: explore one call from its initial state -/
def explore (R sync numSteps depth : Nat) (ages : List Nat := []) : Stats :=
  let s0 := initial R sync numSteps ages
  exploreFrom (Seen.empty.insert s0) (({} : Stats).visit s0) [s0] depth

/-! ## Migration: `_get_migration_partner` and `_population_exchange_program` -/

/-- `_get_migration_partner`: `order` is the broadcast `island_partners` list; consecutive pairs are
partners, the last one of an odd-length list has none. `none` = no partner (or rank absent). -/
def partner (order : List Nat) (rank : Nat) : Option Nat :=
  match order.findIdx? (· == rank) with
  | none => none
  | some i =>
    if i % 2 = 0 then
      -- `partner_index = island_index + 1; if partner_index < self.comm_size`
      if i + 1 < order.length then order[i + 1]? else none
    else order[i - 1]?

/-- `order` is a permutation of `0 … R-1` (what `_shuffle_island_indices` produces) -/
def isPermutation (order : List Nat) : Bool :=
  (List.range order.length).all fun r => (order.filter (· == r)).length = 1

/-- the partner relation is a symmetric, irreflexive matching leaving at most one rank (exactly one
iff `R` is odd) without partner -/
def partnerSymmetric (order : List Nat) : Bool :=
  let R := order.length
  ((List.range R).all fun r =>
    match partner order r with
    | none => true
    | some p => p != r && p < R && partner order p == some r) &&
  ((List.range R).filter fun r => (partner order r).isNone).length = R % 2

/-- Python `int(round(0.5 * n))` (round half to even) = number of individuals dumped by
`island.dump_fraction_of_population(0.5)` -/
def halfRound (n : Nat) : Nat :=
  let q := n / 2
  if n % 2 = 0 then q else if q % 2 = 0 then q else q + 1

/-- per-rank progress in `_population_exchange_program` -/
inductive XPc where
  /-- before the send half of `comm.sendrecv` (population already dumped) -/
  | toSend
  /-- send half done, waiting for the partner's message -/
  | toRecv
  /-- exchanged (or no partner) -/
  | done
  deriving DecidableEq, Hashable, Repr

/-- state of the exchange on all ranks: what each island holds, what it is about to send, what is in
flight (`(source, dest, individuals)`, tag MIGRATION) -/
structure XState where
  partners : List (Option Nat)
  pcs : List XPc
  pops : List (List Nat)
  outgoing : List (List Nat)
  inflight : List (Nat × Nat × List Nat)
  deriving BEq, Hashable, Repr

/-- `_coordinate_migration_between_islands` up to the `sendrecv`: every rank with a partner has dumped
`halfRound len` individuals (the shuffle only permutes, so the front part stands for any subset) -/
def xinitial (order : List Nat) (pops : List (List Nat)) : XState :=
  let R := order.length
  let ps := (List.range R).map (partner order)
  { partners := ps,
    pcs := ps.map fun p => if p.isSome then XPc.toSend else XPc.done,
    pops := (List.range R).map fun r =>
      let pop := pops.getD r []
      if (ps.getD r none).isSome then pop.drop (halfRound pop.length) else pop,
    outgoing := (List.range R).map fun r =>
      let pop := pops.getD r []
      if (ps.getD r none).isSome then pop.take (halfRound pop.length) else [],
    inflight := [] }

/-- first in-flight message from `src` to `dst` -/
def xtake (src dst : Nat) : List (Nat × Nat × List Nat) → Option (List Nat × List (Nat × Nat × List Nat))
  | [] => none
  | (a, b, m) :: rest =>
    if a = src && b = dst then some (m, rest)
    else match xtake src dst rest with
      | none => none
      | some (m', rest') => some (m', (a, b, m) :: rest')

/-- one step of rank `r` in `comm.sendrecv(population_to_send, dest=partner, sendtag=MIGRATION,
source=partner, recvtag=MIGRATION)` followed by `self.island.population += received_population` -/
def xstep (s : XState) (r : Nat) : Option XState :=
  match s.partners.getD r none, s.pcs.getD r .done with
  | some p, .toSend =>
    some { s with inflight := s.inflight ++ [(r, p, s.outgoing.getD r [])], pcs := s.pcs.set r .toRecv }
  | some p, .toRecv =>
    match xtake p r s.inflight with
    | none => none    -- blocked until the partner's send half
    | some (m, rest) =>
      some { s with inflight := rest, pops := s.pops.set r (s.pops.getD r [] ++ m), pcs := s.pcs.set r .done }
  | _, _ => none

/-- every rank has returned from `_population_exchange_program` (or had no partner) -/
def xFinal (s : XState) : Bool := s.pcs.all (· == .done)

/-- some rank can proceed in `comm.sendrecv` unless all are through -/
def xNoDeadlock (s : XState) : Bool := xFinal s || (List.range s.pcs.length).any fun r => (xstep s r).isSome

/-- insertion sort (for multiset comparison) -/
def sortNats : List Nat → List Nat
  | [] => []
  | x :: xs =>
    let rec ins (x : Nat) : List Nat → List Nat
      | [] => [x]
      | y :: ys => if x ≤ y then x :: y :: ys else y :: ins x ys
    ins x (sortNats xs)

/-- C11 (parallel clause) at a final state: nothing in flight, the multiset of individuals is the
initial one, and every island has the size of its partner's initial size minus/plus the halves,
i.e. sizes are conserved whenever partners have equal sizes -/
def xConserved (pops0 : List (List Nat)) (s : XState) : Bool :=
  s.inflight.isEmpty && sortNats pops0.flatten == sortNats s.pops.flatten

/-- sizes after the exchange equal the sizes before (true for equal-sized partners) -/
def xSizesKept (pops0 : List (List Nat)) (s : XState) : Bool :=
  pops0.map List.length == s.pops.map List.length

/-- exhaustive exploration of all interleavings of the exchange; returns
(states, deadlocks, finals, finals violating conservation, finals violating size conservation) -/
def xexplore (order : List Nat) (pops0 : List (List Nat)) : Nat × Nat × Nat × Nat × Nat :=
  let s0 := xinitial order pops0
  let R := order.length
  let rec go (fuel : Nat) (layer : List XState) (acc : Nat × Nat × Nat × Nat × Nat) : Nat × Nat × Nat × Nat × Nat :=
    match fuel with
    | 0 => acc
    | fuel + 1 =>
      match layer with
      | [] => acc
      | _ =>
        let acc := layer.foldl (init := acc) fun (n, d, f, bc, bs) s =>
          (n + 1, d + (if xNoDeadlock s then 0 else 1), f + (if xFinal s then 1 else 0),
           bc + (if xFinal s && !xConserved pops0 s then 1 else 0),
           bs + (if xFinal s && !xSizesKept pops0 s then 1 else 0))
        let nxt := layer.foldl (init := ([] : List XState)) fun nxt s =>
          ((List.range R).filterMap (xstep s)).foldl (init := nxt) fun nxt t =>
            if nxt.any (· == t) then nxt else t :: nxt
        go fuel nxt acc
  go (2 * R + 1) [s0] (0, 0, 0, 0, 0)

end ParArch
end Bingo
