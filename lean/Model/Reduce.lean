import Model.Stack
import Model.Ops
/-!
# `simplification_backend.py`: `get_utilized_commands` and `reduce_stack`

`none` = Python raises (IndexError on an empty stack / out-of-range parameter, KeyError on an
unknown node or on a parameter that is not an earlier utilized row).
-/
namespace Bingo
namespace Reduce

/-- one iteration of the loop of `get_utilized_commands` at row `j` (Python's `stack[-i]`, `j = N-i`) -/
def utilStep (s : Stack) (util : List Bool) (j : Nat) : Option (List Bool) :=
  match s[j]?, util[j]? with
  | some cmd, some true =>
    match Ops.isTerminal cmd.node with
    | none => none
    | some true => some util
    | some false =>
      match pyIdx util.length cmd.p1 with
      | none => none
      | some a =>
        let util1 := util.set a true
        match Ops.isArity2 cmd.node with
        | none => none
        | some false => some util1
        | some true =>
          match pyIdx util.length cmd.p2 with
          | none => none
          | some b => some (util1.set b true)
  | some _, some false => some util
  | _, _ => none

/-- rows `k, k-1, …, 1` (row 0 is never expanded by the Python loop) -/
def utilLoop (s : Stack) : Nat → List Bool → Option (List Bool)
  | 0, util => some util
  | k+1, util =>
    match utilStep s util (k+1) with
    | none => none
    | some u => utilLoop s k u

/-- `get_utilized_commands(stack)` -/
def utilized (s : Stack) : Option (List Bool) :=
  match s.length with
  | 0 => none
  | n+1 => utilLoop s n (List.replicate n false ++ [true])

/-- `reduced_param_map[p]`: a dict keyed by the *literal* old row number -/
def mapLookup (m : List (Int × Nat)) (p : Int) : Option Nat := m.lookup p

/-- the loop of `reduce_stack`; `m` is `reduced_param_map`, `out` the rows written so far -/
def reduceLoop (used : List Bool) : List Cmd → Nat → List (Int × Nat) → List Cmd → Option (List Cmd)
  | [], _, _, out => some out
  | cmd :: rest, i, m, out =>
    match used[i]? with
    | some true =>
      match Ops.isTerminal cmd.node with
      | none => none
      | some true => reduceLoop used rest (i+1) ((Int.ofNat i, out.length) :: m) (out ++ [cmd])
      | some false =>
        match mapLookup m cmd.p1 with
        | none => none
        | some a =>
          match Ops.isArity2 cmd.node with
          | none => none
          | some true =>
            match mapLookup m cmd.p2 with
            | none => none
            | some b => reduceLoop used rest (i+1) ((Int.ofNat i, out.length) :: m)
                          (out ++ [⟨cmd.node, Int.ofNat a, Int.ofNat b⟩])
          | some false => reduceLoop used rest (i+1) ((Int.ofNat i, out.length) :: m)
                          (out ++ [⟨cmd.node, Int.ofNat a, Int.ofNat a⟩])
    | _ => reduceLoop used rest (i+1) m out

/-- `reduce_stack(stack)` -/
def reduce (s : Stack) : Option Stack :=
  match utilized s with
  | none => none
  | some used => reduceLoop used s 0 [] []

end Reduce

end Bingo
