import Model.Key
import Model.Generated.Converge
/-!
# `EvolutionaryOptimizer.evolve_until_convergence`

A total function of the configuration, the carried optimizer state and an oracle giving, at
entry (round 0) and after each `evolve` (round k ≥ 1): the best fitness, the evaluation count,
the elapsed time at the check, the controller's estimate of remaining checkpoints and the
number of generations `get_gens_to_evolve()` returns for the following round.
The exit chain (order, statuses), the comparison operator of each criterion, the success
statuses and the final status come from `Gen.Converge`, regenerated from the source.
-/
namespace Bingo
namespace Converge

structure Cfg where
  maxGen : Nat
  minGen : Nat
  freq : Nat
  thr : Key
  stag : Option Nat
  maxEvals : Option Nat
  maxTime : Option Int            -- milliseconds
  deriving Repr

structure Obs where
  best : Key
  evals : Nat
  elapsed : Int                   -- milliseconds since start_time, at the check
  est : Option Int                -- estimate_remaining_checkpoints() * 10000, `none` = None
  gens : Nat                      -- get_gens_to_evolve() for the next round
  deriving Repr, Inhabited

structure St where
  age : Nat
  start : Nat
  improv : Nat
  best : Option Key               -- `none` = Python None (never updated yet)
  deriving Repr

inductive Outcome where
  | result (status : Nat) (ngen : Nat) (fitness : Key) (success : Bool) (rounds : List Nat) (st : St)
  | unsupported (why : String)
  | outOfFuel
  deriving Repr

/-- `_update_best_fitness` -/
def updateBest (st : St) (b : Key) : St :=
  match st.best with
  | none => { st with best := some b, improv := st.age }
  | some last => if Key.lt b last then { st with best := some b, improv := st.age } else { st with best := some b }

def cmpInt (op : String) (a b : Int) : Option Bool :=
  if op = "le" then some (decide (a ≤ b)) else if op = "lt" then some (decide (a < b))
  else if op = "ge" then some (decide (a ≥ b)) else if op = "gt" then some (decide (a > b)) else none

def cmpKey (op : String) (a b : Key) : Option Bool :=
  if op = "le" then some (Key.le a b) else if op = "lt" then some (Key.lt a b)
  else if op = "ge" then some (Key.ge a b) else if op = "gt" then some (Key.gt a b) else none

/-- does the criterion implemented by method `name` hold?  (`none`: a shape the model does not know) -/
def holds (cfg : Cfg) (st : St) (o : Obs) (name : String) : Option Bool :=
  match Gen.Converge.predicates.lookup name with
  | none => none
  | some (guard, lhs, op, rhs) =>
    if name = "_convergence" then
      if lhs = "self._best_fitness" ∧ rhs = "threshold" ∧ guard = false then cmpKey op (st.best.getD none) cfg.thr else none
    else if name = "_stagnation" then
      if lhs = "(self.generational_age - self._fitness_improvement_age)" ∧ rhs = "threshold" ∧ guard = true then
        match cfg.stag with
        | none => some false
        | some t => cmpInt op ((st.age : Int) - st.improv) t
      else none
    else if name = "_hit_max_evals" then
      if lhs = "self.get_fitness_evaluation_count()" ∧ rhs = "threshold" ∧ guard = true then
        match cfg.maxEvals with
        | none => some false
        | some t => cmpInt op o.evals t
      else none
    else if name = "_hit_time_limit" then
      if lhs = "elapsed" ∧ rhs = "threshold" ∧ guard = true then
        match cfg.maxTime with
        | none => some false
        | some t => cmpInt op o.elapsed t
      else none
    else if name = "_not_enough_time_for_another_checkpoint" then
      if lhs = "threshold" ∧ rhs = "lit:1/4" ∧ guard = true then
        match o.est with
        | none => some false
        | some e => cmpInt op e 2500
      else none
    else none

/-- `_check_exit_criteria`: first criterion of the generated chain that holds -/
def checkExit (cfg : Cfg) (st : St) (o : Obs) : List (String × Nat) → Option (Option Nat)
  | [] => some none
  | (name, status) :: rest =>
    match holds cfg st o name with
    | none => none
    | some true => some (some status)
    | some false => checkExit cfg st o rest

def mkResult (st : St) (status : Nat) (rounds : List Nat) : Outcome :=
  .result status (st.age - st.start) (st.best.getD none) (Gen.Converge.successStatuses.contains (status : Int)) rounds st

/-- the `while ... < max_generations` loop; `k` = index of the next round -/
def mainLoop (cfg : Cfg) (obs : Nat → Obs) : Nat → St → Nat → List Nat → Outcome
  | 0, _, _, _ => .outOfFuel
  | fuel+1, st, k, rounds =>
    if st.age - st.start < cfg.maxGen then
      let g := if cfg.maxTime.isNone then cfg.freq else (obs (k-1)).gens
      let st1 := { st with age := st.age + g }
      let st2 := updateBest st1 (obs k).best
      match checkExit cfg st2 (obs k) Gen.Converge.exitChain with
      | none => .unsupported "exit chain"
      | some (some status) => mkResult st2 status (rounds ++ [g])
      | some none => mainLoop cfg obs fuel st2 (k+1) (rounds ++ [g])
    else mkResult st Gen.Converge.finalStatus rounds

/-- the `while ... < min_generations` loop -/
def minLoop (cfg : Cfg) (obs : Nat → Obs) : Nat → St → Nat → List Nat → Option (St × Nat × List Nat)
  | 0, _, _, _ => none
  | fuel+1, st, k, rounds =>
    if st.age - st.start < cfg.minGen then
      let st1 := { st with age := st.age + cfg.freq }
      minLoop cfg obs fuel (updateBest st1 (obs k).best) (k+1) (rounds ++ [cfg.freq])
    else some (st, k, rounds)

/-- `evolve_until_convergence` on a carried state (age, improvement age, best so far) -/
def run (cfg : Cfg) (obs : Nat → Obs) (age improv : Nat) (best : Option Key) : Outcome :=
  let st0 : St := { age := age, start := age, improv := improv, best := best }
  let st1 := updateBest st0 (obs 0).best
  match minLoop cfg obs (cfg.minGen + 1) st1 1 [] with
  | none => .outOfFuel
  | some (st2, k, rounds) =>
    match checkExit cfg st2 (obs (k-1)) Gen.Converge.exitChain with
    | none => .unsupported "exit chain"
    | some (some status) => mkResult st2 status rounds
    | some none => mainLoop cfg obs (cfg.maxGen + 1) st2 k rounds

end Converge
end Bingo
