import Model.Scalar
/-!
# RExpr: the expression language the translator emits for `operator_eval.py`

Every `_X_forward_eval` is `return <RExpr>`; every `_X_reverse_eval` is a list of
`reverse_eval[pK] (+=|-=|=) <RExpr>` statements.  Names are resolved by parameter position by
the translator; a shape it does not know becomes `unsupported`, which makes every theorem
about that rule fail to build (never silently skipped).
-/
namespace Bingo

inductive Ref where
  | p1 | p2 | self
  deriving Repr, DecidableEq, Inhabited

inductive UnFn where
  | sin | cos | sinh | cosh | exp | log | abs | sqrt | sign
  deriving Repr, DecidableEq, Inhabited

inductive RExpr where
  | intParam                       -- float(param1)
  | loadX                          -- x[:, param1].reshape((-1, 1))
  | loadC                          -- constants[param1]
  | fwd (r : Ref)                  -- forward_eval[param1|param2|reverse_index]
  | rev                            -- reverse_eval[reverse_index]
  | lit (num : Int) (den : Nat)    -- numeric literal num/den
  | add (a b : RExpr)
  | sub (a b : RExpr)
  | mul (a b : RExpr)
  | div (a b : RExpr)
  | pow (a b : RExpr)              -- np.power
  | un (f : UnFn) (a : RExpr)      -- np.<f>
  | unsupported (why : String)
  deriving Repr, Inhabited

inductive RevMode where
  | addTo | subFrom | assign
  deriving Repr, DecidableEq, Inhabited

structure RevStmt where
  target : Ref
  mode : RevMode
  expr : RExpr
  deriving Repr, Inhabited

namespace RExpr

def supported : RExpr → Bool
  | unsupported _ => false
  | add a b | sub a b | mul a b | div a b | pow a b => a.supported && b.supported
  | un _ a => a.supported
  | _ => true

end RExpr

namespace UnFn
def apply {α : Type} [Scalar α] : UnFn → α → α
  | sin => Scalar.sin | cos => Scalar.cos | sinh => Scalar.sinh | cosh => Scalar.cosh
  | exp => Scalar.exp | log => Scalar.log | abs => Scalar.abs | sqrt => Scalar.sqrt
  | sign => Scalar.sign
end UnFn

/-- What a rule can see when it is interpreted at one stack row and one data row.
`none` is "Python would raise here" (IndexError / arithmetic on `None`). -/
structure RuleCtx (α : Type) where
  intParam : α            -- float(param1)
  loadX : Option α        -- x[row, param1]
  loadC : Option α        -- constants[param1]
  fwd : Ref → Option α    -- forward_eval[...]
  rev : Option α          -- reverse_eval[reverse_index]

namespace RExpr

def interp {α : Type} [Scalar α] (cx : RuleCtx α) : RExpr → Option α
  | intParam => some cx.intParam
  | loadX => cx.loadX
  | loadC => cx.loadC
  | fwd r => cx.fwd r
  | rev => cx.rev
  | lit n d => some (Scalar.div (Scalar.ofInt n) (Scalar.ofInt (Int.ofNat d)))
  | add a b => do let x ← a.interp cx; let y ← b.interp cx; pure (Scalar.add x y)
  | sub a b => do let x ← a.interp cx; let y ← b.interp cx; pure (Scalar.sub x y)
  | mul a b => do let x ← a.interp cx; let y ← b.interp cx; pure (Scalar.mul x y)
  | div a b => do let x ← a.interp cx; let y ← b.interp cx; pure (Scalar.div x y)
  | pow a b => do let x ← a.interp cx; let y ← b.interp cx; pure (Scalar.pow x y)
  | un f a => do let x ← a.interp cx; pure (f.apply x)
  | unsupported _ => none

end RExpr

end Bingo
