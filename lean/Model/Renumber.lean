import Model.Stack
import Model.Generated.OpDefs
/-!
# Constant renumbering in `AGraph._update`

`self._simplified_command_array[const_commands, 1] = np.arange(num_const)` (and column 2):
the k-th CONSTANT row (in row order) gets `p1 = p2 = k`.
-/
namespace Bingo
namespace Renumber

def go : List Cmd → Nat → List Cmd
  | [], _ => []
  | cmd :: rest, k =>
    if cmd.node = Gen.OpDefs.CONSTANT then ⟨cmd.node, Int.ofNat k, Int.ofNat k⟩ :: go rest (k+1)
    else cmd :: go rest k

def renumber (s : Stack) : Stack := go s 0

def numConsts (s : Stack) : Nat := (s.filter (·.node = Gen.OpDefs.CONSTANT)).length

end Renumber
end Bingo
