import Model.Stack
import Model.Renumber
import Model.Key
/-!
# The `AGraph` object as a state machine (`agraph.py`)

The simplifier is a parameter `derive : Bool → Stack → Stack` (`use_simplification ↦`
`simplify_stack` / `reduce_stack`), so everything proved here holds for any simplifier; the
driver instantiates it with the models of `reduce_stack` and of the CAS.  Constants are
opaque values `V`; `one` is the default `1.0`.
-/
namespace Bingo
namespace AG

structure St (V : Type) where
  cmd : Stack
  simp : Stack
  consts : List V
  needsOpt : Bool
  modified : Bool
  useSimp : Bool
  fit : Option Key
  fitSet : Bool
  age : Nat
  deriving Repr

variable {V : Type}

/-- `AGraph(use_simplification)` with no equation -/
def init (useSimp : Bool) : St V :=
  { cmd := [], simp := [], consts := [], needsOpt := false, modified := false, useSimp := useSimp,
    fit := none, fitSet := false, age := 0 }

/-- `_notify_modification` -/
def notify (s : St V) : St V := { s with modified := true, fit := none, fitSet := false }

/-- `command_array = a` -/
def setCmd (s : St V) (a : Stack) : St V := notify { s with cmd := a }

/-- `mutable_command_array[i] = row` (obtaining the view notifies; then the write) -/
def editRow (s : St V) (i : Nat) (row : Cmd) : St V := { notify s with cmd := s.cmd.set i row }

/-- `_update` -/
def update (derive : Bool → Stack → Stack) (one : V) (s : St V) : St V :=
  let simp := Renumber.renumber (derive s.useSimp s.cmd)
  let n := Renumber.numConsts simp
  if n ≤ s.consts.length then
    { s with simp := simp, consts := s.consts.take n, modified := false }
  else
    { s with simp := simp, consts := List.replicate n one, needsOpt := if n > 0 then true else s.needsOpt,
             modified := false }

def ensure (derive : Bool → Stack → Stack) (one : V) (s : St V) : St V :=
  if s.modified then update derive one s else s

/-- `set_local_optimization_params(p)` -/
def setConsts (s : St V) (p : List V) : St V := { s with consts := p, needsOpt := false }

/-- `fitness = v` (the setter marks the individual evaluated) -/
def setFitness (s : St V) (v : Key) : St V := { s with fit := some v, fitSet := true }

/-- `fit_set = False` (what `Island.reset_fitness` does): the stored value stays, the flag is cleared -/
def resetFlag (s : St V) : St V := { s with fitSet := false }

/-- `copy()` / `__deepcopy__`: every field -/
def copy (s : St V) : St V := s

/-- everything `evaluate`, the strings, the complexity and the constant count are functions of -/
structure Obs (V : Type) where
  simp : Stack
  consts : List V
  cmd : Stack
  deriving Repr

/-- an observation that refreshes the cache first (evaluate, str, complexity, number of params,
needs_local_optimization): returns the refreshed state too -/
def observe (derive : Bool → Stack → Stack) (one : V) (s : St V) : St V × Obs V :=
  let s' := ensure derive one s
  (s', { simp := s'.simp, consts := s'.consts, cmd := s'.cmd })

inductive Op (V : Type) where
  | setCmd (a : Stack)
  | editRow (i : Nat) (row : Cmd)
  | setConsts (p : List V)
  | observe
  | setFitness (v : Key)
  | resetFlag
  deriving Repr

def step (derive : Bool → Stack → Stack) (one : V) (s : St V) : Op V → St V
  | .setCmd a => setCmd s a
  | .editRow i row => editRow s i row
  | .setConsts p => setConsts s p
  | .observe => (observe derive one s).1
  | .setFitness v => setFitness s v
  | .resetFlag => resetFlag s

def run (derive : Bool → Stack → Stack) (one : V) (s : St V) (ops : List (Op V)) : St V :=
  ops.foldl (step derive one) s

/-- a freshly constructed equation with the same command stack, simplification setting and constants -/
def fresh (useSimp : Bool) (cmd : Stack) (consts : List V) : St V :=
  setConsts (setCmd (init useSimp) cmd) consts

end AG
end Bingo
